/-
  First layer of the bridge between the bitboard `Board` and the rule-book `Rules.Pos`:
  what `abs` says about single squares, under the representation invariant `WFP b`
  (`= Board.WF b` of Proofs/BoardBasics.lean, the propositional form of `Board.wf b = true`).
-/
import ChessVerif.Model.Abs
import ChessVerif.Proofs.BoardBasics

namespace ChessVerif.Bridge
open ChessVerif Board Rules

theorem abs_at (b : Board) (s : Nat) (hs : s < 64) : (abs b).at_ s = b.manAt s := by
  unfold Pos.at_ abs
  simp [Vector.getD, hs]

theorem abs_at_oob (b : Board) (s : Nat) (hs : 64 ≤ s) : (abs b).at_ s = none := by
  unfold Pos.at_ abs
  have : ¬ s < 64 := by omega
  simp [Vector.getD, this]

theorem getLsbD_oob (x : BB) (s : Nat) (hs : 64 ≤ s) : x.getLsbD s = false :=
  BitVec.getLsbD_of_ge x s hs

theorem manAt_oob (b : Board) (s : Nat) (hs : 64 ≤ s) : b.manAt s = none := by
  unfold manAt
  simp [getLsbD_oob _ s hs]

theorem abs_at' (b : Board) (s : Nat) : (abs b).at_ s = b.manAt s := by
  by_cases hs : s < 64
  · exact abs_at b s hs
  · rw [abs_at_oob b s (by omega), manAt_oob b s (by omega)]

/-- a square is vacant in the abstraction iff it is in neither colour set. -/
theorem abs_empty (b : Board) (s : Nat) :
    (abs b).empty s = (!(b.colorBB .white).getLsbD s && !(b.colorBB .black).getLsbD s) := by
  unfold Pos.empty
  rw [abs_at']
  unfold manAt
  by_cases hw : (b.colorBB .white).getLsbD s <;> by_cases hb : (b.colorBB .black).getLsbD s <;> simp [hw, hb]

theorem occ_get (b : Board) (s : Nat) :
    b.occ.getLsbD s = ((b.colorBB .white).getLsbD s || (b.colorBB .black).getLsbD s) := by
  unfold occ; simp

theorem abs_empty_occ (b : Board) (s : Nat) : (abs b).empty s = !(b.occ.getLsbD s) := by
  rw [abs_empty, occ_get]; simp [Bool.not_or]

/-! ### the representation invariant as a proposition -/

/-- `WFP b`: the propositional representation invariant (re-used from `Proofs/BoardBasics.lean`). -/
abbrev WFP (b : Board) : Prop := Board.WF b

theorem WFP_of_wf {b : Board} (h : b.wf = true) : WFP b := (Board.wf_iff b).2 h

theorem wf_of_WFP {b : Board} (h : WFP b) : b.wf = true := (Board.wf_iff b).1 h

theorem wf_of_valid {b : Board} (h : Board.valid b = true) : b.wf = true := by
  unfold Board.valid at h
  rw [Bool.and_eq_true] at h
  exact h.1

theorem rulesValid_of_valid {b : Board} (h : Board.valid b = true) : Rules.valid (abs b) = true := by
  unfold Board.valid at h
  rw [Bool.and_eq_true] at h
  exact h.2

theorem WFP_of_valid {b : Board} (h : Board.valid b = true) : WFP b := WFP_of_wf (wf_of_valid h)

theorem pieceAt_oob (b : Board) (s : Nat) (hs : 64 ≤ s) : b.pieceAt s = Piece.none := by
  unfold pieceAt
  rw [Board.vgetD_eq]
  have : ¬ s < 64 := by omega
  simp [this]

theorem colorBB_flip_occ (b : Board) (c : Color) (s : Nat) :
    b.occ.getLsbD s = ((b.colorBB c).getLsbD s || (b.colorBB c.flip).getLsbD s) := by
  rw [occ_get]
  cases c <;> simp [Color.flip, Bool.or_comm]

/-- piece sets agree with the per-square map. -/
theorem WFP.piece_iff {b : Board} (h : WFP b) (s : Nat) (hs : s < 64) (k : Piece) (hk : k ≠ Piece.none) :
    (b.pieceBB k).getLsbD s = true ↔ b.pieceAt s = k := h.pc s hs k hk

/-- occupied (in either colour set) iff the per-square map shows a piece. -/
theorem WFP.occ_iff {b : Board} (h : WFP b) (s : Nat) (hs : s < 64) :
    b.occ.getLsbD s = true ↔ b.pieceAt s ≠ Piece.none := by
  rw [occ_get, Bool.or_eq_true]; exact h.col s hs

theorem WFP.occ_iff' {b : Board} (h : WFP b) (s : Nat) (hs : s < 64) :
    (b.colorBB .white ||| b.colorBB .black).getLsbD s = true ↔ b.pieceAt s ≠ Piece.none :=
  h.occ_iff s hs

/-- the colour sets are disjoint. -/
theorem WFP.color_disj {b : Board} (h : WFP b) (s : Nat) :
    ¬ ((b.colorBB .white).getLsbD s = true ∧ (b.colorBB .black).getLsbD s = true) := h.disj_at s

theorem WFP.color_flip_false {b : Board} (h : WFP b) (s : Nat) (c : Color)
    (hc : (b.colorBB c).getLsbD s = true) : (b.colorBB c.flip).getLsbD s = false := by
  have := h.disj_at s
  cases c <;> simp_all [Color.flip]

theorem WFP.color_pieceAt {b : Board} (h : WFP b) (s : Nat) (c : Color)
    (hc : (b.colorBB c).getLsbD s = true) : b.pieceAt s ≠ Piece.none := by
  have hs : s < 64 := BitVec.lt_of_getLsbD hc
  apply (h.occ_iff s hs).1
  rw [colorBB_flip_occ b c, hc]; rfl

/-! ### the abstraction square by square -/

theorem manAt_eq_some {b : Board} (h : WFP b) (s : Nat) (c : Color) (k : Piece) :
    b.manAt s = some (c, k) ↔ (b.colorBB c).getLsbD s = true ∧ b.pieceAt s = k := by
  have hd := h.disj_at s
  unfold manAt
  cases hw : (b.colorBB .white).getLsbD s <;> cases hb : (b.colorBB .black).getLsbD s <;>
    cases c <;> simp_all

theorem abs_at_eq_some {b : Board} (h : WFP b) (s : Nat) (c : Color) (k : Piece) :
    (abs b).at_ s = some (c, k) ↔ (b.colorBB c).getLsbD s = true ∧ b.pieceAt s = k := by
  rw [abs_at']; exact manAt_eq_some h s c k

theorem abs_at_eq_none (b : Board) (s : Nat) : (abs b).at_ s = none ↔ b.occ.getLsbD s = false := by
  have := abs_empty_occ b s
  unfold Pos.empty at this
  rw [← Option.isNone_iff_eq_none, this]; simp

/-- the man standing on a square of colour set `c`. -/
theorem abs_at_of_color {b : Board} (h : WFP b) (s : Nat) (c : Color)
    (hc : (b.colorBB c).getLsbD s = true) : (abs b).at_ s = some (c, b.pieceAt s) :=
  (abs_at_eq_some h s c _).2 ⟨hc, rfl⟩

theorem abs_has {b : Board} (h : WFP b) (s : Nat) (c : Color) (k : Piece) :
    (abs b).has s c k = true ↔ (b.colorBB c).getLsbD s = true ∧ b.pieceAt s = k := by
  unfold Pos.has
  rw [beq_iff_eq]; exact abs_at_eq_some h s c k

theorem abs_hasColor {b : Board} (h : WFP b) (s : Nat) (c : Color) :
    (abs b).hasColor s c = (b.colorBB c).getLsbD s := by
  have hd := h.disj_at s
  unfold Pos.hasColor
  rw [abs_at']
  unfold manAt
  cases hw : (b.colorBB .white).getLsbD s <;> cases hb : (b.colorBB .black).getLsbD s <;>
    cases c <;> simp_all

theorem abs_hasColor_iff {b : Board} (h : WFP b) (s : Nat) (c : Color) :
    (abs b).hasColor s c = true ↔ (b.colorBB c).getLsbD s = true := by rw [abs_hasColor h]

theorem abs_empty_iff (b : Board) (s : Nat) : (abs b).empty s = true ↔ ¬ b.occ.getLsbD s = true := by
  rw [abs_empty_occ]; simp

theorem abs_empty_iff' (b : Board) (s : Nat) : (abs b).empty s = true ↔ b.occ.getLsbD s = false := by
  rw [abs_empty_occ]; simp

/-- set form: membership in `colour ∩ kind` is `has`. -/
theorem abs_has_set {b : Board} (h : WFP b) (s : Nat) (hs : s < 64) (c : Color) (k : Piece)
    (hk : k ≠ Piece.none) :
    (b.colorBB c &&& b.pieceBB k).getLsbD s = true ↔ (abs b).has s c k = true := by
  rw [BitVec.getLsbD_and, Bool.and_eq_true, h.piece_iff s hs k hk, abs_has h]

/-- `hasColor` unfolds to "some man of that colour stands there". -/
theorem hasColor_iff_at (p : Pos) (s : Nat) (c : Color) :
    p.hasColor s c = true ↔ ∃ k, p.at_ s = some (c, k) := by
  unfold Pos.hasColor
  cases hp : p.at_ s with
  | none => simp
  | some m => obtain ⟨c', k⟩ := m; simp

theorem has_iff_at (p : Pos) (s : Nat) (c : Color) (k : Piece) :
    p.has s c k = true ↔ p.at_ s = some (c, k) := by
  unfold Pos.has; rw [beq_iff_eq]

theorem empty_iff_at (p : Pos) (s : Nat) : p.empty s = true ↔ p.at_ s = none := by
  unfold Pos.empty; rw [Option.isNone_iff_eq_none]

/-! ### the scalar fields -/

@[simp] theorem abs_turn (b : Board) : (abs b).turn = b.stm := rfl
theorem abs_ep (b : Board) : (abs b).ep = if b.ep = 0 then none else some b.ep := rfl
theorem abs_ep_eq_some (b : Board) (t : Nat) : (abs b).ep = some t ↔ b.ep ≠ 0 ∧ t = b.ep := by
  rw [abs_ep]
  by_cases h : b.ep = 0
  · simp [h]
  · simp [h, eq_comm]
theorem abs_rights_wk (b : Board) : (abs b).rights.wk = b.castles.getLsbD 0 := rfl
theorem abs_rights_wq (b : Board) : (abs b).rights.wq = b.castles.getLsbD 1 := rfl
theorem abs_rights_bk (b : Board) : (abs b).rights.bk = b.castles.getLsbD 2 := rfl
theorem abs_rights_bq (b : Board) : (abs b).rights.bq = b.castles.getLsbD 3 := rfl

end ChessVerif.Bridge
