/-
  First layer of the bridge between the bitboard `Board` and the rule-book `Rules.Pos`:
  what `abs` says about single squares.
-/
import ChessVerif.Model.Abs

namespace ChessVerif.Bridge
open ChessVerif Board Rules

theorem abs_at (b : Board) (s : Nat) (hs : s < 64) : (abs b).at_ s = b.manAt s := by
  unfold Pos.at_ abs
  simp [Vector.getD, hs]

theorem abs_at_oob (b : Board) (s : Nat) (hs : 64 ≤ s) : (abs b).at_ s = none := by
  unfold Pos.at_ abs
  have : ¬ s < 64 := by omega
  simp [Vector.getD, this]

theorem getLsbD_oob (x : BB) (s : Nat) (hs : 64 ≤ s) : x.getLsbD s = false :=
  BitVec.getLsbD_of_ge x s hs

theorem manAt_oob (b : Board) (s : Nat) (hs : 64 ≤ s) : b.manAt s = none := by
  unfold manAt
  simp [getLsbD_oob _ s hs]

theorem abs_at' (b : Board) (s : Nat) : (abs b).at_ s = b.manAt s := by
  by_cases hs : s < 64
  · exact abs_at b s hs
  · rw [abs_at_oob b s (by omega), manAt_oob b s (by omega)]

/-- a square is vacant in the abstraction iff it is in neither colour set. -/
theorem abs_empty (b : Board) (s : Nat) :
    (abs b).empty s = (!(b.colorBB .white).getLsbD s && !(b.colorBB .black).getLsbD s) := by
  unfold Pos.empty
  rw [abs_at']
  unfold manAt
  by_cases hw : (b.colorBB .white).getLsbD s <;> by_cases hb : (b.colorBB .black).getLsbD s <;> simp [hw, hb]

theorem occ_get (b : Board) (s : Nat) :
    b.occ.getLsbD s = ((b.colorBB .white).getLsbD s || (b.colorBB .black).getLsbD s) := by
  unfold occ; simp

theorem abs_empty_occ (b : Board) (s : Nat) : (abs b).empty s = !(b.occ.getLsbD s) := by
  rw [abs_empty, occ_get]; simp [Bool.not_or]

end ChessVerif.Bridge
