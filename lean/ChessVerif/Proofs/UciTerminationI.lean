/-
  C13 — liveness, part 1 (continued): interrupt-goroutine, writer and Run transitions strictly
  decrease `mu`; the combined step theorem; the length bound on executions.
-/
import ChessVerif.Proofs.UciTerminationH
import ChessVerif.Proofs.UciProgress
namespace ChessVerif.Uci

variable {s s' : State}

theorem mu_iRecv (h : Inv s) (hf : fire .iRecv s = some s') : mu s' < mu s := by
  uci_mu h hf
theorem mu_iFin (h : Inv s) (hf : fire .iFin s = some s') : mu s' < mu s := by
  uci_mu h hf
theorem mu_iClosed (h : Inv s) (hf : fire .iClosed s = some s') : mu s' < mu s := by
  uci_mu h hf
theorem mu_iReady (h : Inv s) (hf : fire .iReady s = some s') : mu s' < mu s := by
  uci_mu h hf
theorem mu_iHit (h : Inv s) (hf : fire .iHit s = some s') : mu s' < mu s := by
  uci_mu h hf
theorem mu_iExit (h : Inv s) (hf : fire .iExit s = some s') : mu s' < mu s := by
  uci_mu h hf
theorem mu_wRecv (h : Inv s) (hf : fire .wRecv s = some s') : mu s' < mu s := by
  uci_mu h hf
theorem mu_wSink (h : Inv s) (hf : fire .wSink s = some s') : mu s' < mu s := by
  uci_mu h hf
theorem mu_wDone (h : Inv s) (hf : fire .wDone s = some s') : mu s' < mu s := by
  uci_mu h hf
theorem mu_mReturn (h : Inv s) (hf : fire .mReturn s = some s') : mu s' < mu s := by
  uci_mu h hf

/-- EVERY transition except `sInfo` strictly decreases the measure (in a state satisfying `Inv`):
    all internal ones, the GUI writing a line or closing stdin, the timer firing, the search
    finishing by itself, hitting its node limit, polling the ponderhit. -/
theorem mu_step_lt {t : Tr} (h : Inv s) (ht : t ≠ .sInfo) (hf : fire t s = some s') : mu s' < mu s := by
  cases t
  · exact mu_envLine h hf
  · exact mu_envEof h hf
  · exact mu_timer h hf
  · exact absurd rfl ht
  · exact mu_sDone h hf
  · exact mu_sAbortSelf h hf
  · exact mu_sPollHit h hf
  · exact mu_rScan h hf
  · exact mu_rEof h hf
  · exact mu_rSendClosed h hf
  · exact mu_rClose h hf
  · exact mu_hRecv h hf
  · exact mu_hClosed h hf
  · exact mu_hEmit h hf
  · exact mu_hEmitDone h hf
  · exact mu_hReady h hf
  · exact mu_hStop h hf
  · exact mu_hAbortInfo h hf
  · exact mu_hCloseFin h hf
  · exact mu_hWait h hf
  · exact mu_hBest h hf
  · exact mu_hDefer h hf
  · exact mu_hCloseOut h hf
  · exact mu_iRecv h hf
  · exact mu_iFin h hf
  · exact mu_iClosed h hf
  · exact mu_iReady h hf
  · exact mu_iHit h hf
  · exact mu_iExit h hf
  · exact mu_wRecv h hf
  · exact mu_wSink h hf
  · exact mu_wDone h hf
  · exact mu_mReturn h hf

/-- Every internal transition strictly decreases the measure. -/
theorem mu_internal_lt {t : Tr} (h : Inv s) (hk : t.kind = .internal) (hf : fire t s = some s') :
    mu s' < mu s :=
  mu_step_lt h (by rintro rfl; cases hk) hf

/-- Every environment transition strictly decreases the measure (the script is part of it). -/
theorem mu_env_lt {t : Tr} (h : Inv s) (hk : t.kind = .env) (hf : fire t s = some s') :
    mu s' < mu s :=
  mu_step_lt h (by rintro rfl; cases hk) hf

/-- A step of the search raises the measure by at most 2 (only `sInfo` raises it at all). -/
theorem mu_search_le {t : Tr} (h : Inv s) (hf : fire t s = some s') : mu s' ≤ mu s + 2 := by
  by_cases ht : t = .sInfo
  · subst ht; exact Nat.le_of_eq (mu_sInfo h hf)
  · exact Nat.le_of_lt (Nat.lt_of_lt_of_le (mu_step_lt h ht hf) (Nat.le_add_right _ _))

/-- One step, uniformly: `1 + mu s' ≤ mu s + 3·[t = sInfo]`. -/
theorem mu_step {t : Tr} (h : Inv s) (hf : fire t s = some s') :
    1 + mu s' ≤ mu s + 3 * (if t = .sInfo then 1 else 0) := by
  by_cases ht : t = .sInfo
  · subst ht; have := mu_sInfo h hf; simp; omega
  · have := mu_step_lt h ht hf; simp [ht]; omega

/-- The `sInfo` steps (the search prints an `info` line) of a transition sequence. -/
def infoSteps (ts : List Tr) : Nat := ts.count .sInfo

/-- The search's own steps of a transition sequence. -/
def Tr.isSearch : Tr → Bool
  | .sInfo | .sDone | .sAbortSelf | .sPollHit => true
  | _ => false

theorem Tr.isSearch_iff (t : Tr) : t.isSearch = true ↔ t.kind = .searchOwn := by
  cases t <;> simp [Tr.isSearch, Tr.kind]

def searchSteps (ts : List Tr) : Nat := ts.countP Tr.isSearch

theorem infoSteps_le_searchSteps (ts : List Tr) : infoSteps ts ≤ searchSteps ts := by
  unfold infoSteps searchSteps List.count
  apply List.countP_mono_left
  intro t _ ht
  have : t = .sInfo := by simpa using ht
  subst this; rfl

theorem Inv.run {ts : List Tr} (h : Inv s) (hr : run ts s = some s') : Inv s' := by
  induction ts generalizing s with
  | nil => simp [Uci.run] at hr; exact hr ▸ h
  | cons t ts ih =>
    simp only [Uci.run] at hr
    cases hf : fire t s with
    | none => simp [hf] at hr
    | some s1 => simp [hf] at hr; exact ih (h.step hf) hr

/-- **Length bound.**  Along ANY execution (any mix of internal, environment and search
    transitions, any scheduler) from a state satisfying `Inv`:
    length + final measure ≤ initial measure + 3 · (number of `info` lines the search printed). -/
theorem run_length_bound {ts : List Tr} (h : Inv s) (hr : run ts s = some s') :
    ts.length + mu s' ≤ mu s + 3 * infoSteps ts := by
  induction ts generalizing s with
  | nil => simp [Uci.run] at hr; subst hr; simp [infoSteps]
  | cons t ts ih =>
    simp only [Uci.run] at hr
    cases hf : fire t s with
    | none => simp [hf] at hr
    | some s1 =>
      simp [hf] at hr
      have h1 := ih (h.step hf) hr
      have h2 := mu_step h hf
      have h3 : infoSteps (t :: ts) = infoSteps ts + (if t = .sInfo then 1 else 0) := by
        unfold infoSteps
        rw [List.count_cons]
        by_cases ht : t = .sInfo <;> simp [ht]
      rw [h3, List.length_cons]
      omega

/-- The step relation of the driver's own goroutines (on states satisfying the invariant) is
    well-founded: there is no infinite sequence of internal transitions. -/
theorem internal_wellFounded :
    WellFounded (fun s' s : State => Inv s ∧ ∃ t : Tr, t.kind = .internal ∧ fire t s = some s') := by
  apply Subrelation.wf (r := InvImage (· < ·) mu)
  · rintro a b ⟨h, t, hk, hf⟩
    exact mu_internal_lt h hk hf
  · exact InvImage.wf mu Nat.lt_wfRel.wf

/-- The same for the whole system minus `sInfo`: GUI, timer, driver and the search's other steps. -/
theorem noInfo_wellFounded :
    WellFounded (fun s' s : State => Inv s ∧ ∃ t : Tr, t ≠ .sInfo ∧ fire t s = some s') := by
  apply Subrelation.wf (r := InvImage (· < ·) mu)
  · rintro a b ⟨h, t, hk, hf⟩
    exact mu_step_lt h hk hf
  · exact InvImage.wf mu Nat.lt_wfRel.wf

end ChessVerif.Uci
