/-
  C20, part 2: cycle walking.  If `f` permutes `[0,N)` and `n ≤ N`, then "apply `f` until the value is
  `< n`" terminates within `N` applications from every start `x < n` (pigeonhole on the orbit) and is a
  permutation of `[0,n)`.  Instantiated with the Feistel network this is `shuffleIndex`.
-/
import ChessVerif.Proofs.TunerFeistel
import Mathlib.Data.Finset.Card
import Mathlib.Logic.Function.Iterate
import Mathlib.Combinatorics.Pigeonhole

namespace ChessVerif.Tuner

/-- The rejection loop, abstractly: apply `f` until the value is `< n`, at most `fuel` times. -/
def walk (f : Nat → Nat) (n : Nat) : Nat → Nat → Option Nat
  | 0, _ => none
  | k + 1, x => if f x < n then some (f x) else walk f n k (f x)

/-- `f` maps `[0,N)` into itself injectively. -/
structure PermOn (f : Nat → Nat) (N : Nat) : Prop where
  maps : ∀ x, x < N → f x < N
  inj : ∀ x y, x < N → y < N → f x = f y → x = y

section
variable {f : Nat → Nat} {N : Nat} (hf : PermOn f N)
include hf

theorem PermOn.iter_lt (k x : Nat) (hx : x < N) : f^[k] x < N := by
  induction k with
  | zero => simpa using hx
  | succ k ih => rw [Function.iterate_succ_apply']; exact hf.maps _ ih

theorem PermOn.iter_inj (k x y : Nat) (hx : x < N) (hy : y < N) (h : f^[k] x = f^[k] y) : x = y := by
  induction k with
  | zero => simpa using h
  | succ k ih =>
    rw [Function.iterate_succ_apply', Function.iterate_succ_apply'] at h
    exact ih (hf.inj _ _ (hf.iter_lt k x hx) (hf.iter_lt k y hy) h)

/-- Pigeonhole: the orbit of `x` returns to `x` within `N` steps. -/
theorem PermOn.exists_return (x : Nat) (hx : x < N) : ∃ k, 1 ≤ k ∧ k ≤ N ∧ f^[k] x = x := by
  have hcard : (Finset.range N).card < (Finset.range (N + 1)).card := by simp
  obtain ⟨i, hi, j, hj, hne, heq⟩ := Finset.exists_ne_map_eq_of_card_lt_of_maps_to hcard
    (f := fun i => f^[i] x) (fun i _ => by simpa using hf.iter_lt i x hx)
  simp only [Finset.mem_range] at hi hj
  -- wlog i < j
  have key : ∀ i j, i < j → j < N + 1 → f^[i] x = f^[j] x → ∃ k, 1 ≤ k ∧ k ≤ N ∧ f^[k] x = x := by
    intro i j hij hj heq
    refine ⟨j - i, by omega, by omega, ?_⟩
    have e : j = i + (j - i) := by omega
    rw [e, Function.iterate_add_apply] at heq
    exact (hf.iter_inj i _ _ hx (hf.iter_lt _ x hx) heq).symm
  rcases Nat.lt_or_gt_of_ne hne with h | h
  · exact key i j h hj heq
  · exact key j i h hi heq.symm

theorem PermOn.exists_hit {n : Nat} (x : Nat) (hx : x < n) (hn : n ≤ N) :
    ∃ k, 1 ≤ k ∧ k ≤ N ∧ f^[k] x < n := by
  obtain ⟨k, h1, h2, h3⟩ := hf.exists_return x (lt_of_lt_of_le hx hn)
  exact ⟨k, h1, h2, by rw [h3]; exact hx⟩
end

/-- `k` is the first time `≥ 1` at which the orbit of `x` is below `n`. -/
def FirstHit (f : Nat → Nat) (n x k : Nat) : Prop :=
  1 ≤ k ∧ f^[k] x < n ∧ ∀ j, 1 ≤ j → j < k → ¬ f^[j] x < n

theorem walk_of_firstHit (f : Nat → Nat) (n : Nat) :
    ∀ fuel x k, FirstHit f n x k → k ≤ fuel → walk f n fuel x = some (f^[k] x) := by
  intro fuel
  induction fuel with
  | zero => intro x k h hk; have := h.1; omega
  | succ fuel ih =>
    intro x k h hk
    obtain ⟨h1, h2, h3⟩ := h
    unfold walk
    by_cases hfx : f x < n
    · have : k = 1 := by
        by_contra hne
        exact h3 1 (le_refl _) (by omega) (by simpa using hfx)
      subst this
      simp [hfx]
    · rw [if_neg hfx]
      have hk2 : 2 ≤ k := by
        by_contra hlt
        have : k = 1 := by omega
        subst this
        exact hfx (by simpa using h2)
      have e : (k - 1).succ = k := by omega
      have hit : FirstHit f n (f x) (k - 1) := by
        refine ⟨by omega, ?_, ?_⟩
        · rw [← Function.iterate_succ_apply, e]; exact h2
        · intro j hj1 hj2
          rw [← Function.iterate_succ_apply]
          exact h3 (j + 1) (by omega) (by omega)
      rw [ih (f x) (k - 1) hit (by omega), ← Function.iterate_succ_apply, e]

theorem exists_firstHit {f : Nat → Nat} {n x : Nat} (h : ∃ k, 1 ≤ k ∧ f^[k] x < n) :
    ∃ k, FirstHit f n x k ∧ ∀ k', 1 ≤ k' → f^[k'] x < n → k ≤ k' := by
  classical
  refine ⟨Nat.find h, ⟨(Nat.find_spec h).1, (Nat.find_spec h).2, ?_⟩, ?_⟩
  · intro j hj1 hj2 hlt
    exact Nat.find_min h hj2 ⟨hj1, hlt⟩
  · intro k' h1 h2
    exact Nat.find_min' h ⟨h1, h2⟩

theorem firstHit_unique {f : Nat → Nat} {n x k k' : Nat} (h : FirstHit f n x k) (h' : FirstHit f n x k') :
    k = k' := by
  rcases Nat.lt_trichotomy k k' with hlt | heq | hgt
  · exact absurd h.2.1 (h'.2.2 k h.1 hlt)
  · exact heq
  · exact absurd h'.2.1 (h.2.2 k' h'.1 hgt)

/-- **cycle_walk**: termination within `N` steps, value in range, and injectivity. -/
theorem cycle_walk {f : Nat → Nat} {N n : Nat} (hf : PermOn f N) (hn : n ≤ N) :
    (∀ x, x < n → ∃ y, y < n ∧ ∀ fuel, N ≤ fuel → walk f n fuel x = some y) ∧
    (∀ x x' y, x < n → x' < n → walk f n N x = some y → walk f n N x' = some y → x = x') := by
  have hit : ∀ x, x < n → ∃ k, FirstHit f n x k ∧ k ≤ N := by
    intro x hx
    obtain ⟨k, h1, h2, h3⟩ := hf.exists_hit x hx hn
    obtain ⟨k0, hk0, hmin⟩ := exists_firstHit ⟨k, h1, h3⟩
    exact ⟨k0, hk0, le_trans (hmin k h1 h3) h2⟩
  constructor
  · intro x hx
    obtain ⟨k, hk, hkN⟩ := hit x hx
    exact ⟨f^[k] x, hk.2.1, fun fuel hfuel => walk_of_firstHit f n fuel x k hk (le_trans hkN hfuel)⟩
  · intro x x' y hx hx' hw hw'
    obtain ⟨k, hk, hkN⟩ := hit x hx
    obtain ⟨k', hk', hkN'⟩ := hit x' hx'
    rw [walk_of_firstHit f n N x k hk hkN] at hw
    rw [walk_of_firstHit f n N x' k' hk' hkN'] at hw'
    have heq : f^[k] x = f^[k'] x' := by
      rw [Option.some.injEq] at hw hw'; rw [hw, hw']
    have hxN := lt_of_lt_of_le hx hn
    have hxN' := lt_of_lt_of_le hx' hn
    -- the later hitting time cannot be strictly later: its start would have been hit earlier
    have key : ∀ (a b ka kb : Nat), a < n → b < n → FirstHit f n a ka → FirstHit f n b kb →
        ka ≤ kb → f^[ka] a = f^[kb] b → a = b := by
      intro a b ka kb ha hb hka hkb hle he
      have e : kb = ka + (kb - ka) := by omega
      rw [e, Function.iterate_add_apply] at he
      have hab : a = f^[kb - ka] b :=
        hf.iter_inj ka _ _ (lt_of_lt_of_le ha hn) (hf.iter_lt _ b (lt_of_lt_of_le hb hn)) he
      by_cases hz : kb - ka = 0
      · rw [hz] at hab; simpa using hab
      · exact absurd (by rw [← hab]; exact ha) (hkb.2.2 (kb - ka) (by omega) (by have := hka.1; omega))
    rcases Nat.le_total k k' with hle | hle
    · exact key x x' k k' hx hx' hk hk' hle heq
    · exact (key x' x k' k hx' hx hk' hk hle heq.symm).symm

/-! ### the concrete loop -/

theorem feistel_lt (x seed bits : Nat) : feistel x seed bits < 2 ^ bits := feistelG_lt _ _ _ _

theorem feistel_permOn (seed bits : Nat) (hok : RoundsOK Gen.Tuner.feistelRounds bits) :
    PermOn (fun x => feistel x seed bits) (2 ^ bits) :=
  ⟨fun x _ => feistel_lt x seed bits,
   fun x y hx hy h => feistelG_injOn _ _ _ hok x y hx hy h⟩

theorem shuffleLoop_eq_walk (n seed bits : Nat) :
    ∀ fuel x, shuffleLoop n seed bits (2 ^ bits - 1) fuel x = walk (fun x => feistel x seed bits) n fuel x := by
  intro fuel
  induction fuel with
  | zero => intro x; rfl
  | succ fuel ih =>
    intro x
    unfold shuffleLoop walk
    simp only
    rw [Nat.and_two_pow_sub_one_eq_mod, Nat.mod_eq_of_lt (feistel_lt x seed bits), ih]

theorem le_two_pow_bitsLen (n : Nat) (hn : 2 ≤ n) : n ≤ 2 ^ bitsLen (n - 1) := by
  unfold bitsLen
  rw [if_neg (by omega)]
  have := @Nat.lt_log2_self (n - 1)
  omega

theorem bitsLen_le_64 (n : Nat) (hn : n ≤ 2 ^ 64) : bitsLen (n - 1) ≤ 64 := by
  unfold bitsLen
  split
  · omega
  · rename_i h
    have : (n - 1).log2 < 64 := (Nat.log2_lt h).2 (by omega)
    omega

theorem mask_eq (bits : Nat) (hb : bits ≤ 64) : ((1 <<< bits) % M64 + M64 - 1) % M64 = 2 ^ bits - 1 := by
  rw [Nat.one_shiftLeft]
  have hp : 0 < 2 ^ bits := Nat.two_pow_pos _
  have hle : 2 ^ bits ≤ 2 ^ 64 := Nat.pow_le_pow_right (by decide) hb
  rcases Nat.lt_or_eq_of_le hb with h | h
  · have hlt : 2 ^ bits < 2 ^ 64 := Nat.pow_lt_pow_right (by decide) h
    generalize 2 ^ bits = P at *
    simp only [M64] at *
    omega
  · subst h
    simp [M64]

/-- For `2 ≤ n ≤ 2^64` the budgeted `shuffleIndex` is the abstract walk over the Feistel permutation. -/
theorem shuffleIndexFuel_eq_walk (fuel x n seed : Nat) (h2 : 2 ≤ n) (hn : n ≤ 2 ^ 64) :
    shuffleIndexFuel fuel x n seed =
      walk (fun x => feistel x seed (bitsLen (n - 1))) n fuel x := by
  unfold shuffleIndexFuel
  rw [if_neg (by omega)]
  simp only
  rw [mask_eq _ (bitsLen_le_64 n hn), shuffleLoop_eq_walk]

/-- The number of rounds in the code is even, so the recombination is lossless for every width. -/
theorem gen_roundsOK (bits : Nat) : RoundsOK Gen.Tuner.feistelRounds bits := Or.inl (by decide)

/-- **shuffle_terminates**: with the budget `shuffleFuel n = 2^bitsLen(n-1)` (or more) the loop returns,
    the value is `< n`, and it is what `shuffleIndex` denotes. -/
theorem shuffleIndex_terminates (n seed x : Nat) (hn : n ≤ 2 ^ 64) (hx : x < n) :
    shuffleIndex x n seed < n ∧
    ∀ fuel, shuffleFuel n ≤ fuel → shuffleIndexFuel fuel x n seed = some (shuffleIndex x n seed) := by
  by_cases h2 : 2 ≤ n
  · have hperm := feistel_permOn seed (bitsLen (n - 1)) (gen_roundsOK _)
    obtain ⟨y, hy, hw⟩ := (cycle_walk hperm (le_two_pow_bitsLen n h2)).1 x hx
    have e : shuffleIndex x n seed = y := by
      unfold shuffleIndex
      rw [shuffleIndexFuel_eq_walk _ _ _ _ h2 hn, hw (shuffleFuel n) (le_refl _)]
      rfl
    rw [e]
    refine ⟨hy, fun fuel hfuel => ?_⟩
    rw [shuffleIndexFuel_eq_walk _ _ _ _ h2 hn, hw fuel hfuel]
  · have h1 : n ≤ 1 := by omega
    have e : ∀ fuel, shuffleIndexFuel fuel x n seed = some 0 := by
      intro fuel; unfold shuffleIndexFuel; rw [if_pos h1]
    refine ⟨?_, fun fuel _ => ?_⟩
    · unfold shuffleIndex; rw [e]; simpa using (by omega : 0 < n)
    · unfold shuffleIndex; rw [e, e]; rfl

theorem shuffleIndex_injOn (n seed x x' : Nat) (hn : n ≤ 2 ^ 64) (hx : x < n) (hx' : x' < n)
    (h : shuffleIndex x n seed = shuffleIndex x' n seed) : x = x' := by
  by_cases h2 : 2 ≤ n
  · have hperm := feistel_permOn seed (bitsLen (n - 1)) (gen_roundsOK _)
    have t := (shuffleIndex_terminates n seed x hn hx).2 _ (le_refl _)
    have t' := (shuffleIndex_terminates n seed x' hn hx').2 _ (le_refl _)
    rw [shuffleIndexFuel_eq_walk _ _ _ _ h2 hn] at t t'
    rw [← h] at t'
    exact (cycle_walk hperm (le_two_pow_bitsLen n h2)).2 x x' _ hx hx' t t'
  · omega

/-- **shuffle_perm**: for every `n ≤ 2^64` (every `uint64`) and every seed, `shuffleIndex · n seed`
    maps `[0,n)` bijectively onto `[0,n)`. -/
theorem shuffleIndex_bijOn (n seed : Nat) (hn : n ≤ 2 ^ 64) :
    Set.BijOn (fun x => shuffleIndex x n seed) (Set.Iio n) (Set.Iio n) := by
  have maps : Set.MapsTo (fun x => shuffleIndex x n seed) (Set.Iio n) (Set.Iio n) :=
    fun x hx => (shuffleIndex_terminates n seed x hn hx).1
  refine (Set.Finite.injOn_iff_bijOn_of_mapsTo (Set.finite_lt_nat n) maps).1 ?_
  intro x hx y hy h
  exact shuffleIndex_injOn n seed x y hn hx hy h

end ChessVerif.Tuner
