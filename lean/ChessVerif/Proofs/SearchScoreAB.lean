/-
  Score range, alphaBeta part: an un-aborted `alphaBeta` returns a value in `[-Inf, Inf]` and keeps
  the table predicate `TTok` (on every path, aborted or not: every store is behind an abort check).
-/
import ChessVerif.Proofs.SearchScoreQ

namespace ChessVerif
namespace Search

variable {σ π : Type} [PsInv σ] {t0 : Bool}

/-- what an alphaBeta-like function guarantees about scores — guarded by the ghost flag (see `QRange`). -/
def ABRange (Good : Board → Prop) (TTok : σ → Prop) (t0 : Bool) (child : Child σ) : Prop :=
  ∀ a b d ply nt s, Good s.board → 0 ≤ ply → ply ≤ 63 → (s.nmpOut = false → WinOK a b) → TTA TTok t0 s →
    TTA TTok t0 (child a b d ply nt s).2 ∧
      ((child a b d ply nt s).2.aborted = false → (child a b d ply nt s).2.nmpOut = false →
        RelP ply (child a b d ply nt s).1)

theorem callChild_range {Good : Board → Prop} {TTok : σ → Prop} (child : Child σ) (hr : ABRange Good TTok t0 child)
    (a b : Score) (d : Int) {ply : Int} (h0 : 0 ≤ ply) (h1 : ply < 63) (nt : NodeType) (s : St σ) (hg : Good s.board)
    (hw : s.nmpOut = false → WinOK a b) (htt : TTA TTok t0 s) :
    let o := callChild child a b d (wrapS8 (ply + 1)) nt s
    TTA TTok t0 o.2 ∧ (o.2.aborted = false → o.2.nmpOut = false → RelP ply o.1) := by
  have := hr a b d (wrapS8 (ply + 1)) nt s hg (by rw [wrapS8_succ h0 h1]; omega) (by rw [wrapS8_succ h0 h1]; omega) hw htt
  have e := wrapS8_succ h0 h1
  generalize wrapS8 (ply + 1) = q at this e ⊢
  subst e
  exact ⟨this.1, fun h hA => neg_relP h0 (this.2 h hA)⟩

theorem searchRest_range (c : Comp σ π) (L : Limits) {Good : Board → Prop} {TTok : σ → Prop} (child : Child σ)
    (hc : ABSpec c L Good child) (hr : ABRange Good TTok t0 child) (x : ABCtx) (l : ABLoop π) (next : NodeType) (s : St σ)
    (hg : Good s.board) (h0 : 0 ≤ x.ply) (h1 : x.ply < 63) (htt : TTA TTok t0 s)
    (hn : s.nmpOut = false → -10001 ≤ l.alpha ∧ l.alpha ≤ 10000 ∧ -10000 ≤ x.beta ∧ x.beta ≤ 32767) :
    let o := searchRest child x l next s
    TTA TTok t0 o.2 ∧ (o.2.aborted = false → o.2.nmpOut = false → RelP x.ply o.1) := by
  simp only [searchRest]
  have c2 := callChild_post c L child hc (wrapS16 (neg l.alpha - 1)) (neg l.alpha) (wrapS8 (x.d - 1)) h0 h1 next s hg htt.1
  have r2 := callChild_range child hr (wrapS16 (neg l.alpha - 1)) (neg l.alpha) (wrapS8 (x.d - 1)) h0 h1 next s hg
    (fun hA => winOK_null (hn hA).1 (hn hA).2.1) htt
  simp only at c2 r2
  generalize callChild child (wrapS16 (neg l.alpha - 1)) (neg l.alpha) (wrapS8 (x.d - 1)) (wrapS8 (x.ply + 1)) next s = o2 at c2 r2 ⊢
  have hg2 : Good o2.2.board := by rw [c2.1.board]; exact hg
  split
  · exact r2
  · split
    · exact r2
    · exact callChild_range child hr (neg x.beta) (neg l.alpha) (wrapS8 (x.d - 1)) h0 h1 next o2.2 hg2
        (fun hA => by
          obtain ⟨ha1, ha2, hb1, hb2⟩ := hn (c2.1.mono.a_back hA)
          exact winOK_full (by simp only [Score] at *; omega) ha2 hb1 hb2) r2.1

theorem searchMove_range (c : Comp σ π) (L : Limits) {Good : Board → Prop} {TTok : σ → Prop} {μ : Board → Nat}
    (sl : ScoreLaws c Good TTok μ) (child : Child σ)
    (hc : ABSpec c L Good child) (hr : ABRange Good TTok t0 child) (x : ABCtx) (l : ABLoop π) (next : NodeType) (s : St σ)
    (hg : Good s.board) (h0 : 0 ≤ x.ply) (h1 : x.ply < 63) (htt : TTA TTok t0 s)
    (hn : s.nmpOut = false → -32767 ≤ l.alpha ∧ l.alpha ≤ 10000 ∧ (2 ≤ l.quietCnt → -10000 ≤ l.alpha) ∧
      -10000 ≤ x.beta ∧ x.beta ≤ 32767) :
    let o := searchMove c child x l next s
    TTA TTok t0 o.2 ∧ (o.2.aborted = false → o.2.nmpOut = false → RelP x.ply o.1) := by
  simp only [searchMove]
  split
  · next hlmr =>
    have hq : c.lmrTry x.d l.quietCnt = true := by
      simp only [Bool.and_eq_true] at hlmr; exact hlmr.1
    have hn' : s.nmpOut = false → -10001 ≤ l.alpha ∧ l.alpha ≤ 10000 ∧ -10000 ≤ x.beta ∧ x.beta ≤ 32767 := fun hA => by
      obtain ⟨_, ha2, hlow, hb1, hb2⟩ := hn hA
      have := hlow (sl.lmr_late _ _ hq)
      exact ⟨by simp only [Score] at *; omega, ha2, hb1, hb2⟩
    split
    · have c1 := callChild_post c L child hc (wrapS16 (neg l.alpha - 1)) (neg l.alpha)
        (c.lmr x.d (l.moveCnt - 1) x.improving x.nt) h0 h1 next s hg htt.1
      have r1 := callChild_range child hr (wrapS16 (neg l.alpha - 1)) (neg l.alpha)
        (c.lmr x.d (l.moveCnt - 1) x.improving x.nt) h0 h1 next s hg
        (fun hA => winOK_null (hn' hA).1 (hn' hA).2.1) htt
      simp only at c1 r1
      generalize callChild child (wrapS16 (neg l.alpha - 1)) (neg l.alpha) (c.lmr x.d (l.moveCnt - 1) x.improving x.nt)
        (wrapS8 (x.ply + 1)) next s = o1 at c1 r1 ⊢
      have hg1 : Good o1.2.board := by rw [c1.1.board]; exact hg
      split
      · exact r1
      · exact searchRest_range c L child hc hr x l next o1.2 hg1 h0 h1 r1.1 (fun hA => hn' (c1.1.mono.a_back hA))
    · split
      · exact ⟨htt, fun _ _ => relP_zero _⟩
      · exact searchRest_range c L child hc hr x l next s hg h0 h1 htt hn'
  · exact callChild_range child hr (neg x.beta) (neg l.alpha) (wrapS8 (x.d - 1)) h0 h1 next s hg
      (fun hA => by
        obtain ⟨ha0, ha2, _, hb1, hb2⟩ := hn hA
        exact winOK_full ha0 ha2 hb1 hb2) htt

/-- the invariant of the move loop at its head (`alpha0` = the node's alpha on entry). -/
structure ABInv (ply alpha0 : Int) (l : ABLoop π) : Prop where
  a1 : -32767 ≤ l.alpha
  a2 : l.alpha ≤ 10000
  m1 : l.hasLegal = true → InR l.maxim
  mp : l.hasLegal = true → RelP ply l.maxim
  m0 : l.hasLegal = false → l.maxim = -10001
  qc : l.quietCnt ≤ l.moveCnt
  mc : 0 ≤ l.moveCnt
  lo : 1 ≤ l.moveCnt → -10000 ≤ l.alpha
  fl : l.failLow = true → l.alpha = alpha0 ∧ (l.hasLegal = true → l.maxim ≤ l.alpha)

theorem maxim_step {value maxim : Int} (hv : InR value) (hm : InR maxim ∨ maxim = -10001) :
    InR (if value > maxim then value else maxim) := by
  unfold InR at *
  split <;> omega

theorem maxim_step_rel {p value maxim : Int} (hv : RelP p value) (hm : RelP p maxim ∨ maxim = -10001) :
    RelP p (if value > maxim then value else maxim) := by
  unfold RelP hiP at *
  split <;> omega

theorem maxim_le {value maxim alpha : Int} (hv : InR value) (hva : value ≤ alpha) (hm : maxim = -10001 ∨ maxim ≤ alpha) :
    (if value > maxim then value else maxim) ≤ alpha := by
  unfold InR at *
  split <;> omega

/-- `abAfter` on a loop record `l` that `abEnter` has just updated (flag down). -/
theorem abAfter_range0 (c : Comp σ π) (L : Limits) {Good : Board → Prop} {TTok : σ → Prop} {μ : Board → Nat}
    (hlw : Laws c Good) (sl : ScoreLaws c Good TTok μ) (x : ABCtx) (m : Move) (r : Board.Reverse)
    (l : ABLoop π) (value : Score) (s : St σ) (alpha0 : Int) (h0 : 0 ≤ x.ply) (h1 : x.ply < 63) (htt : TTok s.ps)
    (hgb : Good (s.board.undoMove m r)) (hmb : m ∈ MoveGen.gen (s.board.undoMove m r))
    (hv : s.aborted = false → RelP x.ply value)
    (a1 : -32767 ≤ l.alpha) (a2 : l.alpha ≤ 10000) (hm : InR l.maxim ∨ l.maxim = -10001)
    (hmp : RelP x.ply l.maxim ∨ l.maxim = -10001)
    (qc : l.quietCnt ≤ l.moveCnt) (mc : 1 ≤ l.moveCnt) (hleg : l.hasLegal = true)
    (fl : l.failLow = true → l.alpha = alpha0 ∧ (l.maxim = -10001 ∨ l.maxim ≤ l.alpha)) :
    let o := abAfter c L x m r l value s
    TTok o.2.ps ∧ (∀ v, o.1 = .ret v → o.2.aborted = false → RelP x.ply v) ∧
      (∀ l', (o.1 = .cont l' ∨ o.1 = .brk l') → ABInv x.ply alpha0 l') := by
  simp only [abAfter]
  have hps := abort_ps L (s.setBoard (s.board.undoMove m r)).pop
  have hfa := @abort_false σ _ L (s.setBoard (s.board.undoMove m r)).pop
  have hat := abort_true_iff L (s.setBoard (s.board.undoMove m r)).pop
  have hbd : (abort L (s.setBoard (s.board.undoMove m r)).pop).2.board = s.board.undoMove m r :=
    (abort_frame L (s.setBoard (s.board.undoMove m r)).pop).board
  generalize abort L (s.setBoard (s.board.undoMove m r)).pop = as at hps hfa hat hbd ⊢
  have htt' : TTok as.2.ps := by rw [hps]; exact htt
  split
  · next hab =>
    refine ⟨htt', fun v _ hna => ?_, (fun l' h => by rcases h with h | h <;> cases h)⟩
    rw [← hat, hab] at hna; cases hna
  · next hab =>
    have hab' : as.1 = false := by simpa using hab
    have hvp : RelP x.ply value := hv (by simpa using (hfa hab').2)
    have hvr : InR value := hvp.inR h0
    have hmx : InR (if value > l.maxim then value else l.maxim) := maxim_step hvr hm
    have hmxp : RelP x.ply (if value > l.maxim then value else l.maxim) := maxim_step_rel hvp hmp
    split
    · next hgt =>
      have hgt' : (l.alpha : Int) < value := hgt
      split
      · refine ⟨sl.tt_failHigh _ _ _ _ _ (sl.tt_store _ _ _ _ _ _ _ htt' h0 (by omega) hvp
            (hlw.ok_store _ _ _ _ _ _ _ (sl.tt_ok _ htt') (by rw [hbd]; exact hgb) (Or.inr (by rw [hbd]; exact hmb)))),
          fun v hv' _ => ?_,
          (fun l' h => by rcases h with h | h <;> cases h)⟩
        cases hv'; exact hvp
      · have hinv : ABInv x.ply alpha0 { l with maxim := (if value > l.maxim then value else l.maxim), pick := c.setWeight l.pick value, failLow := false, alpha := value, bestMove := m } :=
          ⟨Int.le_trans (by decide) hvr.1, hvr.2, fun _ => hmx, fun _ => hmxp, (fun h => by rw [hleg] at h; cases h), qc,
           Int.le_trans (by decide) mc, fun _ => hvr.1, (fun h => by cases h)⟩
        split
        · exact ⟨htt', (fun v h => by cases h), fun l' h => by rcases h with h | h <;> cases h; exact hinv⟩
        · exact ⟨htt', (fun v h => by cases h), fun l' h => by rcases h with h | h <;> cases h; exact hinv⟩
    · next hle =>
      have hle' : value ≤ (l.alpha : Int) := Int.not_lt.1 hle
      have hinv : ABInv x.ply alpha0 { l with maxim := (if value > l.maxim then value else l.maxim), pick := c.setWeight l.pick (-Inf) } :=
        ⟨a1, a2, fun _ => hmx, fun _ => hmxp, (fun h => by rw [hleg] at h; cases h), qc, Int.le_trans (by decide) mc,
         fun _ => Int.le_trans hvr.1 hle', fun h => ⟨(fl h).1, fun _ => maxim_le hvr hle' (fl h).2⟩⟩
      split
      · exact ⟨htt', (fun v h => by cases h), fun l' h => by rcases h with h | h <;> cases h; exact hinv⟩
      · exact ⟨htt', (fun v h => by cases h), fun l' h => by rcases h with h | h <;> cases h; exact hinv⟩

omit [PsInv σ] in
/-- `abAfter` does not touch the ghost flag. -/
theorem abAfter_nmpOut (c : Comp σ π) (L : Limits) (x : ABCtx) (m : Move) (r : Board.Reverse) (l : ABLoop π)
    (value : Score) (s : St σ) : (abAfter c L x m r l value s).2.nmpOut = s.nmpOut := by
  simp only [abAfter]
  have han : (abort L (s.setBoard (s.board.undoMove m r)).pop).2.nmpOut = s.nmpOut := abort_nmpOut L _
  generalize abort L (s.setBoard (s.board.undoMove m r)).pop = as at han ⊢
  split
  · exact han
  · split
    · split
      · exact han
      · split <;> exact han
    · split <;> exact han

/-- `abAfter` does not raise the flag `ttOut` when the value it may store is ply-consistent. -/
theorem abAfter_ttOut_keep (c : Comp σ π) (L : Limits) (x : ABCtx) (m : Move) (r : Board.Reverse) (l : ABLoop π)
    (value : Score) (s : St σ) (hv : s.aborted = false → RelP x.ply value) (ht : s.ttOut = false) :
    (abAfter c L x m r l value s).2.ttOut = false := by
  simp only [abAfter]
  have han : (abort L (s.setBoard (s.board.undoMove m r)).pop).2.ttOut = s.ttOut := abort_ttOut L _
  have hfa := @abort_false σ _ L (s.setBoard (s.board.undoMove m r)).pop
  generalize abort L (s.setBoard (s.board.undoMove m r)).pop = as at han hfa ⊢
  have hT : as.2.ttOut = false := by rw [han]; exact ht
  split
  · exact hT
  · next hab =>
    have hab' : as.1 = false := by simpa using hab
    have hvp : RelP x.ply value := hv (by simpa using (hfa hab').2)
    split
    · split
      · exact flagTT_keep hT (not_bad_of_relP hvp)
      · split <;> exact hT
    · split <;> exact hT

/-- `abAfter`, guarded by the ghost flag. -/
theorem abAfter_range (c : Comp σ π) (L : Limits) {Good : Board → Prop} {TTok : σ → Prop} {μ : Board → Nat}
    (hlw : Laws c Good) (sl : ScoreLaws c Good TTok μ) (x : ABCtx) (m : Move) (r : Board.Reverse)
    (l : ABLoop π) (value : Score) (s : St σ) (alpha0 : Int) (h0 : 0 ≤ x.ply) (h1 : x.ply < 63) (htt : TTA TTok t0 s)
    (hgb : Good (s.board.undoMove m r)) (hmb : m ∈ MoveGen.gen (s.board.undoMove m r))
    (hv : s.aborted = false → s.nmpOut = false → RelP x.ply value) (hleg : l.hasLegal = true)
    (hn : s.nmpOut = false → -32767 ≤ l.alpha ∧ l.alpha ≤ 10000 ∧ (InR l.maxim ∨ l.maxim = -10001) ∧
      (RelP x.ply l.maxim ∨ l.maxim = -10001) ∧ l.quietCnt ≤ l.moveCnt ∧ 1 ≤ l.moveCnt ∧
      (l.failLow = true → l.alpha = alpha0 ∧ (l.maxim = -10001 ∨ l.maxim ≤ l.alpha))) :
    let o := abAfter c L x m r l value s
    TTA TTok t0 o.2 ∧ (∀ v, o.1 = .ret v → o.2.aborted = false → o.2.nmpOut = false → RelP x.ply v) ∧
      (∀ l', (o.1 = .cont l' ∨ o.1 = .brk l') → o.2.nmpOut = false → ABInv x.ply alpha0 l') := by
  intro o
  have han : o.2.nmpOut = s.nmpOut := abAfter_nmpOut c L x m r l value s
  have hsp := abAfter_spec c L hlw x m r l value s hgb hmb
  have core := fun (hA : s.nmpOut = false) =>
    abAfter_range0 c L hlw sl x m r l value s alpha0 h0 h1 (htt.2 hA).1 hgb hmb (fun hab => hv hab hA)
      (hn hA).1 (hn hA).2.1 (hn hA).2.2.1 (hn hA).2.2.2.1 (hn hA).2.2.2.2.1 (hn hA).2.2.2.2.2.1 hleg (hn hA).2.2.2.2.2.2
  refine ⟨⟨hsp.1.ps_ok htt.1, fun hA => ⟨(core (by rw [← han]; exact hA)).1, fun ht =>
      abAfter_ttOut_keep c L x m r l value s (fun hab => hv hab (by rw [← han]; exact hA))
        ((htt.2 (by rw [← han]; exact hA)).2 ht)⟩⟩,
    fun v hv' hna hA => (core (by rw [← han]; exact hA)).2.1 v hv' hna,
    fun l' hl' hA => (core (by rw [← han]; exact hA)).2.2 l' hl'⟩

theorem abLoop_range (c : Comp σ π) (L : Limits) {Good : Board → Prop} {TTok : σ → Prop} {μ : Board → Nat}
    (hl : Laws c Good) (sl : ScoreLaws c Good TTok μ) (child : Child σ)
    (hc : ABSpec c L Good child) (hr : ABRange Good TTok t0 child) (x : ABCtx) (h0 : 0 ≤ x.ply) (h1 : x.ply < 63)
    (hmv : Move) (alpha0 : Int) :
    ∀ (n : Nat) (l : ABLoop π) (s : St σ), Good s.board → s.board.fifty < 100 → HashOK c s.board hmv →
      Reach c s.board hmv l.pick l.yielded → TTA TTok t0 s →
      (s.nmpOut = false → -10000 ≤ x.beta ∧ x.beta ≤ 32767 ∧ ABInv x.ply alpha0 l) →
      (l.bestMove = 0 ∨ l.bestMove ∈ MoveGen.gen s.board) →
      let o := abLoop c L child x n l s
      TTA TTok t0 o.2 ∧ (∀ v, o.1 = .ret v → o.2.aborted = false → o.2.nmpOut = false → RelP x.ply v) ∧
        (∀ l', o.1 = .done l' → (o.2.nmpOut = false → ABInv x.ply alpha0 l') ∧
          (l'.bestMove = 0 ∨ l'.bestMove ∈ MoveGen.gen s.board) ∧ o.2.board = s.board) := by
  intro n
  induction n with
  | zero => intro l s _ _ _ _ htt _ _; exact ⟨⟨htt.1, htt.2⟩, (fun v _ h => by cases h), fun l' h => by cases h⟩
  | succ n ih =>
    intro l s hg hfl hhash hreach htt hinv hbest
    simp only [abLoop]
    split
    · exact ⟨htt, (fun v h => by cases h), fun l' h => by cases h; exact ⟨fun hA => (hinv hA).2.2, hbest, rfl⟩⟩
    · next m pk hpick =>
      have hmem : m ∈ MoveGen.gen s.board := hl.pick_mem _ _ _ _ _ _ _ _ hg hhash hreach htt.1 hpick
      have hreach' : Reach c s.board hmv pk (m :: l.yielded) := Reach.next hreach htt.1 hpick
      have hu := hl.undo_make s.board m hg hmem
      have hinv0 : s.nmpOut = false → -10000 ≤ x.beta ∧ x.beta ≤ 32767 ∧
          ABInv x.ply alpha0 { l with pick := pk, yielded := m :: l.yielded } := fun hA => by
        obtain ⟨hb1, hb2, hi⟩ := hinv hA
        exact ⟨hb1, hb2, hi.a1, hi.a2, hi.m1, hi.mp, hi.m0, hi.qc, hi.mc, hi.lo, hi.fl⟩
      split
      · rw [hu, setBoard_self]; exact ih _ s hg hfl hhash hreach' htt hinv0 hbest
      · next hchk =>
        have hchk' : (s.board.makeMove c.keys m).1.inCheck s.board.stm = false := by simpa using hchk
        have hg' := hl.good_make s.board m hg hfl hmem hchk'
        generalize hl2 : abEnter { l with pick := pk, yielded := m :: l.yielded } (s.board.pieceAt (s.board.captureSq m)) m = l2
        have e_alpha : l2.alpha = l.alpha := by rw [← hl2]; rfl
        have e_maxim : l2.maxim = l.maxim := by rw [← hl2]; rfl
        have e_fl : l2.failLow = l.failLow := by rw [← hl2]; rfl
        have e_leg : l2.hasLegal = true := by rw [← hl2]; rfl
        have e_mc : l2.moveCnt = l.moveCnt + 1 := by rw [← hl2]; rfl
        have e_qc : l2.quietCnt ≤ l.quietCnt + 1 ∧ l.quietCnt ≤ l2.quietCnt := by
          rw [← hl2]; simp only [abEnter]; split <;> omega
        -- what the invariant says about the loop record after `abEnter`
        have hn2 : s.nmpOut = false → -32767 ≤ l2.alpha ∧ l2.alpha ≤ 10000 ∧ (InR l2.maxim ∨ l2.maxim = -10001) ∧
            (RelP x.ply l2.maxim ∨ l2.maxim = -10001) ∧ l2.quietCnt ≤ l2.moveCnt ∧ 1 ≤ l2.moveCnt ∧
            (l2.failLow = true → l2.alpha = alpha0 ∧ (l2.maxim = -10001 ∨ l2.maxim ≤ l2.alpha)) := fun hA => by
          obtain ⟨_, _, hi⟩ := hinv hA
          refine ⟨by rw [e_alpha]; exact hi.a1, by rw [e_alpha]; exact hi.a2, ?_, ?_,
            by rw [e_mc]; have := hi.qc; omega, by rw [e_mc]; have := hi.mc; omega, ?_⟩
          · rw [e_maxim]
            cases hh : l.hasLegal
            · exact Or.inr (hi.m0 hh)
            · exact Or.inl (hi.m1 hh)
          · rw [e_maxim]
            cases hh : l.hasLegal
            · exact Or.inr (hi.m0 hh)
            · exact Or.inl (hi.mp hh)
          · intro h
            rw [e_fl] at h
            rw [e_alpha, e_maxim]
            refine ⟨(hi.fl h).1, ?_⟩
            cases hh : l.hasLegal
            · exact Or.inl (hi.m0 hh)
            · exact Or.inr ((hi.fl h).2 hh)
        have hnm : s.nmpOut = false → -32767 ≤ l2.alpha ∧ l2.alpha ≤ 10000 ∧ (2 ≤ l2.quietCnt → -10000 ≤ l2.alpha) ∧
            -10000 ≤ x.beta ∧ x.beta ≤ 32767 := fun hA => by
          obtain ⟨hb1, hb2, hi⟩ := hinv hA
          refine ⟨by rw [e_alpha]; exact hi.a1, by rw [e_alpha]; exact hi.a2, fun h2 => ?_, hb1, hb2⟩
          rw [e_alpha]; exact hi.lo (by have := hi.qc; omega)
        have hsm := searchMove_spec c L child hc x l2 (nextNodeType x.nt l2.moveCnt)
          ((s.setBoard (s.board.makeMove c.keys m).1).push
            { piece := s.board.pieceAt (Move.src m), to := Move.dst m, score := x.staticEval }) hg' htt.1 h0 h1
        have hsr := searchMove_range c L sl child hc hr x l2 (nextNodeType x.nt l2.moveCnt)
          ((s.setBoard (s.board.makeMove c.keys m).1).push
            { piece := s.board.pieceAt (Move.src m), to := Move.dst m, score := x.staticEval }) hg' h0 h1
          (htt.congr rfl rfl) hnm
        simp only at hsm hsr
        generalize searchMove c child x l2 (nextNodeType x.nt l2.moveCnt)
          ((s.setBoard (s.board.makeMove c.keys m).1).push
            { piece := s.board.pieceAt (Move.src m), to := Move.dst m, score := x.staticEval }) = r at hsm hsr ⊢
        have hub : r.2.board.undoMove m (s.board.makeMove c.keys m).2 = s.board := by
          rw [hsm.1.board]; simpa using hu
        have hback : r.2.nmpOut = false → s.nmpOut = false := fun h => hsm.1.mono.a_back h
        have ha := abAfter_spec c L hl x m (s.board.makeMove c.keys m).2 l2 r.1 r.2
          (by rw [hub]; exact hg) (by rw [hub]; exact hmem)
        have hbm := abAfter_best c L x m (s.board.makeMove c.keys m).2 l2 r.1 r.2
        have har := abAfter_range c L hl sl x m (s.board.makeMove c.keys m).2 l2 r.1 r.2 alpha0 h0 h1 hsr.1
          (by rw [hub]; exact hg) (by rw [hub]; exact hmem) hsr.2 e_leg (fun hA => hn2 (hback hA))
        simp only at ha har
        generalize abAfter c L x m (s.board.makeMove c.keys m).2 l2 r.1 r.2 = o at ha har hbm ⊢
        obtain ⟨hsf, _, _⟩ := hsm
        obtain ⟨hm1, hb1', _, _, _, hpick'⟩ := ha
        obtain ⟨htt', hret, hcb⟩ := har
        have hboard : o.2.board = s.board := by rw [hb1', hsf.board]; simpa using hu
        have hback2 : o.2.nmpOut = false → s.nmpOut = false := fun h => hback (hm1.a_back h)
        have hbest2 : ∀ l', (o.1 = .cont l' ∨ o.1 = .brk l') → l'.bestMove = 0 ∨ l'.bestMove ∈ MoveGen.gen s.board := by
          intro l' h'
          have e2 : l2.bestMove = l.bestMove := by rw [← hl2]; rfl
          rcases hbm l' h' with e | e
          · rw [e, e2]; exact hbest
          · rw [e]; exact Or.inr hmem
        obtain ⟨st, s'⟩ := o
        cases st with
        | ret v =>
          refine ⟨htt', fun y hy hna hA => ?_, (fun l' h => by cases h)⟩
          have : v = y := by simpa using hy
          subst this; exact hret v rfl hna hA
        | brk l' =>
          refine ⟨htt', (fun v h => by cases h), fun l'' h => ?_⟩
          have : l' = l'' := by simpa using h
          subst this; exact ⟨hcb l' (Or.inr rfl), hbest2 l' (Or.inr rfl), hboard⟩
        | cont l' =>
          simp only at hboard htt' hback2 hcb ⊢
          have hr2 : Reach c s'.board hmv l'.pick l'.yielded := by
            obtain ⟨hy, w, hw⟩ := hpick' l' (Or.inl rfl)
            rw [hboard, hy, hw, ← hl2]
            exact Reach.weight hreach'
          have := ih l' s' (by rw [hboard]; exact hg) (by rw [hboard]; exact hfl) (by rw [hboard]; exact hhash) hr2 htt'
            (fun hA => ⟨(hinv (hback2 hA)).1, (hinv (hback2 hA)).2.1, hcb l' (Or.inl rfl) hA⟩)
            (by rw [hboard]; exact hbest2 l' (Or.inl rfl))
          rw [hboard] at this
          exact this

omit [PsInv σ] in
theorem flag_false {s : St σ} {a : Bool} (h : (s.flagNmp a).nmpOut = false) : s.nmpOut = false ∧ a = false := by
  have : (s.nmpOut || a) = false := h
  simpa using this

theorem nullMove_range (c : Comp σ π) (L : Limits) {Good : Board → Prop} {TTok : σ → Prop} (hl : Laws c Good)
    (child : Child σ) (hc : ABSpec c L Good child)
    (hr : ABRange Good TTok t0 child) (beta : Score) (d : Int) {ply : Int} (h0 : 0 ≤ ply) (h1 : ply < 63) (se : Score)
    (s : St σ) (hg : Good s.board) (hchk : s.board.inCheck s.board.stm = false) (htt : TTA TTok t0 s)
    (hb : s.nmpOut = false → -10000 ≤ beta ∧ beta ≤ 9936) :
    let o := nullMove c child beta d ply se s
    TTA TTok t0 o.2 ∧ (∀ v, o.1 = some v → o.2.aborted = false → o.2.nmpOut = false → RelP ply v) := by
  simp only [nullMove]
  have hg' := hl.good_null s.board hg hchk
  have cc := callChild_post c L child hc (neg beta) (wrapS16 (neg beta + 1)) (c.nmpDepth d se beta) h0 h1 .cut
    (s.setBoard (s.board.makeNull c.keys).1) hg' htt.1
  have rr := callChild_range child hr (neg beta) (wrapS16 (neg beta + 1)) (c.nmpDepth d se beta) h0 h1 .cut
    (s.setBoard (s.board.makeNull c.keys).1) hg'
    (fun hA => winOK_nmp (hb hA).1 (Int.le_trans (hb hA).2 (by decide))) (htt.congr rfl rfl)
  simp only at rr cc
  generalize callChild child (neg beta) (wrapS16 (neg beta + 1)) (c.nmpDepth d se beta) (wrapS8 (ply + 1)) .cut
    (s.setBoard (s.board.makeNull c.keys).1) = r at rr cc ⊢
  have hback : r.2.nmpOut = false → s.nmpOut = false := fun h => cc.1.mono.a_back h
  split
  · refine ⟨⟨rr.1.1, fun hA => rr.1.2 (flag_false hA).1⟩, fun v hv hna hA => ?_⟩
    obtain ⟨hAr, hfl⟩ := flag_false hA
    simp only [Option.some.injEq] at hv
    subst hv
    split
    · next hge =>
      -- the mate branch: the flag is down, so `beta` is not below the mated-at-this-ply score
      have hnb : ¬ (beta < -Inf + ply) := by
        intro hlt
        have h1' : decide (r.1 ≥ Inf - maxPlies) = true := decide_eq_true hge
        have h2' : decide (beta < -Inf + ply) = true := decide_eq_true hlt
        rw [h1', h2'] at hfl
        cases hfl
      have hub := (hb (hback hAr)).2
      unfold RelP hiP
      rw [Inf_eq] at hnb
      simp only [Score] at *
      omega
    · exact rr.2 hna hAr
  · exact ⟨rr.1, fun v hv => by cases hv⟩

theorem abMoves_range (c : Comp σ π) (L : Limits) {Good : Board → Prop} {TTok : σ → Prop} {μ : Board → Nat}
    (hl : Laws c Good) (sl : ScoreLaws c Good TTok μ) (child : Child σ)
    (hc : ABSpec c L Good child) (hr : ABRange Good TTok t0 child) (alpha beta : Score) (d : Int)
    {ply : Int} (h0 : 0 ≤ ply) (h1 : ply < 63)
    (nt : NodeType) (inCheck improving : Bool) (se : Score) (hm : Move) (s : St σ) (hg : Good s.board)
    (hw : s.nmpOut = false → WinOK alpha beta)
    (hfl : s.board.fifty < 100) (hhash : HashOK c s.board hm) (htt : TTA TTok t0 s) :
    let o := abMoves c L child alpha beta d ply nt inCheck improving se hm s
    TTA TTok t0 o.2 ∧ (o.2.aborted = false → o.2.nmpOut = false → RelP ply o.1) := by
  simp only [abMoves]
  generalize hx : ABCtx.mk alpha beta (if c.iir nt d hm then wrapS8 (d - 1) else d) ply nt inCheck improving se = x
  have hxp : x.ply = ply := by rw [← hx]
  have hxb : x.beta = beta := by rw [← hx]
  have h := abLoop_range c L hl sl child hc hr x (by rw [hxp]; exact h0) (by rw [hxp]; exact h1) hm alpha
    ((MoveGen.gen s.board).length + 1)
    { alpha := alpha, bestMove := 0, hasLegal := false, failLow := true, maxim := -Inf - 1, moveCnt := 0, quietCnt := 0,
      pick := c.pickInit s.board hm, yielded := [] } s.pushFrame hg hfl hhash Reach.init (htt.congr rfl rfl)
    (fun hA => by
      obtain ⟨hw1, hw2, hw3, hw4⟩ := hw hA
      exact ⟨by rw [hxb]; exact hw3, by rw [hxb]; exact hw4, hw1, hw2, (fun h => by cases h), (fun h => by cases h),
        (fun _ => rfl), Int.le_refl _, Int.le_refl _, (fun h => by simp at h), fun _ => ⟨rfl, fun h => by cases h⟩⟩)
    (Or.inl rfl)
  simp only [hxp] at h
  generalize abLoop c L child x ((MoveGen.gen s.board).length + 1)
    { alpha := alpha, bestMove := 0, hasLegal := false, failLow := true, maxim := -Inf - 1, moveCnt := 0, quietCnt := 0,
      pick := c.pickInit s.board hm, yielded := [] } s.pushFrame = r at h ⊢
  obtain ⟨htt', hret, hdone⟩ := h
  obtain ⟨fl, s'⟩ := r
  cases fl with
  | ret v => exact ⟨htt', fun hna hA => hret v rfl hna hA⟩
  | done l =>
    obtain ⟨hinv, hbest, hbrd⟩ := hdone l rfl
    have hgb : Good s'.popFrame.board := by
      have : s'.board = s.board := hbrd
      show Good s'.board
      rw [this]; exact hg
    have hbest' : l.bestMove = 0 ∨ l.bestMove ∈ MoveGen.gen s'.popFrame.board := by
      have : s'.board = s.board := hbrd
      show l.bestMove = 0 ∨ l.bestMove ∈ MoveGen.gen s'.board
      rw [this]; exact hbest
    have hok' : PsInv.ok s'.popFrame.ps := htt'.1
    -- the flag after the store is the flag of the loop's last state, possibly raised at ply 0
    simp only
    cases hh : l.hasLegal
    · have hmx : RelP ply (if inCheck = true then wrapS16 (-Inf + ply) else 0) := by
        split
        · exact relP_mate h0 (by omega)
        · exact relP_zero _
      simp only [Bool.not_false, if_true, Bool.false_eq_true, if_false]
      have hok2 := hl.ok_store s'.popFrame.ps s'.popFrame.board (if c.iir nt d hm then wrapS8 (d - 1) else d) ply
        l.bestMove (if inCheck = true then wrapS16 (-Inf + ply) else 0) .exact hok' hgb hbest'
      exact ⟨⟨hok2, fun hA => ⟨sl.tt_store _ _ _ _ _ _ _ (htt'.2 (show s'.nmpOut = false from hA)).1 h0 (by omega) hmx hok2,
        fun ht => flagTT_keep ((htt'.2 (show s'.nmpOut = false from hA)).2 ht) (not_bad_of_relP hmx)⟩⟩, fun _ _ => hmx⟩
    · simp only [Bool.not_true, Bool.false_eq_true, if_false]
      refine ⟨?_, fun _ hA => (hinv (show s'.nmpOut = false from hA)).mp hh⟩
      split
      · have hok2 := hl.ok_store s'.popFrame.ps s'.popFrame.board (if c.iir nt d hm then wrapS8 (d - 1) else d) ply
          0 l.maxim .upper hok' hgb (Or.inl rfl)
        exact ⟨hok2, fun hA => ⟨sl.tt_store _ _ _ _ _ _ _ (htt'.2 (show s'.nmpOut = false from hA)).1 h0 (by omega) ((hinv (show s'.nmpOut = false from hA)).mp hh) hok2,
          fun ht => flagTT_keep ((htt'.2 (show s'.nmpOut = false from hA)).2 ht)
            (not_bad_of_relP ((hinv (show s'.nmpOut = false from hA)).mp hh))⟩⟩
      · have hok2 := hl.ok_store s'.popFrame.ps s'.popFrame.board (if c.iir nt d hm then wrapS8 (d - 1) else d) ply
          l.bestMove l.maxim .exact hok' hgb hbest'
        exact ⟨hok2, fun hA => ⟨sl.tt_store _ _ _ _ _ _ _ (htt'.2 (show s'.nmpOut = false from hA)).1 h0 (by omega) ((hinv (show s'.nmpOut = false from hA)).mp hh) hok2,
          fun ht => flagTT_keep ((htt'.2 (show s'.nmpOut = false from hA)).2 ht)
            (not_bad_of_relP ((hinv (show s'.nmpOut = false from hA)).mp hh))⟩⟩

theorem abPrune_range (c : Comp σ π) (L : Limits) {Good : Board → Prop} {TTok : σ → Prop} {μ : Board → Nat}
    (hl : Laws c Good) (sl : ScoreLaws c Good TTok μ) (child : Child σ)
    (hc : ABSpec c L Good child) (hr : ABRange Good TTok t0 child) (alpha beta : Score) (d : Int)
    {ply : Int} (h0 : 0 ≤ ply) (h1 : ply < 63)
    (nt : NodeType) (inCheck improving : Bool) (se : Score) (hse : inCheck = false → -9935 ≤ se ∧ se ≤ 9935) (hm : Move) (s : St σ)
    (hw : s.nmpOut = false → WinOK alpha beta)
    (hg : Good s.board) (hfl : s.board.fifty < 100) (hhash : HashOK c s.board hm)
    (hic : inCheck = s.board.inCheck s.board.stm) (htt : TTA TTok t0 s) :
    let o := abPrune c L child alpha beta d ply nt inCheck improving se hm s
    TTA TTok t0 o.2 ∧ (o.2.aborted = false → o.2.nmpOut = false → RelP ply o.1) := by
  simp only [abPrune]
  split
  · next hrfp =>
    have : inCheck = false := by cases inCheck <;> simp_all
    refine ⟨htt.congr rfl rfl, fun _ _ => ?_⟩
    have := hse this; unfold RelP hiP; simp only [Score] at *; omega
  · split
    · next hnm =>
      have hic' : inCheck = false := by cases inCheck <;> simp_all
      have hchk : s.board.inCheck s.board.stm = false := by rw [← hic]; exact hic'
      have hnmp : c.nmpTry s.board d se beta = true := by
        simp only [Bool.and_eq_true] at hnm; exact hnm.2
      have hbse : (beta : Int) ≤ se := sl.nmp_sound _ _ _ _ hnmp
      have hb2 : beta ≤ 9936 := Int.le_trans hbse (Int.le_trans (hse hic').2 (by decide))
      have hn := nullMove_spec c L hl child hc beta d h0 h1 se s hg htt.1 hchk
      have hnr := nullMove_range c L hl child hc hr beta d h0 h1 se s hg hchk htt (fun hA => ⟨(hw hA).2.2.1, hb2⟩)
      simp only at hn hnr
      generalize nullMove c child beta d ply se s = nm at hn hnr ⊢
      split
      · next v hv => exact ⟨hnr.1, fun hna hA => hnr.2 v hv hna hA⟩
      · exact abMoves_range c L hl sl child hc hr alpha beta d h0 h1 nt inCheck improving se hm nm.2
          (by rw [hn.1.board]; exact hg) (fun hA => hw (hn.1.mono.a_back hA))
          (by rw [hn.1.board]; exact hfl) (by rw [hn.1.board]; exact hhash) hnr.1
    · exact abMoves_range c L hl sl child hc hr alpha beta d h0 h1 nt inCheck improving se hm s hg hw hfl hhash htt

theorem abBody_range (c : Comp σ π) (L : Limits) {Good : Board → Prop} {TTok : σ → Prop} {μ : Board → Nat}
    (hl : Laws c Good) (sl : ScoreLaws c Good TTok μ) (child : Child σ)
    (hc : ABSpec c L Good child) (hr : ABRange Good TTok t0 child) (alpha beta : Score) (d : Int)
    {ply : Int} (h0 : 0 ≤ ply) (h1 : ply < 63) (nt : NodeType) (s : St σ) (hw : s.nmpOut = false → WinOK alpha beta)
    (hg : Good s.board)
    (hfl : s.board.fifty < 100) (htt : TTA TTok t0 s) :
    let o := abBody c L child alpha beta d ply nt s
    TTA TTok t0 o.2 ∧ (o.2.aborted = false → o.2.nmpOut = false → RelP ply o.1) := by
  simp only [abBody]
  split
  · next v hcut =>
    refine ⟨htt, fun _ hA => ?_⟩
    split at hcut
    · next e he =>
      split at hcut
      · exact ttCut_relP (sl.tt_probe _ _ _ _ (htt.2 hA).1 h0 (by omega) he) hcut
      · cases hcut
    · cases hcut
  · refine abPrune_range c L hl sl child hc hr alpha beta d h0 h1 nt _ _ _ ?_ _ s hw hg hfl
      (hashOK_probe c htt.1 s.board ply) rfl htt
    intro h
    simp only [h, Bool.false_eq_true, if_false]
    exact eval_band c s.board

/-- The main range theorem: for every fuel, `alphaBeta` returns a ply-consistent value when it returns
    un-aborted with the ghost flag down, and keeps the table predicate as long as the flag is down. -/
theorem alphaBeta_range (c : Comp σ π) (L : Limits) {Good : Board → Prop} {TTok : σ → Prop} {μ : Board → Nat}
    (hl : Laws c Good) (sl : ScoreLaws c Good TTok μ) (fuel : Nat) :
    ABRange Good TTok t0 (alphaBeta c L fuel) := by
  induction fuel with
  | zero => intro a b d ply nt s _ _ _ _ htt; exact ⟨htt.congr rfl rfl, fun h => by cases h⟩
  | succ fuel ih =>
    intro a b d ply nt s hg h0 h63 hw htt
    simp only [alphaBeta]
    split
    · have hmu := sl.measure_bound s.board hg
      exact quiescence_range c L hl sl (fuel + 1) a b ply (s.setPv (s.pv.setNull ply.toNat)) hg h0
        (by simp only [setPv_board]; omega) hw (htt.congr rfl rfl)
    · next hq =>
      have h1 : ply < 63 := by simp [maxPlies] at hq; omega
      have i1 := incrementNodes_frame L (s.setPv (s.pv.setNull ply.toNat))
      have ips := incrementNodes_ps L (s.setPv (s.pv.setNull ply.toNat))
      have ian := incrementNodes_nmpOut L (s.setPv (s.pv.setNull ply.toNat))
      have itt := incrementNodes_ttOut L (s.setPv (s.pv.setNull ply.toNat))
      generalize incrementNodes L (s.setPv (s.pv.setNull ply.toNat)) = s1 at i1 ips ian itt ⊢
      have a1 := abort_frame L { s1 with abNodes := s1.abNodes + 1 }
      have aps := abort_ps L { s1 with abNodes := s1.abNodes + 1 }
      have aan := abort_nmpOut L { s1 with abNodes := s1.abNodes + 1 }
      have att := abort_ttOut L { s1 with abNodes := s1.abNodes + 1 }
      have hat := abort_true_iff L { s1 with abNodes := s1.abNodes + 1 }
      generalize abort L { s1 with abNodes := s1.abNodes + 1 } = as at a1 aps aan att hat ⊢
      have hps : as.2.ps = s.ps := by rw [aps]; exact ips
      have han : as.2.nmpOut = s.nmpOut := by rw [aan]; exact ian
      have hatt : as.2.ttOut = s.ttOut := by rw [att]; exact itt
      have hb : as.2.board = s.board := by rw [a1.board]; exact i1.board
      have htt' : TTA TTok t0 as.2 := htt.congr hps han hatt
      split
      · next hab => exact ⟨htt', fun hna => by rw [← hat, hab] at hna; cases hna⟩
      · split
        · exact ⟨htt', fun _ _ => relP_zero _⟩
        · next hnd =>
          exact abBody_range c L hl sl (alphaBeta c L fuel) (alphaBeta_spec c L hl fuel) ih a b d h0 h1 nt as.2
            (fun hA => hw (by rw [← han]; exact hA)) (by rw [hb]; exact hg) (fifty_lt_of_not_draw hnd) htt'

end Search
end ChessVerif
