/-
  The attack functions used by the evaluation commute with the vertical flip:
  king / knight tables (kernel-decided over the 64 squares), the pawn capture shift formula (both
  colours exchange), and the sliders — through C12's ray-walk characterisation
  (`C12.bishopMoves_eq`, `C12.rookMoves_eq`) and a flip lemma for `Geometry.rayWalkFrom`.
-/
import ChessVerif.Proofs.EvalFlip
import ChessVerif.Props.C12

namespace ChessVerif.Eval
open ChessVerif

/-! ### tables -/

theorem kingMoves_flip_fin : ∀ s : Fin 64, Attacks.kingMoves (s.val ^^^ 56) = flipBB (Attacks.kingMoves s.val) := by
  decide +kernel

theorem knightMoves_flip_fin : ∀ s : Fin 64, Attacks.knightMoves (s.val ^^^ 56) = flipBB (Attacks.knightMoves s.val) := by
  decide +kernel

theorem kingMoves_flip (s : Nat) (h : s < 64) : Attacks.kingMoves (s ^^^ 56) = flipBB (Attacks.kingMoves s) :=
  kingMoves_flip_fin ⟨s, h⟩

theorem knightMoves_flip (s : Nat) (h : s < 64) : Attacks.knightMoves (s ^^^ 56) = flipBB (Attacks.knightMoves s) :=
  knightMoves_flip_fin ⟨s, h⟩

theorem sideOfBoard_flip (c : Color) : sideOfBoard c.flip = flipBB (sideOfBoard c) := by
  cases c <;> decide +kernel

theorem rankMask_flip_fin : ∀ s : Fin 64,
    (0xff#64 <<< ((s.val ^^^ 56) &&& 56) : BB) = flipBB (0xff#64 <<< (s.val &&& 56)) := by
  decide +kernel

theorem rankMask_flip (s : Nat) (h : s < 64) :
    (0xff#64 <<< ((s ^^^ 56) &&& 56) : BB) = flipBB (0xff#64 <<< (s &&& 56)) := rankMask_flip_fin ⟨s, h⟩

/-! ### pawns -/

theorem pawnCaptureMoves_white (b : BB) : Attacks.pawnCaptureMoves b .white =
    ((((b &&& ~~~Attacks.aFileBB) <<< 7) ||| ((b &&& ~~~Attacks.hFileBB) <<< 9))) |||
    ((((b &&& ~~~Attacks.hFileBB) >>> 7) ||| ((b &&& ~~~Attacks.aFileBB) >>> 9)) <<< 16) := by
  unfold Attacks.pawnCaptureMoves
  have h0 : Color.white.toNat <<< 4 = 0 := rfl
  have h1 : Color.white.flip.toNat <<< 4 = 16 := rfl
  rw [h0, h1, BitVec.ushiftRight_zero]

theorem pawnCaptureMoves_black (b : BB) : Attacks.pawnCaptureMoves b .black =
    ((((b &&& ~~~Attacks.aFileBB) <<< 7) ||| ((b &&& ~~~Attacks.hFileBB) <<< 9)) >>> 16) |||
    ((((b &&& ~~~Attacks.hFileBB) >>> 7) ||| ((b &&& ~~~Attacks.aFileBB) >>> 9))) := by
  unfold Attacks.pawnCaptureMoves
  have h0 : Color.black.toNat <<< 4 = 16 := rfl
  have h1 : Color.black.flip.toNat <<< 4 = 0 := rfl
  rw [h0, h1, BitVec.shiftLeft_zero]

theorem pawnCaptureMoves_flip (b : BB) (c : Color) :
    Attacks.pawnCaptureMoves (flipBB b) c = flipBB (Attacks.pawnCaptureMoves b c.flip) := by
  cases c
  · show Attacks.pawnCaptureMoves (flipBB b) .white = flipBB (Attacks.pawnCaptureMoves b .black)
    rw [pawnCaptureMoves_white, pawnCaptureMoves_black]
    rw [flipBB_or, flipBB_shr16, flipBB_or, flipBB_or, flipBB_notA_shl7, flipBB_notH_shl9, flipBB_notH_shr7, flipBB_notA_shr9]
    generalize (flipBB b &&& ~~~Attacks.aFileBB) <<< 7 = u
    generalize (flipBB b &&& ~~~Attacks.hFileBB) <<< 9 = v
    generalize (flipBB b &&& ~~~Attacks.hFileBB) >>> 7 = w
    generalize (flipBB b &&& ~~~Attacks.aFileBB) >>> 9 = z
    rw [BitVec.or_comm z w, BitVec.or_comm v u, BitVec.or_comm ((w ||| z) <<< 16)]
  · show Attacks.pawnCaptureMoves (flipBB b) .black = flipBB (Attacks.pawnCaptureMoves b .white)
    rw [pawnCaptureMoves_white, pawnCaptureMoves_black]
    rw [flipBB_or, flipBB_shl16, flipBB_or, flipBB_or, flipBB_notA_shl7, flipBB_notH_shl9, flipBB_notH_shr7, flipBB_notA_shr9]
    generalize (flipBB b &&& ~~~Attacks.aFileBB) <<< 7 = u
    generalize (flipBB b &&& ~~~Attacks.hFileBB) <<< 9 = v
    generalize (flipBB b &&& ~~~Attacks.hFileBB) >>> 7 = w
    generalize (flipBB b &&& ~~~Attacks.aFileBB) >>> 9 = z
    rw [BitVec.or_comm z w, BitVec.or_comm v u, BitVec.or_comm ((u ||| v) >>> 16)]

theorem frontFill_flip (b : BB) (c : Color) : frontFill (flipBB b) c = flipBB (frontFill b c.flip) := by
  cases c <;>
    simp only [frontFill, Color.flip, flipBB_or, flipBB_shl8, flipBB_shl16, flipBB_shl32, flipBB_shr8,
      flipBB_shr16, flipBB_shr32]

/-! ### distances -/

theorem cheb_flip_fin : ∀ a b : Fin 64, cheb (a.val ^^^ 56) (b.val ^^^ 56) = cheb a.val b.val := by
  decide +kernel

theorem cheb_flip (a b : Nat) (ha : a < 64) (hb : b < 64) : cheb (a ^^^ 56) (b ^^^ 56) = cheb a b :=
  cheb_flip_fin ⟨a, ha⟩ ⟨b, hb⟩

/-! ### sliders -/

theorem sqAt_flip_fin : ∀ f r : Fin 8, 8 * (7 - r.val) + f.val = (8 * r.val + f.val) ^^^ 56 := by decide

theorem sqAt_flip (f r : Int) (h : Geometry.onBoard f r = true) :
    Geometry.sqAt f (7 - r) = Geometry.sqAt f r ^^^ 56 ∧ Geometry.sqAt f r < 64 := by
  simp only [Geometry.onBoard, Bool.and_eq_true, decide_eq_true_eq] at h
  obtain ⟨⟨⟨h1, h2⟩, h3⟩, h4⟩ := h
  have key := sqAt_flip_fin ⟨f.toNat, by omega⟩ ⟨r.toNat, by omega⟩
  simp only at key
  unfold Geometry.sqAt
  have e1 : (8 * (7 - r) + f).toNat = 8 * (7 - r.toNat) + f.toNat := by omega
  have e2 : (8 * r + f).toNat = 8 * r.toNat + f.toNat := by omega
  refine ⟨by rw [e1, e2, key], by rw [e2]; omega⟩

theorem onBoard_flip (f r : Int) : Geometry.onBoard f (7 - r) = Geometry.onBoard f r := by
  simp only [Geometry.onBoard]
  rw [Bool.eq_iff_iff]
  simp only [Bool.and_eq_true, decide_eq_true_eq]
  constructor <;> (rintro ⟨⟨⟨h1, h2⟩, h3⟩, h4⟩; exact ⟨⟨⟨h1, h2⟩, by omega⟩, by omega⟩)

theorem rayWalkFrom_flip (occ : BB) (df dr : Int) (n : Nat) (f r : Int) :
    Geometry.rayWalkFrom (flipBB occ) df (-dr) n f (7 - r) = flipBB (Geometry.rayWalkFrom occ df dr n f r) := by
  induction n generalizing f r with
  | zero => simp only [Geometry.rayWalkFrom]; exact flipBB_zero.symm
  | succ n ih =>
    simp only [Geometry.rayWalkFrom]
    have e : 7 - r + -dr = 7 - (r + dr) := by omega
    rw [e, onBoard_flip]
    by_cases hb : Geometry.onBoard (f + df) (r + dr) = true
    · obtain ⟨h1, h2⟩ := sqAt_flip _ _ hb
      simp only [hb, if_true]
      rw [h1, flipBB_getLsbD _ _ (xor56_lt h2), xor56_xor56, ih]
      by_cases ho : occ.getLsbD (Geometry.sqAt (f + df) (r + dr)) = true
      · simp only [ho, if_true, flipBB_bit _ h2]
      · simp only [ho, Bool.false_eq_true, if_false, flipBB_or, flipBB_bit _ h2]
    · simp only [hb, Bool.false_eq_true, if_false]; exact flipBB_zero.symm

theorem fileRank_flip_fin : ∀ s : Fin 64,
    (s.val ^^^ 56) % 8 = s.val % 8 ∧ (s.val ^^^ 56) / 8 = 7 - s.val / 8 ∧ s.val / 8 ≤ 7 := by decide

theorem rayWalk_flip (occ : BB) (sq : Nat) (h : sq < 64) (df dr : Int) :
    Geometry.rayWalk (flipBB occ) (sq ^^^ 56) df (-dr) = flipBB (Geometry.rayWalk occ sq df dr) := by
  unfold Geometry.rayWalk Geometry.fileI Geometry.rankI
  obtain ⟨h1, h2, h3⟩ := fileRank_flip_fin ⟨sq, h⟩
  simp only at h1 h2 h3
  rw [h1, h2]
  have : ((7 - sq / 8 : Nat) : Int) = 7 - ((sq / 8 : Nat) : Int) := by omega
  rw [this]
  exact rayWalkFrom_flip occ df dr 7 _ _

theorem bishopRay_flip (occ : BB) (sq : Nat) (h : sq < 64) :
    Geometry.bishopRay (flipBB occ) (sq ^^^ 56) = flipBB (Geometry.bishopRay occ sq) := by
  unfold Geometry.bishopRay
  have a := rayWalk_flip occ sq h 1 1
  have b := rayWalk_flip occ sq h (-1) 1
  have c := rayWalk_flip occ sq h 1 (-1)
  have d := rayWalk_flip occ sq h (-1) (-1)
  simp only [Int.neg_neg] at c d
  simp only [flipBB_or, ← a, ← b, ← c, ← d]
  generalize Geometry.rayWalk (flipBB occ) (sq ^^^ 56) _ _ = p
  generalize Geometry.rayWalk (flipBB occ) (sq ^^^ 56) _ _ = q
  generalize Geometry.rayWalk (flipBB occ) (sq ^^^ 56) _ _ = r
  generalize Geometry.rayWalk (flipBB occ) (sq ^^^ 56) _ _ = t
  ac_rfl

theorem rookRay_flip (occ : BB) (sq : Nat) (h : sq < 64) :
    Geometry.rookRay (flipBB occ) (sq ^^^ 56) = flipBB (Geometry.rookRay occ sq) := by
  unfold Geometry.rookRay
  have a := rayWalk_flip occ sq h 0 1
  have b := rayWalk_flip occ sq h 0 (-1)
  have c := rayWalk_flip occ sq h 1 0
  have d := rayWalk_flip occ sq h (-1) 0
  simp only [Int.neg_neg, Int.neg_zero] at a b c d
  simp only [flipBB_or, ← a, ← b, ← c, ← d]
  generalize Geometry.rayWalk (flipBB occ) (sq ^^^ 56) _ _ = p
  generalize Geometry.rayWalk (flipBB occ) (sq ^^^ 56) _ _ = q
  generalize Geometry.rayWalk (flipBB occ) (sq ^^^ 56) _ _ = r
  generalize Geometry.rayWalk (flipBB occ) (sq ^^^ 56) _ _ = t
  ac_rfl

/-- bishop attack lookup commutes with the flip (from C12's ray-walk characterisation). -/
theorem bishopMoves_flip (sq : Nat) (h : sq < 64) (occ : BB) :
    Attacks.bishopMoves (sq ^^^ 56) (flipBB occ) = flipBB (Attacks.bishopMoves sq occ) := by
  rw [C12.bishopMoves_eq _ (xor56_lt h), C12.bishopMoves_eq _ h, bishopRay_flip occ sq h]

/-- rook attack lookup commutes with the flip. -/
theorem rookMoves_flip (sq : Nat) (h : sq < 64) (occ : BB) :
    Attacks.rookMoves (sq ^^^ 56) (flipBB occ) = flipBB (Attacks.rookMoves sq occ) := by
  rw [C12.rookMoves_eq _ (xor56_lt h), C12.rookMoves_eq _ h, rookRay_flip occ sq h]

end ChessVerif.Eval
