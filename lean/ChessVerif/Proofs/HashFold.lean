/-
  C04, algebra: xor-folds.  `calculateHash` is a xor-fold of piece keys over the set bits of the
  colour sets; in terms of the abstract placement `f` (`Rep b f`) it is
      placeHash K f ^^^ stmHash ^^^ castleHash ^^^ epHash
  and changing the placement at one square changes `placeHash` by exactly the two keys involved
  (`placeHash_upd`).  Everything holds for arbitrary key tables.
-/
import ChessVerif.Proofs.MakeUndoSteps

namespace ChessVerif.Board

/-! ### xor is an abelian group of exponent 2 -/

theorem xzero_left (x : BB) : (0 : BB) ^^^ x = x := by simp
theorem xzero_right (x : BB) : x ^^^ (0 : BB) = x := by simp
theorem xself (x : BB) : x ^^^ x = (0 : BB) := by simp
theorem xlc (a b c : BB) : a ^^^ (b ^^^ c) = b ^^^ (a ^^^ c) := by
  rw [← BitVec.xor_assoc, ← BitVec.xor_assoc, BitVec.xor_comm a b]
theorem xself_left (a b : BB) : a ^^^ (a ^^^ b) = b := by
  rw [← BitVec.xor_assoc, xself, xzero_left]

/-- normalise a xor expression (sort the operands, cancel pairs). -/
macro "xor_norm" : tactic =>
  `(tactic| simp only [BitVec.xor_assoc, xlc, BitVec.xor_comm, xself, xself_left, xzero_left, xzero_right])

/-! ### xor sums over lists -/

/-- xor of `a s` over a list of squares. -/
def xsum (a : Nat → BB) (l : List Nat) : BB := l.foldl (fun h s => h ^^^ a s) 0

theorem foldl_xor_eq (a : Nat → BB) (l : List Nat) (h0 : BB) :
    l.foldl (fun h s => h ^^^ a s) h0 = h0 ^^^ xsum a l := by
  unfold xsum
  induction l generalizing h0 with
  | nil => simp
  | cons x xs ih =>
    simp only [List.foldl_cons]
    rw [ih (h0 ^^^ a x), ih (0 ^^^ a x), xzero_left, BitVec.xor_assoc]

@[simp] theorem xsum_nil (a : Nat → BB) : xsum a [] = 0 := rfl

theorem xsum_cons (a : Nat → BB) (x : Nat) (xs : List Nat) : xsum a (x :: xs) = a x ^^^ xsum a xs := by
  unfold xsum
  simp only [List.foldl_cons]
  rw [foldl_xor_eq, xzero_left]; rfl

theorem xsum_congr {a b : Nat → BB} {l : List Nat} (h : ∀ s, s ∈ l → a s = b s) : xsum a l = xsum b l := by
  induction l with
  | nil => rfl
  | cons x xs ih =>
    rw [xsum_cons, xsum_cons, h x (by simp), ih (fun s hs => h s (by simp [hs]))]

theorem xsum_xor (a b : Nat → BB) (l : List Nat) : xsum (fun s => a s ^^^ b s) l = xsum a l ^^^ xsum b l := by
  induction l with
  | nil => simp
  | cons x xs ih =>
    rw [xsum_cons, xsum_cons, xsum_cons, ih]
    xor_norm

theorem xsum_filter (a : Nat → BB) (p : Nat → Bool) (l : List Nat) :
    xsum a (l.filter p) = xsum (fun s => if p s then a s else 0) l := by
  induction l with
  | nil => rfl
  | cons x xs ih =>
    rw [xsum_cons, List.filter_cons]
    cases hp : p x
    · simp [ih]
    · simp [xsum_cons, ih]

theorem xsum_zero (l : List Nat) : xsum (fun _ => 0) l = 0 := by
  induction l with
  | nil => rfl
  | cons x xs ih => rw [xsum_cons, ih]; simp

/-- changing one summand. -/
theorem xsum_update {a a' : Nat → BB} {l : List Nat} {s : Nat} (hnd : l.Nodup) (hs : s ∈ l)
    (h : ∀ t, t ≠ s → a' t = a t) : xsum a' l = xsum a l ^^^ a s ^^^ a' s := by
  induction l with
  | nil => simp at hs
  | cons x xs ih =>
    rw [xsum_cons, xsum_cons]
    have hnd' := List.nodup_cons.1 hnd
    by_cases e : x = s
    · subst e
      have : xsum a' xs = xsum a xs := xsum_congr (fun t ht => h t (fun e => hnd'.1 (e ▸ ht)))
      rw [this]
      xor_norm
    · have hs' : s ∈ xs := by
        rcases List.mem_cons.1 hs with h1 | h1
        · exact absurd h1.symm e
        · exact h1
      rw [ih hnd'.2 hs', h x e]
      xor_norm

/-! ### the components of the position hash -/

/-- key of the content of a square. -/
def ckey (K : Keys) (v : Option (Color × Piece)) (s : Nat) : BB :=
  match v with
  | none => 0
  | some (c, p) => K.piece c.toNat p.toNat s

theorem ckey_man (K : Keys) (c : Color) (p : Piece) (s : Nat) : ckey K (man c p) s = pkey K c p s := by
  by_cases h : p = Piece.none
  · subst h; simp [man, pkey, ckey]
  · simp [man, pkey, ckey, h]

/-- placement part of the hash. -/
def placeHash (K : Keys) (f : Cfg) : BB := xsum (fun s => ckey K (f s) s) (List.range 64)

def stmHash (K : Keys) (c : Color) : BB := if c = Color.black then K.stm else 0

def castleHash (K : Keys) (cs : Castles) : BB :=
  hashEnable (cs.getLsbD 0) (K.castling 0) ^^^ hashEnable (cs.getLsbD 1) (K.castling 1) ^^^
  hashEnable (cs.getLsbD 2) (K.castling 2) ^^^ hashEnable (cs.getLsbD 3) (K.castling 3)

def epHash (K : Keys) (ep : Nat) : BB := if ep ≠ 0 then K.epFile (ep % 8) else 0

theorem placeHash_upd (K : Keys) (f : Cfg) (s : Nat) (hs : s < 64) (v : Option (Color × Piece)) :
    placeHash K (upd f s v) = placeHash K f ^^^ ckey K (f s) s ^^^ ckey K v s := by
  unfold placeHash
  have := xsum_update (a := fun t => ckey K (f t) t) (a' := fun t => ckey K (upd f s v t) t)
    (l := List.range 64) (s := s) List.nodup_range (List.mem_range.2 hs)
    (fun t ht => by simp only [upd_other _ _ _ _ ht])
  simpa using this

theorem stmHash_flip (K : Keys) (c : Color) : stmHash K c.flip = stmHash K c ^^^ K.stm := by
  cases c <;> simp [stmHash, Color.flip]

theorem hashEnable_xor (a b : Bool) (k : BB) : hashEnable (a ^^ b) k = hashEnable a k ^^^ hashEnable b k := by
  cases a <;> cases b <;> simp [hashEnable]

theorem castleHash_xor (K : Keys) (x y : Castles) : castleHash K (x ^^^ y) = castleHash K x ^^^ castleHash K y := by
  unfold castleHash
  simp only [BitVec.getLsbD_xor, hashEnable_xor]
  xor_norm

/-- `calculateHash` in terms of the abstract placement. -/
theorem calcHash_rep (K : Keys) {b : Board} {f : Cfg} (hr : Rep b f) :
    calcHash K b = placeHash K f ^^^ stmHash K b.stm ^^^ castleHash K b.castles ^^^ epHash K b.ep := by
  -- the two colour loops
  have hw : ∀ s, s < 64 →
      (if (b.colorBB .white).getLsbD s then K.piece 0 (b.pieceAt s).toNat s else 0) ^^^
      (if (b.colorBB .black).getLsbD s then K.piece 1 (b.pieceAt s).toNat s else 0) = ckey K (f s) s := by
    intro s hs
    have e := hr.eq_manAt s hs
    rw [e]
    have hd := hr.wf.disj_at s
    unfold manAt ckey
    cases h1 : (b.colorBB .white).getLsbD s <;> cases h2 : (b.colorBB .black).getLsbD s <;>
      simp_all [Color.toNat]
  have hplace : placeHash K f =
      xsum (fun s => K.piece 0 (b.pieceAt s).toNat s) (bits (b.colorBB .white)) ^^^
      xsum (fun s => K.piece 1 (b.pieceAt s).toNat s) (bits (b.colorBB .black)) := by
    unfold placeHash bits
    rw [xsum_filter, xsum_filter, ← xsum_xor]
    exact xsum_congr (fun s hs => (hw s (List.mem_range.1 hs)).symm)
  have hcast : ∀ h : BB, (List.range 4).foldl (fun h i => if b.castles.getLsbD i then h ^^^ K.castling i else h) h
      = h ^^^ castleHash K b.castles := by
    intro h
    have : List.range 4 = [0, 1, 2, 3] := by decide
    rw [this]
    unfold castleHash hashEnable
    simp only [List.foldl_cons, List.foldl_nil]
    cases b.castles.getLsbD 0 <;> cases b.castles.getLsbD 1 <;> cases b.castles.getLsbD 2 <;>
      cases b.castles.getLsbD 3 <;> simp [BitVec.xor_assoc]
  unfold calcHash
  simp only [foldl_xor_eq, hcast]
  rw [hplace]
  unfold stmHash epHash
  by_cases h1 : b.stm = Color.black <;> by_cases h2 : b.ep = 0 <;> simp [h1, h2, BitVec.xor_assoc]

end ChessVerif.Board
