/-
  Fourth layer of the bridge: the pawn clause — single and double advance, capture, en passant, and
  the promotion choices — by coordinate arithmetic.
-/
import ChessVerif.Proofs.BridgePLBase

namespace ChessVerif.Bridge
open ChessVerif Board Rules

/-- `match q with | some q => isPromoPiece q | none => false` of the rule book, named. -/
def promoPieceOK (q : Option Piece) : Bool :=
  match q with
  | some q => isPromoPiece q
  | none => false

theorem promoPieceOK_dec (pr : Nat) (h : pr < 8) : promoPieceOK (decPromo pr) = true ↔ 2 ≤ pr ∧ pr ≤ 5 := by
  have : ∀ q : Fin 8, promoPieceOK (decPromo q.val) = true ↔ 2 ≤ q.val ∧ q.val ≤ 5 := by decide
  exact this ⟨pr, h⟩

/-! ### the shapes of a pawn move in coordinates -/

theorem ahead8_coords (c : Color) (f t : Nat) :
    PL.ahead c f 8 t ↔ Rules.file t - Rules.file f = 0 ∧ Rules.rank t - Rules.rank f = Rules.up c := by
  cases c <;> simp only [PL.ahead, Rules.file, Rules.rank, Rules.up] <;> omega

theorem ahead16_coords (c : Color) (f t : Nat) :
    (PL.ahead c f 16 t ∧ PL.relRank c f = 1) ↔
      Rules.file t - Rules.file f = 0 ∧ Rules.rank t - Rules.rank f = 2 * Rules.up c ∧
        Rules.rank f = Rules.homeRank c + Rules.up c := by
  cases c <;> simp only [PL.ahead, PL.relRank, Rules.file, Rules.rank, Rules.up, Rules.homeRank] <;> omega

theorem between_push2_white : ∀ f : Fin 64, f.val / 8 = 1 →
    Rules.between f.val (f.val + 16) = [(f.val + (f.val + 16)) / 2] := by decide

theorem between_push2_black : ∀ f : Fin 64, f.val / 8 = 6 →
    Rules.between f.val (f.val - 16) = [(f.val + (f.val - 16)) / 2] := by decide

/-- a double advance passes over exactly the square between origin and destination. -/
theorem between_push2 (c : Color) (f t : Nat) (hf : f < 64) (h : PL.ahead c f 16 t) (h1 : PL.relRank c f = 1) :
    Rules.between f t = [(f + t) / 2] := by
  cases c
  · simp only [PL.ahead, PL.relRank] at h h1
    subst h
    exact between_push2_white ⟨f, hf⟩ (show f / 8 = 1 from h1)
  · simp only [PL.ahead, PL.relRank] at h h1
    have : t = f - 16 := by omega
    subst this
    exact between_push2_black ⟨f, hf⟩ (show f / 8 = 6 by omega)

theorem push1_iff (b : Board) (f t : Nat) :
    PL.PLpush1 b f t ↔
      (Rules.file t - Rules.file f == 0 && Rules.rank t - Rules.rank f == Rules.up b.stm && (abs b).empty t) = true := by
  unfold PL.PLpush1
  rw [Bool.and_eq_true, Bool.and_eq_true, beq_iff_eq, beq_iff_eq, abs_empty_iff', ahead8_coords]

theorem push2_iff (b : Board) (f t : Nat) (hf : f < 64) :
    PL.PLpush2 b f t ↔
      (Rules.file t - Rules.file f == 0 && Rules.rank t - Rules.rank f == 2 * Rules.up b.stm &&
        Rules.rank f == Rules.homeRank b.stm + Rules.up b.stm && (abs b).empty t &&
        (Rules.between f t).all (abs b).empty) = true := by
  unfold PL.PLpush2
  rw [Bool.and_eq_true, Bool.and_eq_true, Bool.and_eq_true, Bool.and_eq_true, beq_iff_eq, beq_iff_eq, beq_iff_eq,
    abs_empty_iff']
  constructor
  · rintro ⟨h1, h2, h3, h4⟩
    have hb := between_push2 b.stm f t hf h1 h2
    have hg := (ahead16_coords b.stm f t).1 ⟨h1, h2⟩
    refine ⟨⟨⟨⟨hg.1, hg.2.1⟩, hg.2.2⟩, h3⟩, ?_⟩
    rw [hb]
    simp only [List.all_cons, List.all_nil, Bool.and_true]
    exact (abs_empty_iff' b _).2 h4
  · rintro ⟨⟨⟨⟨g1, g2⟩, g3⟩, h3⟩, h4⟩
    have hg := (ahead16_coords b.stm f t).2 ⟨g1, g2, g3⟩
    have hb := between_push2 b.stm f t hf hg.1 hg.2
    rw [hb] at h4
    simp only [List.all_cons, List.all_nil, Bool.and_true] at h4
    exact ⟨hg.1, hg.2, h3, (abs_empty_iff' b _).1 h4⟩

theorem cap_iff {b : Board} (hw : WFP b) (f t : Nat) (hf : f < 64) (ht : t < 64) :
    (PL.PLcapture b f t ∨ PL.PLep b f t) ↔
      ((Rules.file t - Rules.file f).natAbs == 1 && Rules.rank t - Rules.rank f == Rules.up b.stm &&
        ((abs b).hasColor t b.stm.flip || (abs b).ep == some t)) = true := by
  unfold PL.PLcapture PL.PLep
  rw [Bool.and_eq_true, Bool.and_eq_true, Bool.or_eq_true, beq_iff_eq, beq_iff_eq, beq_iff_eq,
    abs_hasColor hw, abs_ep_eq_some, capGeom_iff b.stm f t hf ht]
  constructor
  · rintro (⟨g, h⟩ | ⟨g, h⟩)
    · exact ⟨g, Or.inl h⟩
    · exact ⟨g, Or.inr h⟩
  · rintro ⟨g, (h | h)⟩
    · exact Or.inl ⟨g, h⟩
    · exact Or.inr ⟨g, h⟩

/-! ### promotion -/

/-- for a pawn move of one of the four shapes the destination is on the last rank iff the origin is
    on the seventh, so the engine's promotion test (on the origin) is the rule book's (on the destination). -/
theorem promo_iff (b : Board) (f t pr : Nat) (hf : f < 64) (ht : t < 64) (hpr : pr < 8)
    (hgeo : Rules.rank t - Rules.rank f = Rules.up b.stm ∨
      (Rules.rank t - Rules.rank f = 2 * Rules.up b.stm ∧ Rules.rank f = Rules.homeRank b.stm + Rules.up b.stm)) :
    PL.promoOK b f pr ↔
      (if (Rules.rank t == Rules.lastRank b.stm) = true then promoPieceOK (decPromo pr)
        else (decPromo pr).isNone) = true := by
  have hr : Rules.rank t = Rules.lastRank b.stm ↔ PL.relRank b.stm f = 6 := by
    revert hgeo
    cases b.stm <;>
      simp only [Rules.rank, Rules.up, Rules.homeRank, Rules.lastRank, PL.relRank] <;> omega
  unfold PL.promoOK
  by_cases h6 : PL.relRank b.stm f = 6
  · rw [if_pos h6, if_pos (beq_iff_eq.2 (hr.2 h6)), promoPieceOK_dec pr hpr]
  · have : ¬ (Rules.rank t == Rules.lastRank b.stm) = true := fun e => h6 (hr.1 (beq_iff_eq.1 e))
    rw [if_neg h6, if_neg this, decPromo_isNone pr hpr]

theorem shape_geo (b : Board) (f t : Nat) (hf : f < 64) (ht : t < 64)
    (h : PL.PLpush1 b f t ∨ PL.PLpush2 b f t ∨ PL.PLcapture b f t ∨ PL.PLep b f t) :
    Rules.rank t - Rules.rank f = Rules.up b.stm ∨
      (Rules.rank t - Rules.rank f = 2 * Rules.up b.stm ∧ Rules.rank f = Rules.homeRank b.stm + Rules.up b.stm) := by
  rcases h with h | h | h | h
  · exact Or.inl ((ahead8_coords b.stm f t).1 h.1).2
  · have := (ahead16_coords b.stm f t).1 ⟨h.1, h.2.1⟩
    exact Or.inr ⟨this.2.1, this.2.2⟩
  · exact Or.inl ((capGeom_iff b.stm f t hf ht).1 h.1).2
  · exact Or.inl ((capGeom_iff b.stm f t hf ht).1 h.1).2

/-! ### the pawn clause -/

theorem pawn_clause {b : Board} (hw : WFP b) (f t pr : Nat) (hf : f < 64) (ht : t < 64) (hpr : pr < 8) :
    PLk b .pawn f t pr ↔ RLk (abs b) .pawn ⟨f, t, decPromo pr⟩ = true := by
  show PL.promoOK b f pr ∧ (PL.PLpush1 b f t ∨ PL.PLpush2 b f t ∨ PL.PLcapture b f t ∨ PL.PLep b f t) ↔
    ((if (Rules.rank t == Rules.lastRank b.stm) = true then promoPieceOK (decPromo pr) else (decPromo pr).isNone) &&
      ((Rules.file t - Rules.file f == 0 && Rules.rank t - Rules.rank f == Rules.up b.stm && (abs b).empty t) ||
       (Rules.file t - Rules.file f == 0 && Rules.rank t - Rules.rank f == 2 * Rules.up b.stm &&
          Rules.rank f == Rules.homeRank b.stm + Rules.up b.stm && (abs b).empty t &&
          (Rules.between f t).all (abs b).empty) ||
       ((Rules.file t - Rules.file f).natAbs == 1 && Rules.rank t - Rules.rank f == Rules.up b.stm &&
          ((abs b).hasColor t b.stm.flip || (abs b).ep == some t)))) = true
  rw [Bool.and_eq_true, Bool.or_eq_true, Bool.or_eq_true, ← push1_iff, ← push2_iff b f t hf, ← cap_iff hw f t hf ht]
  constructor
  · rintro ⟨hp, hs⟩
    refine ⟨(promo_iff b f t pr hf ht hpr (shape_geo b f t hf ht hs)).1 hp, ?_⟩
    rcases hs with h | h | h | h
    · exact Or.inl (Or.inl h)
    · exact Or.inl (Or.inr h)
    · exact Or.inr (Or.inl h)
    · exact Or.inr (Or.inr h)
  · rintro ⟨hp, hs⟩
    have hs' : PL.PLpush1 b f t ∨ PL.PLpush2 b f t ∨ PL.PLcapture b f t ∨ PL.PLep b f t := by
      rcases hs with (h | h) | (h | h)
      · exact Or.inl h
      · exact Or.inr (Or.inl h)
      · exact Or.inr (Or.inr (Or.inl h))
      · exact Or.inr (Or.inr (Or.inr h))
    exact ⟨(promo_iff b f t pr hf ht hpr (shape_geo b f t hf ht hs')).2 hp, hs'⟩

end ChessVerif.Bridge
