/-
  Lemmas about the TRANSLATED time-control functions (`Gen/Funcs.lean`: `timedMode`, `softLimit`,
  `hardLimit`, generated from /repo/uci/uci.go).  Core Lean only (`omega`).

  Proof style: the if-conditions of the translated bodies are decided from the hypotheses with
  `simp only`, the wraps are unfolded and `omega` finishes.  The bound lemmas (`hard_*`) treat the
  soft limit as an opaque number, so they survive any change of the soft-limit formula or of the
  factor in `Clamp(4*soft, …)`; nothing here names the constants 30/30/4 (they come from Gen).
-/
import ChessVerif.Gen.Funcs

set_option linter.unusedSimpArgs false

namespace ChessVerif.Proofs.TimeControl
open ChessVerif ChessVerif.Gen.Funcs

/-- `x` is representable as a Go `int64`. -/
def InS64 (x : Int) : Prop := -9223372036854775808 ≤ x ∧ x ≤ 9223372036854775807

theorem wrapS64_id {x : Int} (h : InS64 x) : wrapS64 x = x := by
  unfold wrapS64; unfold InS64 at h; omega

theorem wrapS64_eq_iff (x : Int) : wrapS64 x = x ↔ InS64 x := by
  unfold wrapS64 InS64; omega

theorem goDiv_nonneg {a b : Int} (ha : 0 ≤ a) : goDiv a b = a / b :=
  Int.tdiv_eq_ediv_of_nonneg ha

/-- The quantifier of C14: remaining time 1 ms … 10^12 ms, increment 0 … 10^9 ms. -/
structure ClockDom (t inc : Int) : Prop where
  t_pos : 1 ≤ t
  t_le : t ≤ 1000000000000
  inc_nonneg : 0 ≤ inc
  inc_le : inc ≤ 1000000000

/-- The mover's own value of a per-colour clock field: white's when `stm = 0`, else black's. -/
def own (stm w b : Int) : Int := if stm = 0 then w else b

@[simp] theorem own_white (w b : Int) : own 0 w b = w := rfl
@[simp] theorem own_black (w b : Int) : own 1 w b = b := rfl

section
variable {w b wi bi mt : Int}

/-! ### A fixed move time overrides everything -/

theorem soft_movetime (stm : Int) (h : 0 < mt) : softLimit w b wi bi mt stm = mt := by
  have e : mt > 0 := h
  simp only [softLimit, e, ↓reduceIte]

theorem hard_movetime (stm : Int) (h : 0 < mt) : hardLimit w b wi bi mt stm = mt := by
  have e : mt > 0 := h
  simp only [hardLimit, e, ↓reduceIte]

/-! ### Which clock is read -/

/-- With white to move, black's clock and increment are never read. -/
theorem hard_white_indep (b' bi' : Int) : hardLimit w b wi bi mt 0 = hardLimit w b' wi bi' mt 0 := by
  simp only [hardLimit, softLimit, Int.reduceEq, false_and, true_and, ↓reduceIte]

theorem soft_white_indep (b' bi' : Int) : softLimit w b wi bi mt 0 = softLimit w b' wi bi' mt 0 := by
  simp only [softLimit, Int.reduceEq, false_and, true_and, ↓reduceIte]

/-- With black to move, white's clock and increment are never read. -/
theorem hard_black_indep (w' wi' : Int) : hardLimit w b wi bi mt 1 = hardLimit w' b wi' bi mt 1 := by
  simp only [hardLimit, softLimit, Int.reduceEq, false_and, true_and, ↓reduceIte]

theorem soft_black_indep (w' wi' : Int) : softLimit w b wi bi mt 1 = softLimit w' b wi' bi mt 1 := by
  simp only [softLimit, Int.reduceEq, false_and, true_and, ↓reduceIte]

/-! ### The deadline without a move time: bounds (soft limit opaque) -/

theorem hard_white_bounds (h1 : 1 ≤ w) (h2 : w ≤ 1000000000000) (hmt : mt ≤ 0) :
    0 < hardLimit w b wi bi mt 0 ∧ hardLimit w b wi bi mt 0 ≤ w ∧
      (TimeSafetyMargin < w → hardLimit w b wi bi mt 0 ≤ w - TimeSafetyMargin) := by
  have e1 : ¬ mt > 0 := by omega
  have e2 : w > 0 := by omega
  simp only [hardLimit, TimeSafetyMargin, e1, e2, Int.reduceEq, false_and, true_and, ↓reduceIte, clampS64, wrapS64]
  generalize softLimit w b wi bi mt 0 = s
  split <;> omega

theorem hard_black_bounds (h1 : 1 ≤ b) (h2 : b ≤ 1000000000000) (hmt : mt ≤ 0) :
    0 < hardLimit w b wi bi mt 1 ∧ hardLimit w b wi bi mt 1 ≤ b ∧
      (TimeSafetyMargin < b → hardLimit w b wi bi mt 1 ≤ b - TimeSafetyMargin) := by
  have e1 : ¬ mt > 0 := by omega
  have e2 : b > 0 := by omega
  simp only [hardLimit, TimeSafetyMargin, e1, e2, Int.reduceEq, false_and, true_and, ↓reduceIte, clampS64, wrapS64]
  generalize softLimit w b wi bi mt 1 = s
  split <;> omega

/-! ### Absence of wrap-around

  `softLimit_ideal`/`hardLimit_ideal` are the extractor's second rendering of the same Go bodies over
  exact integers (no wrap anywhere).  "No intermediate result leaves int64" is the statement that both
  renderings agree; it is proved by removing every `wrapS64` whose argument is provably in range
  (`simp` with `omega` as discharger), so it survives changes of constants and factors as long as
  nothing can overflow on the domain. -/

theorem wrapS64_id' {x : Int} (h1 : -9223372036854775808 ≤ x) (h2 : x ≤ 9223372036854775807) : wrapS64 x = x :=
  wrapS64_id ⟨h1, h2⟩

theorem goDiv_nonneg' {a b : Int} (ha : 0 ≤ a) : goDiv a b = a / b := goDiv_nonneg ha

theorem no_wrap_white (h1 : 1 ≤ w) (h2 : w ≤ 1000000000000) (h3 : 0 ≤ wi) (h4 : wi ≤ 1000000000) :
    softLimit w b wi bi mt 0 = softLimit_ideal w b wi bi mt 0 ∧ hardLimit w b wi bi mt 0 = hardLimit_ideal w b wi bi mt 0 := by
  have e2 : w > 0 := by omega
  by_cases e1 : mt > 0
  · simp only [softLimit, softLimit_ideal, hardLimit, hardLimit_ideal, e1, ↓reduceIte, and_self]
  · simp only [softLimit, softLimit_ideal, hardLimit, hardLimit_ideal, clampS64, clampS64_ideal, e1, e2, Int.reduceEq,
      false_and, true_and, ↓reduceIte]
    simp (disch := omega) only [goDiv_nonneg']
    simp (disch := omega) only [wrapS64_id', and_self]

theorem no_wrap_black (h1 : 1 ≤ b) (h2 : b ≤ 1000000000000) (h3 : 0 ≤ bi) (h4 : bi ≤ 1000000000) :
    softLimit w b wi bi mt 1 = softLimit_ideal w b wi bi mt 1 ∧ hardLimit w b wi bi mt 1 = hardLimit_ideal w b wi bi mt 1 := by
  have e2 : b > 0 := by omega
  by_cases e1 : mt > 0
  · simp only [softLimit, softLimit_ideal, hardLimit, hardLimit_ideal, e1, ↓reduceIte, and_self]
  · simp only [softLimit, softLimit_ideal, hardLimit, hardLimit_ideal, clampS64, clampS64_ideal, e1, e2, Int.reduceEq,
      false_and, true_and, ↓reduceIte]
    simp (disch := omega) only [goDiv_nonneg']
    simp (disch := omega) only [wrapS64_id', and_self]

/-! ### timedMode and the untimed case -/

theorem timedMode_white : timedMode w b mt 0 = true ↔ (0 < w ∨ 0 < mt) := by
  simp only [timedMode, Int.reduceEq, decide_true, decide_false, Bool.true_and, Bool.false_and, Bool.or_false,
    Bool.or_eq_true, decide_eq_true_eq, gt_iff_lt]

theorem timedMode_black : timedMode w b mt 1 = true ↔ (0 < b ∨ 0 < mt) := by
  simp only [timedMode, Int.reduceEq, decide_true, decide_false, Bool.true_and, Bool.false_and, Bool.false_or,
    Bool.or_eq_true, decide_eq_true_eq, gt_iff_lt]

/-- No own clock and no move time: the limits are the "infinite" constants (note `hard < soft`). -/
theorem untimed_white (hw : w ≤ 0) (hmt : mt ≤ 0) :
    softLimit w b wi bi mt 0 = TimeInf ∧ hardLimit w b wi bi mt 0 = TimeInf - TimeSafetyMargin := by
  have e1 : ¬ mt > 0 := by omega
  have e2 : ¬ w > 0 := by omega
  simp only [hardLimit, softLimit, TimeInf, TimeSafetyMargin, e1, e2, Int.reduceEq, false_and, and_false, ↓reduceIte,
    clampS64, wrapS64]
  exact ⟨trivial, by decide⟩

theorem untimed_black (hb : b ≤ 0) (hmt : mt ≤ 0) :
    softLimit w b wi bi mt 1 = TimeInf ∧ hardLimit w b wi bi mt 1 = TimeInf - TimeSafetyMargin := by
  have e1 : ¬ mt > 0 := by omega
  have e2 : ¬ b > 0 := by omega
  simp only [hardLimit, softLimit, TimeInf, TimeSafetyMargin, e1, e2, Int.reduceEq, false_and, and_false, ↓reduceIte,
    clampS64, wrapS64]
  exact ⟨trivial, by decide⟩

end
end ChessVerif.Proofs.TimeControl
