/-
  C19 (a): the evaluation model is natural in the score arithmetic.  For a map `φ` that commutes with
  `ofInt`, `+`, `-` and the product with an integer (`Hom`), every addend list that does not involve
  the sigmoid is mapped to the corresponding list over the mapped coefficient set.  Instances:
  `wrapS16 : opsZ → opsI16` (exact integers to wrapping int16) and the cast `opsZ → opsQ σ`.
-/
import ChessVerif.Model.Eval

namespace ChessVerif.Eval
open ChessVerif

structure Hom {S T : Type} (o₁ : Ops S) (o₂ : Ops T) (φ : S → T) : Prop where
  ofInt : ∀ n, φ (o₁.ofInt n) = o₂.ofInt n
  add : ∀ a b, φ (o₁.add a b) = o₂.add (φ a) (φ b)
  sub : ∀ a b, φ (o₁.sub a b) = o₂.sub (φ a) (φ b)
  mulInt : ∀ n x, φ (o₁.mulInt n x) = o₂.mulInt n (φ x)

/-- convert every coefficient. -/
def CoeffSet.map {S T : Type} (f : S → T) (cs : CoeffSet S) : CoeffSet T where
  PSqT := cs.PSqT.map (·.map f)
  PieceValues := cs.PieceValues.map (·.map f)
  TempoBonus := cs.TempoBonus.map f
  KingAttackPieces := cs.KingAttackPieces.map (·.map f)
  SafeChecks := cs.SafeChecks.map (·.map f)
  KingShelter := cs.KingShelter.map f
  MobilityKnight := cs.MobilityKnight.map (·.map f)
  MobilityBishop := cs.MobilityBishop.map (·.map f)
  MobilityRook := cs.MobilityRook.map (·.map f)
  KnightOutpost := cs.KnightOutpost.map (·.map f)
  ConnectedRooks := cs.ConnectedRooks.map f
  BishopPair := cs.BishopPair.map f
  ProtectedPasser := cs.ProtectedPasser.map f
  PasserKingDist := cs.PasserKingDist.map f
  PasserRank := cs.PasserRank.map (·.map f)
  DoubledPawns := cs.DoubledPawns.map f
  IsolatedPawns := cs.IsolatedPawns.map f

theorem flatMap_congr_mem {α β : Type} {l : List α} {f g : α → List β} (h : ∀ a ∈ l, f a = g a) :
    l.flatMap f = l.flatMap g := by
  induction l with
  | nil => rfl
  | cons a l ih =>
    simp only [List.flatMap_cons]
    rw [h a (by simp), ih fun b hb => h b (by simp [hb])]

section
variable {S T : Type} {o₁ : Ops S} {o₂ : Ops T} {φ : S → T} (h : Hom o₁ o₂ φ)
include h

theorem at1_map (a : Array S) (k : Nat) : φ (at1 o₁ a k) = at1 o₂ (a.map φ) k := by
  unfold at1
  rw [← h.ofInt 0]
  simp only [Array.getD, Array.size_map]
  split <;> simp

theorem at2_map (a : Array (Array S)) (r k : Nat) : φ (at2 o₁ a r k) = at2 o₂ (a.map (·.map φ)) r k := by
  have e : (a.map (·.map φ)).getD r #[] = (a.getD r #[]).map φ := by
    simp only [Array.getD, Array.size_map]
    split <;> simp
  unfold at2
  rw [e]
  exact at1_map h _ k

theorem sum_map (l : List S) : φ (sum o₁ l) = sum o₂ (l.map φ) := by
  unfold sum
  rw [← h.ofInt 0]
  generalize o₁.ofInt 0 = z
  induction l generalizing z with
  | nil => rfl
  | cons a l ih => simp only [List.foldl_cons, List.map_cons]; rw [ih, h.add]

variable (cs : CoeffSet S) (i : EvalInput)

theorem psqt_map (ph : Nat) (c : Color) (p : Piece) (sq : Nat) :
    φ (psqt o₁ cs ph c p sq) = psqt o₂ (cs.map φ) ph c p sq := by
  unfold psqt; exact at2_map h _ _ _

theorem pieceValueTerms_map (ph : Nat) (c : Color) :
    (pieceValueTerms o₁ cs i ph c).map φ = pieceValueTerms o₂ (cs.map φ) i ph c := by
  simp only [pieceValueTerms, List.map_map]
  apply List.map_congr_left
  intro p _
  simp only [Function.comp, h.mulInt, at2_map h]
  rfl

theorem tempoTerms_map (ph : Nat) (c : Color) :
    (tempoTerms o₁ cs i ph c).map φ = tempoTerms o₂ (cs.map φ) i ph c := by
  unfold tempoTerms
  split <;> simp [at1_map h, CoeffSet.map]

theorem bishopPairTerms_map (ph : Nat) (c : Color) :
    (bishopPairTerms o₁ cs i ph c).map φ = bishopPairTerms o₂ (cs.map φ) i ph c := by
  simp only [bishopPairTerms]
  split <;> simp [at1_map h, CoeffSet.map]

theorem passerTerms_map (ph : Nat) (c : Color) :
    (passerTerms o₁ cs i ph c).map φ = passerTerms o₂ (cs.map φ) i ph c := by
  simp only [passerTerms, List.map_append, List.map_flatMap]
  congr 1
  · split
    · split <;> simp [h.mulInt, at1_map h, CoeffSet.map]
    · simp
  · apply flatMap_congr_mem
    intro s _
    simp only [List.map_cons, List.map_nil]
    congr 1
    · split <;> simp [at1_map h, CoeffSet.map]
    · simp only [apply_ite φ, zero, h.ofInt, at2_map h, CoeffSet.map]

theorem doubledTerms_map (ph : Nat) (c : Color) :
    (doubledTerms o₁ cs i ph c).map φ = doubledTerms o₂ (cs.map φ) i ph c := by
  simp [doubledTerms, h.mulInt, at1_map h, CoeffSet.map]

theorem isolatedTerms_map (ph : Nat) (c : Color) :
    (isolatedTerms o₁ cs i ph c).map φ = isolatedTerms o₂ (cs.map φ) i ph c := by
  simp [isolatedTerms, h.mulInt, at1_map h, CoeffSet.map]

theorem rookMobilityTerms_map (ph : Nat) (c : Color) (sq : Nat) (att : BB) :
    (rookMobilityTerms o₁ cs i ph c sq att).map φ = rookMobilityTerms o₂ (cs.map φ) i ph c sq att := by
  simp only [rookMobilityTerms, List.map_append, List.map_cons, List.map_nil]
  congr 1
  · simp [at2_map h, CoeffSet.map]
  · split <;> simp [at1_map h, CoeffSet.map]

theorem bishopMobilityTerms_map (ph : Nat) (c : Color) (att : BB) :
    (bishopMobilityTerms o₁ cs i ph c att).map φ = bishopMobilityTerms o₂ (cs.map φ) i ph c att := by
  simp [bishopMobilityTerms, at2_map h, CoeffSet.map]

theorem knightMobilityTerms_map (ph : Nat) (c : Color) (att pc : BB) :
    (knightMobilityTerms o₁ cs i ph c att pc).map φ = knightMobilityTerms o₂ (cs.map φ) i ph c att pc := by
  simp [knightMobilityTerms, at2_map h, CoeffSet.map]

theorem knightOutpostTerms_map (ph : Nat) (c : Color) (sq : Nat) (holes : BB) :
    (knightOutpostTerms o₁ cs ph c sq holes).map φ = knightOutpostTerms o₂ (cs.map φ) ph c sq holes := by
  simp only [knightOutpostTerms]
  split <;> simp [at2_map h, CoeffSet.map]

theorem loopTerms_map (ph : Nat) (c : Color) :
    (loopTerms o₁ cs i ph c).map φ = loopTerms o₂ (cs.map φ) i ph c := by
  simp only [loopTerms, List.map_append, List.map_flatMap, List.map_map, List.map_cons, List.map_nil,
    rookMobilityTerms_map h, bishopMobilityTerms_map h, knightMobilityTerms_map h, knightOutpostTerms_map h,
    psqt_map h, Function.comp_def]

theorem attackPieceTerms_map (ph : Nat) (c : Color) :
    (attackPieceTerms o₁ cs i ph c).map φ = attackPieceTerms o₂ (cs.map φ) i ph c := by
  simp only [attackPieceTerms, List.map_flatMap]
  apply flatMap_congr_mem
  intro p _
  apply flatMap_congr_mem
  intro s _
  split <;> simp [at2_map h, CoeffSet.map]

theorem safeCheckTerms_map (ph : Nat) (c : Color) :
    (safeCheckTerms o₁ cs i ph c).map φ = safeCheckTerms o₂ (cs.map φ) i ph c := by
  simp only [safeCheckTerms, List.map_map]
  apply List.map_congr_left
  intro p _
  simp [h.mulInt, at2_map h, CoeffSet.map]

theorem shelterTerm_map (ph : Nat) (c : Color) :
    φ (shelterTerm o₁ cs i ph c) = shelterTerm o₂ (cs.map φ) i ph c := by
  simp [shelterTerm, h.mulInt, at1_map h, CoeffSet.map]

theorem kaTerms_map (ph : Nat) (c : Color) :
    (kaTerms o₁ cs i ph c).map φ = kaTerms o₂ (cs.map φ) i ph c := by
  cases c <;>
    simp only [kaTerms, List.map_append, List.map_cons, List.map_nil, attackPieceTerms_map h,
      safeCheckTerms_map h, shelterTerm_map h]

theorem knbvkTerms_map (ph : Nat) (c : Color) :
    (knbvkTerms o₁ cs i ph c).map φ = knbvkTerms o₂ (cs.map φ) i ph c := by
  simp only [knbvkTerms]
  split
  · simp [psqt_map h]
  · simp only [List.map_append, List.map_cons, List.map_nil, psqt_map h]
    congr 1
    split <;> simp [h.mulInt, h.ofInt]

end

/-- the addends of `sp.mg/eg[c]` before the king-attack term. -/
def restTerms {S : Type} (o : Ops S) (cs : CoeffSet S) (i : EvalInput) (ph : Nat) (c : Color) : List S :=
  pieceValueTerms o cs i ph c ++ tempoTerms o cs i ph c ++ bishopPairTerms o cs i ph c ++
  passerTerms o cs i ph c ++ doubledTerms o cs i ph c ++ isolatedTerms o cs i ph c ++ loopTerms o cs i ph c

theorem spTerms_eq {S : Type} (o : Ops S) (cs : CoeffSet S) (i : EvalInput) (ph : Nat) (c : Color) :
    spTerms o cs i ph c = restTerms o cs i ph c ++ [kingAttackTerm o cs i ph c] := rfl

theorem restTerms_map {S T : Type} {o₁ : Ops S} {o₂ : Ops T} {φ : S → T} (h : Hom o₁ o₂ φ)
    (cs : CoeffSet S) (i : EvalInput) (ph : Nat) (c : Color) :
    (restTerms o₁ cs i ph c).map φ = restTerms o₂ (cs.map φ) i ph c := by
  simp only [restTerms, List.map_append, pieceValueTerms_map h, tempoTerms_map h, bishopPairTerms_map h,
    passerTerms_map h, doubledTerms_map h, isolatedTerms_map h, loopTerms_map h]

theorem sum_append_single {S : Type} (o : Ops S) (l : List S) (x : S) : sum o (l ++ [x]) = o.add (sum o l) x := by
  simp [sum, List.foldl_append]

/-! ### the two instances -/

theorem wrapS16_wrapS16_add (a b : Int) : wrapS16 (wrapS16 a + wrapS16 b) = wrapS16 (a + b) := by
  unfold wrapS16; omega

theorem wrapS16_wrapS16_sub (a b : Int) : wrapS16 (wrapS16 a - wrapS16 b) = wrapS16 (a - b) := by
  unfold wrapS16; omega

theorem wrapS16_idem (a : Int) : wrapS16 (wrapS16 a) = wrapS16 a := by unfold wrapS16; omega

theorem wrapS16_mul (n x : Int) : wrapS16 (n * wrapS16 x) = wrapS16 (n * x) := by
  unfold wrapS16
  have : (x + 32768) % 65536 - 32768 = x - 65536 * ((x + 32768) / 65536) := by omega
  rw [this, Int.mul_sub, ← Int.mul_assoc, Int.mul_comm n 65536, Int.mul_assoc]
  generalize n * x = y
  generalize n * ((x + 32768) / 65536) = k
  omega

theorem hom_wrap : Hom opsZ opsI16 wrapS16 where
  ofInt n := rfl
  add a b := by simp only [opsZ, opsI16, wrapS16_wrapS16_add]
  sub a b := by simp only [opsZ, opsI16, wrapS16_wrapS16_sub]
  mulInt n x := by simp only [opsZ, opsI16, wrapS16_mul]

theorem hom_cast (σ : Rat → Rat) : Hom opsZ (opsQ σ) (fun n : Int => (n : Rat)) where
  ofInt n := rfl
  add a b := by simp only [opsZ, opsQ]; exact Rat.intCast_add a b
  sub a b := by simp only [opsZ, opsQ]; exact Rat.intCast_sub a b
  mulInt n x := by simp only [opsZ, opsQ]; exact Rat.intCast_mul n x

end ChessVerif.Eval
