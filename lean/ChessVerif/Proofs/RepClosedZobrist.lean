/-
  C10 closed, part 6: `NoCollision` is exactly "the Zobrist hash is injective on the hashed features of
  the boards of this history".

  C04's `Board.SamePosition` = same placement, side to move, castling rights and en-passant file state
  = the features `calculateHash` reads.  For `ValidNC` boards with normal en-passant state,
  `SamePosition x y ↔ sameForRepetition x.abs y.abs` (`same_of_samePosition`, `samePosition_of_same`), so
  the remaining hypothesis of the closed theorem can equivalently be read as
  "`calcHash K x = calcHash K y → SamePosition x y` for the boards of the game": a statement about the
  key table alone.
-/
import ChessVerif.Proofs.RepClosedPeriodic
namespace ChessVerif
namespace RepClosed
open Rules Board Rep

theorem ep_rank {p : Pos} {t : Nat} (h : Playable.epOK p = true) (he : p.ep = some t) :
    rank t = homeRank p.turn.flip + 2 * up p.turn.flip := by
  unfold Playable.epOK at h
  rw [he] at h
  simp only [Bool.and_eq_true, decide_eq_true_eq, beq_iff_eq] at h
  exact h.1.1.2

theorem ep_eq_of_file {x y : Board} (hx : ValidNC x) (hy : ValidNC y) (hs : x.stm = y.stm)
    (h0 : x.ep = 0 ↔ y.ep = 0) (hf : x.ep % 8 = y.ep % 8) : x.ep = y.ep := by
  by_cases hx0 : x.ep = 0
  · rw [hx0, h0.1 hx0]
  · have hy0 : y.ep ≠ 0 := fun e => hx0 (h0.2 e)
    have Vx := (Playable.validP_iff _).1 ((validNC_iff x).1 hx).2
    have Vy := (Playable.validP_iff _).1 ((validNC_iff y).1 hy).2
    have ex : (nc x.abs).ep = some x.ep := by
      show x.abs.ep = some x.ep
      rw [Bridge.abs_ep, if_neg hx0]
    have ey : (nc y.abs).ep = some y.ep := by
      show y.abs.ep = some y.ep
      rw [Bridge.abs_ep, if_neg hy0]
    have rx := ep_rank Vx.ep ex
    have ry := ep_rank Vy.ep ey
    have ht : (nc x.abs).turn = (nc y.abs).turn := hs
    rw [ht, ← ry] at rx
    unfold rank at rx
    have : x.ep / 8 = y.ep / 8 := by exact_mod_cast rx
    omega

/-- `SamePosition` (C04's "same hashed features") gives sameness for art. 9.2.2. -/
theorem same_of_samePosition {x y : Board} (hx : ValidNC x) (hy : ValidNC y) (h : SamePosition x y) :
    sameForRepetition x.abs y.abs = true := by
  have hep : x.ep = y.ep := ep_eq_of_file hx hy h.stm h.ep_none h.ep_file
  have hman : ∀ s, s < 64 → x.manAt s = y.manAt s := by
    intro s hs
    unfold manAt
    rw [h.col, h.col, h.sq s hs]
  have hmen : x.abs.men = y.abs.men := by
    apply vector_ext_getD none
    intro i hi
    have e1 := Bridge.abs_at' x i
    have e2 := Bridge.abs_at' y i
    unfold Pos.at_ at e1 e2
    rw [e1, e2, hman i hi]
  have hnm : nm x.abs = nm y.abs := by
    unfold nm
    have e1 : x.abs.turn = y.abs.turn := h.stm
    have e2 : x.abs.rights = y.abs.rights := by
      show Rights.mk _ _ _ _ = Rights.mk _ _ _ _
      rw [h.castles]
    have e3 : x.abs.ep = y.abs.ep := by rw [Bridge.abs_ep, Bridge.abs_ep, hep]
    rw [hmen, e1, e2, e3]
  exact same_of_nm hnm

/-- **the hash is injective on the hashed features** of the boards `bs`. -/
def ZobristInjective (K : Keys) (bs : List Board) : Prop :=
  ∀ x ∈ bs, ∀ y ∈ bs, calcHash K x = calcHash K y → SamePosition x y

theorem noCollision_of_injective (K : Keys) {bs : List Board} (hv : ∀ b ∈ bs, ValidNC b)
    (h : ZobristInjective K bs) : NoCollision K bs :=
  fun x hx y hy e => same_of_samePosition (hv x hx) (hv y hy) (h x hx y hy e)

theorem injective_of_noCollision (K : Keys) {bs : List Board} (hv : ∀ b ∈ bs, ValidNC b)
    (hn : ∀ b ∈ bs, epNormal b.abs = true) (h : NoCollision K bs) : ZobristInjective K bs :=
  fun x hx y hy e => samePosition_of_same ((wf_iff x).2 ((validNC_iff x).1 (hv x hx)).1)
    ((wf_iff y).2 ((validNC_iff y).1 (hv y hy)).1) (hn x hx) (hn y hy) (h x hx y hy e)

/-- along a legal game from a normal start the two readings of "no collision" coincide. -/
theorem noCollision_iff_injective (K : Keys) (b₀ : Board) (mvs : List Mv)
    (hv : ValidNC b₀) (hstart : epNormal b₀.abs = true) (hh : b₀.hashes = [calcHash K b₀])
    (hleg : legalGame b₀.abs mvs) :
    NoCollision K (boards K b₀ (mvs.map encodeMove)) ↔ ZobristInjective K (boards K b₀ (mvs.map encodeMove)) := by
  obtain ⟨ht, _, _, _, _⟩ := tied_and_hashTied K b₀ mvs hv hh hleg
  have normal : ∀ b ∈ boards K b₀ (mvs.map encodeMove), epNormal b.abs = true := by
    intro b hb
    obtain ⟨p, hp, e⟩ := ht.mem_right b hb
    rw [← epNormal_nc, ← e, epNormal_nc]; exact positions_epNormal hstart mvs p hp
  exact ⟨injective_of_noCollision K ht.validNC normal, noCollision_of_injective K ht.validNC⟩

end RepClosed
end ChessVerif
