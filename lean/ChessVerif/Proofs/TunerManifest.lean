/-
  C20, part 4: the line manifest built by `NewChunker` is the list of offsets of the non-blank
  newline-terminated lines of the file.
-/
import ChessVerif.Spec.Tuner
import Mathlib.Data.List.Basic

namespace ChessVerif.Tuner
open Spec

/-- From offset `off` to its end, the file reads `rest`. -/
def At (f : File) (off : Nat) (rest : List UInt8) : Prop :=
  f.size = off + rest.length ∧ ∀ i (h : i < rest.length), f.byte (off + i) = rest[i]

theorem at_zero_of_content (f : File) : At f 0 f.content := by
  refine ⟨by simp [File.content], ?_⟩
  intro i h
  simp [File.content]

theorem At.shift {f : File} {off : Nat} {a b : List UInt8} (h : At f off (a ++ b)) :
    At f (off + a.length) b := by
  obtain ⟨h1, h2⟩ := h
  refine ⟨by rw [h1, List.length_append]; omega, ?_⟩
  intro i hi
  have := h2 (a.length + i) (by rw [List.length_append]; omega)
  rw [List.getElem_append_right (by omega)] at this
  simpa [Nat.add_assoc] using this

theorem At.slice {f : File} {off : Nat} {a b : List UInt8} (h : At f off (a ++ b)) :
    f.slice off (off + a.length) = a := by
  obtain ⟨_, h2⟩ := h
  apply List.ext_getElem
  · simp [File.slice]
  · intro i h1 h3
    simp only [File.slice, List.getElem_map, List.getElem_range', Nat.one_mul]
    have hi : i < a.length := by simpa [File.slice] using h1
    have := h2 i (by rw [List.length_append]; omega)
    rw [List.getElem_append_left hi] at this
    exact this

theorem findNL_found (f : File) : ∀ k w pos, (∀ i, i < k → f.byte (pos + i) ≠ NL) →
    f.byte (pos + k) = NL → k < w → findNL f w pos = some (pos + k) := by
  intro k
  induction k with
  | zero =>
    intro w pos _ h hw
    obtain ⟨w', rfl⟩ : ∃ w', w = w' + 1 := ⟨w - 1, by omega⟩
    unfold findNL
    simp at h
    simp [h]
  | succ k ih =>
    intro w pos hne h hw
    obtain ⟨w', rfl⟩ : ∃ w', w = w' + 1 := ⟨w - 1, by omega⟩
    unfold findNL
    have h0 : f.byte pos ≠ NL := by simpa using hne 0 (by omega)
    rw [if_neg (by simpa using h0)]
    have := ih w' (pos + 1) (fun i hi => by have := hne (i + 1) (by omega); rwa [show pos + 1 + i = pos + (i + 1) by omega])
      (by rwa [show pos + 1 + k = pos + (k + 1) by omega]) (by omega)
    rw [this]
    congr 1
    omega

theorem findNL_none (f : File) : ∀ w pos, (∀ i, i < w → f.byte (pos + i) ≠ NL) → findNL f w pos = none := by
  intro w
  induction w with
  | zero => intro pos _; rfl
  | succ w ih =>
    intro pos hne
    unfold findNL
    have h0 : f.byte pos ≠ NL := by simpa using hne 0 (by omega)
    rw [if_neg (by simpa using h0)]
    exact ih (pos + 1) (fun i hi => by have := hne (i + 1) (by omega); rwa [show pos + 1 + i = pos + (i + 1) by omega])

/-- `ReadSlice` at the start of a complete line that fits the buffer returns that line with its `'\n'`. -/
theorem readSlice_line (f : File) (bufSz off : Nat) (l rest : List UInt8)
    (hat : At f off (l ++ [NL] ++ rest)) (hnl : NL ∉ l) (hfit : l.length + 1 ≤ bufSz) :
    readSlice f bufSz off = .line (off + l.length + 1) := by
  obtain ⟨h1, h2⟩ := hat
  have hlen : (l ++ [NL] ++ rest).length = l.length + 1 + rest.length := by simp; omega
  have hfound : findNL f (min bufSz (f.size - off)) off = some (off + l.length) := by
    apply findNL_found
    · intro i hi
      rw [h2 i (by omega), List.getElem_append_left (by simp; omega), List.getElem_append_left hi]
      intro e
      exact hnl (e ▸ List.getElem_mem hi)
    · rw [h2 l.length (by omega), List.getElem_append_left (by simp)]
      simp
    · omega
  unfold readSlice
  simp only [hfound]

/-- `ReadSlice` on an unterminated tail shorter than the buffer reports EOF. -/
theorem readSlice_eof (f : File) (bufSz off : Nat) (tail : List UInt8)
    (hat : At f off tail) (hnl : NL ∉ tail) (hfit : tail.length < bufSz) :
    readSlice f bufSz off = .eof := by
  obtain ⟨h1, h2⟩ := hat
  have hw : min bufSz (f.size - off) = tail.length := by omega
  have hnone : findNL f (min bufSz (f.size - off)) off = none := by
    apply findNL_none
    intro i hi
    rw [hw] at hi
    rw [h2 i hi]
    intro e
    exact hnl (e ▸ List.getElem_mem hi)
  unfold readSlice
  simp only [hnone]
  rw [if_neg (by omega)]

/-- The file text of complete lines. -/
def joined (lines : List (List UInt8)) : List UInt8 := (lines.map (· ++ [NL])).flatten

theorem joined_cons (l : List UInt8) (ls : List (List UInt8)) : joined (l :: ls) = l ++ [NL] ++ joined ls := by
  simp [joined]

theorem length_le_joined (lines : List (List UInt8)) : lines.length ≤ (joined lines).length := by
  induction lines with
  | nil => simp [joined]
  | cons l ls ih => rw [joined_cons]; simp; omega

theorem manifestLoop_spec (f : File) (bufSz : Nat) (tail : List UInt8) (htn : NL ∉ tail)
    (htl : tail.length < bufSz) :
    ∀ (lines : List (List UInt8)) (off fuel : Nat) (acc : Array LineAddr),
      At f off (joined lines ++ tail) → (∀ l ∈ lines, NL ∉ l ∧ l.length + 1 ≤ bufSz) → lines.length < fuel →
      ∃ m, manifestLoop f bufSz fuel off acc = some m ∧
        m.toList = acc.toList ++ (spans lines off).filter (fun a => a.stop - a.start > 1) := by
  intro lines
  induction lines with
  | nil =>
    intro off fuel acc hat _ hfuel
    obtain ⟨fuel', rfl⟩ : ∃ k, fuel = k + 1 := ⟨fuel - 1, by simp at hfuel; omega⟩
    have : readSlice f bufSz off = .eof := readSlice_eof f bufSz off tail (by simpa [joined] using hat) htn htl
    unfold manifestLoop
    simp [this, spans]
  | cons l ls ih =>
    intro off fuel acc hat hl hfuel
    obtain ⟨fuel', rfl⟩ : ∃ k, fuel = k + 1 := ⟨fuel - 1, by simp at hfuel; omega⟩
    have hl0 := hl l (by simp)
    have hat' : At f off (l ++ [NL] ++ (joined ls ++ tail)) := by
      rw [joined_cons, List.append_assoc] at hat; exact hat
    have hrs := readSlice_line f bufSz off l (joined ls ++ tail) hat' hl0.1 hl0.2
    have hshift : At f (off + l.length + 1) (joined ls ++ tail) := by
      have := hat'.shift
      simpa [Nat.add_assoc] using this
    unfold manifestLoop
    simp only [hrs]
    obtain ⟨m, hm, hml⟩ := ih (off + l.length + 1) fuel'
      (if off + l.length + 1 - off > 1 then acc.push ⟨off, off + l.length + 1⟩ else acc)
      hshift (fun q hq => hl q (by simp [hq])) (by simp at hfuel; omega)
    refine ⟨m, hm, ?_⟩
    rw [hml]
    simp only [spans, List.filter_cons]
    by_cases hb : off + l.length + 1 - off > 1
    · simp [hb]
    · simp [hb]

/-- **manifest_spec**. -/
theorem newChunkerWith_spec (f : File) (bufSz : Nat) (lines : List (List UInt8)) (tail : List UInt8)
    (hp : Parsed f.content lines tail) (hfit : ∀ l ∈ lines, l.length + 1 ≤ bufSz) (htail : tail.length < bufSz) :
    ∃ m, newChunkerWith bufSz f = some m ∧ m.toList = nonBlankSpans lines := by
  have hat : At f 0 (joined lines ++ tail) := by
    have := at_zero_of_content f
    rw [hp.eq] at this
    exact this
  have hsz : lines.length < f.size + 1 := by
    have h1 := hat.1
    have := length_le_joined lines
    rw [List.length_append] at h1
    omega
  obtain ⟨m, hm, hml⟩ := manifestLoop_spec f bufSz tail hp.tail_nonl htail lines 0 (f.size + 1) #[] hat
    (fun l hl => ⟨hp.lines_nonl l hl, hfit l hl⟩) hsz
  exact ⟨m, hm, by simpa [nonBlankSpans] using hml⟩

/-- The spans address exactly the lines: `file[start, stop-1)` is the line, `file[stop-1]` its `'\n'`. -/
theorem spans_slice (f : File) (tail : List UInt8) : ∀ (lines : List (List UInt8)) (off : Nat),
    At f off (joined lines ++ tail) →
    ((spans lines off).filter (fun a => a.stop - a.start > 1)).map (fun a => f.slice a.start (a.stop - 1))
      = nonBlank lines := by
  intro lines
  induction lines with
  | nil => intro off _; simp [spans, nonBlank]
  | cons l ls ih =>
    intro off hat
    have hat' : At f off (l ++ ([NL] ++ (joined ls ++ tail))) := by
      rw [joined_cons] at hat; simpa [List.append_assoc] using hat
    have hsl : f.slice off (off + l.length) = l := hat'.slice
    have hshift : At f (off + l.length + 1) (joined ls ++ tail) := by
      have h2 : At f off ((l ++ [NL]) ++ (joined ls ++ tail)) := by simpa [List.append_assoc] using hat'
      have := h2.shift
      simpa [Nat.add_assoc] using this
    have ihh := ih (off + l.length + 1) hshift
    simp only [spans, List.filter_cons, nonBlank] at ihh ⊢
    by_cases hb : l = []
    · subst hb
      simpa using ihh
    · have hpos : 0 < l.length := List.length_pos_iff.2 hb
      have h1 : off + l.length + 1 - off > 1 := by omega
      simp only [h1, decide_true, if_true, List.map_cons, hb, ne_eq, not_false_eq_true]
      rw [show off + l.length + 1 - 1 = off + l.length by omega, hsl, ihh]

end ChessVerif.Tuner
