/-
  C09: pseudo-legal non-king moves (`PL.PL`) read as attacks (`Att`) and pawn advances, in both
  directions — the interface between the engine's `Attackers`/`Block` sets and the rule book's moves.
-/
import ChessVerif.Proofs.MateCheckDefs

namespace ChessVerif.Mate
open ChessVerif Board Rules Bridge

variable {b : Board} {K : Nat}

/-- knights, bishops, rooks and queens: a move is pseudo-legal iff the man attacks the destination
    (and no own man stands there). -/
def IsOfficer (k : Piece) : Prop := k = .knight ∨ k = .bishop ∨ k = .rook ∨ k = .queen

theorem PLk_officer (s t pr : Nat) (hs : s < 64) (ht : t < 64) (k : Piece) (hk : IsOfficer k) :
    PLk b k s t pr ↔ pr = 0 ∧ Att b.occ b.stm k s t := by
  rcases hk with rfl | rfl | rfl | rfl
  · show (pr = 0 ∧ _) ↔ _
    rw [knight_lookup (o := b.occ) (c := b.stm) hs ht]
  · show (pr = 0 ∧ _) ↔ _
    rw [bishop_lookup (c := b.stm) hs ht]
  · show (pr = 0 ∧ _) ↔ _
    rw [rook_lookup (c := b.stm) hs ht]
  · show (pr = 0 ∧ _) ↔ _
    rw [queen_lookup (c := b.stm) hs ht]

/-- the promotion code that makes a pawn move from `s` pseudo-legal. -/
def promoFor (b : Board) (s : Nat) : Nat := if PL.relRank b.stm s = 6 then 5 else 0

theorem promoFor_lt (s : Nat) : promoFor b s < 8 := by unfold promoFor; split <;> decide

theorem promoFor_ok (s : Nat) : PL.promoOK b s (promoFor b s) := by
  unfold PL.promoOK promoFor
  split <;> simp

/-- a pseudo-legal non-king move onto an OCCUPIED square is an attack on that square. -/
theorem PL_occupied_att (cx : Ctx b K) (s t pr : Nat) (hs : s < 64) (ht : t < 64) (hPL : PL.PL b s t pr)
    (hnk : b.pieceAt s ≠ .king) (hocc : b.occ.getLsbD t = true) : Att b.occ b.stm (b.pieceAt s) s t := by
  obtain ⟨_, _, hk⟩ := (PL_iff_kind cx.wf s t pr hs).1 hPL
  cases hp : b.pieceAt s <;> rw [hp] at hk
  · exact absurd hk id
  · apply Att_pawn.2
    rcases hk.2 with h | h | h | h
    · rw [h.2] at hocc; exact Bool.noConfusion hocc
    · rw [h.2.2.1] at hocc; exact Bool.noConfusion hocc
    · exact h.1
    · exact h.1
  · exact ((PLk_officer s t pr hs ht _ (Or.inl rfl)).1 hk).2
  · exact ((PLk_officer s t pr hs ht _ (Or.inr (Or.inl rfl))).1 hk).2
  · exact ((PLk_officer s t pr hs ht _ (Or.inr (Or.inr (Or.inl rfl)))).1 hk).2
  · exact ((PLk_officer s t pr hs ht _ (Or.inr (Or.inr (Or.inr rfl)))).1 hk).2
  · exact absurd hp hnk

/-- conversely an own non-king man attacking an enemy-occupied square may capture there. -/
theorem att_PL_capture (cx : Ctx b K) (s t : Nat) (hs : s < 64) (ht : t < 64)
    (hown : (b.colorBB b.stm).getLsbD s = true) (hopp : (b.colorBB b.stm.flip).getLsbD t = true)
    (hnk : b.pieceAt s ≠ .king) (hatt : Att b.occ b.stm (b.pieceAt s) s t) :
    ∃ pr, pr < 8 ∧ PL.PL b s t pr := by
  have hto := opp_not_own cx t hopp
  cases hp : b.pieceAt s <;> rw [hp] at hatt
  · exact absurd hatt Att_none
  · refine ⟨promoFor b s, promoFor_lt s, (PL_iff_kind cx.wf s t _ hs).2 ⟨hown, hto, ?_⟩⟩
    rw [hp]
    exact ⟨promoFor_ok s, Or.inr (Or.inr (Or.inl ⟨Att_pawn.1 hatt, hopp⟩))⟩
  · exact ⟨0, by decide, (PL_iff_kind cx.wf s t _ hs).2 ⟨hown, hto, by
      rw [hp]; exact (PLk_officer s t 0 hs ht _ (Or.inl rfl)).2 ⟨rfl, hatt⟩⟩⟩
  · exact ⟨0, by decide, (PL_iff_kind cx.wf s t _ hs).2 ⟨hown, hto, by
      rw [hp]; exact (PLk_officer s t 0 hs ht _ (Or.inr (Or.inl rfl))).2 ⟨rfl, hatt⟩⟩⟩
  · exact ⟨0, by decide, (PL_iff_kind cx.wf s t _ hs).2 ⟨hown, hto, by
      rw [hp]; exact (PLk_officer s t 0 hs ht _ (Or.inr (Or.inr (Or.inl rfl)))).2 ⟨rfl, hatt⟩⟩⟩
  · exact ⟨0, by decide, (PL_iff_kind cx.wf s t _ hs).2 ⟨hown, hto, by
      rw [hp]; exact (PLk_officer s t 0 hs ht _ (Or.inr (Or.inr (Or.inr rfl)))).2 ⟨rfl, hatt⟩⟩⟩
  · exact absurd hp hnk

/-- a pseudo-legal non-king, non-en-passant move onto a VACANT square: an officer's attack or a
    pawn advance. -/
theorem PL_vacant_cases (cx : Ctx b K) (s t pr : Nat) (hs : s < 64) (ht : t < 64) (hPL : PL.PL b s t pr)
    (hnk : b.pieceAt s ≠ .king) (hocc : b.occ.getLsbD t = false) (hne : ¬ IsEp b s t) :
    (IsOfficer (b.pieceAt s) ∧ Att b.occ b.stm (b.pieceAt s) s t) ∨
      (b.pieceAt s = .pawn ∧ (PL.PLpush1 b s t ∨ PL.PLpush2 b s t)) := by
  obtain ⟨_, _, hk⟩ := (PL_iff_kind cx.wf s t pr hs).1 hPL
  cases hp : b.pieceAt s <;> rw [hp] at hk
  · exact absurd hk id
  · right
    refine ⟨rfl, ?_⟩
    rcases hk.2 with h | h | h | h
    · exact Or.inl h
    · exact Or.inr h
    · rw [occ_of_opp t h.2] at hocc; exact Bool.noConfusion hocc
    · exfalso
      apply hne
      refine ⟨hp, h.2.1, h.2.2, ?_⟩
      have := h.1
      revert this
      cases b.stm <;> simp only [PL.capGeom] <;> omega
  · exact Or.inl ⟨Or.inl rfl, ((PLk_officer s t pr hs ht _ (Or.inl rfl)).1 hk).2⟩
  · exact Or.inl ⟨Or.inr (Or.inl rfl), ((PLk_officer s t pr hs ht _ (Or.inr (Or.inl rfl))).1 hk).2⟩
  · exact Or.inl ⟨Or.inr (Or.inr (Or.inl rfl)), ((PLk_officer s t pr hs ht _ (Or.inr (Or.inr (Or.inl rfl)))).1 hk).2⟩
  · exact Or.inl ⟨Or.inr (Or.inr (Or.inr rfl)), ((PLk_officer s t pr hs ht _ (Or.inr (Or.inr (Or.inr rfl)))).1 hk).2⟩
  · exact absurd hp hnk

theorem officer_ne_king {k : Piece} (h : IsOfficer k) : k ≠ .king := by
  rcases h with rfl | rfl | rfl | rfl <;> decide

theorem officer_ne_pawn {k : Piece} (h : IsOfficer k) : k ≠ .pawn := by
  rcases h with rfl | rfl | rfl | rfl <;> decide

/-- an officer attacking a square without an own man may move there. -/
theorem PL_of_officer (cx : Ctx b K) (s t : Nat) (hs : s < 64) (ht : t < 64)
    (hown : (b.colorBB b.stm).getLsbD s = true) (hto : (b.colorBB b.stm).getLsbD t = false)
    (hk : IsOfficer (b.pieceAt s)) (hatt : Att b.occ b.stm (b.pieceAt s) s t) : PL.PL b s t 0 :=
  (PL_iff_kind cx.wf s t 0 hs).2 ⟨hown, hto, (PLk_officer s t 0 hs ht _ hk).2 ⟨rfl, hatt⟩⟩

theorem not_own_of_vacant (t : Nat) (h : b.occ.getLsbD t = false) : (b.colorBB b.stm).getLsbD t = false := by
  cases h' : (b.colorBB b.stm).getLsbD t
  · rfl
  · rw [occ_of_own t h'] at h; exact Bool.noConfusion h

/-- a pawn advance onto a vacant square is pseudo-legal (with the right promotion code). -/
theorem PL_of_push (cx : Ctx b K) (s t : Nat) (hs : s < 64)
    (hown : (b.colorBB b.stm).getLsbD s = true) (hp : b.pieceAt s = .pawn)
    (h : PL.PLpush1 b s t ∨ PL.PLpush2 b s t) : PL.PL b s t (promoFor b s) := by
  have hocc : b.occ.getLsbD t = false := by
    rcases h with h | h
    · exact h.2
    · exact h.2.2.1
  refine (PL_iff_kind cx.wf s t _ hs).2 ⟨hown, not_own_of_vacant t hocc, ?_⟩
  rw [hp]
  refine ⟨promoFor_ok s, ?_⟩
  rcases h with h | h
  · exact Or.inl h
  · exact Or.inr (Or.inl h)

/-- a move onto a square that is vacant or enemy-occupied and is not the en-passant square is not an
    en-passant capture; a move by an officer never is. -/
theorem not_isEp_of_officer (s t : Nat) (hk : IsOfficer (b.pieceAt s)) : ¬ IsEp b s t :=
  fun h => officer_ne_pawn hk h.1

theorem not_isEp_of_occupied (cx : Ctx b K) (s t : Nat) (hocc : b.occ.getLsbD t = true) : ¬ IsEp b s t := by
  intro h
  have := ((PL.PLDomain_of_valid cx.valid).ep h.2.1).2.2
  rw [← h.2.2.1, hocc] at this
  exact Bool.noConfusion this

theorem not_isEp_of_push (s t : Nat) (h : PL.PLpush1 b s t ∨ PL.PLpush2 b s t) : ¬ IsEp b s t := by
  intro he
  have h4 := he.2.2.2
  rcases h with h | h
  · have := h.1; revert this; cases b.stm <;> simp only [PL.ahead] <;> omega
  · have := h.1; revert this; cases b.stm <;> simp only [PL.ahead] <;> omega

/-- occupancies that agree bit by bit give the same `Chk`. -/
theorem Chk_congr {o o' x : BB} {T : Nat} (h : ∀ u, u < 64 → o.getLsbD u = o'.getLsbD u) :
    Chk b o x T ↔ Chk b o' x T := by
  constructor
  · rintro ⟨a, ha, hc, hx, hatt⟩
    exact ⟨a, ha, hc, hx, (Att_congr (fun u hu => h u (sb_lt hu))).1 hatt⟩
  · rintro ⟨a, ha, hc, hx, hatt⟩
    exact ⟨a, ha, hc, hx, (Att_congr (fun u hu => h u (sb_lt hu))).2 hatt⟩

theorem SChk_congr {o o' x : BB} {T : Nat} (h : ∀ u, u < 64 → o.getLsbD u = o'.getLsbD u) :
    SChk b o x T ↔ SChk b o' x T := by
  constructor
  · rintro ⟨a, ha, hc, hx, hs, hatt⟩
    exact ⟨a, ha, hc, hx, hs, (Att_congr (fun u hu => h u (sb_lt hu))).1 hatt⟩
  · rintro ⟨a, ha, hc, hx, hs, hatt⟩
    exact ⟨a, ha, hc, hx, hs, (Att_congr (fun u hu => h u (sb_lt hu))).2 hatt⟩

/-- capturing on an occupied square: the destination bit is already set. -/
theorem occ_capture_eq (s t : Nat) (hs : s < 64) (ht : t < 64) (hst : s ≠ t) (hocc : b.occ.getLsbD t = true)
    (u : Nat) : ((b.occ &&& ~~~ bit s) ||| bit t).getLsbD u = (b.occ &&& ~~~ bit s).getLsbD u := by
  rw [getLsbD_or_bit _ _ _ ht]
  by_cases e : t = u
  · subst e
    rw [getLsbD_andNot_bit _ _ _ hs, hocc]
    simp [hst]
  · simp [e]

end ChessVerif.Mate
