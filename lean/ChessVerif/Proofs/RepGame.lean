/-
  C10: the repetition count the model reports equals the number of occurrences of the current
  position in the game history, capped at three.

  Vocabulary (history lists have the CURRENT position at the head):
  * `positions start ms`   the positions of the game `start, mv₁, mv₂, …` (rule-book `Rules.apply`);
  * `legalGame start ms`   every move is legal (`Rules.legal`) in the position it is played in;
  * `occurrences p hist`   number of positions of `hist` that are the same as `p` in the sense of
                           FIDE art. 9.2.2 (`Rules.sameForRepetition`);
  * `HashFaithful`         EXPLICIT HYPOTHESIS: among the (position, hash) pairs of this history,
                           equal hashes ⇔ same position.  It cannot be proved for abstract Zobrist keys
                           and is false for adversarial keys; the correspondence harness measures it.
-/
import ChessVerif.Proofs.RepScan
import ChessVerif.Proofs.RepRules
import ChessVerif.Model.Abs

namespace ChessVerif
namespace Rep
open Rules

/-! ### game histories -/

/-- play one move on a history (head = current position). -/
def stepHist : List Pos → Mv → List Pos
  | [], _ => []
  | p :: h, mv => apply p mv :: p :: h

/-- the positions of the game, most recent first. -/
def positions (start : Pos) (ms : List Mv) : List Pos := ms.foldl stepHist [start]

/-- every move of `ms` is legal in the position it is played in (history `h`, head = current). -/
def legalFrom : List Pos → List Mv → Prop
  | _, [] => True
  | [], _ :: _ => False
  | p :: h, mv :: ms => legal p mv = true ∧ legalFrom (apply p mv :: p :: h) ms

def legalGame (start : Pos) (ms : List Mv) : Prop := legalFrom [start] ms

/-- number of occurrences of `p` in `hist` (art. 9.2.2). -/
def occurrences (p : Pos) (hist : List Pos) : Nat := (hist.filter (sameForRepetition p)).length

/-- a history list built by legal moves from some start position. -/
inductive LegalHistory : List Pos → Prop
  | start (p : Pos) : LegalHistory [p]
  | step {p : Pos} {h : List Pos} {mv : Mv} :
      LegalHistory (p :: h) → legal p mv = true → LegalHistory (apply p mv :: p :: h)

theorem legalHistory_foldl : ∀ (ms : List Mv) (h : List Pos), LegalHistory h → legalFrom h ms →
    LegalHistory (ms.foldl stepHist h)
  | [], h, hh, _ => hh
  | mv :: ms, [], hh, hl => by cases hh
  | mv :: ms, p :: h, hh, hl => by
    simp only [List.foldl_cons, stepHist]
    exact legalHistory_foldl ms _ (LegalHistory.step hh hl.1) hl.2

theorem legalHistory_positions {start : Pos} {ms : List Mv} (h : legalGame start ms) :
    LegalHistory (positions start ms) :=
  legalHistory_foldl ms [start] (LegalHistory.start start) h

/-! ### alternation of the side to move along a history -/

def Alt : Color → List Pos → Prop
  | _, [] => True
  | t, p :: l => p.turn = t ∧ Alt t.flip l

theorem LegalHistory.alt : ∀ {l : List Pos}, LegalHistory l → ∀ p rest, l = p :: rest → Alt p.turn l := by
  intro l hl
  induction hl with
  | start q => intro p rest e; cases e; exact ⟨rfl, trivial⟩
  | @step q h mv _ _ ih =>
    intro p rest e
    cases e
    refine ⟨rfl, ?_⟩
    rw [apply_turn, Color.flip_flip]
    exact ih q h rfl

/-- a predicate that forces the side to move to be `t` sees only the even offsets of an alternating
    list that starts with `t`. -/
theorem countP_evens (P : Pos → Bool) (t : Color) (hP : ∀ x, P x = true → x.turn = t) :
    ∀ l : List Pos, Alt t l → (evens l).countP P = l.countP P
  | [], _ => by simp
  | [a], _ => by simp
  | a :: b :: l, h => by
    obtain ⟨_, hb, hl⟩ := h
    rw [Color.flip_flip] at hl
    have hPb : P b = false := by
      cases hpb : P b with
      | false => rfl
      | true => exact absurd ((hP b hpb).symm.trans hb).symm (Color.flip_ne t)
    rw [evens_cons_cons, List.countP_cons, List.countP_cons, List.countP_cons, countP_evens P t hP l hl]
    simp [hPb]

theorem mem_evens {α} : ∀ (l : List α) (x : α), x ∈ evens l → x ∈ l
  | [], x, h => by simp at h
  | [a], x, h => by simpa using h
  | a :: b :: l, x, h => by
    rw [evens_cons_cons] at h
    rcases List.mem_cons.1 h with e | h'
    · simp [e]
    · have := mem_evens l x h'
      simp [this]

/-! ### the hypothesis on the hashes -/

/-- among the (position, hash) pairs of this history: equal hashes ⇔ same position (art. 9.2.2). -/
def HashFaithful (hist : List (Pos × BB)) : Prop :=
  ∀ x ∈ hist, ∀ y ∈ hist, (x.2 = y.2 ↔ sameForRepetition x.1 y.1 = true)

/-! ### the count -/

/-- the rule-book side: the current position, the positions at odd distance (other side to move) and
    the position two plies back (`no_repeat_in_two`) contribute 1, 0, 0; from four plies back only
    the even distances can contribute. -/
theorem occurrences_eq {p0 : Pos} {rest : List Pos} (hl : LegalHistory (p0 :: rest)) :
    occurrences p0 (p0 :: rest) = 1 + (evens ((p0 :: rest).drop 4)).countP (sameForRepetition p0) := by
  have halt := hl.alt p0 rest rfl
  have hturn : ∀ x, sameForRepetition p0 x = true → x.turn = p0.turn := fun x h => (same_turn h).symm
  have hne : ∀ x : Pos, x.turn = p0.turn.flip → sameForRepetition p0 x = false := by
    intro x hx
    cases h : sameForRepetition p0 x with
    | false => rfl
    | true => rw [hturn x h] at hx; exact absurd hx.symm (Color.flip_ne _)
  unfold occurrences
  rw [← List.countP_eq_length_filter]
  match rest, hl, halt with
  | [], _, _ => simp [same_refl]
  | [p1], _, ⟨_, h1, _⟩ => simp [same_refl, hne p1 h1]
  | [p1, p2], hl, ⟨_, h1, _⟩ =>
    have h2 : sameForRepetition p0 p2 = false := by
      cases hl with
      | step hl' hm2 => cases hl' with
        | step _ hm1 => exact (no_repeat_in_two hm1 hm2).2
    simp [same_refl, hne p1 h1, h2]
  | p1 :: p2 :: p3 :: r4, hl, ⟨_, h1, _, h3, h4⟩ =>
    have h2 : sameForRepetition p0 p2 = false := by
      cases hl with
      | step hl' hm2 => cases hl' with
        | step _ hm1 => exact (no_repeat_in_two hm1 hm2).2
    rw [Color.flip_flip] at h3
    rw [Color.flip_flip, Color.flip_flip] at h4
    have := countP_evens (sameForRepetition p0) p0.turn hturn r4 h4
    simp [same_refl, hne p1 h1, h2, hne p3 h3, this]
    omega

/-- **C10, abstract form.**  `hist` = the (position, hash) pairs of the game, current first; the
    positions form a legal game, the board's hash history is the hash column, hashes are faithful
    on this history.  Then `Threefold` = occurrences of the current position, capped at 3. -/
theorem threefold_eq_hist (b : Board) (cur : Pos × BB) (older : List (Pos × BB))
    (hleg : LegalHistory ((cur :: older).map (·.1)))
    (htie : b.hashes = (cur :: older).map (·.2))
    (hf : HashFaithful (cur :: older)) :
    b.threefold = min 3 (occurrences cur.1 ((cur :: older).map (·.1))) := by
  have hh : b.hashes = cur.2 :: older.map (·.2) := by simpa using htie
  rw [threefold_scan_spec b _ _ hh]
  have hocc := occurrences_eq (p0 := cur.1) (rest := older.map (·.1)) (by simpa using hleg)
  have e1 : (cur.1 :: older.map (·.1)) = (cur :: older).map (·.1) := by simp
  rw [e1] at hocc
  rw [hocc]
  congr 2
  have e2 : (cur.2 :: older.map (·.2)) = (cur :: older).map (·.2) := by simp
  rw [e2, ← List.map_drop, ← List.map_drop, evens_map, evens_map, List.count_eq_countP,
    List.countP_map, List.countP_map]
  apply List.countP_congr
  intro y hy
  have hy' : y ∈ cur :: older := List.mem_of_mem_drop (mem_evens _ _ hy)
  have := hf cur (by simp) y hy'
  simp only [Function.comp, beq_iff_eq]
  constructor
  · intro h; exact this.1 h.symm
  · intro h; exact (this.2 h).symm

/-- **C10 on `positions`**: a legal game from `start`, the hash column `hs` (current first) of the
    board's history, faithful on this game. -/
theorem threefold_eq_positions (b : Board) (start : Pos) (ms : List Mv) (hs : List BB)
    (hleg : legalGame start ms)
    (hlen : hs.length = (positions start ms).length)
    (htie : b.hashes = hs)
    (hf : HashFaithful ((positions start ms).zip hs)) :
    b.threefold = min 3 (occurrences ((positions start ms).headD start) (positions start ms)) := by
  have hl := legalHistory_positions hleg
  have hmap1 : ((positions start ms).zip hs).map (·.1) = positions start ms :=
    List.map_fst_zip (by omega)
  have hmap2 : ((positions start ms).zip hs).map (·.2) = hs :=
    List.map_snd_zip (by omega)
  cases hz : (positions start ms).zip hs with
  | nil =>
    rw [hz] at hmap1
    rw [← hmap1] at hl
    cases hl
  | cons cur older =>
    rw [hz] at hmap1 hmap2 hf
    have := threefold_eq_hist b cur older (by rw [hmap1]; exact hl) (by rw [hmap2]; exact htie) hf
    rw [hmap1] at this
    rw [this]
    have : (positions start ms).headD start = cur.1 := by rw [← hmap1]; rfl
    rw [this]

/-! ### Board-level form: the game is played with `makeMove` -/

def stepBoards (K : Keys) : List Board → Move → List Board
  | [], _ => []
  | b :: h, m => (b.makeMove K m).1 :: b :: h

/-- the boards of the game, current first. -/
def boards (K : Keys) (b₀ : Board) (ms : List Move) : List Board := ms.foldl (stepBoards K) [b₀]

/-- the current board. -/
def run (K : Keys) (b₀ : Board) (ms : List Move) : Board := ms.foldl (fun b m => (b.makeMove K m).1) b₀

/-- HYPOTHESIS supplied by C02: every `makeMove` of the game abstracts to `Rules.apply`. -/
def AbsSteps (K : Keys) : Board → List Move → Prop
  | _, [] => True
  | b, m :: ms => (b.makeMove K m).1.abs = apply b.abs (decodeMove m) ∧ AbsSteps K (b.makeMove K m).1 ms

/-- HYPOTHESIS supplied by C04 (`Inv`): the hash history of the current board is the list of the
    from-scratch hashes of the boards of the game (the history is complete: it was reset when the
    start position was loaded and every move appended one entry). -/
def HashTied (K : Keys) (b₀ : Board) (ms : List Move) : Prop :=
  (run K b₀ ms).hashes = (boards K b₀ ms).map (Board.calcHash K)

theorem boards_foldl_head (K : Keys) : ∀ (ms : List Move) (b : Board) (h : List Board),
    ∃ t, ms.foldl (stepBoards K) (b :: h) = ms.foldl (fun b m => (b.makeMove K m).1) b :: t
  | [], b, h => ⟨h, rfl⟩
  | m :: ms, b, h => by
    simp only [List.foldl_cons, stepBoards]
    exact boards_foldl_head K ms _ _

theorem boards_abs (K : Keys) : ∀ (ms : List Move) (b : Board) (h : List Board), AbsSteps K b ms →
    (ms.foldl (stepBoards K) (b :: h)).map Board.abs =
      (ms.map decodeMove).foldl stepHist ((b :: h).map Board.abs)
  | [], b, h, _ => rfl
  | m :: ms, b, h, ha => by
    simp only [List.foldl_cons, stepBoards, List.map_cons, stepHist]
    rw [boards_abs K ms _ _ ha.2, List.map_cons, ha.1, List.map_cons]

/-- **C10 (`threefold_eq`)**: for a game played with `makeMove` from `b₀` whose moves are legal by
    the rule book, under the C02 / C04 facts and hash faithfulness on the positions of this game,
    `Threefold()` of the current board is the number of occurrences of the current position in the
    game history (same placement, side to move, castling rights and en-passant capturability),
    capped at three. -/
theorem threefold_eq (K : Keys) (b₀ : Board) (ms : List Move)
    (hleg : legalGame b₀.abs (ms.map decodeMove))
    (habs : AbsSteps K b₀ ms)
    (htie : HashTied K b₀ ms)
    (hf : HashFaithful ((boards K b₀ ms).map fun b => (b.abs, b.calcHash K))) :
    (run K b₀ ms).threefold =
      min 3 (occurrences (run K b₀ ms).abs (positions b₀.abs (ms.map decodeMove))) := by
  obtain ⟨t, ht⟩ := boards_foldl_head K ms b₀ []
  have hb : boards K b₀ ms = run K b₀ ms :: t := ht
  have hpos : (boards K b₀ ms).map Board.abs = positions b₀.abs (ms.map decodeMove) :=
    boards_abs K ms b₀ [] habs
  have hl := legalHistory_positions hleg
  rw [← hpos, hb] at hl ⊢
  have h1 : ∀ l : List Board, (l.map fun b => (b.abs, b.calcHash K)).map (·.1) = l.map Board.abs := by
    intro l; simp
  have h2 : ∀ l : List Board, (l.map fun b => (b.abs, b.calcHash K)).map (·.2) = l.map (Board.calcHash K) := by
    intro l; simp
  rw [hb] at hf
  have := threefold_eq_hist (run K b₀ ms) ((run K b₀ ms).abs, (run K b₀ ms).calcHash K)
    (t.map fun b => (b.abs, b.calcHash K))
    (by
      have := h1 (run K b₀ ms :: t)
      simp only [List.map_cons] at this ⊢
      rw [this]; exact hl)
    (by
      have e : (run K b₀ ms).hashes = (boards K b₀ ms).map (Board.calcHash K) := htie
      rw [hb] at e
      have := h2 (run K b₀ ms :: t)
      simp only [List.map_cons] at this ⊢
      rw [this]; exact e)
    (by simpa using hf)
  rw [this]
  have := h1 (run K b₀ ms :: t)
  simp only [List.map_cons] at this ⊢
  rw [this]

/-! ### executable checkers for concrete games (used by the non-vacuity examples; they avoid the
    enumeration of all legal moves wherever no en-passant target is involved) -/

def legalFromB : List Pos → List Mv → Bool
  | _, [] => true
  | [], _ :: _ => false
  | p :: h, mv :: ms => legal p mv && legalFromB (applyFast p mv :: p :: h) ms

theorem legalFromB_sound : ∀ h ms, legalFromB h ms = true → legalFrom h ms
  | _, [], _ => trivial
  | [], _ :: _, h => by simp [legalFromB] at h
  | p :: h, mv :: ms, hb => by
    simp only [legalFromB, Bool.and_eq_true] at hb
    refine ⟨hb.1, ?_⟩
    rw [apply_eq_fast]
    exact legalFromB_sound _ _ hb.2

def absStepOK (K : Keys) (b : Board) (m : Move) : Bool :=
  decide ((b.makeMove K m).1.abs = applyFast b.abs (decodeMove m))

theorem absStepOK_sound {K : Keys} {b : Board} {m : Move} (h : absStepOK K b m = true) :
    (b.makeMove K m).1.abs = apply b.abs (decodeMove m) := by
  rw [apply_eq_fast]; exact of_decide_eq_true h

def absStepsB (K : Keys) : Board → List Move → Bool
  | _, [] => true
  | b, m :: ms => absStepOK K b m && absStepsB K (b.makeMove K m).1 ms

theorem absStepsB_sound (K : Keys) (ms : List Move) : ∀ b, absStepsB K b ms = true → AbsSteps K b ms := by
  induction ms with
  | nil => intro b _; trivial
  | cons m ms ih =>
    intro b hb
    rw [absStepsB, Bool.and_eq_true] at hb
    exact ⟨absStepOK_sound hb.1, ih _ hb.2⟩

def faithfulB (hist : List (Pos × BB)) : Bool :=
  hist.all fun x => hist.all fun y => decide (x.2 = y.2) == sameFast x.1 y.1

theorem faithfulB_sound {hist : List (Pos × BB)} (h : faithfulB hist = true) : HashFaithful hist := by
  intro x hx y hy
  simp only [faithfulB, List.all_eq_true] at h
  have e : decide (x.2 = y.2) = sameFast x.1 y.1 := by simpa using h x hx y hy
  rw [same_eq_fast, ← e]; simp

/-- `positions` / `occurrences` in the cheap forms. -/
def stepHistFast : List Pos → Mv → List Pos
  | [], _ => []
  | p :: h, mv => applyFast p mv :: p :: h

def positionsFast (start : Pos) (ms : List Mv) : List Pos := ms.foldl stepHistFast [start]

def occFast (p : Pos) (hist : List Pos) : Nat := (hist.filter (sameFast p)).length

theorem positions_eq_fast (start : Pos) (ms : List Mv) : positions start ms = positionsFast start ms := by
  have : stepHist = stepHistFast := by
    funext h mv
    cases h with
    | nil => rfl
    | cons p t => simp only [stepHist, stepHistFast, apply_eq_fast]
  unfold positions positionsFast
  rw [this]

theorem occurrences_eq_fast (p : Pos) (hist : List Pos) : occurrences p hist = occFast p hist := by
  have : sameForRepetition p = sameFast p := funext (same_eq_fast p)
  unfold occurrences occFast
  rw [this]

end Rep
end ChessVerif
