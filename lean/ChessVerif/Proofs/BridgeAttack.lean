/-
  Third layer of the bridge, part 1: the attack lookups of the engine (`Attacks.rookMoves`, …), for an
  ARBITRARY occupancy `o`, are the rule book's `Rules.manAttacks` on any position `p` whose vacant
  squares are the complement of `o` (`EmptyIs p o`); symmetry of the lookups (the engine looks up
  attacks *from the target square*).
-/
import ChessVerif.Proofs.BridgeGeom
import ChessVerif.Proofs.PLBits
import ChessVerif.Props.C12

namespace ChessVerif.Bridge
open ChessVerif Board Rules

/-! ### coordinate conditions of the rule book vs. the geometric spec -/

theorem rookGeom_iff (a t : Nat) :
    (((Rules.file t - Rules.file a).natAbs == 0) != ((Rules.rank t - Rules.rank a).natAbs == 0)) = true ↔
      (fileOf a = fileOf t ∨ rankOf a = rankOf t) ∧ a ≠ t := by
  unfold Rules.file Rules.rank fileOf rankOf
  by_cases h1 : a % 8 = t % 8 <;> by_cases h2 : a / 8 = t / 8
  · have e1 : (((t % 8 : Nat) : Int) - ((a % 8 : Nat) : Int)).natAbs = 0 := by omega
    have e2 : (((t / 8 : Nat) : Int) - ((a / 8 : Nat) : Int)).natAbs = 0 := by omega
    rw [e1, e2]; simp; omega
  · have e1 : (((t % 8 : Nat) : Int) - ((a % 8 : Nat) : Int)).natAbs = 0 := by omega
    have e2 : ((((t / 8 : Nat) : Int) - ((a / 8 : Nat) : Int)).natAbs == 0) = false := by
      rw [beq_eq_false_iff_ne]; omega
    rw [e1, e2]; simp [h1]; intro e; subst e; exact h2 rfl
  · have e1 : ((((t % 8 : Nat) : Int) - ((a % 8 : Nat) : Int)).natAbs == 0) = false := by
      rw [beq_eq_false_iff_ne]; omega
    have e2 : (((t / 8 : Nat) : Int) - ((a / 8 : Nat) : Int)).natAbs = 0 := by omega
    rw [e1, e2]; simp [h2]; intro e; subst e; exact h1 rfl
  · have e1 : ((((t % 8 : Nat) : Int) - ((a % 8 : Nat) : Int)).natAbs == 0) = false := by
      rw [beq_eq_false_iff_ne]; omega
    have e2 : ((((t / 8 : Nat) : Int) - ((a / 8 : Nat) : Int)).natAbs == 0) = false := by
      rw [beq_eq_false_iff_ne]; omega
    rw [e1, e2]; simp [h1, h2]

theorem bishopGeom_iff (a t : Nat) :
    ((Rules.file t - Rules.file a).natAbs == (Rules.rank t - Rules.rank a).natAbs &&
        decide ((Rules.file t - Rules.file a).natAbs ≠ 0)) = true ↔
      Geometry.fileDist a t = Geometry.rankDist a t ∧ a ≠ t := by
  rw [Bool.and_eq_true, beq_iff_eq, decide_eq_true_eq]
  unfold Rules.file Rules.rank Geometry.fileDist Geometry.rankDist Geometry.fileI Geometry.rankI
  omega

theorem kingGeom_iff (a t : Nat) :
    (max (Rules.file t - Rules.file a).natAbs (Rules.rank t - Rules.rank a).natAbs == 1) =
      (max (Geometry.fileDist a t) (Geometry.rankDist a t) == 1) := by
  have : max (Rules.file t - Rules.file a).natAbs (Rules.rank t - Rules.rank a).natAbs
      = max (Geometry.fileDist a t) (Geometry.rankDist a t) := by
    unfold Rules.file Rules.rank Geometry.fileDist Geometry.rankDist Geometry.fileI Geometry.rankI
    omega
  rw [this]

theorem dist_eq (a t : Nat) :
    (Rules.file t - Rules.file a).natAbs = Geometry.fileDist a t ∧
    (Rules.rank t - Rules.rank a).natAbs = Geometry.rankDist a t := by
  unfold Rules.file Rules.rank Geometry.fileDist Geometry.rankDist Geometry.fileI Geometry.rankI
  omega

/-! ### the lookups are the rule book's attack relation -/

section lookups
variable {p : Pos} {o : BB}

/-- rook lookup, any occupancy. -/
theorem rook_attacks_iff (hp : EmptyIs p o) (c : Color) (a t : Nat) (ha : a < 64) (ht : t < 64) :
    (Attacks.rookMoves a o).getLsbD t = true ↔ Rules.manAttacks p (c, .rook) a t = true := by
  rw [C12.rookMoves_iff o a t ha ht]
  unfold Rules.manAttacks
  simp only []
  rw [Bool.and_eq_true, clearBetween_iff_forall hp a t ha ht, rookGeom_iff, and_assoc]

/-- bishop lookup, any occupancy. -/
theorem bishop_attacks_iff (hp : EmptyIs p o) (c : Color) (a t : Nat) (ha : a < 64) (ht : t < 64) :
    (Attacks.bishopMoves a o).getLsbD t = true ↔ Rules.manAttacks p (c, .bishop) a t = true := by
  rw [C12.bishopMoves_iff o a t ha ht]
  unfold Rules.manAttacks
  simp only []
  rw [Bool.and_eq_true, clearBetween_iff_forall hp a t ha ht, bishopGeom_iff, and_assoc]

theorem manAttacks_queen (p : Pos) (c : Color) (a t : Nat) :
    Rules.manAttacks p (c, .queen) a t =
      (Rules.manAttacks p (c, .bishop) a t || Rules.manAttacks p (c, .rook) a t) := by
  unfold Rules.manAttacks
  simp only []
  generalize Rules.clearBetween p a t = C
  generalize ((Rules.file t - Rules.file a).natAbs == (Rules.rank t - Rules.rank a).natAbs) = X
  generalize decide ((Rules.file t - Rules.file a).natAbs ≠ 0) = Y
  generalize (((Rules.file t - Rules.file a).natAbs == 0) != ((Rules.rank t - Rules.rank a).natAbs == 0)) = Z
  cases C <;> cases X <;> cases Y <;> cases Z <;> rfl

/-- queen lookup (the union of the two slider lookups), any occupancy. -/
theorem queen_attacks_iff (hp : EmptyIs p o) (c : Color) (a t : Nat) (ha : a < 64) (ht : t < 64) :
    (Attacks.bishopMoves a o ||| Attacks.rookMoves a o).getLsbD t = true ↔
      Rules.manAttacks p (c, .queen) a t = true := by
  rw [manAttacks_queen, BitVec.getLsbD_or, Bool.or_eq_true, Bool.or_eq_true,
    rook_attacks_iff hp c a t ha ht, bishop_attacks_iff hp c a t ha ht]

theorem queen_attacks_iff' (hp : EmptyIs p o) (c : Color) (a t : Nat) (ha : a < 64) (ht : t < 64) :
    (Attacks.rookMoves a o ||| Attacks.bishopMoves a o).getLsbD t = true ↔
      Rules.manAttacks p (c, .queen) a t = true := by
  rw [BitVec.or_comm]; exact queen_attacks_iff hp c a t ha ht

end lookups

/-- king table (no occupancy involved: any position). -/
theorem king_attacks_iff (p : Pos) (c : Color) (a t : Nat) (ha : a < 64) (ht : t < 64) :
    (Attacks.kingMoves a).getLsbD t = true ↔ Rules.manAttacks p (c, .king) a t = true := by
  rw [C12.kingMoves_eq a ha]
  unfold Geometry.kingSet Rules.manAttacks
  simp only []
  rw [AttacksProofs.getLsbD_ofPred, kingGeom_iff]
  simp [ht]

/-- knight table. -/
theorem knight_attacks_iff (p : Pos) (c : Color) (a t : Nat) (ha : a < 64) (ht : t < 64) :
    (Attacks.knightMoves a).getLsbD t = true ↔ Rules.manAttacks p (c, .knight) a t = true := by
  rw [C12.knightMoves_eq a ha]
  unfold Geometry.knightSet Rules.manAttacks
  simp only []
  rw [AttacksProofs.getLsbD_ofPred, (dist_eq a t).1, (dist_eq a t).2]
  simp [ht]

/-- the C05 capture geometry `capGeom` in rule-book coordinates. -/
theorem capGeom_iff (c : Color) (a t : Nat) (_ha : a < 64) (_ht : t < 64) :
    PL.capGeom c a t ↔
      (Rules.file t - Rules.file a).natAbs = 1 ∧ Rules.rank t - Rules.rank a = Rules.up c := by
  cases c <;> simp only [PL.capGeom, Rules.file, Rules.rank, Rules.up] <;> omega

/-- pawn capture formula on a single pawn. -/
theorem pawn_attacks_iff (p : Pos) (c : Color) (a t : Nat) (ha : a < 64) (ht : t < 64) :
    (Attacks.pawnCaptureMoves (bit a) c).getLsbD t = true ↔ Rules.manAttacks p (c, .pawn) a t = true := by
  rw [PL.pawnCap_get c a t ha, capGeom_iff c a t ha ht]
  unfold Rules.manAttacks
  simp [ht]

/-- the pawn capture formula on a set of pawns is the union over its members. -/
theorem pawnCapture_union (X : BB) (c : Color) (t : Nat) :
    (Attacks.pawnCaptureMoves X c).getLsbD t = true ↔
      ∃ a, a < 64 ∧ X.getLsbD a = true ∧ (Attacks.pawnCaptureMoves (bit a) c).getLsbD t = true := by
  rw [C12.pawnCapture_eq]
  unfold Geometry.pawnCaptureSet
  rw [AttacksProofs.getLsbD_ofPred]
  simp only [Bool.and_eq_true, decide_eq_true_eq, List.any_eq_true, List.mem_range, beq_iff_eq]
  constructor
  · rintro ⟨ht, s, hs, ⟨hX, hr⟩, hf⟩
    refine ⟨s, hs, hX, ?_⟩
    rw [C12.pawnCapture_eq]
    unfold Geometry.pawnCaptureSet
    rw [AttacksProofs.getLsbD_ofPred]
    simp only [Bool.and_eq_true, decide_eq_true_eq, List.any_eq_true, List.mem_range, beq_iff_eq]
    exact ⟨ht, s, hs, ⟨by rw [bit_getLsbD s s hs]; simp, hr⟩, hf⟩
  · rintro ⟨a, ha, hX, h⟩
    rw [C12.pawnCapture_eq] at h
    unfold Geometry.pawnCaptureSet at h
    rw [AttacksProofs.getLsbD_ofPred] at h
    simp only [Bool.and_eq_true, decide_eq_true_eq, List.any_eq_true, List.mem_range, beq_iff_eq] at h
    obtain ⟨ht, s, hs, ⟨hb, hr⟩, hf⟩ := h
    rw [bit_getLsbD a s ha, decide_eq_true_eq] at hb
    subst hb
    exact ⟨ht, a, hs, ⟨hX, hr⟩, hf⟩

/-- the rule-book attack relation of a man does not look at the position except through the vacancy
    of the squares strictly between origin and target. -/
theorem manAttacks_congr {p q : Pos} (m : Man) (a t : Nat)
    (h : ∀ u, u ∈ Rules.between a t → p.empty u = q.empty u) :
    Rules.manAttacks p m a t = Rules.manAttacks q m a t := by
  obtain ⟨c, k⟩ := m
  unfold Rules.manAttacks
  cases k <;> simp only [] <;> rw [clearBetween_congr a t h]

theorem manAttacks_none (p : Pos) (c : Color) (a t : Nat) : Rules.manAttacks p (c, .none) a t = false := rfl

/-- the attack relation of a man does not depend on its colour, except for pawns. -/
theorem manAttacks_color (p : Pos) (c d : Color) (k : Piece) (hk : k ≠ .pawn) (a t : Nat) :
    Rules.manAttacks p (c, k) a t = Rules.manAttacks p (d, k) a t := by
  unfold Rules.manAttacks
  cases k <;> first | rfl | exact absurd rfl hk

/-! ### symmetry of the lookups (fixed occupancy) -/

theorem rookMoves_symm (o : BB) (a t : Nat) (ha : a < 64) (ht : t < 64) :
    (Attacks.rookMoves t o).getLsbD a = (Attacks.rookMoves a o).getLsbD t := by
  rw [Bool.eq_iff_iff, C12.rookMoves_iff o t a ht ha, C12.rookMoves_iff o a t ha ht,
    strictlyBetween_comm t a ht ha]
  unfold fileOf rankOf
  constructor <;> rintro ⟨h1, h2, h3⟩ <;> exact ⟨by omega, by omega, h3⟩

theorem bishopMoves_symm (o : BB) (a t : Nat) (ha : a < 64) (ht : t < 64) :
    (Attacks.bishopMoves t o).getLsbD a = (Attacks.bishopMoves a o).getLsbD t := by
  rw [Bool.eq_iff_iff, C12.bishopMoves_iff o t a ht ha, C12.bishopMoves_iff o a t ha ht,
    strictlyBetween_comm t a ht ha]
  unfold Geometry.fileDist Geometry.rankDist
  constructor <;> rintro ⟨h1, h2, h3⟩ <;> exact ⟨by omega, by omega, h3⟩

theorem kingMoves_symm (a t : Nat) (ha : a < 64) (ht : t < 64) :
    (Attacks.kingMoves t).getLsbD a = (Attacks.kingMoves a).getLsbD t := by
  rw [C12.kingMoves_eq a ha, C12.kingMoves_eq t ht]
  unfold Geometry.kingSet
  rw [AttacksProofs.getLsbD_ofPred, AttacksProofs.getLsbD_ofPred]
  have : max (Geometry.fileDist t a) (Geometry.rankDist t a) = max (Geometry.fileDist a t) (Geometry.rankDist a t) := by
    unfold Geometry.fileDist Geometry.rankDist; omega
  rw [this]; simp [ha, ht]

theorem knightMoves_symm (a t : Nat) (ha : a < 64) (ht : t < 64) :
    (Attacks.knightMoves t).getLsbD a = (Attacks.knightMoves a).getLsbD t := by
  rw [C12.knightMoves_eq a ha, C12.knightMoves_eq t ht]
  unfold Geometry.knightSet
  rw [AttacksProofs.getLsbD_ofPred, AttacksProofs.getLsbD_ofPred]
  have h1 : Geometry.fileDist t a = Geometry.fileDist a t := by unfold Geometry.fileDist; omega
  have h2 : Geometry.rankDist t a = Geometry.rankDist a t := by unfold Geometry.rankDist; omega
  rw [h1, h2]; simp [ha, ht]

/-- pawn attacks reverse with the colour flipped. -/
theorem pawnCapture_symm (c : Color) (a t : Nat) (ha : a < 64) (ht : t < 64) :
    (Attacks.pawnCaptureMoves (bit t) c.flip).getLsbD a = (Attacks.pawnCaptureMoves (bit a) c).getLsbD t := by
  rw [Bool.eq_iff_iff, PL.pawnCap_get c.flip t a ht, PL.pawnCap_get c a t ha, PL.capGeom_flip]
  simp [ha, ht]

end ChessVerif.Bridge
