/-
  C02, example positions, part 2b: legal en-passant captures after the double push in `pin` and `blk`.
-/
import ChessVerif.Proofs.EpTargetExamples

namespace ChessVerif.EpTarget.Examples
open ChessVerif Board

theorem pin_caps : Rules.legalEpCaptures (Rules.applyCore (abs pin) (decodeMove e2e4)) = [] := by decide +kernel
theorem blk_caps : Rules.legalEpCaptures (Rules.applyCore (abs blk) (decodeMove d7d5)) = [⟨36, 43, none⟩] := by
  decide +kernel

end ChessVerif.EpTarget.Examples
