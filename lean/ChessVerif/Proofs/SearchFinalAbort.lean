/-
  Without a stop channel (`L.stop = none`) and without a hard node budget (`L.nodes = -1`) the abort
  flag can only be raised by running out of fuel: `incrementNodes` only counts, `abort` only reports
  the flag, `outOfFuel` sets both flags, every other update keeps both.  Proved piece by piece
  through the skeleton; no component law and no board invariant is needed.
-/
import ChessVerif.Proofs.SearchGo

namespace ChessVerif
namespace Search

variable {σ π : Type}

/-- the abort flag, if raised, was raised by running out of fuel. -/
def AF (s : St σ) : Prop := s.aborted = true → s.fuelOut = true

/-- no stop channel, no hard node budget. -/
structure NoLimit (L : Limits) : Prop where
  stop : L.stop = none
  nodes : L.nodes = -1

theorem af_abort {L : Limits} (h : NoLimit L) (s : St σ) : abort L s = (s.aborted, s) := by
  unfold abort; rw [h.stop]
  cases hs : s.aborted <;> simp

theorem af_incr {L : Limits} (h : NoLimit L) (s : St σ) : incrementNodes L s = { s with nodes := s.nodes + 1 } := by
  unfold incrementNodes; rw [if_pos (Or.inl h.nodes)]

theorem af_outOfFuel (s : St σ) : AF s.outOfFuel := fun _ => rfl

/-! ### quiescence -/

def QAF (child : Score → Score → Int → St σ → Score × St σ) : Prop := ∀ a b p s, AF s → AF (child a b p s).2

theorem qAfter_af (c : Comp σ π) {L : Limits} (h : NoLimit L) (beta : Score) (ply : Int) (m : Move) (r : Board.Reverse)
    (l : QLoop) (v : Score) (s : St σ) (hs : AF s) : AF (qAfter c L beta ply m r l v s).2 := by
  simp only [qAfter, af_abort h]
  split
  · exact hs
  · split
    · exact hs
    · exact hs

theorem qLoop_af (c : Comp σ π) {L : Limits} (h : NoLimit L) (child : Score → Score → Int → St σ → Score × St σ)
    (hc : QAF child) (beta sp : Score) (ply : Int) :
    ∀ (moves : List (Move × Score)) (l : QLoop) (s : St σ), AF s → AF (qLoop c L child beta sp ply moves l s).2 := by
  intro moves
  induction moves with
  | nil => intro l s hs; exact hs
  | cons mw rest ih =>
    intro l s hs
    obtain ⟨m, w⟩ := mw
    simp only [qLoop]
    split
    · exact hs
    · split
      · exact ih l _ hs
      · split
        · exact hs
        · have hc1 := hc (neg beta) (neg l.alpha) (wrapS8 (ply + 1)) (s.setBoard (s.board.makeMove c.keys m).1) hs
          generalize child (neg beta) (neg l.alpha) (wrapS8 (ply + 1)) (s.setBoard (s.board.makeMove c.keys m).1) = r1
            at hc1 ⊢
          have ha := qAfter_af c h beta ply m (s.board.makeMove c.keys m).2 l r1.1 r1.2 hc1
          generalize qAfter c L beta ply m (s.board.makeMove c.keys m).2 l r1.1 r1.2 = o at ha ⊢
          obtain ⟨st, s'⟩ := o
          cases st with
          | ret v => exact ha
          | brk l' => exact ha
          | cont l' => exact ih l' s' ha

theorem qBody_af (c : Comp σ π) {L : Limits} (h : NoLimit L) (child : Score → Score → Int → St σ → Score × St σ)
    (hc : QAF child) (alpha beta : Score) (ply : Int) (s : St σ) (hs : AF s) :
    AF (qBody c L child alpha beta ply s).2 := by
  simp only [qBody]
  split
  · exact hs
  · split
    · exact hs
    · split
      · exact hs
      · split
        · exact hs
        · have hq := qLoop_af c h child hc beta (evaluate c s.board) ply (c.qMoves s.ps s.board s.hstack)
            { alpha := max alpha (evaluate c s.board), maxim := evaluate c s.board } s.pushFrame hs
          generalize qLoop c L child beta (evaluate c s.board) ply (c.qMoves s.ps s.board s.hstack)
            { alpha := max alpha (evaluate c s.board), maxim := evaluate c s.board } s.pushFrame = r at hq ⊢
          obtain ⟨f, s'⟩ := r
          cases f with
          | ret v => exact hq
          | done l' => exact hq

theorem quiescence_af (c : Comp σ π) {L : Limits} (h : NoLimit L) (fuel : Nat) : QAF (quiescence c L fuel) := by
  induction fuel with
  | zero => intro a b p s _; exact af_outOfFuel s
  | succ fuel ih =>
    intro a b p s hs
    simp only [quiescence, af_abort h, af_incr h]
    split
    · exact hs
    · split
      · exact hs
      · exact qBody_af c h _ ih a b p { s with nodes := s.nodes + 1 } hs

/-! ### alphaBeta -/

def ABAF (child : Child σ) : Prop := ∀ a b d ply nt s, AF s → AF (child a b d ply nt s).2

theorem callChild_af {child : Child σ} (hc : ABAF child) (a b : Score) (d ply : Int) (nt : NodeType) (s : St σ)
    (hs : AF s) : AF (callChild child a b d ply nt s).2 := hc a b d ply nt s hs

theorem searchRest_af {child : Child σ} (hc : ABAF child) (x : ABCtx) (l : ABLoop π) (next : NodeType) (s : St σ)
    (hs : AF s) : AF (searchRest child x l next s).2 := by
  simp only [searchRest]
  have c2 := callChild_af hc (wrapS16 (neg l.alpha - 1)) (neg l.alpha) (wrapS8 (x.d - 1)) (wrapS8 (x.ply + 1)) next s hs
  generalize callChild child (wrapS16 (neg l.alpha - 1)) (neg l.alpha) (wrapS8 (x.d - 1)) (wrapS8 (x.ply + 1)) next s = r2
    at c2 ⊢
  split
  · exact c2
  · split
    · exact c2
    · exact callChild_af hc _ _ _ _ _ r2.2 c2

theorem searchMove_af (c : Comp σ π) {child : Child σ} (hc : ABAF child) (x : ABCtx) (l : ABLoop π) (next : NodeType)
    (s : St σ) (hs : AF s) : AF (searchMove c child x l next s).2 := by
  simp only [searchMove]
  split
  · split
    · have c1 := callChild_af hc (wrapS16 (neg l.alpha - 1)) (neg l.alpha) (c.lmr x.d (l.moveCnt - 1) x.improving x.nt)
        (wrapS8 (x.ply + 1)) next s hs
      generalize callChild child (wrapS16 (neg l.alpha - 1)) (neg l.alpha) (c.lmr x.d (l.moveCnt - 1) x.improving x.nt)
        (wrapS8 (x.ply + 1)) next s = r1 at c1 ⊢
      split
      · exact c1
      · exact searchRest_af hc x l next r1.2 c1
    · split
      · exact hs
      · exact searchRest_af hc x l next s hs
  · exact callChild_af hc _ _ _ _ _ s hs

theorem abAfter_af (c : Comp σ π) {L : Limits} (h : NoLimit L) (x : ABCtx) (m : Move) (r : Board.Reverse) (l : ABLoop π)
    (value : Score) (s : St σ) (hs : AF s) : AF (abAfter c L x m r l value s).2 := by
  simp only [abAfter, af_abort h]
  split
  · exact hs
  · split
    · split
      · exact hs
      · split
        · exact hs
        · exact hs
    · split
      · exact hs
      · exact hs

theorem abLoop_af (c : Comp σ π) {L : Limits} (h : NoLimit L) {child : Child σ} (hc : ABAF child) (x : ABCtx) :
    ∀ (n : Nat) (l : ABLoop π) (s : St σ), AF s → AF (abLoop c L child x n l s).2 := by
  intro n
  induction n with
  | zero => intro l s _; exact af_outOfFuel s
  | succ n ih =>
    intro l s hs
    simp only [abLoop]
    split
    · exact hs
    · next m pk hpick =>
      split
      · exact ih _ _ hs
      · generalize abEnter { l with pick := pk, yielded := m :: l.yielded } (s.board.pieceAt (s.board.captureSq m)) m = l2
        have hsm := searchMove_af c hc x l2 (nextNodeType x.nt l2.moveCnt)
          ((s.setBoard (s.board.makeMove c.keys m).1).push
            { piece := s.board.pieceAt (Move.src m), to := Move.dst m, score := x.staticEval }) hs
        generalize searchMove c child x l2 (nextNodeType x.nt l2.moveCnt)
          ((s.setBoard (s.board.makeMove c.keys m).1).push
            { piece := s.board.pieceAt (Move.src m), to := Move.dst m, score := x.staticEval }) = r1 at hsm ⊢
        have ha := abAfter_af c h x m (s.board.makeMove c.keys m).2 l2 r1.1 r1.2 hsm
        generalize abAfter c L x m (s.board.makeMove c.keys m).2 l2 r1.1 r1.2 = o at ha ⊢
        obtain ⟨st, s'⟩ := o
        cases st with
        | ret v => exact ha
        | brk l' => exact ha
        | cont l' => exact ih l' s' ha

theorem nullMove_af (c : Comp σ π) {child : Child σ} (hc : ABAF child) (beta : Score) (d ply : Int) (se : Score)
    (s : St σ) (hs : AF s) : AF (nullMove c child beta d ply se s).2 := by
  simp only [nullMove]
  have cc := callChild_af hc (neg beta) (wrapS16 (neg beta + 1)) (c.nmpDepth d se beta) (wrapS8 (ply + 1)) .cut
    (s.setBoard (s.board.makeNull c.keys).1) hs
  generalize callChild child (neg beta) (wrapS16 (neg beta + 1)) (c.nmpDepth d se beta) (wrapS8 (ply + 1)) .cut
    (s.setBoard (s.board.makeNull c.keys).1) = r at cc ⊢
  split
  · exact cc
  · exact cc

theorem abMoves_af (c : Comp σ π) {L : Limits} (h : NoLimit L) {child : Child σ} (hc : ABAF child) (alpha beta : Score)
    (d ply : Int) (nt : NodeType) (inCheck improving : Bool) (se : Score) (hm : Move) (s : St σ) (hs : AF s) :
    AF (abMoves c L child alpha beta d ply nt inCheck improving se hm s).2 := by
  simp only [abMoves]
  generalize ABCtx.mk alpha beta (if c.iir nt d hm then wrapS8 (d - 1) else d) ply nt inCheck improving se = x
  have hq := abLoop_af c h hc x ((MoveGen.gen s.board).length + 1)
    { alpha := alpha, bestMove := 0, hasLegal := false, failLow := true, maxim := -Inf - 1, moveCnt := 0, quietCnt := 0,
      pick := c.pickInit s.board hm, yielded := [] } s.pushFrame hs
  generalize abLoop c L child x ((MoveGen.gen s.board).length + 1)
    { alpha := alpha, bestMove := 0, hasLegal := false, failLow := true, maxim := -Inf - 1, moveCnt := 0, quietCnt := 0,
      pick := c.pickInit s.board hm, yielded := [] } s.pushFrame = r at hq ⊢
  obtain ⟨f, s'⟩ := r
  cases f with
  | ret v => exact hq
  | done l' => exact hq

theorem abPrune_af (c : Comp σ π) {L : Limits} (h : NoLimit L) {child : Child σ} (hc : ABAF child) (alpha beta : Score)
    (d ply : Int) (nt : NodeType) (inCheck improving : Bool) (se : Score) (hm : Move) (s : St σ) (hs : AF s) :
    AF (abPrune c L child alpha beta d ply nt inCheck improving se hm s).2 := by
  simp only [abPrune]
  split
  · exact hs
  · split
    · have hn := nullMove_af c hc beta d ply se s hs
      generalize nullMove c child beta d ply se s = nm at hn ⊢
      obtain ⟨o, s'⟩ := nm
      cases o with
      | some v => exact hn
      | none => exact abMoves_af c h hc alpha beta d ply nt inCheck improving se hm s' hn
    · exact abMoves_af c h hc alpha beta d ply nt inCheck improving se hm s hs

theorem abBody_af (c : Comp σ π) {L : Limits} (h : NoLimit L) {child : Child σ} (hc : ABAF child) (alpha beta : Score)
    (d ply : Int) (nt : NodeType) (s : St σ) (hs : AF s) : AF (abBody c L child alpha beta d ply nt s).2 := by
  simp only [abBody]
  split
  · exact hs
  · exact abPrune_af c h hc alpha beta d ply nt _ _ _ _ s hs

theorem alphaBeta_af (c : Comp σ π) {L : Limits} (h : NoLimit L) (fuel : Nat) : ABAF (alphaBeta c L fuel) := by
  induction fuel with
  | zero => intro a b d ply nt s _; exact af_outOfFuel _
  | succ fuel ih =>
    intro a b d ply nt s hs
    simp only [alphaBeta, af_abort h, af_incr h]
    split
    · exact quiescence_af c h (fuel + 1) a b ply (s.setPv (s.pv.setNull ply.toNat)) hs
    · split
      · exact hs
      · split
        · exact hs
        · exact abBody_af c h ih a b d ply nt _ hs

/-! ### aspiration, iterative deepening, `go` -/

theorem aspiration_af (c : Comp σ π) {L : Limits} (h : NoLimit L) (fuel : Nat) (idD : Int) :
    ∀ (n : Nat) (alpha beta factor : Score) (s : St σ), AF s → AF (aspiration c L fuel idD n alpha beta factor s).st := by
  intro n
  induction n with
  | zero => intro alpha beta factor s _; exact af_outOfFuel s
  | succ n ih =>
    intro alpha beta factor s hs
    simp only [aspiration, af_abort h]
    have hab := alphaBeta_af c h fuel alpha beta idD 0 .pv s hs
    generalize alphaBeta c L fuel alpha beta idD 0 .pv s = r at hab ⊢
    split
    · exact hab
    · split
      · exact hab
      · exact ih _ _ _ r.2 hab

theorem idLoop_af (c : Comp σ π) {L : Limits} (h : NoLimit L) (clock : Clock) (fuel : Nat) :
    ∀ (n : Nat) (idD : Int) (v : IDVars) (s : St σ), AF s → AF (idLoop c L clock fuel n idD v s).st := by
  intro n
  induction n with
  | zero => intro idD v s hs; exact hs
  | succ n ih =>
    intro idD v s hs
    simp only [idLoop]
    split
    · exact hs
    · have ha := aspiration_af c h fuel idD fuel v.alpha v.beta 1 s hs
      generalize aspiration c L fuel idD fuel v.alpha v.beta 1 s = a1 at ha ⊢
      cases a1 with
      | aborted s1 =>
        simp only [Asp.st] at ha
        simp only
        split
        · exact ha
        · exact ha
      | ok al be sample s1 =>
        simp only [Asp.st] at ha
        simp only
        split
        · exact ha
        · exact ih _ _ _ ha

/-- Without stop channel and hard node budget a search that ends with the abort flag raised ran out
    of fuel. -/
theorem go_aborted_fuel (c : Comp σ π) (L : Limits) (clock : Clock) (fuel : Nat) (e : Engine σ) (b : Board) (nodes0 : Int)
    (hs : L.stop = none) (hn : L.nodes = -1) :
    (go c L clock fuel e b nodes0).st.aborted = true → (go c L clock fuel e b nodes0).st.fuelOut = true := by
  have h := idLoop_af c (L := L) ⟨hs, hn⟩ clock fuel 64 0
    { alpha := -Inf - 1, beta := Inf + 1, score := 0, move := 0, ponder := 0, reads := 0, ppolls := 0, out := [] }
    (goInit L e b nodes0) (fun h => by simp [goInit] at h)
  exact h

end Search
end ChessVerif
