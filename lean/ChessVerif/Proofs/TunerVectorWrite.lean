/-
  Writing through a pointer yielded by `TunedParams`: the cell the `k`-th pointer addresses is the
  cell `ToVector` reads at index `k` — `*ptr = v` changes exactly entry `k` of the vector.
-/
import ChessVerif.Proofs.TunerVector

namespace ChessVerif.TunerVector

variable {α : Type}

theorem flattenList_append (l₁ l₂ : List (Tree α)) :
    flattenList (l₁ ++ l₂) = flattenList l₁ ++ flattenList l₂ := by
  induction l₁ with
  | nil => simp [flattenList]
  | cons t ts ih => simp [flattenList, ih]

mutual
theorem Tree.paths_length (t : Tree α) : t.paths.length = t.flatten.length := by
  cases t with
  | leaf x => simp [Tree.paths, Tree.flatten]
  | node ks => simpa [Tree.paths, Tree.flatten] using pathsList_length ks 0
theorem pathsList_length (ks : List (Tree α)) (k : Nat) : (pathsList ks k).length = (flattenList ks).length := by
  cases ks with
  | nil => simp [pathsList, flattenList]
  | cons t ts =>
    simp only [pathsList, flattenList, List.length_append, List.length_map]
    rw [Tree.paths_length t, pathsList_length ts (k + 1)]
end

mutual
theorem Tree.setAt_paths (t : Tree α) (v : α) (k : Nat) (hk : k < t.paths.length) :
    (t.setAt (t.paths[k]) v).flatten = t.flatten.set k v := by
  cases t with
  | leaf x =>
    simp only [Tree.paths, List.length_singleton] at hk
    have : k = 0 := by omega
    subst this
    simp [Tree.paths, Tree.setAt, Tree.flatten]
  | node ks =>
    have := pathsList_setAt ks [] v k (by simpa [Tree.paths] using hk)
    simpa [Tree.paths, Tree.flatten, flattenList] using this
theorem pathsList_setAt (ks front : List (Tree α)) (v : α) (k : Nat)
    (hk : k < (pathsList ks front.length).length) :
    (Tree.setAt (.node (front ++ ks)) ((pathsList ks front.length)[k]) v).flatten
      = flattenList front ++ (flattenList ks).set k v := by
  cases ks with
  | nil => simp [pathsList] at hk
  | cons t ts =>
    simp only [pathsList] at hk ⊢
    by_cases h1 : k < t.paths.length
    · have hget : ((t.paths.map fun p => front.length :: p) ++ pathsList ts (front.length + 1))[k]
          = front.length :: t.paths[k] := by
        rw [List.getElem_append_left (by simpa using h1)]; simp
      rw [hget]
      have hidx : (front ++ t :: ts)[front.length]? = some t := by simp
      simp only [Tree.setAt, hidx]
      have hset : (front ++ t :: ts).set front.length (t.setAt (t.paths[k]) v) = front ++ (t.setAt (t.paths[k]) v) :: ts := by
        simp
      rw [hset]
      simp only [Tree.flatten, flattenList_append, flattenList]
      rw [Tree.setAt_paths t v k h1, List.set_append_left _ _ (by rw [← Tree.paths_length]; exact h1)]
    · have hlen : (t.paths.map fun p => front.length :: p).length = t.paths.length := by simp
      have hk2 : k - t.paths.length < (pathsList ts (front.length + 1)).length := by
        simp only [List.length_append, List.length_map] at hk; omega
      have hget : ((t.paths.map fun p => front.length :: p) ++ pathsList ts (front.length + 1))[k]
          = (pathsList ts (front.length + 1))[k - t.paths.length] := by
        rw [List.getElem_append_right (by simpa using Nat.le_of_not_lt h1)]; simp
      rw [hget]
      have ih := pathsList_setAt ts (front ++ [t]) v (k - t.paths.length)
        (by simpa using hk2)
      simp only [List.length_append, List.length_cons, List.length_nil, Nat.zero_add, List.append_assoc,
        List.cons_append, List.nil_append] at ih
      rw [ih]
      simp only [flattenList_append, flattenList, List.append_nil, List.append_assoc]
      rw [List.set_append_right _ _ (by rw [← Tree.paths_length]; exact Nat.le_of_not_lt h1), Tree.paths_length]
end

/-- all fields' selected leaves of a list of fields (the part of `ToVector` over a suffix of the struct). -/
theorem toVector_append (e₁ e₂ : Rep α) (targets : List String) :
    toVector (e₁ ++ e₂) targets = toVector e₁ targets ++ toVector e₂ targets := by
  induction e₁ with
  | nil => simp [toVector]
  | cons x e ih =>
    obtain ⟨n, t⟩ := x
    simp only [List.cons_append, toVector_cons, ih, List.append_assoc]

theorem tunedCells_aux_length (e : Rep α) (targets : List String) (k : Nat) :
    ((e.zipIdx k).flatMap fun ((n, t), fi) =>
        if selected targets n then t.paths.map fun p => (fi, p) else []).length = (toVector e targets).length := by
  induction e generalizing k with
  | nil => simp [toVector]
  | cons x e ih =>
    obtain ⟨n, t⟩ := x
    simp only [List.zipIdx_cons, List.flatMap_cons, List.length_append, toVector_cons, ih]
    by_cases hs : selected targets n <;> simp [hs, Tree.paths_length]

theorem tunedCells_setCell_aux (e front : Rep α) (targets : List String) (v : α) (k : Nat)
    (hk : k < ((e.zipIdx front.length).flatMap fun ((n, t), fi) =>
        if selected targets n then t.paths.map fun p => (fi, p) else []).length) :
    toVector (setCell (front ++ e) (((e.zipIdx front.length).flatMap fun ((n, t), fi) =>
        if selected targets n then t.paths.map fun p => (fi, p) else [])[k]) v) targets
      = toVector front targets ++ (toVector e targets).set k v := by
  induction e generalizing front k with
  | nil => simp at hk
  | cons x e ih =>
    obtain ⟨n, t⟩ := x
    have hk0 : k < (toVector ((n, t) :: e) targets).length := by
      rw [← tunedCells_aux_length ((n, t) :: e) targets front.length]; exact hk
    have hlen2 := tunedCells_aux_length e targets (front.length + 1)
    simp only [List.zipIdx_cons, List.flatMap_cons] at hk ⊢
    by_cases hs : selected targets n
    · simp only [hs, if_true] at hk ⊢
      simp only [toVector_cons, hs, if_true, List.length_append, ← Tree.paths_length] at hk0
      by_cases h1 : k < t.paths.length
      · rw [List.getElem_append_left (by simpa using h1)]
        simp only [List.getElem_map]
        have hidx : (front ++ (n, t) :: e)[front.length]? = some (n, t) := by simp
        simp only [setCell, hidx]
        have hset : (front ++ (n, t) :: e).set front.length (n, t.setAt (t.paths[k]) v)
            = front ++ (n, t.setAt (t.paths[k]) v) :: e := by simp
        rw [hset, toVector_append, toVector_cons, toVector_cons]
        simp only [hs, if_true]
        rw [Tree.setAt_paths t v k h1, List.set_append_left _ _ (by rw [← Tree.paths_length]; exact h1)]
      · have hk2 : k - t.paths.length < ((e.zipIdx (front.length + 1)).flatMap fun ((n, t), fi) =>
            if selected targets n then t.paths.map fun p => (fi, p) else []).length := by
          rw [hlen2]; omega
        rw [List.getElem_append_right (by simpa using Nat.le_of_not_lt h1)]
        simp only [List.length_map]
        have := ih (front ++ [(n, t)]) (k - t.paths.length) (by simpa using hk2)
        simp only [List.length_append, List.length_cons, List.length_nil, Nat.zero_add, List.append_assoc,
          List.cons_append, List.nil_append] at this
        rw [this, toVector_append, toVector_cons, toVector_cons]
        simp only [hs, if_true, toVector, List.foldl_nil, List.append_nil, List.append_assoc]
        rw [List.set_append_right _ _ (by rw [← Tree.paths_length]; exact Nat.le_of_not_lt h1), Tree.paths_length]
    · simp only [hs, Bool.false_eq_true, if_false, List.nil_append] at hk ⊢
      have := ih (front ++ [(n, t)]) k (by simpa using hk)
      simp only [List.length_append, List.length_cons, List.length_nil, Nat.zero_add, List.append_assoc,
        List.cons_append, List.nil_append] at this
      rw [this, toVector_append, toVector_cons, toVector_cons]
      simp [hs, toVector]

/-- `*ptr = v` through the `k`-th yielded pointer replaces exactly entry `k` of `ToVector`. -/
theorem tunedCells_setCell (e : Rep α) (targets : List String) (v : α) (k : Nat)
    (hk : k < (tunedCells e targets).length) :
    toVector (setCell e ((tunedCells e targets)[k]) v) targets = (toVector e targets).set k v := by
  have := tunedCells_setCell_aux e [] targets v k (by simpa [tunedCells] using hk)
  simpa [tunedCells, toVector] using this

end ChessVerif.TunerVector
