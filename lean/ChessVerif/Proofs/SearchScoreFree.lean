/-
  The null-move clause and the table invariant WITHOUT the run-level hypothesis `GoSane`, for
  parameter sets with a SAFE window size (`WSafe`: `39..44` or `78..88`; params.go has 44) whose reverse
  futility margin cannot wrap at depth 1.

  `GoSane` (Proofs/SearchScoreGo.lean) asks every re-searched root window to be a `RootWin`
  (`beta ≤ 31597`, so that `beta + d*RFPScoreFactor` cannot wrap at ANY depth).  That is not derivable
  from laws about the components: nine fail-lows followed by a fail-high at `beta > 9069` give
  `beta + 512*44 > 31597`, and only the stability of the search excludes such a sequence.  What IS
  derivable (`AspInv`, `aspInv_step`): un-aborted results lie within `±Inf`, so a side of the window
  that has left `±Inf` cannot fail again; `factor` doubles at every failure, hence at any failure
  `W·factor/2 ≤ 20000 - W` (`fail_bound`).  For `W = 44` that is `factor ≤ 512`: every window of every
  aspiration chain lies within `±(Inf + 512·44) = ±32528`, nothing wraps in the window arithmetic, and a
  chain has at most ten failures.  The same computation for the other window sizes the spsa build admits
  (`30..100`): `W ≤ 38` allows `factor = 1024` and a wrapping widening `38·1024 > 32767`; `39 ≤ W ≤ 44` gives
  `factor ≤ 512`, widening `≤ 22528`: safe; `45 ≤ W ≤ 77` still allows `factor = 512` and `45·512 = 23040`
  takes a bound at `∓10000` out of int16; `78 ≤ W ≤ 88` gives `factor ≤ 256`, widening `≤ 88·256 = 22528`:
  safe; `W ≥ 89` allows `factor = 256`, `89·256 = 22784`: not safe.  So the argument goes through exactly
  for `WSafe` (the unsafe sizes are not shown to misbehave on the real engine — the bound sequences are
  arithmetic possibilities of the skeleton; they are what the run-level `GoSane` would have to exclude).

  With windows bounded by 32528 reverse futility at the root is sound at depth 1
  (`rfp_shallow`: `32528 + 130 ≤ 32767` for every `RFPScoreFactor ≤ 130`), and that is all the null-move clause
  needs: the root analysis "in-window result ⇒ non-empty PV or final root" is needed at iteration 1 only — from
  iteration 2 on an empty PV keeps the move of the previous iteration.  The final-SCORE clause is
  treated in Proofs/SearchFinalFree.lean (on a final root the chains of iteration ≥ 2 consist of
  fail-highs only and stay below `rfpSafe`).
-/
import ChessVerif.Proofs.SearchScoreGo

namespace ChessVerif
namespace Search

variable {σ π : Type} [PsInv σ] {t0 : Bool}

/-- **window sizes for which an aspiration chain is int16-safe**: `39..44` and `78..88`.  A failure at
    `factor = f` needs `f·W ≤ 40000 - 2W` (`fail_bound`); the widening `f·W` must stay below `32767 - Inf`.
    `W ≤ 38` admits `f = 1024` (`38·1024` wraps), `45 ≤ W ≤ 77` admits `f = 512` (`45·512 = 23040`: a bound at
    `∓10000` widened by it leaves int16), `W ≥ 89` admits `f = 256` (`89·256 = 22784`, the same); for the two
    intervals the largest admissible widening is `44·512 = 88·256 = 22528`. -/
def WSafe (W : Int) : Prop := (39 ≤ W ∧ W ≤ 44) ∨ (78 ≤ W ∧ W ≤ 88)

instance (W : Int) : Decidable (WSafe W) := inferInstanceAs (Decidable (_ ∨ _))

/-- what the `GoSane`-free argument needs of the parameters: a safe window size (params.go: 44), and a
    reverse futility margin that cannot wrap at depth 1 for `beta ≤ Inf + 22528` (all uses are at the root
    of iteration 1). -/
structure AspLaws (c : Comp σ π) : Prop where
  windowSafe : WSafe c.windowSize
  rfp_shallow : ∀ d se beta, 0 ≤ d → d ≤ 1 → beta ≤ 32528 → c.rfpCut d se beta = true → beta ≤ se

/-- the values `factor` takes. -/
def Pow2 (f : Int) : Prop :=
  f = 1 ∨ f = 2 ∨ f = 4 ∨ f = 8 ∨ f = 16 ∨ f = 32 ∨ f = 64 ∨ f = 128 ∨ f = 256 ∨ f = 512 ∨ f = 1024

/-- The windows an aspiration chain with window size `W` can reach: the initial window, or
    `(s - W - lo, s + W + hi)` around an in-range score `s`, widened by `lo + hi = W·(factor - 1)` in total,
    where a side that was widened was within `±Inf` before its last widening (which was at most
    `W·factor/2`); `factor·W ≤ 2·22528`. -/
def AspInv (W alpha beta f : Int) : Prop :=
  (alpha = -10001 ∧ beta = 10001 ∧ f = 1) ∨
  ∃ s lo hi : Int, InR s ∧ 0 ≤ lo ∧ 0 ≤ hi ∧ alpha = s - W - lo ∧ beta = s + W + hi ∧ Pow2 f ∧ f * W ≤ 45056 ∧
    lo + hi = f * W - W ∧ (lo = 0 ∨ 2 * lo ≤ 2 * (s + 10000 - W) + f * W) ∧ (hi = 0 ∨ 2 * hi ≤ 2 * (10000 - W - s) + f * W)

omit [PsInv σ] in
theorem pow2_range {f : Int} (h : Pow2 f) : 1 ≤ f ∧ f ≤ 1024 := by
  unfold Pow2 at h; omega

omit [PsInv σ] in
/-- the arithmetic heart: a failure at factor `f` needs `f·W ≤ 40000 - 2W` (both sides of the window were
    within `±Inf` before their last widening), and for a safe window size that bounds the widening by
    22528 and the factor by 512. -/
theorem fail_bound {W f : Int} (hW : WSafe W) (hp : Pow2 f) (h : f * W ≤ 40000 - 2 * W) :
    f * W ≤ 22528 ∧ f ≤ 512 ∧ Pow2 (f * 2) ∧ f * 2 * W = 2 * (f * W) := by
  unfold WSafe at hW
  unfold Pow2 at hp
  refine ⟨?_, ?_, ?_, by rw [Int.mul_comm f 2, Int.mul_assoc]⟩
  · rcases hp with rfl | rfl | rfl | rfl | rfl | rfl | rfl | rfl | rfl | rfl | rfl <;> omega
  · rcases hp with rfl | rfl | rfl | rfl | rfl | rfl | rfl | rfl | rfl | rfl | rfl <;> omega
  · rcases hp with rfl | rfl | rfl | rfl | rfl | rfl | rfl | rfl | rfl | rfl | rfl <;>
      first | (exfalso; omega) | (unfold Pow2; decide)

theorem aspInv_init {W : Int} : AspInv W (-Inf - 1) (Inf + 1) 1 := Or.inl ⟨rfl, rfl, rfl⟩

/-- every reachable window is workable and bounded by `Inf + 22528`. -/
theorem aspInv_win {W a b f : Int} (hW : WSafe W) (h : AspInv W a b f) : WinOK a b ∧ b ≤ 32528 := by
  rcases h with ⟨ha, hb, _⟩ | ⟨s, lo, hi, hs, h1, h2, ha, hb, hp, hfw, hsum, hlo, hhi⟩
  · subst ha; subst hb; unfold WinOK; omega
  · unfold InR at hs
    unfold WSafe at hW
    generalize f * W = p at *
    unfold WinOK; omega

/-- the first window of an iteration after an in-range score. -/
theorem aspInv_first {W s : Int} (hW : WSafe W) (hs : InR s) : AspInv W (wrapS16 (s - W)) (wrapS16 (s + W)) 1 := by
  have hs' := hs
  unfold InR at hs'
  unfold WSafe at hW
  rw [wrapS16_id (by omega) (by omega), wrapS16_id (by omega) (by omega)]
  exact Or.inr ⟨s, 0, 0, hs, Int.le_refl _, Int.le_refl _, by omega, by omega, Or.inl rfl, by omega, by omega, by omega, by omega⟩

/-- one failed search: the widened window is again reachable. -/
theorem aspInv_step {W a b f sample : Int} (hW : WSafe W) (h : AspInv W a b f) (hs : InR sample)
    (hout : sample ≤ a ∨ b ≤ sample) :
    AspInv W (if sample ≤ a then wrapS16 (a - wrapS16 (f * W)) else a)
      (if sample ≤ a then b else if sample ≥ b then wrapS16 (b + wrapS16 (f * W)) else b) (wrapS16 (f * 2)) := by
  unfold InR at hs
  have hW' := hW
  unfold WSafe at hW'
  rcases h with ⟨ha, hb, _⟩ | ⟨s, lo, hi, hsr, h1, h2, ha, hb, hp, hfw, hsum, hlo, hhi⟩
  · omega
  · have hsr' := hsr
    unfold InR at hsr'
    have hf1 := (pow2_range hp).1
    have hfb : f * W ≤ 40000 - 2 * W := by
      generalize f * W = p at *
      omega
    obtain ⟨hb1, hb2, hb3, hb4⟩ := fail_bound hW hp hfb
    have hp0 : W ≤ f * W := by
      have := Int.mul_le_mul_of_nonneg_right hf1 (show (0 : Int) ≤ W by omega)
      omega
    rw [wrapS16_id (x := f * 2) (by omega) (by omega)]
    by_cases hle : sample ≤ a
    · rw [if_pos hle, if_pos hle]
      generalize f * W = p at *
      rw [wrapS16_id (x := p) (by omega) (by omega), wrapS16_id (x := a - p) (by omega) (by omega)]
      exact Or.inr ⟨s, lo + p, hi, hsr, by omega, h2, by omega, hb, hb3, by omega, by omega, by omega, by omega⟩
    · have hge : sample ≥ b := by omega
      rw [if_neg hle, if_neg hle, if_pos hge]
      generalize f * W = p at *
      rw [wrapS16_id (x := p) (by omega) (by omega), wrapS16_id (x := b + p) (by omega) (by omega)]
      exact Or.inr ⟨s, lo, hi + p, hsr, h1, by omega, ha, by omega, hb3, by omega, by omega, by omega, by omega⟩

omit [PsInv σ] in
/-- the aspiration loop answers `.aborted` only with the abort flag set. -/
theorem aspiration_aborted (c : Comp σ π) (L : Limits) (fuel : Nat) (idD : Int) :
    ∀ (n : Nat) (alpha beta factor : Score) (s s' : St σ),
      aspiration c L fuel idD n alpha beta factor s = .aborted s' → s'.aborted = true := by
  intro n
  induction n with
  | zero =>
    intro alpha beta factor s s' h
    simp only [aspiration, Asp.aborted.injEq] at h
    rw [← h]; rfl
  | succ n ih =>
    intro alpha beta factor s s' h
    simp only [aspiration] at h
    generalize alphaBeta c L fuel alpha beta idD 0 .pv s = r at h
    have hat := abort_true_iff L r.2
    generalize abort L r.2 = as at hat h
    split at h
    · next hab1 =>
      cases h
      rw [← hat]; exact hab1
    · split at h
      · cases h
      · exact ih _ _ _ _ _ h

/-- what one iteration's aspiration loop establishes, from a reachable window (guarded by the ghost flag). -/
theorem aspiration_free (c : Comp σ π) (L : Limits) {Good : Board → Prop} {TTok : σ → Prop} {μ : Board → Nat}
    (hl : Laws c Good) (sl : ScoreLaws c Good TTok μ) (al : AspLaws c) (fuel : Nat) (idD : Int) :
    ∀ (n : Nat) (alpha beta factor : Score) (s : St σ), Good s.board → TTA TTok t0 s →
      (s.nmpOut = false → AspInv c.windowSize alpha beta factor) →
      TTA TTok t0 (aspiration c L fuel idD n alpha beta factor s).st ∧
      (∀ al be sa s', aspiration c L fuel idD n alpha beta factor s = .ok al be sa s' → s'.nmpOut = false →
        InR sa ∧ (idD = 1 → RootOut' c.keys s.board s')) := by
  intro n
  induction n with
  | zero =>
    intro alpha beta factor s _ htt _
    exact ⟨htt.congr rfl rfl, fun _ _ _ _ h => by simp [aspiration] at h⟩
  | succ n ih =>
    intro alpha beta factor s hg htt hinv
    have hab := alphaBeta_spec c L hl fuel alpha beta idD 0 .pv s hg htt.1 (Int.le_refl 0)
    have hrg := alphaBeta_range c L hl sl fuel alpha beta idD 0 .pv s hg (Int.le_refl 0) (by decide)
      (fun hA => (aspInv_win al.windowSafe (hinv hA)).1) htt
    have hroot := fun (hb32 : beta ≤ 32528) (h1 : idD = 1) => alphaBeta_root_gen c L hl sl fuel alpha beta idD (by omega)
      (fun se h => al.rfp_shallow idD se beta (by omega) (by omega) hb32 h) s (fun hA => (aspInv_win al.windowSafe (hinv hA)).1) hg htt
    simp only [aspiration]
    simp only at hroot
    generalize alphaBeta c L fuel alpha beta idD 0 .pv s = r at hab hrg hroot ⊢
    have haf := abort_frame L r.2
    have hap := (abort_pv L r.2).1
    have hps := abort_ps L r.2
    have han := abort_nmpOut L r.2
    have hatt := abort_ttOut L r.2
    have hfa := @abort_false σ _ L r.2
    generalize abort L r.2 = as at haf hap hps han hatt hfa ⊢
    have htt2 : TTA TTok t0 as.2 := hrg.1.congr hps han hatt
    have hback : as.2.nmpOut = false → s.nmpOut = false := fun h => hab.1.mono.a_back (by rw [← han]; exact h)
    split
    · exact ⟨htt2, fun _ _ _ _ h => by cases h⟩
    · next hna =>
      have hna' : as.1 = false := by simpa using hna
      have hrab : r.2.aborted = false := (hfa hna').2
      have hsr : as.2.nmpOut = false → InR r.1 := fun hA =>
        (hrg.2 hrab (by rw [← han]; exact hA)).inR (Int.le_refl 0)
      split
      · next hin =>
        refine ⟨htt2, fun al' be sa s' h hA => ?_⟩
        cases h
        simp only [Bool.and_eq_true, Bool.not_eq_true', decide_eq_false_iff_not] at hin
        have hgt : alpha < r.1 := Int.not_le.1 hin.1
        have hlt : r.1 < beta := Int.not_le.1 hin.2
        refine ⟨hsr hA, fun h1 => ?_⟩
        rcases hroot (aspInv_win al.windowSafe (hinv (hback hA))).2 h1 hrab (by rw [← han]; exact hA) hgt hlt with h | h
        · exact Or.inl (by rw [hap]; exact h)
        · exact Or.inr h
      · next hnin =>
        have hout : r.1 ≤ alpha ∨ beta ≤ r.1 := by
          by_cases h1 : r.1 ≤ alpha
          · exact Or.inl h1
          · by_cases h2 : beta ≤ r.1
            · exact Or.inr h2
            · exfalso; apply hnin; simp [h1, h2]
        have hstep := fun (hA : as.2.nmpOut = false) => aspInv_step al.windowSafe (hinv (hback hA)) (hsr hA) hout
        have hb2 : as.2.board = s.board := by rw [haf.board, hab.1.board]
        have := ih _ _ _ as.2 (by rw [hb2]; exact hg) htt2 hstep
        rw [hb2] at this
        exact this

/-- `idLoop`: the table predicate is kept and the null move is returned only on a final root — as long
    as the ghost flag stays down; no other hypothesis on the run. -/
theorem idLoop_free (c : Comp σ π) (L : Limits) (clock : Clock) {Good : Board → Prop} {TTok : σ → Prop} {μ : Board → Nat}
    (hl : Laws c Good) (sl : ScoreLaws c Good TTok μ) (al : AspLaws c) (fuel : Nat) (b : Board) (hg : Good b)
    (hd : 1 ≤ L.depth) :
    ∀ (n : Nat) (idD : Int) (v : IDVars) (s : St σ), s.board = b → 0 ≤ idD → (n : Int) + idD = 64 →
      TTA TTok t0 s → (s.nmpOut = false → AspInv c.windowSize v.alpha v.beta 1) →
      (s.nmpOut = false → 2 ≤ idD → v.move ≠ 0 ∨ Final c.keys b) →
      TTA TTok t0 (idLoop c L clock fuel n idD v s).st ∧
      ((idLoop c L clock fuel n idD v s).st.nmpOut = false → (idLoop c L clock fuel n idD v s).move = 0 → Final c.keys b) := by
  intro n
  induction n with
  | zero =>
    intro idD v s _ _ hn htt _ hyp
    simp only [idLoop]
    refine ⟨htt, fun hA hmv => ?_⟩
    rcases hyp hA (by omega) with h | h
    · exact absurd hmv h
    · exact h
  | succ n ih =>
    intro idD v s hb h0 hn htt hw hyp
    simp only [idLoop]
    split
    · next hcond =>
      have h2 : 2 ≤ idD := by
        apply Classical.byContradiction
        intro hlt
        have e1 : decide (idD < maxPlies) = true := decide_eq_true (by unfold maxPlies; omega)
        have e2 : decide (idD ≤ L.depth) = true := decide_eq_true (by omega)
        simp [e1, e2] at hcond
      refine ⟨htt, fun hA hmv => ?_⟩
      rcases hyp hA h2 with h | h
      · exact absurd hmv h
      · exact h
    · next hcond =>
      have hlt64 : idD < 64 := by
        apply Classical.byContradiction
        intro hge
        apply hcond
        have e1 : decide (idD < maxPlies) = false := decide_eq_false (by unfold maxPlies; omega)
        simp [e1]
      have hasp := aspiration_spec c L hl fuel idD fuel v.alpha v.beta 1 s (by rw [hb]; exact hg) htt.1
      have hsc := aspiration_free c L hl sl al fuel idD fuel v.alpha v.beta 1 s (by rw [hb]; exact hg) htt hw
      generalize aspiration c L fuel idD fuel v.alpha v.beta 1 s = a at hasp hsc ⊢
      cases a with
      | aborted s' =>
        obtain ⟨hf, _⟩ := hasp
        simp only [Asp.st] at hf hsc
        have hb' : s'.board = b := hf.board.trans hb
        simp only
        split
        · refine ⟨hsc.1.congr rfl rfl, fun _ hmv => ?_⟩
          simp only at hmv
          have hfl := firstLegal_spec c hl s'.board (by rw [hb']; exact hg) (MoveGen.gen s'.board) (fun _ h => h)
          rcases hfl.2 with hp | ⟨_, hn'⟩
          · rw [hmv] at hp
            exact absurd rfl (hl.gen_ne_zero _ _ (by rw [hb']; exact hg) (mem_playable.1 hp).1)
          · left; rw [← hb']; exact playable_nil_of hn'
        · next hne => exact ⟨hsc.1, fun _ hmv => absurd hmv hne⟩
      | ok al' be sample s' =>
        obtain ⟨hf, hok⟩ := hasp
        simp only [Asp.st] at hf hsc
        obtain ⟨_, hline⟩ := hok al' be sample s' rfl
        rw [hb] at hline
        have hb' : s'.board = b := hf.board.trans hb
        obtain ⟨htt', hokc⟩ := hsc
        have hback : s'.nmpOut = false → s.nmpOut = false := fun h => hf.mono.a_back h
        have hokc' := fun hA => hokc al' be sample s' rfl hA
        rw [hb] at hokc'
        have hact : s'.pv.active = s'.pv.row 0 := rfl
        simp only [hact]
        split
        · next hsa' => exact ⟨htt'.congr rfl rfl, fun _ hmv => absurd hmv hsa'.1⟩
        · have hw' : wrapS8 (idD + 1) = idD + 1 := by unfold wrapS8; omega
          rw [hw']
          apply ih
          · exact hb'
          · omega
          · push_cast at hn ⊢; omega
          · exact htt'.congr rfl rfl
          · intro hA
            show AspInv c.windowSize (wrapS16 (sample - c.windowSize)) (wrapS16 (sample + c.windowSize)) 1
            exact aspInv_first al.windowSafe (hokc' hA).1
          · intro hA h2
            have hA' : s'.nmpOut = false := hA
            show pickMove (s'.pv.row 0) v.move ≠ 0 ∨ Final c.keys b
            cases hrow : s'.pv.row 0 with
            | nil =>
              show v.move ≠ 0 ∨ Final c.keys b
              by_cases h1 : idD = 1
              · rcases (hokc' hA').2 h1 with h | h
                · exact absurd hrow h
                · exact Or.inr h
              · exact hyp (hback hA') (by omega)
            | cons m rest =>
              left
              rw [pickMove_cons]
              rw [hrow] at hline
              exact hl.gen_ne_zero _ _ hg (mem_playable.1 (legalLine_head hline)).1

/-- `go` without `GoSane`: as long as the ghost flag stays down, the table predicate is an invariant of
    engine states and the null move is returned only if the root is final. -/
theorem go_free (c : Comp σ π) (L : Limits) (clock : Clock) {Good : Board → Prop} {TTok : σ → Prop} {μ : Board → Nat}
    (hl : Laws c Good) (sl : ScoreLaws c Good TTok μ) (al : AspLaws c) (fuel : Nat) (e : Engine σ) (b : Board)
    (hg : Good b) (nodes0 : Int) (hd : 1 ≤ L.depth) (htt : TTok e.ps)
    (hA : (go c L clock fuel e b nodes0).st.nmpOut = false) :
    TTok (go c L clock fuel e b nodes0).st.ps ∧ ((go c L clock fuel e b nodes0).move = 0 → Final c.keys b) := by
  have h := idLoop_free c L clock hl sl al fuel b hg hd 64 0
    { alpha := -Inf - 1, beta := Inf + 1, score := 0, move := 0, ponder := 0, reads := 0, ppolls := 0, out := [] }
    (goInit L e b nodes0) rfl (Int.le_refl 0) (by decide) (t0 := false) ⟨sl.tt_ok _ htt, fun _ => ⟨htt, fun _ => rfl⟩⟩
    (fun _ => aspInv_init) (fun _ h => absurd h (by decide))
  have hA' : (idLoop c L clock fuel 64 0
    { alpha := -Inf - 1, beta := Inf + 1, score := 0, move := 0, ponder := 0, reads := 0, ppolls := 0, out := [] }
    (goInit L e b nodes0)).st.nmpOut = false := hA
  exact ⟨sl.tt_nextGen _ (h.1.2 hA').1, h.2 hA'⟩

/-- **`nmpOut = false` implies `ttOut = false`**: in a run (from a state with sound tables) in which the
    null-move mate branch is never taken below the ply-relative band, every value handed to a table
    store is ply-consistent.  So the run-level hypothesis of the `ttOut`-guarded theorems
    (Proofs/SearchScoreFree2.lean, SearchFinalFree2.lean) is implied by the `nmpOut` hypothesis of the
    theorems of this file; for components with `NmpFloor` it always holds. -/
theorem go_free_ttOut (c : Comp σ π) (L : Limits) (clock : Clock) {Good : Board → Prop} {TTok : σ → Prop} {μ : Board → Nat}
    (hl : Laws c Good) (sl : ScoreLaws c Good TTok μ) (al : AspLaws c) (fuel : Nat) (e : Engine σ) (b : Board)
    (hg : Good b) (nodes0 : Int) (hd : 1 ≤ L.depth) (htt : TTok e.ps)
    (hA : (go c L clock fuel e b nodes0).st.nmpOut = false) :
    (go c L clock fuel e b nodes0).st.ttOut = false := by
  have h := idLoop_free c L clock hl sl al fuel b hg hd 64 0
    { alpha := -Inf - 1, beta := Inf + 1, score := 0, move := 0, ponder := 0, reads := 0, ppolls := 0, out := [] }
    (goInit L e b nodes0) rfl (Int.le_refl 0) (by decide) (t0 := false) ⟨sl.tt_ok _ htt, fun _ => ⟨htt, fun _ => rfl⟩⟩
    (fun _ => aspInv_init) (fun _ h => absurd h (by decide))
  have hA' : (idLoop c L clock fuel 64 0
    { alpha := -Inf - 1, beta := Inf + 1, score := 0, move := 0, ponder := 0, reads := 0, ppolls := 0, out := [] }
    (goInit L e b nodes0)).st.nmpOut = false := hA
  exact (h.1.2 hA').2 rfl

end Search
end ChessVerif
