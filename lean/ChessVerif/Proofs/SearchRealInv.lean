/-
  The invariant of the persistent state of the REAL search components (`SearchReal.PS`: transposition
  table, generation counter, move ranker) under which the component laws of the search skeleton
  (`Search.Laws`, Proofs/SearchLaws.lean) hold for `SearchReal.realComp`:

  * `TTMovesOK`  every move word held by the transposition table has bit 15 clear.  The table hands
                 its move to the picker as the hash move; `IsPseudoLegal` masks the word while the
                 picker's duplicate test compares all 16 bits (C05/C16, `C16_allwords_false`), so a
                 word with bit 15 set would be yielded although it is not a generated encoding.
                 `Insert` only ever receives generated moves or 0 (and inherits moves already in
                 the bucket), so the clause is preserved by the search.
  * `RankerOK`   every cell of the four history stores lies within `±MaxHistory`
                 (Proofs/HeurBands.lean): then the ranking functions stay inside their bands
                 (`rankOf_bands`) and no quiet weight can collide with the sentinel that marks the
                 hash move's second copy.  Preserved by `FailHigh` with ARBITRARY arguments
                 (`failHigh_ok`).

  `PSok` holds of `PS.new`, `PS.clear`, and is preserved by `ttStore` (for a move word < 32768),
  `failHigh`, `nextGen` (Proofs/SearchRealTT.lean, Proofs/SearchRealLaws.lean).
-/
import ChessVerif.Model.SearchReal
import ChessVerif.Proofs.HeurBands

namespace ChessVerif
namespace SearchReal

/-- every move word in the table has bit 15 clear (it is one of the 32 768 encodings). -/
def TTMovesOK (t : Model.Transp.Table) : Prop :=
  ∀ i j, ((t.getD i Model.Transp.Bucket.zero).get j).move.toNat < 32768

/-- the invariant of the persistent search state. -/
def PSok (ps : PS) : Prop := TTMovesOK ps.tt ∧ Proofs.HeurBands.RankerOK ps.ranker

end SearchReal
end ChessVerif
