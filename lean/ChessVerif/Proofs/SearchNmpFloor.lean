/-
  For components whose null-move test is guarded against the mate band (`nmpTry … → -9936 ≤ beta`, the
  guard `beta > -Inf+MaxPlies` that reverse futility pruning has in search.go) the ghost flag `St.nmpOut`
  is never raised: the only place that sets it is the mate branch of `nullMove`, with
  `beta < -Inf + ply`, and `nullMove` is only reached at plies below `MaxPlies - 1`.  Proved piece by
  piece through the skeleton; no component law and no board invariant is needed.
-/
import ChessVerif.Proofs.SearchScoreLaws

namespace ChessVerif
namespace Search

variable {σ π : Type}

/-- the null-move test is not passed below the mate band. -/
def NmpFloor (c : Comp σ π) : Prop := ∀ b d se beta, c.nmpTry b d se beta = true → (-9936 : Int) ≤ beta

/-- the flag is down. -/
def NF (s : St σ) : Prop := s.nmpOut = false

theorem nf_abort (L : Limits) {s : St σ} (h : NF s) : NF (abort L s).2 := by
  unfold NF; rw [abort_nmpOut]; exact h

theorem nf_incr (L : Limits) {s : St σ} (h : NF s) : NF (incrementNodes L s) := by
  unfold NF; rw [incrementNodes_nmpOut]; exact h

/-! ### quiescence -/

def QNF (child : Score → Score → Int → St σ → Score × St σ) : Prop := ∀ a b p s, NF s → NF (child a b p s).2

theorem qAfter_nf (c : Comp σ π) (L : Limits) (beta : Score) (ply : Int) (m : Move) (r : Board.Reverse)
    (l : QLoop) (v : Score) (s : St σ) (hs : NF s) : NF (qAfter c L beta ply m r l v s).2 := by
  simp only [qAfter]
  have ha : NF (abort L (s.setBoard (s.board.undoMove m r))).2 := nf_abort L hs
  generalize abort L (s.setBoard (s.board.undoMove m r)) = as at ha ⊢
  split
  · exact ha
  · split
    · exact ha
    · exact ha

theorem qLoop_nf (c : Comp σ π) (L : Limits) (child : Score → Score → Int → St σ → Score × St σ)
    (hc : QNF child) (beta sp : Score) (ply : Int) :
    ∀ (moves : List (Move × Score)) (l : QLoop) (s : St σ), NF s → NF (qLoop c L child beta sp ply moves l s).2 := by
  intro moves
  induction moves with
  | nil => intro l s hs; exact hs
  | cons mw rest ih =>
    intro l s hs
    obtain ⟨m, w⟩ := mw
    simp only [qLoop]
    split
    · exact hs
    · split
      · exact ih l _ hs
      · split
        · exact hs
        · have hc1 := hc (neg beta) (neg l.alpha) (wrapS8 (ply + 1)) (s.setBoard (s.board.makeMove c.keys m).1) hs
          generalize child (neg beta) (neg l.alpha) (wrapS8 (ply + 1)) (s.setBoard (s.board.makeMove c.keys m).1) = r1
            at hc1 ⊢
          have ha := qAfter_nf c L beta ply m (s.board.makeMove c.keys m).2 l r1.1 r1.2 hc1
          generalize qAfter c L beta ply m (s.board.makeMove c.keys m).2 l r1.1 r1.2 = o at ha ⊢
          obtain ⟨st, s'⟩ := o
          cases st with
          | ret v => exact ha
          | brk l' => exact ha
          | cont l' => exact ih l' s' ha

theorem qBody_nf (c : Comp σ π) (L : Limits) (child : Score → Score → Int → St σ → Score × St σ)
    (hc : QNF child) (alpha beta : Score) (ply : Int) (s : St σ) (hs : NF s) :
    NF (qBody c L child alpha beta ply s).2 := by
  simp only [qBody]
  split
  · exact hs
  · split
    · exact hs
    · split
      · exact hs
      · split
        · exact hs
        · have hq := qLoop_nf c L child hc beta (evaluate c s.board) ply (c.qMoves s.ps s.board s.hstack)
            { alpha := max alpha (evaluate c s.board), maxim := evaluate c s.board } s.pushFrame hs
          generalize qLoop c L child beta (evaluate c s.board) ply (c.qMoves s.ps s.board s.hstack)
            { alpha := max alpha (evaluate c s.board), maxim := evaluate c s.board } s.pushFrame = r at hq ⊢
          obtain ⟨f, s'⟩ := r
          cases f with
          | ret v => exact hq
          | done l' => exact hq

theorem quiescence_nf (c : Comp σ π) (L : Limits) (fuel : Nat) : QNF (quiescence c L fuel) := by
  induction fuel with
  | zero => intro a b p s hs; exact hs
  | succ fuel ih =>
    intro a b p s hs
    simp only [quiescence]
    have ha : NF (abort L (incrementNodes L s)).2 := nf_abort L (nf_incr L hs)
    generalize abort L (incrementNodes L s) = as at ha ⊢
    split
    · exact ha
    · split
      · exact ha
      · exact qBody_nf c L _ ih a b p as.2 ha

/-! ### alphaBeta -/

def ABNF (child : Child σ) : Prop := ∀ a b d ply nt s, NF s → NF (child a b d ply nt s).2

theorem callChild_nf {child : Child σ} (hc : ABNF child) (a b : Score) (d ply : Int) (nt : NodeType) (s : St σ)
    (hs : NF s) : NF (callChild child a b d ply nt s).2 := hc a b d ply nt s hs

theorem searchRest_nf {child : Child σ} (hc : ABNF child) (x : ABCtx) (l : ABLoop π) (next : NodeType) (s : St σ)
    (hs : NF s) : NF (searchRest child x l next s).2 := by
  simp only [searchRest]
  have c2 := callChild_nf hc (wrapS16 (neg l.alpha - 1)) (neg l.alpha) (wrapS8 (x.d - 1)) (wrapS8 (x.ply + 1)) next s hs
  generalize callChild child (wrapS16 (neg l.alpha - 1)) (neg l.alpha) (wrapS8 (x.d - 1)) (wrapS8 (x.ply + 1)) next s = r2
    at c2 ⊢
  split
  · exact c2
  · split
    · exact c2
    · exact callChild_nf hc _ _ _ _ _ r2.2 c2

theorem searchMove_nf (c : Comp σ π) {child : Child σ} (hc : ABNF child) (x : ABCtx) (l : ABLoop π) (next : NodeType)
    (s : St σ) (hs : NF s) : NF (searchMove c child x l next s).2 := by
  simp only [searchMove]
  split
  · split
    · have c1 := callChild_nf hc (wrapS16 (neg l.alpha - 1)) (neg l.alpha) (c.lmr x.d (l.moveCnt - 1) x.improving x.nt)
        (wrapS8 (x.ply + 1)) next s hs
      generalize callChild child (wrapS16 (neg l.alpha - 1)) (neg l.alpha) (c.lmr x.d (l.moveCnt - 1) x.improving x.nt)
        (wrapS8 (x.ply + 1)) next s = r1 at c1 ⊢
      split
      · exact c1
      · exact searchRest_nf hc x l next r1.2 c1
    · split
      · exact hs
      · exact searchRest_nf hc x l next s hs
  · exact callChild_nf hc _ _ _ _ _ s hs

theorem abAfter_nf (c : Comp σ π) (L : Limits) (x : ABCtx) (m : Move) (r : Board.Reverse) (l : ABLoop π)
    (value : Score) (s : St σ) (hs : NF s) : NF (abAfter c L x m r l value s).2 := by
  simp only [abAfter]
  have ha : NF (abort L (s.setBoard (s.board.undoMove m r)).pop).2 := nf_abort L hs
  generalize abort L (s.setBoard (s.board.undoMove m r)).pop = as at ha ⊢
  split
  · exact ha
  · split
    · split
      · exact ha
      · split
        · exact ha
        · exact ha
    · split
      · exact ha
      · exact ha

theorem abLoop_nf (c : Comp σ π) (L : Limits) {child : Child σ} (hc : ABNF child) (x : ABCtx) :
    ∀ (n : Nat) (l : ABLoop π) (s : St σ), NF s → NF (abLoop c L child x n l s).2 := by
  intro n
  induction n with
  | zero => intro l s hs; exact hs
  | succ n ih =>
    intro l s hs
    simp only [abLoop]
    split
    · exact hs
    · next m pk hpick =>
      split
      · exact ih _ _ hs
      · generalize abEnter { l with pick := pk, yielded := m :: l.yielded } (s.board.pieceAt (s.board.captureSq m)) m = l2
        have hsm := searchMove_nf c hc x l2 (nextNodeType x.nt l2.moveCnt)
          ((s.setBoard (s.board.makeMove c.keys m).1).push
            { piece := s.board.pieceAt (Move.src m), to := Move.dst m, score := x.staticEval }) hs
        generalize searchMove c child x l2 (nextNodeType x.nt l2.moveCnt)
          ((s.setBoard (s.board.makeMove c.keys m).1).push
            { piece := s.board.pieceAt (Move.src m), to := Move.dst m, score := x.staticEval }) = r1 at hsm ⊢
        have ha := abAfter_nf c L x m (s.board.makeMove c.keys m).2 l2 r1.1 r1.2 hsm
        generalize abAfter c L x m (s.board.makeMove c.keys m).2 l2 r1.1 r1.2 = o at ha ⊢
        obtain ⟨st, s'⟩ := o
        cases st with
        | ret v => exact ha
        | brk l' => exact ha
        | cont l' => exact ih l' s' ha

/-- the one place that can raise the flag: with `-9936 ≤ beta` and `ply < MaxPlies - 1` it does not. -/
theorem nullMove_nf (c : Comp σ π) {child : Child σ} (hc : ABNF child) (beta : Score) (d ply : Int) (se : Score)
    (s : St σ) (hb : (-9936 : Int) ≤ beta) (hp : ply < 63) (hs : NF s) : NF (nullMove c child beta d ply se s).2 := by
  simp only [nullMove]
  have cc := callChild_nf hc (neg beta) (wrapS16 (neg beta + 1)) (c.nmpDepth d se beta) (wrapS8 (ply + 1)) .cut
    (s.setBoard (s.board.makeNull c.keys).1) hs
  generalize callChild child (neg beta) (wrapS16 (neg beta + 1)) (c.nmpDepth d se beta) (wrapS8 (ply + 1)) .cut
    (s.setBoard (s.board.makeNull c.keys).1) = r at cc ⊢
  split
  · have hnb : decide (beta < -Inf + ply) = false := by
      apply decide_eq_false
      rw [Inf_eq]
      simp only [Score] at *
      omega
    show (r.2.nmpOut || (decide (r.1 ≥ Inf - maxPlies) && decide (beta < -Inf + ply))) = false
    have hr : r.2.nmpOut = false := cc
    rw [hr, hnb]
    simp
  · exact cc

theorem abMoves_nf (c : Comp σ π) (L : Limits) {child : Child σ} (hc : ABNF child) (alpha beta : Score)
    (d ply : Int) (nt : NodeType) (inCheck improving : Bool) (se : Score) (hm : Move) (s : St σ) (hs : NF s) :
    NF (abMoves c L child alpha beta d ply nt inCheck improving se hm s).2 := by
  simp only [abMoves]
  generalize ABCtx.mk alpha beta (if c.iir nt d hm then wrapS8 (d - 1) else d) ply nt inCheck improving se = x
  have hq := abLoop_nf c L hc x ((MoveGen.gen s.board).length + 1)
    { alpha := alpha, bestMove := 0, hasLegal := false, failLow := true, maxim := -Inf - 1, moveCnt := 0, quietCnt := 0,
      pick := c.pickInit s.board hm, yielded := [] } s.pushFrame hs
  generalize abLoop c L child x ((MoveGen.gen s.board).length + 1)
    { alpha := alpha, bestMove := 0, hasLegal := false, failLow := true, maxim := -Inf - 1, moveCnt := 0, quietCnt := 0,
      pick := c.pickInit s.board hm, yielded := [] } s.pushFrame = r at hq ⊢
  obtain ⟨f, s'⟩ := r
  cases f with
  | ret v => exact hq
  | done l' => exact hq

theorem abPrune_nf (c : Comp σ π) (L : Limits) (hf : NmpFloor c) {child : Child σ} (hc : ABNF child) (alpha beta : Score)
    (d ply : Int) (hp : ply < 63) (nt : NodeType) (inCheck improving : Bool) (se : Score) (hm : Move) (s : St σ)
    (hs : NF s) : NF (abPrune c L child alpha beta d ply nt inCheck improving se hm s).2 := by
  simp only [abPrune]
  split
  · exact hs
  · split
    · next hnm =>
      have hnmp : c.nmpTry s.board d se beta = true := by
        simp only [Bool.and_eq_true] at hnm; exact hnm.2
      have hn := nullMove_nf c hc beta d ply se s (hf _ _ _ _ hnmp) hp hs
      generalize nullMove c child beta d ply se s = nm at hn ⊢
      obtain ⟨o, s'⟩ := nm
      cases o with
      | some v => exact hn
      | none => exact abMoves_nf c L hc alpha beta d ply nt inCheck improving se hm s' hn
    · exact abMoves_nf c L hc alpha beta d ply nt inCheck improving se hm s hs

theorem abBody_nf (c : Comp σ π) (L : Limits) (hf : NmpFloor c) {child : Child σ} (hc : ABNF child) (alpha beta : Score)
    (d ply : Int) (hp : ply < 63) (nt : NodeType) (s : St σ) (hs : NF s) : NF (abBody c L child alpha beta d ply nt s).2 := by
  simp only [abBody]
  split
  · exact hs
  · exact abPrune_nf c L hf hc alpha beta d ply hp nt _ _ _ _ s hs

theorem alphaBeta_nf (c : Comp σ π) (L : Limits) (hf : NmpFloor c) (fuel : Nat) : ABNF (alphaBeta c L fuel) := by
  induction fuel with
  | zero => intro a b d ply nt s hs; exact hs
  | succ fuel ih =>
    intro a b d ply nt s hs
    simp only [alphaBeta]
    split
    · exact quiescence_nf c L (fuel + 1) a b ply (s.setPv (s.pv.setNull ply.toNat)) hs
    · next hq =>
      have hp : ply < 63 := by simp [maxPlies] at hq; omega
      have hs1 : NF (incrementNodes L (s.setPv (s.pv.setNull ply.toNat))) := nf_incr L hs
      generalize incrementNodes L (s.setPv (s.pv.setNull ply.toNat)) = s1 at hs1 ⊢
      have ha : NF (abort L { s1 with abNodes := s1.abNodes + 1 }).2 := nf_abort L hs1
      generalize abort L { s1 with abNodes := s1.abNodes + 1 } = as at ha ⊢
      split
      · exact ha
      · split
        · exact ha
        · exact abBody_nf c L hf ih a b d ply hp nt _ ha

/-! ### aspiration, iterative deepening, `go` -/

theorem aspiration_nf (c : Comp σ π) (L : Limits) (hf : NmpFloor c) (fuel : Nat) (idD : Int) :
    ∀ (n : Nat) (alpha beta factor : Score) (s : St σ), NF s → NF (aspiration c L fuel idD n alpha beta factor s).st := by
  intro n
  induction n with
  | zero => intro alpha beta factor s hs; exact hs
  | succ n ih =>
    intro alpha beta factor s hs
    simp only [aspiration]
    have hab := alphaBeta_nf c L hf fuel alpha beta idD 0 .pv s hs
    generalize alphaBeta c L fuel alpha beta idD 0 .pv s = r at hab ⊢
    have ha : NF (abort L r.2).2 := nf_abort L hab
    generalize abort L r.2 = as at ha ⊢
    split
    · exact ha
    · split
      · exact ha
      · exact ih _ _ _ as.2 ha

theorem idLoop_nf (c : Comp σ π) (L : Limits) (hf : NmpFloor c) (clock : Clock) (fuel : Nat) :
    ∀ (n : Nat) (idD : Int) (v : IDVars) (s : St σ), NF s → NF (idLoop c L clock fuel n idD v s).st := by
  intro n
  induction n with
  | zero => intro idD v s hs; exact hs
  | succ n ih =>
    intro idD v s hs
    simp only [idLoop]
    split
    · exact hs
    · have ha := aspiration_nf c L hf fuel idD fuel v.alpha v.beta 1 s hs
      generalize aspiration c L fuel idD fuel v.alpha v.beta 1 s = a1 at ha ⊢
      cases a1 with
      | aborted s1 =>
        simp only [Asp.st] at ha
        simp only
        split
        · exact ha
        · exact ha
      | ok al be sample s1 =>
        simp only [Asp.st] at ha
        simp only
        split
        · exact ha
        · exact ih _ _ _ ha

/-- For a component with the mate-band guard on its null-move test the flag is down after every `go`. -/
theorem go_nmpOut_false (c : Comp σ π) (hf : NmpFloor c) (L : Limits) (clock : Clock) (fuel : Nat) (e : Engine σ)
    (b : Board) (nodes0 : Int) : (go c L clock fuel e b nodes0).st.nmpOut = false :=
  idLoop_nf c L hf clock fuel 64 0
    { alpha := -Inf - 1, beta := Inf + 1, score := 0, move := 0, ponder := 0, reads := 0, ppolls := 0, out := [] }
    (goInit L e b nodes0) rfl

end Search
end ChessVerif
