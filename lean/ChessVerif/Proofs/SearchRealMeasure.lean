/-
  A termination measure for the quiescence search of the real engine model: `mu b` = number of men on
  the board + number of pawns (read off the rule-book abstraction `Board.abs b`).
   * `mu_make_noisy`: every move of `MoveGen.genNoisy` (capture, en-passant capture, promotion) of a
     valid position strictly decreases `mu`;
   * `mu_le`: a valid position has `mu ≤ 48` (at most 16 men per side, at most 8 pawns per side).
  The count of a property of the men is followed along the placement chain of `makeMove`
  (`cfg5`, Proofs/MakeUndoSteps.lean; `at_new`, Proofs/PlayableClosure.lean) exactly as the per-kind
  counts of Proofs/PlayableCount.lean (`cnt_cfg5`), for an arbitrary property `Q` of a square's content.
-/
import ChessVerif.Proofs.PlayableClosure

namespace ChessVerif.SearchReal
open ChessVerif Board Rules Bridge AbsMake Playable MoveGen

/-- number of men on the board plus number of pawns -/
def muPos (p : Rules.Pos) : Nat :=
  ((List.range 64).filter fun s => !(p.empty s)).length +
  ((List.range 64).filter fun s => p.has s .white .pawn || p.has s .black .pawn).length

def mu (b : Board) : Nat := muPos (Board.abs b)

/-! ### counting a property of the men along the placement chain -/

def occQ (o : Option (Color × Piece)) : Bool := !o.isNone
def pawnQ (o : Option (Color × Piece)) : Bool := o == some (.white, .pawn) || o == some (.black, .pawn)

def cntQ (f : Cfg) (Q : Option (Color × Piece) → Bool) : Nat := (List.range 64).countP (fun s => Q (f s))

theorem cntQ_upd (f : Cfg) (Q : Option (Color × Piece) → Bool) (s : Nat) (hs : s < 64)
    (v : Option (Color × Piece)) :
    cntQ (upd f s v) Q + ind (Q (f s) = true) = cntQ f Q + ind (Q v = true) := by
  have := countP_range_update (fun t => Q (f t)) (fun t => Q (upd f s v t)) 64 s hs
    (fun t ht => by simp only [upd_other _ _ _ _ ht])
  simp only [upd_same] at this
  exact this

theorem cntQ_cfg5 {f : Cfg} {b : Board} {m : Move} (ch : Chain f b m) (Q : Option (Color × Piece) → Bool)
    (hQ : Q none = false) :
    cntQ (cfg5 f b m) Q + ind (Q (man b.stm.flip (b.pieceAt (b.captureSq m))) = true) +
        ind (Q (man b.stm (b.pieceAt (Move.src m))) = true) =
      cntQ f Q + ind (Q (man b.stm (mvPut b m)) = true) := by
  have h1 := cntQ_upd f Q (b.captureSq m) (captureSq_lt b m) none
  have h2 := cntQ_upd (cfg1 f b m) Q (Move.src m) (src_lt m) none
  have h3 := cntQ_upd (cfg2 f b m) Q (Move.dst m) (dst_lt m) (man b.stm (mvPut b m))
  rw [ch.f1] at h1
  rw [ch.f2] at h2
  rw [ch.f3] at h3
  have n1 : ind (Q none = true) = 0 := ind_neg (by rw [hQ]; exact Bool.false_ne_true)
  rw [n1] at h1 h2 h3
  have h5 : cntQ (cfg5 f b m) Q = cntQ (cfg3 f b m) Q := by
    unfold cfg5
    cases hh : hop (b.pieceAt (Move.src m)) m with
    | none => rfl
    | some v =>
      obtain ⟨rf, rt⟩ := v
      obtain ⟨a1, a2, a3, a4, _⟩ := ch.f4 rf rt hh
      simp only [hopCfg]
      have g1 := cntQ_upd (cfg3 f b m) Q rf a1 none
      have g2 := cntQ_upd (upd (cfg3 f b m) rf none) Q rt a2 (man b.stm Piece.rook)
      rw [a3] at g1
      rw [a4] at g2
      rw [n1] at g1 g2
      omega
  have e1 : cntQ (cfg1 f b m) Q = cntQ (upd f (b.captureSq m) none) Q := rfl
  have e2 : cntQ (cfg2 f b m) Q = cntQ (upd (cfg1 f b m) (Move.src m) none) Q := rfl
  have e3 : cntQ (cfg3 f b m) Q = cntQ (upd (cfg2 f b m) (Move.dst m) (man b.stm (mvPut b m))) Q := rfl
  omega

theorem ind_occ (c : Color) (p : Piece) : ind (occQ (man c p) = true) = ind (p ≠ Piece.none) := by
  cases c <;> cases p <;> rfl

theorem ind_pawn (c : Color) (p : Piece) : ind (pawnQ (man c p) = true) = ind (p = Piece.pawn) := by
  cases c <;> cases p <;> rfl

theorem muPos_eq {p : Pos} {f : Cfg} (h : ∀ s, s < 64 → p.at_ s = f s) :
    muPos p = cntQ f occQ + cntQ f pawnQ := by
  unfold muPos cntQ
  rw [← List.countP_eq_length_filter, ← List.countP_eq_length_filter]
  congr 1
  · apply List.countP_congr
    intro s hs
    unfold Pos.empty occQ
    rw [h s (List.mem_range.1 hs)]
  · apply List.countP_congr
    intro s hs
    unfold Pos.has pawnQ
    rw [h s (List.mem_range.1 hs)]

/-! ### a noisy move captures or promotes -/

theorem them_cap {b : Board} {m : Move} (g : GenMove b m)
    (h : (b.colorBB b.stm.flip).getLsbD (Move.dst m) = true) : b.pieceAt (b.captureSq m) ≠ Piece.none := by
  cases hep : b.isEnPassant m
  · rw [captureSq_eq_dst hep]
    apply (g.hw.col _ (dst_lt m)).1
    cases hc : b.stm <;> rw [hc] at h
    · exact Or.inr h
    · exact Or.inl h
  · rw [ep_cap_pawn g hep]; decide

theorem noisy_cap_or_promo {b : Board} {m : Move} (hv : Board.valid b = true) (hm : m ∈ genNoisy b) :
    b.pieceAt (b.captureSq m) ≠ Piece.none ∨ Move.promo m ≠ 0 := by
  have g : GenMove b m := genMove_of hv (by unfold gen; exact List.mem_append_left _ hm)
  have hd := PL.PLDomain_of_valid hv
  unfold genNoisy at hm
  simp only [List.mem_append] at hm
  obtain ⟨k, hk, hK⟩ := hd.oneKing
  rcases hm with (((((((h | h) | h) | h) | h) | h) | h) | h) | h
  · exact Or.inl (them_cap g ((PL.mem_kingMoves (G.of b) hk hK _ m).1 h).2.2.2.2.2)
  · exact Or.inl (them_cap g ((PL.mem_pieceMoves _ _ _ _ m).1 h).2.2.2.2.2)
  · exact Or.inl (them_cap g ((PL.mem_pieceMoves _ _ _ _ m).1 h).2.2.2.2.2)
  · exact Or.inl (them_cap g ((PL.mem_pieceMoves _ _ _ _ m).1 h).2.2.2.2.2)
  · exact Or.inl (them_cap g ((PL.mem_pieceMoves _ _ _ _ m).1 h).2.2.2.2.2)
  · have := ((PL.mem_promoPush m).1 h).2.1
    exact Or.inr (by omega)
  · exact Or.inl (them_cap g ((PL.mem_pawnCapture m).1 h).2.2.2.2.2.2)
  · have := ((PL.mem_pawnCapturePromo m).1 h).2.1
    exact Or.inr (by omega)
  · obtain ⟨_, _, _, hP, _, he0, het⟩ := (PL.mem_enPassant hd m).1 h
    have hp : b.pieceAt (Move.src m) = Piece.pawn := (g.hw.pc _ (src_lt m) _ (by decide)).1 hP
    have hep : b.isEnPassant m = true := by
      unfold Board.isEnPassant
      simp only [Bool.and_eq_true, bne_iff_ne, ne_eq, beq_iff_eq]
      exact ⟨⟨he0, het.symm⟩, hp⟩
    left; rw [ep_cap_pawn g hep]; decide

/-! ### the measure -/

theorem mu_make_noisy (K : Keys) {b : Board} {m : Move} (hv : Board.valid b = true) (hm : m ∈ MoveGen.genNoisy b) :
    mu (b.makeMove K m).1 < mu b := by
  have g : GenMove b m := genMove_of hv (by unfold gen; exact List.mem_append_left _ hm)
  have hnew : mu (b.makeMove K m).1 = _ := muPos_eq (fun s hs => at_new g K s hs)
  have hold : mu b = _ := muPos_eq (fun s _ => abs_at' b s)
  rw [hnew, hold]
  have ch := g.chain
  have hO := cntQ_cfg5 ch occQ rfl
  have hP := cntQ_cfg5 ch pawnQ rfl
  simp only [ind_occ, ind_pawn] at hO hP
  rw [ind_pos ch.piece_ne, ind_pos ch.put_ne] at hO
  have hcp : ind (b.pieceAt (b.captureSq m) = Piece.pawn) ≤ 1 := ind_le _
  by_cases hpr : Move.promo m = 0
  · rw [ch.put_eq hpr] at hP
    rcases noisy_cap_or_promo hv hm with hc | hc
    · rw [ind_pos hc] at hO; omega
    · exact absurd hpr hc
  · rcases put_cases g with ⟨h0, _⟩ | ⟨hsp, hq⟩
    · exact absurd h0 hpr
    · have : ind (mvPut b m = Piece.pawn) = 0 := ind_neg (by
        rcases hq with q | q | q | q <;> rw [q] <;> decide)
      rw [this, ind_pos hsp] at hP
      have := ind_le (b.pieceAt (b.captureSq m) ≠ Piece.none)
      omega

/-! ### the bound on valid positions -/

theorem occ_split (p : Pos) (l : List Nat) :
    l.countP (fun s => !(p.empty s)) =
      l.countP (fun s => p.has s .white .none) +
      l.countP (fun s => p.has s .white .pawn) +
      l.countP (fun s => p.has s .white .knight) +
      l.countP (fun s => p.has s .white .bishop) +
      l.countP (fun s => p.has s .white .rook) +
      l.countP (fun s => p.has s .white .queen) +
      l.countP (fun s => p.has s .white .king) +
      l.countP (fun s => p.has s .black .none) +
      l.countP (fun s => p.has s .black .pawn) +
      l.countP (fun s => p.has s .black .knight) +
      l.countP (fun s => p.has s .black .bishop) +
      l.countP (fun s => p.has s .black .rook) +
      l.countP (fun s => p.has s .black .queen) +
      l.countP (fun s => p.has s .black .king) := by
  induction l with
  | nil => rfl
  | cons s l ih =>
    simp only [List.countP_cons, ih]
    cases h : p.at_ s with
    | none => simp [Pos.empty, Pos.has, h]
    | some ck =>
      obtain ⟨c, k⟩ := ck
      cases c <;> cases k <;> simp [Pos.empty, Pos.has, h] <;> omega

theorem pawn_split (p : Pos) (l : List Nat) :
    l.countP (fun s => p.has s .white .pawn || p.has s .black .pawn) ≤
      l.countP (fun s => p.has s .white .pawn) + l.countP (fun s => p.has s .black .pawn) := by
  induction l with
  | nil => exact Nat.le_refl _
  | cons s l ih =>
    simp only [List.countP_cons]
    cases p.has s .white .pawn <;> cases p.has s .black .pawn <;> simp <;> omega

theorem count_eq_countP (p : Pos) (c : Color) (k : Piece) :
    count p c k = (List.range 64).countP (fun s => p.has s c k) := by
  unfold count; rw [List.countP_eq_length_filter]

theorem muPos_le_counts (p : Pos) :
    muPos p ≤ count p .white .none +
      count p .white .pawn +
      count p .white .knight +
      count p .white .bishop +
      count p .white .rook +
      count p .white .queen +
      count p .white .king +
      count p .black .none +
      count p .black .pawn +
      count p .black .knight +
      count p .black .bishop +
      count p .black .rook +
      count p .black .queen +
      count p .black .king +
      (count p .white .pawn + count p .black .pawn) := by
  unfold muPos
  rw [← List.countP_eq_length_filter, ← List.countP_eq_length_filter, occ_split]
  have := pawn_split p (List.range 64)
  simp only [count_eq_countP]
  omega

theorem count_none_zero {p : Pos} (vp : ValidP p) (c : Color) : count p c .none = 0 := by
  rw [count_eq_countP, List.countP_eq_zero]
  intro s hs h
  exact vp.real s (List.mem_range.1 hs) c ((has_iff_at _ _ _ _).1 h)

theorem muPos_le {p : Pos} (vp : ValidP p) : muPos p ≤ 48 := by
  have h := muPos_le_counts p
  have kw := vp.kings .white
  have kb := vp.kings .black
  have bw := (promotedBound_iff _ _).1 (vp.bound .white)
  have bb := (promotedBound_iff _ _).1 (vp.bound .black)
  have nw := count_none_zero vp .white
  have nb := count_none_zero vp .black
  omega

theorem mu_le (b : Board) (hv : Board.valid b = true) : mu b ≤ 48 :=
  muPos_le ((validP_iff _).1 (rulesValid_of_valid hv))


/-! ### non-vacuity: `4k3/8/8/3p4/4P3/8/8/4K3 w - - 0 1`, e4xd5 -/

def exB : Board :=
  { sq := #v[.none, .none, .none, .none, .king, .none, .none, .none,
             .none, .none, .none, .none, .none, .none, .none, .none,
             .none, .none, .none, .none, .none, .none, .none, .none,
             .none, .none, .none, .none, .pawn, .none, .none, .none,
             .none, .none, .none, .pawn, .none, .none, .none, .none,
             .none, .none, .none, .none, .none, .none, .none, .none,
             .none, .none, .none, .none, .none, .none, .none, .none,
             .none, .none, .none, .none, .king, .none, .none, .none],
    pieces := #v[0, bit 28 ||| bit 35, 0, 0, 0, 0, bit 4 ||| bit 60],
    colors := #v[bit 4 ||| bit 28, bit 60 ||| bit 35],
    hashes := [], fullMoves := 1, stm := .white, ep := 0, castles := 0#4, fifty := 0 }

def exd5 : Move := Move.mk 28 35 0

theorem exB_valid : Board.valid exB = true := by decide +kernel

theorem exd5_noisy : exd5 ∈ MoveGen.genNoisy exB := by
  unfold genNoisy
  simp only [List.mem_append]
  refine Or.inl (Or.inl (Or.inr ?_))
  exact (PL.mem_pawnCapture _).2 ⟨by decide, by decide, by decide +kernel, by decide +kernel, by decide,
    by decide, by decide +kernel⟩

example : mu exB = 6 := by decide +kernel
example (K : Keys) : mu (exB.makeMove K exd5).1 < mu exB := mu_make_noisy K exB_valid exd5_noisy
example : mu exB ≤ 48 := mu_le exB exB_valid

end ChessVerif.SearchReal
