/-
  C16: history-derived weights stay within their designed band for ANY sequence of updates.

  * `RankerOK r`      every cell of the four stores lies within `±MaxHistory`;
  * `failHigh_ok`     one `FailHigh` call (any depth, any board, any move list with any weights, any
                      history stack) preserves it — by the one-step gravity bound
                      `Proofs.Hist.histAdd_exact_bound`, which holds for every integer bonus;
  * `runFH_ok`        hence every state reachable from `NewMoveRanker()` by `FailHigh` calls is OK;
  * `rankOf_bands`    for an OK ranker the real ranking functions satisfy `Bands`: a quiet weight is
                      a sum of at most three cells (no `int16` wrap), a noisy weight is
                      `±band base + score` with `0 ≤ score ≤ 6·6·7 + 6·6 + 6 < CaptureRange`;
  * `bands_reachable`.
  Core Lean only.
-/
import ChessVerif.Model.Heur
import ChessVerif.Model.Picker
import ChessVerif.Proofs.Hist
import ChessVerif.Proofs.PickerPerm

namespace ChessVerif.Proofs.HeurBands
open ChessVerif Heur ChessVerif.Proofs.Hist ChessVerif.Proofs.PickerPerm
open ChessVerif.Gen.Funcs (histAdd Captures CaptureRange MaxHistory)
set_option autoImplicit false

/-- all cells of a store are in range. -/
def TblOK (t : Array Int) : Prop := ∀ i, HistOK (t.getD i 0)

def RankerOK (r : Ranker) : Prop := TblOK r.hist ∧ TblOK r.capt ∧ TblOK r.cont0 ∧ TblOK r.cont1

theorem tblOK_replicate (n : Nat) : TblOK (Array.replicate n 0) := by
  intro i
  have : (Array.replicate n (0 : Int)).getD i 0 = 0 := by
    simp only [Array.getD]
    split <;> simp
  rw [this]; exact histOK_zero

theorem ranker_new_ok : RankerOK Ranker.new :=
  ⟨tblOK_replicate _, tblOK_replicate _, tblOK_replicate _, tblOK_replicate _⟩

theorem getD_setIfInBounds (t : Array Int) (i j : Nat) (v : Int) :
    (t.setIfInBounds i v).getD j 0 = if i = j ∧ i < t.size then v else t.getD j 0 := by
  simp only [Array.getD_eq_getD_getElem?, Array.getElem?_setIfInBounds]
  by_cases e : i = j
  · subst e
    by_cases hi : i < t.size
    · simp [hi]
    · simp [hi]
  · simp [e]

/-- `Add` keeps a store in range, whatever the bonus. -/
theorem tblAdd_ok {t : Array Int} (h : TblOK t) (i : Nat) (bonus : Int) : TblOK (tblAdd t i bonus) := by
  intro j
  unfold tblAdd
  rw [getD_setIfInBounds]
  split
  · exact (histAdd_exact_bound (h i)).2
  · exact h j

theorem failHighOne_ok (d : Int) (b : Board) (st : HStack) {r : Ranker} (h : RankerOK r) (m : Move) (w : Int)
    (last : Bool) : RankerOK (failHighOne d b st r m w last) := by
  obtain ⟨h1, h2, h3, h4⟩ := h
  unfold failHighOne
  simp only
  split
  · exact ⟨h1, tblAdd_ok h2 _ _, h3, h4⟩
  · split
    · cases st.top 0 <;> cases st.top 1 <;>
        first
          | exact ⟨tblAdd_ok h1 _ _, h2, h3, h4⟩
          | exact ⟨tblAdd_ok h1 _ _, h2, tblAdd_ok h3 _ _, h4⟩
          | exact ⟨tblAdd_ok h1 _ _, h2, h3, tblAdd_ok h4 _ _⟩
          | exact ⟨tblAdd_ok h1 _ _, h2, tblAdd_ok h3 _ _, tblAdd_ok h4 _ _⟩
    · exact ⟨h1, h2, h3, h4⟩

theorem failHighLoop_ok (d : Int) (b : Board) (st : HStack) :
    ∀ (moves : List (Move × Int)) (r : Ranker), RankerOK r → RankerOK (failHighLoop d b st r moves) := by
  intro moves
  induction moves with
  | nil => intro r h; exact h
  | cons mw rest ih =>
    intro r h
    obtain ⟨m, w⟩ := mw
    cases rest with
    | nil => exact failHighOne_ok d b st h m w true
    | cons x xs => exact ih _ (failHighOne_ok d b st h m w false)

/-- One `FailHigh` call preserves the range of every store. -/
theorem failHigh_ok {r : Ranker} (h : RankerOK r) (d : Int) (b : Board) (moves : List (Move × Int)) (st : HStack) :
    RankerOK (failHigh r d b moves st) := failHighLoop_ok d b st moves r h

/-- an update: the arguments of one `FailHigh` call. -/
structure FHCall where
  d : Int
  board : Board
  moves : List (Move × Int)
  stack : HStack

/-- one operation on the move ranker: a `FailHigh` call or `Clear()`. -/
inductive HistOp where
  | failHigh (c : FHCall)
  | clear

def HistOp.apply (r : Ranker) : HistOp → Ranker
  | .failHigh c => Heur.failHigh r c.d c.board c.moves c.stack
  | .clear => r.clear

/-- the ranker after a sequence of operations on a fresh `NewMoveRanker()`. -/
def runOps (ops : List HistOp) : Ranker := ops.foldl HistOp.apply Ranker.new

/-- the ranker after a sequence of `FailHigh` calls on a fresh `NewMoveRanker()`. -/
def runFH (calls : List FHCall) : Ranker := runOps (calls.map HistOp.failHigh)

theorem apply_ok {r : Ranker} (h : RankerOK r) (op : HistOp) : RankerOK (op.apply r) := by
  cases op with
  | failHigh c => exact failHigh_ok h _ _ _ _
  | clear => exact ranker_new_ok

theorem foldl_ok (ops : List HistOp) : ∀ (r : Ranker), RankerOK r → RankerOK (ops.foldl HistOp.apply r) := by
  induction ops with
  | nil => intro r h; exact h
  | cons c cs ih => intro r h; exact ih _ (apply_ok h c)

theorem runOps_ok (ops : List HistOp) : RankerOK (runOps ops) := foldl_ok ops _ ranker_new_ok

theorem runFH_ok (calls : List FHCall) : RankerOK (runFH calls) := runOps_ok _

/-! ### The ranking functions of an in-range ranker are inside the bands -/

theorem piece_toNat_le (p : Piece) : p.toNat ≤ 6 := by cases p <;> decide

theorem noisyScore_bounds (promo victim attacker : Nat) (hp : promo ≤ 7) (hv : victim ≤ 6) :
    0 ≤ Heur.noisyScore promo victim attacker ∧ Heur.noisyScore promo victim attacker < CaptureRange := by
  unfold Heur.noisyScore
  simp only [Gen.Heur.rankPromoMulInner, Gen.Heur.rankPromoMulOuter, Gen.Heur.rankVictimMul, CaptureRange]
  have h1 : ((if promo ≠ 0 then promo - 1 else promo : Nat) : Int) ≤ 6 ∧
      0 ≤ ((if promo ≠ 0 then promo - 1 else promo : Nat) : Int) := by split <;> omega
  generalize ((if promo ≠ 0 then promo - 1 else promo : Nat) : Int) = p at h1
  have h2 : ((6 - attacker : Nat) : Int) ≤ 6 ∧ 0 ≤ ((6 - attacker : Nat) : Int) := by omega
  generalize ((6 - attacker : Nat) : Int) = a at h2
  have h3 : (victim : Int) ≤ 6 ∧ 0 ≤ (victim : Int) := by omega
  generalize (victim : Int) = v at h3
  rw [wrapS16_id (x := p * 6) (by omega), wrapS16_id (x := p * 6 * 7) (by omega), wrapS16_id (x := v * 6) (by omega),
    wrapS16_id (x := p * 6 * 7 + v * 6) (by omega), wrapS16_id (x := p * 6 * 7 + v * 6 + a) (by omega)]
  omega

/-- the two band formulas of `RankNoisy`, whichever way the exchange test answers. -/
theorem band_ite (c : Bool) (s : Int) (hs : 0 ≤ s ∧ s < CaptureRange) :
    let x := if c = true then wrapS16 (Captures + s) else wrapS16 (wrapS16 (wrapS16 (-Captures) - CaptureRange) + s)
    (Captures ≤ x ∧ x < Captures + CaptureRange) ∨ (-Captures - CaptureRange ≤ x ∧ x < -Captures) := by
  simp only [Captures, CaptureRange] at hs ⊢
  cases c
  · right; simp only [Bool.false_eq_true, ↓reduceIte, wrapS16]; omega
  · left; simp only [↓reduceIte, wrapS16]; omega

theorem rankNoisy_band (r : Ranker) (b : Board) (m : Move) :
    (Captures ≤ rankNoisy r b m ∧ rankNoisy r b m < Captures + CaptureRange) ∨
    (-Captures - CaptureRange ≤ rankNoisy r b m ∧ rankNoisy r b m < -Captures) := by
  have hs := noisyScore_bounds (Move.promo m) (b.pieceAt (b.captureSq m)).toNat (b.pieceAt (Move.src m)).toNat
    (by unfold Move.promo; omega) (piece_toNat_le _)
  exact band_ite _ _ hs

theorem rankQuiet_band {r : Ranker} (h : RankerOK r) (b : Board) (st : HStack) (m : Move) :
    -(3 * MaxHistory) ≤ rankQuiet r b st m ∧ rankQuiet r b st m ≤ 3 * MaxHistory := by
  obtain ⟨h1, _, h3, h4⟩ := h
  unfold rankQuiet tblGet
  simp only
  have a := h1 (histIx b.stm (Move.src m) (Move.dst m))
  generalize r.hist.getD (histIx b.stm (Move.src m) (Move.dst m)) 0 = x at a
  simp only [HistOK, MaxHistory] at a ⊢
  cases e0 : st.top 0 with
  | none =>
    cases e1 : st.top 1 with
    | none => simp only; omega
    | some h1' =>
      simp only
      have c := h4 (contIx b.stm h1'.piece h1'.to (b.pieceAt (Move.src m)).toNat (Move.dst m))
      generalize r.cont1.getD (contIx b.stm h1'.piece h1'.to (b.pieceAt (Move.src m)).toNat (Move.dst m)) 0 = z at c ⊢
      simp only [HistOK, MaxHistory] at c
      simp only [wrapS16]; omega
  | some h0 =>
    have bb := h3 (contIx b.stm h0.piece h0.to (b.pieceAt (Move.src m)).toNat (Move.dst m))
    cases e1 : st.top 1 with
    | none =>
      simp only
      generalize r.cont0.getD (contIx b.stm h0.piece h0.to (b.pieceAt (Move.src m)).toNat (Move.dst m)) 0 = y at bb ⊢
      simp only [HistOK, MaxHistory] at bb
      simp only [wrapS16]; omega
    | some h1' =>
      simp only
      have c := h4 (contIx b.stm h1'.piece h1'.to (b.pieceAt (Move.src m)).toNat (Move.dst m))
      generalize r.cont0.getD (contIx b.stm h0.piece h0.to (b.pieceAt (Move.src m)).toNat (Move.dst m)) 0 = y at bb ⊢
      generalize r.cont1.getD (contIx b.stm h1'.piece h1'.to (b.pieceAt (Move.src m)).toNat (Move.dst m)) 0 = z at c ⊢
      simp only [HistOK, MaxHistory] at bb c
      simp only [wrapS16]; omega

/-- The real ranking functions of an in-range ranker satisfy the band layout. -/
theorem rankOf_bands {r : Ranker} (h : RankerOK r) (b : Board) (st : HStack) : Bands (Picker.rankOf r b st) :=
  ⟨fun m => rankNoisy_band r b m, fun m => rankQuiet_band h b st m⟩

/-- **bands_reachable**: after any sequence of `FailHigh` updates, on any board with any history
    stack, the ranking functions are inside the bands. -/
theorem bands_reachable (calls : List FHCall) (b : Board) (st : HStack) :
    Bands (Picker.rankOf (runFH calls) b st) := rankOf_bands (runFH_ok calls) b st

/-- …also with `Clear()` calls interleaved. -/
theorem bands_reachable_ops (ops : List HistOp) (b : Board) (st : HStack) :
    Bands (Picker.rankOf (runOps ops) b st) := rankOf_bands (runOps_ok ops) b st

end ChessVerif.Proofs.HeurBands
