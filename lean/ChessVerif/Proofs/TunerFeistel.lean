/-
  C20, part 1: the Feistel network of `epd.feistel` is a bijection of `[0, 2^bits)` for EVERY round
  function `F`, every bit width and every even number of rounds (or any number of rounds when `bits`
  is even).  Unbalanced halves: the left half has `bits/2` bits, the right half `bits - bits/2`.
-/
import ChessVerif.Model.Tuner
import Mathlib.Data.Set.Finite.Basic
import Mathlib.Data.Nat.Bitwise

namespace ChessVerif.Tuner

/-- `left < 2^p ∧ right < 2^q`. -/
def InvPQ (p q : Nat) (s : Nat × Nat) : Prop := s.1 < 2 ^ p ∧ s.2 < 2 ^ q

theorem feistelLoop_succ (F : Nat → Nat → Nat) (lm i cnt l r : Nat) :
    feistelLoop F lm i (cnt + 1) (l, r) = feistelLoop F lm (i + 1) cnt (r, l ^^^ (F i r &&& lm)) := rfl

/-- One round is injective on all pairs, whatever `F` is. -/
theorem feistelLoop_inj (F : Nat → Nat → Nat) (lm : Nat) :
    ∀ cnt i (s t : Nat × Nat), feistelLoop F lm i cnt s = feistelLoop F lm i cnt t → s = t := by
  intro cnt
  induction cnt with
  | zero => intro i s t h; simpa [feistelLoop] using h
  | succ cnt ih =>
    intro i s t h
    obtain ⟨l1, r1⟩ := s
    obtain ⟨l2, r2⟩ := t
    rw [feistelLoop_succ, feistelLoop_succ] at h
    have := ih _ _ _ h
    simp only [Prod.mk.injEq] at this
    obtain ⟨hr, hx⟩ := this
    subst hr
    rw [Nat.xor_left_inj] at hx
    subst hx
    rfl

/-- Range invariant: the halves swap their widths every round. -/
theorem feistelLoop_inv (F : Nat → Nat → Nat) (h : Nat) :
    ∀ cnt p q i (s : Nat × Nat), h ≤ p → h ≤ q → InvPQ p q s →
      (cnt % 2 = 0 → InvPQ p q (feistelLoop F (2 ^ h - 1) i cnt s)) ∧
      (cnt % 2 = 1 → InvPQ q p (feistelLoop F (2 ^ h - 1) i cnt s)) := by
  intro cnt
  induction cnt with
  | zero =>
    intro p q i s _ _ hs
    exact ⟨fun _ => by simpa [feistelLoop] using hs, fun h => by omega⟩
  | succ cnt ih =>
    intro p q i s hp hq hs
    obtain ⟨l, r⟩ := s
    rw [feistelLoop_succ]
    have hf : F i r &&& (2 ^ h - 1) < 2 ^ p := by
      rw [Nat.and_two_pow_sub_one_eq_mod]
      exact lt_of_lt_of_le (Nat.mod_lt _ (Nat.two_pow_pos h)) (Nat.pow_le_pow_right (by decide) hp)
    have hs' : InvPQ q p (r, l ^^^ (F i r &&& (2 ^ h - 1))) :=
      ⟨hs.2, Nat.xor_lt_two_pow hs.1 hf⟩
    have := ih q p (i + 1) _ hq hp hs'
    constructor
    · intro hc; exact this.2 (by omega)
    · intro hc; exact this.1 (by omega)

/-- The condition under which the final recombination loses nothing. -/
def RoundsOK (rounds bits : Nat) : Prop := rounds % 2 = 0 ∨ bits % 2 = 0

theorem feistelLoop_final (F : Nat → Nat → Nat) (rounds bits : Nat) (hok : RoundsOK rounds bits)
    (i : Nat) (s : Nat × Nat) (hs : InvPQ (bits / 2) (bits - bits / 2) s) :
    InvPQ (bits / 2) (bits - bits / 2) (feistelLoop F (2 ^ (bits / 2) - 1) i rounds s) := by
  have h1 : bits / 2 ≤ bits - bits / 2 := by omega
  have := feistelLoop_inv F (bits / 2) rounds _ _ i s (le_refl _) h1 hs
  rcases Nat.mod_two_eq_zero_or_one rounds with hr | hr
  · exact this.1 hr
  · rcases hok with h | h
    · omega
    · have e : bits - bits / 2 = bits / 2 := by omega
      have := this.2 hr
      rw [e] at this ⊢
      exact this

/-- `feistelG` in arithmetic form. -/
theorem feistelG_eq (F : Nat → Nat → Nat) (rounds x bits : Nat) :
    feistelG F rounds x bits =
      let h := bits / 2
      let lr := feistelLoop F (2 ^ h - 1) 0 rounds (x % 2 ^ h, (x / 2 ^ h) % 2 ^ (bits - h))
      ((lr.2 % 2 ^ (bits - h)) * 2 ^ h) ||| (lr.1 % 2 ^ h) := by
  simp only [feistelG, Nat.one_shiftLeft]
  simp only [Nat.and_two_pow_sub_one_eq_mod, Nat.shiftRight_eq_div_pow, Nat.shiftLeft_eq]

theorem pow_split (bits : Nat) : 2 ^ bits = 2 ^ (bits - bits / 2) * 2 ^ (bits / 2) := by
  rw [← Nat.pow_add]; congr 1; omega

theorem feistelG_lt (F : Nat → Nat → Nat) (rounds x bits : Nat) : feistelG F rounds x bits < 2 ^ bits := by
  rw [feistelG_eq]
  simp only
  generalize feistelLoop F _ 0 rounds _ = lr
  have h1 : lr.1 % 2 ^ (bits / 2) < 2 ^ (bits / 2) := Nat.mod_lt _ (Nat.two_pow_pos _)
  have h2 : lr.2 % 2 ^ (bits - bits / 2) < 2 ^ (bits - bits / 2) := Nat.mod_lt _ (Nat.two_pow_pos _)
  rw [← Nat.shiftLeft_eq, ← Nat.shiftLeft_add_eq_or_of_lt h1, Nat.shiftLeft_eq, pow_split bits]
  generalize lr.1 % 2 ^ (bits / 2) = a at *
  generalize lr.2 % 2 ^ (bits - bits / 2) = b at *
  generalize 2 ^ (bits / 2) = A at *
  generalize 2 ^ (bits - bits / 2) = B at *
  calc b * A + a < b * A + A := by omega
    _ = (b + 1) * A := by rw [Nat.add_mul, Nat.one_mul]
    _ ≤ B * A := Nat.mul_le_mul_right _ h2

theorem feistelG_injOn (F : Nat → Nat → Nat) (rounds bits : Nat) (hok : RoundsOK rounds bits)
    (x y : Nat) (hx : x < 2 ^ bits) (hy : y < 2 ^ bits)
    (hxy : feistelG F rounds x bits = feistelG F rounds y bits) : x = y := by
  rw [feistelG_eq, feistelG_eq] at hxy
  simp only at hxy
  have dec : ∀ z, z < 2 ^ bits →
      InvPQ (bits / 2) (bits - bits / 2) (z % 2 ^ (bits / 2), (z / 2 ^ (bits / 2)) % 2 ^ (bits - bits / 2)) :=
    fun z _ => ⟨Nat.mod_lt _ (Nat.two_pow_pos _), Nat.mod_lt _ (Nat.two_pow_pos _)⟩
  have fx := feistelLoop_final F rounds bits hok 0 _ (dec x hx)
  have fy := feistelLoop_final F rounds bits hok 0 _ (dec y hy)
  have hloop := feistelLoop_inj F (2 ^ (bits / 2) - 1) rounds 0
    (x % 2 ^ (bits / 2), (x / 2 ^ (bits / 2)) % 2 ^ (bits - bits / 2))
    (y % 2 ^ (bits / 2), (y / 2 ^ (bits / 2)) % 2 ^ (bits - bits / 2))
  revert hxy fx fy hloop
  generalize feistelLoop F _ 0 rounds (x % _, _) = sx
  generalize feistelLoop F _ 0 rounds (y % _, _) = sy
  intro hxy fx fy hloop
  obtain ⟨lx, rx⟩ := sx
  obtain ⟨ly, ry⟩ := sy
  simp only [InvPQ] at fx fy
  simp only [Nat.mod_eq_of_lt fx.1, Nat.mod_eq_of_lt fx.2, Nat.mod_eq_of_lt fy.1, Nat.mod_eq_of_lt fy.2] at hxy
  rw [← Nat.shiftLeft_eq, ← Nat.shiftLeft_eq, ← Nat.shiftLeft_add_eq_or_of_lt fx.1,
    ← Nat.shiftLeft_add_eq_or_of_lt fy.1, Nat.shiftLeft_eq, Nat.shiftLeft_eq] at hxy
  have hl : lx = ly := by
    have := congrArg (· % 2 ^ (bits / 2)) hxy
    simpa [Nat.mul_add_mod, Nat.add_mod, Nat.mod_eq_of_lt fx.1, Nat.mod_eq_of_lt fy.1] using this
  have hr : rx = ry := by
    subst hl
    have : rx * 2 ^ (bits / 2) = ry * 2 ^ (bits / 2) := by omega
    exact Nat.eq_of_mul_eq_mul_right (Nat.two_pow_pos _) this
  have := hloop (by rw [hl, hr])
  simp only [Prod.mk.injEq] at this
  obtain ⟨e1, e2⟩ := this
  have hxd : x / 2 ^ (bits / 2) < 2 ^ (bits - bits / 2) := by
    rw [Nat.div_lt_iff_lt_mul (Nat.two_pow_pos _), ← pow_split]; exact hx
  have hyd : y / 2 ^ (bits / 2) < 2 ^ (bits - bits / 2) := by
    rw [Nat.div_lt_iff_lt_mul (Nat.two_pow_pos _), ← pow_split]; exact hy
  rw [Nat.mod_eq_of_lt hxd, Nat.mod_eq_of_lt hyd] at e2
  rw [← Nat.div_add_mod x (2 ^ (bits / 2)), ← Nat.div_add_mod y (2 ^ (bits / 2)), e1, e2]

/-- **feistel_bij**, generic form. -/
theorem feistelG_bijOn (F : Nat → Nat → Nat) (rounds bits : Nat) (hok : RoundsOK rounds bits) :
    Set.BijOn (fun x => feistelG F rounds x bits) (Set.Iio (2 ^ bits)) (Set.Iio (2 ^ bits)) := by
  have maps : Set.MapsTo (fun x => feistelG F rounds x bits) (Set.Iio (2 ^ bits)) (Set.Iio (2 ^ bits)) :=
    fun x _ => feistelG_lt F rounds x bits
  refine (Set.Finite.injOn_iff_bijOn_of_mapsTo (Set.finite_lt_nat (2 ^ bits)) maps).1 ?_
  intro x hx y hy h
  exact feistelG_injOn F rounds bits hok x y hx hy h

end ChessVerif.Tuner
