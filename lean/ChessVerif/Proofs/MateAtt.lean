/-
  C09: elementary facts about the attack relation `Att` and the line-of-sight predicate `lineFree`
  of `Proofs/MateDefs.lean`: dependence on the occupancy, unfoldings per kind, symmetry, and the
  bridge to the engine's attack lookups.
-/
import ChessVerif.Proofs.MateGeom
import ChessVerif.Proofs.BridgeAttack

namespace ChessVerif.Mate
open ChessVerif

/-! ### dependence on the occupancy -/

theorem lineFree_congr {o o' : BB} {a t : Nat}
    (h : ∀ u, (SB a t).getLsbD u = true → o.getLsbD u = o'.getLsbD u) :
    lineFree o a t ↔ lineFree o' a t := by
  unfold lineFree
  constructor
  · intro hh u hu; rw [← h u hu]; exact hh u hu
  · intro hh u hu; rw [h u hu]; exact hh u hu

theorem Att_congr {o o' : BB} {c : Color} {k : Piece} {a t : Nat}
    (h : ∀ u, (SB a t).getLsbD u = true → o.getLsbD u = o'.getLsbD u) :
    Att o c k a t ↔ Att o' c k a t := by
  cases k <;> simp only [Att, lineFree_congr h]

theorem Att_nonslider {o o' : BB} {c : Color} {k : Piece} {a t : Nat} (hk : isSlider k = false) :
    Att o c k a t ↔ Att o' c k a t := by
  cases k <;> first | exact Iff.rfl | exact absurd hk (by decide)

theorem lineFree_mono {o o' : BB} {a t : Nat} (h : lineFree o a t)
    (hsub : ∀ u, (SB a t).getLsbD u = true → o'.getLsbD u = true → o.getLsbD u = true) :
    lineFree o' a t := by
  intro u hu
  cases ho' : o'.getLsbD u
  · rfl
  · have := hsub u hu ho'
    rw [h u hu] at this; exact absurd this (by decide)

theorem Att_mono {o o' : BB} {c : Color} {k : Piece} {a t : Nat} (h : Att o c k a t)
    (hsub : ∀ u, (SB a t).getLsbD u = true → o'.getLsbD u = true → o.getLsbD u = true) :
    Att o' c k a t := by
  cases k <;> first | exact h | exact ⟨h.1, lineFree_mono h.2 hsub⟩

theorem Att_slider_geo {o : BB} {c : Color} {k : Piece} {a t : Nat} (hk : isSlider k = true)
    (h : Att o c k a t) : (rookGeo a t ∨ bishGeo a t) ∧ lineFree o a t := by
  cases k <;> first | exact absurd hk (by decide) | skip
  · exact ⟨Or.inr h.1, h.2⟩
  · exact ⟨Or.inl h.1, h.2⟩
  · exact ⟨h.1.symm, h.2⟩

/-- an attack lost by a change of occupancy is a slider's, and a square of the line became occupied. -/
theorem Att_lost {o o' : BB} {c : Color} {k : Piece} {a t : Nat} (h : Att o c k a t) (h' : ¬ Att o' c k a t) :
    isSlider k = true ∧ ∃ u, (SB a t).getLsbD u = true ∧ o.getLsbD u = false ∧ o'.getLsbD u = true := by
  cases hk : isSlider k
  · exact absurd ((Att_nonslider hk).1 h) h'
  · refine ⟨rfl, ?_⟩
    apply Classical.byContradiction
    intro hno
    apply h'
    apply Att_mono h
    intro u hu ho'
    have hf := (Att_slider_geo hk h).2 u hu
    exact absurd ⟨u, hu, hf, ho'⟩ hno

theorem rookGeo_irrefl (a : Nat) : ¬ rookGeo a a := fun h => h.2 rfl
theorem bishGeo_irrefl (a : Nat) : ¬ bishGeo a a := fun h => h.2 rfl
theorem kingGeo_irrefl (a : Nat) : ¬ kingGeo a a := by
  simp only [kingGeo, Geometry.fileDist, Geometry.rankDist]; omega
theorem knightGeo_irrefl (a : Nat) : ¬ knightGeo a a := by
  simp only [knightGeo, Geometry.fileDist, Geometry.rankDist]; omega
theorem capGeom_irrefl (c : Color) (a : Nat) : ¬ PL.capGeom c a a := by
  cases c <;> simp only [PL.capGeom] <;> omega

theorem Att_irrefl {o : BB} {c : Color} {k : Piece} {a : Nat} : ¬ Att o c k a a := by
  intro h
  cases k
  · exact h
  · exact capGeom_irrefl c a h
  · exact knightGeo_irrefl a h
  · exact bishGeo_irrefl a h.1
  · exact rookGeo_irrefl a h.1
  · exact h.1.elim (bishGeo_irrefl a) (rookGeo_irrefl a)
  · exact kingGeo_irrefl a h

/-! ### unfoldings -/

theorem Att_rook {o : BB} {c : Color} {a t : Nat} : Att o c .rook a t ↔ rookGeo a t ∧ lineFree o a t := Iff.rfl
theorem Att_bishop {o : BB} {c : Color} {a t : Nat} : Att o c .bishop a t ↔ bishGeo a t ∧ lineFree o a t := Iff.rfl
theorem Att_queen' {o : BB} {c : Color} {a t : Nat} :
    Att o c .queen a t ↔ (bishGeo a t ∨ rookGeo a t) ∧ lineFree o a t := Iff.rfl
theorem Att_knight {o : BB} {c : Color} {a t : Nat} : Att o c .knight a t ↔ knightGeo a t := Iff.rfl
theorem Att_king {o : BB} {c : Color} {a t : Nat} : Att o c .king a t ↔ kingGeo a t := Iff.rfl
theorem Att_pawn {o : BB} {c : Color} {a t : Nat} : Att o c .pawn a t ↔ PL.capGeom c a t := Iff.rfl
theorem Att_none {o : BB} {c : Color} {a t : Nat} : ¬ Att o c .none a t := id

theorem Att_queen {o : BB} {c : Color} {a t : Nat} :
    Att o c .queen a t ↔ Att o c .bishop a t ∨ Att o c .rook a t := by
  simp only [Att]; exact or_and_right

theorem Att_color {o : BB} {c d : Color} {k : Piece} {a t : Nat} (hk : k ≠ .pawn) :
    Att o c k a t ↔ Att o d k a t := by
  cases k <;> first | exact Iff.rfl | exact absurd rfl hk

/-! ### symmetry -/

theorem lineFree_symm {o : BB} {a t : Nat} (ha : a < 64) (ht : t < 64) : lineFree o a t ↔ lineFree o t a := by
  unfold lineFree; rw [sb_comm' ha ht]

theorem Att_symm {o : BB} {c : Color} {k : Piece} {a t : Nat} (ha : a < 64) (ht : t < 64) (hk : k ≠ .pawn) :
    Att o c k a t ↔ Att o c k t a := by
  cases k
  · exact Iff.rfl
  · exact absurd rfl hk
  · exact knightGeo_symm
  · simp only [Att, lineFree_symm ha ht, bishGeo_symm (a := a)]
  · simp only [Att, lineFree_symm ha ht, rookGeo_symm (a := a)]
  · simp only [Att, lineFree_symm ha ht, rookGeo_symm (a := a), bishGeo_symm (a := a)]
  · exact kingGeo_symm

theorem Att_pawn_symm {o : BB} {c : Color} {a t : Nat} : Att o c .pawn a t ↔ Att o c.flip .pawn t a :=
  (PL.capGeom_flip c a t).symm

/-! ### the engine's lookups -/

theorem rook_lookup {o : BB} {c : Color} {a t : Nat} (ha : a < 64) (ht : t < 64) :
    (Attacks.rookMoves a o).getLsbD t = true ↔ Att o c .rook a t := by
  rw [C12.rookMoves_iff o a t ha ht, Att_rook, rookGeo, lineFree, and_assoc]

theorem bishop_lookup {o : BB} {c : Color} {a t : Nat} (ha : a < 64) (ht : t < 64) :
    (Attacks.bishopMoves a o).getLsbD t = true ↔ Att o c .bishop a t := by
  rw [C12.bishopMoves_iff o a t ha ht, Att_bishop, bishGeo, lineFree, and_assoc]

theorem queen_lookup {o : BB} {c : Color} {a t : Nat} (ha : a < 64) (ht : t < 64) :
    (Attacks.bishopMoves a o ||| Attacks.rookMoves a o).getLsbD t = true ↔ Att o c .queen a t := by
  rw [BitVec.getLsbD_or, Bool.or_eq_true, bishop_lookup (c := c) ha ht, rook_lookup (c := c) ha ht, Att_queen]

theorem king_lookup {o : BB} {c : Color} {a t : Nat} (ha : a < 64) (ht : t < 64) :
    (Attacks.kingMoves a).getLsbD t = true ↔ Att o c .king a t := by
  rw [C12.kingMoves_eq a ha, Att_king, kingGeo]
  unfold Geometry.kingSet
  rw [AttacksProofs.getLsbD_ofPred]
  simp [ht]

theorem knight_lookup {o : BB} {c : Color} {a t : Nat} (ha : a < 64) (ht : t < 64) :
    (Attacks.knightMoves a).getLsbD t = true ↔ Att o c .knight a t := by
  rw [C12.knightMoves_eq a ha, Att_knight, knightGeo]
  unfold Geometry.knightSet
  rw [AttacksProofs.getLsbD_ofPred]
  simp [ht]

theorem pawn_lookup {o : BB} {c : Color} {a t : Nat} (ha : a < 64) (ht : t < 64) :
    (Attacks.pawnCaptureMoves (bit a) c).getLsbD t = true ↔ Att o c .pawn a t := by
  rw [PL.pawnCap_get c a t ha, Att_pawn]
  exact ⟨fun h => h.2, fun h => ⟨ht, h⟩⟩

end ChessVerif.Mate
