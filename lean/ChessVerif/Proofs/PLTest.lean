/-
  C05 — pseudo-legality test ≡ set-level predicate:
  `isPseudoLegal b m = true ↔ PL b (src m) (dst m) (promo m)` (no bound on `m` is needed here: the
  test reads only the three fields).
-/
import ChessVerif.Proofs.PLGen
namespace ChessVerif.PL
open ChessVerif
theorem PL_kind {b : Board} (hd : PLDomain b) (f t p : Nat) (hf : f < 64) :
    PL b f t p ↔ (b.colorBB b.stm).getLsbD f = true ∧ (b.colorBB b.stm).getLsbD t = false ∧
      ( (b.pieceAt f = .king ∧ p = 0 ∧ (Attacks.kingMoves f).getLsbD t = true) ∨
        (b.pieceAt f = .knight ∧ p = 0 ∧ (Attacks.knightMoves f).getLsbD t = true) ∨
        (b.pieceAt f = .bishop ∧ p = 0 ∧ (Attacks.bishopMoves f b.occ).getLsbD t = true) ∨
        (b.pieceAt f = .rook ∧ p = 0 ∧ (Attacks.rookMoves f b.occ).getLsbD t = true) ∨
        (b.pieceAt f = .queen ∧ p = 0 ∧ (Attacks.bishopMoves f b.occ ||| Attacks.rookMoves f b.occ).getLsbD t = true) ∨
        (b.pieceAt f = .king ∧ PLshort b f t p) ∨ (b.pieceAt f = .king ∧ PLlong b f t p) ∨
        (b.pieceAt f = .pawn ∧ PLpawn b f t p)) := by
  have w := fun q hq => wf_piece hd.wf f hf q hq
  unfold PL PLpiece
  rw [w .king (by decide), w .knight (by decide), w .bishop (by decide), w .rook (by decide), w .queen (by decide)]
  have h1 : PLshort b f t p ↔ (b.pieceAt f = .king ∧ PLshort b f t p) := by
    constructor
    · intro h; exact ⟨(w .king (by decide)).1 h.2.2.2.1, h⟩
    · exact fun h => h.2
  have h2 : PLlong b f t p ↔ (b.pieceAt f = .king ∧ PLlong b f t p) := by
    constructor
    · intro h; exact ⟨(w .king (by decide)).1 h.2.2.2.1, h⟩
    · exact fun h => h.2
  have h3 : PLpawn b f t p ↔ (b.pieceAt f = .pawn ∧ PLpawn b f t p) := by
    constructor
    · intro h; exact ⟨(w .pawn (by decide)).1 h.1, h⟩
    · exact fun h => h.2
  rw [← h1, ← h2, ← h3]
  constructor
  · rintro ⟨a, c, h⟩
    refine ⟨a, c, ?_⟩
    rcases h with h | h | h | h | h | h | h | h
    · exact Or.inl ⟨h.2.1, h.1, h.2.2⟩
    · exact Or.inr (Or.inl ⟨h.2.1, h.1, h.2.2⟩)
    · exact Or.inr (Or.inr (Or.inl ⟨h.2.1, h.1, h.2.2⟩))
    · exact Or.inr (Or.inr (Or.inr (Or.inl ⟨h.2.1, h.1, h.2.2⟩)))
    · exact Or.inr (Or.inr (Or.inr (Or.inr (Or.inl ⟨h.2.1, h.1, h.2.2⟩))))
    · exact Or.inr (Or.inr (Or.inr (Or.inr (Or.inr (Or.inl h)))))
    · exact Or.inr (Or.inr (Or.inr (Or.inr (Or.inr (Or.inr (Or.inl h))))))
    · exact Or.inr (Or.inr (Or.inr (Or.inr (Or.inr (Or.inr (Or.inr h))))))
  · rintro ⟨a, c, h⟩
    refine ⟨a, c, ?_⟩
    rcases h with h | h | h | h | h | h | h | h
    · exact Or.inl ⟨h.2.1, h.1, h.2.2⟩
    · exact Or.inr (Or.inl ⟨h.2.1, h.1, h.2.2⟩)
    · exact Or.inr (Or.inr (Or.inl ⟨h.2.1, h.1, h.2.2⟩))
    · exact Or.inr (Or.inr (Or.inr (Or.inl ⟨h.2.1, h.1, h.2.2⟩)))
    · exact Or.inr (Or.inr (Or.inr (Or.inr (Or.inl ⟨h.2.1, h.1, h.2.2⟩))))
    · exact Or.inr (Or.inr (Or.inr (Or.inr (Or.inr (Or.inl h)))))
    · exact Or.inr (Or.inr (Or.inr (Or.inr (Or.inr (Or.inr (Or.inl h))))))
    · exact Or.inr (Or.inr (Or.inr (Or.inr (Or.inr (Or.inr (Or.inr h))))))

/-- the direction test of the pawn case passes. -/
def dirOK (c : Color) (f t : Nat) : Prop := ¬ ((f < t ∧ c = .black) ∨ (f > t ∧ c = .white))

theorem absDiff_eq (a b k : Nat) : Board.absDiff a b = k ↔ (b ≤ a ∧ a = b + k) ∨ (a < b ∧ b = a + k) := by
  unfold Board.absDiff; split <;> omega

theorem ahead8_iff (c : Color) (f t : Nat) :
    ahead c f 8 t ↔ dirOK c f t ∧ Board.absDiff (fileOf f) (fileOf t) = 0 ∧ Board.absDiff (rankOf f) (rankOf t) = 1 := by
  cases c <;> simp only [ahead, dirOK, absDiff_eq, fileOf, rankOf, reduceCtorEq, and_false, and_true, false_or, or_false] <;> omega

theorem ahead16_iff (c : Color) (f t : Nat) :
    ahead c f 16 t ↔ dirOK c f t ∧ Board.absDiff (fileOf f) (fileOf t) = 0 ∧ Board.absDiff (rankOf f) (rankOf t) = 2 := by
  cases c <;> simp only [ahead, dirOK, absDiff_eq, fileOf, rankOf, reduceCtorEq, and_false, and_true, false_or, or_false] <;> omega

theorem capGeom_iff (c : Color) (f t : Nat) :
    capGeom c f t ↔ dirOK c f t ∧ Board.absDiff (fileOf f) (fileOf t) = 1 ∧ Board.absDiff (rankOf f) (rankOf t) = 1 := by
  cases c <;> simp only [capGeom, dirOK, absDiff_eq, fileOf, rankOf, reduceCtorEq, and_false, and_true, false_or, or_false] <;> omega

theorem and_mask2_beq (x : BB) (a c : Nat) (ha : a < 64) (hc : c < 64) :
    (x &&& (bit a ||| bit c) == 0) = (!x.getLsbD a && !x.getLsbD c) := by
  rw [Bool.eq_iff_iff, beq_iff_eq]
  have e : bit a ||| bit c = bit a ||| bit c ||| bit c := by rw [BitVec.or_assoc, BitVec.or_self]
  rw [e, and_mask3_eq_zero x a c c ha hc hc]
  simp

theorem ep_get {b : Board} (hd : PLDomain b) (t : Nat) :
    (b.colorBB b.stm.flip ||| if b.ep ≠ 0 then bit b.ep else 0).getLsbD t =
      ((b.colorBB b.stm.flip).getLsbD t || (decide (b.ep ≠ 0) && decide (t = b.ep))) := by
  by_cases h : b.ep = 0
  · simp [h]
  · obtain ⟨he, _⟩ := hd.ep h
    simp [h, bit_getLsbD _ _ he, eq_comm]

theorem test_pawn {b : Board} (hd : PLDomain b) (m : Nat) (hS : (b.colorBB b.stm).getLsbD (Move.src m) = true)
   (hT : (b.colorBB b.stm).getLsbD (Move.dst m) = false) (hp : b.pieceAt (Move.src m) = .pawn) :
    b.isPseudoLegal m = true ↔ (promoOK b (Move.src m) (Move.promo m) ∧
    (PLpush1 b (Move.src m) (Move.dst m) ∨ PLpush2 b (Move.src m) (Move.dst m) ∨ PLcapture b (Move.src m) (Move.dst m) ∨ PLep b (Move.src m) (Move.dst m))) := by
  have hf := src_lt m
  have ht := dst_lt m
  have hmid : (Move.src m + Move.dst m) / 2 < 64 := by omega
  unfold Board.isPseudoLegal
  simp only [and_bit_beq _ _ hf, and_bit_beq _ _ ht, and_bit_bne _ _ ht, and_bit_bne _ _ hf, bit_and_beq _ _ hf,  hS, hT, hp,
    relRankBB_get _ _ _ (by omega : 6 < 8) hf, relRankBB_get _ _ _ (by omega : 1 < 8) hf, and_mask2_beq _ _ _ ht hmid, ep_get hd]
  simp only [PLpush1, PLpush2, PLcapture, PLep, ahead8_iff, ahead16_iff, capGeom_iff, promoOK]
  generalize Move.src m = f at *
  generalize Move.dst m = t at *
  generalize Move.promo m = p at *
  generalize Board.absDiff (fileOf f) (fileOf t) = x
  generalize Board.absDiff (rankOf f) (rankOf t) = y
  unfold dirOK
  by_cases hD : (f < t ∧ b.stm = .black ∨ f > t ∧ b.stm = .white)
  · simp [hD]
  · by_cases h6 : relRank b.stm f = 6
    · rcases x with _ | _ | x
      · rcases y with _ | _ | _ | y <;> simp [hD, h6]
      · rcases y with _ | _ | y <;> simp [hD, h6]
      · simp [hD, h6]
    · rcases x with _ | _ | x
      · rcases y with _ | _ | _ | y <;> simp [hD, h6]
      · rcases y with _ | _ | y <;> simp [hD, h6]
      · simp [hD, h6]

theorem king_facts' : (Attacks.kingMoves 4)[6] = false ∧ (Attacks.kingMoves 4)[2] = false ∧
    (Attacks.kingMoves 60)[62] = false ∧ (Attacks.kingMoves 60)[58] = false := by decide

theorem castleBit_vals : Board.castleBit .white 0 = shortWhite ∧ Board.castleBit .white 1 = longWhite ∧
    Board.castleBit .black 0 = shortBlack ∧ Board.castleBit .black 1 = longBlack := by decide

theorem or_mask2_bne (x : BB) (a c : Nat) (ha : a < 64) (hc : c < 64) :
    ((bit a ||| bit c) &&& x != 0) = (x.getLsbD a || x.getLsbD c) := by
  have e : bit a ||| bit c = bit a ||| bit c ||| bit c := by rw [BitVec.or_assoc, BitVec.or_self]
  rw [BitVec.and_comm, Bool.eq_iff_iff, bne_iff_ne, Ne, e, and_mask3_eq_zero x a c c ha hc hc]
  cases x.getLsbD a <;> cases x.getLsbD c <;> simp

theorem or_mask3_bne (x : BB) (a c d : Nat) (ha : a < 64) (hc : c < 64) (hd : d < 64) :
    ((bit a ||| bit c ||| bit d) &&& x != 0) = (x.getLsbD a || x.getLsbD c || x.getLsbD d) := by
  rw [BitVec.and_comm, Bool.eq_iff_iff, bne_iff_ne, Ne, and_mask3_eq_zero x a c d ha hc hd]
  cases x.getLsbD a <;> cases x.getLsbD c <;> cases x.getLsbD d <;> simp

theorem test_king {b : Board} (m : Nat) (hS : (b.colorBB b.stm).getLsbD (Move.src m) = true)
   (hT : (b.colorBB b.stm).getLsbD (Move.dst m) = false) (hp : b.pieceAt (Move.src m) = .king)
   (hK : (b.pieceBB .king).getLsbD (Move.src m) = true) :
    b.isPseudoLegal m = true ↔
      ((Move.promo m = 0 ∧ (Attacks.kingMoves (Move.src m)).getLsbD (Move.dst m) = true) ∨
        PLshort b (Move.src m) (Move.dst m) (Move.promo m) ∨ PLlong b (Move.src m) (Move.dst m) (Move.promo m)) := by
  have hf := src_lt m
  have ht := dst_lt m
  unfold Board.isPseudoLegal
  simp only [and_bit_beq _ _ hf, and_bit_bne _ _ ht, hS, hT, hp,
    or_mask2_bne _ _ _ (by omega : 5 < 64) (by omega : 6 < 64), or_mask2_bne _ _ _ (by omega : 61 < 64) (by omega : 62 < 64),
    or_mask3_bne _ _ _ _ (by omega : 3 < 64) (by omega : 2 < 64) (by omega : 1 < 64),
    or_mask3_bne _ _ _ _ (by omega : 59 < 64) (by omega : 58 < 64) (by omega : 57 < 64)]
  simp only [PLshort, PLlong, hK]
  generalize Move.src m = f at *
  generalize Move.dst m = t at *
  generalize Move.promo m = p at *
  obtain ⟨k1, k2, k3, k4⟩ := king_facts'
  obtain ⟨c1, c2, c3, c4⟩ := castleBit_vals
  cases hc : b.stm
  · simp only [home, shortMask, longMask, c1, c2]
    by_cases hp0 : p = 0
    · by_cases h1 : f = 4 ∧ t = 6
      · obtain ⟨rfl, rfl⟩ := h1
        simp [hp0, k1, and_assoc]
      · by_cases h2 : f = 4 ∧ t = 2
        · obtain ⟨rfl, rfl⟩ := h2
          simp [hp0, k2, and_assoc]
        · simp [hp0, h1, h2]
          rintro (⟨a, c, _⟩ | ⟨a, c, _⟩)
          · exact absurd ⟨a, c⟩ h1
          · exact absurd ⟨a, c⟩ h2
    · simp [hp0]
  · simp only [home, shortMask, longMask, c3, c4]
    by_cases hp0 : p = 0
    · by_cases h1 : f = 60 ∧ t = 62
      · obtain ⟨rfl, rfl⟩ := h1
        simp [hp0, k3, and_assoc]
      · by_cases h2 : f = 60 ∧ t = 58
        · obtain ⟨rfl, rfl⟩ := h2
          simp [hp0, k4, and_assoc]
        · simp [hp0, h1, h2]
          rintro (⟨a, c, _⟩ | ⟨a, c, _⟩)
          · exact absurd ⟨a, c⟩ h1
          · exact absurd ⟨a, c⟩ h2
    · simp [hp0]

theorem self_occupied {b : Board} (hd : PLDomain b) (s : Nat) (hs : s < 64)
    (h : (b.colorBB b.stm).getLsbD s = true) : b.pieceAt s ≠ .none := by
  apply (wf_occupied hd.wf s hs).1
  cases hc : b.stm <;> simp_all

/-- **test ≡ set-level predicate**. -/
theorem isPseudoLegal_iff_PL {b : Board} (hd : PLDomain b) (m : Nat) :
    b.isPseudoLegal m = true ↔ PL b (Move.src m) (Move.dst m) (Move.promo m) := by
  have hf := src_lt m
  have ht := dst_lt m
  rw [PL_kind hd _ _ _ hf]
  by_cases hS : (b.colorBB b.stm).getLsbD (Move.src m) = true
  · by_cases hT : (b.colorBB b.stm).getLsbD (Move.dst m) = true
    · unfold Board.isPseudoLegal
      simp only [and_bit_beq _ _ hf, and_bit_bne _ _ ht, hS, hT]
      simp
    · have hT' : (b.colorBB b.stm).getLsbD (Move.dst m) = false := by simpa using hT
      have hne := self_occupied hd _ hf hS
      cases hp : b.pieceAt (Move.src m)
      · exact absurd hp hne
      · rw [test_pawn hd m hS hT' hp]
        simp [hS, hT', PLpawn, (wf_piece hd.wf _ hf .pawn (by decide)).2 hp]
      · unfold Board.isPseudoLegal
        simp only [and_bit_beq _ _ hf, and_bit_bne _ _ ht, hS, hT', hp]
        simp
      · unfold Board.isPseudoLegal
        simp only [and_bit_beq _ _ hf, and_bit_bne _ _ ht, hS, hT', hp]
        simp
      · unfold Board.isPseudoLegal
        simp only [and_bit_beq _ _ hf, and_bit_bne _ _ ht, hS, hT', hp]
        simp
      · unfold Board.isPseudoLegal
        simp only [and_bit_beq _ _ hf, and_bit_bne _ _ ht, hS, hT', hp]
        simp [Bool.or_comm]
      · rw [test_king m hS hT' hp ((wf_piece hd.wf _ hf .king (by decide)).2 hp)]
        simp [hS, hT']
  · have hS' : (b.colorBB b.stm).getLsbD (Move.src m) = false := by simpa using hS
    unfold Board.isPseudoLegal
    simp only [and_bit_beq _ _ hf, hS']
    simp

end ChessVerif.PL
