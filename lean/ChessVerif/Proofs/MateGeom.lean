/-
  C09, geometry of lines: a linear (omega-friendly) characterisation of strict betweenness
  (`sb_iff`), its reformulation by the four line directions (`sb_line`), and the facts about
  lines, rays and leapers that the mate/check arguments need.
-/
import ChessVerif.Proofs.MateDefs
namespace ChessVerif.Mate
open ChessVerif

def btw (x y z : Nat) : Prop := (x < y ∧ y < z) ∨ (z < y ∧ y < x)

theorem add_mul_sgn (z w x : Int) (k : Nat) :
    z = w + (k : Int) * Geometry.sgn x ↔ (x < 0 ∧ z = w - k) ∨ (x = 0 ∧ z = w) ∨ (0 < x ∧ z = w + k) := by
  unfold Geometry.sgn
  split
  · rw [Int.mul_neg, Int.mul_one]; omega
  · split
    · rw [Int.mul_one]; omega
    · rw [Int.mul_zero]; omega

/-- coordinate core of `sb_iff` -/
theorem sb_core (fa ra fb rb fu ru : Nat) (hfa : fa < 8) (hfb : fb < 8) (hfu : fu < 8) :
    ((((fa:Int) = fb ∨ (ra:Int) = rb) ∨ ((fa:Int) - fb).natAbs = ((ra:Int) - rb).natAbs) ∧
      ∃ k : Nat, 0 < k ∧ k < max ((fa:Int) - fb).natAbs ((ra:Int) - rb).natAbs ∧
        (fu:Int) = fa + (k : Int) * Geometry.sgn ((fb:Int) - fa) ∧
        (ru:Int) = ra + (k : Int) * Geometry.sgn ((rb:Int) - ra)) ↔
    ((fa = fb ∧ fu = fa ∧ btw ra ru rb) ∨
     (ra = rb ∧ ru = ra ∧ btw fa fu fb) ∨
     (fa + rb = fb + ra ∧ fu + ra = fa + ru ∧ btw fa fu fb) ∨
     (fa + ra = fb + rb ∧ fu + ru = fa + ra ∧ btw fa fu fb)) := by
  simp only [add_mul_sgn, btw]
  constructor
  · rintro ⟨hal, k, hk0, hkn, hf, hr⟩
    rcases hf with ⟨s1, e1⟩ | ⟨s1, e1⟩ | ⟨s1, e1⟩ <;> rcases hr with ⟨s2, e2⟩ | ⟨s2, e2⟩ | ⟨s2, e2⟩
    · exact Or.inr (Or.inr (Or.inl ⟨by omega, by omega, Or.inr ⟨by omega, by omega⟩⟩))
    · exact Or.inr (Or.inl ⟨by omega, by omega, Or.inr ⟨by omega, by omega⟩⟩)
    · exact Or.inr (Or.inr (Or.inr ⟨by omega, by omega, Or.inr ⟨by omega, by omega⟩⟩))
    · exact Or.inl ⟨by omega, by omega, Or.inr ⟨by omega, by omega⟩⟩
    · omega
    · exact Or.inl ⟨by omega, by omega, Or.inl ⟨by omega, by omega⟩⟩
    · exact Or.inr (Or.inr (Or.inr ⟨by omega, by omega, Or.inl ⟨by omega, by omega⟩⟩))
    · exact Or.inr (Or.inl ⟨by omega, by omega, Or.inl ⟨by omega, by omega⟩⟩)
    · exact Or.inr (Or.inr (Or.inl ⟨by omega, by omega, Or.inl ⟨by omega, by omega⟩⟩))
  · rintro (⟨h1, h2, h3 | h3⟩ | ⟨h1, h2, h3 | h3⟩ | ⟨h1, h2, h3 | h3⟩ | ⟨h1, h2, h3 | h3⟩)
    · exact ⟨by omega, ru - ra, by omega, by omega, by omega, by omega⟩
    · exact ⟨by omega, ra - ru, by omega, by omega, by omega, by omega⟩
    · exact ⟨by omega, fu - fa, by omega, by omega, by omega, by omega⟩
    · exact ⟨by omega, fa - fu, by omega, by omega, by omega, by omega⟩
    · exact ⟨by omega, fu - fa, by omega, by omega, by omega, by omega⟩
    · exact ⟨by omega, fa - fu, by omega, by omega, by omega, by omega⟩
    · exact ⟨by omega, fu - fa, by omega, by omega, by omega, by omega⟩
    · exact ⟨by omega, fa - fu, by omega, by omega, by omega, by omega⟩

theorem sb_iff (a b u : Nat) (ha : a < 64) (hb : b < 64) :
  (SB a b).getLsbD u = true ↔ u < 64 ∧
    ((fileOf a = fileOf b ∧ fileOf u = fileOf a ∧ btw (rankOf a) (rankOf u) (rankOf b)) ∨
     (rankOf a = rankOf b ∧ rankOf u = rankOf a ∧ btw (fileOf a) (fileOf u) (fileOf b)) ∨
     (fileOf a + rankOf b = fileOf b + rankOf a ∧ fileOf u + rankOf a = fileOf a + rankOf u ∧ btw (fileOf a) (fileOf u) (fileOf b)) ∨
     (fileOf a + rankOf a = fileOf b + rankOf b ∧ fileOf u + rankOf u = fileOf a + rankOf a ∧ btw (fileOf a) (fileOf u) (fileOf b))) := by
  rw [AttacksProofs.mem_strictlyBetween a b u ha hb]
  by_cases hu : u < 64
  · have := sb_core (fileOf a) (rankOf a) (fileOf b) (rankOf b) (fileOf u) (rankOf u)
      (by unfold fileOf; omega) (by unfold fileOf; omega) (by unfold fileOf; omega)
    rw [← this]
    simp only [Geometry.aligned, Bool.or_eq_true, beq_iff_eq, Geometry.fileDist, Geometry.rankDist,
      Geometry.fileI, Geometry.rankI, fileOf, rankOf, hu, true_and]
  · simp [hu]

/-! ### the four line directions -/

inductive Line | file | rank | diag | anti
  deriving DecidableEq

/-- the quantity that is constant along a line of the given direction. -/
def Line.inv : Line → Nat → Int
  | .file, s => fileOf s
  | .rank, s => rankOf s
  | .diag, s => (fileOf s : Int) - rankOf s
  | .anti, s => (fileOf s : Int) + rankOf s
/-- the coordinate that orders the squares of a line. -/
def Line.key : Line → Nat → Nat
  | .file, s => rankOf s
  | _, s => fileOf s
def Line.straight : Line → Bool
  | .file | .rank => true
  | _ => false

/-- `a` and `b` lie on a common line of direction `i`. -/
def On (i : Line) (a b : Nat) : Prop := i.inv a = i.inv b

theorem On.symm {i : Line} {a b : Nat} (h : On i a b) : On i b a := Eq.symm h
theorem On.trans {i : Line} {a b c : Nat} (h : On i a b) (h' : On i b c) : On i a c := Eq.trans h h'

/-- a square of a line is determined by its key. -/
theorem On.eq_of_key {i : Line} {a b : Nat} (h : On i a b) (hk : i.key a = i.key b) : a = b := by
  cases i <;> simp only [On, Line.inv, Line.key, fileOf, rankOf] at h hk <;> omega

/-- two distinct squares lie on at most one common line. -/
theorem On.unique {i j : Line} {a b : Nat} (h : On i a b) (h' : On j a b) (hne : a ≠ b) : i = j := by
  cases i <;> cases j <;> first | rfl | (exfalso; simp only [On, Line.inv, fileOf, rankOf] at h h'; omega)

theorem On.rook {i : Line} {a b : Nat} (h : On i a b) (hne : a ≠ b) : rookGeo a b ↔ i.straight = true := by
  cases i <;> simp only [On, Line.inv, fileOf, rankOf] at h <;>
    simp only [rookGeo, Line.straight, fileOf, rankOf, Bool.false_eq_true, iff_true, iff_false] <;> omega

theorem On.bish {i : Line} {a b : Nat} (h : On i a b) (hne : a ≠ b) : bishGeo a b ↔ i.straight = false := by
  cases i <;> simp only [On, Line.inv, fileOf, rankOf] at h <;>
    simp only [bishGeo, Line.straight, Geometry.fileDist, Geometry.rankDist, Geometry.fileI, Geometry.rankI,
      Bool.true_eq_false, iff_true, iff_false] <;> omega

theorem rookGeo_on {a b : Nat} (h : rookGeo a b) : ∃ i, i.straight = true ∧ On i a b := by
  rcases h with ⟨h | h, _⟩
  · exact ⟨.file, rfl, by simp only [On, Line.inv, h]⟩
  · exact ⟨.rank, rfl, by simp only [On, Line.inv, h]⟩

theorem bishGeo_on {a b : Nat} (h : bishGeo a b) : ∃ i, i.straight = false ∧ On i a b := by
  have h1 := h.1
  simp only [Geometry.fileDist, Geometry.rankDist, Geometry.fileI, Geometry.rankI] at h1
  by_cases hd : (fileOf a : Int) - rankOf a = (fileOf b : Int) - rankOf b
  · exact ⟨.diag, rfl, hd⟩
  · refine ⟨.anti, rfl, ?_⟩
    simp only [On, Line.inv, fileOf, rankOf] at hd ⊢; omega

/-- **betweenness by lines**: `u` is strictly between `a` and `b` iff all three are on a common line
    and the key of `u` is strictly between the keys of `a` and `b`. -/
theorem sb_line (a b u : Nat) (ha : a < 64) (hb : b < 64) :
    (SB a b).getLsbD u = true ↔
      u < 64 ∧ ∃ i : Line, On i a b ∧ On i a u ∧ btw (i.key a) (i.key u) (i.key b) := by
  rw [sb_iff a b u ha hb]
  constructor
  · rintro ⟨hu, h | h | h | h⟩
    · exact ⟨hu, .file, by simp only [On, Line.inv]; omega, by simp only [On, Line.inv]; omega, h.2.2⟩
    · exact ⟨hu, .rank, by simp only [On, Line.inv]; omega, by simp only [On, Line.inv]; omega, h.2.2⟩
    · exact ⟨hu, .diag, by simp only [On, Line.inv]; omega, by simp only [On, Line.inv]; omega, h.2.2⟩
    · exact ⟨hu, .anti, by simp only [On, Line.inv]; omega, by simp only [On, Line.inv]; omega, h.2.2⟩
  · rintro ⟨hu, i, h1, h2, h3⟩
    refine ⟨hu, ?_⟩
    cases i <;> simp only [On, Line.inv, Line.key] at h1 h2 h3
    · exact Or.inl ⟨by omega, by omega, h3⟩
    · exact Or.inr (Or.inl ⟨by omega, by omega, h3⟩)
    · exact Or.inr (Or.inr (Or.inl ⟨by omega, by omega, h3⟩))
    · exact Or.inr (Or.inr (Or.inr ⟨by omega, by omega, h3⟩))

theorem btw_ne {x y z : Nat} (h : btw x y z) : y ≠ x ∧ y ≠ z ∧ x ≠ z := by unfold btw at h; omega
theorem btw_symm {x y z : Nat} : btw x y z ↔ btw z y x := by unfold btw; omega

/-! ### basic facts -/

theorem sb_lt {a b u : Nat} (h : (SB a b).getLsbD u = true) : u < 64 := BitVec.lt_of_getLsbD h

theorem sb_ne {a b u : Nat} (ha : a < 64) (hb : b < 64) (h : (SB a b).getLsbD u = true) :
    u ≠ a ∧ u ≠ b ∧ a ≠ b := by
  obtain ⟨_, i, _, _, h3⟩ := (sb_line a b u ha hb).1 h
  obtain ⟨n1, n2, n3⟩ := btw_ne h3
  exact ⟨fun e => n1 (e ▸ rfl), fun e => n2 (e ▸ rfl), fun e => n3 (e ▸ rfl)⟩

theorem sb_comm' {a b : Nat} (ha : a < 64) (hb : b < 64) : SB a b = SB b a :=
  Bridge.strictlyBetween_comm a b ha hb

/-! ### symmetry of the geometric relations -/

theorem rookGeo_symm {a t : Nat} : rookGeo a t ↔ rookGeo t a := by
  unfold rookGeo; omega
theorem bishGeo_symm {a t : Nat} : bishGeo a t ↔ bishGeo t a := by
  simp only [bishGeo, Geometry.fileDist, Geometry.rankDist]; omega
theorem kingGeo_symm {a t : Nat} : kingGeo a t ↔ kingGeo t a := by
  simp only [kingGeo, Geometry.fileDist, Geometry.rankDist]; omega
theorem knightGeo_symm {a t : Nat} : knightGeo a t ↔ knightGeo t a := by
  simp only [knightGeo, Geometry.fileDist, Geometry.rankDist]; omega

/-! ### lines and the in-between set -/

/-- all the data of a membership `u ∈ SB a b`. -/
theorem sb_on {a b u : Nat} (ha : a < 64) (hb : b < 64) (h : (SB a b).getLsbD u = true) :
    ∃ i : Line, On i a b ∧ On i a u ∧ On i u b ∧ btw (i.key a) (i.key u) (i.key b) ∧
      u < 64 ∧ u ≠ a ∧ u ≠ b ∧ a ≠ b := by
  obtain ⟨hu, i, h1, h2, h3⟩ := (sb_line a b u ha hb).1 h
  obtain ⟨n1, n2, n3⟩ := sb_ne ha hb h
  exact ⟨i, h1, h2, h2.symm.trans h1, h3, hu, n1, n2, n3⟩

theorem on_geo {i : Line} {a b : Nat} (h : On i a b) (hne : a ≠ b) : rookGeo a b ∨ bishGeo a b := by
  cases hs : i.straight
  · exact Or.inr ((h.bish hne).2 hs)
  · exact Or.inl ((h.rook hne).2 hs)

theorem sb_geo {a b u : Nat} (ha : a < 64) (hb : b < 64) (h : (SB a b).getLsbD u = true) :
    rookGeo a b ∨ bishGeo a b := by
  obtain ⟨i, h1, _, _, _, _, _, _, n3⟩ := sb_on ha hb h
  exact on_geo h1 n3

theorem not_aligned_sb {a b : Nat} (ha : a < 64) (hb : b < 64) (hr : ¬ rookGeo a b) (hbi : ¬ bishGeo a b)
    (u : Nat) : (SB a b).getLsbD u = false := by
  cases h : (SB a b).getLsbD u
  · rfl
  · rcases sb_geo ha hb h with h' | h'
    · exact absurd h' hr
    · exact absurd h' hbi

theorem rook_bish_excl {a t : Nat} (hr : rookGeo a t) : ¬ bishGeo a t := by
  intro hb
  obtain ⟨i, hi, h1⟩ := rookGeo_on hr
  obtain ⟨j, hj, h2⟩ := bishGeo_on hb
  have := h1.unique h2 hr.2
  subst this
  rw [hi] at hj; exact absurd hj (by decide)

theorem sb_geo_left {K A u : Nat} (hK : K < 64) (hA : A < 64) (h : (SB K A).getLsbD u = true) :
    (rookGeo K A ↔ rookGeo K u) ∧ (bishGeo K A ↔ bishGeo K u) := by
  obtain ⟨i, h1, h2, _, _, _, n1, _, n3⟩ := sb_on hK hA h
  exact ⟨(h1.rook n3).trans (h2.rook (Ne.symm n1)).symm, (h1.bish n3).trans (h2.bish (Ne.symm n1)).symm⟩

theorem sb_geo_right {K A u : Nat} (hK : K < 64) (hA : A < 64) (h : (SB K A).getLsbD u = true) :
    (rookGeo K A ↔ rookGeo u A) ∧ (bishGeo K A ↔ bishGeo u A) := by
  obtain ⟨i, h1, _, h3, _, _, _, n2, n3⟩ := sb_on hK hA h
  exact ⟨(h1.rook n3).trans (h3.rook n2).symm, (h1.bish n3).trans (h3.bish n2).symm⟩

/-- two squares behind which the same square `u` is seen from `K` are on one ray from `K`. -/
theorem sb_same_ray {K A B u : Nat} (hK : K < 64) (hA : A < 64) (hB : B < 64)
    (h1 : (SB K A).getLsbD u = true) (h2 : (SB K B).getLsbD u = true) :
    A = B ∨ (SB K B).getLsbD A = true ∨ (SB K A).getLsbD B = true := by
  obtain ⟨i, a1, a2, a3, a4, hu, n1, n2, n3⟩ := sb_on hK hA h1
  obtain ⟨j, b1, b2, b3, b4, _, _, m2, m3⟩ := sb_on hK hB h2
  have := a2.unique b2 (Ne.symm n1)
  subst this
  have hAB : (SB K B).getLsbD A = true ↔ btw (i.key K) (i.key A) (i.key B) :=
    ⟨fun h => by
      obtain ⟨j, c1, c2, _, c4, _⟩ := sb_on hK hB h
      have := b1.unique c1 m3
      subst this; exact c4,
     fun h => (sb_line K B A hK hB).2 ⟨hA, i, b1, a1, h⟩⟩
  have hBA : (SB K A).getLsbD B = true ↔ btw (i.key K) (i.key B) (i.key A) :=
    ⟨fun h => by
      obtain ⟨j, c1, c2, _, c4, _⟩ := sb_on hK hA h
      have := a1.unique c1 n3
      subst this; exact c4,
     fun h => (sb_line K A B hK hA).2 ⟨hB, i, a1, b1, h⟩⟩
  rw [hAB, hBA]
  by_cases heq : i.key A = i.key B
  · exact Or.inl ((a1.symm.trans b1).eq_of_key heq)
  · right; unfold btw at *; omega

/-- a square `u` between `K` and `A` splits the segment. -/
theorem sb_split {K A u : Nat} (hK : K < 64) (hA : A < 64) (h : (SB K A).getLsbD u = true) (v : Nat) :
    (SB K A).getLsbD v = true ↔
      ((SB K u).getLsbD v = true ∨ v = u ∨ (SB u A).getLsbD v = true) := by
  obtain ⟨i, a1, a2, a3, a4, hu, n1, n2, n3⟩ := sb_on hK hA h
  constructor
  · intro hv
    obtain ⟨j, b1, b2, b3, b4, hv64, _, _, _⟩ := sb_on hK hA hv
    have := a1.unique b1 n3
    subst this
    rcases Nat.lt_trichotomy (i.key v) (i.key u) with hlt | heq | hgt
    · rcases a4 with a4 | a4
      · refine Or.inl ((sb_line K u v hK hu).2 ⟨hv64, i, a2, b2, ?_⟩); unfold btw at *; omega
      · refine Or.inr (Or.inr ((sb_line u A v hu hA).2 ⟨hv64, i, a3, a2.symm.trans b2, ?_⟩)); unfold btw at *; omega
    · exact Or.inr (Or.inl ((b2.symm.trans a2).eq_of_key heq))
    · rcases a4 with a4 | a4
      · refine Or.inr (Or.inr ((sb_line u A v hu hA).2 ⟨hv64, i, a3, a2.symm.trans b2, ?_⟩)); unfold btw at *; omega
      · refine Or.inl ((sb_line K u v hK hu).2 ⟨hv64, i, a2, b2, ?_⟩); unfold btw at *; omega
  · rintro (hv | rfl | hv)
    · obtain ⟨j, b1, b2, b3, b4, hv64, _, _, _⟩ := sb_on hK hu hv
      have := a2.unique b1 (Ne.symm n1)
      subst this
      refine (sb_line K A v hK hA).2 ⟨hv64, i, a1, b2, ?_⟩; unfold btw at *; omega
    · exact h
    · obtain ⟨j, b1, b2, b3, b4, hv64, _, _, _⟩ := sb_on hu hA hv
      have := a3.unique b1 n2
      subst this
      refine (sb_line K A v hK hA).2 ⟨hv64, i, a1, a2.trans b2, ?_⟩; unfold btw at *; omega

/-- two distinct squares of a closed segment whose one member is interior are aligned the way the
    segment is. -/
theorem sb_pair_geo {K X s t : Nat} (hK : K < 64) (hX : X < 64) (hs : (SB K X).getLsbD s = true)
    (ht : (SB K X).getLsbD t = true ∨ t = X ∨ t = K) (hne : s ≠ t) :
    (rookGeo K X → rookGeo s t) ∧ (bishGeo K X → bishGeo s t) := by
  obtain ⟨i, a1, a2, a3, a4, _, n1, n2, n3⟩ := sb_on hK hX hs
  have hst : On i s t := by
    rcases ht with ht | rfl | rfl
    · obtain ⟨j, b1, b2, _⟩ := sb_on hK hX ht
      have := a1.unique b1 n3
      subst this
      exact a2.symm.trans b2
    · exact a3
    · exact a2.symm
  exact ⟨fun h => (hst.rook hne).2 ((a1.rook n3).1 h), fun h => (hst.bish hne).2 ((a1.bish n3).1 h)⟩

/-! ### leapers -/

theorem knight_not_line {a t : Nat} (h : knightGeo a t) : ¬ rookGeo a t ∧ ¬ bishGeo a t := by
  simp only [knightGeo, rookGeo, bishGeo, Geometry.fileDist, Geometry.rankDist, Geometry.fileI, Geometry.rankI,
    fileOf, rankOf] at *
  omega

theorem knight_sb_empty {a t : Nat} (ha : a < 64) (ht : t < 64) (h : knightGeo a t) (u : Nat) :
    (SB a t).getLsbD u = false :=
  not_aligned_sb ha ht (knight_not_line h).1 (knight_not_line h).2 u

theorem king_line {a t : Nat} (ha : a < 64) (ht : t < 64) (h : kingGeo a t) :
    (rookGeo a t ∨ bishGeo a t) ∧ ∀ u, (SB a t).getLsbD u = false := by
  constructor
  · simp only [kingGeo, rookGeo, bishGeo, Geometry.fileDist, Geometry.rankDist, Geometry.fileI, Geometry.rankI,
      fileOf, rankOf] at *
    omega
  · intro u
    cases hu : (SB a t).getLsbD u
    · rfl
    · exfalso
      obtain ⟨_, h'⟩ := (sb_iff a t u ha ht).1 hu
      simp only [kingGeo, Geometry.fileDist, Geometry.rankDist, Geometry.fileI, Geometry.rankI, fileOf, rankOf, btw] at *
      rcases h' with h' | h' | h' | h' <;> omega

theorem capGeom_geo (c : Color) {a t : Nat} (h : PL.capGeom c a t) :
    bishGeo a t ∧ kingGeo a t := by
  cases c <;>
  · simp only [PL.capGeom, kingGeo, bishGeo, Geometry.fileDist, Geometry.rankDist, Geometry.fileI, Geometry.rankI] at *
    omega

/-! ### en-passant geometry -/

/-- the square `t` behind a pawn on `P` is a knight's move away from the squares the pawn attacks. -/
theorem ep_knight {c : Color} {t P K : Nat} (h1 : PL.ahead c t 8 P) (h2 : PL.capGeom c P K) : knightGeo t K := by
  cases c <;>
  · simp only [PL.ahead, PL.capGeom, knightGeo, Geometry.fileDist, Geometry.rankDist, Geometry.fileI, Geometry.rankI] at *
    omega

theorem ep_not_between {c : Color} {t P K : Nat} (hK : K < 64)
    (h1 : PL.ahead c t 8 P) (h2 : PL.capGeom c P K) {B : Nat} (hB : B < 64) : (SB B K).getLsbD t = false := by
  cases h : (SB B K).getLsbD t
  · rfl
  · exfalso
    have hk := knight_not_line (ep_knight h1 h2)
    have hr := sb_geo_right hB hK h
    rcases sb_geo hB hK h with h' | h'
    · exact hk.1 (hr.1.1 h')
    · exact hk.2 (hr.2.1 h')

theorem ep_file_between {c : Color} {orig t P A K : Nat} (hA : A < 64) (hK : K < 64)
    (h1 : PL.ahead c orig 8 t) (h2 : PL.ahead c t 8 P)
    (ho : (SB A K).getLsbD orig = true) (ht : (SB A K).getLsbD t = true) (hPA : P ≠ A) (hPK : P ≠ K) :
    (SB A K).getLsbD P = true := by
  obtain ⟨i, a1, a2, a3, a4, ho64, _, _, n3⟩ := sb_on hA hK ho
  obtain ⟨j, b1, b2, b3, b4, ht64, _, _, _⟩ := sb_on hA hK ht
  have := a1.unique b1 n3
  subst this
  have hot : On .file orig t := by
    cases c <;> simp only [PL.ahead] at h1 <;> simp only [On, Line.inv, fileOf] <;> omega
  have hne : orig ≠ t := by cases c <;> simp only [PL.ahead] at h1 <;> omega
  have := (a2.symm.trans b2).unique hot hne
  subst this
  rw [sb_line A K P hA hK]
  simp only [On, Line.inv, Line.key, fileOf, rankOf, btw] at *
  cases c <;> simp only [PL.ahead] at h1 h2
  · exact ⟨by omega, .file, by dsimp only [On, Line.inv, Line.key]; omega⟩
  · exact ⟨by omega, .file, by dsimp only [On, Line.inv, Line.key]; omega⟩

end ChessVerif.Mate
