/-
  Soft node limit ≡ hard node budget, part 2: the alphaBeta pass of the simulation lemma
  (see `SearchSoftHardQ.lean` for the statement proved of every piece).
-/
import ChessVerif.Proofs.SearchSoftHardQ

namespace ChessVerif
namespace Search

variable {σ π : Type}

attribute [local instance] trivialPsInv

/-- `ch2` reproduces every run of `ch1` that ends within `N` nodes. -/
def ABSim (N : Int) (ch1 ch2 : Child σ) : Prop :=
  ∀ a b d ply nt s, NM s (ch1 a b d ply nt s).2 ∧ ((ch1 a b d ply nt s).2.nodes ≤ N → ch2 a b d ply nt s = ch1 a b d ply nt s)

theorem callChild_sim {N : Int} {ch1 ch2 : Child σ} (hc : ABSim N ch1 ch2) (a b : Score) (d ply : Int) (nt : NodeType)
    (s : St σ) :
    NM s (callChild ch1 a b d ply nt s).2 ∧
      ((callChild ch1 a b d ply nt s).2.nodes ≤ N → callChild ch2 a b d ply nt s = callChild ch1 a b d ply nt s) := by
  have := hc a b d ply nt s
  refine ⟨this.1, fun hle => ?_⟩
  simp only [callChild]
  rw [this.2 hle]

theorem searchRest_sim {N : Int} {ch1 ch2 : Child σ} (hc : ABSim N ch1 ch2) (x : ABCtx) (l : ABLoop π) (next : NodeType)
    (s : St σ) :
    NM s (searchRest ch1 x l next s).2 ∧
      ((searchRest ch1 x l next s).2.nodes ≤ N → searchRest ch2 x l next s = searchRest ch1 x l next s) := by
  simp only [searchRest]
  have c2 := callChild_sim hc (wrapS16 (neg l.alpha - 1)) (neg l.alpha) (wrapS8 (x.d - 1)) (wrapS8 (x.ply + 1)) next s
  generalize callChild ch1 (wrapS16 (neg l.alpha - 1)) (neg l.alpha) (wrapS8 (x.d - 1)) (wrapS8 (x.ply + 1)) next s = r2
    at c2 ⊢
  by_cases h1 : r2.1 ≤ l.alpha
  · rw [if_pos h1]
    refine ⟨c2.1, fun hle => ?_⟩
    rw [c2.2 hle, if_pos h1]
  · rw [if_neg h1]
    by_cases h2 : x.beta = wrapS16 (l.alpha + 1)
    · rw [if_pos h2]
      refine ⟨c2.1, fun hle => ?_⟩
      rw [c2.2 hle, if_neg h1, if_pos h2]
    · rw [if_neg h2]
      have c3 := callChild_sim hc (neg x.beta) (neg l.alpha) (wrapS8 (x.d - 1)) (wrapS8 (x.ply + 1)) next r2.2
      refine ⟨c2.1.trans c3.1, fun hle => ?_⟩
      rw [c2.2 (Int.le_trans c3.1.2 hle), if_neg h1, if_neg h2]
      exact c3.2 hle

theorem searchMove_sim (c : Comp σ π) {N : Int} {ch1 ch2 : Child σ} (hc : ABSim N ch1 ch2) (x : ABCtx) (l : ABLoop π)
    (next : NodeType) (s : St σ) :
    NM s (searchMove c ch1 x l next s).2 ∧
      ((searchMove c ch1 x l next s).2.nodes ≤ N → searchMove c ch2 x l next s = searchMove c ch1 x l next s) := by
  simp only [searchMove]
  split
  · split
    · have c1 := callChild_sim hc (wrapS16 (neg l.alpha - 1)) (neg l.alpha) (c.lmr x.d (l.moveCnt - 1) x.improving x.nt)
        (wrapS8 (x.ply + 1)) next s
      generalize callChild ch1 (wrapS16 (neg l.alpha - 1)) (neg l.alpha) (c.lmr x.d (l.moveCnt - 1) x.improving x.nt)
        (wrapS8 (x.ply + 1)) next s = r1 at c1 ⊢
      by_cases h1 : r1.1 ≤ l.alpha
      · rw [if_pos h1]
        refine ⟨c1.1, fun hle => ?_⟩
        rw [c1.2 hle, if_pos h1]
      · rw [if_neg h1]
        have c2 := searchRest_sim hc x l next r1.2
        refine ⟨c1.1.trans c2.1, fun hle => ?_⟩
        rw [c1.2 (Int.le_trans c2.1.2 hle), if_neg h1]
        exact c2.2 hle
    · split
      · exact ⟨NM.refl s, fun _ => rfl⟩
      · exact searchRest_sim hc x l next s
  · exact callChild_sim hc _ _ _ _ _ s

theorem abAfter_eq (c : Comp σ π) {L1 L2 : Limits} {N : Int} (h : SoftHard L1 L2 N) (x : ABCtx) (m : Move)
    (r : Board.Reverse) (l : ABLoop π) (value : Score) (s : St σ) :
    abAfter c L2 x m r l value s = abAfter c L1 x m r l value s := by
  simp only [abAfter, h.abort_eq]

theorem abAfter_nm (c : Comp σ π) (L : Limits) (x : ABCtx) (m : Move) (r : Board.Reverse) (l : ABLoop π)
    (value : Score) (s : St σ) : NM s (abAfter c L x m r l value s).2 := by
  simp only [abAfter]
  have hf : NM s (abort L (s.setBoard (s.board.undoMove m r)).pop).2 :=
    (abort_frame L (s.setBoard (s.board.undoMove m r)).pop).mono.nm
  generalize abort L (s.setBoard (s.board.undoMove m r)).pop = as at hf ⊢
  split
  · exact hf
  · split
    · split
      · exact hf
      · split <;> exact hf
    · split <;> exact hf

theorem abLoop_sim (c : Comp σ π) {L1 L2 : Limits} {N : Int} (h : SoftHard L1 L2 N) {ch1 ch2 : Child σ}
    (hc : ABSim N ch1 ch2) (x : ABCtx) :
    ∀ (n : Nat) (l : ABLoop π) (s : St σ),
      NM s (abLoop c L1 ch1 x n l s).2 ∧
        ((abLoop c L1 ch1 x n l s).2.nodes ≤ N → abLoop c L2 ch2 x n l s = abLoop c L1 ch1 x n l s) := by
  intro n
  induction n with
  | zero => intro l s; exact ⟨NM.of_eq rfl rfl, fun _ => rfl⟩
  | succ n ih =>
    intro l s
    simp only [abLoop]
    split
    · exact ⟨NM.refl s, fun _ => rfl⟩
    · next m pk hpick =>
      split
      · have := ih { l with pick := pk, yielded := m :: l.yielded }
          (s.setBoard ((s.board.makeMove c.keys m).1.undoMove m (s.board.makeMove c.keys m).2))
        exact ⟨(NM.of_eq rfl rfl).trans this.1, this.2⟩
      · rw [abAfter_eq c h]
        generalize abEnter { l with pick := pk, yielded := m :: l.yielded } (s.board.pieceAt (s.board.captureSq m)) m = l2
        have hsm := searchMove_sim c hc x l2 (nextNodeType x.nt l2.moveCnt)
          ((s.setBoard (s.board.makeMove c.keys m).1).push
            { piece := s.board.pieceAt (Move.src m), to := Move.dst m, score := x.staticEval })
        generalize searchMove c ch1 x l2 (nextNodeType x.nt l2.moveCnt)
          ((s.setBoard (s.board.makeMove c.keys m).1).push
            { piece := s.board.pieceAt (Move.src m), to := Move.dst m, score := x.staticEval }) = r1 at hsm ⊢
        have ha := abAfter_nm c L1 x m (s.board.makeMove c.keys m).2 l2 r1.1 r1.2
        generalize ho : abAfter c L1 x m (s.board.makeMove c.keys m).2 l2 r1.1 r1.2 = o at ha ⊢
        have hso : NM s o.2 := ((NM.of_eq rfl rfl).trans hsm.1).trans ha
        obtain ⟨st, s'⟩ := o
        cases st with
        | ret v =>
          refine ⟨hso, fun hle => ?_⟩
          rw [hsm.2 (Int.le_trans ha.2 hle), ho]
        | brk l' =>
          refine ⟨hso, fun hle => ?_⟩
          rw [hsm.2 (Int.le_trans ha.2 hle), ho]
        | cont l' =>
          have hi := ih l' s'
          refine ⟨hso.trans hi.1, fun hle => ?_⟩
          have hle' : s'.nodes ≤ N := Int.le_trans hi.1.2 hle
          rw [hsm.2 (Int.le_trans ha.2 hle'), ho]
          exact hi.2 hle

theorem nullMove_sim (c : Comp σ π) {N : Int} {ch1 ch2 : Child σ} (hc : ABSim N ch1 ch2) (beta : Score) (d ply : Int)
    (se : Score) (s : St σ) :
    NM s (nullMove c ch1 beta d ply se s).2 ∧
      ((nullMove c ch1 beta d ply se s).2.nodes ≤ N → nullMove c ch2 beta d ply se s = nullMove c ch1 beta d ply se s) := by
  simp only [nullMove]
  have cc := callChild_sim hc (neg beta) (wrapS16 (neg beta + 1)) (c.nmpDepth d se beta) (wrapS8 (ply + 1)) .cut
    (s.setBoard (s.board.makeNull c.keys).1)
  generalize callChild ch1 (neg beta) (wrapS16 (neg beta + 1)) (c.nmpDepth d se beta) (wrapS8 (ply + 1)) .cut
    (s.setBoard (s.board.makeNull c.keys).1) = r at cc ⊢
  have hn : NM s (r.2.setBoard (r.2.board.undoNull (s.board.makeNull c.keys).2)) :=
    ((NM.of_eq rfl rfl).trans cc.1).trans (NM.of_eq rfl rfl)
  by_cases h1 : r.1 ≥ beta
  · rw [if_pos h1]
    refine ⟨hn, fun hle => ?_⟩
    rw [cc.2 hle, if_pos h1]
  · rw [if_neg h1]
    refine ⟨hn, fun hle => ?_⟩
    rw [cc.2 hle, if_neg h1]

theorem abMoves_sim (c : Comp σ π) {L1 L2 : Limits} {N : Int} (h : SoftHard L1 L2 N) {ch1 ch2 : Child σ}
    (hc : ABSim N ch1 ch2) (alpha beta : Score) (d ply : Int) (nt : NodeType) (inCheck improving : Bool) (se : Score)
    (hm : Move) (s : St σ) :
    NM s (abMoves c L1 ch1 alpha beta d ply nt inCheck improving se hm s).2 ∧
      ((abMoves c L1 ch1 alpha beta d ply nt inCheck improving se hm s).2.nodes ≤ N →
        abMoves c L2 ch2 alpha beta d ply nt inCheck improving se hm s =
          abMoves c L1 ch1 alpha beta d ply nt inCheck improving se hm s) := by
  simp only [abMoves]
  generalize ABCtx.mk alpha beta (if c.iir nt d hm then wrapS8 (d - 1) else d) ply nt inCheck improving se = x
  have hq := abLoop_sim c h hc x ((MoveGen.gen s.board).length + 1)
    { alpha := alpha, bestMove := 0, hasLegal := false, failLow := true, maxim := -Inf - 1, moveCnt := 0, quietCnt := 0,
      pick := c.pickInit s.board hm, yielded := [] } s.pushFrame
  generalize abLoop c L1 ch1 x ((MoveGen.gen s.board).length + 1)
    { alpha := alpha, bestMove := 0, hasLegal := false, failLow := true, maxim := -Inf - 1, moveCnt := 0, quietCnt := 0,
      pick := c.pickInit s.board hm, yielded := [] } s.pushFrame = r at hq ⊢
  have hn : NM s r.2 := (NM.of_eq rfl rfl).trans hq.1
  obtain ⟨f, s'⟩ := r
  cases f with
  | ret v =>
    refine ⟨hn.trans (NM.of_eq rfl rfl), fun hle => ?_⟩
    rw [hq.2 hle]
  | done l' =>
    refine ⟨hn.trans (NM.of_eq rfl rfl), fun hle => ?_⟩
    rw [hq.2 hle]

theorem abPrune_sim (c : Comp σ π) {L1 L2 : Limits} {N : Int} (h : SoftHard L1 L2 N) {ch1 ch2 : Child σ}
    (hc : ABSim N ch1 ch2) (alpha beta : Score) (d ply : Int) (nt : NodeType) (inCheck improving : Bool) (se : Score)
    (hm : Move) (s : St σ) :
    NM s (abPrune c L1 ch1 alpha beta d ply nt inCheck improving se hm s).2 ∧
      ((abPrune c L1 ch1 alpha beta d ply nt inCheck improving se hm s).2.nodes ≤ N →
        abPrune c L2 ch2 alpha beta d ply nt inCheck improving se hm s =
          abPrune c L1 ch1 alpha beta d ply nt inCheck improving se hm s) := by
  simp only [abPrune]
  split
  · exact ⟨NM.of_eq rfl rfl, fun _ => rfl⟩
  · split
    · have hn := nullMove_sim c hc beta d ply se s
      generalize nullMove c ch1 beta d ply se s = nm at hn ⊢
      obtain ⟨o, s'⟩ := nm
      cases o with
      | some v =>
        refine ⟨hn.1, fun hle => ?_⟩
        rw [hn.2 hle]
      | none =>
        have hmv := abMoves_sim c h hc alpha beta d ply nt inCheck improving se hm s'
        refine ⟨hn.1.trans hmv.1, fun hle => ?_⟩
        rw [hn.2 (Int.le_trans hmv.1.2 hle)]
        exact hmv.2 hle
    · exact abMoves_sim c h hc alpha beta d ply nt inCheck improving se hm s

theorem abBody_sim (c : Comp σ π) {L1 L2 : Limits} {N : Int} (h : SoftHard L1 L2 N) {ch1 ch2 : Child σ}
    (hc : ABSim N ch1 ch2) (alpha beta : Score) (d ply : Int) (nt : NodeType) (s : St σ) :
    NM s (abBody c L1 ch1 alpha beta d ply nt s).2 ∧
      ((abBody c L1 ch1 alpha beta d ply nt s).2.nodes ≤ N →
        abBody c L2 ch2 alpha beta d ply nt s = abBody c L1 ch1 alpha beta d ply nt s) := by
  simp only [abBody]
  split
  · exact ⟨NM.refl s, fun _ => rfl⟩
  · exact abPrune_sim c h hc alpha beta d ply nt _ _ _ _ s

/-- `alphaBeta` (interior node) after the node count. -/
def abRest (c : Comp σ π) (L : Limits) (fuel : Nat) (alpha beta : Score) (d ply : Int) (nt : NodeType) (s1 : St σ) :
    Score × St σ :=
  let as := abort L { s1 with abNodes := s1.abNodes + 1 }
  if as.1 then (Inv, as.2) else
  let s := as.2
  let tfCnt : Int := s.board.threefold
  if s.board.fifty ≥ 100 ∨ tfCnt ≥ 3 - min ply 1 then (0, s) else
  abBody c L (alphaBeta c L fuel) alpha beta d ply nt s

theorem alphaBeta_succ (c : Comp σ π) (L : Limits) (fuel : Nat) (alpha beta : Score) (d ply : Int) (nt : NodeType)
    (s : St σ) :
    alphaBeta c L (fuel + 1) alpha beta d ply nt s =
      if d = 0 ∨ ply ≥ maxPlies - 1 then quiescence c L (fuel + 1) alpha beta ply (s.setPv (s.pv.setNull ply.toNat))
      else abRest c L fuel alpha beta d ply nt (incrementNodes L (s.setPv (s.pv.setNull ply.toNat))) := rfl

theorem abRest_sim (c : Comp σ π) {L1 L2 : Limits} {N : Int} (h : SoftHard L1 L2 N) (fuel : Nat)
    (ih : ABSim N (alphaBeta c L1 fuel) (alphaBeta c L2 fuel)) (alpha beta : Score) (d ply : Int) (nt : NodeType)
    (s : St σ) :
    NM s (abRest c L1 fuel alpha beta d ply nt s).2 ∧
      ((abRest c L1 fuel alpha beta d ply nt s).2.nodes ≤ N →
        abRest c L2 fuel alpha beta d ply nt s = abRest c L1 fuel alpha beta d ply nt s) := by
  simp only [abRest, h.abort_eq]
  have ha : NM s (abort L1 { s with abNodes := s.abNodes + 1 }).2 :=
    (NM.of_eq rfl rfl).trans (abort_frame L1 { s with abNodes := s.abNodes + 1 }).mono.nm
  generalize abort L1 { s with abNodes := s.abNodes + 1 } = as at ha ⊢
  split
  · exact ⟨ha, fun _ => rfl⟩
  · split
    · exact ⟨ha, fun _ => rfl⟩
    · have hb := abBody_sim c h ih alpha beta d ply nt as.2
      exact ⟨ha.trans hb.1, hb.2⟩

/-- The simulation lemma for `alphaBeta`: nodes never decrease, and a run without hard budget that
    ends within `N` nodes is reproduced exactly under the hard budget `N`. -/
theorem alphaBeta_sim (c : Comp σ π) {L1 L2 : Limits} {N : Int} (h : SoftHard L1 L2 N) (fuel : Nat) :
    ABSim N (alphaBeta c L1 fuel) (alphaBeta c L2 fuel) := by
  induction fuel with
  | zero => intro a b d ply nt s; exact ⟨NM.of_eq rfl rfl, fun _ => rfl⟩
  | succ fuel ih =>
    intro a b d ply nt s
    rw [alphaBeta_succ, alphaBeta_succ]
    split
    · have := quiescence_sim c h (fuel + 1) a b ply (s.setPv (s.pv.setNull ply.toNat))
      exact ⟨(NM.of_eq rfl rfl).trans this.1, this.2⟩
    · have hs0 : NM s (s.setPv (s.pv.setNull ply.toNat)) := NM.of_eq rfl rfl
      generalize s.setPv (s.pv.setNull ply.toNat) = s0 at hs0 ⊢
      rw [h.incr1]
      have hr := abRest_sim c h fuel ih a b d ply nt { s0 with nodes := s0.nodes + 1 }
      have h1 : NM s0 { s0 with nodes := s0.nodes + 1 } := ⟨rfl, by show s0.nodes ≤ s0.nodes + 1; omega⟩
      refine ⟨(hs0.trans h1).trans hr.1, fun hle => ?_⟩
      have hlt : s0.nodes < N := by
        have h2 : s0.nodes + 1 ≤ (abRest c L1 fuel a b d ply nt { s0 with nodes := s0.nodes + 1 }).2.nodes := hr.1.2
        omega
      rw [h.incr2 s0 hlt]
      exact hr.2 hle

end Search
end ChessVerif
