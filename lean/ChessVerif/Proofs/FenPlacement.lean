/-
  C11 round trip, the placement field: the printer's `rankStr` (digit runs for empty squares, piece
  letters) against the parser's `positionLoop`.

  Printer side
  * `cellAt b sq`, `rankBytes`, `placeBytes`   what the printer shows, as bytes;
  * `bytesOf_rankStr`, `bytesOf_placement`     `placementStr b` is `placeBytes (cellAt b) 7`.
  Parser side
  * `posLoop_digit/_piece/_slash/_space`       one byte of `positionLoop`;
  * `rank_parse`                               one rank: the file ends at `f + k + #cells`, exactly the
                                               cells' men are placed (`placeCells`);
  * `placeCells_rep`                           … and the three encodings then describe the placement
                                               `below g r (f+n)` (ranks above `r` and files `< f+n` of `r`);
  * `placement_parse`                          the whole field, ended by the space.
  * `cellAt_eq_manAt`                          on a well-formed board the printer shows `manAt`.
-/
import ChessVerif.Proofs.FenDigits
import ChessVerif.Proofs.FenRound
import ChessVerif.Proofs.BoardBasics

namespace ChessVerif
namespace Fen
open Board

/-- what the printer shows on a square. -/
def cellAt (b : Board) (sq : Nat) : Option (Color × Piece) :=
  if b.pieceAt sq ≠ .none then
    some (if (b.colorBB .white).getLsbD sq then Color.white else Color.black, b.pieceAt sq)
  else none

def countBytes (k : Nat) : List UInt8 := if k > 0 then [(48 + k).toUInt8] else []

def pieceByte (c : Color) (p : Piece) : UInt8 := (pieceChar c p).val.toUInt8

/-- one rank of the placement field as bytes: `k` = the pending run of empty squares. -/
def rankBytes : List (Option (Color × Piece)) → Nat → List UInt8
  | [], k => countBytes k
  | none :: cs, k => rankBytes cs (k + 1)
  | some (c, p) :: cs, k => countBytes k ++ pieceByte c p :: rankBytes cs 0

/-- the loop body of `rankStr`. -/
def rankStep (b : Board) (rank : Nat) (acc : String × Nat) (file : Nat) : String × Nat :=
  let sq := rank * 8 + file
  let p := b.pieceAt sq
  if p ≠ .none then
    let c := if (b.colorBB .white).getLsbD sq then Color.white else Color.black
    let s := if acc.2 > 0 then acc.1 ++ toString acc.2 else acc.1
    (s.push (pieceChar c p), 0)
  else (acc.1, acc.2 + 1)

def rankFinish (acc : String × Nat) : String := if acc.2 > 0 then acc.1 ++ toString acc.2 else acc.1

theorem rankStr_eq (b : Board) (rank : Nat) :
    rankStr b rank = rankFinish ((List.range 8).foldl (rankStep b rank) ("", 0)) := rfl

theorem pieceChar_ascii (c : Color) (p : Piece) : (pieceChar c p).val ≤ 127 := by
  cases c <;> cases p <;> decide

theorem bytesOf_count (k : Nat) (hk : k < 10) (s : String) :
    bytesOf (if k > 0 then s ++ toString k else s) = bytesOf s ++ countBytes k := by
  unfold countBytes
  by_cases h : k > 0
  · rw [if_pos h, if_pos h, bytesOf_append, bytesOf_natRepr, digitBytes, if_pos hk]
  · rw [if_neg h, if_neg h, List.append_nil]

theorem rankFold_bytes (b : Board) (rank : Nat) : ∀ (files : List Nat) (acc : String × Nat),
    acc.2 + files.length < 10 →
    bytesOf (rankFinish (files.foldl (rankStep b rank) acc)) =
      bytesOf acc.1 ++ rankBytes (files.map fun f => cellAt b (rank * 8 + f)) acc.2
  | [], acc, h => by
    simp only [List.foldl_nil, List.map_nil, rankBytes, rankFinish]
    exact bytesOf_count acc.2 (by simpa using h) acc.1
  | f :: fs, acc, h => by
    simp only [List.foldl_cons, List.map_cons]
    simp only [List.length_cons] at h
    by_cases hp : b.pieceAt (rank * 8 + f) ≠ .none
    · have hs : rankStep b rank acc f =
          ((if acc.2 > 0 then acc.1 ++ toString acc.2 else acc.1).push
            (pieceChar (if (b.colorBB .white).getLsbD (rank * 8 + f) then Color.white else Color.black)
              (b.pieceAt (rank * 8 + f))), 0) := by
        simp only [rankStep, if_pos hp]
      rw [hs, rankFold_bytes b rank fs _ (by simp; omega)]
      simp only [cellAt, if_pos hp, rankBytes]
      rw [bytesOf_push _ _ (pieceChar_ascii _ _), bytesOf_count acc.2 (by omega)]
      simp [pieceByte]
    · have hs : rankStep b rank acc f = (acc.1, acc.2 + 1) := by
        simp only [rankStep, if_neg hp]
      rw [hs, rankFold_bytes b rank fs _ (by simp; omega)]
      simp only [cellAt, if_neg hp, rankBytes]

/-- the cells of rank `r` from file `f`, `n` of them. -/
def cellsOf (g : Nat → Option (Color × Piece)) (r f n : Nat) : List (Option (Color × Piece)) :=
  (List.range' f n).map fun x => g (8 * r + x)

theorem bytesOf_rankStr (b : Board) (r : Nat) : bytesOf (rankStr b r) = rankBytes (cellsOf (cellAt b) r 0 8) 0 := by
  rw [rankStr_eq, rankFold_bytes b r _ _ (by decide)]
  simp only [bytesOf_empty, List.nil_append, cellsOf, List.range_eq_range']
  congr 1
  apply List.map_congr_left
  intro x _
  rw [Nat.mul_comm]

/-- the placement field as bytes: ranks `r, r-1, …, 0` separated by `/`. -/
def placeBytes (g : Nat → Option (Color × Piece)) : Nat → List UInt8
  | 0 => rankBytes (cellsOf g 0 0 8) 0
  | r + 1 => rankBytes (cellsOf g (r + 1) 0 8) 0 ++ 47 :: placeBytes g r

theorem bytesOf_placement (b : Board) : bytesOf (placementStr b) = placeBytes (cellAt b) 7 := by
  have h : placementStr b = rankStr b 7 ++ "/" ++ rankStr b 6 ++ "/" ++ rankStr b 5 ++ "/" ++ rankStr b 4 ++ "/" ++
      rankStr b 3 ++ "/" ++ rankStr b 2 ++ "/" ++ rankStr b 1 ++ "/" ++ rankStr b 0 := rfl
  have hs : bytesOf "/" = [47] := by decide
  rw [h]
  simp only [bytesOf_append, bytesOf_rankStr, hs, placeBytes, List.append_assoc, List.singleton_append]
  rfl


/-! ### the parser, one byte at a time -/

theorem posLoop_congr {fen : Bytes} {fuel fuel' ix ix' : Nat} {rank file file' : Int} {b b' : Board}
    (h1 : fuel = fuel') (h2 : ix = ix') (h3 : file = file') (h4 : b = b') :
    positionLoop fen fuel ix rank file b = positionLoop fen fuel' ix' rank file' b' := by
  subst h1 h2 h3 h4; rfl

theorem posLoop_digit {fen : Bytes} {ix : Nat} {c : UInt8} {t : List UInt8} (fuel : Nat) (rank file : Int) (b : Board)
    (h : rest fen ix = c :: t) (hc : 49 ≤ c ∧ c ≤ 56) :
    positionLoop fen (fuel + 1) ix rank file b =
      positionLoop fen fuel (ix + 1) rank (file + (c.toNat - 48 : Nat)) b := by
  obtain ⟨hlt, h0, _⟩ := rest_cons h
  rw [positionLoop]
  simp only [hlt, if_true, at_ok, h0, bind_ok, hc, and_self]

theorem posLoop_slash {fen : Bytes} {ix : Nat} {t : List UInt8} (fuel : Nat) (rank file : Int) (b : Board)
    (h : rest fen ix = 47 :: t) (hr : 0 ≤ rank - 1) :
    positionLoop fen (fuel + 1) ix rank file b = positionLoop fen fuel (ix + 1) (rank - 1) 0 b := by
  obtain ⟨hlt, h0, _⟩ := rest_cons h
  have h1 : ¬ ((49 : UInt8) ≤ 47 ∧ (47 : UInt8) ≤ 56) := by decide
  have h2 : ¬ (rank - 1 < 0) := by omega
  rw [positionLoop]
  simp only [hlt, if_true, at_ok, h0, bind_ok, h1, if_false, h2]

theorem posLoop_space {fen : Bytes} {ix : Nat} {t : List UInt8} (fuel : Nat) (rank file : Int) (b : Board)
    (h : rest fen ix = 32 :: t) :
    positionLoop fen (fuel + 1) ix rank file b = .ok ⟨ix, b⟩ := by
  obtain ⟨hlt, h0, _⟩ := rest_cons h
  have h2 : ¬ ((32 : UInt8) = 47) := by decide
  have h3 : isPieceChar 32 = false := by decide
  rw [positionLoop]
  simp [hlt, at_ok, h0, h2, h3]

/-- the printed letter of a man is read back as that man. -/
theorem pieceByte_facts (col : Color) (p : Piece) (hp : p ≠ .none) :
    ¬ ((49 : UInt8) ≤ pieceByte col p ∧ pieceByte col p ≤ 56) ∧ pieceByte col p ≠ 47 ∧
    isPieceChar (pieceByte col p) = true ∧
    (if pieceByte col p > 97 ∧ pieceByte col p < 122 then Color.black else Color.white) = col ∧
    cToP (pieceByte col p) = p := by
  cases col <;> cases p <;> first | exact absurd rfl hp | decide

theorem posLoop_piece {fen : Bytes} {ix : Nat} {t : List UInt8} (fuel : Nat) (rank file : Nat) (b : Board)
    (col : Color) (p : Piece) (hp : p ≠ .none)
    (h : rest fen ix = pieceByte col p :: t) (hsq : 8 * rank + file ≤ 63) :
    positionLoop fen (fuel + 1) ix (rank : Int) (file : Int) b =
      positionLoop fen fuel (ix + 1) (rank : Int) ((file + 1 : Nat) : Int) (place b col p (8 * rank + file)) := by
  obtain ⟨hlt, h0, _⟩ := rest_cons h
  obtain ⟨h1, h2, h3, h4, h5⟩ := pieceByte_facts col p hp
  have h6 : ¬ ((8 * (rank : Int) + (file : Int) < 0) ∨ (8 * (rank : Int) + (file : Int) > 63)) := by omega
  have h7 : (8 * (rank : Int) + (file : Int)).toNat = 8 * rank + file := by omega
  rw [positionLoop]
  simp only [hlt, if_true, at_ok, h0, bind_ok, h1, if_false, h2, h3, h6, h4, h5, h7]
  rfl

/-! ### one rank -/

/-- the men the parser places for a run of cells starting at file `f` of rank `rank`. -/
def placeCells (b : Board) (rank : Nat) : Nat → List (Option (Color × Piece)) → Board
  | _, [] => b
  | f, none :: cs => placeCells b rank (f + 1) cs
  | f, some (c, p) :: cs => placeCells (place b c p (8 * rank + f)) rank (f + 1) cs

theorem count_range (k : Nat) (h1 : 1 ≤ k) (h8 : k ≤ 8) :
    (49 : UInt8) ≤ (48 + k).toUInt8 ∧ (48 + k).toUInt8 ≤ 56 := by
  have : k = 1 ∨ k = 2 ∨ k = 3 ∨ k = 4 ∨ k = 5 ∨ k = 6 ∨ k = 7 ∨ k = 8 := by omega
  rcases this with h | h | h | h | h | h | h | h <;> subst h <;> decide

theorem count_parse (fen : Bytes) (k f : Nat) (hk : k ≤ 8) (fuel ix : Nat) (rank : Int) (b : Board) (t : List UInt8)
    (h : rest fen ix = countBytes k ++ t) :
    positionLoop fen ((countBytes k).length + fuel) ix rank (f : Int) b =
      positionLoop fen fuel (ix + (countBytes k).length) rank ((f + k : Nat) : Int) b := by
  unfold countBytes at h ⊢
  by_cases hk0 : k > 0
  · simp only [if_pos hk0] at h ⊢
    rw [show [(48 + k).toUInt8].length + fuel = fuel + 1 from by simp; omega,
      posLoop_digit fuel rank f b (by simpa using h) (count_range k hk0 hk), toNat_digit k (by omega)]
    exact posLoop_congr rfl rfl (by push_cast; rfl) rfl
  · have : k = 0 := by omega
    subst this
    simp

theorem rank_parse (fen : Bytes) (rank : Nat) (hrank : rank ≤ 7) :
    ∀ (cells : List (Option (Color × Piece))) (k f : Nat) (b : Board) (ix fuel : Nat) (t : List UInt8),
    (∀ c p, some (c, p) ∈ cells → p ≠ Piece.none) → f + k + cells.length ≤ 8 →
    rest fen ix = rankBytes cells k ++ t →
    positionLoop fen ((rankBytes cells k).length + fuel) ix (rank : Int) (f : Int) b =
      positionLoop fen fuel (ix + (rankBytes cells k).length) (rank : Int) ((f + k + cells.length : Nat) : Int)
        (placeCells b rank (f + k) cells)
  | [], k, f, b, ix, fuel, t, _, hlen, h => by
    simp only [rankBytes] at h ⊢
    rw [count_parse fen k f (by simp at hlen; omega) fuel ix rank b t h]
    rfl
  | none :: cs, k, f, b, ix, fuel, t, hc, hlen, h => by
    simp only [rankBytes] at h ⊢
    simp only [List.length_cons] at hlen
    rw [rank_parse fen rank hrank cs (k + 1) f b ix fuel t (fun c p hm => hc c p (by simp [hm])) (by omega) h]
    exact posLoop_congr rfl rfl (by simp only [List.length_cons]; congr 1; omega)
      (by simp only [placeCells]; congr 1)
  | some (c, p) :: cs, k, f, b, ix, fuel, t, hc, hlen, h => by
    simp only [rankBytes] at h ⊢
    simp only [List.length_cons] at hlen
    have hp : p ≠ Piece.none := hc c p (by simp)
    rw [List.append_assoc] at h
    rw [show (countBytes k ++ pieceByte c p :: rankBytes cs 0).length + fuel =
        (countBytes k).length + (((rankBytes cs 0).length + fuel) + 1) from by simp; omega,
      count_parse fen k f (by omega) _ ix rank b _ h,
      posLoop_piece _ rank (f + k) b c p hp (by simpa using rest_append h) (by omega),
      rank_parse fen rank hrank cs 0 (f + k + 1) _ _ fuel t (fun c p hm => hc c p (by simp [hm])) (by omega)
        (by simpa using (rest_cons (rest_append h)).2.2)]
    exact posLoop_congr rfl (by simp; omega) (by simp only [List.length_cons]; congr 1; omega)
      (by simp only [placeCells])


/-! ### what has been placed: the three encodings describe the part of the placement read so far -/

/-- the part of placement `g` on the ranks above `r` and on the files `< f` of rank `r`. -/
def below (g : Cfg) (r f : Nat) : Cfg :=
  fun s => if r < s / 8 ∨ (s / 8 = r ∧ s % 8 < f) then g s else none

/-- the parser's writes leave the scalar attributes alone. -/
def SameScalars (b b' : Board) : Prop :=
  b'.hashes = b.hashes ∧ b'.fullMoves = b.fullMoves ∧ b'.stm = b.stm ∧ b'.ep = b.ep ∧
  b'.castles = b.castles ∧ b'.fifty = b.fifty

theorem SameScalars.refl (b : Board) : SameScalars b b := ⟨rfl, rfl, rfl, rfl, rfl, rfl⟩

theorem SameScalars.trans {a b c : Board} (h1 : SameScalars a b) (h2 : SameScalars b c) : SameScalars a c := by
  obtain ⟨a1, a2, a3, a4, a5, a6⟩ := h1
  obtain ⟨b1, b2, b3, b4, b5, b6⟩ := h2
  exact ⟨b1.trans a1, b2.trans a2, b3.trans a3, b4.trans a4, b5.trans a5, b6.trans a6⟩

theorem place_scalars (b : Board) (c : Color) (p : Piece) (s : Nat) : SameScalars b (place b c p s) :=
  ⟨rfl, rfl, rfl, rfl, rfl, rfl⟩

theorem placeCells_scalars (rank : Nat) : ∀ (cells : List (Option (Color × Piece))) (f : Nat) (b : Board),
    SameScalars b (placeCells b rank f cells)
  | [], _, b => SameScalars.refl b
  | none :: cs, f, b => placeCells_scalars rank cs (f + 1) b
  | some (c, p) :: cs, f, b => (place_scalars b c p _).trans (placeCells_scalars rank cs (f + 1) _)

theorem place_eq_addPiece (b : Board) (c : Color) (p : Piece) (s : Nat) (hp : p ≠ Piece.none) :
    place b c p s = (addPiece zeroKeys b c p s).1 := by
  simp [place, addPiece, hp]

theorem cellsOf_succ (g : Cfg) (r f n : Nat) : cellsOf g r f (n + 1) = g (8 * r + f) :: cellsOf g r (f + 1) n := by
  simp [cellsOf, List.range'_succ]

theorem placeCells_rep (g : Cfg) (hg : ∀ s c, g s ≠ some (c, Piece.none)) (r : Nat) (hr : r ≤ 7) :
    ∀ (n f : Nat) (b : Board), f + n ≤ 8 → Rep b (below g r f) →
      Rep (placeCells b r f (cellsOf g r f n)) (below g r (f + n))
  | 0, f, b, _, h => by simpa [cellsOf, placeCells] using h
  | n + 1, f, b, hlen, h => by
    rw [cellsOf_succ]
    have hsq : 8 * r + f < 64 := by omega
    have hstep : ∀ s, s ≠ 8 * r + f → below g r (f + 1) s = below g r f s := by
      intro s hs
      unfold below
      have : (s / 8 = r ∧ s % 8 < f + 1) ↔ (s / 8 = r ∧ s % 8 < f) := by omega
      simp only [this]
    have hat : below g r (f + 1) (8 * r + f) = g (8 * r + f) := by
      have : (8 * r + f) / 8 = r ∧ (8 * r + f) % 8 < f + 1 := by omega
      simp only [below]
      rw [if_pos (Or.inr this)]
    have hnone : below g r f (8 * r + f) = none := by
      have : ¬ (r < (8 * r + f) / 8 ∨ ((8 * r + f) / 8 = r ∧ (8 * r + f) % 8 < f)) := by omega
      simp only [below]
      rw [if_neg this]
    have hfin : f + (n + 1) = (f + 1) + n := by omega
    rw [hfin]
    cases hcell : g (8 * r + f) with
    | none =>
      simp only [placeCells]
      apply placeCells_rep g hg r hr n (f + 1) b (by omega)
      apply h.congr_cfg
      intro s
      by_cases hs : s = 8 * r + f
      · subst hs; rw [hat, hnone, hcell]
      · rw [hstep s hs]
    | some cp =>
      obtain ⟨c, p⟩ := cp
      have hp : p ≠ Piece.none := by
        intro e; subst e; exact hg _ _ hcell
      simp only [placeCells]
      apply placeCells_rep g hg r hr n (f + 1) _ (by omega)
      rw [place_eq_addPiece _ _ _ _ hp]
      apply (rep_add zeroKeys h hsq c hp hnone).congr_cfg
      intro s
      by_cases hs : s = 8 * r + f
      · subst hs; rw [hat, upd_same, hcell]
      · rw [hstep s hs, upd_other _ _ _ _ hs]

theorem cellsOf_real (g : Cfg) (hg : ∀ s c, g s ≠ some (c, Piece.none)) (r f n : Nat) :
    ∀ c p, some (c, p) ∈ cellsOf g r f n → p ≠ Piece.none := by
  intro c p hm
  simp only [cellsOf, List.mem_map] at hm
  obtain ⟨x, _, hx⟩ := hm
  intro e; subst e
  exact hg _ _ hx

theorem cellsOf_length (g : Cfg) (r f n : Nat) : (cellsOf g r f n).length = n := by simp [cellsOf]

/-! ### the whole field -/

/-- **parsing the printed placement**: started at file 0 of rank `r` on a board that already
    holds the ranks above `r` of the placement `g`, the loop of `position()` consumes the bytes of
    the ranks `r … 0` (each run digit is `1..8`, each `/` steps one rank down), stops at the space
    and leaves a board whose three encodings describe `g`; no other attribute is touched. -/
theorem placement_parse (fen : Bytes) (g : Cfg) (hg : ∀ s c, g s ≠ some (c, Piece.none)) :
    ∀ (r : Nat), r ≤ 7 → ∀ (b : Board) (ix fuel : Nat) (t : List UInt8),
    rest fen ix = placeBytes g r ++ 32 :: t → Rep b (below g r 0) →
    ∃ b', positionLoop fen ((placeBytes g r).length + (fuel + 1)) ix (r : Int) 0 b =
        .ok ⟨ix + (placeBytes g r).length, b'⟩ ∧ Rep b' (below g 0 8) ∧ SameScalars b b'
  | 0, hr, b, ix, fuel, t, h, hrep => by
    simp only [placeBytes] at h ⊢
    refine ⟨placeCells b 0 0 (cellsOf g 0 0 8), ?_, ?_, placeCells_scalars 0 _ 0 b⟩
    · have := rank_parse fen 0 hr (cellsOf g 0 0 8) 0 0 b ix (fuel + 1) (32 :: t) (cellsOf_real g hg 0 0 8)
        (by simp [cellsOf_length]) h
      simp only [Int.natCast_zero] at this ⊢
      rw [this]
      exact posLoop_space _ _ _ _ (rest_append h)
    · simpa using placeCells_rep g hg 0 hr 8 0 b (by omega) hrep
  | r + 1, hr, b, ix, fuel, t, h, hrep => by
    simp only [placeBytes] at h ⊢
    rw [List.append_assoc] at h
    have hb1 : Rep (placeCells b (r + 1) 0 (cellsOf g (r + 1) 0 8)) (below g r 0) := by
      have := placeCells_rep g hg (r + 1) hr 8 0 b (by omega) hrep
      apply this.congr_cfg
      intro s
      unfold below
      have : (r + 1 < s / 8 ∨ (s / 8 = r + 1 ∧ s % 8 < 0 + 8)) ↔ (r < s / 8 ∨ (s / 8 = r ∧ s % 8 < 0)) := by omega
      simp only [this]
    obtain ⟨b', hb', hrep', hsc'⟩ := placement_parse fen g hg r (by omega) _
      (ix + (rankBytes (cellsOf g (r + 1) 0 8) 0).length + 1) fuel t
      (by simpa using (rest_cons (rest_append h)).2.2) hb1
    refine ⟨b', ?_, hrep', (placeCells_scalars (r + 1) _ 0 b).trans hsc'⟩
    have := rank_parse fen (r + 1) hr (cellsOf g (r + 1) 0 8) 0 0 b ix
      ((placeBytes g r).length + (fuel + 1) + 1) (47 :: (placeBytes g r ++ 32 :: t)) (cellsOf_real g hg _ 0 8)
      (by simp [cellsOf_length]) h
    rw [show (rankBytes (cellsOf g (r + 1) 0 8) 0 ++ 47 :: placeBytes g r).length + (fuel + 1) =
        (rankBytes (cellsOf g (r + 1) 0 8) 0).length + ((placeBytes g r).length + (fuel + 1) + 1) from by
          simp; omega]
    simp only [Int.natCast_zero] at this
    rw [this, posLoop_slash _ _ _ _ (rest_append h) (by omega)]
    rw [show ((r + 1 : Nat) : Int) - 1 = (r : Int) from by omega, hb']
    simp only [List.length_append, List.length_cons]
    congr 2
    omega

/-! ### the printer shows `manAt` -/

theorem cellAt_eq_manAt {b : Board} (h : WF b) (s : Nat) : cellAt b s = b.manAt s := by
  unfold cellAt manAt
  by_cases hs : s < 64
  · have hd := h.disj_at s
    have hc := h.col s hs
    cases hw : (b.colorBB .white).getLsbD s <;> cases hb : (b.colorBB .black).getLsbD s <;>
      simp_all
  · have hw : ∀ d, (b.colorBB d).getLsbD s = false := fun d => BitVec.getLsbD_of_ge _ _ (by omega)
    have hp : b.pieceAt s = Piece.none := by
      simp [pieceAt, vgetD_eq, hs]
    simp [hw, hp]

theorem empty_rep : Rep Board.empty (fun _ => none) := by
  refine ⟨by simp, ?_, ?_, ?_⟩
  · intro s hs; simp [pieceAt, Board.empty, Cfg.kind, vgetD_eq, hs]
  · intro p s _; simp [pieceBB, Board.empty, vgetD_eq]
  · intro c s _; simp [colorBB, Board.empty, vgetD_eq]

end Fen
end ChessVerif
