/-
  The driver level of the search skeleton: abort fallback, aspiration loop, iterative deepening, `go`.
-/
import ChessVerif.Proofs.SearchFrame

namespace ChessVerif
namespace Search

variable {σ π : Type} [PsInv σ]

/-! ### the abort fallback -/

theorem firstLegal_spec (c : Comp σ π) {Good : Board → Prop} (hl : Laws c Good) (b : Board) (hg : Good b) :
    ∀ moves : List Move, (∀ m ∈ moves, m ∈ MoveGen.gen b) →
      (firstLegal c.keys b moves).2 = b ∧
      ((firstLegal c.keys b moves).1 ∈ MoveGen.playable c.keys b ∨
        ((firstLegal c.keys b moves).1 = 0 ∧ ∀ m ∈ moves, m ∉ MoveGen.playable c.keys b)) := by
  intro moves
  induction moves with
  | nil => intro _; exact ⟨rfl, Or.inr ⟨rfl, fun _ h => by cases h⟩⟩
  | cons m rest ih =>
    intro hm
    have hmem := hm m List.mem_cons_self
    have hu := hl.undo_make b m hg hmem
    simp only [firstLegal]
    split
    · next h =>
      refine ⟨hu, Or.inl (mem_playable.2 ⟨hmem, by simpa using h⟩)⟩
    · next h =>
      rw [hu]
      have := ih (fun m' h' => hm m' (List.mem_cons_of_mem _ h'))
      refine ⟨this.1, this.2.imp id (fun ⟨h0, hn⟩ => ⟨h0, ?_⟩)⟩
      intro m' hm'
      rcases List.mem_cons.1 hm' with e | e
      · subst e; intro hp; exact h (by simpa using (mem_playable.1 hp).2)
      · exact hn m' e

/-! ### the aspiration loop -/

/-- the state an aspiration loop hands back. -/
def Asp.st : Asp σ → St σ
  | .aborted s => s
  | .ok _ _ _ s => s

theorem aspiration_spec (c : Comp σ π) (L : Limits) {Good : Board → Prop} (hl : Laws c Good) (fuel : Nat) (idD : Int) :
    ∀ (n : Nat) (alpha beta factor : Score) (s : St σ), Good s.board → PsInv.ok s.ps →
      Frame L s (aspiration c L fuel idD n alpha beta factor s).st ∧
        (∀ al be sa s', aspiration c L fuel idD n alpha beta factor s = .ok al be sa s' →
          s'.aborted = false ∧ LegalLine c.keys s.board (s'.pv.row 0)) := by
  intro n
  induction n with
  | zero =>
    intro alpha beta factor s hg _
    exact ⟨⟨mono_outOfFuel L s, rfl, rfl, rfl⟩, fun _ _ _ _ h => by simp [aspiration] at h⟩
  | succ n ih =>
    intro alpha beta factor s hg hok
    have hab := alphaBeta_spec c L hl fuel alpha beta idD 0 .pv s hg hok (Int.le_refl 0)
    simp only [aspiration]
    generalize alphaBeta c L fuel alpha beta idD 0 .pv s = r at hab ⊢
    obtain ⟨hf, _, hline⟩ := hab
    have haf := abort_frame L r.2
    have hap := (abort_pv L r.2).1
    have hat := abort_true_iff L r.2
    generalize abort L r.2 = as at haf hap hat ⊢
    have hf2 := hf.trans haf
    split
    · exact ⟨hf2, fun _ _ _ _ h => by cases h⟩
    · next hna =>
      split
      · refine ⟨hf2, fun al be sa s' h => ?_⟩
        cases h
        refine ⟨by rw [← hat]; simpa using hna, ?_⟩
        rw [hap]; exact hline
      · have hg2 : Good as.2.board := by rw [hf2.board]; exact hg
        have hok2 : PsInv.ok as.2.ps := hf2.mono.ps_ok hok
        constructor
        · exact hf2.trans (ih _ _ _ _ hg2 hok2).1
        · intro al be sa s' h
          have := (ih _ _ _ _ hg2 hok2).2 al be sa s' h
          rw [hf2.board] at this
          exact this

/-! ### iterative deepening -/

/-- what `idLoop` keeps true of the values it carries and of the state, relative to the root `b`. -/
structure IDInv (K : Keys) (L : Limits) (b : Board) (s0 : St σ) (v : IDVars) (s : St σ) : Prop where
  board : s.board = b
  hstack : s.hstack = s0.hstack
  frames : s.frames = s0.frames
  nodes : 0 ≤ L.nodes → s0.nodes ≤ L.nodes → s.nodes ≤ L.nodes
  nodes_mono : s0.nodes ≤ s.nodes
  move_ok : v.move = 0 ∨ v.move ∈ MoveGen.playable K b
  ponder_ok : v.ponder = 0 ∨ LegalLine K b [v.move, v.ponder]
  out_legal : ∀ i ∈ v.out, LegalLine K b i.pv
  fuel_mono : s0.fuelOut = true → s.fuelOut = true
  anomaly_mono : s0.anomaly = true → s.anomaly = true
  ps_ok : PsInv.ok s.ps

/-- what `idLoop` guarantees about its result. -/
structure IDPost (K : Keys) (L : Limits) (b : Board) (s0 : St σ) (r : Result σ) : Prop where
  board : r.st.board = b
  hstack : r.st.hstack = s0.hstack
  frames : r.st.frames = s0.frames
  nodes : 0 ≤ L.nodes → s0.nodes ≤ L.nodes → r.st.nodes ≤ L.nodes
  move_ok : r.move = 0 ∨ r.move ∈ MoveGen.playable K b
  ponder_ok : r.ponder = 0 ∨ LegalLine K b [r.move, r.ponder]
  out_legal : ∀ i ∈ r.out, LegalLine K b i.pv
  fuel_mono : s0.fuelOut = true → r.st.fuelOut = true
  anomaly_mono : s0.anomaly = true → r.st.anomaly = true
  ps_ok : PsInv.ok r.st.ps

theorem legalLine_head {K : Keys} {b : Board} {m : Move} {rest : List Move} (h : LegalLine K b (m :: rest)) :
    m ∈ MoveGen.playable K b := by cases h; assumption

theorem legalLine_two {K : Keys} {b : Board} {m p : Move} {rest : List Move} (h : LegalLine K b (m :: p :: rest)) :
    LegalLine K b [m, p] := by
  cases h with
  | cons h1 h2 => cases h2 with
    | cons h3 _ => exact LegalLine.cons h1 (LegalLine.cons h3 LegalLine.nil)

theorem idLoop_spec (c : Comp σ π) (L : Limits) (clock : Clock) {Good : Board → Prop} (hl : Laws c Good) (fuel : Nat)
    (b : Board) (hg : Good b) (s0 : St σ) :
    ∀ (n : Nat) (idD : Int) (v : IDVars) (s : St σ), IDInv c.keys L b s0 v s →
      IDPost c.keys L b s0 (idLoop c L clock fuel n idD v s) := by
  intro n
  induction n with
  | zero => intro idD v s h; exact ⟨h.board, h.hstack, h.frames, h.nodes, h.move_ok, h.ponder_ok, h.out_legal, h.fuel_mono, h.anomaly_mono, h.ps_ok⟩
  | succ n ih =>
    intro idD v s h
    simp only [idLoop]
    split
    · exact ⟨h.board, h.hstack, h.frames, h.nodes, h.move_ok, h.ponder_ok, h.out_legal, h.fuel_mono, h.anomaly_mono, h.ps_ok⟩
    · have hasp := aspiration_spec c L hl fuel idD fuel v.alpha v.beta 1 s (by rw [h.board]; exact hg) h.ps_ok
      generalize aspiration c L fuel idD fuel v.alpha v.beta 1 s = a at hasp ⊢
      cases a with
      | aborted s' =>
        obtain ⟨hf, _⟩ := hasp
        simp only [Asp.st] at hf
        have hb : s'.board = b := hf.board.trans h.board
        have hn : 0 ≤ L.nodes → s0.nodes ≤ L.nodes → s'.nodes ≤ L.nodes :=
          fun h0 h1 => hf.mono.nodes_bound h0 (h.nodes h0 h1)
        have hout : ∀ i ∈ (if L.output = true then
            ({ depth := idD, full := false, score := 0, nodes := s'.nodes, time := 0, hashfull := 0, pv := [] } : Info) :: v.out
            else v.out), LegalLine c.keys b i.pv := by
          intro i hi
          split at hi
          · rcases List.mem_cons.1 hi with e | e
            · subst e; exact LegalLine.nil
            · exact h.out_legal i e
          · exact h.out_legal i hi
        simp only
        split
        · have hfl := firstLegal_spec c hl s'.board (by rw [hb]; exact hg) (MoveGen.gen s'.board) (fun _ h => h)
          refine ⟨by simpa using hfl.1.trans hb, by simpa using hf.hstack.trans h.hstack,
            by simpa using hf.frames.trans h.frames, hn, ?_, Or.inl rfl, hout,
            fun h' => hf.mono.fuel_mono (h.fuel_mono h'), fun h' => hf.mono.anomaly_mono (h.anomaly_mono h'),
            hf.mono.ps_ok h.ps_ok⟩
          rcases hfl.2 with hp | ⟨h0, _⟩
          · right; rw [← hb]; exact hp
          · left; exact h0
        · exact ⟨hb, hf.hstack.trans h.hstack, hf.frames.trans h.frames, hn, h.move_ok, h.ponder_ok, hout,
            fun h' => hf.mono.fuel_mono (h.fuel_mono h'), fun h' => hf.mono.anomaly_mono (h.anomaly_mono h'),
            hf.mono.ps_ok h.ps_ok⟩
      | ok al be sample s' =>
        obtain ⟨hf, hok⟩ := hasp
        simp only [Asp.st] at hf
        obtain ⟨_, hline⟩ := hok al be sample s' rfl
        rw [h.board] at hline
        have hb : s'.board = b := hf.board.trans h.board
        have hn : 0 ≤ L.nodes → s0.nodes ≤ L.nodes → s'.nodes ≤ L.nodes :=
          fun h0 h1 => hf.mono.nodes_bound h0 (h.nodes h0 h1)
        have hact : s'.pv.active = s'.pv.row 0 := rfl
        simp only [hact]
        generalize s'.pv.row 0 = act at hline ⊢
        -- the new best / ponder move
        have hmove : pickMove act v.move = 0 ∨ pickMove act v.move ∈ MoveGen.playable c.keys b := by
          cases act with
          | nil => exact h.move_ok
          | cons m rest => exact Or.inr (legalLine_head hline)
        have hponder : pickPonder act v.ponder = 0 ∨
            LegalLine c.keys b [pickMove act v.move, pickPonder act v.ponder] := by
          cases act with
          | nil => exact h.ponder_ok
          | cons m rest =>
            cases rest with
            | nil => exact Or.inl rfl
            | cons p rest' => exact Or.inr (legalLine_two hline)
        have hout : ∀ i ∈ (if L.output = true then
            ({ depth := idD, full := true, score := sample, nodes := s'.nodes, time := (clock v.reads).1,
               hashfull := c.hashFull s'.ps, pv := act } : Info) :: v.out else v.out), LegalLine c.keys b i.pv := by
          intro i hi
          split at hi
          · rcases List.mem_cons.1 hi with e | e
            · subst e; exact hline
            · exact h.out_legal i e
          · exact h.out_legal i hi
        split
        · exact ⟨hb, hf.hstack.trans h.hstack, hf.frames.trans h.frames, hn, hmove, hponder, hout,
            fun h' => hf.mono.fuel_mono (h.fuel_mono h'), fun h' => hf.mono.anomaly_mono (h.anomaly_mono h'),
            hf.mono.ps_ok h.ps_ok⟩
        · apply ih
          exact ⟨hb, hf.hstack.trans h.hstack, hf.frames.trans h.frames, hn,
            Int.le_trans h.nodes_mono hf.mono.nodes_mono, hmove, hponder, hout,
            fun h' => hf.mono.fuel_mono (h.fuel_mono h'), fun h' => hf.mono.anomaly_mono (h.anomaly_mono h'),
            hf.mono.ps_ok h.ps_ok⟩

/-! ### `go` -/

theorem go_post (c : Comp σ π) (L : Limits) (clock : Clock) {Good : Board → Prop} (hl : Laws c Good) (fuel : Nat)
    (e : Engine σ) (b : Board) (hg : Good b) (hok : PsInv.ok e.ps) (nodes0 : Int) :
    IDPost c.keys L b (goInit L e b nodes0) (go c L clock fuel e b nodes0) := by
  have h := idLoop_spec c L clock hl fuel b hg (goInit L e b nodes0) 64 0
    { alpha := -Inf - 1, beta := Inf + 1, score := 0, move := 0, ponder := 0, reads := 0, ppolls := 0, out := [] }
    (goInit L e b nodes0)
    ⟨rfl, rfl, rfl, fun _ h => h, Int.le_refl _, Or.inl rfl, Or.inl rfl, (fun _ h => by cases h), id, id, hok⟩
  exact ⟨h.board, h.hstack, h.frames, h.nodes, h.move_ok, h.ponder_ok, h.out_legal, h.fuel_mono, h.anomaly_mono,
    hl.ok_nextGen _ h.ps_ok⟩

end Search
end ChessVerif
