/-
  C09, stalemate, last exit of `IsStalemate`: the en-passant loop (`stEp`).
  * `stEp_iff`       — the loop as an ∃-statement: some own pawn attacks the en-passant square and
                       no enemy slider attacks the king in the occupancy after the capture.
  * `stEp_complete`  — the flag implies a legal pawn move (an en-passant capture).
  * `stEp_of_move`   — every legal en-passant capture raises the flag.
-/
import ChessVerif.Proofs.MateStalePawnsBase

namespace ChessVerif.Mate.StalePawns
open ChessVerif Board Rules Bridge ChessVerif.Mate

variable {b : Board} {K : Nat}

theorem stEp_eq (hep : b.ep ≠ 0) :
    stEp b K =
      (bits (Attacks.pawnCaptureMoves (bit b.ep) b.stm.flip &&& b.pieceBB .pawn &&& b.colorBB b.stm)).any fun sq =>
        !((Attacks.rookMoves K ((b.occ &&& ~~~ bit sq &&& ~~~ Attacks.pawnSinglePushMoves (bit b.ep) b.stm.flip) ||| bit b.ep) &&&
              (b.pieceBB .rook ||| b.pieceBB .queen) &&& b.colorBB b.stm.flip != 0) ||
          (Attacks.bishopMoves K ((b.occ &&& ~~~ bit sq &&& ~~~ Attacks.pawnSinglePushMoves (bit b.ep) b.stm.flip) ||| bit b.ep) &&&
              (b.pieceBB .bishop ||| b.pieceBB .queen) &&& b.colorBB b.stm.flip != 0)) := by
  unfold stEp
  rw [if_pos hep]

/-- `remove`: the pawn that has just advanced. -/
theorem remove_eq {P O : Nat} (ef : EpFacts b P O) :
    Attacks.pawnSinglePushMoves (bit b.ep) b.stm.flip = bit P := by
  apply BitVec.eq_of_getLsbD_eq
  intro u hu
  rw [bit_getLsbD P u ef.P_lt, Bool.eq_iff_iff, push_bit b.stm.flip b.ep u ef.ep_lt hu, ahead_flip,
    decide_eq_true_eq]
  have h1 := ef.aheadP
  constructor
  · intro h
    revert h h1
    cases b.stm <;> simp only [PL.ahead] <;> omega
  · intro e; subst e; exact h1

theorem epPawns_get (cx : Ctx b K) {P O : Nat} (ef : EpFacts b P O) (s : Nat) (hs : s < 64) :
    (Attacks.pawnCaptureMoves (bit b.ep) b.stm.flip &&& b.pieceBB .pawn &&& b.colorBB b.stm).getLsbD s = true ↔
      PL.capGeom b.stm s b.ep ∧ b.pieceAt s = .pawn ∧ (b.colorBB b.stm).getLsbD s = true := by
  rw [BitVec.getLsbD_and, BitVec.getLsbD_and, Bool.and_eq_true, Bool.and_eq_true,
    cap_bit b.stm.flip b.ep s ef.ep_lt hs, PL.capGeom_flip, cx.wf.piece_iff s hs .pawn (by decide), and_assoc]

theorem not_or_comm (A B : Bool) : (!(A || B)) = true ↔ ¬ (B || A) = true := by
  cases A <;> cases B <;> simp

/-- **the en-passant loop**. -/
theorem stEp_iff (cx : Ctx b K) (hep : b.ep ≠ 0) {P O : Nat} (ef : EpFacts b P O) :
    stEp b K = true ↔
      ∃ s, s < 64 ∧ PL.capGeom b.stm s b.ep ∧ b.pieceAt s = .pawn ∧ (b.colorBB b.stm).getLsbD s = true ∧
        ¬ SChk b (((b.occ &&& ~~~ bit s) &&& ~~~ bit P) ||| bit b.ep) 0 K := by
  rw [stEp_eq hep, remove_eq ef, any_bits_iff]
  have body : ∀ s,
      (!((Attacks.rookMoves K ((b.occ &&& ~~~ bit s &&& ~~~ bit P) ||| bit b.ep) &&&
              (b.pieceBB .rook ||| b.pieceBB .queen) &&& b.colorBB b.stm.flip != 0) ||
          (Attacks.bishopMoves K ((b.occ &&& ~~~ bit s &&& ~~~ bit P) ||| bit b.ep) &&&
              (b.pieceBB .bishop ||| b.pieceBB .queen) &&& b.colorBB b.stm.flip != 0))) = true ↔
        ¬ SChk b (((b.occ &&& ~~~ bit s) &&& ~~~ bit P) ||| bit b.ep) 0 K := by
    intro s
    rw [not_or_comm, ← sliderHits_iff0 cx.wf _ K cx.hK]
    rfl
  constructor
  · rintro ⟨s, hs, hx, hf⟩
    obtain ⟨h1, h2, h3⟩ := (epPawns_get cx ef s hs).1 hx
    exact ⟨s, hs, h1, h2, h3, (body s).1 hf⟩
  · rintro ⟨s, hs, h1, h2, h3, hf⟩
    exact ⟨s, hs, (epPawns_get cx ef s hs).2 ⟨h1, h2, h3⟩, (body s).2 hf⟩

theorem stEp_false_of_noEp (h : b.ep = 0) : stEp b K = false := by
  unfold stEp
  rw [if_neg (by simpa using h)]

/-- the capturing pawn of an en-passant capture does not stand on its seventh rank. -/
theorem ep_promoOK {P O s : Nat} (ef : EpFacts b P O) (hg : PL.capGeom b.stm s b.ep) : PL.promoOK b s 0 := by
  unfold PL.promoOK
  have h1 := ef.rank
  have h2 := ef.ep_lt
  have : PL.relRank b.stm s ≠ 6 := by
    revert hg h1
    cases b.stm <;> simp only [PL.capGeom, PL.relRank] <;> omega
  rw [if_neg this]

/-- the safety of an en-passant capture in terms of slider attacks. -/
theorem ep_safe_iff (cx : Ctx b K) (hnc : ¬ Chk b b.occ 0 K) {P O : Nat} (ef : EpFacts b P O)
    {s pr : Nat} (hs : s < 64) (hPL : PL.PL b s b.ep pr) (hep : IsEp b s b.ep) :
    Rules.inCheck (Rules.applyCore (abs b) ⟨s, b.ep, decPromo pr⟩) b.stm = false ↔
      ¬ SChk b (((b.occ &&& ~~~ bit s) &&& ~~~ bit P) ||| bit b.ep) 0 K := by
  rw [← Bool.not_eq_true, after_ep cx ef s pr hs hPL hep, Chk_iff_SChk (noLeaper_of_not_Chk hnc _),
    SChk_excl ef.P_lt (fun _ => by rw [ef.P_pawn]; rfl)]

/-- **completeness of the en-passant loop.** -/
theorem stEp_complete (cx : Ctx b K) (hnc : ¬ Chk b b.occ 0 K) (h : stEp b K = true) :
    HasLegal b .pawn := by
  have hep : b.ep ≠ 0 := by
    intro e; rw [stEp_false_of_noEp e] at h; exact Bool.noConfusion h
  obtain ⟨P, O, ef⟩ := ep_facts cx hep
  obtain ⟨s, hs, hg, hp, hown, hsafe⟩ := (stEp_iff cx hep ef).1 h
  have hto : (b.colorBB b.stm).getLsbD b.ep = false := by
    cases hc : (b.colorBB b.stm).getLsbD b.ep
    · rfl
    · have := ef.ep_empty; rw [occ_of_own _ hc] at this; exact Bool.noConfusion this
  have hcl : PL.PLep b s b.ep := ⟨hg, hep, rfl⟩
  refine mk_hasLegal cx hs ef.ep_lt (by decide : 0 < 8) hown hp hto (ep_promoOK ef hg)
    (Or.inr (Or.inr (Or.inr hcl))) ?_
  intro hPL
  rw [ep_safe_iff cx hnc ef hs hPL (ep_isEp hp hcl)]
  exact hsafe

/-- **every legal en-passant capture raises the flag.** -/
theorem stEp_of_move (cx : Ctx b K) (hnc : ¬ Chk b b.occ 0 K) {s t pr : Nat} (hs : s < 64)
    (hown : (b.colorBB b.stm).getLsbD s = true)
    (hcl : PL.PLpush1 b s t ∨ PL.PLpush2 b s t ∨ PL.PLcapture b s t ∨ PL.PLep b s t)
    (hPL : PL.PL b s t pr) (hisep : IsEp b s t)
    (hi : Rules.inCheck (Rules.applyCore (abs b) ⟨s, t, decPromo pr⟩) b.stm = false) :
    stEp b K = true := by
  have hisep' := hisep
  obtain ⟨hp, hep, rfl, _⟩ := hisep
  obtain ⟨P, O, ef⟩ := ep_facts cx hep
  have hg : PL.capGeom b.stm s b.ep := by
    rcases hcl with h | h | h | h
    · exact absurd hisep' (push1_not_ep h)
    · exact absurd hisep' (push2_not_ep h)
    · exact h.1
    · exact h.1
  rw [ep_safe_iff cx hnc ef hs hPL hisep'] at hi
  exact (stEp_iff cx hep ef).2 ⟨s, hs, hg, hp, hown, hi⟩

end ChessVerif.Mate.StalePawns
