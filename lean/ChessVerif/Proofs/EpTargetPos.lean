/-
  C02, en-passant clause, part 2: the two rule-book positions involved — the successor `succ b m` of a
  double push (`Rules.applyCore`, target recorded unconditionally) and the position `fin b m a` after
  the en-passant capture of the pushed pawn by the enemy pawn on `a` — square by square, and the
  occupancy of the latter, which is exactly the one `CanEnPassant` hands to `IsAttacked`.
-/
import ChessVerif.Proofs.EpTargetGeom
import ChessVerif.Proofs.BridgeUpd
namespace ChessVerif.EpTarget
open ChessVerif Board Rules Bridge

theorem at_mk (men : Vector (Option Man) 64) (t : Color) (r : Rights) (e : Option Nat) (h f : Int) (u : Nat) :
    (Pos.mk men t r e h f).at_ u = men.getD u none := rfl

/-- `applyCore` on a move that is neither an en-passant capture nor castling nor a promotion. -/
theorem applyCore_at_plain (p : Pos) (mv : Mv) (he : isEnPassant p mv = false) (hc : isCastling p mv = false)
    (hp : mv.promo = none) (hs : mv.src < 64) (hd : mv.dst < 64) (u : Nat) :
    (applyCore p mv).at_ u = if u = mv.dst then p.at_ mv.src else if u = mv.src then none else p.at_ u := by
  unfold applyCore
  simp only [he, hc, hp, Bool.false_eq_true, if_false]
  rw [at_mk, getD_setMan _ _ _ _ hd, getD_setMan _ _ _ _ hs]
  rfl

theorem applyCore_at_ep (p : Pos) (mv : Mv) (he : isEnPassant p mv = true) (hc : isCastling p mv = false)
    (hp : mv.promo = none) (hs : mv.src < 64) (hd : mv.dst < 64) (u : Nat) :
    (applyCore p mv).at_ u =
      if u = mv.dst then p.at_ mv.src else if u = mv.src then none
      else if u = 8 * (mv.src / 8) + mv.dst % 8 then none else p.at_ u := by
  have hx : 8 * (mv.src / 8) + mv.dst % 8 < 64 := by omega
  unfold applyCore
  simp only [he, hc, hp, Bool.false_eq_true, if_false, if_true]
  rw [at_mk, getD_setMan _ _ _ _ hd, getD_setMan _ _ _ _ hs, getD_setMan _ _ _ _ hx]
  rfl

theorem applyCore_turn (p : Pos) (mv : Mv) : (applyCore p mv).turn = p.turn.flip := rfl
theorem applyCore_ep (p : Pos) (mv : Mv) :
    (applyCore p mv).ep = if isDoublePush p mv then some ((mv.src + mv.dst) / 2) else none := rfl

theorem not_castling_of_at {p : Pos} {mv : Mv} {c : Color} {k : Piece} (h : p.at_ mv.src = some (c, k))
    (hk : k ≠ Piece.king) : isCastling p mv = false := by
  unfold isCastling Pos.has
  rw [h]
  have : (some (c, k) == some (p.turn, Piece.king)) = false := by
    rw [beq_eq_false_iff_ne]; intro e; simp only [Option.some.injEq, Prod.mk.injEq] at e; exact hk e.2
  rw [this, Bool.false_and]

section dp
variable {b : Board} {m : Move}

theorem decode_dp (h : DP b m) : decodeMove m = ⟨Move.src m, Move.dst m, none⟩ := by
  rw [decodeMove_eq, h.promo0]; rfl

theorem abs_at_src (hw : WFP b) (h : DP b m) : (abs b).at_ (Move.src m) = some (b.stm, Piece.pawn) := by
  rw [abs_at_of_color hw _ _ h.own, h.pawn]

theorem file_src_dst (h : DP b m) : Rules.file (Move.src m) = Rules.file (Move.dst m) := by
  unfold Rules.file
  rcases h.nums with ⟨_, _, h1, _⟩ | ⟨_, _, h1, _⟩ <;> omega

/-- the successor position of the rule book, before normalisation of the en-passant target. -/
def succ (b : Board) (m : Move) : Pos := applyCore (abs b) (decodeMove m)

theorem succ_not_ep (h : DP b m) : Rules.isEnPassant (abs b) ⟨Move.src m, Move.dst m, none⟩ = false := by
  unfold Rules.isEnPassant
  have : decide (Rules.file (Move.src m) ≠ Rules.file (Move.dst m)) = false := by
    rw [decide_eq_false_iff_not]; exact fun hh => hh (file_src_dst h)
  simp only [this, Bool.and_false, Bool.false_and]

theorem succ_at (hw : WFP b) (h : DP b m) (u : Nat) :
    (succ b m).at_ u =
      if u = Move.dst m then some (b.stm, Piece.pawn) else if u = Move.src m then none else b.manAt u := by
  unfold succ
  rw [decode_dp h, applyCore_at_plain _ _ (succ_not_ep h)
    (not_castling_of_at (abs_at_src hw h) (by decide)) rfl (PL.src_lt m) (PL.dst_lt m), abs_at_src hw h, abs_at']

theorem succ_turn (b : Board) (m : Move) : (succ b m).turn = b.stm.flip := rfl

theorem succ_doublePush (hw : WFP b) (h : DP b m) :
    isDoublePush (abs b) ⟨Move.src m, Move.dst m, none⟩ = true := by
  unfold isDoublePush
  rw [Bool.and_eq_true, has_iff_at, beq_iff_eq]
  refine ⟨abs_at_src hw h, ?_⟩
  show (Rules.rank (Move.dst m) - Rules.rank (Move.src m)).natAbs = 2
  unfold Rules.rank
  have := PL.src_lt m
  rcases h.nums with ⟨_, _, h1, _⟩ | ⟨_, _, h1, _⟩ <;> omega

theorem succ_ep (hw : WFP b) (h : DP b m) : (succ b m).ep = some (mid m) := by
  unfold succ
  rw [decode_dp h, applyCore_ep, succ_doublePush hw h]
  rfl

/-- the capture of the pushed pawn by the pawn on `a`. -/
def cap (m : Move) (a : Nat) : Mv := ⟨a, mid m, none⟩

theorem manAt_able (hw : WFP b) {a : Nat} (ha : Able b (Move.dst m) a) :
    b.manAt a = some (b.stm.flip, Piece.pawn) :=
  (manAt_eq_some hw a _ _).2 ⟨ha.2.2.2, ha.2.2.1⟩

theorem manAt_of_occ_false {s : Nat} (h : b.occ.getLsbD s = false) : b.manAt s = none := by
  rw [← abs_at', abs_at_eq_none]; exact h

theorem succ_at_able (hw : WFP b) (h : DP b m) {a : Nat} (ha : Able b (Move.dst m) a) :
    (succ b m).at_ a = some (b.stm.flip, Piece.pawn) := by
  obtain ⟨_, _, h1, h2, _⟩ := able_nums h ha
  rw [succ_at hw h, if_neg h1, if_neg h2, manAt_able hw ha]

theorem succ_at_mid (hw : WFP b) (h : DP b m) : (succ b m).at_ (mid m) = none := by
  have hd : mid m ≠ Move.dst m := by
    rcases h.nums with ⟨_, _, h1, h2⟩ | ⟨_, _, h1, h2⟩ <;> omega
  have hs : mid m ≠ Move.src m := by
    rcases h.nums with ⟨_, _, h1, h2⟩ | ⟨_, _, h1, h2⟩ <;> omega
  rw [succ_at hw h, if_neg hd, if_neg hs, manAt_of_occ_false h.mid_empty]

theorem cap_isEnPassant (hw : WFP b) (h : DP b m) {a : Nat} (ha : Able b (Move.dst m) a) :
    Rules.isEnPassant (succ b m) (cap m a) = true := by
  unfold Rules.isEnPassant cap
  simp only [Bool.and_eq_true, has_iff_at, empty_iff_at, beq_iff_eq, decide_eq_true_eq]
  refine ⟨⟨⟨?_, succ_ep hw h⟩, ?_⟩, succ_at_mid hw h⟩
  · rw [succ_turn]; exact succ_at_able hw h ha
  · obtain ⟨_, hf, _, _, _, _, _, _, hm, _⟩ := able_nums h ha
    unfold Rules.file; omega

/-- the position after the en-passant capture by `a`. -/
def fin (b : Board) (m : Move) (a : Nat) : Pos := applyCore (succ b m) (cap m a)

theorem fin_at (hw : WFP b) (h : DP b m) {a : Nat} (ha : Able b (Move.dst m) a) (u : Nat) :
    (fin b m a).at_ u =
      if u = mid m then some (b.stm.flip, Piece.pawn)
      else if u = a ∨ u = Move.dst m ∨ u = Move.src m then none else b.manAt u := by
  unfold fin
  obtain ⟨_, _, _, _, _, _, _, _, _, hx⟩ := able_nums h ha
  rw [applyCore_at_ep _ _ (cap_isEnPassant hw h ha) (not_castling_of_at (succ_at_able hw h ha) (by decide)) rfl
    ha.1 h.mid_lt]
  simp only [cap, hx, succ_at_able hw h ha, succ_at hw h]
  by_cases e1 : u = mid m
  · rw [if_pos e1, if_pos e1]
  · rw [if_neg e1, if_neg e1]
    by_cases e2 : u = a
    · rw [if_pos e2, if_pos (Or.inl e2)]
    · rw [if_neg e2]
      by_cases e3 : u = Move.dst m
      · rw [if_pos e3, if_pos (Or.inr (Or.inl e3))]
      · rw [if_neg e3, if_neg e3]
        by_cases e4 : u = Move.src m
        · rw [if_pos e4, if_pos (Or.inr (Or.inr e4))]
        · rw [if_neg e4, if_neg (by rintro (e | e | e) <;> contradiction)]

theorem fin_turn (b : Board) (m : Move) (a : Nat) : (fin b m a).turn = b.stm := by
  unfold fin; rw [applyCore_turn, succ_turn, Color.flip_flip]

/-- lines of sight of the final position = the occupancy `CanEnPassant` hands to `IsAttacked`. -/
theorem fin_emptyIs (hw : WFP b) (h : DP b m) {a : Nat} (ha : Able b (Move.dst m) a) :
    EmptyIs (fin b m a) (epOcc b m a) := by
  intro u hu
  rw [empty_iff_at, fin_at hw h ha]
  unfold epOcc
  simp only [BitVec.getLsbD_and, BitVec.getLsbD_or, BitVec.getLsbD_not, hu, decide_true, Bool.true_and,
    bit_getLsbD _ _ h.mid_lt, bit_getLsbD _ _ (PL.dst_lt m), bit_getLsbD _ _ ha.1, bit_getLsbD _ _ (PL.src_lt m)]
  obtain ⟨_, _, h1, h2, h3, h4, h5, _⟩ := able_nums h ha
  by_cases e1 : u = mid m
  · subst e1
    have n1 : ¬ Move.dst m = mid m := fun e => h4 e.symm
    have n2 : ¬ a = mid m := h3
    have n3 : ¬ Move.src m = mid m := fun e => h5 e.symm
    simp [n1, n2, n3]
  · have n0 : ¬ mid m = u := fun e => e1 e.symm
    by_cases e2 : u = a ∨ u = Move.dst m ∨ u = Move.src m
    · rw [if_neg e1, if_pos e2]
      rcases e2 with e | e | e <;> subst e <;> simp
    · rw [if_neg e1, if_neg e2]
      have n1 : ¬ Move.dst m = u := fun e => e2 (Or.inr (Or.inl e.symm))
      have n2 : ¬ a = u := fun e => e2 (Or.inl e.symm)
      have n3 : ¬ Move.src m = u := fun e => e2 (Or.inr (Or.inr e.symm))
      simp only [n0, n1, n2, n3, decide_false, Bool.or_false, Bool.not_false, Bool.and_true]
      rw [← abs_at', abs_at_eq_none]

end dp
end ChessVerif.EpTarget
