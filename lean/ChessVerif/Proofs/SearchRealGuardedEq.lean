/-
  The guarded record the driver runs (Model/SearchRealG.lean, core-only) IS the record of the
  hypothesis `NmpSane` (`realCompG`, Proofs/SearchRealScore.lean).
-/
import ChessVerif.Model.SearchRealG
import ChessVerif.Proofs.SearchRealScore

namespace ChessVerif
namespace SearchReal

theorem nmpTryGuarded_eq : @nmpTryGuarded = @nmpTryG := rfl

theorem realCompGuardedWith_eq (K : Keys) (cs : Eval.CoeffSet Int) : realCompGuardedWith K cs = realCompG K cs := rfl

theorem realCompGuarded_eq (K : Keys) : realCompGuarded K = realCompG K Eval.shipped := rfl

/-- so the two runs the driver compares are the two sides of `NmpSane`. -/
theorem goRealGuarded_eq (K : Keys) (L : Search.Limits) (fuel : Nat) (e : Search.Engine PS) (b : Board) :
    goRealGuarded K L fuel e b = Search.go (realCompG K Eval.shipped) L (fun _ => (0, 0)) fuel e b := rfl

end SearchReal
end ChessVerif
