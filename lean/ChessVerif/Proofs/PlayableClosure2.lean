/-
  C01 closure, part 2: after a generated move of a valid position
   * a castling right that survives still finds its king and rook at home,
   * a newly recorded en-passant target has the required geometry,
   * and, for a *playable* move whose clock stays ≤ 100, the successor is valid again (`valid_make`).
-/
import ChessVerif.Proofs.PlayableClosure

namespace ChessVerif.Playable
open ChessVerif Board Rules Bridge AbsMake

section closure
variable {b : Board} {m : Move} (g : GenMove b m)
include g

/-! ### castling rights -/

omit g in
theorem old_at {b : Board} (s : Nat) (c : Color) (k : Piece) (h : (abs b).has s c k = true) : b.manAt s = some (c, k) := by
  rw [has_iff_at, abs_at'] at h; exact h

/-- a king and a rook standing on home squares that the move neither leaves nor reaches are still there. -/
theorem home_kept (K : Keys) (c : Color) (ksq rsq : Nat)
    (hpair : (ksq = 4 ∧ (rsq = 7 ∨ rsq = 0)) ∨ (ksq = 60 ∧ (rsq = 63 ∨ rsq = 56)))
    (hking : (abs b).has ksq c .king = true) (hrook : (abs b).has rsq c .rook = true)
    (hnk : (abs b).has (Move.src m) c .king = false) (h1 : Move.src m ≠ rsq) (h2 : Move.dst m ≠ rsq) :
    (abs (b.makeMove K m).1).has ksq c .king = true ∧ (abs (b.makeMove K m).1).has rsq c .rook = true := by
  have hk64 : ksq < 64 := by omega
  have hr64 : rsq < 64 := by omega
  have fk := old_at ksq c _ hking
  have fr := old_at rsq c _ hrook
  have pk : b.pieceAt ksq = Piece.king := ((Bridge.abs_has g.hw _ _ _).1 hking).2
  have pr : b.pieceAt rsq = Piece.rook := ((Bridge.abs_has g.hw _ _ _).1 hrook).2
  -- the destination is not the king's square: kings are not captured
  have dk : ksq ≠ Move.dst m := by
    intro e
    cases hep : b.isEnPassant m
    · apply cap_ne_king g; rw [captureSq_eq_dst hep, ← e]; exact pk
    · have := g.ok.ep_dst_empty hep
      rw [← e, pk] at this; exact absurd this (by decide)
  have sk : ksq ≠ Move.src m := by
    intro e; rw [← e, hking] at hnk; exact Bool.noConfusion hnk
  have capk : ∀ s, (b.pieceAt s = Piece.king ∨ b.pieceAt s = Piece.rook) → s ≠ Move.dst m → s ≠ b.captureSq m := by
    intro s hs hd e
    cases hep : b.isEnPassant m
    · rw [captureSq_eq_dst hep] at e; exact hd e
    · have := ep_cap_pawn g hep
      rw [← e] at this
      rcases hs with h | h <;> rw [h] at this <;> exact absurd this (by decide)
  have hopk : ∀ rf rt, hop (b.pieceAt (Move.src m)) m = some (rf, rt) →
      (ksq ≠ rf ∧ ksq ≠ rt) ∧ (rsq ≠ rf ∧ rsq ≠ rt) := by
    intro rf rt hh
    obtain ⟨hkp, hc⟩ := hop_some hh
    -- the moving king is not of colour `c`, so it does not stand on `ksq`
    rcases hc with ⟨a, _, rfl, rfl⟩ | ⟨a, _, rfl, rfl⟩ | ⟨a, _, rfl, rfl⟩ | ⟨a, _, rfl, rfl⟩ <;>
      (have : ksq ≠ Move.src m := sk
       omega)
  refine ⟨?_, ?_⟩
  · rw [has_iff_at, at_new g K ksq hk64,
      cfg5_untouched ksq dk sk (capk ksq (Or.inl pk) dk) (fun rf rt hh => (hopk rf rt hh).1)]
    exact fk
  · have dr : rsq ≠ Move.dst m := fun e => h2 e.symm
    rw [has_iff_at, at_new g K rsq hr64,
      cfg5_untouched rsq dr (fun e => h1 e.symm) (capk rsq (Or.inr pr) dr) (fun rf rt hh => (hopk rf rt hh).2)]
    exact fr

omit g in
theorem bool_and3 {a x y : Bool} (h : (a && !x && !y) = true) : a = true ∧ x = false ∧ y = false := by
  cases a <;> cases x <;> cases y <;> simp_all

omit g in
theorem touches_false {s d r : Nat} (h : (s == r || d == r) = false) : s ≠ r ∧ d ≠ r := by
  simp only [Bool.or_eq_false_iff, beq_eq_false_iff_ne, ne_eq] at h
  exact h

theorem rights_new (K : Keys) :
    let p' := abs (b.makeMove K m).1
    (p'.rights.wk = true → p'.has 4 .white .king = true ∧ p'.has 7 .white .rook = true) ∧
    (p'.rights.wq = true → p'.has 4 .white .king = true ∧ p'.has 0 .white .rook = true) ∧
    (p'.rights.bk = true → p'.has 60 .black .king = true ∧ p'.has 63 .black .rook = true) ∧
    (p'.rights.bq = true → p'.has 60 .black .king = true ∧ p'.has 56 .black .rook = true) := by
  intro p'
  have hr : p'.rights = rightsAfter (abs b) (decodeMove m) := abs_make_rights K g
  have V := g.validP
  rw [hr]
  unfold rightsAfter
  simp only [decodeMove_src, decodeMove_dst]
  refine ⟨fun h => ?_, fun h => ?_, fun h => ?_, fun h => ?_⟩
  · obtain ⟨a, x, y⟩ := bool_and3 h
    obtain ⟨y1, y2⟩ := touches_false y
    obtain ⟨k, r⟩ := V.wk a
    exact home_kept g K _ 4 7 (by omega) k r x y1 y2
  · obtain ⟨a, x, y⟩ := bool_and3 h
    obtain ⟨y1, y2⟩ := touches_false y
    obtain ⟨k, r⟩ := V.wq a
    exact home_kept g K _ 4 0 (by omega) k r x y1 y2
  · obtain ⟨a, x, y⟩ := bool_and3 h
    obtain ⟨y1, y2⟩ := touches_false y
    obtain ⟨k, r⟩ := V.bk a
    exact home_kept g K _ 60 63 (by omega) k r x y1 y2
  · obtain ⟨a, x, y⟩ := bool_and3 h
    obtain ⟨y1, y2⟩ := touches_false y
    obtain ⟨k, r⟩ := V.bq a
    exact home_kept g K _ 60 56 (by omega) k r x y1 y2

/-! ### the new en-passant target -/

omit g in
theorem push2_between {p : Pos} {mv : Mv} (h : RLk p .pawn mv = true)
    (h0 : file mv.dst - file mv.src = 0) (h2 : rank mv.dst - rank mv.src = 2 * up p.turn) :
    rank mv.src = homeRank p.turn + up p.turn ∧ p.empty mv.dst = true ∧ (between mv.src mv.dst).all p.empty = true := by
  unfold RLk at h
  simp only [Bool.and_eq_true, Bool.or_eq_true, beq_iff_eq] at h
  rcases h.2 with (h1 | h1) | h1
  · exfalso
    have := h1.1.2; rw [h2] at this
    cases ht : p.turn <;> rw [ht] at this <;> simp [up] at this
  · exact ⟨h1.1.1.2, h1.1.2, h1.2⟩
  · have := h1.1.1; rw [h0] at this; simp at this

/-- what a double pawn advance looks like (engine's test `piece = Pawn ∧ |from − to| = 16`). -/
theorem double_push_facts (hp : b.pieceAt (Move.src m) = Piece.pawn)
    (hdiff : (if Move.src m ≥ Move.dst m then Move.src m - Move.dst m else Move.dst m - Move.src m) = 16) :
    PL.ahead b.stm (Move.src m) 16 (Move.dst m) ∧ PL.relRank b.stm (Move.src m) = 1 ∧
    (abs b).empty ((Move.src m + Move.dst m) / 2) = true ∧ Move.promo m = 0 ∧ b.isEnPassant m = false := by
  have hrl := g.rl
  rw [hp] at hrl
  have hs := src_lt m
  have hd := dst_lt m
  have hcoords : file (Move.dst m) - file (Move.src m) = 0 ∧ rank (Move.dst m) - rank (Move.src m) = 2 * up b.stm := by
    rcases pawn_clause_cases hrl with h | h | h
    · exfalso
      obtain ⟨h0, hr, _⟩ := h
      simp only [decodeMove_src, decodeMove_dst, abs_turn] at h0 hr
      cases hstm : b.stm <;> rw [hstm] at hr <;> simp only [Rules.file, Rules.rank, up] at h0 hr <;>
        split at hdiff <;> omega
    · obtain ⟨h0, hr, _⟩ := h
      simp only [decodeMove_src, decodeMove_dst, abs_turn] at h0 hr
      exact ⟨h0, hr⟩
    · exfalso
      obtain ⟨h0, hr, _⟩ := h
      simp only [decodeMove_src, decodeMove_dst, abs_turn] at h0 hr
      cases hstm : b.stm <;> rw [hstm] at hr <;> simp only [Rules.file, Rules.rank, up] at h0 hr <;>
        split at hdiff <;> omega
  obtain ⟨hhome, _, hbet⟩ := push2_between (mv := decodeMove m) hrl hcoords.1 hcoords.2
  simp only [decodeMove_src, decodeMove_dst, abs_turn] at hhome hbet
  obtain ⟨hah, hrr⟩ := (ahead16_coords b.stm (Move.src m) (Move.dst m)).2 ⟨hcoords.1, hcoords.2, hhome⟩
  rw [between_push2 b.stm _ _ hs hah hrr] at hbet
  simp only [List.all_cons, List.all_nil, Bool.and_true] at hbet
  refine ⟨hah, hrr, hbet, ?_, ?_⟩
  · -- no promotion: the destination is not on the last rank
    have hok := pawn_promoOK hrl
    have hnl : ¬ rank (Move.dst m) = lastRank b.stm := by
      cases hstm : b.stm <;> rw [hstm] at hah hrr <;>
        simp only [PL.ahead, PL.relRank, Rules.rank, lastRank] at hah hrr ⊢ <;> omega
    simp only [decodeMove_dst, abs_turn, beq_iff_eq, hnl, if_false, decodeMove_promo] at hok
    exact (decPromo_isNone _ (PL.promo_lt m)).1 hok
  · rw [← isEnPassant_eq g]
    unfold Rules.isEnPassant
    have hfe : file (Move.src m) = file (Move.dst m) := by have := hcoords.1; omega
    have : (decide (file (decodeMove m).src ≠ file (decodeMove m).dst)) = false :=
      decide_eq_false (fun h => h hfe)
    rw [this, Bool.and_false, Bool.false_and]

omit g in
theorem hop_of_ne_king {p : Piece} (m : Move) (h : p ≠ Piece.king) : hop p m = none := by
  unfold hop; rw [if_neg h]

theorem ep_new (K : Keys) : epOK (abs (b.makeMove K m).1) = true := by
  unfold epOK
  have hep : (abs (b.makeMove K m).1).ep = if mvNewEP b m = 0 then none else some (mvNewEP b m) := by
    rw [makeMove_eq, abs_ep, make_ep]
  have hturn : (abs (b.makeMove K m).1).turn = b.stm.flip := by rw [makeMove_eq]; rfl
  by_cases h0 : mvNewEP b m = 0
  · rw [hep, if_pos h0]
  · rw [hep, if_neg h0]
    simp only [hturn, Color.flip_flip]
    have hcan : mvCanEP b m = true := by
      cases hc : mvCanEP b m
      · exfalso; apply h0; unfold mvNewEP; rw [hc]; rfl
      · rfl
    have ht : mvNewEP b m = (Move.src m + Move.dst m) / 2 := by unfold mvNewEP; rw [hcan]; rfl
    unfold mvCanEP at hcan
    simp only [Bool.and_eq_true, decide_eq_true_eq, beq_iff_eq] at hcan
    obtain ⟨⟨hp, hdiff⟩, _⟩ := hcan
    obtain ⟨hah, hrr, hemp, hpr, hnep⟩ := double_push_facts g hp hdiff
    have hs := src_lt m
    have hd := dst_lt m
    rw [ht]
    set t := (Move.src m + Move.dst m) / 2 with htdef
    have ht64 : t < 64 := by omega
    have hhop : hop (b.pieceAt (Move.src m)) m = none := hop_of_ne_king m (by rw [hp]; decide)
    have hcap : b.captureSq m = Move.dst m := captureSq_eq_dst hnep
    -- coordinates
    have hgeo : rank t = homeRank b.stm + 2 * up b.stm ∧
        square? (file t) (rank t + up b.stm) = some (Move.dst m) ∧
        square? (file t) (rank t - up b.stm) = some (Move.src m) ∧ t ≠ Move.src m ∧ t ≠ Move.dst m := by
      cases hstm : b.stm <;> rw [hstm] at hah hrr <;> simp only [PL.ahead, PL.relRank] at hah hrr
      · refine ⟨by simp only [Rules.rank, homeRank, up]; omega, ?_, ?_, by omega, by omega⟩
        · rw [Board.square?_some _ _ (by simp only [Rules.file, Rules.rank, up]; omega)]
          simp only [Rules.file, Rules.rank, up]; refine congrArg some ?_; omega
        · rw [Board.square?_some _ _ (by simp only [Rules.file, Rules.rank, up]; omega)]
          simp only [Rules.file, Rules.rank, up]; refine congrArg some ?_; omega
      · refine ⟨by simp only [Rules.rank, homeRank, up]; omega, ?_, ?_, by omega, by omega⟩
        · rw [Board.square?_some _ _ (by simp only [Rules.file, Rules.rank, up]; omega)]
          simp only [Rules.file, Rules.rank, up]; refine congrArg some ?_; omega
        · rw [Board.square?_some _ _ (by simp only [Rules.file, Rules.rank, up]; omega)]
          simp only [Rules.file, Rules.rank, up]; refine congrArg some ?_; omega
    obtain ⟨hrank, hfront, hback, hts, htd⟩ := hgeo
    rw [hfront, hback]
    simp only [Bool.and_eq_true, decide_eq_true_eq, beq_iff_eq]
    -- the three squares after the move
    have e_t : (abs (b.makeMove K m).1).at_ t = none := by
      rw [at_new g K t ht64, cfg5_untouched t htd hts (by rw [hcap]; exact htd) (by rw [hhop]; intro _ _ h; cases h)]
      have := (empty_iff_at _ _).1 hemp
      rw [abs_at'] at this; exact this
    have e_d : (abs (b.makeMove K m).1).at_ (Move.dst m) = some (b.stm, Piece.pawn) := by
      rw [at_new g K _ hd, cfg5_dst g.chain, g.chain.put_eq hpr, hp, man_of_ne (by decide)]
    have e_s : (abs (b.makeMove K m).1).at_ (Move.src m) = none := by
      rw [at_new g K _ hs, cfg5_at, hhop]
      simp only [cfg3_at, g.chain.dst_ne_src.symm, if_false, if_true]
    exact ⟨⟨⟨ht64, hrank⟩, (empty_iff_at _ _).2 e_t⟩, (has_iff_at _ _ _ _).2 e_d, (empty_iff_at _ _).2 e_s⟩

/-! ### the remaining clauses and the assembly -/

theorem real_new (K : Keys) (s : Nat) (hs : s < 64) (c : Color) :
    (abs (b.makeMove K m).1).at_ s ≠ some (c, Piece.none) := by
  rw [at_new g K s hs]
  exact (wf_make_rep K g.hw.rep g.ok).real s c

/-- **closure**: the successor of a valid position by a generated move that does not leave the mover
    in check is valid again, as long as the halfmove clock stays within the domain. -/
theorem validP_make (K : Keys) (hsafe : (b.makeMove K m).1.inCheck b.stm = false)
    (hclock : (b.makeMove K m).1.fifty ≤ 100) : ValidP (abs (b.makeMove K m).1) := by
  have V := g.validP
  have hturn : (abs (b.makeMove K m).1).turn = b.stm.flip := by rw [makeMove_eq]; rfl
  obtain ⟨r1, r2, r3, r4⟩ := rights_new g K
  refine ⟨kings_new g K, bound_new g K, pawns_new g K, real_new g K, ?_, r1, r2, r3, r4, ep_new g K, ?_, hclock, ?_⟩
  · rw [hturn, Color.flip_flip, ← inCheck_iff (Board.wf_make K g.hw g.ok)]
    exact hsafe
  · rw [abs_make_halfmove K g, applyCore_halfmove]
    have := V.hm0
    split <;> omega
  · rw [abs_make_fullmove K b m]
    show 1 ≤ (abs b).fullmove + (if (abs b).turn == Color.black then 1 else 0)
    have := V.fm1
    split <;> omega

end closure

/-- **`valid_make`** — every successor of a valid position by a playable move is valid (clock side
    condition explicit). -/
theorem valid_make (K : Keys) {b : Board} {m : Move} (hv : Board.valid b = true) (hm : m ∈ MoveGen.playable K b)
    (hclock : (b.makeMove K m).1.fifty ≤ 100) : Board.valid (b.makeMove K m).1 = true := by
  obtain ⟨hg, hsafe⟩ := (mem_playable K b m).1 hm
  have g := genMove_of hv hg
  unfold Board.valid
  rw [Bool.and_eq_true]
  exact ⟨(wf_iff _).1 (Board.wf_make K g.hw g.ok), (validP_iff _).2 (validP_make g K hsafe hclock)⟩

/-- the clock condition holds in particular whenever the clock of the position is below 100. -/
theorem make_fifty_le (K : Keys) {b : Board} {m : Move} (hv : Board.valid b = true) (h : b.fifty < 100) :
    (b.makeMove K m).1.fifty ≤ 100 := by
  have V := (validP_iff _).1 (rulesValid_of_valid hv)
  have h0 : 0 ≤ b.fifty := V.hm0
  rw [makeMove_eq, make_fifty]
  split
  · omega
  · rw [wrapS8_small _ h0 (by omega)]; omega

end ChessVerif.Playable
