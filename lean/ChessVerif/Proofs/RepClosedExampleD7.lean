/-
  C10 closed, non-vacuity data, second part: the hypothesis `Rules.epNormal b₀.abs` of the `NoCollision`
  form of the closed theorem cannot be dropped — the D7 history (Proofs/RepExampleD7.lean) meets every
  other hypothesis, in particular it has NO hash collision, and the conclusion fails.
-/
import ChessVerif.Proofs.RepClosedHash
import ChessVerif.Proofs.RepExampleD7

namespace ChessVerif
namespace RepClosed
namespace Example
open Rules Board Rep Rep.Example

set_option maxRecDepth 100000

/-! ### the hypothesis `epNormal b₀.abs` of the `NoCollision` form cannot be dropped (known finding D7)

  On the D7 history all five from-scratch hashes are different — there is NO collision — and every other
  hypothesis holds, yet the model's count (1) is not the rule-book count (2). -/

theorem noCollision_of_nodup (K : Keys) (bs : List Board) (h : (bs.map (calcHash K)).Nodup) :
    NoCollision K bs := by
  intro x hx y hy e
  rw [List.inj_on_of_nodup_map h hx hy e]
  exact same_refl _

theorem d7_noCollision : NoCollision testKeys (boards testKeys d7B d7Moves) :=
  noCollision_of_nodup _ _ (by decide +kernel)

theorem d7_canon : Canon d7Moves := by unfold Canon; decide
theorem d7_hashes : d7B.hashes = [calcHash testKeys d7B] := by decide +kernel

/-- the conclusion of the closed theorem FAILS on the D7 history. -/
theorem d7_conclusion_fails :
    (run testKeys d7B d7Moves).threefold ≠
      min 3 (occurrences (run testKeys d7B d7Moves).abs (positions d7B.abs (d7Moves.map decodeMove))) := by
  have h := occurrences_run_eq testKeys d7B (d7Moves.map decodeMove) (validNC_of_valid d7_valid) d7_hashes d7_legal
  rw [canon_map d7_canon] at h
  rw [h, d7_occurrences, d7_threefold]
  decide

end Example
end RepClosed
end ChessVerif
