/-
  C10 non-vacuity data, second part: every `makeMove` of the knight-shuffle game abstracts to
  `Rules.apply` (the hypothesis `AbsSteps` that C02 supplies in general), kernel-checked.
-/
import ChessVerif.Proofs.RepExample

namespace ChessVerif
namespace Rep
namespace Example

set_option maxRecDepth 100000

theorem shuffle_abs : AbsSteps testKeys sparseB shuffle :=
  absStepsB_sound _ _ _ (by decide +kernel)

end Example
end Rep
end ChessVerif
