/-
  C11, obligation 4 (round trip) — statement, the parts that are proved, and what the UCI position
  command does with the printed FEN of a valid position.

  * `printFields` / `join_fields`   the six fields of `printFEN`, and `strings.Join(fields, " ")` is
                                    the printed text (bytes);
  * `RoundTripOK b`                 `parseFEN (printFEN b) = ok (b without hash history)`;
  * `C11_roundtrip_full`            the full statement (NOT proved in general, see the report);
  * `print_parse_of_roundtrip`      the text round trip is a corollary of the board round trip;
  * `position_installs_valid`       for a valid board whose round trip holds, the UCI position command
                                    given the printed FEN installs a board with the same abstraction.
-/
import ChessVerif.Proofs.FenUci
import ChessVerif.Proofs.FenCount

namespace ChessVerif
namespace Fen
open UciPosition

/-- everything `ParseFEN` fills: all attributes except the hash history. -/
def stripHash (b : Board) : Board := { b with hashes := [] }

def placementStr (b : Board) : String := String.intercalate "/" ((List.range 8).reverse.map (rankStr b))
def stmStr (b : Board) : String := match b.stm with | .white => "w" | .black => "b"
def castleStr (b : Board) : String :=
  let cs :=
    (if b.castles &&& shortWhite != 0 then "K" else "") ++
    (if b.castles &&& longWhite != 0 then "Q" else "") ++
    (if b.castles &&& shortBlack != 0 then "k" else "") ++
    (if b.castles &&& longBlack != 0 then "q" else "")
  if b.castles == 0 then cs ++ "-" else cs
def epStr (b : Board) : String := if b.ep = 0 then "-" else sqName b.ep

/-- the six space-separated fields of the printed FEN. -/
def printFields (b : Board) : List String :=
  [placementStr b, stmStr b, castleStr b, epStr b, toString b.fifty, toString b.fullMoves]

theorem printFEN_eq (b : Board) : printFEN b =
    placementStr b ++ " " ++ stmStr b ++ " " ++ castleStr b ++ " " ++ epStr b ++ " " ++
      toString b.fifty ++ " " ++ toString b.fullMoves := rfl

/-- `strings.Join(fields, " ")` of the six printed fields is the printed FEN. -/
theorem join_fields (b : Board) :
    joinSp ((printFields b).map fun s => s.toUTF8.data) = (printFEN b).toUTF8.data := by
  rw [printFEN_eq]
  simp only [printFields, List.map, joinSp, String.toUTF8, String.toByteArray_append, ByteArray.data_append]
  have : " ".toByteArray.data = #[32] := by decide
  simp [this]

/-- the board round trip for one board. -/
def RoundTripOK (b : Board) : Prop := parseFEN (printFEN b).toUTF8.data = .ok (stripHash b)

instance (b : Board) : Decidable (RoundTripOK b) := by unfold RoundTripOK; infer_instance

/-- **C11 round trip, full statement** (`Board.valid` = well-formed representation + `Rules.valid`
    of the abstraction; the bound on the move number is the range of the Go `int`):
    printing a valid position and parsing the text back yields the same placement (all three
    encodings), side to move, rights, en-passant target and both counters. -/
def C11_roundtrip_full : Prop :=
  ∀ b : Board, b.valid = true → b.fullMoves < 2 ^ 63 → RoundTripOK b

/-- text round trip on the image of `printFEN` (canonical FENs). -/
def C11_print_parse_full : Prop :=
  ∀ b : Board, b.valid = true → b.fullMoves < 2 ^ 63 →
    ∀ b', parseFEN (printFEN b).toUTF8.data = .ok b' → printFEN b' = printFEN b

/-- `print_parse` is a corollary of `parse_print`: the printer does not look at the hash history. -/
theorem print_parse_of_roundtrip (b : Board) (h : RoundTripOK b) :
    ∀ b', parseFEN (printFEN b).toUTF8.data = .ok b' → printFEN b' = printFEN b := by
  intro b' hb'
  rw [h] at hb'
  cases hb'
  rfl

theorem print_parse_full_of_roundtrip_full (h : C11_roundtrip_full) : C11_print_parse_full :=
  fun b hv hm => print_parse_of_roundtrip b (h b hv hm)

theorem abs_stripHash_resetHash (K : Keys) (b : Board) : ((stripHash b).resetHash K).abs = b.abs := rfl

theorem ipc_stripHash_resetHash (K : Keys) (b : Board) :
    ((stripHash b).resetHash K).invalidPieceCount = b.invalidPieceCount := rfl

/-- **the UCI position command accepts the FEN of every valid position** (however much promoted
    material it holds) — relative to the round trip of that board: `position fen <printed fields>`
    installs the parsed board with a fresh hash history; its abstraction is that of `b`. -/
theorem position_installs_valid (K : Keys) (cur b : Board) (hv : b.valid = true) (hrt : RoundTripOK b) :
    handlePositionS K cur ("fen" :: printFields b) = (stripHash b).resetHash K ∧
    (handlePositionS K cur ("fen" :: printFields b)).abs = b.abs := by
  have hparse : fromFEN K (joinSp ((printFields b).map fun s => s.toUTF8.data)) =
      .ok ((stripHash b).resetHash K) := by
    rw [join_fields, fromFEN, hrt]; rfl
  have hgate : ((stripHash b).resetHash K).invalidPieceCount = false := by
    rw [ipc_stripHash_resetHash]; exact Board.pieceCount_accepts_valid b hv
  have hkw : "fen".toUTF8.data = kwFen := by decide
  have : handlePositionS K cur ("fen" :: printFields b) = (stripHash b).resetHash K := by
    unfold handlePositionS
    rw [List.map_cons, hkw]
    exact position_installs K cur _ _ (by simp [printFields]) hparse hgate
  exact ⟨this, by rw [this]; exact abs_stripHash_resetHash K b⟩

end Fen
end ChessVerif
