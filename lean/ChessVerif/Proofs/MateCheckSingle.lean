/-
  C09 steps (3) and (5): a single checker on `A`.
  * `capture_iff` — the first loop of `IsCheckmate` (`Attackers(attacker, occ, stm) &^ king`, pin test
                    with the defender lifted and the checker removed) finds a defender iff some
                    non-king man has a legal capture of the checker.
  * `block_iff`   — the second loop (`Block(InBetween…)`, pin test with the defender lifted and ALL
                    in-between squares occupied) finds a defender iff some non-king man has a legal
                    move onto a square strictly between the king and the checker.
-/
import ChessVerif.Proofs.MateCheck

namespace ChessVerif.Mate
open ChessVerif Board Rules Bridge

variable {b : Board} {K A : Nat}

/-- exactly one enemy man, standing on `A`, gives check. -/
structure Single (b : Board) (K A : Nat) : Prop where
  hA : A < 64
  chk : Checker b K A
  uniq : ∀ a, a < 64 → Checker b K a → a = A

theorem Single.noLeaper (h : Single b K A) : NoLeaper b (bit A) K := by
  intro a ha hc hx hs hatt
  have : a = A := h.uniq a ha ⟨hc, (Att_nonslider hs).1 hatt⟩
  rw [this, bit_getLsbD A A h.hA] at hx
  simp at hx

theorem Single.noLeaper0 (h : Single b K A) (hsl : isSlider (b.pieceAt A) = true) : NoLeaper b 0 K := by
  intro a ha hc _ hs hatt
  have : a = A := h.uniq a ha ⟨hc, (Att_nonslider hs).1 hatt⟩
  rw [this, hsl] at hs
  exact Bool.noConfusion hs

theorem own_king_iff (cx : Ctx b K) (s : Nat) (hs : s < 64) (hown : (b.colorBB b.stm).getLsbD s = true) :
    b.pieceAt s = .king ↔ s = K :=
  ⟨fun h => (cx.king_iff s hs).1 ⟨hown, h⟩, fun h => by rw [h]; exact cx.king_piece⟩

/-! ### (3) capture of the checker -/

theorem capture_iff (cx : Ctx b K) (hS : Single b K A) :
    cmCapture b K A = true ↔
      ∃ s pr, s < 64 ∧ pr < 8 ∧ b.pieceAt s ≠ .king ∧ PL.PL b s A pr ∧
        ¬ Chk b ((b.occ &&& ~~~ bit s) ||| bit A) (bit A) K := by
  have hAocc := hS.chk.occ
  unfold cmCapture
  rw [any_bits_iff]
  constructor
  · rintro ⟨d, hd, hmem, hflag⟩
    rw [BitVec.getLsbD_and, Bool.and_eq_true, attackers_bit cx.wf A hS.hA _ _ d hd] at hmem
    obtain ⟨⟨hown, hatt⟩, hdK⟩ := hmem
    have hdK' : d ≠ K := by
      intro e
      rw [e, BitVec.getLsbD_not, bit_getLsbD K K cx.hK] at hdK
      simp at hdK
    have hnk : b.pieceAt d ≠ .king := fun e => hdK' ((own_king_iff cx d hd hown).1 e)
    obtain ⟨pr, hpr, hPL⟩ := att_PL_capture cx d A hd hS.hA hown hS.chk.1 hnk hatt
    refine ⟨d, pr, hd, hpr, hnk, hPL, ?_⟩
    intro hc
    have hdA : d ≠ A := by
      intro e; rw [e] at hown; rw [opp_not_own cx A hS.chk.1] at hown; exact Bool.noConfusion hown
    have hc' := (Chk_congr (fun u _ => occ_capture_eq d A hd hS.hA hdA hAocc u)).1 hc
    have hs := (Chk_iff_SChk hS.noLeaper).1 hc'
    rw [Bool.not_eq_true', ← Bool.not_eq_true, sliderHits_iff cx.wf _ _ K cx.hK] at hflag
    exact hflag hs
  · rintro ⟨s, pr, hs, hpr, hnk, hPL, hsafe⟩
    obtain ⟨hown, _, _⟩ := (PL_iff_kind cx.wf s A pr hs).1 hPL
    have hsA : s ≠ A := by
      intro e; rw [e] at hown; rw [opp_not_own cx A hS.chk.1] at hown; exact Bool.noConfusion hown
    have hsK : s ≠ K := fun e => hnk ((own_king_iff cx s hs hown).2 e)
    refine ⟨s, hs, ?_, ?_⟩
    · rw [BitVec.getLsbD_and, Bool.and_eq_true, attackers_bit cx.wf A hS.hA _ _ s hs]
      refine ⟨⟨hown, PL_occupied_att cx s A pr hs hS.hA hPL hnk hAocc⟩, ?_⟩
      rw [BitVec.getLsbD_not, bit_getLsbD K s cx.hK]
      have : ¬ K = s := fun e => hsK e.symm
      simp [hs, this]
    · rw [Bool.not_eq_true', ← Bool.not_eq_true, sliderHits_iff cx.wf _ _ K cx.hK]
      intro hsc
      exact hsafe ((Chk_congr (fun u _ => occ_capture_eq s A hs hS.hA hsA hAocc u)).2 hsc.chk)

/-! ### (5) interposition -/

theorem cmBlocked_eq (hK : K < 64) (hA : A < 64) : cmBlocked K A = SB K A :=
  C12.inBetween_eq K hK A hA

/-- a checker with a square strictly between it and the king is a slider. -/
theorem checker_slider_of_sb (cx : Ctx b K) (hA64 : A < 64) (hA : Checker b K A) (t : Nat)
    (ht : (SB K A).getLsbD t = true) : isSlider (b.pieceAt A) = true := by
  rw [sb_comm' cx.hK hA64] at ht
  cases hs : isSlider (b.pieceAt A)
  · exfalso
    have hatt := hA.2
    cases hp : b.pieceAt A <;> rw [hp] at hatt hs
    · exact Att_none hatt
    · have := (king_line hA64 cx.hK (capGeom_geo _ (Att_pawn.1 hatt)).2).2 t
      rw [ht] at this; exact Bool.noConfusion this
    · have := knight_sb_empty hA64 cx.hK (Att_knight.1 hatt) t
      rw [ht] at this; exact Bool.noConfusion this
    · exact Bool.noConfusion hs
    · exact Bool.noConfusion hs
    · exact Bool.noConfusion hs
    · have := (king_line hA64 cx.hK (Att_king.1 hatt)).2 t
      rw [ht] at this; exact Bool.noConfusion this
  · rfl

/-- the squares between the king and a sliding checker are vacant. -/
theorem blocked_vacant (cx : Ctx b K) (hA64 : A < 64) (hA : Checker b K A) (t : Nat)
    (ht : (SB K A).getLsbD t = true) : b.occ.getLsbD t = false := by
  have hsl := checker_slider_of_sb cx hA64 hA t ht
  rw [sb_comm' cx.hK hA64] at ht
  exact hA.free hsl t ht

theorem blockOcc_get (d : Nat) (hd : d < 64) (X : BB) (u : Nat) :
    ((b.occ &&& ~~~ bit d) ||| X).getLsbD u = ((b.occ.getLsbD u && !decide (d = u)) || X.getLsbD u) := by
  rw [BitVec.getLsbD_or, getLsbD_andNot_bit _ _ _ hd]

/-- with the defender `d` lifted, a man placed on ONE in-between square `t` shields the king exactly
    when men on ALL in-between squares do. -/
theorem block_occ_equiv (cx : Ctx b K) (hS : Single b K A) (d t : Nat) (hd : d < 64) (ht : t < 64)
    (hdown : (b.colorBB b.stm).getLsbD d = true) (htb : (SB K A).getLsbD t = true) :
    Chk b ((b.occ &&& ~~~ bit d) ||| bit t) (bit t) K ↔ SChk b ((b.occ &&& ~~~ bit d) ||| SB K A) 0 K := by
  have hsl := checker_slider_of_sb cx hS.hA hS.chk t htb
  have htv := blocked_vacant cx hS.hA hS.chk t htb
  have hdA : d ≠ A := by
    intro e; rw [e] at hdown; rw [opp_not_own cx A hS.chk.1] at hdown; exact Bool.noConfusion hdown
  have htbA : (SB A K).getLsbD t = true := by rw [sb_comm' hS.hA cx.hK]; exact htb
  constructor
  · rintro ⟨X, hX, hc, hxt, hatt⟩
    have hXsl : isSlider (b.pieceAt X) = true := by
      cases hs : isSlider (b.pieceAt X)
      · exact absurd ((Att_nonslider hs).1 hatt) (hS.noLeaper0 hsl X hX hc (by simp) hs)
      · rfl
    have hfree := (Att_slider_geo hXsl hatt).2
    have hXA : X ≠ A := by
      intro e
      subst e
      have := hfree t htbA
      rw [getLsbD_or_bit _ _ _ ht] at this
      simp at this
    refine ⟨X, hX, hc, by simp, hXsl, (Att_congr ?_).1 hatt⟩
    intro u hu
    rw [blockOcc_get d hd, blockOcc_get d hd, bit_getLsbD t u ht]
    cases hub : (SB K A).getLsbD u
    · have : ¬ t = u := by intro e; subst e; rw [htb] at hub; exact Bool.noConfusion hub
      simp [this]
    · exfalso
      have hu' := hu
      rw [sb_comm' hX cx.hK] at hu'
      rcases sb_same_ray cx.hK hX hS.hA hu' hub with h | h | h
      · exact hXA h
      · have := blocked_vacant cx hS.hA hS.chk X h
        rw [occ_of_opp X hc] at this; exact Bool.noConfusion this
      · rw [sb_comm' cx.hK hX] at h
        have := hfree A h
        rw [getLsbD_or_bit _ _ _ ht, getLsbD_andNot_bit _ _ _ hd, hS.chk.occ] at this
        simp [hdA] at this
  · rintro ⟨X, hX, hc, _, hXsl, hatt⟩
    have hXt : X ≠ t := by
      intro e; rw [e] at hc; rw [occ_of_opp t hc] at htv; exact Bool.noConfusion htv
    refine ⟨X, hX, hc, ?_, Att_mono hatt ?_⟩
    · rw [bit_getLsbD t X ht]
      have : ¬ t = X := fun e => hXt e.symm
      simp [this]
    · intro u _ ho
      rw [getLsbD_or_bit _ _ _ ht] at ho
      rw [blockOcc_get d hd]
      rw [Bool.or_eq_true] at ho
      rcases ho with ho | ho
      · rw [getLsbD_andNot_bit _ _ _ hd] at ho
        rw [ho]; rfl
      · rw [decide_eq_true_eq] at ho
        subst ho
        rw [htb]; simp

theorem push2_mid (c : Color) (s t : Nat) (hs : s < 64) (h16 : PL.ahead c s 16 t) (h1 : PL.relRank c s = 1) :
    (s + t) / 2 < 64 ∧ PL.ahead c ((s + t) / 2) 8 t ∧ PL.ahead c s 8 ((s + t) / 2) ∧ PL.relRank c t = 3 := by
  revert h16 h1
  cases c <;> simp only [PL.ahead, PL.relRank] <;> omega

theorem push2_of_mid (c : Color) (s m t : Nat) (ht : t < 64) (h1 : PL.ahead c m 8 t) (h2 : PL.ahead c s 8 m)
    (h3 : PL.relRank c t = 3) : PL.ahead c s 16 t ∧ PL.relRank c s = 1 ∧ (s + t) / 2 = m := by
  revert h1 h2 h3
  cases c <;> simp only [PL.ahead, PL.relRank] <;> omega

theorem block_iff (cx : Ctx b K) (hS : Single b K A) :
    cmBlock b K A = true ↔
      ∃ s t pr, s < 64 ∧ t < 64 ∧ pr < 8 ∧ b.pieceAt s ≠ .king ∧ (SB K A).getLsbD t = true ∧
        PL.PL b s t pr ∧ ¬ IsEp b s t ∧ ¬ Chk b ((b.occ &&& ~~~ bit s) ||| bit t) (bit t) K := by
  unfold cmBlock
  rw [cmBlocked_eq cx.hK hS.hA, any_bits_iff]
  constructor
  · rintro ⟨d, hd, hmem, hflag⟩
    rw [block_get cx.wf _ _ d hd] at hmem
    obtain ⟨hown, hcase⟩ := hmem
    rw [Bool.not_eq_true', ← Bool.not_eq_true, sliderHits_iff0 cx.wf _ K cx.hK] at hflag
    rcases hcase with ⟨t, ht, htb, hk, hatt⟩ | ⟨hp, t, ht, htb, hah⟩ | ⟨hp, t, m, ht, hm, htb, hr, hah1, hocc, hah2⟩
    · have hk' : IsOfficer (b.pieceAt d) := hk
      have htv := blocked_vacant cx hS.hA hS.chk t htb
      refine ⟨d, t, 0, hd, ht, by decide, officer_ne_king hk', htb,
        PL_of_officer cx d t hd ht hown (not_own_of_vacant t htv) hk' hatt, not_isEp_of_officer d t hk', ?_⟩
      exact fun hc => hflag ((block_occ_equiv cx hS d t hd ht hown htb).1 hc)
    · have htv := blocked_vacant cx hS.hA hS.chk t htb
      have hpush : PL.PLpush1 b d t ∨ PL.PLpush2 b d t := Or.inl ⟨hah, htv⟩
      refine ⟨d, t, promoFor b d, hd, ht, promoFor_lt d, by rw [hp]; decide, htb,
        PL_of_push cx d t hd hown hp hpush, not_isEp_of_push d t hpush, ?_⟩
      exact fun hc => hflag ((block_occ_equiv cx hS d t hd ht hown htb).1 hc)
    · have htv := blocked_vacant cx hS.hA hS.chk t htb
      obtain ⟨h16, h1, hmid⟩ := push2_of_mid b.stm d m t ht hah1 hah2 hr
      have hpush : PL.PLpush1 b d t ∨ PL.PLpush2 b d t := Or.inr ⟨h16, h1, htv, by rw [hmid]; exact hocc⟩
      refine ⟨d, t, promoFor b d, hd, ht, promoFor_lt d, by rw [hp]; decide, htb,
        PL_of_push cx d t hd hown hp hpush, not_isEp_of_push d t hpush, ?_⟩
      exact fun hc => hflag ((block_occ_equiv cx hS d t hd ht hown htb).1 hc)
  · rintro ⟨s, t, pr, hs, ht, _, hnk, htb, hPL, hne, hsafe⟩
    obtain ⟨hown, _, _⟩ := (PL_iff_kind cx.wf s t pr hs).1 hPL
    have htv := blocked_vacant cx hS.hA hS.chk t htb
    refine ⟨s, hs, ?_, ?_⟩
    · rw [block_get cx.wf _ _ s hs]
      refine ⟨hown, ?_⟩
      rcases PL_vacant_cases cx s t pr hs ht hPL hnk htv hne with ⟨hk, hatt⟩ | ⟨hp, h | h⟩
      · exact Or.inl ⟨t, ht, htb, hk, hatt⟩
      · exact Or.inr (Or.inl ⟨hp, t, ht, htb, h.1⟩)
      · obtain ⟨hm, ha1, ha2, hr⟩ := push2_mid b.stm s t hs h.1 h.2.1
        exact Or.inr (Or.inr ⟨hp, t, (s + t) / 2, ht, hm, htb, hr, ha1, h.2.2.2, ha2⟩)
    · rw [Bool.not_eq_true', ← Bool.not_eq_true, sliderHits_iff0 cx.wf _ K cx.hK]
      exact fun hsc => hsafe ((block_occ_equiv cx hS s t hs ht hown htb).2 hsc)

end ChessVerif.Mate
