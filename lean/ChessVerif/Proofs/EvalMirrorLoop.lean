/-
  C17: the piece loop and the king-attack accumulators under the mirror image.
-/
import ChessVerif.Proofs.EvalMirrorTerms

namespace ChessVerif.Eval
open ChessVerif

variable {S : Type} {o : Ops S} (cs : CoeffSet S) (i : EvalInput)

/-! ### mobility and outposts -/

theorem rookMobilityTerms_mirror (ph : Nat) (c : Color) (s : Nat) (hs : s < 64) :
    rookMobilityTerms o cs (mirrorInput i) ph c (s ^^^ 56) ((mirrorInput i).pieceAttacks .rook (s ^^^ 56))
      = rookMobilityTerms o cs i ph c.flip s (i.pieceAttacks .rook s) := by
  simp only [rookMobilityTerms, pieceAttacks_mirror i _ s hs, rankMask_flip s hs, col_mirror, pc_mirror,
    ← flipBB_not, ← flipBB_and, popcount_flip, flip_bne_zero]

theorem bishopMobilityTerms_mirror (ph : Nat) (c : Color) (s : Nat) (hs : s < 64) :
    bishopMobilityTerms o cs (mirrorInput i) ph c ((mirrorInput i).pieceAttacks .bishop (s ^^^ 56))
      = bishopMobilityTerms o cs i ph c.flip (i.pieceAttacks .bishop s) := by
  simp only [bishopMobilityTerms, pieceAttacks_mirror i _ s hs, col_mirror, ← flipBB_not, ← flipBB_and,
    popcount_flip]

theorem knightMobilityTerms_mirror (ph : Nat) (c : Color) (s : Nat) (hs : s < 64) :
    knightMobilityTerms o cs (mirrorInput i) ph c ((mirrorInput i).pieceAttacks .knight (s ^^^ 56))
        ((mirrorInput i).pawnAtt c.flip)
      = knightMobilityTerms o cs i ph c.flip (i.pieceAttacks .knight s) (i.pawnAtt c.flip.flip) := by
  simp only [knightMobilityTerms, pieceAttacks_mirror i _ s hs, col_mirror, pawnAtt_mirror, ← flipBB_not,
    ← flipBB_and, popcount_flip]

theorem knightOutpostTerms_mirror (ph : Nat) (c : Color) (s : Nat) (hs : s < 64) :
    knightOutpostTerms o cs ph c (s ^^^ 56) ((mirrorInput i).holes c.flip &&& (mirrorInput i).pawnAtt c)
      = knightOutpostTerms o cs ph c.flip s (i.holes c.flip.flip &&& i.pawnAtt c.flip) := by
  simp only [knightOutpostTerms, holes_mirror, pawnAtt_mirror, ← flipBB_and, ← flipBB_bit s hs, flip_bne_zero]
  cases c <;> simp [Color.flip, xor56_xor56]

/-! ### the first colour loop -/

theorem loopTerms_mirror (hk : OneKing i) (ph : Nat) (c : Color) :
    (loopTerms o cs (mirrorInput i) ph c).Perm (loopTerms o cs i ph c.flip) := by
  unfold loopTerms
  simp only [own_mirror]
  refine List.Perm.append (List.Perm.append (List.Perm.append (List.Perm.append (List.Perm.append ?_ ?_) ?_) ?_) ?_) ?_
  · exact map_bits_flip _ _ _ fun s _ => psqt_mirror cs ph c .queen s
  · apply flatMap_bits_flip
    intro s hs
    rw [rookMobilityTerms_mirror cs i ph c s (bits_lt hs), psqt_mirror]
  · apply flatMap_bits_flip
    intro s hs
    rw [bishopMobilityTerms_mirror cs i ph c s (bits_lt hs), psqt_mirror]
  · apply flatMap_bits_flip
    intro s hs
    rw [knightMobilityTerms_mirror cs i ph c s (bits_lt hs), knightOutpostTerms_mirror cs i ph c s (bits_lt hs),
      psqt_mirror]
  · exact map_bits_flip _ _ _ fun s _ => psqt_mirror cs ph c .pawn s
  · rw [kingSq_mirror i hk, psqt_mirror]

/-! ### king attacks -/

theorem attackPieceTerms_mirror (hk : OneKing i) (ph : Nat) (c : Color) :
    (attackPieceTerms o cs (mirrorInput i) ph c).Perm (attackPieceTerms o cs i ph c.flip) := by
  unfold attackPieceTerms
  apply perm_flatMap_congr
  intro p _
  rw [own_mirror]
  apply flatMap_bits_flip
  intro s hs
  rw [kingNb_mirror i hk, pieceAttacks_mirror i p s (bits_lt hs), ← flipBB_and, flip_bne_zero]

theorem safeCheckTerms_mirror (hk : OneKing i) (ph : Nat) (c : Color) :
    safeCheckTerms o cs (mirrorInput i) ph c = safeCheckTerms o cs i ph c.flip := by
  simp only [safeCheckTerms, safeChecks_mirror i hk, popcount_flip]

theorem shelterTerm_mirror (hk : OneKing i) (ph : Nat) (c : Color) :
    shelterTerm o cs (mirrorInput i) ph c = shelterTerm o cs i ph c.flip := by
  simp only [shelterTerm, shelterPawns_mirror i hk]

theorem kaTerms_mirror (hk : OneKing i) (ph : Nat) (c : Color) :
    (kaTerms o cs (mirrorInput i) ph c).Perm (kaTerms o cs i ph c.flip) := by
  have ha := attackPieceTerms_mirror cs i hk (o := o) ph
  have hs := safeCheckTerms_mirror cs i hk (o := o) ph
  have ht := shelterTerm_mirror cs i hk (o := o) ph
  cases c
  · simp only [kaTerms, Color.flip]
    have := ha .white; have h2 := hs .white; have h3 := ht .white
    simp only [Color.flip] at this h2 h3
    rw [h2, h3]
    exact this.append List.perm_append_comm
  · simp only [kaTerms, Color.flip]
    have := ha .black; have h2 := hs .black; have h3 := ht .black
    simp only [Color.flip] at this h2 h3
    rw [h2, h3]
    exact this.append List.perm_append_comm

theorem kingAttackTerm_mirror (L : LawfulAdd o) (hk : OneKing i) (ph : Nat) (c : Color) :
    kingAttackTerm o cs (mirrorInput i) ph c = kingAttackTerm o cs i ph c.flip := by
  unfold kingAttackTerm
  rw [sum_perm L (kaTerms_mirror cs i hk ph c)]

/-! ### all addends of one accumulator -/

theorem spTerms_mirror (L : LawfulAdd o) (hk : OneKing i) (ph : Nat) (c : Color) :
    (spTerms o cs (mirrorInput i) ph c).Perm (spTerms o cs i ph c.flip) := by
  unfold spTerms
  rw [pieceValueTerms_mirror, tempoTerms_mirror, bishopPairTerms_mirror, doubledTerms_mirror,
    isolatedTerms_mirror, kingAttackTerm_mirror cs i L hk]
  refine List.Perm.append (List.Perm.append (List.Perm.append (List.Perm.append ?_ (List.Perm.refl _))
    (List.Perm.refl _)) ?_) (List.Perm.refl _)
  · exact List.Perm.append (List.Perm.refl _) (passerTerms_mirror cs i hk ph c)
  · exact loopTerms_mirror cs i hk ph c

theorem sum_spTerms_mirror (L : LawfulAdd o) (hk : OneKing i) (ph : Nat) (c : Color) :
    sum o (spTerms o cs (mirrorInput i) ph c) = sum o (spTerms o cs i ph c.flip) :=
  sum_perm L (spTerms_mirror cs i L hk ph c)

end ChessVerif.Eval
