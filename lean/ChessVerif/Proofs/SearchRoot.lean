/-
  The root analysis behind "the null move is returned only if the root is final":
  a ply-0 PV node whose value lies strictly inside its window either has a non-empty PV row, or has
  no playable move, or the position is drawn by clock/repetition — unless one of the two anomalies
  recorded in `St.anomaly` happened.
-/
import ChessVerif.Proofs.SearchGo

namespace ChessVerif
namespace Search

variable {σ π : Type} [PsInv σ]

omit [PsInv σ] in
theorem flag_anomaly (s : St σ) (a : Bool) : (s.flag a).anomaly = (s.anomaly || a) := rfl
omit [PsInv σ] in
theorem flag_aborted (s : St σ) (a : Bool) : (s.flag a).aborted = s.aborted := rfl
omit [PsInv σ] in
theorem setPs_aborted (s : St σ) (ps : σ) : (s.setPs ps).aborted = s.aborted := rfl
omit [PsInv σ] in
theorem setPs_anomaly (s : St σ) (ps : σ) : (s.setPs ps).anomaly = s.anomaly := rfl
omit [PsInv σ] in
theorem popFrame_aborted (s : St σ) : s.popFrame.aborted = s.aborted := rfl
omit [PsInv σ] in
theorem popFrame_anomaly (s : St σ) : s.popFrame.anomaly = s.anomaly := rfl

omit [PsInv σ] in
/-- `abAfter` at ply 0: a return is an abort or a fail-high; otherwise `failLow` is cleared only
    together with an insertion into row 0. -/
theorem abAfter_root (c : Comp σ π) (L : Limits) (x : ABCtx) (hx : x.ply = 0) (m : Move) (r : Board.Reverse)
    (l : ABLoop π) (value : Score) (s : St σ) :
    let o := abAfter c L x m r l value s
    (∀ v, o.1 = .ret v → o.2.aborted = true ∨ v ≥ x.beta) ∧
    (∀ l', (o.1 = .cont l' ∨ o.1 = .brk l') → l'.hasLegal = l.hasLegal ∧
      (l'.failLow = false → (l.failLow = false ∧ o.2.pv = s.pv) ∨ ∃ rest, o.2.pv.row 0 = m :: rest)) := by
  simp only [abAfter]
  have hat := abort_true_iff L (s.setBoard (s.board.undoMove m r)).pop
  have hp := (abort_pv L (s.setBoard (s.board.undoMove m r)).pop).1
  generalize abort L (s.setBoard (s.board.undoMove m r)).pop = as at hat hp ⊢
  split
  · next h =>
    refine ⟨fun v _ => Or.inl (by rw [← hat]; exact h), fun l' h' => by rcases h' with h' | h' <;> cases h'⟩
  · split
    · split
      · next hge =>
        refine ⟨fun v hv => ?_, fun l' h' => by rcases h' with h' | h' <;> cases h'⟩
        cases hv; exact Or.inr hge
      · have hins : ∃ rest, (as.2.setPv (as.2.pv.insert x.ply.toNat m)).pv.row 0 = m :: rest := by
          rw [hx]; exact ⟨_, insert_row_self _ _ _⟩
        split
        · refine ⟨(fun v hv => by cases hv), fun l' h' => ?_⟩
          rcases h' with h' | h' <;> cases h'
          exact ⟨rfl, fun _ => Or.inr hins⟩
        · refine ⟨(fun v hv => by cases hv), fun l' h' => ?_⟩
          rcases h' with h' | h' <;> cases h'
          exact ⟨rfl, fun _ => Or.inr hins⟩
    · split
      · refine ⟨(fun v hv => by cases hv), fun l' h' => ?_⟩
        rcases h' with h' | h' <;> cases h'
        exact ⟨rfl, fun hfl => Or.inl ⟨hfl, hp⟩⟩
      · refine ⟨(fun v hv => by cases hv), fun l' h' => ?_⟩
        rcases h' with h' | h' <;> cases h'
        exact ⟨rfl, fun hfl => Or.inl ⟨hfl, hp⟩⟩

theorem playable_nil_of {K : Keys} {b : Board} (h : ∀ m, m ∈ MoveGen.gen b → m ∉ MoveGen.playable K b) :
    MoveGen.playable K b = [] := by
  unfold MoveGen.playable
  rw [List.filter_eq_nil_iff]
  intro m hm hp
  exact h m hm (by unfold MoveGen.playable; exact List.mem_filter.2 ⟨hm, hp⟩)

/-- the post-condition of the root move loop. -/
def RootLoopPost (K : Keys) (b : Board) (beta : Score) (o : Flow (ABLoop π) × St σ) : Prop :=
  match o.1 with
  | .ret v => o.2.aborted = true ∨ v ≥ beta
  | .done l' => (l'.hasLegal = false → MoveGen.playable K b = []) ∧ (l'.failLow = false → o.2.pv.row 0 ≠ [])

theorem abLoop_root (c : Comp σ π) (L : Limits) {Good : Board → Prop} (hl : Laws c Good) (child : Child σ)
    (hc : ABSpec c L Good child) (x : ABCtx) (hx : x.ply = 0) (hmv : Move) :
    ∀ (n : Nat) (l : ABLoop π) (s : St σ), Good s.board → NodeOK s → HashOK c s.board hmv →
      Reach c s.board hmv l.pick l.yielded →
      (l.hasLegal = false → ∀ m, m ∈ l.yielded → m ∉ MoveGen.playable c.keys s.board) →
      (l.failLow = false → s.pv.row 0 ≠ []) →
      RootLoopPost c.keys s.board x.beta (abLoop c L child x n l s) := by
  have h0 : 0 ≤ x.ply := by rw [hx]; exact Int.le_refl 0
  have h1 : x.ply < 63 := by rw [hx]; decide
  intro n
  induction n with
  | zero => intro l s _ _ _ _ _ _; exact Or.inl rfl
  | succ n ih =>
    intro l s hg hn hhash hreach hyl hfl
    simp only [abLoop]
    split
    · next hnone =>
      refine ⟨fun hh => ?_, hfl⟩
      have hall := hl.pick_complete _ _ _ _ _ _ hg hhash hreach hn.1 hnone
      exact playable_nil_of (fun m hm => hyl hh m (hall m hm))
    · next m pk hpick =>
      have hmem : m ∈ MoveGen.gen s.board := hl.pick_mem _ _ _ _ _ _ _ _ hg hhash hreach hn.1 hpick
      have hreach' : Reach c s.board hmv pk (m :: l.yielded) := Reach.next hreach hn.1 hpick
      have hu := hl.undo_make s.board m hg hmem
      split
      · next hchk =>
        rw [hu, setBoard_self]
        refine ih _ s hg hn hhash hreach' (fun hh m' hm' => ?_) hfl
        rcases List.mem_cons.1 hm' with e | e
        · subst e; intro hp; have := (mem_playable.1 hp).2; simp [this] at hchk
        · exact hyl hh m' e
      · next hchk =>
        have hchk' : (s.board.makeMove c.keys m).1.inCheck s.board.stm = false := by simpa using hchk
        have hg' := hl.good_make s.board m hg hn.2 hmem hchk'
        generalize hl2 : abEnter { l with pick := pk, yielded := m :: l.yielded } (s.board.pieceAt (s.board.captureSq m)) m = l2
        have hl2legal : l2.hasLegal = true := by rw [← hl2]; rfl
        have hl2fl : l2.failLow = l.failLow := by rw [← hl2]; rfl
        have hsm := searchMove_spec c L child hc x l2 (nextNodeType x.nt l2.moveCnt)
          ((s.setBoard (s.board.makeMove c.keys m).1).push
            { piece := s.board.pieceAt (Move.src m), to := Move.dst m, score := x.staticEval }) hg' hn.1 h0 h1
        simp only at hsm
        generalize searchMove c child x l2 (nextNodeType x.nt l2.moveCnt)
          ((s.setBoard (s.board.makeMove c.keys m).1).push
            { piece := s.board.pieceAt (Move.src m), to := Move.dst m, score := x.staticEval }) = r at hsm ⊢
        obtain ⟨hsf, hsrows, _⟩ := hsm
        have hub : r.2.board.undoMove m (s.board.makeMove c.keys m).2 = s.board := by
          rw [hsf.board]; simpa using hu
        have ha := abAfter_spec c L hl x m (s.board.makeMove c.keys m).2 l2 r.1 r.2
          (by rw [hub]; exact hg) (by rw [hub]; exact hmem)
        have har := abAfter_root c L x hx m (s.board.makeMove c.keys m).2 l2 r.1 r.2
        simp only at ha har
        generalize abAfter c L x m (s.board.makeMove c.keys m).2 l2 r.1 r.2 = o at ha har ⊢
        obtain ⟨hm1, hb1, _, _, _, hpick'⟩ := ha
        have hok' : PsInv.ok o.2.ps := hm1.ps_ok (hsf.mono.ps_ok hn.1)
        obtain ⟨hret, hcb⟩ := har
        have hboard : o.2.board = s.board := by rw [hb1, hsf.board]; simpa using hu
        have hrow0 : r.2.pv.row 0 = s.pv.row 0 := by
          have := hsrows 0 (Nat.zero_le _); simpa using this
        -- the loop variables after this move
        have hnext : ∀ l', (o.1 = .cont l' ∨ o.1 = .brk l') →
            l'.hasLegal = true ∧ (l'.failLow = false → o.2.pv.row 0 ≠ []) := by
          intro l' h'
          obtain ⟨e1, e2⟩ := hcb l' h'
          refine ⟨e1.trans hl2legal, fun hh => ?_⟩
          rcases e2 hh with ⟨hf0, hpv⟩ | ⟨rest, hr⟩
          · rw [hpv, hrow0]; exact hfl (hl2fl ▸ hf0)
          · rw [hr]; exact List.cons_ne_nil _ _
        obtain ⟨st, s'⟩ := o
        cases st with
        | ret v => exact hret v rfl
        | brk l' =>
          obtain ⟨e1, e2⟩ := hnext l' (Or.inr rfl)
          exact ⟨(fun hh => by rw [e1] at hh; cases hh), e2⟩
        | cont l' =>
          obtain ⟨e1, e2⟩ := hnext l' (Or.inl rfl)
          simp only at hboard e2 ⊢
          have hr2 : Reach c s'.board hmv l'.pick l'.yielded := by
            obtain ⟨hy, w, hw⟩ := hpick' l' (Or.inl rfl)
            rw [hboard, hy, hw, ← hl2]
            exact Reach.weight hreach'
          have := ih l' s' (by rw [hboard]; exact hg) ⟨hok', by rw [hboard]; exact hn.2⟩ (by rw [hboard]; exact hhash) hr2
            (fun hh => by rw [e1] at hh; cases hh) e2
          rw [hboard] at this
          exact this

omit [PsInv σ] in
theorem nullMove_ge (c : Comp σ π) (child : Child σ) (beta : Score) (d ply : Int) (se : Score) (s : St σ) (v : Score)
    (h : (nullMove c child beta d ply se s).1 = some v) : v ≥ beta := by
  simp only [nullMove] at h
  split at h
  · next hge =>
    simp only [Option.some.injEq] at h
    subst h
    split
    · exact Int.le_refl _
    · exact hge
  · cases h

/-- the conclusion of the root analysis for a state `s'` reached from root board `b`. -/
def RootOut (K : Keys) (b : Board) (s' : St σ) : Prop :=
  s'.pv.row 0 ≠ [] ∨ Final K b ∨ s'.anomaly = true

theorem abMoves_root (c : Comp σ π) (L : Limits) {Good : Board → Prop} (hl : Laws c Good) (child : Child σ)
    (hc : ABSpec c L Good child) (alpha beta : Score) (d : Int) (nt : NodeType) (inCheck improving : Bool) (se : Score)
    (hm : Move) (s : St σ) (hg : Good s.board) (hn : NodeOK s) (hhash : HashOK c s.board hm) :
    let o := abMoves c L child alpha beta d 0 nt inCheck improving se hm s
    o.2.aborted = false → alpha < o.1 → o.1 < beta → RootOut c.keys s.board o.2 := by
  simp only [abMoves]
  generalize hx : ABCtx.mk alpha beta (if c.iir nt d hm then wrapS8 (d - 1) else d) 0 nt inCheck improving se = x
  have hxp : x.ply = 0 := by rw [← hx]
  have hxb : x.beta = beta := by rw [← hx]
  have h := abLoop_root c L hl child hc x hxp hm ((MoveGen.gen s.board).length + 1)
    { alpha := alpha, bestMove := 0, hasLegal := false, failLow := true, maxim := -Inf - 1, moveCnt := 0, quietCnt := 0,
      pick := c.pickInit s.board hm, yielded := [] } s.pushFrame hg hn hhash Reach.init (fun _ m hm => by cases hm)
      (fun hh => by cases hh)
  generalize abLoop c L child x ((MoveGen.gen s.board).length + 1)
    { alpha := alpha, bestMove := 0, hasLegal := false, failLow := true, maxim := -Inf - 1, moveCnt := 0, quietCnt := 0,
      pick := c.pickInit s.board hm, yielded := [] } s.pushFrame = r at h ⊢
  unfold RootLoopPost at h
  obtain ⟨fl, s'⟩ := r
  cases fl with
  | ret v =>
    simp only at h ⊢
    intro hab _ hlt
    rcases h with h | h
    · rw [popFrame_aborted] at hab; rw [h] at hab; cases hab
    · rw [hxb] at h; exact absurd hlt (Int.not_lt.2 h)
  | done l =>
    simp only at h ⊢
    intro _ hgt _
    obtain ⟨hno, hfl⟩ := h
    cases hleg : l.hasLegal with
    | false => exact Or.inr (Or.inl (Or.inl (by simpa using hno hleg)))
    | true =>
      cases hf : l.failLow with
      | false => exact Or.inl (by simpa using hfl hf)
      | true =>
        simp only [hleg, Bool.not_true, Bool.false_eq_true, if_false] at hgt
        by_cases hmx : l.maxim > alpha
        · right; right
          simp [flag_anomaly, hmx]
        · exact absurd hgt hmx

theorem abPrune_root (c : Comp σ π) (L : Limits) {Good : Board → Prop} (hl : Laws c Good) (child : Child σ)
    (hc : ABSpec c L Good child) (alpha beta : Score) (d : Int) (nt : NodeType) (inCheck improving : Bool) (se : Score)
    (hm : Move) (s : St σ) (hg : Good s.board) (hn : NodeOK s) (hhash : HashOK c s.board hm)
    (hic : inCheck = s.board.inCheck s.board.stm) :
    let o := abPrune c L child alpha beta d 0 nt inCheck improving se hm s
    o.2.aborted = false → alpha < o.1 → o.1 < beta → RootOut c.keys s.board o.2 := by
  simp only [abPrune]
  split
  · intro _ _ hlt
    right; right
    simp only [flag_anomaly]
    have : decide (se < beta) = true := by simpa using hlt
    simp [this]
  · split
    · next hnm =>
      have hchk : s.board.inCheck s.board.stm = false := by
        rw [← hic]; cases inCheck
        · rfl
        · simp at hnm
      have hn' := nullMove_spec c L hl child hc beta d (Int.le_refl 0) (by decide) se s hg hn.1 hchk
      have hge := nullMove_ge c child beta d 0 se s
      simp only at hn'
      generalize nullMove c child beta d 0 se s = nm at hn' hge ⊢
      split
      · next v hv => intro _ _ hlt; exact absurd hlt (Int.not_lt.2 (hge v hv))
      · have := abMoves_root c L hl child hc alpha beta d nt inCheck improving se hm nm.2 (by rw [hn'.1.board]; exact hg)
          (hn'.1.nodeOK hn) (by rw [hn'.1.board]; exact hhash)
        rw [hn'.1.board] at this
        exact this
    · exact abMoves_root c L hl child hc alpha beta d nt inCheck improving se hm s hg hn hhash

theorem abBody_root (c : Comp σ π) (L : Limits) {Good : Board → Prop} (hl : Laws c Good) (child : Child σ)
    (hc : ABSpec c L Good child) (alpha beta : Score) (d : Int) (s : St σ) (hg : Good s.board) (hn : NodeOK s) :
    let o := abBody c L child alpha beta d 0 .pv s
    o.2.aborted = false → alpha < o.1 → o.1 < beta → RootOut c.keys s.board o.2 := by
  simp only [abBody]
  split
  · next v heq =>
    exfalso
    split at heq
    · simp at heq
    · cases heq
  · exact abPrune_root c L hl child hc alpha beta d .pv _ _ _ _ s hg hn (hashOK_probe c hn.1 s.board 0) rfl

/-- A ply-0 PV node searched to depth ≠ 0: un-aborted and strictly inside the window ⇒ non-empty
    row 0, or final root, or anomaly. -/
theorem alphaBeta_root (c : Comp σ π) (L : Limits) {Good : Board → Prop} (hl : Laws c Good) (fuel : Nat)
    (alpha beta : Score) (d : Int) (hd : d ≠ 0) (s : St σ) (hg : Good s.board) (hok : PsInv.ok s.ps) :
    let o := alphaBeta c L fuel alpha beta d 0 .pv s
    o.2.aborted = false → alpha < o.1 → o.1 < beta → RootOut c.keys s.board o.2 := by
  cases fuel with
  | zero => intro o hab; exact absurd hab (by simp [o, alphaBeta])
  | succ fuel =>
    simp only [alphaBeta]
    have hq : ¬ (d = 0 ∨ (0 : Int) ≥ maxPlies - 1) := by simp [maxPlies, hd]
    rw [if_neg hq]
    have i1 := incrementNodes_frame L (s.setPv (s.pv.setNull (0 : Int).toNat))
    generalize incrementNodes L (s.setPv (s.pv.setNull (0 : Int).toNat)) = s1 at i1 ⊢
    have a1 := abort_frame L { s1 with abNodes := s1.abNodes + 1 }
    have hat := abort_true_iff L { s1 with abNodes := s1.abNodes + 1 }
    generalize abort L { s1 with abNodes := s1.abNodes + 1 } = as at a1 hat ⊢
    have hb : as.2.board = s.board := by rw [a1.board]; exact i1.board
    split
    · next h => intro hab; rw [← hat, h] at hab; cases hab
    · split
      · next hdraw =>
        intro _ _ _
        right; left
        rw [hb] at hdraw
        rcases hdraw with h | h
        · exact Or.inr (Or.inl h)
        · refine Or.inr (Or.inr ?_)
          have : (min (0 : Int) 1) = 0 := by decide
          rw [this] at h
          omega
      · next hnd =>
        have := abBody_root c L hl (alphaBeta c L fuel) (alphaBeta_spec c L hl fuel) alpha beta d as.2 (by rw [hb]; exact hg)
          ⟨a1.mono.ps_ok (i1.mono.ps_ok hok), fifty_lt_of_not_draw hnd⟩
        rw [hb] at this
        exact this

/-- an in-window result of the aspiration loop of an iteration `idD ≠ 0`. -/
theorem aspiration_root (c : Comp σ π) (L : Limits) {Good : Board → Prop} (hl : Laws c Good) (fuel : Nat) (idD : Int)
    (hd : idD ≠ 0) :
    ∀ (n : Nat) (alpha beta factor : Score) (s : St σ), Good s.board → PsInv.ok s.ps →
      ∀ al be sa s', aspiration c L fuel idD n alpha beta factor s = .ok al be sa s' → RootOut c.keys s.board s' := by
  intro n
  induction n with
  | zero => intro alpha beta factor s _ _ al be sa s' h; simp [aspiration] at h
  | succ n ih =>
    intro alpha beta factor s hg hok al be sa s' h
    have hab := alphaBeta_spec c L hl fuel alpha beta idD 0 .pv s hg hok (Int.le_refl 0)
    have hroot := alphaBeta_root c L hl fuel alpha beta idD hd s hg hok
    simp only [aspiration] at h
    simp only at hroot
    generalize alphaBeta c L fuel alpha beta idD 0 .pv s = r at hab hroot h
    have haf := abort_frame L r.2
    have hap := (abort_pv L r.2).1
    have hat := abort_true_iff L r.2
    generalize abort L r.2 = as at haf hap hat h
    split at h
    · cases h
    · next hna =>
      split at h
      · next hin =>
        cases h
        have hna' : as.2.aborted = false := by rw [← hat]; simpa using hna
        have hrab : r.2.aborted = false := by
          cases hh : r.2.aborted
          · rfl
          · rw [haf.mono.aborted_mono hh] at hna'; cases hna'
        simp only [Bool.and_eq_true, Bool.not_eq_true', decide_eq_false_iff_not] at hin
        have := hroot hrab (Int.not_le.1 hin.1) (Int.not_le.1 hin.2)
        rcases this with h1 | h1 | h1
        · exact Or.inl (by rw [hap]; exact h1)
        · exact Or.inr (Or.inl h1)
        · exact Or.inr (Or.inr (haf.mono.anomaly_mono h1))
      · have := ih _ _ _ as.2 (by rw [haf.board, hab.1.board]; exact hg) (haf.mono.ps_ok (hab.1.mono.ps_ok hok)) al be sa s' h
        rw [haf.board, hab.1.board] at this
        exact this

theorem pickMove_cons (m : Move) (rest : List Move) (old : Move) : pickMove (m :: rest) old = m := rfl

omit [PsInv σ] in
theorem setPondering_board (s : St σ) (p : Bool) : (s.setPondering p).board = s.board := rfl
omit [PsInv σ] in
theorem setPondering_anomaly (s : St σ) (p : Bool) : (s.setPondering p).anomaly = s.anomaly := rfl
omit [PsInv σ] in
theorem setPondering_fuelOut (s : St σ) (p : Bool) : (s.setPondering p).fuelOut = s.fuelOut := rfl

/-- `idLoop` returns the null move only on a final root (or after an anomaly / out of fuel). -/
theorem idLoop_null (c : Comp σ π) (L : Limits) (clock : Clock) {Good : Board → Prop} (hl : Laws c Good) (fuel : Nat)
    (b : Board) (hg : Good b) (hd : 1 ≤ L.depth) :
    ∀ (n : Nat) (idD : Int) (v : IDVars) (s : St σ), s.board = b → PsInv.ok s.ps → 0 ≤ idD → (n : Int) + idD = 64 →
      (2 ≤ idD → v.move ≠ 0 ∨ Final c.keys b ∨ s.anomaly = true ∨ s.fuelOut = true) →
      (idLoop c L clock fuel n idD v s).move = 0 →
        Final c.keys b ∨ (idLoop c L clock fuel n idD v s).st.anomaly = true ∨
          (idLoop c L clock fuel n idD v s).st.fuelOut = true := by
  intro n
  induction n with
  | zero =>
    intro idD v s _ _ _ hn hyp hmv
    simp only [idLoop] at hmv ⊢
    rcases hyp (by omega) with h | h | h | h
    · exact absurd hmv h
    · exact Or.inl h
    · exact Or.inr (Or.inl h)
    · exact Or.inr (Or.inr h)
  | succ n ih =>
    intro idD v s hb hps h0 hn hyp
    simp only [idLoop]
    split
    · next hcond =>
      intro hmv
      simp only at hmv ⊢
      have h2 : 2 ≤ idD := by
        apply Classical.byContradiction
        intro hlt
        have e1 : decide (idD < maxPlies) = true := decide_eq_true (by unfold maxPlies; omega)
        have e2 : decide (idD ≤ L.depth) = true := decide_eq_true (by omega)
        simp [e1, e2] at hcond
      rcases hyp h2 with h | h | h | h
      · exact absurd hmv h
      · exact Or.inl h
      · exact Or.inr (Or.inl h)
      · exact Or.inr (Or.inr h)
    · next hcond =>
      have hlt64 : idD < 64 := by
        apply Classical.byContradiction
        intro hge
        apply hcond
        have e1 : decide (idD < maxPlies) = false := decide_eq_false (by unfold maxPlies; omega)
        simp [e1]
      have hasp := aspiration_spec c L hl fuel idD fuel v.alpha v.beta 1 s (by rw [hb]; exact hg) hps
      have haroot := fun (hd0 : idD ≠ 0) => aspiration_root c L hl fuel idD hd0 fuel v.alpha v.beta 1 s (by rw [hb]; exact hg) hps
      generalize aspiration c L fuel idD fuel v.alpha v.beta 1 s = a at hasp haroot ⊢
      cases a with
      | aborted s' =>
        obtain ⟨hf, _⟩ := hasp
        simp only [Asp.st] at hf
        have hb' : s'.board = b := hf.board.trans hb
        simp only
        split
        · intro hmv
          simp only at hmv
          have hfl := firstLegal_spec c hl s'.board (by rw [hb']; exact hg) (MoveGen.gen s'.board) (fun _ h => h)
          rcases hfl.2 with hp | ⟨_, hn'⟩
          · rw [hmv] at hp
            exact absurd rfl (hl.gen_ne_zero _ _ (by rw [hb']; exact hg) (mem_playable.1 hp).1)
          · left; left; rw [← hb']; exact playable_nil_of hn'
        · next hne => intro hmv; exact absurd hmv hne
      | ok al be sample s' =>
        obtain ⟨hf, hok⟩ := hasp
        simp only [Asp.st] at hf
        obtain ⟨_, hline⟩ := hok al be sample s' rfl
        rw [hb] at hline
        have hb' : s'.board = b := hf.board.trans hb
        have hact : s'.pv.active = s'.pv.row 0 := rfl
        simp only [hact]
        split
        · next hsa => intro hmv; exact absurd hmv hsa.1
        · have hw : wrapS8 (idD + 1) = idD + 1 := by unfold wrapS8; omega
          rw [hw]
          apply ih
          · exact hb'
          · exact hf.mono.ps_ok hps
          · omega
          · push_cast at hn ⊢; omega
          · intro h2
            have hd0 : idD ≠ 0 := by omega
            have hro := haroot hd0 al be sample s' rfl
            rw [hb] at hro
            rcases hro with h | h | h
            · left
              cases hrow : s'.pv.row 0 with
              | nil => exact absurd hrow h
              | cons m rest =>
                rw [pickMove_cons]
                rw [hrow] at hline
                exact hl.gen_ne_zero _ _ hg (mem_playable.1 (legalLine_head hline)).1
            · exact Or.inr (Or.inl h)
            · exact Or.inr (Or.inr (Or.inl h))

theorem go_null_final (c : Comp σ π) (L : Limits) (clock : Clock) {Good : Board → Prop} (hl : Laws c Good) (fuel : Nat)
    (e : Engine σ) (b : Board) (hg : Good b) (hok : PsInv.ok e.ps) (nodes0 : Int) (hd : 1 ≤ L.depth)
    (hfuel : (go c L clock fuel e b nodes0).st.fuelOut = false)
    (hanom : (go c L clock fuel e b nodes0).st.anomaly = false)
    (hnull : (go c L clock fuel e b nodes0).move = 0) : Final c.keys b := by
  have h := idLoop_null c L clock hl fuel b hg hd 64 0
    { alpha := -Inf - 1, beta := Inf + 1, score := 0, move := 0, ponder := 0, reads := 0, ppolls := 0, out := [] }
    (goInit L e b nodes0) rfl hok (Int.le_refl 0) (by decide) (fun h => absurd h (by decide)) hnull
  rcases h with h | h | h
  · exact h
  · exact absurd (show (go c L clock fuel e b nodes0).st.anomaly = true from h) (by rw [hanom]; decide)
  · exact absurd (show (go c L clock fuel e b nodes0).st.fuelOut = true from h) (by rw [hfuel]; decide)

end Search
end ChessVerif
