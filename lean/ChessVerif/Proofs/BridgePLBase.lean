/-
  Fourth layer of the bridge, groundwork: both `PL b f t p` (the set-level predicate of the C05 proof)
  and `Rules.pseudoLegal (abs b) mv` are split by the kind of the man on the origin square into
  "own man on `f`, no own man on `t`, and the clause of that kind" (`PLk` / `RLk`); the promotion codes.
-/
import ChessVerif.Proofs.BridgeIsAttacked
import ChessVerif.Proofs.PLDefs

namespace ChessVerif.Bridge
open ChessVerif Board Rules

/-! ### promotion codes -/

/-- the promotion field of `decodeMove`. -/
def decPromo (pr : Nat) : Option Piece :=
  match pr with
  | 2 => some .knight | 3 => some .bishop | 4 => some .rook | 5 => some .queen
  | 1 => some .pawn | 6 => some .king | 7 => some .none
  | _ => none

theorem decodeMove_eq (m : Move) : decodeMove m = ⟨Move.src m, Move.dst m, decPromo (Move.promo m)⟩ := rfl

theorem decPromo_isNone (pr : Nat) (h : pr < 8) : (decPromo pr).isNone = true ↔ pr = 0 := by
  have : ∀ q : Fin 8, (decPromo q.val).isNone = true ↔ q.val = 0 := by decide
  exact this ⟨pr, h⟩

theorem decPromo_promoPiece (pr : Nat) (h : pr < 8) :
    (match decPromo pr with | some q => isPromoPiece q | none => false) = true ↔ 2 ≤ pr ∧ pr ≤ 5 := by
  have : ∀ q : Fin 8, (match decPromo q.val with | some q => isPromoPiece q | none => false) = true ↔
      2 ≤ q.val ∧ q.val ≤ 5 := by decide
  exact this ⟨pr, h⟩

theorem encode_decPromo (s d pr : Nat) (h : pr < 8) (h7 : pr ≠ 7) :
    encodeMove ⟨s, d, decPromo pr⟩ = Move.mk s d pr := by
  have : pr = 0 ∨ pr = 1 ∨ pr = 2 ∨ pr = 3 ∨ pr = 4 ∨ pr = 5 ∨ pr = 6 := by omega
  rcases this with rfl | rfl | rfl | rfl | rfl | rfl | rfl <;> rfl

/-- re-encoding a decoded 15-bit word gives the word back unless its promotion bits are 7. -/
theorem encode_decode (m : Nat) (hm : m < 32768) (h7 : Move.promo m ≠ 7) : encodeMove (decodeMove m) = m := by
  rw [decodeMove_eq, encode_decPromo _ _ _ (PL.promo_lt m) h7]
  exact PL.mk_parts m hm

theorem decodeMove_src (m : Move) : (decodeMove m).src = Move.src m := rfl
theorem decodeMove_dst (m : Move) : (decodeMove m).dst = Move.dst m := rfl
theorem decodeMove_promo (m : Move) : (decodeMove m).promo = decPromo (Move.promo m) := rfl

/-! ### the rule book's pseudo-legality, split by the kind of the moving man -/

/-- the per-kind clause of `Rules.pseudoLegal` (the inner `match` of the rule book, verbatim). -/
def RLk (p : Pos) (k : Piece) (mv : Mv) : Bool :=
  let c := p.turn
  match k with
    | .pawn =>
      let promoOK := if rank mv.dst == lastRank c then (match mv.promo with | some q => isPromoPiece q | none => false)
                     else mv.promo.isNone
      let df := file mv.dst - file mv.src
      let dr := rank mv.dst - rank mv.src
      promoOK &&
      ( (df == 0 && dr == up c && p.empty mv.dst) ||
        (df == 0 && dr == 2 * up c && rank mv.src == homeRank c + up c &&
            p.empty mv.dst && (between mv.src mv.dst).all p.empty) ||
        (df.natAbs == 1 && dr == up c && (p.hasColor mv.dst c.flip || p.ep == some mv.dst)) )
    | .king => mv.promo.isNone && (manAttacks p (c, .king) mv.src mv.dst || castlingOK p mv)
    | .none => false
    | _ => mv.promo.isNone && manAttacks p (c, k) mv.src mv.dst

/-- own man on the origin: the rule book's test is "no own man on the destination" and the clause
    of the man's kind. -/
theorem pseudoLegal_unfold {b : Board} (hw : WFP b) (mv : Mv) (hf : mv.src < 64) (ht : mv.dst < 64)
    (hs : (b.colorBB b.stm).getLsbD mv.src = true) :
    Rules.pseudoLegal (abs b) mv =
      (!(b.colorBB b.stm).getLsbD mv.dst && RLk (abs b) (b.pieceAt mv.src) mv) := by
  unfold Rules.pseudoLegal
  simp only [abs_turn, hf, ht, decide_true, Bool.true_and]
  rw [abs_at_of_color hw mv.src b.stm hs]
  simp only [beq_self_eq_true, Bool.true_and]
  rw [abs_hasColor hw mv.dst b.stm]
  unfold RLk
  simp only [abs_turn]
  generalize b.pieceAt mv.src = k
  cases k <;> rfl

/-- no own man on the origin: never pseudo-legal. -/
theorem pseudoLegal_not_self {b : Board} (hw : WFP b) (mv : Mv)
    (hs : (b.colorBB b.stm).getLsbD mv.src = false) :
    Rules.pseudoLegal (abs b) mv = false := by
  unfold Rules.pseudoLegal
  cases hat : (abs b).at_ mv.src with
  | none => simp only [Bool.and_false]
  | some m =>
    obtain ⟨c', k⟩ := m
    have := (abs_at_eq_some hw _ _ _).1 hat
    have hne : (c' == (abs b).turn) = false := by
      rw [beq_eq_false_iff_ne, abs_turn]
      intro e; subst e; rw [this.1] at hs; exact Bool.noConfusion hs
    simp only [hne, Bool.false_and, Bool.and_false]

theorem pseudoLegal_iff_kind {b : Board} (hw : WFP b) (mv : Mv) (hf : mv.src < 64) (ht : mv.dst < 64) :
    Rules.pseudoLegal (abs b) mv = true ↔
      (b.colorBB b.stm).getLsbD mv.src = true ∧ (b.colorBB b.stm).getLsbD mv.dst = false ∧
        RLk (abs b) (b.pieceAt mv.src) mv = true := by
  cases hs : (b.colorBB b.stm).getLsbD mv.src
  · rw [pseudoLegal_not_self hw mv hs]
    constructor
    · intro h; exact Bool.noConfusion h
    · rintro ⟨h, _⟩; exact Bool.noConfusion h
  · rw [pseudoLegal_unfold hw mv hf ht hs, Bool.and_eq_true, Bool.not_eq_true']
    exact ⟨fun h => ⟨rfl, h.1, h.2⟩, fun h => ⟨h.2.1, h.2.2⟩⟩

/-! ### the set-level predicate of C05, split the same way -/

/-- the clause of `PL` for a man of kind `k` on the origin square. -/
def PLk (b : Board) (k : Piece) (f t pr : Nat) : Prop :=
  match k with
  | .king => (pr = 0 ∧ (Attacks.kingMoves f).getLsbD t = true) ∨ PL.PLshort b f t pr ∨ PL.PLlong b f t pr
  | .knight => pr = 0 ∧ (Attacks.knightMoves f).getLsbD t = true
  | .bishop => pr = 0 ∧ (Attacks.bishopMoves f b.occ).getLsbD t = true
  | .rook => pr = 0 ∧ (Attacks.rookMoves f b.occ).getLsbD t = true
  | .queen => pr = 0 ∧ (Attacks.bishopMoves f b.occ ||| Attacks.rookMoves f b.occ).getLsbD t = true
  | .pawn => PL.promoOK b f pr ∧ (PL.PLpush1 b f t ∨ PL.PLpush2 b f t ∨ PL.PLcapture b f t ∨ PL.PLep b f t)
  | .none => False

theorem PL_iff_kind {b : Board} (hw : WFP b) (f t pr : Nat) (hf : f < 64) :
    PL.PL b f t pr ↔
      (b.colorBB b.stm).getLsbD f = true ∧ (b.colorBB b.stm).getLsbD t = false ∧
        PLk b (b.pieceAt f) f t pr := by
  have w := fun q hq => hw.piece_iff f hf q hq
  unfold PL.PL PL.PLpiece
  constructor
  · rintro ⟨a, c, h⟩
    refine ⟨a, c, ?_⟩
    rcases h with h | h | h | h | h | h | h | h
    · rw [(w .king (by decide)).1 h.2.1]; exact Or.inl ⟨h.1, h.2.2⟩
    · rw [(w .knight (by decide)).1 h.2.1]; exact ⟨h.1, h.2.2⟩
    · rw [(w .bishop (by decide)).1 h.2.1]; exact ⟨h.1, h.2.2⟩
    · rw [(w .rook (by decide)).1 h.2.1]; exact ⟨h.1, h.2.2⟩
    · rw [(w .queen (by decide)).1 h.2.1]; exact ⟨h.1, h.2.2⟩
    · rw [(w .king (by decide)).1 h.2.2.2.1]; exact Or.inr (Or.inl h)
    · rw [(w .king (by decide)).1 h.2.2.2.1]; exact Or.inr (Or.inr h)
    · rw [(w .pawn (by decide)).1 h.1]; exact ⟨h.2.1, h.2.2⟩
  · rintro ⟨a, c, h⟩
    refine ⟨a, c, ?_⟩
    cases hk : b.pieceAt f <;> rw [hk] at h
    · exact absurd h id
    · exact Or.inr (Or.inr (Or.inr (Or.inr (Or.inr (Or.inr (Or.inr
        ⟨(w .pawn (by decide)).2 hk, h.1, h.2⟩))))))
    · exact Or.inr (Or.inl ⟨h.1, (w .knight (by decide)).2 hk, h.2⟩)
    · exact Or.inr (Or.inr (Or.inl ⟨h.1, (w .bishop (by decide)).2 hk, h.2⟩))
    · exact Or.inr (Or.inr (Or.inr (Or.inl ⟨h.1, (w .rook (by decide)).2 hk, h.2⟩)))
    · exact Or.inr (Or.inr (Or.inr (Or.inr (Or.inl ⟨h.1, (w .queen (by decide)).2 hk, h.2⟩))))
    · rcases h with h | h | h
      · exact Or.inl ⟨h.1, (w .king (by decide)).2 hk, h.2⟩
      · exact Or.inr (Or.inr (Or.inr (Or.inr (Or.inr (Or.inl h)))))
      · exact Or.inr (Or.inr (Or.inr (Or.inr (Or.inr (Or.inr (Or.inl h))))))

/-- a word satisfying `PL` never carries the promotion bits 7. -/
theorem PLk_promo_ne7 {b : Board} (k : Piece) (f t pr : Nat) (h : PLk b k f t pr) : pr ≠ 7 := by
  cases k
  · exact absurd h id
  · have := h.1
    unfold PL.promoOK at this
    split at this <;> omega
  · have := h.1; omega
  · have := h.1; omega
  · have := h.1; omega
  · have := h.1; omega
  · rcases h with h | h | h <;> (have := h.1; omega)

end ChessVerif.Bridge
