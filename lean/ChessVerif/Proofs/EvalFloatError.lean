/-
  C19 (a), float side, part 3: the ROUNDING that remains.  After the exact part
  (Proofs/EvalFloatExact.lean) the float evaluation performs, per result, these inexact operations:

      acc_c   = round (R_c + σF(K_c))              4 × (one per colour and game phase; R_c, K_c exact integers)
      mgScore = round (acc_stm − acc_other)        2 ×
      a, b    = round (mgScore·mgPhase), round (egScore·egPhase)
      v       = round (a + b)
      v'      = round (v · (100 − fifty))
      r₁      = round (v' / 24) ;  result = round (r₁ / 100)

  With `|R_c + σF(K_c)| ≤ 32768` (the closed magnitude check `boundOK`, Proofs/EvalBoundTotal.lean) and the
  rounding law `|round x − x| ≤ (B+1)·2^-53` for `|x| ≤ B` (`round_bound`, subnormals included), the
  accumulated error is at most 917514·2^-53 < 2^-33 ≈ 1.2·10^-10 centipawns (`epsF`); every
  intermediate magnitude stays below 2^29, so nothing overflows (`ok = true`).
  The sigmoid's own arithmetic (`-0.2·(x−50)`, `math.Exp`, `1+e`, `600/·`) is inside `σF`: its total
  deviation from the integer table is what `TableNear σF` bounds by 1/2.
-/
import ChessVerif.Proofs.EvalFloatExact
import ChessVerif.Proofs.EvalBoundShipped

namespace ChessVerif.Eval
open ChessVerif ChessVerif.IEEE

/-- the proved bound on |float evaluation − exact-rational evaluation| (same sigmoid): 2^-33. -/
def epsF : ℚ := 1 / 2 ^ 33

/-! ### closeness bookkeeping -/

theorem close_sub {a b c d da db : ℚ} (h1 : |a - c| ≤ da) (h2 : |b - d| ≤ db) :
    |(a - b) - (c - d)| ≤ da + db := by
  rw [abs_le] at *; constructor <;> linarith

theorem close_add {a b c d da db : ℚ} (h1 : |a - c| ≤ da) (h2 : |b - d| ≤ db) :
    |(a + b) - (c + d)| ≤ da + db := by
  rw [abs_le] at *; constructor <;> linarith

theorem bound_sub {a b A B : ℚ} (h1 : |a| ≤ A) (h2 : |b| ≤ B) : |a - b| ≤ A + B := by
  rw [abs_le] at *; constructor <;> linarith

theorem bound_add {a b A B : ℚ} (h1 : |a| ≤ A) (h2 : |b| ≤ B) : |a + b| ≤ A + B := by
  rw [abs_le] at *; constructor <;> linarith

theorem close_mul {a c d p K : ℚ} (h : |a - c| ≤ d) (hp0 : 0 ≤ p) (hpK : p ≤ K) : |a * p - c * p| ≤ d * K := by
  have e : a * p - c * p = (a - c) * p := by ring
  rw [e, abs_mul, abs_of_nonneg hp0]
  exact mul_le_mul h hpK hp0 (le_trans (abs_nonneg _) h)

theorem bound_mul {c B p K : ℚ} (h : |c| ≤ B) (hp0 : 0 ≤ p) (hpK : p ≤ K) : |c * p| ≤ B * K := by
  rw [abs_mul, abs_of_nonneg hp0]
  exact mul_le_mul h hpK hp0 (le_trans (abs_nonneg _) h)

theorem close_div {a c d k : ℚ} (h : |a - c| ≤ d) (hk : 0 < k) : |a / k - c / k| ≤ d / k := by
  have e : a / k - c / k = (a - c) / k := by ring
  rw [e, abs_div, abs_of_pos hk]
  exact div_le_div_of_nonneg_right h hk.le

theorem bound_div {c B k : ℚ} (h : |c| ≤ B) (hk : 0 < k) : |c / k| ≤ B / k := by
  rw [abs_div, abs_of_pos hk]
  exact div_le_div_of_nonneg_right h hk.le

/-! ### one rounded operation -/

/-- One float operation: the exact operands' result `x` is within `d` of the target `y`, `|y| ≤ B`;
    then the rounded result is within `D ≥ d + (B+d+1)·2^-53` of `y`, is bounded by `B + D`, and does
    not overflow. -/
theorem mk'_step (x y B d D : ℚ) (s ok : Bool) (hxy : |x - y| ≤ d) (hy : |y| ≤ B)
    (hD : d + (B + d + 1) / 2 ^ 53 ≤ D) (hB : B + d ≤ 2 ^ 60) (hok : ok = true) :
    |(F64.mk' x s ok).val - y| ≤ D ∧ |(F64.mk' x s ok).val| ≤ B + D ∧ (F64.mk' x s ok).ok = true := by
  have hd0 : 0 ≤ d := le_trans (abs_nonneg _) hxy
  have hx : |x| ≤ B + d := by
    have := abs_add_le y (x - y)
    have e : y + (x - y) = x := by ring
    rw [e] at this; linarith
  have hr := round_bound x (B + d) hx
  have h1 : |round x - y| ≤ D := by
    have := abs_add_le (round x - x) (x - y)
    have e : round x - x + (x - y) = round x - y := by ring
    rw [e] at this; linarith
  have h2 : |round x| ≤ B + D := by
    have := abs_add_le y (round x - y)
    have e : y + (round x - y) = round x := by ring
    rw [e] at this; linarith
  refine ⟨h1, h2, ?_⟩
  show (ok && finiteQ (round x)) = true
  rw [hok, Bool.true_and]
  apply finiteQ_of_le
  have h3 : |round x| ≤ (B + d) + (B + d + 1) / 2 ^ 53 := abs_round_le x _ hx
  have h4 : (B + d + 1) / 2 ^ 53 ≤ B + d + 1 := by
    apply div_le_self
    · have : 0 ≤ B := le_trans (abs_nonneg _) hy
      linarith
    · norm_num
  have hK : (2 : ℚ) ^ 60 + (2 ^ 60 + 1) ≤ 2 ^ 1000 := by
    have t1 : (2 : ℚ) ^ 62 ≤ 2 ^ 1000 := pow_le_pow_right₀ (by norm_num) (by norm_num)
    have t2 : (2 : ℚ) ^ 60 + (2 ^ 60 + 1) ≤ 2 ^ 62 := by norm_num
    exact le_trans t2 t1
  generalize (2 : ℚ) ^ 1000 = K at hK
  linarith

theorem add_eq_mk' (x y : F64) : F64.add x y =
    F64.mk' (x.val + y.val) (if x.val + y.val = 0 then x.sign && y.sign else decide (x.val + y.val < 0)) (x.ok && y.ok) := rfl
theorem sub_eq_mk' (x y : F64) : F64.sub x y =
    F64.mk' (x.val - y.val) (if x.val - y.val = 0 then x.sign && !y.sign else decide (x.val - y.val < 0)) (x.ok && y.ok) := rfl
theorem mul_eq_mk' (x y : F64) : F64.mul x y = F64.mk' (x.val * y.val) (x.sign != y.sign) (x.ok && y.ok) := rfl
theorem div_eq_mk' (x y : F64) : F64.div x y =
    F64.mk' (x.val / y.val) (x.sign != y.sign) (x.ok && y.ok && decide (y.val ≠ 0)) := rfl

/-! ### the taper -/

/-- the constants of the error chain, in units of 2^-53. -/
def D1 : ℚ := 32769 / 2 ^ 53
def D2 : ℚ := 131076 / 2 ^ 53
def D3 : ℚ := 4718690 / 2 ^ 53
def D4 : ℚ := 12583110 / 2 ^ 53
def D5 : ℚ := 1572883803 / 2 ^ 53
def D6 : ℚ := 78644027 / 2 ^ 53
def D7 : ℚ := 917514 / 2 ^ 53

theorem D7_le_eps : D7 ≤ epsF := by unfold D7 epsF; norm_num

/-- a difference of two accumulators, rounded (`mgScore`, `egScore`). -/
theorem score_step (a b : F64) (A B : ℚ) (ha : |a.val - A| ≤ D1) (hb : |b.val - B| ≤ D1)
    (hA : |A| ≤ 32768) (hB : |B| ≤ 32768) (hao : a.ok = true) (hbo : b.ok = true) :
    |(F64.sub a b).val - (A - B)| ≤ D2 ∧ |(F64.sub a b).val| ≤ 65536 + D2 ∧ (F64.sub a b).ok = true := by
  rw [sub_eq_mk']
  exact mk'_step _ _ 65536 (D1 + D1) D2 _ _ (close_sub ha hb) (by have := bound_sub hA hB; linarith)
    (by unfold D1 D2; norm_num) (by unfold D1; norm_num) (by rw [hao, hbo]; rfl)

/-- **The float taper is within `D7 < 2^-33` of the exact taper**, and does not overflow. -/
theorem taperF_err (σ : ℚ → ℚ) (mg eg : F64) (mgQ egQ : ℚ) (P E fifty : Int)
    (hm : |mg.val - mgQ| ≤ D2) (he : |eg.val - egQ| ≤ D2) (hmQ : |mgQ| ≤ 65536) (heQ : |egQ| ≤ 65536)
    (hmo : mg.ok = true) (heo : eg.ok = true)
    (hP : 0 ≤ P ∧ P ≤ 24) (hE : 0 ≤ E ∧ E ≤ 24) (hf : 0 ≤ fifty ∧ fifty ≤ 100) :
    |((opsF σ).taper mg eg P E fifty).val - (opsQ σ).taper mgQ egQ P E fifty| ≤ D7 ∧
    ((opsF σ).taper mg eg P E fifty).ok = true := by
  -- the integer operands are exact
  obtain ⟨vP, oP⟩ := ofInt_ex P (by omega) (by omega)
  obtain ⟨vE, oE⟩ := ofInt_ex E (by omega) (by omega)
  obtain ⟨vF, oF⟩ := sub_ex (ofInt_ex 100 (by norm_num) (by norm_num)) (ofInt_ex fifty (by omega) (by omega))
    (by omega) (by omega)
  obtain ⟨v24, o24⟩ := ofInt_ex 24 (by norm_num) (by norm_num)
  obtain ⟨v100, o100⟩ := ofInt_ex 100 (by norm_num) (by norm_num)
  have hP0 : (0 : ℚ) ≤ P := by exact_mod_cast hP.1
  have hP1 : (P : ℚ) ≤ 24 := by exact_mod_cast hP.2
  have hE0 : (0 : ℚ) ≤ E := by exact_mod_cast hE.1
  have hE1 : (E : ℚ) ≤ 24 := by exact_mod_cast hE.2
  have hF0 : (0 : ℚ) ≤ ((100 - fifty : Int) : ℚ) := by exact_mod_cast (show (0 : Int) ≤ 100 - fifty by omega)
  have hF1 : ((100 - fifty : Int) : ℚ) ≤ 100 := by exact_mod_cast (show 100 - fifty ≤ (100 : Int) by omega)
  -- a = mg * T(mgPhase), b = eg * T(egPhase)
  obtain ⟨a1, a2, a3⟩ := mk'_step (mg.val * (F64.ofInt P).val) (mgQ * P) (65536 * 24) (D2 * 24) D3
    (mg.sign != (F64.ofInt P).sign) (mg.ok && (F64.ofInt P).ok)
    (by rw [vP]; exact close_mul hm hP0 hP1) (bound_mul hmQ hP0 hP1)
    (by unfold D2 D3; norm_num) (by unfold D2; norm_num) (by rw [hmo, oP]; rfl)
  obtain ⟨b1, b2, b3⟩ := mk'_step (eg.val * (F64.ofInt E).val) (egQ * E) (65536 * 24) (D2 * 24) D3
    (eg.sign != (F64.ofInt E).sign) (eg.ok && (F64.ofInt E).ok)
    (by rw [vE]; exact close_mul he hE0 hE1) (bound_mul heQ hE0 hE1)
    (by unfold D2 D3; norm_num) (by unfold D2; norm_num) (by rw [heo, oE]; rfl)
  rw [← mul_eq_mk'] at a1 a2 a3 b1 b2 b3
  -- v = a + b
  set a := F64.mul mg (F64.ofInt P) with hadef
  set b := F64.mul eg (F64.ofInt E) with hbdef
  obtain ⟨c1, c2, c3⟩ := mk'_step (a.val + b.val) (mgQ * P + egQ * E) (65536 * 24 + 65536 * 24) (D3 + D3) D4
    (if a.val + b.val = 0 then a.sign && b.sign else decide (a.val + b.val < 0)) (a.ok && b.ok)
    (close_add a1 b1) (bound_add (bound_mul hmQ hP0 hP1) (bound_mul heQ hE0 hE1))
    (by unfold D3 D4; norm_num) (by unfold D3; norm_num) (by rw [a3, b3]; rfl)
  rw [← add_eq_mk'] at c1 c2 c3
  set v := F64.add a b with hvdef
  -- v *= 100 - T(fifty)
  set w := F64.sub (F64.ofInt 100) (F64.ofInt fifty) with hwdef
  obtain ⟨e1, e2, e3⟩ := mk'_step (v.val * w.val) ((mgQ * P + egQ * E) * ((100 - fifty : Int) : ℚ))
    ((65536 * 24 + 65536 * 24) * 100) (D4 * 100) D5 (v.sign != w.sign) (v.ok && w.ok)
    (by rw [vF]; exact close_mul c1 hF0 hF1)
    (bound_mul (bound_add (bound_mul hmQ hP0 hP1) (bound_mul heQ hE0 hE1)) hF0 hF1)
    (by unfold D4 D5; norm_num) (by unfold D4; norm_num) (by rw [c3, oF]; rfl)
  rw [← mul_eq_mk'] at e1 e2 e3
  set v' := F64.mul v w with hv'def
  -- / MaxPhase
  have hmp : maxPhase = 24 := rfl
  obtain ⟨f1, f2, f3⟩ := mk'_step (v'.val / (F64.ofInt 24).val)
    ((mgQ * P + egQ * E) * ((100 - fifty : Int) : ℚ) / 24)
    ((65536 * 24 + 65536 * 24) * 100 / 24) (D5 / 24) D6 (v'.sign != (F64.ofInt 24).sign)
    (v'.ok && (F64.ofInt 24).ok && decide ((F64.ofInt 24).val ≠ 0))
    (by rw [v24]; exact close_div e1 (by norm_num))
    (bound_div (bound_mul (bound_add (bound_mul hmQ hP0 hP1) (bound_mul heQ hE0 hE1)) hF0 hF1) (by norm_num))
    (by unfold D5 D6; norm_num) (by unfold D5; norm_num)
    (by rw [e3, o24, v24]; norm_num)
  rw [← div_eq_mk'] at f1 f2 f3
  set r1 := F64.div v' (F64.ofInt 24) with hr1def
  -- / 100
  obtain ⟨g1, g2, g3⟩ := mk'_step (r1.val / (F64.ofInt 100).val)
    ((mgQ * P + egQ * E) * ((100 - fifty : Int) : ℚ) / 24 / 100)
    ((65536 * 24 + 65536 * 24) * 100 / 24 / 100) (D6 / 100) D7 (r1.sign != (F64.ofInt 100).sign)
    (r1.ok && (F64.ofInt 100).ok && decide ((F64.ofInt 100).val ≠ 0))
    (by rw [v100]; exact close_div f1 (by norm_num))
    (bound_div (bound_div (bound_mul (bound_add (bound_mul hmQ hP0 hP1) (bound_mul heQ hE0 hE1)) hF0 hF1)
      (by norm_num)) (by norm_num))
    (by unfold D6 D7; norm_num) (by unfold D6; norm_num)
    (by rw [f3, o100, v100]; norm_num)
  rw [← div_eq_mk'] at g1 g2 g3
  have eQ : (opsQ σ).taper mgQ egQ P E fifty =
      (mgQ * P + egQ * E) * ((100 - fifty : Int) : ℚ) / 24 / 100 := by
    show (mgQ * (P : ℚ) + egQ * (E : ℚ)) * (100 - (fifty : ℚ)) / (maxPhase : ℚ) / 100 = _
    rw [hmp]; push_cast; ring
  have eF : (opsF σ).taper mg eg P E fifty = F64.div r1 (F64.ofInt 100) := by
    show F64.div (F64.div (F64.mul (F64.add (F64.mul mg (F64.ofInt P)) (F64.mul eg (F64.ofInt E)))
      (F64.sub (F64.ofInt 100) (F64.ofInt fifty))) (F64.ofInt maxPhase)) (F64.ofInt 100) = _
    rw [hmp]
  rw [eQ, eF]
  exact ⟨g1, g3⟩

/-! ### the accumulators -/

theorem spLo_nonpos (cs : CoeffSet Int) (ph : Nat) : Bound.spLo cs ph ≤ 0 := by
  unfold Bound.spLo Bound.manLo Bound.constLo Bound.psLo
  have h1 := Bound.lLo_nonpos cs.BishopPair.toList
  have h2 := Bound.lLo_nonpos (Bound.row cs.PSqT (2 * (Piece.king.toNat - 1) + ph))
  omega

theorem spHi_nonneg (cs : CoeffSet Int) (ph : Nat) : 0 ≤ Bound.spHi cs ph := by
  unfold Bound.spHi Bound.manHi Bound.constHi Bound.psHi
  have h1 := Bound.lHi_nonneg cs.BishopPair.toList
  have h2 := Bound.lHi_nonneg (Bound.row cs.PSqT (2 * (Piece.king.toNat - 1) + ph))
  omega

section acc
variable (σ : ℚ → ℚ) (hσ : TableNear σ) (cs : CoeffSet Int) (hb : Bound.boundOK cs = true)
  (i : EvalInput) (hm : ∀ c, Bound.Men15 i c)
include hσ hb hm

/-- the exact accumulator `R + σ(K)` is bounded by 32768 and the float accumulator is its rounding. -/
theorem accF_step (ph : Nat) (hph : ph = 0 ∨ ph = 1) (c : Color) :
    |(sum (opsF σ) (spTerms (opsF σ) (toF cs) i ph c)).val - sum (opsQ σ) (spTerms (opsQ σ) (toQ cs) i ph c)| ≤ D1 ∧
    |sum (opsQ σ) (spTerms (opsQ σ) (toQ cs) i ph c)| ≤ 32768 ∧
    (sum (opsF σ) (spTerms (opsF σ) (toF cs) i ph c)).ok = true := by
  have hb' := hb
  unfold Bound.boundOK at hb'
  simp only [Bool.and_eq_true, decide_eq_true_eq, List.all_cons, List.all_nil, Bool.and_true] at hb'
  obtain ⟨⟨hcs, ⟨⟨hsp0, hkl0⟩, hkh0⟩, ⟨⟨hsp1, hkl1⟩, hkh1⟩⟩, _⟩ := hb'
  have hsp : Bound.spHi cs ph - Bound.spLo cs ph ≤ 32767 := by rcases hph with rfl | rfl <;> assumption
  have hkl : -32768 ≤ Bound.kaLo cs ph := by rcases hph with rfl | rfl <;> assumption
  have hkh : Bound.kaHi cs ph ≤ 32767 := by rcases hph with rfl | rfl <;> assumption
  obtain ⟨⟨rv, ro⟩, _, _⟩ := restF_ex σ cs hcs i ph c
  obtain ⟨kv, ko⟩ := kaF_ex σ cs hcs i ph c
  have hk := Bound.ka_bound cs ph i c (hm c)
  have hs := Bound.sp_bound cs ph i c (hm c)
  rw [accZ_eq] at hs
  have hlo := spLo_nonpos cs ph
  have hhi := spHi_nonneg cs ph
  obtain ⟨t1, t2⟩ := hσ (sum opsZ (kaTerms opsZ cs i ph c)) (by omega) (by omega)
  set R := sum opsZ (restTerms opsZ cs i ph c) with hR
  set K := sum opsZ (kaTerms opsZ cs i ph c) with hK
  have hq := accQ_eq σ cs i ph c
  rw [← hR, ← hK] at hq
  have hRT1 : (-32767 : ℚ) ≤ ((R + sigmTable K : Int) : ℚ) := by exact_mod_cast (show (-32767 : Int) ≤ R + sigmTable K by omega)
  have hRT2 : ((R + sigmTable K : Int) : ℚ) ≤ 32767 := by exact_mod_cast (show R + sigmTable K ≤ (32767 : Int) by omega)
  push_cast at hRT1 hRT2
  have hQ : |(R : ℚ) + σ (K : ℚ)| ≤ 32768 := by
    rw [abs_le]; constructor <;> linarith
  -- the float accumulator
  have eF : sum (opsF σ) (spTerms (opsF σ) (toF cs) i ph c) =
      F64.add (sum (opsF σ) (restTerms (opsF σ) (toF cs) i ph c))
        (liftσ σ (sum (opsF σ) (kaTerms (opsF σ) (toF cs) i ph c))) := by
    rw [spTerms_eq, sum_append_single]; rfl
  rw [eF, hq, add_eq_mk']
  have hval : (sum (opsF σ) (restTerms (opsF σ) (toF cs) i ph c)).val +
      (liftσ σ (sum (opsF σ) (kaTerms (opsF σ) (toF cs) i ph c))).val = (R : ℚ) + σ (K : ℚ) := by
    show _ + σ _ = _
    rw [rv, kv]
  rw [hval]
  obtain ⟨s1, _, s3⟩ := mk'_step ((R : ℚ) + σ (K : ℚ)) ((R : ℚ) + σ (K : ℚ)) 32768 0 D1
    (if (R : ℚ) + σ (K : ℚ) = 0 then
      (sum (opsF σ) (restTerms (opsF σ) (toF cs) i ph c)).sign &&
        (liftσ σ (sum (opsF σ) (kaTerms (opsF σ) (toF cs) i ph c))).sign
     else decide ((R : ℚ) + σ (K : ℚ) < 0))
    ((sum (opsF σ) (restTerms (opsF σ) (toF cs) i ph c)).ok &&
      (liftσ σ (sum (opsF σ) (kaTerms (opsF σ) (toF cs) i ph c))).ok)
    (by simp) hQ (by unfold D1; norm_num) (by norm_num)
    (by
      have : (liftσ σ (sum (opsF σ) (kaTerms (opsF σ) (toF cs) i ph c))).ok = true := ko
      rw [ro, this]; rfl)
  exact ⟨s1, hQ, s3⟩

end acc

/-! ### the whole evaluation -/

/-- **Float evaluation against exact-rational evaluation, same sigmoid** — for every coefficient set
    that passes the closed magnitude check, every input with at most 15 men besides the king per side and
    a halfmove clock in 0..100: the model of `Eval[float64]` never leaves the domain of the float model
    (no overflow, no division by zero) and is within 2^-33 of the exact-rational evaluation. -/
theorem evalF_vs_evalQ (σ : ℚ → ℚ) (hσ : TableNear σ) (cs : CoeffSet Int) (hb : Bound.boundOK cs = true)
    (i : EvalInput) (hm : ∀ c, Bound.Men15 i c) (hf : 0 ≤ i.fifty ∧ i.fifty ≤ 100) :
    (evalCore (opsF σ) (toF cs) i).ok = true ∧
    |(evalCore (opsF σ) (toF cs) i).val - evalCore (opsQ σ) (toQ cs) i| ≤ epsF := by
  have heps : (0 : ℚ) ≤ epsF := by unfold epsF; positivity
  have hcs : cs.all inRange16 = true := by
    unfold Bound.boundOK at hb
    simp only [Bool.and_eq_true] at hb
    exact hb.1.1
  unfold evalCore
  by_cases h1 : insufficientMat i = true
  · simp only [h1, if_true]
    obtain ⟨v0, o0⟩ := ofInt_ex 0 (by norm_num) (by norm_num)
    refine ⟨o0, ?_⟩
    show |(F64.ofInt 0).val - ((0 : Int) : ℚ)| ≤ epsF
    rw [v0]; simpa using heps
  · simp only [h1, Bool.false_eq_true, if_false]
    by_cases h2 : knbvk i = true
    · -- knight + bishop mate: everything is exact
      simp only [h2, if_true]
      obtain ⟨x1, x2, x3⟩ := knbF_ex σ cs hcs i i.stm
      obtain ⟨y1, y2, y3⟩ := knbF_ex σ cs hcs i i.stm.flip
      obtain ⟨sv, so⟩ := sub_ex x1 y1 (by omega) (by omega)
      have hc := hom_cast σ
      have e : ∀ c, sum (opsQ σ) (pieceValueTerms (opsQ σ) (toQ cs) i 1 c ++ knbvkTerms (opsQ σ) (toQ cs) i 1 c) =
          ((sum opsZ (pieceValueTerms opsZ cs i 1 c ++ knbvkTerms opsZ cs i 1 c) : Int) : ℚ) := by
        intro c
        rw [sum_map hc, List.map_append, pieceValueTerms_map hc, knbvkTerms_map hc]
      refine ⟨so, ?_⟩
      rw [e, e]
      show |(F64.sub _ _).val - ((_ : ℚ) - _)| ≤ epsF
      rw [sv]; push_cast
      simpa using heps
    · simp only [h2, Bool.false_eq_true, if_false]
      obtain ⟨a1, a2, a3⟩ := accF_step σ hσ cs hb i hm 0 (Or.inl rfl) i.stm
      obtain ⟨b1, b2, b3⟩ := accF_step σ hσ cs hb i hm 0 (Or.inl rfl) i.stm.flip
      obtain ⟨c1, c2, c3⟩ := accF_step σ hσ cs hb i hm 1 (Or.inr rfl) i.stm
      obtain ⟨d1, d2, d3⟩ := accF_step σ hσ cs hb i hm 1 (Or.inr rfl) i.stm.flip
      obtain ⟨m1, _, m3⟩ := score_step _ _ _ _ a1 b1 a2 b2 a3 b3
      obtain ⟨e1, _, e3⟩ := score_step _ _ _ _ c1 d1 c2 d2 c3 d3
      have hp0 := phaseSum_nonneg i
      have hmp : maxPhase = 24 := rfl
      have key := taperF_err σ _ _ _ _ (min (phaseSum i) maxPhase) (maxPhase - min (phaseSum i) maxPhase) i.fifty
        m1 e1 (by have := bound_sub a2 b2; linarith) (by have := bound_sub c2 d2; linarith) m3 e3
        (by rw [hmp]; omega) (by rw [hmp]; omega) hf
      exact ⟨key.2, le_trans key.1 D7_le_eps⟩

end ChessVerif.Eval
