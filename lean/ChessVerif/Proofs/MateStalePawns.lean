/-
  C09, stalemate: the three pawn exits of `IsStalemate` together decide "some pawn of the side to
  move has a legal move" (king of the side to move on `K`, NOT in check).
  * completeness, one lemma per exit: `stFreePawn_complete` (MateStalePawnsFree),
    `stPawns_complete` (MateStalePawnsLoop), `stEp_complete` (MateStalePawnsEp);
  * `stPawn_sound` — if none of the three exits fires, no pawn has a legal move;
  * `stPawn_iff`   — the disjunction of the three flags ⇔ `HasLegal b .pawn`.
-/
import ChessVerif.Proofs.MateStalePawnsLoop
import ChessVerif.Proofs.MateStalePawnsEp

namespace ChessVerif.Mate.StalePawns
open ChessVerif Board Rules Bridge ChessVerif.Mate

variable {b : Board} {K : Nat}

/-- **soundness of the three pawn exits**: a legal pawn move is an en-passant capture (`stEp`), a
    move of a pawn the king does not see (`stFreePawn`), or a move of a pawn the king sees (`stPawns`). -/
theorem stPawn_sound (cx : Ctx b K) (hnc : ¬ Chk b b.occ 0 K)
    (h1 : stFreePawn b K = false) (h2 : stPawns b K = false) (h3 : stEp b K = false) :
    ¬ HasLegal b .pawn := by
  intro h
  obtain ⟨s, t, pr, hs, ht, hown, hp, _, hcl, hPL, hi⟩ := hasLegal_pawn_elim cx h
  by_cases hie : IsEp b s t
  · rw [stEp_of_move cx hnc hs hown hcl hPL hie hi] at h3
    exact Bool.noConfusion h3
  · have hcl' : PL.PLpush1 b s t ∨ PL.PLpush2 b s t ∨ PL.PLcapture b s t := by
      rcases hcl with h | h | h | h
      · exact Or.inl h
      · exact Or.inr (Or.inl h)
      · exact Or.inr (Or.inr h)
      · exact absurd (ep_isEp hp h) hie
    cases hmp : (maybePinnedBB b K).getLsbD s
    · rw [stFreePawn_of_move cx hs ht hp hown hmp hcl'] at h1
      exact Bool.noConfusion h1
    · rw [stPawns_of_move cx hnc hs ht hp hown hmp hcl' hPL hi] at h2
      exact Bool.noConfusion h2

/-- **the pawn exits of `IsStalemate` are exact**: with the king not in check, one of the three pawn
    tests fires iff some pawn of the side to move has a legal move. -/
theorem stPawn_iff (cx : Ctx b K) (hnc : ¬ Chk b b.occ 0 K) :
    (stFreePawn b K || stPawns b K || stEp b K) = true ↔ HasLegal b .pawn := by
  constructor
  · intro h
    rw [Bool.or_eq_true, Bool.or_eq_true] at h
    rcases h with (h | h) | h
    · exact stFreePawn_complete cx hnc h
    · exact stPawns_complete cx hnc h
    · exact stEp_complete cx hnc h
  · intro h
    cases h1 : stFreePawn b K
    · cases h2 : stPawns b K
      · cases h3 : stEp b K
        · exact absurd h (stPawn_sound cx hnc h1 h2 h3)
        · rfl
      · rfl
    · rfl

end ChessVerif.Mate.StalePawns
