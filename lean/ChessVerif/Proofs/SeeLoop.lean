/-
  C18: from the executable model `See.see` to the abstract loop of Proofs/SeeAbstract.lean, and from
  the recursive specification `SeeSpec.gain` to `SeeSpec.best` on the from-scratch capture sequence.

  * `loop_eq_absLoop`   the model's loop is `absLoop` on the capture sequence the model's geometry
                         (`See.caps`: incrementally maintained attacker set, progress markers) walks;
  * `see_eq_absSee`     the whole `See.see` is `absSee` on `gain0`, `victim1` and that sequence
                         (all `int16` wraps of the header are identities);
  * `gain_eq_best`      the specification's recursion is `best` on its own sequence `SeeSpec.caps`;
  * `see_eq_model_minimax`  `see b m thr = decide (thr ≤ gain0 − best victim1 (See.capsOf b m))`
                         for EVERY board, EVERY 16-bit move word and `|thr| ≤ 2·Q` — no hypothesis;
  * `AttackersIncremental b m` : the two sequences coincide (the geometric half of C18).
  Core Lean only.
-/
import ChessVerif.Model.See
import ChessVerif.Proofs.SeeAbstract

namespace ChessVerif.Proofs.SeeLoop
open ChessVerif SeeSpec ChessVerif.Proofs.SeeAbstract

/-- every entry of `PieceValues` (and the model's default outside the table) lies in `0..10000`. -/
theorem pv_bounds (n : Nat) : 0 ≤ pv n ∧ pv n ≤ 10000 := by
  unfold pv Gen.Heur.pieceValues
  rcases n with _ | _ | _ | _ | _ | _ | _ | n <;> simp

theorem caseBishop_value {b : Board} {to : Nat} {stm : Color} {g g' : See.Geo} {sa : BB} {v : Int}
    (h : See.caseBishop b to stm g sa = .take v g') : 0 ≤ v ∧ v ≤ 20000 := by
  unfold See.caseBishop at h
  simp only at h
  split at h
  · cases h; have := pv_bounds 3; omega
  · split at h
    · cases h; have := pv_bounds 4; omega
    · split at h
      · cases h; have := pv_bounds 5; omega
      · cases h

theorem caseKnight_value {b : Board} {to : Nat} {stm : Color} {g g' : See.Geo} {sa : BB} {v : Int}
    (h : See.caseKnight b to stm g sa = .take v g') : 0 ≤ v ∧ v ≤ 20000 := by
  unfold See.caseKnight at h
  simp only at h
  split at h
  · cases h; have := pv_bounds 2; omega
  · exact caseBishop_value h

theorem casePawn_value {b : Board} {to : Nat} {stm : Color} {g g' : See.Geo} {sa : BB} {v : Int}
    (h : See.casePawn b to stm g sa = .take v g') : 0 ≤ v ∧ v ≤ 20000 := by
  unfold See.casePawn at h
  simp only at h
  split at h
  · cases h; have := pv_bounds 1; omega
  · exact caseKnight_value h

/-- the value the loop subtracts is always one of `PieceValues[Pawn..Queen]`. -/
theorem step_value {b : Board} {to : Nat} {g g' : See.Geo} {v : Int}
    (h : See.step b to g = .take v g') : 0 ≤ v ∧ v ≤ 20000 := by
  unfold See.step at h
  simp only at h
  split at h
  · cases h
  · split at h
    · exact casePawn_value h
    · exact caseKnight_value h
    · exact caseBishop_value h

theorem caps_ok (b : Board) (to : Nat) : ∀ (fuel : Nat) (g : See.Geo), CapsOK (See.caps b to fuel g) := by
  intro fuel
  induction fuel with
  | zero => intro g; exact capsOK_nil
  | succ n ih =>
    intro g
    unfold See.caps
    split
    · exact capsOK_nil
    · intro c hc
      simp only [List.mem_singleton] at hc
      subst hc; trivial
    · rename_i v g' hstep
      intro c hc
      rcases List.mem_cons.1 hc with rfl | hc
      · exact step_value hstep
      · exact ih g' c hc

/-- The model's loop is the abstract loop over the sequence its own geometry walks through. -/
theorem loop_eq_absLoop (b : Board) (to : Nat) :
    ∀ (fuel : Nat) (g : See.Geo) (swap : Int) (res : Bool),
      See.loop b to fuel g swap res = absLoop (See.caps b to fuel g) swap res := by
  intro fuel
  induction fuel with
  | zero => intro g swap res; rfl
  | succ n ih =>
    intro g swap res
    unfold See.loop See.caps
    split
    · rfl
    · rfl
    · rename_i v g' hstep
      cases res <;> simp [absLoop, See.resVal, resVal, ih]

/-- the model's `promoVal` (int16) is the specification's (exact). -/
theorem promoVal_eq (m : Move) : See.promoVal m = SeeSpec.promoVal m := by
  unfold See.promoVal SeeSpec.promoVal
  split
  · have h1 := pv_bounds (Move.promo m)
    have h2 := pv_bounds 1
    exact wrapS16_id (by omega)
  · rfl

/-- For every promotion code inside the `PieceValues` table (code 7 makes Go panic with an index out
    of range) the promotion gain is `0..9900`. -/
theorem promoVal_bounds (m : Move) (hp : Move.promo m ≠ 7) :
    0 ≤ SeeSpec.promoVal m ∧ SeeSpec.promoVal m ≤ 9900 := by
  unfold SeeSpec.promoVal
  have h4 : Move.promo m < 8 := by unfold Move.promo; omega
  generalize Move.promo m = p at hp h4
  have h2 : pv 1 = 100 := by decide
  rcases p with _ | _ | _ | _ | _ | _ | _ | _ | n
  · simp
  all_goals first
    | (simp at hp; done)
    | omega
    | (simp only [pv, Gen.Heur.pieceValues]; simp)

/-- `See.see` is the abstract function on the values and the model's own capture sequence. -/
theorem see_eq_absSee (b : Board) (m : Move) (thr : Int) :
    See.see b m thr = absSee (gain0 b m) (victim1 b m) thr (See.capsOf b m) := by
  unfold See.see absSee gain0 victim1 See.capsOf
  simp only [promoVal_eq, loop_eq_absLoop]

theorem gain0_bounds (b : Board) (m : Move) (hp : Move.promo m ≠ 7) : 0 ≤ gain0 b m ∧ gain0 b m ≤ 20000 := by
  have h1 := promoVal_bounds m hp
  have h2 := pv_bounds (b.pieceAt (b.captureSq m)).toNat
  unfold gain0; omega

theorem victim1_bounds (b : Board) (m : Move) (hp : Move.promo m ≠ 7) : 0 ≤ victim1 b m ∧ victim1 b m ≤ 20000 := by
  have h1 := promoVal_bounds m hp
  have h2 := pv_bounds (b.pieceAt (Move.src m)).toNat
  unfold victim1; omega

/-- the minimax value of the capture sequence the MODEL walks (incremental geometry). -/
def modelValue (b : Board) (m : Move) : Int := gain0 b m - best (victim1 b m) (See.capsOf b m)

/-- **C18 (a) on the model**: for every board, every move word whose promotion code indexes the
    value table, and every threshold with `|thr| ≤ 2·Q`, the static exchange test answers exactly
    `thr ≤ minimax value` of the capture sequence it walks. -/
theorem see_eq_model_minimax (b : Board) (m : Move) (thr : Int) (hp : Move.promo m ≠ 7)
    (ht : -1800 ≤ thr ∧ thr ≤ 1800) :
    See.see b m thr = decide (thr ≤ modelValue b m) := by
  rw [see_eq_absSee]
  exact see_header_eq_minimax (gain0_bounds b m hp) (victim1_bounds b m hp) ht (caps_ok b _ _ _)

/-- The specification's recursion is `best` on the specification's own (from-scratch) sequence. -/
theorem gain_eq_best (b : Board) (t : Nat) :
    ∀ (fuel : Nat) (c : Color) (occ : BB) (v : Int),
      gain b t fuel c occ v = best v (SeeSpec.caps b t fuel c occ) := by
  intro fuel
  induction fuel with
  | zero => intro c occ v; rfl
  | succ n ih =>
    intro c occ v
    unfold gain SeeSpec.caps
    split
    · rfl
    · split
      · rfl
      · rw [best_piece, ih]

theorem seeValue_eq_best (b : Board) (m : Move) :
    seeValue b m = gain0 b m - best (victim1 b m) (SeeSpec.capsOf b m) := by
  unfold seeValue SeeSpec.capsOf
  rw [gain_eq_best]

/-- The geometric half of C18: the sequence of capturers produced with the incrementally
    maintained attacker set (x-rays added only along the line of the piece just lifted, per-side
    progress markers) is the sequence obtained by recomputing the attackers from scratch. -/
def AttackersIncremental (b : Board) (m : Move) : Prop := See.capsOf b m = SeeSpec.capsOf b m

theorem modelValue_eq_seeValue {b : Board} {m : Move} (h : AttackersIncremental b m) :
    modelValue b m = seeValue b m := by
  rw [seeValue_eq_best, modelValue, h]

end ChessVerif.Proofs.SeeLoop
