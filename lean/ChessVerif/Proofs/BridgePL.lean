/-
  Fourth layer of the bridge, assembled: the set-level pseudo-legality predicate `PL` of the C05
  proof is the rule book's `Rules.pseudoLegal` on the abstraction; hence the generator emits, and the
  engine's `IsPseudoLegal` accepts, exactly the (faithfully encoded) moves that obey the piece-movement
  rules of art. 3.
-/
import ChessVerif.Proofs.BridgePLPiece
import ChessVerif.Proofs.BridgePLPawn
import ChessVerif.Proofs.PLValid
import ChessVerif.Proofs.PLGenIff
import ChessVerif.Proofs.PLTest

namespace ChessVerif.Bridge
open ChessVerif Board Rules

/-- the clause of the kind `k` of the man on the origin square: engine side = rule-book side. -/
theorem clause_iff {b : Board} (hw : WFP b) (hcr : CastleRooks b) (f t pr : Nat)
    (hf : f < 64) (ht : t < 64) (hpr : pr < 8) (k : Piece) (hk : b.pieceAt f = k) :
    PLk b k f t pr ↔ RLk (abs b) k ⟨f, t, decPromo pr⟩ = true := by
  cases k
  · exact ⟨fun h => absurd h id, fun h => Bool.noConfusion h⟩
  · exact pawn_clause hw f t pr hf ht hpr
  · exact knight_clause b f t pr hf ht hpr
  · exact bishop_clause b f t pr hf ht hpr
  · exact rook_clause b f t pr hf ht hpr
  · exact queen_clause b f t pr hf ht hpr
  · exact king_clause hw hcr f t pr hf ht hpr hk

/-- **core of layer 4** on the explicit domain: representation invariant and "castling right ⇒ rook
    at home" are the only facts about the position that are used. -/
theorem PL_iff_pseudoLegal_core {b : Board} (hw : WFP b) (hcr : CastleRooks b) (f t pr : Nat)
    (hf : f < 64) (ht : t < 64) (hpr : pr < 8) :
    PL.PL b f t pr ↔ Rules.pseudoLegal (abs b) ⟨f, t, decPromo pr⟩ = true := by
  rw [PL_iff_kind hw f t pr hf, pseudoLegal_iff_kind hw ⟨f, t, decPromo pr⟩ hf ht]
  show _ ∧ _ ∧ PLk b (b.pieceAt f) f t pr ↔ _ ∧ _ ∧ RLk (abs b) (b.pieceAt f) ⟨f, t, decPromo pr⟩ = true
  rw [clause_iff hw hcr f t pr hf ht hpr (b.pieceAt f) rfl]

/-- a pseudo-legal decoded word never carries the promotion bits 7 (nor 1, 6). -/
theorem PL_promo_ne7 {b : Board} (hw : WFP b) (f t pr : Nat) (hf : f < 64) (h : PL.PL b f t pr) : pr ≠ 7 :=
  PLk_promo_ne7 _ f t pr ((PL_iff_kind hw f t pr hf).1 h).2.2

/-- the same on a move word. -/
theorem PL_iff_pseudoLegal_of {b : Board} (hw : WFP b) (hcr : CastleRooks b) (m : Nat) (hm : m < 32768) :
    PL.PL b (Move.src m) (Move.dst m) (Move.promo m) ↔
      Rules.pseudoLegal (abs b) (decodeMove m) = true ∧ encodeMove (decodeMove m) = m := by
  rw [decodeMove_eq,
    PL_iff_pseudoLegal_core hw hcr _ _ _ (PL.src_lt m) (PL.dst_lt m) (PL.promo_lt m)]
  constructor
  · intro h
    refine ⟨h, ?_⟩
    have hPL := (PL_iff_pseudoLegal_core hw hcr _ _ _ (PL.src_lt m) (PL.dst_lt m) (PL.promo_lt m)).2 h
    have h7 := PL_promo_ne7 hw _ _ _ (PL.src_lt m) hPL
    rw [← decodeMove_eq]
    exact encode_decode m hm h7
  · exact fun h => h.1

/-- **Layer 4.**  For a valid position and a 15-bit move word, the set-level pseudo-legality
    predicate of the C05 proof holds of the word's fields iff the decoded move obeys the rule book's
    piece-movement rules (art. 3.2–3.8) and the word is the faithful encoding of that move. -/
theorem PL_iff_pseudoLegal {b : Board} (hv : Board.valid b = true) (m : Nat) (hm : m < 32768) :
    PL.PL b (Move.src m) (Move.dst m) (Move.promo m) ↔
      Rules.pseudoLegal (abs b) (decodeMove m) = true ∧ encodeMove (decodeMove m) = m :=
  PL_iff_pseudoLegal_of (WFP_of_valid hv) (castleRooks_of_valid hv) m hm

/-- **the generator emits exactly the pseudo-legal moves of the rule book** (as faithful 15-bit words). -/
theorem gen_iff_pseudoLegal {b : Board} (hv : Board.valid b = true) (m : Nat) :
    m ∈ MoveGen.gen b ↔
      m < 32768 ∧ Rules.pseudoLegal (abs b) (decodeMove m) = true ∧ encodeMove (decodeMove m) = m := by
  rw [PL.gen_iff_PL (PL.PLDomain_of_valid hv) m]
  constructor
  · rintro ⟨hm, h⟩; exact ⟨hm, (PL_iff_pseudoLegal hv m hm).1 h⟩
  · rintro ⟨hm, h⟩; exact ⟨hm, (PL_iff_pseudoLegal hv m hm).2 h⟩

/-- **the engine's `IsPseudoLegal` accepts exactly the pseudo-legal moves of the rule book.** -/
theorem isPseudoLegal_iff_pseudoLegal {b : Board} (hv : Board.valid b = true) (m : Nat) (hm : m < 32768) :
    b.isPseudoLegal m = true ↔
      Rules.pseudoLegal (abs b) (decodeMove m) = true ∧ encodeMove (decodeMove m) = m := by
  rw [PL.isPseudoLegal_iff_PL (PL.PLDomain_of_valid hv) m]
  exact PL_iff_pseudoLegal hv m hm

/-- every rule-book pseudo-legal move (with a promotion piece or none) is generated, as its encoding. -/
theorem encode_mem_gen {b : Board} (hv : Board.valid b = true) (mv : Mv)
    (h : Rules.pseudoLegal (abs b) mv = true) :
    encodeMove mv ∈ MoveGen.gen b ∧ decodeMove (encodeMove mv) = mv := by
  have hsd : mv.src < 64 ∧ mv.dst < 64 := by
    unfold Rules.pseudoLegal at h
    simp only [Bool.and_eq_true, decide_eq_true_eq] at h
    exact ⟨h.1.1, h.1.2⟩
  obtain ⟨s, d, q⟩ := mv
  simp only at hsd
  -- the promotion field of a pseudo-legal move is `none` or one of the four promotion pieces
  have hq : q = none ∨ q = some .knight ∨ q = some .bishop ∨ q = some .rook ∨ q = some .queen := by
    have hw := WFP_of_valid hv
    have hk := (pseudoLegal_iff_kind hw ⟨s, d, q⟩ hsd.1 hsd.2).1 h
    have hR := hk.2.2
    simp only at hR
    cases q with
    | none => exact Or.inl rfl
    | some x =>
      right
      have hx : isPromoPiece x = true := by
        unfold RLk at hR
        cases hp : b.pieceAt s <;> rw [hp] at hR <;> simp only [Option.isNone_some, Bool.false_and] at hR
        · exact Bool.noConfusion hR
        · rw [Bool.and_eq_true] at hR
          have h1 := hR.1
          split at h1
          · exact h1
          · exact Bool.noConfusion h1
        all_goals exact Bool.noConfusion hR
      cases x <;> first | exact Bool.noConfusion hx | simp
  have hq' : ∃ pr, pr < 8 ∧ pr ≠ 7 ∧ q = decPromo pr := by
    rcases hq with rfl | rfl | rfl | rfl | rfl
    · exact ⟨0, by decide, by decide, rfl⟩
    · exact ⟨2, by decide, by decide, rfl⟩
    · exact ⟨3, by decide, by decide, rfl⟩
    · exact ⟨4, by decide, by decide, rfl⟩
    · exact ⟨5, by decide, by decide, rfl⟩
  obtain ⟨pr, hpr, h7, rfl⟩ := hq'
  have henc := encode_decPromo s d pr hpr h7
  have hdec : decodeMove (encodeMove ⟨s, d, decPromo pr⟩) = ⟨s, d, decPromo pr⟩ := by
    rw [henc, decodeMove_eq, PL.src_mk s d pr hsd.2 hsd.1, PL.dst_mk s d pr hsd.2,
      PL.promo_mk s d pr hsd.2 hsd.1 hpr]
  refine ⟨?_, hdec⟩
  rw [gen_iff_pseudoLegal hv]
  refine ⟨?_, ?_, ?_⟩
  · rw [henc]; exact PL.mk_lt _ _ _ hsd.2 hsd.1 hpr
  · rw [hdec]; exact h
  · rw [hdec]

end ChessVerif.Bridge
