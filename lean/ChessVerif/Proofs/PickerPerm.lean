/-
  C16: the iterated picker yields every generated move exactly once (up to order), the hash move
  first — for ARBITRARY ranking functions inside the weight bands.

  * `Bands rk`        the designed layout of heur.go: a noisy weight lies in the good-capture band
                      `[Captures, Captures+CaptureRange)` or the bad-capture band
                      `[−Captures−CaptureRange, −Captures)`, a quiet weight within `±3·MaxHistory`;
  * `bands_sep`       with the constants of the source (Gen): every such weight is strictly above
                      the stage-5 threshold `−HashMove+1` (so only the sentinel `−HashMove` is
                      filtered), strictly below `HashMove`, and the quiet band lies strictly between
                      the two capture bands (`3·MaxHistory ≤ Captures`);
  * `yielded_perm_filter`  the moves yielded after the hash move are a permutation of the generated
                      moves different from the hash move;
  * `picker_perm`, `picker_hash_first`.
  Core Lean only.
-/
import ChessVerif.Proofs.PickerRun
import ChessVerif.Gen.Funcs

namespace ChessVerif.Proofs.PickerPerm
open ChessVerif Picker ChessVerif.Proofs.PickerSelect ChessVerif.Proofs.PickerRun
open ChessVerif.Gen.Funcs (Captures CaptureRange MaxHistory HashMove)
set_option autoImplicit false

/-- The weight layout of heur.go for a pair of ranking functions. -/
structure Bands (rk : Rank) : Prop where
  noisy : ∀ m, (Captures ≤ rk.noisy m ∧ rk.noisy m < Captures + CaptureRange) ∨
               (-Captures - CaptureRange ≤ rk.noisy m ∧ rk.noisy m < -Captures)
  quiet : ∀ m, -(3 * MaxHistory) ≤ rk.quiet m ∧ rk.quiet m ≤ 3 * MaxHistory

/-- The separation facts the picker relies on, from the constants of the source. -/
theorem bands_sep {rk : Rank} (h : Bands rk) (m : Move) :
    (Gen.Heur.restThreshold < rk.noisy m ∧ rk.noisy m < Gen.Heur.hashWeight) ∧
    (Gen.Heur.restThreshold < rk.quiet m ∧ rk.quiet m < Gen.Heur.hashWeight) ∧
    (-Captures < rk.quiet m ∧ rk.quiet m < Captures) := by
  have hn := h.noisy m
  have hq := h.quiet m
  simp only [Captures, CaptureRange, MaxHistory, Gen.Heur.restThreshold, Gen.Heur.hashWeight] at *
  omega

/-- sentinels are exactly at/below the stage-5 threshold, and the thresholds are ordered. -/
theorem sentinel_le : Gen.Heur.noisySentinel ≤ Gen.Heur.restThreshold ∧ Gen.Heur.quietSentinel ≤ Gen.Heur.restThreshold ∧
    Gen.Heur.restThreshold ≤ Gen.Heur.goodNoisyThreshold := by decide

/-- "above the stage-5 threshold". -/
def above (w : WMove) : Bool := decide (thrR < w.weight)

theorem above_noisy {rk : Rank} (h : Bands rk) (hm m : Move) :
    above (rankNoisyOne hm rk (alloc m)) = (m != hm) := by
  unfold rankNoisyOne alloc above
  by_cases e : hm = m
  · subst e
    have := sentinel_le.1
    simp only [↓reduceIte, thrR, bne_self_eq_false, decide_eq_false_iff_not]; omega
  · have := (bands_sep h m).1.1
    have e' : (m != hm) = true := by simp; exact fun x => e x.symm
    simp only [e, ↓reduceIte, thrR, e', decide_eq_true_eq]; exact this

theorem above_quiet {rk : Rank} (h : Bands rk) (hm m : Move) :
    above (rankQuietOne hm rk (alloc m)) = (m != hm) := by
  unfold rankQuietOne alloc above
  by_cases e : hm = m
  · subst e
    have := sentinel_le.2.1
    simp only [↓reduceIte, thrR, bne_self_eq_false, decide_eq_false_iff_not]; omega
  · have := (bands_sep h m).2.1.1
    have e' : (m != hm) = true := by simp; exact fun x => e x.symm
    simp only [e, ↓reduceIte, thrR, e', decide_eq_true_eq]; exact this

theorem move_rankNoisyOne (hm : Move) (rk : Rank) (w : WMove) : (rankNoisyOne hm rk w).move = w.move := by
  unfold rankNoisyOne; split <;> rfl
theorem move_rankQuietOne (hm : Move) (rk : Rank) (w : WMove) : (rankQuietOne hm rk w).move = w.move := by
  unfold rankQuietOne; split <;> rfl

/-- the ranked frame restricted to the entries above the stage-5 threshold, as moves:
    the generated moves other than the hash move. -/
theorem filter_above_noisy {rk : Rank} (h : Bands rk) (b : Board) (hm : Move) :
    ((noisyR b hm rk).filter above).map (·.move) = (MoveGen.genNoisy b).filter (· != hm) := by
  unfold noisyR
  rw [List.map_map, List.filter_map, List.map_map]
  have e1 : (above ∘ (rankNoisyOne hm rk ∘ alloc)) = (· != hm) := by
    funext m; exact above_noisy h hm m
  have e2 : ((fun w : WMove => w.move) ∘ (rankNoisyOne hm rk ∘ alloc)) = id := by
    funext m; simp only [Function.comp, move_rankNoisyOne, alloc, id]
  rw [e1, e2, List.map_id]

theorem filter_above_quiet {rk : Rank} (h : Bands rk) (b : Board) (hm : Move) :
    ((quietR b hm rk).filter above).map (·.move) = (MoveGen.genNotNoisy b).filter (· != hm) := by
  unfold quietR
  rw [List.map_map, List.filter_map, List.map_map]
  have e1 : (above ∘ (rankQuietOne hm rk ∘ alloc)) = (· != hm) := by
    funext m; exact above_quiet h hm m
  have e2 : ((fun w : WMove => w.move) ∘ (rankQuietOne hm rk ∘ alloc)) = id := by
    funext m; simp only [Function.comp, move_rankQuietOne, alloc, id]
  rw [e1, e2, List.map_id]

/-- Stage 3 followed by stage 5 (with `n` calls available) yields a permutation of the generated
    moves other than the hash move. -/
theorem stages_perm {rk : Rank} (h : Bands rk) (b : Board) (hm : Move) (n : Nat)
    (hn : (MoveGen.gen b).length ≤ n) :
    (((stage3 b hm rk n).1 ++ (stage5 b hm rk n).1).map (·.move)).Perm ((MoveGen.gen b).filter (· != hm)) := by
  have hlen := gen_length b
  have hnl := noisyR_length b hm rk
  have hql := quietR_length b hm rk
  have s3 := drain_spec thrG n (noisyR b hm rk) (by omega)
  have l3 := drain_length thrG n (noisyR b hm rk) (by omega)
  have s5 := drain_spec thrR (n - (stage3 b hm rk n).1.length) ((stage3 b hm rk n).2 ++ quietR b hm rk) (by
    simp only [stage3, List.length_append]; omega)
  -- everything yielded ++ what is finally left ~ the whole ranked frame
  have p1 : ((stage3 b hm rk n).1 ++ (stage5 b hm rk n).1 ++ (stage5 b hm rk n).2).Perm
      (noisyR b hm rk ++ quietR b hm rk) := by
    have a : ((stage3 b hm rk n).1 ++ ((stage5 b hm rk n).1 ++ (stage5 b hm rk n).2)).Perm
        ((stage3 b hm rk n).1 ++ ((stage3 b hm rk n).2 ++ quietR b hm rk)) := List.Perm.append_left _ s5.1
    have c : ((stage3 b hm rk n).1 ++ (stage3 b hm rk n).2 ++ quietR b hm rk).Perm
        (noisyR b hm rk ++ quietR b hm rk) := List.Perm.append_right _ s3.1
    rw [List.append_assoc]
    rw [List.append_assoc] at c
    exact a.trans c
  have hy : ∀ y ∈ (stage3 b hm rk n).1 ++ (stage5 b hm rk n).1, above y = true := by
    intro y hy
    rcases List.mem_append.1 hy with hy | hy
    · have := s3.2.1 y hy
      have := sentinel_le.2.2
      simp only [above, thrR, thrG, decide_eq_true_eq] at *; omega
    · have := s5.2.1 y hy
      simpa only [above, decide_eq_true_eq] using this
  have hl : ∀ x ∈ (stage5 b hm rk n).2, above x = false := by
    intro x hx
    have := s5.2.2 x hx
    simp only [above, decide_eq_false_iff_not]; omega
  have p2 := perm_filter_of_split p1 hy hl
  have p3 := p2.map (·.move)
  simp only [List.filter_append, List.map_append] at p3
  rw [filter_above_noisy h, filter_above_quiet h] at p3
  rw [MoveGen.gen, List.filter_append, List.map_append]
  exact p3

/-- after the two stages nothing above the stage-5 threshold is left (the next `Next` returns false). -/
theorem stages_exhausted (b : Board) (hm : Move) (rk : Rank) (n : Nat) (hn : (MoveGen.gen b).length ≤ n) :
    selectBest thrR (stage5 b hm rk n).2 = none := by
  have hlen := gen_length b
  have hnl := noisyR_length b hm rk
  have hql := quietR_length b hm rk
  have l3 := drain_length thrG n (noisyR b hm rk) (by omega)
  exact drain_exhausted thrR _ _ (by simp only [stage3, List.length_append]; omega)

variable {b : Board} {hm : Move} {rk : Rank}

/-- **picker_perm.**  `C05_iff` / `C05_nodup` are property C05 (hash-move gate = generator
    membership, no duplicate generated move). -/
theorem picker_perm (hfit : StoreFits b) (hb : Bands rk)
    (C05_iff : b.isPseudoLegal hm = true ↔ hm ∈ MoveGen.gen b) (C05_nodup : (MoveGen.gen b).Nodup) :
    (yielded b hm rk).Perm (MoveGen.gen b) := by
  have hf : fuel = Gen.Heur.storeSize.toNat + 2 := rfl
  have hfit' := hfit
  unfold StoreFits at hfit'
  unfold yielded
  rw [yieldedW_eq b hm rk hfit]
  split
  · rename_i hpl
    have hmem := C05_iff.1 hpl
    simp only [List.map_cons]
    have p := stages_perm hb b hm (fuel - 1) (by omega)
    have q : (MoveGen.gen b).Perm (hm :: (MoveGen.gen b).erase hm) := List.perm_cons_erase hmem
    rw [C05_nodup.erase_eq_filter] at q
    exact (List.Perm.cons hm p).trans q.symm
  · rename_i hpl
    have hnot : hm ∉ MoveGen.gen b := fun h => hpl (C05_iff.2 h)
    have p := stages_perm hb b hm fuel (by omega)
    have e : (MoveGen.gen b).filter (· != hm) = MoveGen.gen b := by
      apply List.filter_eq_self.2
      intro m hm'
      simp only [bne_iff_ne, ne_eq]
      intro h; subst h; exact hnot hm'
    rw [e] at p
    exact p

/-- **picker_hash_first.** -/
theorem picker_hash_first (hfit : StoreFits b) (hpl : b.isPseudoLegal hm = true) :
    (yielded b hm rk).head? = some hm := by
  unfold yielded
  rw [yieldedW_eq b hm rk hfit, if_pos hpl]
  rfl

/-- …and it is yielded with the weight `HashMove`, above every ranked weight. -/
theorem picker_hash_weight (hfit : StoreFits b) (hpl : b.isPseudoLegal hm = true) :
    (yieldedW b hm rk).head? = some { move := hm, weight := Gen.Heur.hashWeight } := by
  rw [yieldedW_eq b hm rk hfit, if_pos hpl]
  rfl

/-- a hash move that is not pseudo-legal is never yielded (nothing but generated moves is). -/
theorem picker_rejects (hfit : StoreFits b) (hb : Bands rk)
    (C05_iff : b.isPseudoLegal hm = true ↔ hm ∈ MoveGen.gen b) (C05_nodup : (MoveGen.gen b).Nodup)
    (hpl : b.isPseudoLegal hm = false) : hm ∉ yielded b hm rk := by
  intro h
  have := (picker_perm hfit hb C05_iff C05_nodup).mem_iff.1 h
  rw [C05_iff.2 this] at hpl
  exact Bool.noConfusion hpl

/-- no move is yielded twice. -/
theorem picker_nodup (hfit : StoreFits b) (hb : Bands rk)
    (C05_iff : b.isPseudoLegal hm = true ↔ hm ∈ MoveGen.gen b) (C05_nodup : (MoveGen.gen b).Nodup) :
    (yielded b hm rk).Nodup :=
  (picker_perm hfit hb C05_iff C05_nodup).nodup_iff.2 C05_nodup

end ChessVerif.Proofs.PickerPerm
