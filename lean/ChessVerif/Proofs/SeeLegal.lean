/-
  C18: a legal move never carries the promotion code 7 (the only code outside `PieceValues`, on which
  heur.SEE would panic): the rule book accepts no promotion "to nothing".  Core Lean only.
-/
import ChessVerif.Model.Abs
import ChessVerif.Spec.Rules

namespace ChessVerif.Proofs.SeeLegal
open ChessVerif

theorem pseudoLegal_promo_none (p : Rules.Pos) (mv : Rules.Mv) (h : mv.promo = some .none) :
    Rules.pseudoLegal p mv = false := by
  unfold Rules.pseudoLegal
  cases hat : p.at_ mv.src with
  | none => simp
  | some ck =>
    obtain ⟨c', k⟩ := ck
    cases k <;> simp [h, Rules.isPromoPiece]

theorem legal_promo_ne7 {b : Board} {m : Move} (h : Rules.legal b.abs (decodeMove m) = true) :
    Move.promo m ≠ 7 := by
  intro h7
  have hp : (decodeMove m).promo = some .none := by simp [decodeMove, h7]
  have := pseudoLegal_promo_none b.abs (decodeMove m) hp
  simp [Rules.legal, this] at h

end ChessVerif.Proofs.SeeLegal
