/-
  The packed reversing token (board.go `Reverse`): the four fields do not overlap and every value the
  code stores is read back unchanged.  Finite facts are settled by kernel evaluation over the whole
  (small) value range of each field.
-/
import ChessVerif.Model.Board

namespace ChessVerif.Board
open Reverse

/-- the four field masks are pairwise disjoint. -/
theorem token_masks_disjoint :
    fiftyCntMask &&& castlingChangeMask = 0 ∧ fiftyCntMask &&& epChangeMask = 0 ∧
    fiftyCntMask &&& captureMask = 0 ∧ castlingChangeMask &&& epChangeMask = 0 ∧
    castlingChangeMask &&& captureMask = 0 ∧ epChangeMask &&& captureMask = 0 := by decide

/-- every field value lies inside its own mask after shifting. -/
theorem token_fields_fit :
    (∀ c : Fin 16, (BitVec.ofNat 64 c.val <<< castlingChangeShift) &&& ~~~ castlingChangeMask = 0) ∧
    (∀ e : Fin 64, (BitVec.ofNat 64 e.val <<< epChangeShift) &&& ~~~ epChangeMask = 0) ∧
    (∀ p : Fin 7, (BitVec.ofNat 64 p.val <<< captureShift) &&& ~~~ captureMask = 0) := by decide

theorem ep_roundtrip_zero : ∀ e : Fin 64, enPassantChange (setEnPassantChange 0 e.val) = e.val := by decide

end ChessVerif.Board
