/-
  The packed reversing token (board.go `Reverse`): the four fields do not overlap and every value the
  code stores is read back unchanged.  Finite facts are settled by kernel evaluation over the whole
  (small) value range of each field; the dependence on the rest of the word is removed by two generic
  mask identities (`field_get_set`, `field_get_other`).
-/
import ChessVerif.Model.Board
namespace ChessVerif.Board
open Reverse

theorem token_masks_disjoint :
    fiftyCntMask &&& castlingChangeMask = 0 ∧ fiftyCntMask &&& epChangeMask = 0 ∧
    fiftyCntMask &&& captureMask = 0 ∧ castlingChangeMask &&& epChangeMask = 0 ∧
    castlingChangeMask &&& captureMask = 0 ∧ epChangeMask &&& captureMask = 0 := by decide

theorem token_fields_fit :
    (∀ c : Fin 16, (BitVec.ofNat 64 c.val <<< castlingChangeShift) &&& ~~~ castlingChangeMask = 0) ∧
    (∀ e : Fin 64, (BitVec.ofNat 64 e.val <<< epChangeShift) &&& ~~~ epChangeMask = 0) ∧
    (∀ p : Fin 7, (BitVec.ofNat 64 p.val <<< captureShift) &&& ~~~ captureMask = 0) := by decide

theorem ep_roundtrip_zero : ∀ e : Fin 64, enPassantChange (setEnPassantChange 0 e.val) = e.val := by decide

/-! ### generic packed-field algebra -/

theorem field_get_set (r v m : BitVec 64) (h : v &&& ~~~m = 0) : ((r &&& ~~~m) ||| v) &&& m = v := by
  apply BitVec.eq_of_getLsbD_eq
  intro i hi
  have := congrArg (fun x => x.getLsbD i) h
  simp at this
  simp
  cases hr : r.getLsbD i <;> cases hv : v.getLsbD i <;> cases hm : m.getLsbD i <;> simp_all

theorem field_get_set' (r v m : BitVec 64) : ((r &&& ~~~m) ||| v) &&& m = v &&& m := by
  apply BitVec.eq_of_getLsbD_eq
  intro i hi
  simp
  cases hr : r.getLsbD i <;> cases hv : v.getLsbD i <;> cases hm : m.getLsbD i <;> simp_all

theorem field_get_other (r v m m' : BitVec 64) (hv : v &&& ~~~m = 0) (hd : m &&& m' = 0) :
    ((r &&& ~~~m) ||| v) &&& m' = r &&& m' := by
  apply BitVec.eq_of_getLsbD_eq
  intro i hi
  have h1 := congrArg (fun x => x.getLsbD i) hv
  have h2 := congrArg (fun x => x.getLsbD i) hd
  simp at h1 h2
  simp
  cases hr : r.getLsbD i <;> cases hv : v.getLsbD i <;> cases hm : m.getLsbD i <;> cases hm' : m'.getLsbD i <;> simp_all

/-! ### what each field stores is read back -/

theorem fifty_fin : ∀ x : Fin 256,
    wrapS8 ((((BitVec.ofInt 64 ((x.val : Int) - 128)) <<< fiftyCntShift) &&& fiftyCntMask) >>> fiftyCntShift).toNat
      = (x.val : Int) - 128 := by
  decide +kernel

theorem castling_fin : ∀ c : Fin 16,
    BitVec.ofNat 4 (((BitVec.ofNat 64 c.val <<< castlingChangeShift) >>> castlingChangeShift).toNat % 256) = BitVec.ofNat 4 c.val := by
  decide

theorem ep_fin : ∀ e : Fin 64, ((BitVec.ofNat 64 e.val <<< epChangeShift) >>> epChangeShift).toNat = e.val := by
  decide

theorem capture_fin : ∀ p : Fin 7,
    Piece.ofIx (((BitVec.ofNat 64 p.val <<< captureShift) >>> captureShift).toNat % 256) = Piece.ofIx p.val := by
  decide

/-- the int8 clock (negative values included: the Go conversion sign-extends into the other fields,
    which is why `setFiftyCnt` has to be — and is — the first setter called). -/
theorem fiftyCnt_set (r : Reverse) (fc : Int) (h1 : -128 ≤ fc) (h2 : fc ≤ 127) :
    fiftyCnt (setFiftyCnt r fc) = fc := by
  unfold fiftyCnt setFiftyCnt
  rw [field_get_set']
  have := fifty_fin ⟨(fc + 128).toNat, by omega⟩
  have e : (((fc + 128).toNat : Nat) : Int) - 128 = fc := by omega
  simp only [e] at this
  exact this

theorem castlingChange_set (r : Reverse) (c : Castles) : castlingChange (setCastlingChange r c) = c := by
  unfold castlingChange setCastlingChange
  rw [field_get_set _ _ _ (token_fields_fit.1 ⟨c.toNat, c.isLt⟩)]
  have := castling_fin ⟨c.toNat, c.isLt⟩
  simpa using this

theorem enPassantChange_set (r : Reverse) (e : Nat) (h : e < 64) : enPassantChange (setEnPassantChange r e) = e := by
  unfold enPassantChange setEnPassantChange
  rw [field_get_set _ _ _ (token_fields_fit.2.1 ⟨e, h⟩)]
  exact ep_fin ⟨e, h⟩

theorem capture_set (r : Reverse) (p : Piece) : capture (setCapture r p) = p := by
  unfold capture setCapture
  rw [field_get_set _ _ _ (token_fields_fit.2.2 ⟨p.toNat, p.toNat_lt⟩)]
  have := capture_fin ⟨p.toNat, p.toNat_lt⟩
  simpa using this

/-! ### setting one field leaves the others alone (the three setters called after `setFiftyCnt`) -/

theorem and_comm_zero {a b : BitVec 64} (h : a &&& b = 0) : b &&& a = 0 := by rw [BitVec.and_comm]; exact h

theorem fiftyCnt_setCastling (r : Reverse) (c : Castles) : fiftyCnt (setCastlingChange r c) = fiftyCnt r := by
  unfold fiftyCnt setCastlingChange
  rw [field_get_other _ _ _ _ (token_fields_fit.1 ⟨c.toNat, c.isLt⟩) (and_comm_zero token_masks_disjoint.1)]
theorem fiftyCnt_setCapture (r : Reverse) (p : Piece) : fiftyCnt (setCapture r p) = fiftyCnt r := by
  unfold fiftyCnt setCapture
  rw [field_get_other _ _ _ _ (token_fields_fit.2.2 ⟨p.toNat, p.toNat_lt⟩) (and_comm_zero token_masks_disjoint.2.2.1)]
theorem fiftyCnt_setEp (r : Reverse) (e : Nat) (h : e < 64) : fiftyCnt (setEnPassantChange r e) = fiftyCnt r := by
  unfold fiftyCnt setEnPassantChange
  rw [field_get_other _ _ _ _ (token_fields_fit.2.1 ⟨e, h⟩) (and_comm_zero token_masks_disjoint.2.1)]

theorem castlingChange_setCapture (r : Reverse) (p : Piece) : castlingChange (setCapture r p) = castlingChange r := by
  unfold castlingChange setCapture
  rw [field_get_other _ _ _ _ (token_fields_fit.2.2 ⟨p.toNat, p.toNat_lt⟩) (and_comm_zero token_masks_disjoint.2.2.2.2.1)]
theorem castlingChange_setEp (r : Reverse) (e : Nat) (h : e < 64) :
    castlingChange (setEnPassantChange r e) = castlingChange r := by
  unfold castlingChange setEnPassantChange
  rw [field_get_other _ _ _ _ (token_fields_fit.2.1 ⟨e, h⟩) (and_comm_zero token_masks_disjoint.2.2.2.1)]

theorem capture_setCastling (r : Reverse) (c : Castles) : capture (setCastlingChange r c) = capture r := by
  unfold capture setCastlingChange
  rw [field_get_other _ _ _ _ (token_fields_fit.1 ⟨c.toNat, c.isLt⟩) token_masks_disjoint.2.2.2.2.1]
theorem capture_setEp (r : Reverse) (e : Nat) (h : e < 64) : capture (setEnPassantChange r e) = capture r := by
  unfold capture setEnPassantChange
  rw [field_get_other _ _ _ _ (token_fields_fit.2.1 ⟨e, h⟩) token_masks_disjoint.2.2.2.2.2]

theorem enPassantChange_setCastling (r : Reverse) (c : Castles) :
    enPassantChange (setCastlingChange r c) = enPassantChange r := by
  unfold enPassantChange setCastlingChange
  rw [field_get_other _ _ _ _ (token_fields_fit.1 ⟨c.toNat, c.isLt⟩) token_masks_disjoint.2.2.2.1]
theorem enPassantChange_setCapture (r : Reverse) (p : Piece) :
    enPassantChange (setCapture r p) = enPassantChange r := by
  unfold enPassantChange setCapture
  rw [field_get_other _ _ _ _ (token_fields_fit.2.2 ⟨p.toNat, p.toNat_lt⟩) (and_comm_zero token_masks_disjoint.2.2.2.2.2)]

/-- The token exactly as `MakeMove` builds it (clock first, then castling delta, captured piece,
    en-passant delta, starting from any word): every getter returns what was stored — for all int8
    clocks (negative ones included), all 4-bit castling deltas, all pieces and all 6-bit ep deltas. -/
theorem token_fields_roundtrip (r0 : Reverse) (fc : Int) (cc : Castles) (p : Piece) (e : Nat)
    (h1 : -128 ≤ fc) (h2 : fc ≤ 127) (he : e < 64) :
    let r := (((r0.setFiftyCnt fc).setCastlingChange cc).setCapture p).setEnPassantChange e
    r.fiftyCnt = fc ∧ r.castlingChange = cc ∧ r.capture = p ∧ r.enPassantChange = e := by
  refine ⟨?_, ?_, ?_, ?_⟩
  · rw [fiftyCnt_setEp _ _ he, fiftyCnt_setCapture, fiftyCnt_setCastling, fiftyCnt_set _ _ h1 h2]
  · rw [castlingChange_setEp _ _ he, castlingChange_setCapture, castlingChange_set]
  · rw [capture_setEp _ _ he, capture_set]
  · rw [enPassantChange_set _ _ he]

/-- the null-move token: only the ep field is written. -/
theorem token_null_roundtrip (e : Nat) (he : e < 64) : enPassantChange (setEnPassantChange 0 e) = e :=
  enPassantChange_set _ _ he

end ChessVerif.Board
