/-
  C09 step (0), part 3: legality on a valid board in the engine's own vocabulary.
  * `noLegal_iff_PL`   — no legal move exists iff every pseudo-legal move (`PL.PL b s t pr`, the
                          set-level predicate of C05, = `Rules.pseudoLegal` by the bridge) leaves the
                          mover's king attacked.
  * `after_nonking`, `after_ep`, `after_king` — what "leaves the king attacked" means for the three
                          shapes of a (non-castling) move, in terms of `Chk`.
  * `ep_facts`         — what `Board.valid` says about a recorded en-passant target.
  * `epSound_Chk`      — what `Rules.epSound` says in terms of `Chk`.
-/
import ChessVerif.Proofs.MateMove

namespace ChessVerif.Mate
open ChessVerif Board Rules Bridge

variable {b : Board} {K : Nat}

/-! ### legal moves through `PL` -/

theorem promoChoices_dec (q : Option Piece) (h : q ∈ Rules.promoChoices) : ∃ pr, pr < 8 ∧ q = decPromo pr := by
  simp only [Rules.promoChoices, List.mem_cons, List.not_mem_nil, or_false] at h
  rcases h with rfl | rfl | rfl | rfl | rfl
  · exact ⟨0, by decide, rfl⟩
  · exact ⟨2, by decide, rfl⟩
  · exact ⟨3, by decide, rfl⟩
  · exact ⟨4, by decide, rfl⟩
  · exact ⟨5, by decide, rfl⟩

theorem legal_iff_PL (cx : Ctx b K) (s t pr : Nat) (hs : s < 64) (ht : t < 64) (hpr : pr < 8) :
    Rules.legal (abs b) ⟨s, t, decPromo pr⟩ = true ↔
      PL.PL b s t pr ∧ Rules.inCheck (Rules.applyCore (abs b) ⟨s, t, decPromo pr⟩) b.stm = false := by
  unfold Rules.legal
  rw [Bool.and_eq_true, PL_iff_pseudoLegal_core cx.wf (castleRooks_of_valid cx.valid) s t pr hs ht hpr]
  simp

/-- **no legal move** iff every pseudo-legal move leaves the mover's king attacked. -/
theorem noLegal_iff_PL (cx : Ctx b K) :
    Rules.legalMoves (abs b) = [] ↔
      ∀ s t pr, s < 64 → t < 64 → pr < 8 → PL.PL b s t pr →
        Rules.inCheck (Rules.applyCore (abs b) ⟨s, t, decPromo pr⟩) b.stm = true := by
  rw [legalMoves_eq_nil_iff]
  constructor
  · intro h s t pr hs ht hpr hPL
    have := h ⟨s, t, decPromo pr⟩
    cases hc : Rules.inCheck (Rules.applyCore (abs b) ⟨s, t, decPromo pr⟩) b.stm
    · rw [(legal_iff_PL cx s t pr hs ht hpr).2 ⟨hPL, hc⟩] at this
      exact Bool.noConfusion this
    · rfl
  · intro h mv
    cases hl : Rules.legal (abs b) mv
    · rfl
    · exfalso
      have hpl : Rules.pseudoLegal (abs b) mv = true := by
        unfold Rules.legal at hl
        rw [Bool.and_eq_true] at hl
        exact hl.1
      obtain ⟨h1, h2⟩ := legal_src_dst _ mv hpl
      obtain ⟨pr, hpr, hq⟩ := promoChoices_dec _ (pseudoLegal_promo _ mv hpl)
      obtain ⟨s, t, q⟩ := mv
      simp only at h1 h2 hq
      subst hq
      have := (legal_iff_PL cx s t pr h1 h2 hpr).1 hl
      rw [h s t pr h1 h2 hpr this.1] at this
      exact Bool.noConfusion this.2

/-- a legal move exists iff some pseudo-legal move leaves the king safe. -/
theorem exLegal_iff_PL (cx : Ctx b K) :
    Rules.legalMoves (abs b) ≠ [] ↔
      ∃ s t pr, s < 64 ∧ t < 64 ∧ pr < 8 ∧ PL.PL b s t pr ∧
        Rules.inCheck (Rules.applyCore (abs b) ⟨s, t, decPromo pr⟩) b.stm = false := by
  rw [Ne, noLegal_iff_PL cx]
  constructor
  · intro h
    apply Classical.byContradiction
    intro hc
    apply h
    intro s t pr hs ht hpr hPL
    cases hi : Rules.inCheck (Rules.applyCore (abs b) ⟨s, t, decPromo pr⟩) b.stm
    · exact absurd ⟨s, t, pr, hs, ht, hpr, hPL, hi⟩ hc
    · rfl
  · rintro ⟨s, t, pr, hs, ht, hpr, hPL, hi⟩ h
    rw [h s t pr hs ht hpr hPL] at hi
    exact Bool.noConfusion hi

/-! ### the three shapes of a move -/

/-- the move `s → t` is an en-passant capture. -/
def IsEp (b : Board) (s t : Nat) : Prop :=
  b.pieceAt s = .pawn ∧ b.ep ≠ 0 ∧ t = b.ep ∧ s % 8 ≠ t % 8

theorem decPromo_ne_king_of_PLk (k : Piece) (s t pr : Nat) (h : PLk b k s t pr) :
    decPromo pr ≠ some .king := by
  have h6 : pr ≠ 6 := by
    cases k
    · exact absurd h id
    · have := h.1
      unfold PL.promoOK at this
      split at this <;> omega
    · have := h.1; omega
    · have := h.1; omega
    · have := h.1; omega
    · have := h.1; omega
    · rcases h with h | h | h <;> (have := h.1; omega)
  intro e
  unfold decPromo at e
  split at e <;> simp_all

theorem isEnPassant_iff (cx : Ctx b K) (s t : Nat) (q : Option Piece) (hs : s < 64)
    (hown : (b.colorBB b.stm).getLsbD s = true) :
    Rules.isEnPassant (abs b) ⟨s, t, q⟩ = true ↔ IsEp b s t := by
  unfold Rules.isEnPassant IsEp
  simp only [Bool.and_eq_true, abs_turn, abs_has cx.wf, decide_eq_true_eq, beq_iff_eq, abs_ep_eq_some]
  constructor
  · rintro ⟨⟨⟨⟨_, hp⟩, he, he2⟩, hf⟩, _⟩
    refine ⟨hp, he, he2, ?_⟩
    unfold Rules.file at hf
    omega
  · rintro ⟨hp, he, he2, hf⟩
    refine ⟨⟨⟨⟨hown, hp⟩, he, he2⟩, ?_⟩, ?_⟩
    · unfold Rules.file; omega
    · rw [abs_empty_iff', he2]
      exact ((PL.PLDomain_of_valid cx.valid).ep he).2.2

/-- **non-king, non-en-passant move.** -/
theorem after_nonking (cx : Ctx b K) (s t pr : Nat) (hs : s < 64) (ht : t < 64)
    (hPL : PL.PL b s t pr) (hnk : b.pieceAt s ≠ .king) (hne : ¬ IsEp b s t) :
    Rules.inCheck (Rules.applyCore (abs b) ⟨s, t, decPromo pr⟩) b.stm = true ↔
      Chk b ((b.occ &&& ~~~ bit s) ||| bit t) (bit t) K := by
  obtain ⟨hown, hto, hk⟩ := (PL_iff_kind cx.wf s t pr hs).1 hPL
  refine inCheck_after_move cx s t _ hs ht hown hnk hto (decPromo_ne_king_of_PLk _ s t pr hk) ?_
  cases h : Rules.isEnPassant (abs b) ⟨s, t, decPromo pr⟩
  · rfl
  · exact absurd ((isEnPassant_iff cx s t _ hs hown).1 h) hne

/-! ### the en-passant target of a valid board -/

/-- what validity says about a recorded en-passant target: `P` is the pawn that has just advanced
    two squares, `O` the square it came from. -/
structure EpFacts (b : Board) (P O : Nat) : Prop where
  ep_lt : b.ep < 64
  P_lt : P < 64
  O_lt : O < 64
  aheadP : PL.ahead b.stm P 8 b.ep
  aheadO : PL.ahead b.stm b.ep 8 O
  rank : PL.relRank b.stm b.ep = 5
  ep_empty : b.occ.getLsbD b.ep = false
  O_empty : b.occ.getLsbD O = false
  P_opp : (b.colorBB b.stm.flip).getLsbD P = true
  P_pawn : b.pieceAt P = .pawn

theorem ep_facts (cx : Ctx b K) (hep : b.ep ≠ 0) : ∃ P O, EpFacts b P O := by
  have hr := rulesValid_of_valid cx.valid
  simp only [Rules.valid, Bool.and_eq_true] at hr
  obtain ⟨⟨⟨⟨_, hEP⟩, _⟩, _⟩, _⟩ := hr
  have hepa : (abs b).ep = some b.ep := by simp [Board.abs, hep]
  rw [hepa, abs_turn] at hEP
  simp only [Bool.and_eq_true, decide_eq_true_eq, beq_iff_eq] at hEP
  obtain ⟨⟨⟨h64, hrank⟩, hempty⟩, hfb⟩ := hEP
  split at hfb
  · rename_i front back hfront hback
    rw [Bool.and_eq_true, abs_has cx.wf, abs_empty_iff'] at hfb
    rw [square?_eq_some] at hfront hback
    obtain ⟨_, _, _, _, hf64, hff, hfr⟩ := hfront
    obtain ⟨_, _, _, _, hb64, hbf, hbr⟩ := hback
    refine ⟨front, back, h64, hf64, hb64, ?_, ?_, ?_, (abs_empty_iff' b _).1 hempty, hfb.2, hfb.1.1, hfb.1.2⟩
    · revert hff hfr hrank
      cases b.stm <;>
        simp only [PL.ahead, Rules.file, Rules.rank, Rules.up, Rules.homeRank, Color.flip,
          Geometry.fileI, Geometry.rankI] <;> omega
    · revert hbf hbr hrank
      cases b.stm <;>
        simp only [PL.ahead, Rules.file, Rules.rank, Rules.up, Rules.homeRank, Color.flip,
          Geometry.fileI, Geometry.rankI] <;> omega
    · revert hrank
      cases b.stm <;>
        simp only [PL.relRank, Rules.rank, Rules.up, Rules.homeRank, Color.flip] <;> omega
  · exact Bool.noConfusion hfb

/-- the captured pawn of an en-passant capture is the pawn that has just advanced. -/
theorem epCapSq_eq {P O : Nat} (ef : EpFacts b P O) (s : Nat) (hg : PL.capGeom b.stm s b.ep) :
    epCapSq s b.ep = P := by
  have h1 := ef.aheadP
  have h2 := ef.ep_lt
  revert hg h1
  unfold epCapSq
  cases b.stm <;> simp only [PL.capGeom, PL.ahead] <;> omega

/-- **en-passant capture.** -/
theorem after_ep (cx : Ctx b K) {P O : Nat} (ef : EpFacts b P O) (s pr : Nat) (hs : s < 64)
    (hPL : PL.PL b s b.ep pr) (hep : IsEp b s b.ep) :
    Rules.inCheck (Rules.applyCore (abs b) ⟨s, b.ep, decPromo pr⟩) b.stm = true ↔
      Chk b (((b.occ &&& ~~~ bit s) &&& ~~~ bit P) ||| bit b.ep) (bit P) K := by
  obtain ⟨hown, hto, hk⟩ := (PL_iff_kind cx.wf s b.ep pr hs).1 hPL
  rw [hep.1] at hk
  have hg : PL.capGeom b.stm s b.ep := by
    rcases hk.2 with h | h | h | h
    · exfalso
      have := h.1
      have h4 := hep.2.2.2
      revert this
      cases b.stm <;> simp only [PL.ahead] <;> omega
    · exfalso
      have := h.1
      have h4 := hep.2.2.2
      revert this
      cases b.stm <;> simp only [PL.ahead] <;> omega
    · exact h.1
    · exact h.1
  have hcap := epCapSq_eq ef s hg
  have := inCheck_after_ep cx s b.ep (decPromo pr) hs ef.ep_lt hown
    (decPromo_ne_king_of_PLk .pawn s b.ep pr hk)
    ((isEnPassant_iff cx s b.ep _ hs hown).2 hep) (by rw [hcap]; exact ef.P_opp)
  rw [hcap] at this
  exact this

/-- **king step.** -/
theorem after_king (cx : Ctx b K) (t : Nat) (ht : t < 64)
    (hto : (b.colorBB b.stm).getLsbD t = false) (hg : (Attacks.kingMoves K).getLsbD t = true) :
    Rules.inCheck (Rules.applyCore (abs b) ⟨K, t, none⟩) b.stm = true ↔
      Chk b ((b.occ &&& ~~~ bit K) ||| bit t) (bit t) t := by
  refine inCheck_after_king cx t ht hto ?_
  have := (king_attacks_iff (abs b) b.stm K t cx.hK ht).1 hg
  unfold Rules.manAttacks at this
  simp only [beq_iff_eq] at this
  omega

/-! ### `Rules.epSound` -/

theorem inCheck_of_att (q : Pos) (c : Color) (T a : Nat) (k : Piece) (hT : T < 64) (ha : a < 64)
    (h1 : q.has T c .king = true) (h2 : q.at_ a = some (c.flip, k))
    (h3 : Rules.manAttacks q (c.flip, k) a T = true) : Rules.inCheck q c = true := by
  unfold Rules.inCheck
  rw [List.any_eq_true]
  exact ⟨T, (mem_kingSquares _ _ _).2 ⟨hT, h1⟩, (attackedBy_iff _ _ _).2 ⟨a, ha, k, h2, h3⟩⟩

/-- **`epSound`**: before the double advance (pawn back on its origin square `O`, `P` vacated) no
    enemy man other than that pawn attacked the king of the side now to move. -/
theorem epSound_Chk (cx : Ctx b K) {P O : Nat} (ef : EpFacts b P O) (hsound : Rules.epSound (abs b) = true)
    (hep : b.ep ≠ 0) : ¬ Chk b ((b.occ &&& ~~~ bit P) ||| bit O) (bit P) K := by
  rintro ⟨a, ha, hc, hx, hatt⟩
  have hepa : (abs b).ep = some b.ep := by simp [Board.abs, hep]
  unfold Rules.epSound at hsound
  rw [hepa, abs_turn] at hsound
  simp only at hsound
  have hfront : Rules.square? (Rules.file b.ep) (Rules.rank b.ep + Rules.up b.stm.flip) = some P := by
    rw [square?_eq_some]
    have h1 := ef.aheadP
    have h2 := ef.P_lt
    have h3 := ef.ep_lt
    have h4 := ef.rank
    revert h1 h4
    cases b.stm <;>
      simp only [PL.ahead, PL.relRank, Rules.file, Rules.rank, Rules.up, Color.flip, Geometry.fileI,
        Geometry.rankI] <;> omega
  have hback : Rules.square? (Rules.file b.ep) (Rules.rank b.ep - Rules.up b.stm.flip) = some O := by
    rw [square?_eq_some]
    have h1 := ef.aheadO
    have h2 := ef.O_lt
    have h3 := ef.ep_lt
    have h4 := ef.rank
    revert h1 h4
    cases b.stm <;>
      simp only [PL.ahead, PL.relRank, Rules.file, Rules.rank, Rules.up, Color.flip, Geometry.fileI,
        Geometry.rankI] <;> omega
  rw [hfront, hback] at hsound
  simp only [Bool.not_eq_true'] at hsound
  -- the pre-push position
  let q : Pos := { (abs b) with men := Rules.setMan (Rules.setMan (abs b).men P none) O (some (b.stm.flip, Piece.pawn)),
                                 ep := none }
  have hsound' : Rules.inCheck q b.stm = false := hsound
  have hqat : ∀ u, q.at_ u = if u = O then some (b.stm.flip, Piece.pawn) else if u = P then none else (abs b).at_ u := by
    intro u
    show (Rules.setMan (Rules.setMan (abs b).men P none) O (some (b.stm.flip, Piece.pawn))).getD u none = _
    rw [getD_setMan _ _ _ _ ef.O_lt]
    by_cases h1 : u = O
    · simp only [h1, if_true]
    · simp only [h1, if_false]
      rw [getD_setMan _ _ _ _ ef.P_lt]
      rfl
  have hPO : P ≠ O := by
    intro e
    have := ef.O_empty
    rw [← e, occ_of_opp P ef.P_opp] at this
    exact Bool.noConfusion this
  have haP : a ≠ P := by
    intro e
    rw [e, bit_getLsbD P P ef.P_lt] at hx
    simp at hx
  have haO : a ≠ O := by
    intro e
    have := ef.O_empty
    rw [← e, occ_of_opp a hc] at this
    exact Bool.noConfusion this
  have hKP : K ≠ P := by
    intro e
    have := own_not_opp cx K cx.king_own
    rw [e, ef.P_opp] at this
    exact Bool.noConfusion this
  have hKO : K ≠ O := by
    intro e
    have := ef.O_empty
    rw [← e, occ_of_own K cx.king_own] at this
    exact Bool.noConfusion this
  have hempty : EmptyIs q ((b.occ &&& ~~~ bit P) ||| bit O) := by
    intro u hu
    unfold Pos.empty
    rw [hqat u, getLsbD_or_bit _ _ _ ef.O_lt, getLsbD_andNot_bit _ _ _ ef.P_lt]
    by_cases h1 : u = O
    · simp [h1]
    · have h1' : ¬ O = u := fun e => h1 e.symm
      by_cases h2 : u = P
      · rw [if_neg h1, if_pos h2]; subst h2; simp [h1']
      · have h2' : ¬ P = u := fun e => h2 e.symm
        simp only [h1, h1', h2, h2', if_false, decide_false, Bool.not_false, Bool.and_true, Bool.or_false]
        exact emptyIs_abs b u hu
  have : Rules.inCheck q b.stm = true := by
    refine inCheck_of_att q b.stm K a (b.pieceAt a) cx.hK ha ?_ ?_ ?_
    · unfold Pos.has
      rw [hqat K, if_neg hKO, if_neg hKP]
      exact (cx.has_king_iff K cx.hK).2 rfl
    · rw [hqat a, if_neg haO, if_neg haP]
      exact abs_at_of_color cx.wf a _ hc
    · exact (manAtt_iff hempty _ _ a K ha cx.hK).2 hatt
  rw [this] at hsound'
  exact Bool.noConfusion hsound'

end ChessVerif.Mate
