/-
  C11, obligation 2: the piece-count gate of the UCI position command (`Board.invalidPieceCount`)
  never rejects a valid position — i.e. a position whose counts are reachable by promotion,
  however much promoted material it holds.

  * `pieceCount_arith`   the arithmetic core (`omega`): counts satisfying the promotion bound make
                         the five inequalities of the Go function fail;
  * `count_eq_popcount`  the link: on a well-formed board the rule-book count of (colour, kind) is
                         the population count of `Colors[c] & Pieces[k]`;
  * `pieceCount_accepts_valid`.
-/
import ChessVerif.Model.Abs

namespace ChessVerif
namespace Board

/-! ### what `wf` says, square by square -/

theorem wf_disjoint {b : Board} (h : b.wf = true) : b.colorBB .white &&& b.colorBB .black = 0 := by
  simp only [wf, Bool.and_eq_true, beq_iff_eq] at h
  exact h.1.1

theorem wf_sq {b : Board} (h : b.wf = true) {s : Nat} (hs : s < 64) (q : Piece) (hq : q ≠ .none) :
    (b.pieceBB q).getLsbD s = (b.pieceAt s == q) := by
  simp only [wf, Bool.and_eq_true, List.all_eq_true, List.mem_range] at h
  have h3 := (h.2 s hs).1
  cases q <;> simp_all

theorem wf_occ {b : Board} (h : b.wf = true) {s : Nat} (hs : s < 64) :
    ((b.colorBB .white).getLsbD s || (b.colorBB .black).getLsbD s) = (b.pieceAt s != .none) := by
  simp only [wf, Bool.and_eq_true, List.all_eq_true, List.mem_range] at h
  simpa using (h.2 s hs).2

theorem abs_at (b : Board) (s : Nat) (h : s < 64) : b.abs.at_ s = b.manAt s := by
  simp [Rules.Pos.at_, Board.abs, Vector.getD, h]

theorem man_beq (c : Color) (x k : Piece) : ((c, x) == (c, k)) = (x == k) := by
  cases c <;> cases x <;> cases k <;> rfl

/-- on a well-formed board: a man of colour `c` and kind `k` stands on `s` iff bit `s` is set in
    `Colors[c] & Pieces[k]`. -/
theorem has_eq_getLsbD {b : Board} (h : b.wf = true) {s : Nat} (hs : s < 64) (c : Color) (k : Piece)
    (hk : k ≠ .none) : b.abs.has s c k = (b.colorBB c &&& b.pieceBB k).getLsbD s := by
  have hd : ((b.colorBB .white).getLsbD s && (b.colorBB .black).getLsbD s) = false := by
    have := congrArg (fun x => x.getLsbD s) (wf_disjoint h)
    simpa using this
  rw [Rules.Pos.has, abs_at b s hs, BitVec.getLsbD_and, wf_sq h hs k hk]
  unfold manAt
  cases hw : (b.colorBB .white).getLsbD s <;> cases hb : (b.colorBB .black).getLsbD s <;>
    cases c <;> simp_all
  all_goals exact man_beq _ _ _

/-- **the link**: rule-book count = population count of the engine's bitboard intersection. -/
theorem count_eq_popcount {b : Board} (h : b.wf = true) (c : Color) (k : Piece) (hk : k ≠ .none) :
    Rules.count b.abs c k = popcount (b.colorBB c &&& b.pieceBB k) := by
  have hf : ∀ s ∈ List.range 64, b.abs.has s c k = (b.colorBB c &&& b.pieceBB k).getLsbD s :=
    fun s hs => has_eq_getLsbD h (List.mem_range.1 hs) c k hk
  unfold Rules.count popcount bits
  rw [List.filter_congr hf]

/-! ### `IsPow2` of a singleton -/

theorem isPow2_bit : ∀ s : Fin 64, isPow2 (bit s.val) = true := by decide

theorem popcount_one_isPow2 {x : BB} (h : popcount x = 1) : isPow2 x = true := by
  unfold popcount at h
  obtain ⟨s, hs⟩ := List.length_eq_one_iff.1 h
  have hs64 : s < 64 := bits_lt (by rw [hs]; simp)
  have : x = bit s := by
    apply BitVec.eq_of_getLsbD_eq
    intro i hi
    rw [bit_getLsbD s i hs64]
    have hm : i ∈ bits x ↔ i < 64 ∧ x.getLsbD i = true := mem_bits
    rw [hs] at hm
    by_cases e : s = i
    · subst e
      simpa [hi] using hm
    · have : ¬ (i ∈ [s]) := by simp; omega
      have := mt hm.2 this
      simp [e]
      simpa [hi] using this
  rw [this]
  exact isPow2_bit ⟨s, hs64⟩

/-! ### the arithmetic core (the translated Go function on plain counts) -/

/-- counts satisfying the promotion bound ⇒ the five inequalities of `InvalidPieceCount` fail. -/
theorem pieceCount_arith (n bi r q p : Nat) (h : p + (n - 2) + (bi - 2) + (r - 2) + (q - 1) ≤ 8) :
    let pn := max 2 n - 2; let pb := max 2 bi - 2; let pr := max 2 r - 2; let pq := max 1 q - 1
    let pawns := p + (pn + pb + pr + pq)
    (decide (pawns > 8) || decide (n + pawns - pn > 10) || decide (bi + pawns - pb > 10) ||
      decide (r + pawns - pr > 10) || decide (q + pawns - pq > 9)) = false := by
  intro pn pb pr pq pawns
  simp only [Bool.or_eq_false_iff, decide_eq_false_iff_not]
  omega

/-- the per-colour body of `invalidPieceCount`, under the two facts `valid` provides. -/
theorem colorOK {b : Board} (hwf : b.wf = true) (c : Color)
    (hk : Rules.count b.abs c .king = 1) (hp : Rules.promotedBound b.abs c = true) :
    (let cb := b.colorBB c
     if !(isPow2 (cb &&& b.pieceBB .king)) then true else
     let knights := popcount (cb &&& b.pieceBB .knight)
     let bishops := popcount (cb &&& b.pieceBB .bishop)
     let rooks := popcount (cb &&& b.pieceBB .rook)
     let queens := popcount (cb &&& b.pieceBB .queen)
     let pawns := popcount (cb &&& b.pieceBB .pawn)
     let pknights := max 2 knights - 2
     let pbishops := max 2 bishops - 2
     let prooks := max 2 rooks - 2
     let pqueens := max 1 queens - 1
     let promoted := pknights + pbishops + prooks + pqueens
     let pawns := pawns + promoted
     decide (pawns > 8) || decide (knights + pawns - pknights > 10) || decide (bishops + pawns - pbishops > 10) ||
       decide (rooks + pawns - prooks > 10) || decide (queens + pawns - pqueens > 9)) = false := by
  rw [count_eq_popcount hwf c .king (by decide)] at hk
  simp only [Rules.promotedBound, decide_eq_true_eq,
    count_eq_popcount hwf c .pawn (by decide), count_eq_popcount hwf c .knight (by decide),
    count_eq_popcount hwf c .bishop (by decide), count_eq_popcount hwf c .rook (by decide),
    count_eq_popcount hwf c .queen (by decide)] at hp
  simp only [popcount_one_isPow2 hk, Bool.not_true, Bool.false_eq_true, if_false]
  exact pieceCount_arith _ _ _ _ _ hp

/-- **The piece-count gate never rejects a valid position.** -/
theorem pieceCount_accepts_valid (b : Board) (hv : b.valid = true) : b.invalidPieceCount = false := by
  simp only [valid, Bool.and_eq_true] at hv
  obtain ⟨hwf, hval⟩ := hv
  have hc : ∀ c : Color, Rules.count b.abs c .king = 1 ∧ Rules.promotedBound b.abs c = true := by
    simp only [Rules.valid, Bool.and_eq_true, List.all_eq_true] at hval
    intro c
    have := hval.1.1.1.1.1.1.1.1.1.1.1 c (by cases c <;> simp)
    simpa using this
  unfold invalidPieceCount
  simp only [List.any_cons, List.any_nil, Bool.or_false, Bool.or_eq_false_iff]
  exact ⟨colorOK hwf .white (hc .white).1 (hc .white).2, colorOK hwf .black (hc .black).1 (hc .black).2⟩

end Board
end ChessVerif
