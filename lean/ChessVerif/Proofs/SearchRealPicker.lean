/-
  The staged move picker under the way search.go really drives it: the ranker state changes between two
  `Next()` calls (every call may see DIFFERENT ranking functions) and the weight of the move yielded
  last is overwritten (`w.Weight = value`) between calls.

  * `PReach b hm st ys`   frames reachable by such interleavings, with the moves yielded so far;
  * `PInv b hm st ys`     the invariant (membership based, no Perm/Nodup):
      E   `done.map move = ys.reverse`
      Ay  every yielded move is generated            Ar  every entry of `rest` is a generated move
      D   past stage pickHash a pseudo-legal hash move has been yielded
      C   an entry of `rest` other than the hash move's duplicate weighs more than the stage-5 threshold
          (`bands_sep`; ranking happens once per entry, later ranker changes do not touch `rest`)
      B1  pickHash: nothing yielded, `rest = []`       B2  genNoisy: `rest = []`
      B3  yieldGoodNoisy / genQuiet: every noisy move is in `ys` or `rest`
      B5  yieldRest: every generated move is in `ys` or `rest`
    (genQuiet is only passed through inside a call — `preach_stage` — but giving it the clause of
    yieldGoodNoisy makes the invariant hold for the intermediate states of the fall-through chain too);
  * `Post`                what one stage function establishes: (true, st') ⇒ `PInv st' (move :: ys)`,
                          (false, _) ⇒ every generated move is in `ys`; one lemma per stage function
                          (`post_yieldRest`, `post_genQuiet`, `post_yieldGoodNoisy`, `post_genNoisy`,
                          `post_pickHash`, `post_next`);
  * `preach_inv`, `preach_mem`, `preach_complete`, `preach_done`, `preach_ys_mem`, `preach_stage`.
  C05 (`isPseudoLegal_iff_gen`) is used twice: the yielded hash move is generated; a generated hash
  move passes the gate (so its sentinel-weighted duplicate in `rest` has been yielded in stage 1).
-/
import ChessVerif.Proofs.PickerPerm
import ChessVerif.Model.SearchReal
import ChessVerif.Props.C05

namespace ChessVerif.Proofs.SearchRealPicker
open ChessVerif Picker ChessVerif.Proofs.PickerPerm ChessVerif.Proofs.PickerSelect
set_option autoImplicit false

inductive PReach (b : Board) (hm : Move) : Picker.PSt → List Move → Prop where
  | init : PReach b hm Picker.init []
  | next {st ys rk st'} : PReach b hm st ys → Bands rk → Picker.next b hm rk st = (true, st') →
      PReach b hm st' ((Picker.current st').move :: ys)
  | weight {st ys v} : PReach b hm st ys → PReach b hm { st with done := SearchReal.setLastWeight st.done v } ys

structure PInv (b : Board) (hm : Move) (st : PSt) (ys : List Move) : Prop where
  E : st.done.map (·.move) = ys.reverse
  Ay : ∀ m ∈ ys, m ∈ MoveGen.gen b
  Ar : ∀ w ∈ st.rest, w.move ∈ MoveGen.gen b
  D : st.stage ≠ .pickHash → b.isPseudoLegal hm = true → hm ∈ ys
  C : ∀ w ∈ st.rest, w.move ≠ hm → Gen.Heur.restThreshold < w.weight
  B1 : st.stage = .pickHash → ys = [] ∧ st.rest = []
  B2 : st.stage = .genNoisy → st.rest = []
  B3 : st.stage = .yieldGoodNoisy ∨ st.stage = .genQuiet →
        ∀ m ∈ MoveGen.genNoisy b, m ∈ ys ∨ ∃ w ∈ st.rest, w.move = m
  B5 : st.stage = .yieldRest → ∀ m ∈ MoveGen.gen b, m ∈ ys ∨ ∃ w ∈ st.rest, w.move = m

theorem setLastWeight_map_move (l : List WMove) (v : Int) :
    (SearchReal.setLastWeight l v).map (·.move) = l.map (·.move) := by
  induction l with
  | nil => rfl
  | cons w ws ih =>
    cases ws with
    | nil => rfl
    | cons w' ws' =>
      simp only [SearchReal.setLastWeight, List.map_cons] at ih ⊢
      rw [ih]

theorem current_snoc (s : Stage) (d r : List WMove) (w : WMove) :
    current { stage := s, done := d ++ [w], rest := r } = w := by
  simp [current]

variable {b : Board} {hm : Move}

theorem pinv_init : PInv b hm Picker.init [] := by
  refine ⟨rfl, ?_, ?_, ?_, ?_, ?_, ?_, ?_, ?_⟩ <;> simp [Picker.init]

theorem pinv_weight {st : PSt} {ys : List Move} (h : PInv b hm st ys) (v : Int) :
    PInv b hm { st with done := SearchReal.setLastWeight st.done v } ys :=
  ⟨by simp only [setLastWeight_map_move]; exact h.E, h.Ay, h.Ar, h.D, h.C, h.B1, h.B2, h.B3, h.B5⟩

/-- the yield step (select, swap to `moves[ix]`, `ix++`) preserves the invariant, in whatever stage. -/
theorem pinv_yield {st : PSt} {ys : List Move} (h : PInv b hm st ys) {thr : Int} {k : Nat}
    (hs : selectBest thr st.rest = some k) :
    PInv b hm { st with done := st.done ++ [(takeAt st.rest k).1], rest := (takeAt st.rest k).2 }
      ((takeAt st.rest k).1.move :: ys) := by
  obtain ⟨x, hx, _⟩ := selectBest_some hs
  obtain ⟨e1, p⟩ := takeAt_perm hx
  have hne : st.rest ≠ [] := by intro e; rw [e] at hx; simp at hx
  have mem : ∀ w, w ∈ st.rest ↔ (w = (takeAt st.rest k).1 ∨ w ∈ (takeAt st.rest k).2) := by
    intro w; rw [← p.mem_iff, List.mem_cons]
  have hxin : (takeAt st.rest k).1 ∈ st.rest := (mem _).2 (Or.inl rfl)
  have sub : ∀ w, w ∈ (takeAt st.rest k).2 → w ∈ st.rest := fun w hw => (mem w).2 (Or.inr hw)
  have cover : ∀ m, (m ∈ ys ∨ ∃ w ∈ st.rest, w.move = m) →
      (m ∈ (takeAt st.rest k).1.move :: ys ∨ ∃ w ∈ (takeAt st.rest k).2, w.move = m) := by
    intro m hm'
    rcases hm' with hm' | ⟨w, hw, rfl⟩
    · exact Or.inl (List.mem_cons_of_mem _ hm')
    · rcases (mem w).1 hw with rfl | hw
      · exact Or.inl List.mem_cons_self
      · exact Or.inr ⟨w, hw, rfl⟩
  refine ⟨?_, ?_, ?_, ?_, ?_, ?_, ?_, ?_, ?_⟩
  · simp only [List.map_append, List.map_cons, List.map_nil, List.reverse_cons, h.E]
  · intro m hm'
    rcases List.mem_cons.1 hm' with rfl | hm'
    · exact h.Ar _ hxin
    · exact h.Ay m hm'
  · exact fun w hw => h.Ar w (sub w hw)
  · exact fun h1 h2 => List.mem_cons_of_mem _ (h.D h1 h2)
  · exact fun w hw => h.C w (sub w hw)
  · exact fun h1 => absurd (h.B1 h1).2 hne
  · exact fun h1 => absurd (h.B2 h1) hne
  · exact fun h1 m hm' => cover m (h.B3 h1 m hm')
  · exact fun h1 m hm' => cover m (h.B5 h1 m hm')

/-- what a `Next()` call establishes: on success the invariant with the new move, on failure completeness. -/
def Post (b : Board) (hm : Move) (ys : List Move) (r : Bool × PSt) : Prop :=
  (r.1 = true → PInv b hm r.2 ((current r.2).move :: ys)) ∧
  (r.1 = false → ∀ m, m ∈ MoveGen.gen b → m ∈ ys)

theorem post_yield {st : PSt} {ys : List Move} (h : PInv b hm st ys) {thr : Int} {k : Nat}
    (hs : selectBest thr st.rest = some k) :
    Post b hm ys (true, { st with done := st.done ++ [(takeAt st.rest k).1], rest := (takeAt st.rest k).2 }) := by
  refine ⟨fun _ => ?_, (fun h => by cases h)⟩
  simp only [current_snoc]
  exact pinv_yield h hs

theorem post_yieldRest (hv : Board.valid b = true) (hhm : hm < 32768) {st : PSt} {ys : List Move}
    (h : PInv b hm st ys) (hst : st.stage = .yieldRest) : Post b hm ys (nextYieldRest st) := by
  unfold nextYieldRest
  split
  · rename_i k hs
    exact post_yield h hs
  · rename_i hs
    refine ⟨(fun h => by cases h), fun _ m hm' => ?_⟩
    rcases h.B5 hst m hm' with h1 | ⟨w, hw, rfl⟩
    · exact h1
    · have hle := selectBest_none hs w hw
      by_cases e : w.move = hm
      · rw [e] at hm' ⊢
        exact h.D (by rw [hst]; exact (fun h => by cases h))
          ((Props.C05.isPseudoLegal_iff_gen hv hhm).2 hm')
      · have := h.C w hw e
        omega

theorem rankQuietOne_C {rk : Rank} (hb : Bands rk) (w : WMove) (h : (rankQuietOne hm rk w).move ≠ hm) :
    Gen.Heur.restThreshold < (rankQuietOne hm rk w).weight := by
  unfold rankQuietOne at h ⊢
  split
  · rename_i e; rw [if_pos e] at h; exact absurd e.symm h
  · exact (bands_sep hb _).2.1.1

theorem rankNoisyOne_C {rk : Rank} (hb : Bands rk) (w : WMove) (h : (rankNoisyOne hm rk w).move ≠ hm) :
    Gen.Heur.restThreshold < (rankNoisyOne hm rk w).weight := by
  unfold rankNoisyOne at h ⊢
  split
  · rename_i e; rw [if_pos e] at h; exact absurd e.symm h
  · exact (bands_sep hb _).1.1

theorem post_genQuiet (hv : Board.valid b = true) (hhm : hm < 32768) {rk : Rank} (hb : Bands rk)
    {st : PSt} {ys : List Move} (h : PInv b hm st ys) (hst : st.stage = .genQuiet) :
    Post b hm ys (nextGenQuiet b hm rk st) := by
  unfold nextGenQuiet
  refine post_yieldRest hv hhm ?_ rfl
  refine ⟨h.E, h.Ay, ?_, fun _ => h.D (by rw [hst]; exact (fun h => by cases h)), ?_,
    (fun h => by cases h), (fun h => by cases h), (fun h => by rcases h with h | h <;> cases h), ?_⟩
  · intro w hw
    rcases List.mem_append.1 hw with hw | hw
    · exact h.Ar w hw
    · simp only [List.mem_map] at hw
      obtain ⟨_, ⟨m, hm', rfl⟩, rfl⟩ := hw
      rw [move_rankQuietOne]
      exact List.mem_append_right _ hm'
  · intro w hw
    rcases List.mem_append.1 hw with hw | hw
    · exact h.C w hw
    · simp only [List.mem_map] at hw
      obtain ⟨w0, _, rfl⟩ := hw
      exact rankQuietOne_C hb w0
  · intro _ m hm'
    rcases List.mem_append.1 hm' with hm' | hm'
    · rcases h.B3 (Or.inr hst) m hm' with h1 | ⟨w, hw, e⟩
      · exact Or.inl h1
      · exact Or.inr ⟨w, List.mem_append_left _ hw, e⟩
    · refine Or.inr ⟨rankQuietOne hm rk (alloc m), List.mem_append_right _ ?_, by rw [move_rankQuietOne]; rfl⟩
      exact List.mem_map_of_mem (List.mem_map_of_mem hm')

theorem post_yieldGoodNoisy (hv : Board.valid b = true) (hhm : hm < 32768) {rk : Rank} (hb : Bands rk)
    {st : PSt} {ys : List Move} (h : PInv b hm st ys) (hst : st.stage = .yieldGoodNoisy) :
    Post b hm ys (nextYieldGoodNoisy b hm rk st) := by
  unfold nextYieldGoodNoisy
  split
  · rename_i k hs
    exact post_yield h hs
  · refine post_genQuiet hv hhm hb ?_ rfl
    exact ⟨h.E, h.Ay, h.Ar, fun _ => h.D (by rw [hst]; exact (fun h => by cases h)), h.C,
      (fun h => by cases h), (fun h => by cases h), fun _ => h.B3 (Or.inl hst), (fun h => by cases h)⟩

theorem post_genNoisy (hv : Board.valid b = true) (hhm : hm < 32768) {rk : Rank} (hb : Bands rk)
    {st : PSt} {ys : List Move} (h : PInv b hm st ys) (hst : st.stage = .genNoisy) :
    Post b hm ys (nextGenNoisy b hm rk st) := by
  unfold nextGenNoisy
  refine post_yieldGoodNoisy hv hhm hb ?_ rfl
  have hr := h.B2 hst
  refine ⟨h.E, h.Ay, ?_, fun _ => h.D (by rw [hst]; exact (fun h => by cases h)), ?_,
    (fun h => by cases h), (fun h => by cases h), ?_, (fun h => by cases h)⟩
  · intro w hw
    simp only [hr, List.nil_append, List.mem_map] at hw
    obtain ⟨_, ⟨m, hm', rfl⟩, rfl⟩ := hw
    rw [move_rankNoisyOne]
    exact List.mem_append_left _ hm'
  · intro w hw
    simp only [List.mem_map] at hw
    obtain ⟨w0, _, rfl⟩ := hw
    exact rankNoisyOne_C hb w0
  · intro _ m hm'
    refine Or.inr ⟨rankNoisyOne hm rk (alloc m), ?_, by rw [move_rankNoisyOne]; rfl⟩
    exact List.mem_map_of_mem (List.mem_append_right _ (List.mem_map_of_mem hm'))

theorem post_pickHash (hv : Board.valid b = true) (hhm : hm < 32768) {rk : Rank} (hb : Bands rk)
    {st : PSt} {ys : List Move} (h : PInv b hm st ys) (hst : st.stage = .pickHash) :
    Post b hm ys (nextPickHash b hm rk st) := by
  unfold nextPickHash
  obtain ⟨hy, hr⟩ := h.B1 hst
  split
  · rename_i hpl
    refine ⟨fun _ => ?_, (fun h => by cases h)⟩
    simp only [current_snoc]
    refine ⟨by simp only [List.map_append, List.map_cons, List.map_nil, List.reverse_cons, h.E], ?_, h.Ar,
      fun _ _ => List.mem_cons_self, h.C, (fun h => by cases h), fun _ => hr,
      (fun h => by rcases h with h | h <;> cases h), (fun h => by cases h)⟩
    intro m hm'
    rcases List.mem_cons.1 hm' with rfl | hm'
    · exact (Props.C05.isPseudoLegal_iff_gen hv hhm).1 hpl
    · exact h.Ay m hm'
  · rename_i hpl
    refine post_genNoisy hv hhm hb ?_ rfl
    exact ⟨h.E, h.Ay, h.Ar, fun _ h2 => absurd h2 hpl, h.C, (fun h => by cases h), fun _ => hr,
      (fun h => by rcases h with h | h <;> cases h), (fun h => by cases h)⟩

theorem post_next (hv : Board.valid b = true) (hhm : hm < 32768) {rk : Rank} (hb : Bands rk)
    {st : PSt} {ys : List Move} (h : PInv b hm st ys) : Post b hm ys (Picker.next b hm rk st) := by
  unfold Picker.next
  split
  · rename_i e; exact post_pickHash hv hhm hb h e
  · rename_i e; exact post_genNoisy hv hhm hb h e
  · rename_i e; exact post_yieldGoodNoisy hv hhm hb h e
  · rename_i e; exact post_genQuiet hv hhm hb h e
  · rename_i e; exact post_yieldRest hv hhm h e

/-- every reachable frame satisfies the invariant. -/
theorem preach_inv (hv : Board.valid b = true) (hhm : hm < 32768) {st : PSt} {ys : List Move}
    (hr : PReach b hm st ys) : PInv b hm st ys := by
  induction hr with
  | init => exact pinv_init
  | next _ hb hn ih =>
    have := (post_next hv hhm hb ih).1
    rw [hn] at this
    exact this rfl
  | weight _ ih => exact pinv_weight ih _

/-- a successful `Next()` yields a generated move -/
theorem preach_mem {b : Board} {hm : Move} (hv : Board.valid b = true) (hhm : hm < 32768)
    {st : Picker.PSt} {ys : List Move} (hr : PReach b hm st ys) {rk : Picker.Rank} (hb : Bands rk)
    {st' : Picker.PSt} (hn : Picker.next b hm rk st = (true, st')) :
    (Picker.current st').move ∈ MoveGen.gen b :=
  (preach_inv hv hhm (PReach.next hr hb hn)).Ay _ List.mem_cons_self

/-- a failing `Next()` means every generated move has been yielded -/
theorem preach_complete {b : Board} {hm : Move} (hv : Board.valid b = true) (hhm : hm < 32768)
    {st : Picker.PSt} {ys : List Move} (hr : PReach b hm st ys) {rk : Picker.Rank} (hb : Bands rk)
    {st' : Picker.PSt} (hn : Picker.next b hm rk st = (false, st')) :
    ∀ m, m ∈ MoveGen.gen b → m ∈ ys := by
  have := (post_next hv hhm hb (preach_inv hv hhm hr)).2
  rw [hn] at this
  exact this rfl

/-- the yielded part of the frame holds exactly the yielded moves, oldest first (whatever weights
    were written into it since). -/
theorem preach_done {b : Board} {hm : Move} (hv : Board.valid b = true) (hhm : hm < 32768)
    {st : Picker.PSt} {ys : List Move} (hr : PReach b hm st ys) :
    st.done.map (·.move) = ys.reverse := (preach_inv hv hhm hr).E

/-- everything yielded so far is a generated move. -/
theorem preach_ys_mem {b : Board} {hm : Move} (hv : Board.valid b = true) (hhm : hm < 32768)
    {st : Picker.PSt} {ys : List Move} (hr : PReach b hm st ys) :
    ∀ m, m ∈ ys → m ∈ MoveGen.gen b := (preach_inv hv hhm hr).Ay

/-! ### the picker never rests in stage `genQuiet` -/

theorem nextYieldRest_stage {s s' : PSt} (h : nextYieldRest s = (true, s')) : s'.stage = s.stage := by
  unfold nextYieldRest at h
  split at h
  · simp only [Prod.mk.injEq, true_and] at h; rw [← h]
  · simp only [Prod.mk.injEq, Bool.false_eq_true, false_and] at h

theorem nextGenQuiet_stage {b : Board} {hm : Move} {rk : Rank} {s s' : PSt}
    (h : nextGenQuiet b hm rk s = (true, s')) : s'.stage = .yieldRest := by
  unfold nextGenQuiet at h
  exact nextYieldRest_stage h

theorem nextYieldGoodNoisy_stage {b : Board} {hm : Move} {rk : Rank} {s s' : PSt}
    (h : nextYieldGoodNoisy b hm rk s = (true, s')) : s'.stage = s.stage ∨ s'.stage = .yieldRest := by
  unfold nextYieldGoodNoisy at h
  split at h
  · simp only [Prod.mk.injEq, true_and] at h; rw [← h]; exact Or.inl rfl
  · exact Or.inr (nextGenQuiet_stage h)

theorem nextGenNoisy_stage {b : Board} {hm : Move} {rk : Rank} {s s' : PSt}
    (h : nextGenNoisy b hm rk s = (true, s')) : s'.stage = .yieldGoodNoisy ∨ s'.stage = .yieldRest := by
  unfold nextGenNoisy at h
  exact nextYieldGoodNoisy_stage h

theorem next_stage {b : Board} {hm : Move} {rk : Rank} {s s' : PSt}
    (h : Picker.next b hm rk s = (true, s')) (hs : s.stage ≠ .genQuiet) : s'.stage ≠ .genQuiet := by
  unfold Picker.next at h
  split at h
  · unfold nextPickHash at h
    split at h
    · simp only [Prod.mk.injEq, true_and] at h; rw [← h]; exact (fun e => by cases e)
    · rcases nextGenNoisy_stage h with e | e <;> rw [e] <;> exact (fun e => by cases e)
  · rcases nextGenNoisy_stage h with e | e <;> rw [e] <;> exact (fun e => by cases e)
  · rename_i e0
    rcases nextYieldGoodNoisy_stage h with e | e
    · rw [e, e0]; exact (fun e => by cases e)
    · rw [e]; exact (fun e => by cases e)
  · rename_i e0; exact absurd e0 hs
  · rename_i e0
    rw [nextYieldRest_stage h, e0]; exact (fun e => by cases e)

/-- between two `Next()` calls the picker is never in stage `genQuiet` (the model passes through it
    inside a call only). -/
theorem preach_stage {b : Board} {hm : Move} {st : Picker.PSt} {ys : List Move}
    (hr : PReach b hm st ys) : st.stage ≠ .genQuiet := by
  induction hr with
  | init => exact (fun e => by cases e)
  | next _ _ hn ih => exact next_stage hn ih
  | weight _ ih => exact ih

/-! ### non-vacuity -/

/-- constant ranking functions inside the bands. -/
theorem bands_const : Bands { noisy := fun _ => Gen.Funcs.Captures, quiet := fun _ => 0 } :=
  ⟨fun _ => Or.inl (show Gen.Funcs.Captures ≤ Gen.Funcs.Captures ∧
      Gen.Funcs.Captures < Gen.Funcs.Captures + Gen.Funcs.CaptureRange by decide),
   fun _ => (show -(3 * Gen.Funcs.MaxHistory) ≤ (0 : Int) ∧ (0 : Int) ≤ 3 * Gen.Funcs.MaxHistory by decide)⟩

/-- start position, hash move e2e4: the first `Next()` succeeds (and yields e2e4), so the hypotheses
    of `preach_mem` are met with `st = init`; after a weight overwrite the frame is still reachable. -/
example : ∃ st', Picker.next Props.C05.start (Move.mk 12 28 0)
      { noisy := fun _ => Gen.Funcs.Captures, quiet := fun _ => 0 } Picker.init = (true, st') ∧
    (Picker.current st').move = Move.mk 12 28 0 ∧
    PReach Props.C05.start (Move.mk 12 28 0)
      { st' with done := SearchReal.setLastWeight st'.done (-5) } [Move.mk 12 28 0] := by
  have hpl : Props.C05.start.isPseudoLegal (Move.mk 12 28 0) = true := by decide +kernel
  have hn : Picker.next Props.C05.start (Move.mk 12 28 0)
      { noisy := fun _ => Gen.Funcs.Captures, quiet := fun _ => 0 } Picker.init =
      (true, { stage := .genNoisy, done := [{ move := Move.mk 12 28 0, weight := Gen.Heur.hashWeight }], rest := [] }) := by
    simp only [Picker.next, Picker.init, nextPickHash, hpl, if_true, List.nil_append]
  refine ⟨_, hn, rfl, ?_⟩
  exact PReach.weight (PReach.next PReach.init bands_const hn)

end ChessVerif.Proofs.SearchRealPicker

