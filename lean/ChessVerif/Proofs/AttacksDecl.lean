/-
  C12, declarative reading of the geometric spec (Spec/Geometry.lean), for use by the board-level
  properties:
   * `mem_rayWalkFrom`     – the k-th square of a ray is reached iff the ray stays on the board and all
                             earlier squares are empty;
   * `mem_strictlyBetween` – membership in `strictlyBetween a b` by coordinates;
   * `mem_rayWalk`         – one ray, in terms of alignment, direction signs and empty between-squares;
   * `mem_rookRay`, `mem_bishopRay` – t ∈ rookRay occ s ↔ same file or rank ∧ s ≠ t ∧ every square
                             strictly between is empty (same for diagonals).
-/
import ChessVerif.Proofs.AttacksBasic

set_option linter.unusedSimpArgs false
set_option linter.unusedVariables false

open ChessVerif ChessVerif.Geometry

namespace ChessVerif.AttacksProofs

theorem step_succ (f df : Int) (j : Nat) : f + df + (j : Int) * df = f + ((j + 1 : Nat) : Int) * df := by
  rw [Int.natCast_add, Int.add_mul]; simp; omega

theorem sqAt_lt (f r : Int) (h : onBoard f r = true) : sqAt f r < 64 := by
  simp only [onBoard, Bool.and_eq_true, decide_eq_true_eq] at h
  unfold sqAt; omega

/-- Membership in one ray: `t` is the `k`-th square of the ray, the ray stays on the board up to it
    and every earlier square of the ray is empty. -/
theorem mem_rayWalkFrom (occ : BB) (df dr : Int) :
    ∀ (n : Nat) (f r : Int) (t : Nat),
      (rayWalkFrom occ df dr n f r).getLsbD t = true ↔
        ∃ k : Nat, 1 ≤ k ∧ k ≤ n ∧
          (∀ j : Nat, 1 ≤ j → j ≤ k → onBoard (f + (j : Int) * df) (r + (j : Int) * dr) = true) ∧
          t = sqAt (f + (k : Int) * df) (r + (k : Int) * dr) ∧
          ∀ j : Nat, 1 ≤ j → j < k → occ.getLsbD (sqAt (f + (j : Int) * df) (r + (j : Int) * dr)) = false := by
  intro n
  induction n with
  | zero =>
    intro f r t
    rw [rayWalkFrom]
    constructor
    · intro h; simp at h
    · rintro ⟨k, h1, h2, _⟩; omega
  | succ n ih =>
    intro f r t
    have h1f : f + ((1 : Nat) : Int) * df = f + df := by simp
    have h1r : r + ((1 : Nat) : Int) * dr = r + dr := by simp
    rw [rayWalkFrom]
    simp only []
    by_cases hob : onBoard (f + df) (r + dr) = true
    · have hlt := sqAt_lt _ _ hob
      rw [if_pos hob]
      by_cases ho : occ.getLsbD (sqAt (f + df) (r + dr)) = true
      · rw [if_pos ho, bit_getLsbD _ _ hlt]
        simp only [decide_eq_true_eq]
        constructor
        · intro h
          refine ⟨1, by omega, by omega, ?_, ?_, ?_⟩
          · intro j hj1 hj2
            have : j = 1 := by omega
            subst this; rw [h1f, h1r]; exact hob
          · rw [h1f, h1r]; exact h.symm
          · intro j hj1 hj2; omega
        · rintro ⟨k, hk1, hk2, hall, ht, hempty⟩
          by_cases hk : k = 1
          · subst hk; rw [h1f, h1r] at ht; exact ht.symm
          · have := hempty 1 (by omega) (by omega)
            rw [h1f, h1r, ho] at this
            exact absurd this (by simp)
      · have ho' : occ.getLsbD (sqAt (f + df) (r + dr)) = false := by simpa using ho
        rw [if_neg ho, BitVec.getLsbD_or, Bool.or_eq_true, bit_getLsbD _ _ hlt, ih]
        simp only [decide_eq_true_eq]
        constructor
        · rintro (h | ⟨k, hk1, hk2, hall, ht, hempty⟩)
          · refine ⟨1, by omega, by omega, ?_, ?_, ?_⟩
            · intro j hj1 hj2
              have : j = 1 := by omega
              subst this; rw [h1f, h1r]; exact hob
            · rw [h1f, h1r]; exact h.symm
            · intro j hj1 hj2; omega
          · refine ⟨k + 1, by omega, by omega, ?_, ?_, ?_⟩
            · intro j hj1 hj2
              by_cases hj : j = 1
              · subst hj; rw [h1f, h1r]; exact hob
              · obtain ⟨i, rfl⟩ : ∃ i, j = i + 1 := ⟨j - 1, by omega⟩
                rw [← step_succ, ← step_succ]
                exact hall i (by omega) (by omega)
            · rw [← step_succ, ← step_succ]; exact ht
            · intro j hj1 hj2
              by_cases hj : j = 1
              · subst hj; rw [h1f, h1r]; exact ho'
              · obtain ⟨i, rfl⟩ : ∃ i, j = i + 1 := ⟨j - 1, by omega⟩
                rw [← step_succ, ← step_succ]
                exact hempty i (by omega) (by omega)
        · rintro ⟨k, hk1, hk2, hall, ht, hempty⟩
          by_cases hk : k = 1
          · subst hk; rw [h1f, h1r] at ht; exact Or.inl ht.symm
          · right
            obtain ⟨i, rfl⟩ : ∃ i, k = i + 1 := ⟨k - 1, by omega⟩
            refine ⟨i, by omega, by omega, ?_, ?_, ?_⟩
            · intro j hj1 hj2
              rw [step_succ, step_succ]
              exact hall (j + 1) (by omega) (by omega)
            · rw [step_succ, step_succ]; exact ht
            · intro j hj1 hj2
              rw [step_succ, step_succ]
              exact hempty (j + 1) (by omega) (by omega)
    · rw [if_neg hob]
      constructor
      · intro h; simp at h
      · rintro ⟨k, hk1, hk2, hall, _⟩
        have := hall 1 (by omega) hk1
        rw [h1f, h1r] at this
        exact absurd this hob


/-- Membership in `strictlyBetween`, declaratively. -/
theorem mem_strictlyBetween (a b u : Nat) (ha : a < 64) (hb : b < 64) :
    (strictlyBetween a b).getLsbD u = true ↔
      aligned a b = true ∧ u < 64 ∧ ∃ k : Nat, 0 < k ∧ k < max (fileDist a b) (rankDist a b) ∧
        fileI u = fileI a + (k : Int) * sgn (fileI b - fileI a) ∧
        rankI u = rankI a + (k : Int) * sgn (rankI b - rankI a) := by
  unfold strictlyBetween
  by_cases hal : aligned a b = true
  · simp only [hal, if_true, getLsbD_ofPred, Bool.and_eq_true, decide_eq_true_eq, List.any_eq_true,
      List.mem_range, beq_iff_eq, true_and]
    constructor
    · rintro ⟨hu, k, hk8, ⟨⟨hk0, hkn⟩, hf⟩, hr⟩
      exact ⟨hu, k, hk0, hkn, hf, hr⟩
    · rintro ⟨hu, k, hk0, hkn, hf, hr⟩
      refine ⟨hu, k, ?_, ⟨⟨hk0, hkn⟩, hf⟩, hr⟩
      have : max (fileDist a b) (rankDist a b) ≤ 7 := by
        unfold fileDist rankDist fileI rankI; omega
      omega
  · simp [hal]


theorem mul_dir (k : Nat) (d : Int) (hd : d = -1 ∨ d = 0 ∨ d = 1) :
    (d = -1 ∧ (k : Int) * d = -(k : Int)) ∨ (d = 0 ∧ (k : Int) * d = 0) ∨ (d = 1 ∧ (k : Int) * d = k) := by
  rcases hd with rfl | rfl | rfl <;> simp

/-- Membership in one ray of a slider on `s`, declaratively: `t ≠ s` lies on the line through `s`
    in direction `(df, dr)` and every square strictly between them is empty. -/
theorem mem_rayWalk (occ : BB) (s t : Nat) (hs : s < 64) (ht : t < 64) (df dr : Int)
    (hdf : df = -1 ∨ df = 0 ∨ df = 1) (hdr : dr = -1 ∨ dr = 0 ∨ dr = 1) (h00 : ¬(df = 0 ∧ dr = 0)) :
    (rayWalk occ s df dr).getLsbD t = true ↔
      s ≠ t ∧ aligned s t = true ∧ sgn (fileI t - fileI s) = df ∧ sgn (rankI t - rankI s) = dr ∧
        ∀ u, (strictlyBetween s t).getLsbD u = true → occ.getLsbD u = false := by
  unfold rayWalk
  rw [mem_rayWalkFrom]
  constructor
  · rintro ⟨k, hk1, hk7, hall, htk, hempty⟩
    have hobk := hall k hk1 (Nat.le_refl k)
    simp only [onBoard, Bool.and_eq_true, decide_eq_true_eq] at hobk
    have hK1 := mul_dir k df hdf
    have hK2 := mul_dir k dr hdr
    have hcoords : fileI t = fileI s + (k : Int) * df ∧ rankI t = rankI s + (k : Int) * dr := by
      rw [htk]; simp only [fileI, rankI, fileDist, rankDist, sqAt, sgn] at *
      generalize (k : Int) * df = K1 at *
      generalize (k : Int) * dr = K2 at *
      omega
    have hne : s ≠ t := by
      intro h; subst h
      simp only [fileI, rankI, fileDist, rankDist, sqAt, sgn, aligned] at *
      generalize (k : Int) * df = K1 at *
      generalize (k : Int) * dr = K2 at *
      omega
    have hal : aligned s t = true := by
      simp only [fileI, rankI, fileDist, rankDist, sqAt, sgn, aligned] at *
      simp only [Bool.or_eq_true, beq_iff_eq]
      generalize (k : Int) * df = K1 at *
      generalize (k : Int) * dr = K2 at *
      omega
    have hsf : sgn (fileI t - fileI s) = df := by
      simp only [fileI, rankI, fileDist, rankDist, sqAt, sgn, aligned] at *
      generalize (k : Int) * df = K1 at *
      omega
    have hsr : sgn (rankI t - rankI s) = dr := by
      simp only [fileI, rankI, fileDist, rankDist, sqAt, sgn, aligned] at *
      generalize (k : Int) * dr = K2 at *
      omega
    have hn : max (fileDist s t) (rankDist s t) = k := by
      simp only [fileI, rankI, fileDist, rankDist, sqAt, sgn, aligned] at *
      generalize (k : Int) * df = K1 at *
      generalize (k : Int) * dr = K2 at *
      omega
    refine ⟨hne, hal, hsf, hsr, ?_⟩
    intro u hu
    rw [mem_strictlyBetween s t u hs ht] at hu
    obtain ⟨_, hu64, j, hj0, hjn, hfu, hru⟩ := hu
    rw [hsf] at hfu; rw [hsr] at hru; rw [hn] at hjn
    have hobj := hall j hj0 (by omega)
    simp only [onBoard, Bool.and_eq_true, decide_eq_true_eq] at hobj
    have huj : u = sqAt (fileI s + (j : Int) * df) (rankI s + (j : Int) * dr) := by
      simp only [fileI, rankI, fileDist, rankDist, sqAt, sgn, aligned] at *
      generalize (j : Int) * df = J1 at *
      generalize (j : Int) * dr = J2 at *
      omega
    rw [huj]; exact hempty j hj0 hjn
  · rintro ⟨hne, hal, hsf, hsr, hclear⟩
    have hal' := hal
    unfold aligned at hal'
    simp only [Bool.or_eq_true, beq_iff_eq] at hal'
    have hk1 : 1 ≤ max (fileDist s t) (rankDist s t) := by
      simp only [fileI, rankI, fileDist, rankDist, sqAt, sgn, aligned] at *
      omega
    have hk7 : max (fileDist s t) (rankDist s t) ≤ 7 := by
      simp only [fileI, rankI, fileDist, rankDist, sqAt, sgn, aligned] at *
      omega
    have hcoords : fileI t = fileI s + ((max (fileDist s t) (rankDist s t) : Nat) : Int) * df ∧
        rankI t = rankI s + ((max (fileDist s t) (rankDist s t) : Nat) : Int) * dr := by
      have hK1 := mul_dir (max (fileDist s t) (rankDist s t)) df hdf
      have hK2 := mul_dir (max (fileDist s t) (rankDist s t)) dr hdr
      generalize ((max (fileDist s t) (rankDist s t) : Nat) : Int) * df = K1 at *
      generalize ((max (fileDist s t) (rankDist s t) : Nat) : Int) * dr = K2 at *
      simp only [fileI, rankI, fileDist, rankDist, sqAt, sgn, aligned] at *
      omega
    generalize max (fileDist s t) (rankDist s t) = k at hcoords hk1 hk7
    have hK1 := mul_dir k df hdf
    have hK2 := mul_dir k dr hdr
    have hall : ∀ j : Nat, 1 ≤ j → j ≤ k →
        onBoard (fileI s + (j : Int) * df) (rankI s + (j : Int) * dr) = true := by
      intro j hj1 hjk
      simp only [onBoard, Bool.and_eq_true, decide_eq_true_eq]
      have hJ1 := mul_dir j df hdf
      have hJ2 := mul_dir j dr hdr
      simp only [fileI, rankI, fileDist, rankDist, sqAt, sgn, aligned] at *
      generalize (k : Int) * df = K1 at *
      generalize (k : Int) * dr = K2 at *
      generalize (j : Int) * df = J1 at *
      generalize (j : Int) * dr = J2 at *
      omega
    refine ⟨k, hk1, hk7, hall, ?_, ?_⟩
    · simp only [fileI, rankI, fileDist, rankDist, sqAt, sgn, aligned] at *
      generalize (k : Int) * df = K1 at *
      generalize (k : Int) * dr = K2 at *
      omega
    · intro j hj1 hjk
      apply hclear
      have hobj := hall j hj1 (by omega)
      rw [mem_strictlyBetween s _ _ hs ht]
      have hJ1 := mul_dir j df hdf
      have hJ2 := mul_dir j dr hdr
      have hsf' : sgn (fileI t - fileI s) = df := hsf
      have hsr' : sgn (rankI t - rankI s) = dr := hsr
      simp only [onBoard, Bool.and_eq_true, decide_eq_true_eq] at hobj
      refine ⟨hal, sqAt_lt _ _ (hall j hj1 (by omega)), j, by omega, ?_, ?_, ?_⟩
      · have hk' : max (fileDist s t) (rankDist s t) = k := by
          simp only [fileI, rankI, fileDist, rankDist, sqAt, sgn, aligned] at *
          generalize (k : Int) * df = K1 at *
          generalize (k : Int) * dr = K2 at *
          omega
        omega
      · rw [hsf']
        simp only [fileI, rankI, fileDist, rankDist, sqAt, sgn, aligned] at *
        generalize (j : Int) * df = J1 at *
        generalize (j : Int) * dr = J2 at *
        omega
      · rw [hsr']
        simp only [fileI, rankI, fileDist, rankDist, sqAt, sgn, aligned] at *
        generalize (j : Int) * df = J1 at *
        generalize (j : Int) * dr = J2 at *
        omega


/-- **Declarative characterisation of the rook attack set**: `t` is attacked from `s` iff the two
    squares share a file or a rank, differ, and every square strictly between them is empty. -/
theorem mem_rookRay (occ : BB) (s t : Nat) (hs : s < 64) (ht : t < 64) :
    (rookRay occ s).getLsbD t = true ↔
      (fileOf s = fileOf t ∨ rankOf s = rankOf t) ∧ s ≠ t ∧
        ∀ u, (strictlyBetween s t).getLsbD u = true → occ.getLsbD u = false := by
  unfold rookRay
  simp only [BitVec.getLsbD_or, Bool.or_eq_true]
  rw [mem_rayWalk occ s t hs ht 0 1 (by decide) (by decide) (by decide),
    mem_rayWalk occ s t hs ht 0 (-1) (by decide) (by decide) (by decide),
    mem_rayWalk occ s t hs ht 1 0 (by decide) (by decide) (by decide),
    mem_rayWalk occ s t hs ht (-1) 0 (by decide) (by decide) (by decide)]
  constructor
  · rintro (((⟨hne, hal, hsf, hsr, hc⟩ | ⟨hne, hal, hsf, hsr, hc⟩) | ⟨hne, hal, hsf, hsr, hc⟩) | ⟨hne, hal, hsf, hsr, hc⟩) <;>
      refine ⟨?_, hne, hc⟩ <;>
      simp only [sgn, fileI, rankI, fileOf, rankOf] at * <;> omega
  · rintro ⟨hfr, hne, hc⟩
    have hal : aligned s t = true := by
      simp only [aligned, Bool.or_eq_true, beq_iff_eq, fileI, rankI, fileOf, rankOf] at *
      omega
    have hcases : (sgn (fileI t - fileI s) = 0 ∧ sgn (rankI t - rankI s) = 1) ∨
        (sgn (fileI t - fileI s) = 0 ∧ sgn (rankI t - rankI s) = -1) ∨
        (sgn (fileI t - fileI s) = 1 ∧ sgn (rankI t - rankI s) = 0) ∨
        (sgn (fileI t - fileI s) = -1 ∧ sgn (rankI t - rankI s) = 0) := by
      simp only [sgn, fileI, rankI, fileOf, rankOf] at *
      omega
    rcases hcases with ⟨h1, h2⟩ | ⟨h1, h2⟩ | ⟨h1, h2⟩ | ⟨h1, h2⟩
    · exact Or.inl (Or.inl (Or.inl ⟨hne, hal, h1, h2, hc⟩))
    · exact Or.inl (Or.inl (Or.inr ⟨hne, hal, h1, h2, hc⟩))
    · exact Or.inl (Or.inr ⟨hne, hal, h1, h2, hc⟩)
    · exact Or.inr ⟨hne, hal, h1, h2, hc⟩

/-- **Declarative characterisation of the bishop attack set**: `t` is attacked from `s` iff the two
    squares share a diagonal, differ, and every square strictly between them is empty. -/
theorem mem_bishopRay (occ : BB) (s t : Nat) (hs : s < 64) (ht : t < 64) :
    (bishopRay occ s).getLsbD t = true ↔
      fileDist s t = rankDist s t ∧ s ≠ t ∧
        ∀ u, (strictlyBetween s t).getLsbD u = true → occ.getLsbD u = false := by
  unfold bishopRay
  simp only [BitVec.getLsbD_or, Bool.or_eq_true]
  rw [mem_rayWalk occ s t hs ht 1 1 (by decide) (by decide) (by decide),
    mem_rayWalk occ s t hs ht (-1) 1 (by decide) (by decide) (by decide),
    mem_rayWalk occ s t hs ht 1 (-1) (by decide) (by decide) (by decide),
    mem_rayWalk occ s t hs ht (-1) (-1) (by decide) (by decide) (by decide)]
  constructor
  · rintro (((⟨hne, hal, hsf, hsr, hc⟩ | ⟨hne, hal, hsf, hsr, hc⟩) | ⟨hne, hal, hsf, hsr, hc⟩) | ⟨hne, hal, hsf, hsr, hc⟩) <;>
      refine ⟨?_, hne, hc⟩ <;>
      simp only [aligned, Bool.or_eq_true, beq_iff_eq, sgn, fileI, rankI, fileDist, rankDist] at * <;> omega
  · rintro ⟨hfr, hne, hc⟩
    have hal : aligned s t = true := by
      simp only [aligned, Bool.or_eq_true, beq_iff_eq]
      exact Or.inr hfr
    have hcases : (sgn (fileI t - fileI s) = 1 ∧ sgn (rankI t - rankI s) = 1) ∨
        (sgn (fileI t - fileI s) = -1 ∧ sgn (rankI t - rankI s) = 1) ∨
        (sgn (fileI t - fileI s) = 1 ∧ sgn (rankI t - rankI s) = -1) ∨
        (sgn (fileI t - fileI s) = -1 ∧ sgn (rankI t - rankI s) = -1) := by
      simp only [sgn, fileI, rankI, fileDist, rankDist] at *
      omega
    rcases hcases with ⟨h1, h2⟩ | ⟨h1, h2⟩ | ⟨h1, h2⟩ | ⟨h1, h2⟩
    · exact Or.inl (Or.inl (Or.inl ⟨hne, hal, h1, h2, hc⟩))
    · exact Or.inl (Or.inl (Or.inr ⟨hne, hal, h1, h2, hc⟩))
    · exact Or.inl (Or.inr ⟨hne, hal, h1, h2, hc⟩)
    · exact Or.inr ⟨hne, hal, h1, h2, hc⟩

end ChessVerif.AttacksProofs
