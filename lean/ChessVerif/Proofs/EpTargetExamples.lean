/-
  C02, example positions (non-vacuity of Props/C02.lean): the two D2 positions, a position in which
  the target is recorded, one in which the capturer is pinned along the rank through both pawns, and a
  Black double push.  The facts are evaluated by the kernel on the rule-book side (`Rules.*`); the
  engine side follows by the theorems (the rook magic tables are too large for kernel evaluation).
-/
import ChessVerif.Proofs.EpTargetPlayable
import ChessVerif.Props.C02core

namespace ChessVerif.EpTarget.Examples
open ChessVerif Board
open ChessVerif.Props.C02core (mem_gen_of_rules)

/-- D2, diagonal: `8/8/8/7k/5p2/8/4P3/3BK3 w - - 0 1` — e2e4 discovers the check Bd1–h5 through the origin square e2. -/
def d2a : Board :=
  { sq := #v[.none, .none, .none, .bishop, .king, .none, .none, .none,
             .none, .none, .none, .none, .pawn, .none, .none, .none,
             .none, .none, .none, .none, .none, .none, .none, .none,
             .none, .none, .none, .none, .none, .pawn, .none, .none,
             .none, .none, .none, .none, .none, .none, .none, .king,
             .none, .none, .none, .none, .none, .none, .none, .none,
             .none, .none, .none, .none, .none, .none, .none, .none,
             .none, .none, .none, .none, .none, .none, .none, .none],
    pieces := #v[0, bit 12 ||| bit 29, 0, bit 3, 0, 0, bit 4 ||| bit 39],
    colors := #v[bit 4 ||| bit 3 ||| bit 12, bit 39 ||| bit 29],
    hashes := [], fullMoves := 1, stm := .white, ep := 0, castles := 0#4, fifty := 0 }

/-- D2, rank: `8/8/8/8/3p4/8/R3P2k/4K3 w - - 0 1` — e2e4 discovers the check Ra2–h2 through e2. -/
def d2b : Board :=
  { sq := #v[.none, .none, .none, .none, .king, .none, .none, .none,
             .rook, .none, .none, .none, .pawn, .none, .none, .king,
             .none, .none, .none, .none, .none, .none, .none, .none,
             .none, .none, .none, .pawn, .none, .none, .none, .none,
             .none, .none, .none, .none, .none, .none, .none, .none,
             .none, .none, .none, .none, .none, .none, .none, .none,
             .none, .none, .none, .none, .none, .none, .none, .none,
             .none, .none, .none, .none, .none, .none, .none, .none],
    pieces := #v[0, bit 12 ||| bit 27, 0, 0, bit 8, 0, bit 4 ||| bit 15],
    colors := #v[bit 4 ||| bit 8 ||| bit 12, bit 15 ||| bit 27],
    hashes := [], fullMoves := 1, stm := .white, ep := 0, castles := 0#4, fifty := 0 }

/-- `4k3/8/8/8/3p4/8/4P3/4K3 w - - 0 1` — after e2e4 the capture d4xe3 is legal. -/
def okp : Board :=
  { sq := #v[.none, .none, .none, .none, .king, .none, .none, .none,
             .none, .none, .none, .none, .pawn, .none, .none, .none,
             .none, .none, .none, .none, .none, .none, .none, .none,
             .none, .none, .none, .pawn, .none, .none, .none, .none,
             .none, .none, .none, .none, .none, .none, .none, .none,
             .none, .none, .none, .none, .none, .none, .none, .none,
             .none, .none, .none, .none, .none, .none, .none, .none,
             .none, .none, .none, .none, .king, .none, .none, .none],
    pieces := #v[0, bit 12 ||| bit 27, 0, 0, 0, 0, bit 4 ||| bit 60],
    colors := #v[bit 4 ||| bit 12, bit 60 ||| bit 27],
    hashes := [], fullMoves := 1, stm := .white, ep := 0, castles := 0#4, fifty := 0 }

/-- `8/8/8/8/k2p3R/8/4P3/4K3 w - - 0 1` — after e2e4 the capture d4xe3 would clear the fourth rank between Rh4 and Ka4. -/
def pin : Board :=
  { sq := #v[.none, .none, .none, .none, .king, .none, .none, .none,
             .none, .none, .none, .none, .pawn, .none, .none, .none,
             .none, .none, .none, .none, .none, .none, .none, .none,
             .king, .none, .none, .pawn, .none, .none, .none, .rook,
             .none, .none, .none, .none, .none, .none, .none, .none,
             .none, .none, .none, .none, .none, .none, .none, .none,
             .none, .none, .none, .none, .none, .none, .none, .none,
             .none, .none, .none, .none, .none, .none, .none, .none],
    pieces := #v[0, bit 12 ||| bit 27, 0, 0, bit 31, 0, bit 4 ||| bit 24],
    colors := #v[bit 4 ||| bit 31 ||| bit 12, bit 24 ||| bit 27],
    hashes := [], fullMoves := 1, stm := .white, ep := 0, castles := 0#4, fifty := 0 }

/-- `4k3/3p4/8/4P3/8/8/8/4K3 b - - 0 1` — Black to move: after d7d5 the capture e5xd6 is legal. -/
def blk : Board :=
  { sq := #v[.none, .none, .none, .none, .king, .none, .none, .none,
             .none, .none, .none, .none, .none, .none, .none, .none,
             .none, .none, .none, .none, .none, .none, .none, .none,
             .none, .none, .none, .none, .none, .none, .none, .none,
             .none, .none, .none, .none, .pawn, .none, .none, .none,
             .none, .none, .none, .none, .none, .none, .none, .none,
             .none, .none, .none, .pawn, .none, .none, .none, .none,
             .none, .none, .none, .none, .king, .none, .none, .none],
    pieces := #v[0, bit 36 ||| bit 51, 0, 0, 0, 0, bit 4 ||| bit 60],
    colors := #v[bit 4 ||| bit 36, bit 60 ||| bit 51],
    hashes := [], fullMoves := 1, stm := .black, ep := 0, castles := 0#4, fifty := 0 }

def e2e4 : Move := Move.mk 12 28 0
def d7d5 : Move := Move.mk 51 35 0

theorem d2a_valid : Board.valid d2a = true := by decide +kernel
theorem d2b_valid : Board.valid d2b = true := by decide +kernel
theorem okp_valid : Board.valid okp = true := by decide +kernel
theorem pin_valid : Board.valid pin = true := by decide +kernel
theorem blk_valid : Board.valid blk = true := by decide +kernel

theorem d2a_gen : e2e4 ∈ MoveGen.gen d2a := mem_gen_of_rules d2a_valid (by decide) (by decide +kernel) (by decide)
theorem d2b_gen : e2e4 ∈ MoveGen.gen d2b := mem_gen_of_rules d2b_valid (by decide) (by decide +kernel) (by decide)
theorem okp_gen : e2e4 ∈ MoveGen.gen okp := mem_gen_of_rules okp_valid (by decide) (by decide +kernel) (by decide)
theorem pin_gen : e2e4 ∈ MoveGen.gen pin := mem_gen_of_rules pin_valid (by decide) (by decide +kernel) (by decide)
theorem blk_gen : d7d5 ∈ MoveGen.gen blk := mem_gen_of_rules blk_valid (by decide) (by decide +kernel) (by decide)

end ChessVerif.EpTarget.Examples
