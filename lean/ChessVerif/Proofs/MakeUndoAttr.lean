/-
  The simp set `board_form` used to bring `makeMove` / `undoMove` into normal form
  (see Proofs/MakeUndoForm.lean).  A simp attribute has to be registered in a module of its own.
-/
import Lean.Meta.Tactic.Simp.RegisterCommand

/-- rewriting rules that push the scalar field updates of a `Board` outwards through
    `addPiece` / `removePiece` and evaluate field reads through them. -/
register_simp_attr board_form
