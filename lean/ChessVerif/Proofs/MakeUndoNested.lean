/-
  C03, nesting: any sequence of makes (moves and null moves) followed by the reverse sequence of
  undos returns to the identical board.
-/
import ChessVerif.Proofs.MakeUndoSteps

namespace ChessVerif.Board

/-! ### `MakeOK` is decidable (so that `runMakes` is an executable function) -/

/-- the castling clause of `MakeOK` without the quantifier. -/
def CastleClause (b : Board) (m : Move) : Prop :=
  match hop (b.pieceAt (Move.src m)) m with
  | none => True
  | some (rf, rt) =>
    b.pieceAt rf = Piece.rook ∧ (b.colorBB b.stm).getLsbD rf = true ∧ b.pieceAt rt = Piece.none ∧
      b.pieceAt (Move.dst m) = Piece.none

instance (b : Board) (m : Move) : Decidable (CastleClause b m) := by
  unfold CastleClause; split <;> infer_instance

theorem castleClause_iff (b : Board) (m : Move) :
    CastleClause b m ↔ ∀ rf rt, hop (b.pieceAt (Move.src m)) m = some (rf, rt) →
      b.pieceAt rf = Piece.rook ∧ (b.colorBB b.stm).getLsbD rf = true ∧ b.pieceAt rt = Piece.none ∧
      b.pieceAt (Move.dst m) = Piece.none := by
  unfold CastleClause
  cases h : hop (b.pieceAt (Move.src m)) m with
  | none => simp
  | some v => obtain ⟨rf, rt⟩ := v; simp

theorem makeOK_iff (b : Board) (m : Move) :
    MakeOK b m ↔
      ((b.colorBB b.stm).getLsbD (Move.src m) = true ∧ (b.colorBB b.stm).getLsbD (Move.dst m) = false ∧
       (b.pieceAt (b.captureSq m) ≠ Piece.none → (b.colorBB b.stm.flip).getLsbD (b.captureSq m) = true) ∧
       (b.isEnPassant m = true → b.pieceAt (Move.dst m) = Piece.none) ∧ CastleClause b m ∧
       (Move.promo m ≠ 0 → b.pieceAt (Move.src m) = Piece.pawn ∧ 2 ≤ Move.promo m ∧ Move.promo m ≤ 5) ∧
       b.ep < 64 ∧ -128 ≤ b.fifty ∧ b.fifty ≤ 127) := by
  constructor
  · intro h
    exact ⟨h.own_src, h.not_own_dst, h.cap_enemy, h.ep_dst_empty, (castleClause_iff b m).2 h.castle, h.promo, h.ep_lt,
      h.fifty_lo, h.fifty_hi⟩
  · intro ⟨h1, h2, h3, h4, h5, h6, h7, h8, h9⟩
    exact ⟨h1, h2, h3, h4, (castleClause_iff b m).1 h5, h6, h7, h8, h9⟩

instance (b : Board) (m : Move) : Decidable (MakeOK b m) := decidable_of_iff _ (makeOK_iff b m).symm

/-! ### null moves -/

theorem makeNull_facts (K : Keys) (b : Board) :
    (makeNull K b).1.sq = b.sq ∧ (makeNull K b).1.pieces = b.pieces ∧ (makeNull K b).1.colors = b.colors ∧
    (makeNull K b).1.ep = 0 ∧ (makeNull K b).1.stm = b.stm.flip ∧ (makeNull K b).1.castles = b.castles ∧
    (makeNull K b).1.fifty = b.fifty ∧ (makeNull K b).1.fullMoves = b.fullMoves ∧
    (makeNull K b).1.hashes.tail = b.hashes := by
  unfold makeNull
  by_cases h : b.ep = 0 <;> simp [h]

theorem undoNull_makeNull' (K : Keys) (b : Board) (hep : b.ep < 64) :
    undoNull (makeNull K b).1 (makeNull K b).2 = b := by
  unfold makeNull undoNull
  by_cases h : b.ep = 0
  · simp [h, Reverse.enPassantChange]
    cases b; simp_all
  · have := token_null_roundtrip b.ep hep
    simp [h]
    cases b; simp_all

theorem wf_null (K : Keys) {b : Board} (h : WF b) : WF (makeNull K b).1 := by
  obtain ⟨h1, h2, h3, _⟩ := makeNull_facts K b
  exact (h.rep.congr_board h1 h2 h3).wf

theorem wf_make (K : Keys) {b : Board} {m : Move} (h : WF b) (ok : MakeOK b m) : WF (makeMove K b m).1 :=
  (wf_make_rep K h.rep ok).wf

theorem undo_make (K : Keys) {b : Board} {m : Move} (h : WF b) (ok : MakeOK b m) :
    undoMove (makeMove K b m).1 m (makeMove K b m).2 = b := undo_make_rep K h.rep ok

theorem makeMove_ep_lt (K : Keys) (b : Board) (m : Move) : (makeMove K b m).1.ep < 64 := by
  rw [makeMove_eq, make_ep]; exact mvNewEP_lt b m

/-! ### sequences -/

/-- one step of a search line: a move or a null move. -/
inductive Op where
  | mk (m : Move)
  | null
  deriving DecidableEq, Repr

/-- the precondition of a step (`MakeOK` for a move, nothing for a null move). -/
def Op.ok (b : Board) : Op → Prop
  | .mk m => MakeOK b m
  | .null => True

instance (b : Board) (o : Op) : Decidable (o.ok b) := by
  cases o <;> unfold Op.ok <;> infer_instance

def doOp (K : Keys) (b : Board) : Op → Board × Reverse
  | .mk m => makeMove K b m
  | .null => makeNull K b

def undoOp (b : Board) : Op → Reverse → Board
  | .mk m, r => undoMove b m r
  | .null, r => undoNull b r

/-- make the whole line; the tokens are returned as a stack (most recent first).  `none` when some
    step does not meet its precondition. -/
def runMakes (K : Keys) (b : Board) : List Op → Option (Board × List Reverse)
  | [] => some (b, [])
  | o :: ops =>
    if o.ok b then
      match runMakes K (doOp K b o).1 ops with
      | some (b', toks) => some (b', toks ++ [(doOp K b o).2])
      | none => none
    else none

/-- undo a line (ops and tokens both most recent first). -/
def runUndos (b : Board) : List Op → List Reverse → Board
  | o :: ops, r :: rs => runUndos (undoOp b o r) ops rs
  | _, _ => b

theorem runUndos_append (b : Board) (ops ops2 : List Op) (ts ts2 : List Reverse) (h : ts.length = ops.length) :
    runUndos b (ops ++ ops2) (ts ++ ts2) = runUndos (runUndos b ops ts) ops2 ts2 := by
  induction ops generalizing b ts with
  | nil =>
    cases ts with
    | nil => cases ops2 <;> cases ts2 <;> simp [runUndos]
    | cons t ts => simp at h
  | cons o ops ih =>
    cases ts with
    | nil => simp at h
    | cons t ts =>
      simp only [List.cons_append, runUndos]
      exact ih _ _ (by simpa using h)

theorem runMakes_length (K : Keys) (b : Board) (ops : List Op) {b' : Board} {toks : List Reverse}
    (h : runMakes K b ops = some (b', toks)) : toks.length = ops.length := by
  induction ops generalizing b b' toks with
  | nil => simp [runMakes] at h; simp [h.2.symm]
  | cons o ops ih =>
    simp only [runMakes] at h
    split at h
    · split at h
      · rename_i b1 t1 h1
        simp at h; rw [← h.2]; simp [ih _ h1]
      · simp at h
    · simp at h

theorem doOp_wf (K : Keys) {b : Board} {o : Op} (h : WF b) (ok : o.ok b) : WF (doOp K b o).1 := by
  cases o with
  | mk m => exact wf_make K h ok
  | null => exact wf_null K h

theorem doOp_ep_lt (K : Keys) (b : Board) (o : Op) : (doOp K b o).1.ep < 64 := by
  cases o with
  | mk m => exact makeMove_ep_lt K b m
  | null => simp [doOp, (makeNull_facts K b).2.2.2.1]

theorem undoOp_doOp (K : Keys) {b : Board} {o : Op} (h : WF b) (hep : b.ep < 64) (ok : o.ok b) :
    undoOp (doOp K b o).1 o (doOp K b o).2 = b := by
  cases o with
  | mk m => exact undo_make K h ok
  | null => exact undoNull_makeNull' K b hep

/-- C03, arbitrary nesting depth. -/
theorem undo_nested (K : Keys) {b b' : Board} (ops : List Op) {toks : List Reverse} (h : WF b) (hep : b.ep < 64)
    (hrun : runMakes K b ops = some (b', toks)) : runUndos b' ops.reverse toks = b := by
  induction ops generalizing b b' toks with
  | nil => simp [runMakes] at hrun; simp [runUndos, hrun.1]
  | cons o ops ih =>
    simp only [runMakes] at hrun
    split at hrun
    · rename_i ok
      split at hrun
      · rename_i b1 t1 h1
        simp at hrun
        obtain ⟨e1, e2⟩ := hrun
        subst e1; subst e2
        have := ih (doOp_wf K h ok) (doOp_ep_lt K b o) h1
        rw [List.reverse_cons, runUndos_append _ _ _ _ _ (by simp [runMakes_length K _ ops h1]), this]
        simp [runUndos, undoOp_doOp K h hep ok]
      · simp at hrun
    · simp at hrun

/-- the invariant (`WF`, en-passant square in range) also holds at the end of the line. -/
theorem runMakes_wf (K : Keys) {b b' : Board} (ops : List Op) {toks : List Reverse} (h : WF b) (hep : b.ep < 64)
    (hrun : runMakes K b ops = some (b', toks)) : WF b' ∧ b'.ep < 64 := by
  induction ops generalizing b b' toks with
  | nil => simp [runMakes] at hrun; rw [← hrun.1]; exact ⟨h, hep⟩
  | cons o ops ih =>
    simp only [runMakes] at hrun
    split at hrun
    · rename_i ok
      split at hrun
      · rename_i b1 t1 h1
        simp at hrun
        rw [← hrun.1]
        exact ih (doOp_wf K h ok) (doOp_ep_lt K b o) h1
      · simp at hrun
    · simp at hrun

end ChessVerif.Board
