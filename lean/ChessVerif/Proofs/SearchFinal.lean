/-
  A ply-0 PV node on a FINAL root (no playable move, halfmove clock ≥ 100, or third occurrence),
  searched to depth ≥ 1: an un-aborted value strictly inside a sane window is 0, or the mated score
  `-Inf` for a checkmated root, and PV row 0 is empty.

  search.go: the draw return precedes the table probe; the root is a PV node, so table cut-offs are
  off; a checkmated root is in check, which disables reverse futility and null move pruning; on a
  stalemated root both can return, but only values ≥ beta (`rfp_sound` needs a window whose beta
  cannot wrap: `RootWin`), i.e. never strictly inside the window; what remains is the move loop
  without a legal move: `maxim = 0`, or `-Inf + ply` with `ply = 0`.
-/
import ChessVerif.Proofs.SearchScoreRoot

namespace ChessVerif
namespace Search

variable {σ π : Type} [PsInv σ]

/-- the score C06 demands of a completed search on a final root. -/
def FinalScore (K : Keys) (b : Board) (v : Score) : Prop :=
  v = 0 ∨ (b.inCheck b.stm = true ∧ MoveGen.playable K b = [] ∧ v = -Inf)

theorem abLoop_noplay (c : Comp σ π) (L : Limits) {Good : Board → Prop} (hl : Laws c Good) (child : Child σ)
    (x : ABCtx) (hmv : Move) :
    ∀ (n : Nat) (l : ABLoop π) (s : St σ), Good s.board → PsInv.ok s.ps → HashOK c s.board hmv →
      Reach c s.board hmv l.pick l.yielded →
      MoveGen.playable c.keys s.board = [] → l.hasLegal = false →
      let o := abLoop c L child x n l s
      (∀ v, o.1 = .ret v → o.2.aborted = true) ∧ (∀ l', o.1 = .done l' → l'.hasLegal = false) := by
  intro n
  induction n with
  | zero => intro l s _ _ _ _ _ _; exact ⟨fun v _ => rfl, (fun l' h => by cases h)⟩
  | succ n ih =>
    intro l s hg hok hhash hreach hnp hleg
    simp only [abLoop]
    split
    · exact ⟨(fun v h => by cases h), fun l' h => by cases h; exact hleg⟩
    · next m pk hpick =>
      have hmem : m ∈ MoveGen.gen s.board := hl.pick_mem _ _ _ _ _ _ _ _ hg hhash hreach hok hpick
      have hreach' : Reach c s.board hmv pk (m :: l.yielded) := Reach.next hreach hok hpick
      have hu := hl.undo_make s.board m hg hmem
      split
      · rw [hu, setBoard_self]; exact ih _ s hg hok hhash hreach' hnp hleg
      · next hchk =>
        exfalso
        have hchk' : (s.board.makeMove c.keys m).1.inCheck s.board.stm = false := by simpa using hchk
        have : m ∈ MoveGen.playable c.keys s.board := mem_playable.2 ⟨hmem, hchk'⟩
        rw [hnp] at this; cases this

theorem wrapS16_mate0 : wrapS16 (-Inf + 0) = -Inf := by decide

theorem abMoves_final (c : Comp σ π) (L : Limits) {Good : Board → Prop} (hl : Laws c Good) (child : Child σ)
    (alpha beta : Score) (d : Int) (nt : NodeType) (inCheck improving : Bool) (se : Score)
    (hm : Move) (s : St σ) (hg : Good s.board) (hok : PsInv.ok s.ps) (hhash : HashOK c s.board hm)
    (hnp : MoveGen.playable c.keys s.board = []) :
    let o := abMoves c L child alpha beta d 0 nt inCheck improving se hm s
    o.2.aborted = false → o.1 = (if inCheck then -Inf else 0) := by
  simp only [abMoves]
  have h := abLoop_noplay c L hl child
    (ABCtx.mk alpha beta (if c.iir nt d hm then wrapS8 (d - 1) else d) 0 nt inCheck improving se) hm
    ((MoveGen.gen s.board).length + 1)
    { alpha := alpha, bestMove := 0, hasLegal := false, failLow := true, maxim := -Inf - 1, moveCnt := 0, quietCnt := 0,
      pick := c.pickInit s.board hm, yielded := [] } s.pushFrame hg hok hhash Reach.init hnp rfl
  simp only at h
  generalize abLoop c L child
    (ABCtx.mk alpha beta (if c.iir nt d hm then wrapS8 (d - 1) else d) 0 nt inCheck improving se)
    ((MoveGen.gen s.board).length + 1)
    { alpha := alpha, bestMove := 0, hasLegal := false, failLow := true, maxim := -Inf - 1, moveCnt := 0, quietCnt := 0,
      pick := c.pickInit s.board hm, yielded := [] } s.pushFrame = r at h ⊢
  obtain ⟨fl, s'⟩ := r
  cases fl with
  | ret v =>
    intro hab
    have := h.1 v rfl
    simp only [popFrame_aborted'] at hab
    rw [this] at hab; cases hab
  | done l =>
    intro _
    have := h.2 l rfl
    simp only [this, Bool.not_false, if_true, wrapS16_mate0]

theorem abPrune_final (c : Comp σ π) (L : Limits) {Good : Board → Prop} {TTok : σ → Prop} {μ : Board → Nat}
    (hl : Laws c Good) (sl : ScoreLaws c Good TTok μ) (child : Child σ) (hc : ABSpec c L Good child)
    (alpha beta : Score) (hw : RootWin alpha beta) (d : Int) (hd : 0 ≤ d) (nt : NodeType) (inCheck improving : Bool)
    (se : Score) (hm : Move) (s : St σ) (hg : Good s.board) (hok : PsInv.ok s.ps) (hhash : HashOK c s.board hm)
    (hic : inCheck = s.board.inCheck s.board.stm)
    (hnp : MoveGen.playable c.keys s.board = []) :
    let o := abPrune c L child alpha beta d 0 nt inCheck improving se hm s
    o.2.aborted = false → alpha < o.1 → o.1 < beta → o.1 = (if inCheck then -Inf else 0) := by
  simp only [abPrune]
  split
  · next hrfp =>
    intro _ _ hlt
    have hcut : c.rfpCut d se beta = true := by
      simp only [Bool.and_eq_true] at hrfp; exact hrfp.2
    exact absurd hlt (Int.not_lt.2 (sl.rfp_sound d se beta hd hw.2 hcut))
  · split
    · next hnm =>
      have hic' : inCheck = false := by cases inCheck <;> simp_all
      have hchk : s.board.inCheck s.board.stm = false := by rw [← hic]; exact hic'
      have hn := nullMove_spec c L hl child hc beta d (Int.le_refl 0) (by decide) se s hg hok hchk
      have hge := nullMove_ge c child beta d 0 se s
      simp only at hn
      generalize nullMove c child beta d 0 se s = nm at hn hge ⊢
      split
      · next v hv => intro _ _ hlt; exact absurd hlt (Int.not_lt.2 (hge v hv))
      · intro hab _ _
        exact abMoves_final c L hl child alpha beta d nt inCheck improving se hm nm.2
          (by rw [hn.1.board]; exact hg) (hn.1.mono.ps_ok hok) (by rw [hn.1.board]; exact hhash)
          (by rw [hn.1.board]; exact hnp) hab
    · intro hab _ _
      exact abMoves_final c L hl child alpha beta d nt inCheck improving se hm s hg hok hhash hnp hab

theorem legalLine_nil_of_noplay {K : Keys} {b : Board} {line : List Move} (h : LegalLine K b line)
    (hnp : MoveGen.playable K b = []) : line = [] := by
  cases h with
  | nil => rfl
  | cons hm _ => rw [hnp] at hm; cases hm

/-- The final-root theorem for one root call. -/
theorem alphaBeta_final (c : Comp σ π) (L : Limits) {Good : Board → Prop} {TTok : σ → Prop} {μ : Board → Nat}
    (hl : Laws c Good) (sl : ScoreLaws c Good TTok μ) (fuel : Nat)
    (alpha beta : Score) (hw : RootWin alpha beta) (d : Int) (hd : 1 ≤ d) (s : St σ) (hg : Good s.board)
    (hok : PsInv.ok s.ps) (hfin : Final c.keys s.board) :
    let o := alphaBeta c L fuel alpha beta d 0 .pv s
    o.2.aborted = false → alpha < o.1 → o.1 < beta → FinalScore c.keys s.board o.1 ∧ o.2.pv.row 0 = [] := by
  cases fuel with
  | zero => intro o hab; exact absurd hab (by simp [o, alphaBeta])
  | succ fuel =>
    simp only [alphaBeta]
    have hq : ¬ (d = 0 ∨ (0 : Int) ≥ maxPlies - 1) := by simp [maxPlies]; omega
    rw [if_neg hq]
    have i1 := incrementNodes_frame L (s.setPv (s.pv.setNull (0 : Int).toNat))
    have ipv := incrementNodes_pv L (s.setPv (s.pv.setNull (0 : Int).toNat))
    generalize incrementNodes L (s.setPv (s.pv.setNull (0 : Int).toNat)) = s1 at i1 ipv ⊢
    have a1 := abort_frame L { s1 with abNodes := s1.abNodes + 1 }
    have apv := (abort_pv L { s1 with abNodes := s1.abNodes + 1 }).1
    have hat := abort_true_iff L { s1 with abNodes := s1.abNodes + 1 }
    generalize abort L { s1 with abNodes := s1.abNodes + 1 } = as at a1 apv hat ⊢
    have hb : as.2.board = s.board := by rw [a1.board]; exact i1.board
    have hrow0 : as.2.pv.row (0 : Int).toNat = [] := by
      rw [apv]
      show s1.pv.row (0 : Int).toNat = []
      rw [ipv]
      exact setNull_row_self _ _
    split
    · next h =>
      intro hab
      have hab' : as.2.aborted = false := hab
      rw [← hat, h] at hab'; cases hab'
    · split
      · intro _ _ _
        exact ⟨Or.inl rfl, hrow0⟩
      · next hnd =>
        -- not drawn by clock / repetition: the root has no playable move
        have hnp : MoveGen.playable c.keys s.board = [] := by
          rcases hfin with h | h | h
          · exact h
          · exact absurd (Or.inl (by rw [hb]; exact h)) hnd
          · refine absurd (Or.inr ?_) hnd
            rw [hb]
            have : (min (0 : Int) 1) = 0 := by decide
            rw [this]; omega
        intro hab hgt hlt
        have hok2 : PsInv.ok as.2.ps := a1.mono.ps_ok (i1.mono.ps_ok hok)
        have hspec := abBody_spec c L hl (alphaBeta c L fuel) (alphaBeta_spec c L hl fuel) alpha beta d (Int.le_refl 0)
          (by decide) .pv as.2 (by rw [hb]; exact hg) ⟨hok2, fifty_lt_of_not_draw hnd⟩ (by rw [hrow0]; exact LegalLine.nil)
        have hrow : (abBody c L (alphaBeta c L fuel) alpha beta d 0 .pv as.2).2.pv.row 0 = [] :=
          legalLine_nil_of_noplay hspec.2.2 (by rw [hb]; exact hnp)
        refine ⟨?_, hrow⟩
        -- the value
        have hbody : (abBody c L (alphaBeta c L fuel) alpha beta d 0 .pv as.2).1 =
            (if as.2.board.inCheck as.2.board.stm then -Inf else 0) := by
          revert hab hgt hlt
          simp only [abBody]
          split
          · next v heq =>
            exfalso
            split at heq
            · simp at heq
            · cases heq
          · intro hab hgt hlt
            exact abPrune_final c L hl sl (alphaBeta c L fuel) (alphaBeta_spec c L hl fuel) alpha beta hw d (by omega) .pv
              _ _ _ _ as.2 (by rw [hb]; exact hg) hok2 (hashOK_probe c hok2 as.2.board 0) rfl (by rw [hb]; exact hnp) hab hgt hlt
        rw [hbody, hb]
        unfold FinalScore
        cases hic : s.board.inCheck s.board.stm
        · left; simp
        · right; exact ⟨rfl, hnp, by simp⟩

end Search
end ChessVerif
