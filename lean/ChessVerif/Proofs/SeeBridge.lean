/-
  C18 geometry, part 3: the from-scratch procedure on bitboards (`SeeIncr.capsBB`, attack sets from
  the magic lookups, least valuable attacker by class tests and lowest set bit) is the specification's
  procedure (`SeeSpec.caps`: coordinate arithmetic on squares, vacant-between test on the current
  occupancy, least valuable attacker by a fold over the ascending list of attackers).

  Uses C12 (declarative reading of the lookups), `Bridge.mem_between` / `strictlyBetween_comm`
  (rule-book "squares between" = geometric bitboard) and the representation invariant `b.wf`.
-/
import ChessVerif.Proofs.SeeIncr
import ChessVerif.Proofs.BridgeGeom

namespace ChessVerif.Proofs.SeeBridge
open ChessVerif See SeeSpec ChessVerif.Proofs.SeeRays ChessVerif.Proofs.SeeIncr
set_option autoImplicit false

/-- the specification's vacancy test, on the geometric in-between set seen from the target. -/
theorem clear_iff (occ : BB) (s t : Nat) (hs : s < 64) (ht : t < 64) :
    clear occ s t = true ↔ ∀ u, (Geometry.strictlyBetween t s).getLsbD u = true → occ.getLsbD u = false := by
  unfold clear
  rw [List.all_eq_true, ← Bridge.strictlyBetween_comm s t hs ht]
  constructor
  · intro h u hu
    have := h u ((Bridge.mem_between s t u hs ht).2 hu)
    simpa [BB.has] using this
  · intro h u hu
    have := h u ((Bridge.mem_between s t u hs ht).1 hu)
    simp [BB.has, this]

theorem bishop_iff (occ : BB) (s t : Nat) (hs : s < 64) (ht : t < 64) :
    (Attacks.bishopMoves t occ).getLsbD s =
      (((Rules.file t - Rules.file s).natAbs == (Rules.rank t - Rules.rank s).natAbs) &&
        ((Rules.file t - Rules.file s).natAbs != 0) && clear occ s t) := by
  rw [Bool.eq_iff_iff, C12.bishopMoves_iff occ t s ht hs]
  simp only [Bool.and_eq_true, beq_iff_eq, bne_iff_ne, ne_eq, clear_iff occ s t hs ht]
  unfold Geometry.fileDist Geometry.rankDist Geometry.fileI Geometry.rankI Rules.file Rules.rank
  constructor
  · rintro ⟨h1, h2, h3⟩; exact ⟨⟨by omega, by omega⟩, h3⟩
  · rintro ⟨⟨h1, h2⟩, h3⟩; exact ⟨by omega, by omega, h3⟩

theorem rook_iff (occ : BB) (s t : Nat) (hs : s < 64) (ht : t < 64) :
    (Attacks.rookMoves t occ).getLsbD s =
      ((((Rules.file t - Rules.file s).natAbs == 0) != ((Rules.rank t - Rules.rank s).natAbs == 0)) &&
        clear occ s t) := by
  rw [Bool.eq_iff_iff, C12.rookMoves_iff occ t s ht hs]
  simp only [Bool.and_eq_true, clear_iff occ s t hs ht]
  have e : (((Rules.file t - Rules.file s).natAbs == 0) != ((Rules.rank t - Rules.rank s).natAbs == 0)) = true ↔
      ((fileOf t = fileOf s ∨ rankOf t = rankOf s) ∧ t ≠ s) := by
    unfold fileOf rankOf Rules.file Rules.rank
    have hx : ((t % 8 : Nat) - (s % 8 : Nat) : Int).natAbs = 0 ↔ t % 8 = s % 8 := by omega
    have hy : ((t / 8 : Nat) - (s / 8 : Nat) : Int).natAbs = 0 ↔ t / 8 = s / 8 := by omega
    generalize ((t % 8 : Nat) - (s % 8 : Nat) : Int).natAbs = x at hx
    generalize ((t / 8 : Nat) - (s / 8 : Nat) : Int).natAbs = y at hy
    by_cases h1 : x = 0 <;> by_cases h2 : y = 0
    · have := hx.1 h1; have := hy.1 h2; simp only [h1, h2, beq_self_eq_true, bne_self_eq_false, Bool.false_eq_true, false_iff]; omega
    · have := hx.1 h1
      have : (y == 0) = false := by simpa using h2
      simp only [h1, beq_self_eq_true, this, Bool.bne_false, true_iff]; omega
    · have := hy.1 h2
      have : (x == 0) = false := by simpa using h1
      simp only [h2, beq_self_eq_true, this, Bool.bne_true, Bool.not_false, true_iff]; omega
    · have a1 : (x == 0) = false := by simpa using h1
      have a2 : (y == 0) = false := by simpa using h2
      have n1 : ¬ t % 8 = s % 8 := fun h => h1 (hx.2 h)
      have n2 : ¬ t / 8 = s / 8 := fun h => h2 (hy.2 h)
      simp only [a1, a2, bne_self_eq_false, Bool.false_eq_true, false_iff]; omega
  rw [e]
  constructor
  · rintro ⟨h1, h2, h3⟩; exact ⟨⟨h1, h2⟩, h3⟩
  · rintro ⟨⟨h1, h2⟩, h3⟩; exact ⟨h1, h2, h3⟩

theorem knight_iff (s t : Nat) (hs : s < 64) (ht : t < 64) :
    (Attacks.knightMoves t).getLsbD s =
      ((((Rules.file t - Rules.file s).natAbs == 1) && ((Rules.rank t - Rules.rank s).natAbs == 2)) ||
       (((Rules.file t - Rules.file s).natAbs == 2) && ((Rules.rank t - Rules.rank s).natAbs == 1))) := by
  rw [C12.knightMoves_eq t ht]
  unfold Geometry.knightSet
  rw [AttacksProofs.getLsbD_ofPred]
  simp only [hs, decide_true, Bool.true_and]
  rfl

theorem king_iff (s t : Nat) (hs : s < 64) (ht : t < 64) :
    (Attacks.kingMoves t).getLsbD s =
      (max (Rules.file t - Rules.file s).natAbs (Rules.rank t - Rules.rank s).natAbs == 1) := by
  rw [C12.kingMoves_eq t ht]
  unfold Geometry.kingSet
  rw [AttacksProofs.getLsbD_ofPred]
  simp only [hs, decide_true, Bool.true_and]
  rfl

/-- a pawn of colour `c` on `s` attacks `t`: the shift formula read backwards from the target. -/
theorem pawn_iff (c : Color) (s t : Nat) (hs : s < 64) (ht : t < 64) :
    (Attacks.pawnCaptureMoves (bit t) c.flip).getLsbD s =
      (((Rules.file t - Rules.file s).natAbs == 1) && (Rules.rank t - Rules.rank s == Rules.up c)) := by
  rw [Bool.eq_iff_iff, PL.pawnCap_get c.flip t s ht]
  simp only [Bool.and_eq_true, beq_iff_eq]
  unfold Rules.file Rules.rank
  cases c <;> simp only [PL.capGeom, Color.flip, Rules.up] <;> omega

/-! ### the attacker list of the specification is the bit list of the recomputed set -/

theorem manAttacks_eq_attOf {b : Board} (hwf : b.wf = true) (occ : BB) (c : Color) (s to : Nat) (hs : s < 64)
    (ht : to < 64) (hc : (b.colorBB c).getLsbD s = true) :
    manAttacks occ c (b.pieceAt s) s to = attOf b to occ s := by
  unfold manAttacks attOf
  cases hp : b.pieceAt s with
  | none => rfl
  | pawn =>
    simp only
    unfold pawnAtt
    have hd := PL.wf_disjoint hwf s hs
    cases c
    · have hb : (b.colorBB .black).getLsbD s = false := by
        cases h : (b.colorBB .black).getLsbD s
        · rfl
        · exact absurd ⟨hc, h⟩ hd
      rw [hc, hb]
      have := pawn_iff .white s to hs ht
      simp only [Color.flip] at this
      rw [this]; simp
    · have hw : (b.colorBB .white).getLsbD s = false := by
        cases h : (b.colorBB .white).getLsbD s
        · rfl
        · exact absurd ⟨h, hc⟩ hd
      rw [hc, hw]
      have := pawn_iff .black s to hs ht
      simp only [Color.flip] at this
      rw [this]; simp
  | knight => simp only; rw [knight_iff s to hs ht]
  | bishop => simp only; rw [bishop_iff occ s to hs ht]
  | rook => simp only; rw [rook_iff occ s to hs ht]
  | queen =>
    simp only
    rw [bishop_iff occ s to hs ht, rook_iff occ s to hs ht]
    cases clear occ s to <;> simp
  | king => simp only; rw [king_iff s to hs ht]

theorem attackersOf_eq_bits {b : Board} (hwf : b.wf = true) (occ : BB) (c : Color) (to : Nat) (ht : to < 64) :
    attackersOf b occ c to = bits (A b to occ &&& b.colorBB c) := by
  unfold attackersOf bits
  apply List.filter_congr
  intro s hs
  have hs64 : s < 64 := List.mem_range.1 hs
  unfold A
  simp only [BB.has, BitVec.getLsbD_and, attackers0_get hwf to occ s hs64]
  cases hc : (b.colorBB c).getLsbD s
  · simp
  · rw [manAttacks_eq_attOf hwf occ c s to hs64 ht hc]
    cases occ.getLsbD s <;> cases attOf b to occ s <;> rfl

/-! ### the least valuable attacker -/

/-- the fold step of `SeeSpec.lva` with the piece code abstracted. -/
def lvaStep (code : Nat → Nat) (best : Option Nat) (s : Nat) : Option Nat :=
  match best with
  | none => some s
  | some s0 => if code s < code s0 then some s else some s0

theorem lva_eq (b : Board) (l : List Nat) : lva b l = l.foldl (lvaStep fun s => (b.pieceAt s).toNat) none := rfl

/-- the fold returns a minimal-code element, the first one among equals (on an ascending list). -/
theorem lva_fold (code : Nat → Nat) : ∀ (l : List Nat) (s0 : Nat), (s0 :: l).Pairwise (· < ·) →
    ∃ r, l.foldl (lvaStep code) (some s0) = some r ∧ r ∈ s0 :: l ∧ (∀ x ∈ s0 :: l, code r ≤ code x) ∧
      (∀ x ∈ s0 :: l, code x = code r → r ≤ x) := by
  intro l
  induction l with
  | nil =>
    intro s0 _
    exact ⟨s0, rfl, List.mem_cons_self, fun x hx => by simp at hx; subst hx; exact Nat.le_refl _,
      fun x hx _ => by simp at hx; subst hx; exact Nat.le_refl _⟩
  | cons y ys ih =>
    intro s0 hp
    have hp' := List.pairwise_cons.1 hp
    have hys := List.pairwise_cons.1 hp'.2
    simp only [List.foldl_cons, lvaStep]
    by_cases hlt : code y < code s0
    · rw [if_pos hlt]
      obtain ⟨r, h1, h2, h3, h4⟩ := ih y hp'.2
      refine ⟨r, h1, List.mem_cons_of_mem _ h2, ?_, ?_⟩
      · intro x hx
        rcases List.mem_cons.1 hx with rfl | hx
        · have := h3 y List.mem_cons_self; omega
        · exact h3 x hx
      · intro x hx he
        rcases List.mem_cons.1 hx with rfl | hx
        · have := h3 y List.mem_cons_self; omega
        · exact h4 x hx he
    · rw [if_neg hlt]
      have hp0 : (s0 :: ys).Pairwise (· < ·) :=
        List.pairwise_cons.2 ⟨fun a ha => hp'.1 a (List.mem_cons_of_mem _ ha), hys.2⟩
      obtain ⟨r, h1, h2, h3, h4⟩ := ih s0 hp0
      refine ⟨r, h1, ?_, ?_, ?_⟩
      · rcases List.mem_cons.1 h2 with rfl | h2
        · exact List.mem_cons_self
        · exact List.mem_cons_of_mem _ (List.mem_cons_of_mem _ h2)
      · intro x hx
        rcases List.mem_cons.1 hx with rfl | hx
        · exact h3 _ List.mem_cons_self
        · rcases List.mem_cons.1 hx with rfl | hx
          · have := h3 s0 List.mem_cons_self; omega
          · exact h3 x (List.mem_cons_of_mem _ hx)
      · intro x hx he
        rcases List.mem_cons.1 hx with rfl | hx
        · exact h4 _ List.mem_cons_self he
        · rcases List.mem_cons.1 hx with rfl | hx
          · -- tie with `y`: then `r` also ties with `s0`, so `r ≤ s0 < y`
            have a1 := h3 s0 List.mem_cons_self
            have a2 := h4 s0 List.mem_cons_self (by omega)
            have a3 := hp'.1 x List.mem_cons_self
            omega
          · exact h4 x (List.mem_cons_of_mem _ hx) he

theorem bits_sorted (x : BB) : (bits x).Pairwise (· < ·) := by
  unfold bits
  exact List.Pairwise.filter _ List.pairwise_lt_range

/-- `lva` on the bit list of a set. -/
theorem lva_bits (b : Board) (x : BB) :
    (x = 0 → lva b (bits x) = none) ∧
    (x ≠ 0 → ∃ r, lva b (bits x) = some r ∧ x.getLsbD r = true ∧ r < 64 ∧
      (∀ y, y < 64 → x.getLsbD y = true → (b.pieceAt r).toNat ≤ (b.pieceAt y).toNat) ∧
      (∀ y, y < 64 → x.getLsbD y = true → (b.pieceAt y).toNat = (b.pieceAt r).toNat → r ≤ y)) := by
  constructor
  · intro h; subst h; rw [Proofs.BitLoop.bits_zero]; rfl
  · intro h
    have hs := bits_sorted x
    cases hb : bits x with
    | nil => exact absurd (Proofs.BitLoop.eq_zero_of_bits_nil hb) h
    | cons y ys =>
      rw [hb] at hs
      obtain ⟨r, h1, h2, h3, h4⟩ := lva_fold (fun s => (b.pieceAt s).toNat) ys y hs
      have hmem : ∀ z, z ∈ y :: ys ↔ z < 64 ∧ x.getLsbD z = true := by
        intro z; rw [← hb]; exact mem_bits
      refine ⟨r, ?_, ((hmem r).1 h2).2, ((hmem r).1 h2).1, ?_, ?_⟩
      · rw [lva_eq]; exact h1
      · intro z hz hxz; exact h3 z ((hmem z).2 ⟨hz, hxz⟩)
      · intro z hz hxz he; exact h4 z ((hmem z).2 ⟨hz, hxz⟩) he

/-! ### one step of the two procedures -/

section step
variable {b : Board} (hwf : b.wf = true) (to : Nat) (ht : to < 64) (occ : BB) (c : Color)
include hwf

/-- a recomputed attacker is a man. -/
theorem att_piece_ne_none (y : Nat) (hy : y < 64) (h : (A b to occ).getLsbD y = true) : b.pieceAt y ≠ .none := by
  unfold A at h
  simp only [BitVec.getLsbD_and, attackers0_get hwf to occ y hy, Bool.and_eq_true] at h
  intro hn
  have := h.1
  unfold attOf at this
  rw [hn] at this
  exact absurd this (by simp)

theorem class_zero (sa : BB) (X : Piece) (hX : X ≠ .none)
    (h : ∀ y, y < 64 → sa.getLsbD y = true → b.pieceAt y ≠ X) : sa &&& b.pieceBB X = 0 := by
  rw [zero_iff_bits]
  intro i hi
  simp only [BitVec.getLsbD_and, pieceBB_get hwf i hi X hX]
  cases hs : sa.getLsbD i
  · rfl
  · simp [h i hi hs]

theorem class_tz (sa : BB) (X : Piece) (hX : X ≠ .none) (r : Nat) (hr : r < 64) (hsr : sa.getLsbD r = true)
    (hpr : b.pieceAt r = X) (hmin : ∀ y, y < 64 → sa.getLsbD y = true → b.pieceAt y = X → r ≤ y) :
    sa &&& b.pieceBB X ≠ 0 ∧ Model.BitLoop.tz (sa &&& b.pieceBB X) = r := by
  have hbit : (sa &&& b.pieceBB X).getLsbD r = true := by
    simp only [BitVec.getLsbD_and, pieceBB_get hwf r hr X hX, hsr, hpr, decide_true, Bool.and_self]
  refine ⟨fun h0 => by rw [h0] at hbit; simp at hbit, Proofs.BitLoop.tz_unique hbit ?_⟩
  intro j hj
  have hj64 : j < 64 := by omega
  simp only [BitVec.getLsbD_and, pieceBB_get hwf j hj64 X hX]
  cases hs : sa.getLsbD j
  · rfl
  · by_cases hp : b.pieceAt j = X
    · have := hmin j hj64 hs hp; omega
    · simp [hp]

/-- among the attackers, "not of colour `c`" is "of the other colour". -/
theorem other_colour : A b to occ &&& ~~~ b.colorBB c = A b to occ &&& b.colorBB c.flip := by
  apply BitVec.eq_of_getLsbD_eq
  intro y hy
  simp only [BitVec.getLsbD_and, BitVec.getLsbD_not, hy, decide_true, Bool.true_and]
  cases ha : (A b to occ).getLsbD y
  · simp
  · have hne := att_piece_ne_none hwf to occ y hy ha
    have hocc := (PL.wf_occupied hwf y hy).2 hne
    have hdis := PL.wf_disjoint hwf y hy
    cases c <;> simp only [Color.flip, Bool.true_and] <;>
      cases hw : (b.colorBB .white).getLsbD y <;> cases hb : (b.colorBB .black).getLsbD y <;> simp_all

end step

theorem bits_isEmpty (x : BB) : (bits x).isEmpty = (x == 0) := by
  by_cases h : x = 0
  · subst h; rw [Proofs.BitLoop.bits_zero]; rfl
  · have : bits x ≠ [] := fun hb => h (Proofs.BitLoop.eq_zero_of_bits_nil hb)
    cases hb : bits x with
    | nil => exact absurd hb this
    | cons y ys => simp; exact h

/-- **From scratch on bitboards = the specification.** -/
theorem caps_bridge {b : Board} (hwf : b.wf = true) (to : Nat) (ht : to < 64) :
    ∀ (n : Nat) (c : Color) (occ : BB), SeeSpec.caps b to n c occ = capsBB b to n c occ := by
  intro n
  induction n with
  | zero => intro c occ; rfl
  | succ k ih =>
    intro c occ
    unfold SeeSpec.caps capsBB pickBB
    rw [attackersOf_eq_bits hwf occ c to ht]
    obtain ⟨h0, hne⟩ := lva_bits b (A b to occ &&& b.colorBB c)
    by_cases hz : A b to occ &&& b.colorBB c = 0
    · rw [h0 hz]
      simp only [hz, beq_self_eq_true, ↓reduceIte]
    · obtain ⟨r, hl, hsr, hr, hmin, htie⟩ := hne hz
      rw [hl]
      have hz' : (A b to occ &&& b.colorBB c == 0) = false := by simpa using hz
      simp only [hz', Bool.false_eq_true, ↓reduceIte]
      have hAr : (A b to occ).getLsbD r = true := by
        simp only [BitVec.getLsbD_and, Bool.and_eq_true] at hsr; exact hsr.1
      have hnn := att_piece_ne_none hwf to occ r hr hAr
      -- classes cheaper than the selected one are empty
      have lower : ∀ X : Piece, X ≠ .none → X.toNat < (b.pieceAt r).toNat →
          A b to occ &&& b.colorBB c &&& b.pieceBB X = 0 := by
        intro X hX hlt
        apply class_zero hwf _ X hX
        intro y hy hsy hpy
        have := hmin y hy hsy
        rw [hpy] at this; omega
      have sel : ∀ X : Piece, X ≠ .none → b.pieceAt r = X →
          A b to occ &&& b.colorBB c &&& b.pieceBB X ≠ 0 ∧
          Model.BitLoop.tz (A b to occ &&& b.colorBB c &&& b.pieceBB X) = r := by
        intro X hX hp
        exact class_tz hwf _ X hX r hr hsr hp (fun y hy hsy hpy => htie y hy hsy (by rw [hpy, hp]))
      have hlift : ∀ X : Piece, X ≠ .none → b.pieceAt r = X →
          clearLowest occ (A b to occ &&& b.colorBB c &&& b.pieceBB X) = occ &&& ~~~ bit r := by
        intro X hX hp
        obtain ⟨h1, h2⟩ := sel X hX hp
        rw [clearLowest_eq_lift _ _ h1, h2]; rfl
      unfold pickP pickN pickB
      cases hp : b.pieceAt r with
      | none => exact absurd hp hnn
      | pawn =>
        have h1 := (sel .pawn (by decide) hp).1
        have h1' : (A b to occ &&& b.colorBB c &&& b.pieceBB .pawn != 0) = true := by simpa using h1
        simp only [h1', ↓reduceIte, reduceCtorEq, hlift .pawn (by decide) hp, ih]
        rfl
      | knight =>
        have l1 := lower .pawn (by decide) (by rw [hp]; decide)
        have h1 := (sel .knight (by decide) hp).1
        have h1' : (A b to occ &&& b.colorBB c &&& b.pieceBB .knight != 0) = true := by simpa using h1
        simp only [l1, bne_self_eq_false, Bool.false_eq_true, h1', ↓reduceIte, reduceCtorEq,
          hlift .knight (by decide) hp, ih]
        rfl
      | bishop =>
        have l1 := lower .pawn (by decide) (by rw [hp]; decide)
        have l2 := lower .knight (by decide) (by rw [hp]; decide)
        have h1 := (sel .bishop (by decide) hp).1
        have h1' : (A b to occ &&& b.colorBB c &&& b.pieceBB .bishop != 0) = true := by simpa using h1
        simp only [l1, l2, bne_self_eq_false, Bool.false_eq_true, h1', ↓reduceIte, reduceCtorEq,
          hlift .bishop (by decide) hp, ih]
        rfl
      | rook =>
        have l1 := lower .pawn (by decide) (by rw [hp]; decide)
        have l2 := lower .knight (by decide) (by rw [hp]; decide)
        have l3 := lower .bishop (by decide) (by rw [hp]; decide)
        have h1 := (sel .rook (by decide) hp).1
        have h1' : (A b to occ &&& b.colorBB c &&& b.pieceBB .rook != 0) = true := by simpa using h1
        simp only [l1, l2, l3, bne_self_eq_false, Bool.false_eq_true, h1', ↓reduceIte, reduceCtorEq,
          hlift .rook (by decide) hp, ih]
        rfl
      | queen =>
        have l1 := lower .pawn (by decide) (by rw [hp]; decide)
        have l2 := lower .knight (by decide) (by rw [hp]; decide)
        have l3 := lower .bishop (by decide) (by rw [hp]; decide)
        have l4 := lower .rook (by decide) (by rw [hp]; decide)
        have h1 := (sel .queen (by decide) hp).1
        have h1' : (A b to occ &&& b.colorBB c &&& b.pieceBB .queen != 0) = true := by simpa using h1
        simp only [l1, l2, l3, l4, bne_self_eq_false, Bool.false_eq_true, h1', ↓reduceIte, reduceCtorEq,
          hlift .queen (by decide) hp, ih]
        rfl
      | king =>
        have l1 := lower .pawn (by decide) (by rw [hp]; decide)
        have l2 := lower .knight (by decide) (by rw [hp]; decide)
        have l3 := lower .bishop (by decide) (by rw [hp]; decide)
        have l4 := lower .rook (by decide) (by rw [hp]; decide)
        have l5 := lower .queen (by decide) (by rw [hp]; decide)
        simp only [l1, l2, l3, l4, l5, bne_self_eq_false, Bool.false_eq_true, ↓reduceIte,
          attackersOf_eq_bits hwf occ c.flip to ht, bits_isEmpty, other_colour hwf to occ c]

end ChessVerif.Proofs.SeeBridge
