/- C13 — `Inv2` is preserved by the interrupt-goroutine, writer and Run transitions; `Inv2` is inductive. -/
import ChessVerif.Proofs.UciCountH
namespace ChessVerif.Uci

theorem busy_of_inGo {h : Handler} (hh : h.inGo = true) : h.busy = true := by
  cases h <;> simp_all [Handler.inGo, Handler.busy]

theorem Inv2.step_iRecv {sc : List Cmd} {s s' : State} (h : Inv s) (h2 : Inv2 sc s) (hf : fire .iRecv s = some s') : Inv2 sc s' := by
  obtain ⟨h1,_,h3,_,_,_,h7,_,_,_,_,_,_,_,_⟩ := h
  obtain ⟨g1,g2,g3,g4,g5,g6,g7,g8⟩ := h2
  simp only [fire] at hf
  split at hf
  · rename_i c hr
    split at hf
    · rename_i hg
      have hi : s.intr = .select := hg.1
      have hb : s.handler.busy = true := busy_of_inGo (h7 (by simp [hi])).1
      have hnogo : c.isGo = false := by
        simp only [hr, Reader.held, hb, List.countP_append, List.countP_cons, List.countP_nil] at g5
        cases hc : c.isGo
        · rfl
        · simp [hc] at g5; split at g5 <;> omega
      simp only [hr, Reader.held] at g4 g5
      cases hf
      cases c <;> simp only [intrDispatch, readerAfter] <;> (try split) <;>
        first
        | (exfalso; simp [Cmd.isGo] at hnogo; done)
        | (refine ⟨g1, g2, ?_, ?_, ?_, ?_, ?_, g8⟩
           · simp [rcvd, List.countP_append, Cmd.isReady, hi] at g3 ⊢; omega
           · simpa [rcvd, Reader.held] using g4
           · simpa [Reader.held, Cmd.isGo, List.countP_append, List.countP_cons] using g5
           · simpa [List.countP_append, List.countP_cons] using g6
           · simpa [List.countP_append, List.countP_cons, Cmd.isGo] using g7)
    · cases hf
  · cases hf

theorem Inv2.step_iFin {sc : List Cmd} {s s' : State} (h : Inv s) (h2 : Inv2 sc s) (hf : fire .iFin s = some s') : Inv2 sc s' := by
  obtain ⟨h1,_,h3,_,_,_,h7,_,_,_,_,_,_,_,_⟩ := h
  obtain ⟨g1,g2,g3,g4,g5,g6,g7,g8⟩ := h2
  uci_inv2 hf []

theorem Inv2.step_iClosed {sc : List Cmd} {s s' : State} (h : Inv s) (h2 : Inv2 sc s) (hf : fire .iClosed s = some s') : Inv2 sc s' := by
  obtain ⟨h1,_,h3,_,_,_,h7,_,_,_,_,_,_,_,_⟩ := h
  obtain ⟨g1,g2,g3,g4,g5,g6,g7,g8⟩ := h2
  uci_inv2 hf []

theorem Inv2.step_iReady {sc : List Cmd} {s s' : State} (h : Inv s) (h2 : Inv2 sc s) (hf : fire .iReady s = some s') : Inv2 sc s' := by
  obtain ⟨h1,_,h3,_,_,_,h7,_,_,_,_,_,_,_,_⟩ := h
  obtain ⟨g1,g2,g3,g4,g5,g6,g7,g8⟩ := h2
  simp only [fire, send] at hf
  split at hf
  · rename_i hi
    have hb : s.handler.busy = true := busy_of_inGo (h7 (by simp [hi])).1
    (repeat' split at hf) <;> (try cases hf) <;>
    (constructor <;> simp_all [rcvd, phaseStep, Ev.isGo, Ev.isBest, Ev.isReadyok, Msg.isBest] <;> try omega)
  · cases hf

theorem Inv2.step_iHit {sc : List Cmd} {s s' : State} (h : Inv s) (h2 : Inv2 sc s) (hf : fire .iHit s = some s') : Inv2 sc s' := by
  obtain ⟨h1,_,h3,_,_,_,h7,_,_,_,_,_,_,_,_⟩ := h
  obtain ⟨g1,g2,g3,g4,g5,g6,g7,g8⟩ := h2
  uci_inv2 hf []

theorem Inv2.step_iExit {sc : List Cmd} {s s' : State} (h : Inv s) (h2 : Inv2 sc s) (hf : fire .iExit s = some s') : Inv2 sc s' := by
  obtain ⟨h1,_,h3,_,_,_,h7,_,_,_,_,_,_,_,_⟩ := h
  obtain ⟨g1,g2,g3,g4,g5,g6,g7,g8⟩ := h2
  uci_inv2 hf []

theorem Inv2.step_wRecv {sc : List Cmd} {s s' : State} (h : Inv s) (h2 : Inv2 sc s) (hf : fire .wRecv s = some s') : Inv2 sc s' := by
  obtain ⟨h1,_,h3,_,_,_,h7,_,_,_,_,_,_,_,_⟩ := h
  obtain ⟨g1,g2,g3,g4,g5,g6,g7,g8⟩ := h2
  uci_inv2 hf [Writer.held]

theorem Inv2.step_wSink {sc : List Cmd} {s s' : State} (h2 : Inv2 sc s) (hf : fire .wSink s = some s') : Inv2 sc s' := by
  obtain ⟨g1,g2,g3,g4,g5,g6,g7,g8⟩ := h2
  simp only [fire] at hf
  split at hf
  · cases hf
    rename_i m hw
    refine ⟨?_, g2, g3, g4, ?_, g6, g7, g8⟩
    · simpa [hw, Writer.held] using g1
    · clear g1 g2 g3 g4 g6 g7 g8
      simp only [hw, Writer.held, List.countP_append, List.countP_cons, List.countP_nil] at g5 ⊢
      generalize List.countP Cmd.isGo s.reader.held = a at g5 ⊢
      generalize List.countP Cmd.isGo s.pipe = b at g5 ⊢
      generalize (if s.handler.busy = true then 1 else 0 : Nat) = k at g5 ⊢
      generalize List.countP Msg.isBest s.out = e at g5 ⊢
      cases m <;> cases ha : s.awaiting <;> simp [Msg.isBest, ha] at g5 ⊢ <;> omega
  · cases hf

theorem Inv2.step_wDone {sc : List Cmd} {s s' : State} (h : Inv s) (h2 : Inv2 sc s) (hf : fire .wDone s = some s') : Inv2 sc s' := by
  obtain ⟨h1,_,h3,_,_,_,h7,_,_,_,_,_,_,_,_⟩ := h
  obtain ⟨g1,g2,g3,g4,g5,g6,g7,g8⟩ := h2
  uci_inv2 hf [Writer.held]

theorem Inv2.step_mReturn {sc : List Cmd} {s s' : State} (h2 : Inv2 sc s) (hf : fire .mReturn s = some s') : Inv2 sc s' := by
  obtain ⟨g1,g2,g3,g4,g5,g6,g7,g8⟩ := h2
  simp only [fire] at hf
  split at hf
  · cases hf
    exact ⟨g1,g2,g3,g4,g5,g6,g7,g8⟩
  · cases hf

theorem Inv2.step {sc : List Cmd} {s s' : State} {t : Tr} (h : Inv s) (h2 : Inv2 sc s)
    (hf : fire t s = some s') : Inv2 sc s' := by
  cases t
  · exact Inv2.step_envLine h2 hf
  · exact Inv2.step_envEof h h2 hf
  · exact Inv2.step_timer h h2 hf
  · exact Inv2.step_sInfo h h2 hf
  · exact Inv2.step_sDone h h2 hf
  · exact Inv2.step_sAbortSelf h h2 hf
  · exact Inv2.step_sPollHit h h2 hf
  · exact Inv2.step_rScan h h2 hf
  · exact Inv2.step_rEof h h2 hf
  · exact Inv2.step_rSendClosed h h2 hf
  · exact Inv2.step_rClose h h2 hf
  · exact Inv2.step_hRecv h h2 hf
  · exact Inv2.step_hClosed h h2 hf
  · exact Inv2.step_hEmit h h2 hf
  · exact Inv2.step_hEmitDone h h2 hf
  · exact Inv2.step_hReady h h2 hf
  · exact Inv2.step_hStop h h2 hf
  · exact Inv2.step_hAbortInfo h h2 hf
  · exact Inv2.step_hCloseFin h h2 hf
  · exact Inv2.step_hWait h h2 hf
  · exact Inv2.step_hBest h h2 hf
  · exact Inv2.step_hDefer h h2 hf
  · exact Inv2.step_hCloseOut h h2 hf
  · exact Inv2.step_iRecv h h2 hf
  · exact Inv2.step_iFin h h2 hf
  · exact Inv2.step_iClosed h h2 hf
  · exact Inv2.step_iReady h h2 hf
  · exact Inv2.step_iHit h h2 hf
  · exact Inv2.step_iExit h h2 hf
  · exact Inv2.step_wRecv h h2 hf
  · exact Inv2.step_wSink h2 hf
  · exact Inv2.step_wDone h h2 hf
  · exact Inv2.step_mReturn h2 hf

theorem Inv2.reachable {script : List Cmd} {s : State} (h : Reachable script s) : Inv2 script s := by
  induction h with
  | init => exact Inv2.init script
  | step t hr hf ih => exact ih.step (Inv.reachable hr) hf

def Msg.isReadyok : Msg → Bool
  | .readyok => true
  | _ => false

theorem countP_msgsOf_readyok (l : List Ev) : (msgsOf l).countP Msg.isReadyok = l.countP Ev.isReadyok := by
  induction l with
  | nil => rfl
  | cons e es ih =>
    cases e with
    | go => simpa [msgsOf, Ev.isReadyok] using ih
    | msg m => cases m <;> simp [msgsOf, Ev.isReadyok, Msg.isReadyok, List.countP_cons, ih]

theorem countP_msgsOf_best (l : List Ev) : (msgsOf l).countP Msg.isBest = l.countP Ev.isBest := by
  induction l with
  | nil => rfl
  | cons e es ih =>
    cases e with
    | go => simpa [msgsOf, Ev.isBest] using ih
    | msg m => cases m <;> simp [msgsOf, Ev.isBest, Msg.isBest, List.countP_cons, ih]

/-- Receivers of `go` lines: handler-received ones are the search starts, none goes to the
    interrupt goroutine. -/
theorem countP_go_rcvd (s : State) :
    (rcvd s).countP Cmd.isGo = s.consumed.countP (fun p => p.1 == .handler && p.2.isGo)
      + s.consumed.countP (fun p => p.1 == .intr && p.2.isGo) := by
  unfold rcvd
  induction s.consumed with
  | nil => rfl
  | cons p ps ih =>
    obtain ⟨r, c⟩ := p
    cases r <;> cases hc : c.isGo <;> simp [hc, ih] <;> omega

/-- Every transition leaves the sink's content unchanged, except `wSink`, which appends exactly
    the one whole message the writer holds. -/
theorem written_step {s s' : State} {t : Tr} (hf : fire t s = some s') :
    s'.written = s.written ∨ (t = .wSink ∧ ∃ m, s.writer = .write m ∧ s'.written = s.written ++ [m]) := by
  cases t <;> simp only [fire, send, runDone] at hf <;> (repeat' split at hf) <;> (try cases hf) <;>
    first
    | (left; rfl)
    | (right; exact ⟨rfl, _, by assumption, rfl⟩)
    | (left; simp only [dispatch, intrDispatch]; (repeat' split) <;> rfl)

end ChessVerif.Uci
