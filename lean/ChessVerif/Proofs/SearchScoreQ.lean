/-
  Score range, quiescence part: an un-aborted `quiescence` returns a value in `[-Inf, Inf]` and keeps
  the table predicate `TTok` — on every path, aborted or not (since repo commit 161d312 the abort
  check precedes the fail-high store).
-/
import ChessVerif.Proofs.SearchScoreLaws

namespace ChessVerif
namespace Search

variable {σ π : Type} [PsInv σ] {t0 : Bool}

/-- what a quiescence-like function guarantees about scores (on `Good` boards, plies that cannot
    wrap the int8 counter, workable windows, sound tables) — guarded by the ghost flag: the window
    and table hypotheses are needed only while `nmpOut = false`, the conclusions hold when the state
    returned has `nmpOut = false`. -/
def QRange (Good : Board → Prop) (TTok : σ → Prop) (t0 : Bool) (μ : Board → Nat)
    (child : Score → Score → Int → St σ → Score × St σ) : Prop :=
  ∀ a b p s, Good s.board → 0 ≤ p → p + (μ s.board : Int) ≤ 111 → (s.nmpOut = false → WinOK a b) → TTA TTok t0 s →
    TTA TTok t0 (child a b p s).2 ∧
      ((child a b p s).2.aborted = false → (child a b p s).2.nmpOut = false → RelP p (child a b p s).1)

/-- the running values of the quiescence loop stay workable. -/
def QInv (ply : Int) (l : QLoop) : Prop := -32767 ≤ l.alpha ∧ l.alpha ≤ 10000 ∧ RelP ply l.maxim

theorem qAfter_range (c : Comp σ π) (L : Limits) {Good : Board → Prop} {TTok : σ → Prop} {μ : Board → Nat}
    (hlw : Laws c Good) (sl : ScoreLaws c Good TTok μ) (beta : Score) (ply : Int) (m : Move) (r : Board.Reverse)
    (l : QLoop) (v : Score) (s : St σ) (hp0 : 0 ≤ ply) (hp1 : ply ≤ 126) (htt : TTA TTok t0 s)
    (hgb : Good (s.board.undoMove m r)) (hmb : m ∈ MoveGen.gen (s.board.undoMove m r))
    (hv : s.aborted = false → s.nmpOut = false → RelP (ply + 1) v) (hl : s.nmpOut = false → QInv ply l) :
    let o := qAfter c L beta ply m r l v s
    TTA TTok t0 o.2 ∧ (∀ x, o.1 = .ret x → o.2.aborted = false → o.2.nmpOut = false → RelP ply x) ∧
      (∀ l', o.1 = .cont l' → o.2.nmpOut = false → QInv ply l') := by
  simp only [qAfter]
  have hps := abort_ps L (s.setBoard (s.board.undoMove m r))
  have han : (abort L (s.setBoard (s.board.undoMove m r))).2.nmpOut = s.nmpOut := abort_nmpOut L _
  have hatt : (abort L (s.setBoard (s.board.undoMove m r))).2.ttOut = s.ttOut := abort_ttOut L _
  have hfa := @abort_false σ _ L (s.setBoard (s.board.undoMove m r))
  have hat := abort_true_iff L (s.setBoard (s.board.undoMove m r))
  have hbd : (abort L (s.setBoard (s.board.undoMove m r))).2.board = s.board.undoMove m r :=
    (abort_frame L (s.setBoard (s.board.undoMove m r))).board
  generalize abort L (s.setBoard (s.board.undoMove m r)) = as at hps han hatt hfa hat hbd ⊢
  have htt' : TTA TTok t0 as.2 := htt.congr hps han hatt
  split
  · next hab =>
    refine ⟨htt', fun x _ hna => ?_, (fun l' h => by cases h)⟩
    rw [← hat, hab] at hna; cases hna
  · next hab =>
    have hab' : as.1 = false := by simpa using hab
    have hsab : s.aborted = false := by simpa using (hfa hab').2
    have hvp : s.nmpOut = false → RelP ply (neg v) := fun hA => neg_relP hp0 (hv hsab hA)
    split
    · refine ⟨⟨hlw.ok_store _ _ _ _ _ _ _ htt'.1 (by rw [hbd]; exact hgb) (Or.inr (by rw [hbd]; exact hmb)), fun hA => ?_⟩,
        fun x hx _ hA => ?_, (fun l' h => by cases h)⟩
      · have hA' : as.2.nmpOut = false := hA
        have hrel := hvp (by rw [← han]; exact hA')
        exact ⟨sl.tt_store _ _ _ _ _ _ _ (htt'.2 hA').1 hp0 (by omega) hrel
          (hlw.ok_store _ _ _ _ _ _ _ htt'.1 (by rw [hbd]; exact hgb) (Or.inr (by rw [hbd]; exact hmb))),
          fun ht => flagTT_keep ((htt'.2 hA').2 ht) (not_bad_of_relP hrel)⟩
      · cases hx
        have hA' : as.2.nmpOut = false := hA
        exact hvp (by rw [← han]; exact hA')
    · refine ⟨htt', (fun x h => by cases h), fun l' h hA => ?_⟩
      cases h
      have hAs : s.nmpOut = false := by rw [← han]; exact hA
      obtain ⟨h1, h2, h3⟩ := hl hAs
      have hvp' := hvp hAs
      have hvr : InR (neg v) := hvp'.inR hp0
      exact ⟨le_max_of h1, max_le_of h2 hvr.2, relP_max h3 hvp'⟩

theorem qLoop_range (c : Comp σ π) (L : Limits) {Good : Board → Prop} {TTok : σ → Prop} {μ : Board → Nat}
    (hl : Laws c Good) (sl : ScoreLaws c Good TTok μ)
    (child : Score → Score → Int → St σ → Score × St σ) (hc : QSpec L Good child) (hr : QRange Good TTok t0 μ child)
    (beta sp : Score) (ply : Int) (hp0 : 0 ≤ ply) :
    ∀ (moves : List (Move × Score)) (l : QLoop) (s : St σ), Good s.board → s.board.fifty < 100 →
      (∀ mw ∈ moves, mw.1 ∈ MoveGen.gen s.board ∧ μ (s.board.makeMove c.keys mw.1).1 < μ s.board) →
      ply + (μ s.board : Int) ≤ 111 → TTA TTok t0 s →
      (s.nmpOut = false → -10000 ≤ beta ∧ beta ≤ 32767 ∧ QInv ply l) →
      let o := qLoop c L child beta sp ply moves l s
      TTA TTok t0 o.2 ∧ (∀ x, o.1 = .ret x → o.2.aborted = false → o.2.nmpOut = false → RelP ply x) ∧
        (∀ l', o.1 = .done l' → o.2.nmpOut = false → QInv ply l') := by
  intro moves
  induction moves with
  | nil =>
    intro l s _ _ _ _ htt hq
    exact ⟨htt, (fun x h => by cases h), fun l' h hA => by cases h; exact (hq hA).2.2⟩
  | cons mw rest ih =>
    intro l s hg hfl hm hpl htt hq
    obtain ⟨m, w⟩ := mw
    have hmem : m ∈ MoveGen.gen s.board := (hm (m, w) List.mem_cons_self).1
    have hmu : μ (s.board.makeMove c.keys m).1 < μ s.board := (hm (m, w) List.mem_cons_self).2
    have hrest : ∀ mw ∈ rest, mw.1 ∈ MoveGen.gen s.board ∧ μ (s.board.makeMove c.keys mw.1).1 < μ s.board :=
      fun mw h => hm mw (List.mem_cons_of_mem _ h)
    have hu := hl.undo_make s.board m hg hmem
    have hdone : TTA TTok t0 s ∧ (∀ x, (Flow.done l : Flow QLoop) = .ret x → s.aborted = false → s.nmpOut = false → RelP ply x) ∧
        (∀ l', (Flow.done l : Flow QLoop) = .done l' → s.nmpOut = false → QInv ply l') :=
      ⟨htt, (fun x h => by cases h), fun l' h hA => by cases h; exact (hq hA).2.2⟩
    simp only [qLoop]
    split
    · exact hdone
    · split
      · rw [hu, setBoard_self]; exact ih l s hg hfl hrest hpl htt hq
      · next hchk =>
        split
        · rw [hu, setBoard_self]; exact hdone
        · have hchk' : (s.board.makeMove c.keys m).1.inCheck s.board.stm = false := by simpa using hchk
          have hg' := hl.good_make s.board m hg hfl hmem hchk'
          have hw : wrapS8 (ply + 1) = ply + 1 := by unfold wrapS8; omega
          have hwin : s.nmpOut = false → WinOK (neg beta) (neg l.alpha) := fun hA => by
            obtain ⟨hb1, hb2, hqi⟩ := hq hA
            exact winOK_full hqi.1 hqi.2.1 hb1 hb2
          have hcs := hc (neg beta) (neg l.alpha) (wrapS8 (ply + 1)) (s.setBoard (s.board.makeMove c.keys m).1) hg' htt.1
          have hrs := hr (neg beta) (neg l.alpha) (wrapS8 (ply + 1)) (s.setBoard (s.board.makeMove c.keys m).1) hg'
            (by rw [hw]; omega) (by rw [hw]; simp only [setBoard_board]; omega) hwin htt
          generalize child (neg beta) (neg l.alpha) (wrapS8 (ply + 1)) (s.setBoard (s.board.makeMove c.keys m).1) = r at hcs hrs ⊢
          have hub : r.2.board.undoMove m (s.board.makeMove c.keys m).2 = s.board := by
            rw [hcs.1.board]; simpa using hu
          have hback : r.2.nmpOut = false → s.nmpOut = false := fun h => hcs.1.mono.a_back h
          have ha := qAfter_spec c L hl beta ply m (s.board.makeMove c.keys m).2 l r.1 r.2
            (by rw [hub]; exact hg) (by rw [hub]; exact hmem)
          have har := qAfter_range c L hl sl beta ply m (s.board.makeMove c.keys m).2 l r.1 r.2 hp0 (by omega) hrs.1
            (by rw [hub]; exact hg) (by rw [hub]; exact hmem) (by rw [← hw]; exact hrs.2) (fun hA => (hq (hback hA)).2.2)
          simp only at ha har
          generalize qAfter c L beta ply m (s.board.makeMove c.keys m).2 l r.1 r.2 = o at ha har ⊢
          obtain ⟨hm1, hb1', _, _, _, hnb⟩ := ha
          obtain ⟨htt', hret, hcont⟩ := har
          have hboard : o.2.board = s.board := by
            rw [hb1', hcs.1.board]; simpa using hu
          have hback2 : o.2.nmpOut = false → s.nmpOut = false := fun h => hback (hm1.a_back h)
          obtain ⟨st, s'⟩ := o
          cases st with
          | ret x =>
            refine ⟨htt', fun y hy hna hA => ?_, (fun l' h => by cases h)⟩
            have : x = y := by simpa using hy
            subst this; exact hret x rfl hna hA
          | brk l' => exact absurd rfl (hnb l')
          | cont l' =>
            simp only at hboard htt' hback2 hcont ⊢
            exact ih l' s' (by rw [hboard]; exact hg) (by rw [hboard]; exact hfl) (by rw [hboard]; exact hrest)
              (by rw [hboard]; exact hpl) htt'
              (fun hA => ⟨(hq (hback2 hA)).1, (hq (hback2 hA)).2.1, hcont l' rfl hA⟩)

theorem ttCut_relP {ply : Int} {e : TTHit} {a b v : Score} (he : RelP ply e.value) (h : ttCut e a b = some v) :
    RelP ply v := by
  unfold ttCut at h
  split at h
  · cases h; exact he
  · split at h
    · cases h; exact he
    · cases h
  · split at h
    · cases h; exact he
    · cases h

theorem qBody_range (c : Comp σ π) (L : Limits) {Good : Board → Prop} {TTok : σ → Prop} {μ : Board → Nat}
    (hl : Laws c Good) (sl : ScoreLaws c Good TTok μ)
    (child : Score → Score → Int → St σ → Score × St σ) (hc : QSpec L Good child) (hr : QRange Good TTok t0 μ child)
    (alpha beta : Score) (ply : Int) (hp0 : 0 ≤ ply) (s : St σ) (hw : s.nmpOut = false → WinOK alpha beta)
    (hg : Good s.board)
    (hfl : s.board.fifty < 100) (hpl : ply + (μ s.board : Int) ≤ 111) (htt : TTA TTok t0 s) :
    let o := qBody c L child alpha beta ply s
    TTA TTok t0 o.2 ∧ (o.2.aborted = false → o.2.nmpOut = false → RelP ply o.1) := by
  simp only [qBody]
  split
  · next v hcut =>
    refine ⟨htt, fun _ hA => ?_⟩
    split at hcut
    · next e he => exact ttCut_relP (sl.tt_probe _ _ _ _ (htt.2 hA).1 hp0 (by omega) he) hcut
    · cases hcut
  · split
    · exact ⟨htt, fun _ _ => relP_mate hp0 (by omega)⟩
    · split
      · exact ⟨htt, fun _ _ => relP_zero ply⟩
      · have hse := inR_eval c s.board
        have hsp := relP_eval c s.board ply
        split
        · exact ⟨htt, fun _ _ => hsp⟩
        · have hq0 : s.nmpOut = false → -10000 ≤ beta ∧ beta ≤ 32767 ∧
              QInv ply { alpha := max alpha (evaluate c s.board), maxim := evaluate c s.board } := fun hA => by
            obtain ⟨hw1, hw2, hw3, hw4⟩ := hw hA
            exact ⟨hw3, hw4, le_max_of hw1, max_le_of hw2 hse.2, hsp⟩
          have h := qLoop_range c L hl sl child hc hr beta (evaluate c s.board) ply hp0
            (c.qMoves s.ps s.board s.hstack)
            { alpha := max alpha (evaluate c s.board), maxim := evaluate c s.board } s.pushFrame hg hfl
            (fun mw hmw => ⟨hl.q_mem s.ps s.board s.hstack mw.1 mw.2 hg hmw,
              sl.q_measure s.ps s.board s.hstack mw.1 mw.2 hg hmw⟩) hpl htt hq0
          have hfs := (qLoop_spec c L hl child hc beta (evaluate c s.board) ply (c.qMoves s.ps s.board s.hstack)
            { alpha := max alpha (evaluate c s.board), maxim := evaluate c s.board } s.pushFrame hg ⟨htt.1, hfl⟩
            (fun mw hmw => hl.q_mem s.ps s.board s.hstack mw.1 mw.2 hg hmw)).1.board
          simp only at h
          generalize qLoop c L child beta (evaluate c s.board) ply (c.qMoves s.ps s.board s.hstack)
            { alpha := max alpha (evaluate c s.board), maxim := evaluate c s.board } s.pushFrame = r at h hfs ⊢
          obtain ⟨htt', hret, hdone⟩ := h
          obtain ⟨fl, s'⟩ := r
          cases fl with
          | ret x => exact ⟨htt', fun hna hA => hret x rfl hna hA⟩
          | done l' =>
            have hqs : Good s'.popFrame.board := by
              have : s'.board = s.board := hfs
              show Good s'.board
              rw [this]; exact hg
            have hok' := hl.ok_store s'.popFrame.ps s'.popFrame.board 0 ply 0 l'.maxim .upper htt'.1 hqs (Or.inl rfl)
            refine ⟨⟨hok', fun hA => ?_⟩, fun _ hA => (hdone l' rfl hA).2.2⟩
            have hA' : s'.nmpOut = false := hA
            exact ⟨sl.tt_store _ _ _ _ _ _ _ (htt'.2 hA').1 hp0 (by omega) (hdone l' rfl hA').2.2 hok',
              fun ht => flagTT_keep ((htt'.2 hA').2 ht) (not_bad_of_relP (hdone l' rfl hA').2.2)⟩

theorem quiescence_range (c : Comp σ π) (L : Limits) {Good : Board → Prop} {TTok : σ → Prop} {μ : Board → Nat}
    (hl : Laws c Good) (sl : ScoreLaws c Good TTok μ) (fuel : Nat) :
    QRange Good TTok t0 μ (quiescence c L fuel) := by
  induction fuel with
  | zero => intro a b p s _ _ _ _ htt; exact ⟨htt, fun h => by cases h⟩
  | succ fuel ih =>
    intro a b p s hg hp0 hpl hw htt
    simp only [quiescence]
    have h1 := incrementNodes_frame L s
    have h2 := abort_frame L (incrementNodes L s)
    have hps : (abort L (incrementNodes L s)).2.ps = s.ps := (abort_ps L _).trans (incrementNodes_ps L s)
    have han : (abort L (incrementNodes L s)).2.nmpOut = s.nmpOut :=
      (abort_nmpOut L _).trans (incrementNodes_nmpOut L s)
    have hatt : (abort L (incrementNodes L s)).2.ttOut = s.ttOut :=
      (abort_ttOut L _).trans (incrementNodes_ttOut L s)
    have h12 := h1.trans h2
    have hat := abort_true_iff L (incrementNodes L s)
    generalize abort L (incrementNodes L s) = as at h12 hps han hatt hat ⊢
    have htt' : TTA TTok t0 as.2 := htt.congr hps han hatt
    split
    · next hab => exact ⟨htt', fun hna => by rw [← hat, hab] at hna; cases hna⟩
    · split
      · exact ⟨htt', fun _ _ => relP_zero p⟩
      · next hnd =>
        exact qBody_range c L hl sl (quiescence c L fuel) (quiescence_spec c L hl fuel) ih a b p hp0 as.2
          (fun hA => hw (by rw [← han]; exact hA))
          (by rw [h12.board]; exact hg) (fifty_lt_of_not_draw hnd) (by rw [h12.board]; exact hpl) htt'

end Search
end ChessVerif
