/-
  C11, obligation 4, PARTIAL: what each scalar field parser does on a well-formed field, stated on
  the suffix `rest fen ix` of the input that starts at the parser's index.  These are the local
  ingredients of the round trip `parse ∘ print`; the glue (bytes of `printFEN`, the placement field)
  is not proved — see `Fen.C11_roundtrip_full`.
-/
import ChessVerif.Proofs.FenTotal

namespace ChessVerif
namespace Fen

/-- the part of the input that starts at index `ix`. -/
def rest (fen : Bytes) (ix : Nat) : List UInt8 := fen.toList.drop ix

theorem rest_cons {fen : Bytes} {ix : Nat} {c : UInt8} {t : List UInt8} (h : rest fen ix = c :: t) :
    ∃ hlt : ix < fen.size, fen[ix] = c ∧ rest fen (ix + 1) = t := by
  unfold rest at h
  have hlt : ix < fen.size := by
    by_cases hl : ix < fen.size
    · exact hl
    · have : fen.toList.drop ix = [] := List.drop_eq_nil_of_le (by simp; omega)
      rw [this] at h; cases h
  refine ⟨hlt, ?_, ?_⟩
  · have := congrArg List.head? h
    simp [List.head?_drop, hlt] at this
    exact this
  · unfold rest
    rw [← List.drop_drop, h]
    rfl

theorem rest_nil {fen : Bytes} {ix : Nat} (h : rest fen ix = []) : fen.size ≤ ix := by
  unfold rest at h
  have := List.drop_eq_nil_iff.1 h
  simpa using this

theorem at_rest {fen : Bytes} {ix : Nat} {c : UInt8} {t : List UInt8} (h : rest fen ix = c :: t) :
    at_ fen ix = .ok c := by
  obtain ⟨hlt, hc, _⟩ := rest_cons h
  rw [at_ok fen ix hlt, hc]

/-! ### side to move -/

theorem stm_white {fen : Bytes} {s : St} {t : List UInt8} (h : rest fen s.ix = 119 :: t) :
    stm fen s = .ok ⟨s.ix + 1, { s.b with stm := .white }⟩ := by
  unfold stm; rw [at_rest h]; rfl

theorem stm_black {fen : Bytes} {s : St} {t : List UInt8} (h : rest fen s.ix = 98 :: t) :
    stm fen s = .ok ⟨s.ix + 1, { s.b with stm := .black }⟩ := by
  unfold stm; rw [at_rest h]; rfl

/-! ### separator: exactly one space followed by a non-space byte -/

theorem sep_one {fen : Bytes} {s : St} {c : UInt8} {t : List UInt8}
    (h : rest fen s.ix = 32 :: c :: t) (hc : c ≠ 32) : sep fen s = .ok ⟨s.ix + 1, s.b⟩ := by
  obtain ⟨hlt, h0, h1⟩ := rest_cons h
  obtain ⟨hlt1, h10, _⟩ := rest_cons h1
  unfold sep
  have hf : fen.size - s.ix + 1 = (fen.size - s.ix - 1) + 1 + 1 := by omega
  rw [hf]
  simp only [skipSpaces, hlt, hlt1, if_true, at_ok, h0, h10, bind_ok, hc, if_false]
  have : ¬ (s.ix + 1 ≥ fen.size) := by omega
  simp [this]

/-! ### counters: a run of digits ended by a space or by the end of the input -/

/-- the value `counter()` computes from a digit run, with Go's wrapping `int` arithmetic. -/
def digitsVal (cnt : Int) (ds : List UInt8) : Int :=
  ds.foldl (fun acc d => wrapS64 (wrapS64 (acc * 10) + (d.toNat - 48 : Nat))) cnt

theorem counterLoop_digits (fen : Bytes) : ∀ (ds : List UInt8) (t : List UInt8) (fuel ix : Nat) (cnt : Int),
    (∀ d ∈ ds, 48 ≤ d ∧ d ≤ 57) → (t = [] ∨ ∃ t', t = 32 :: t') → rest fen ix = ds ++ t → ds.length < fuel →
    counterLoop fen fuel ix cnt = .ok (ix + ds.length, digitsVal cnt ds)
  | [], t, fuel, ix, cnt, _, ht, hr, hf => by
    obtain ⟨f, rfl⟩ : ∃ f, fuel = f + 1 := ⟨fuel - 1, by simp at hf; omega⟩
    unfold counterLoop
    rcases ht with rfl | ⟨t', rfl⟩
    · have := rest_nil (by simpa using hr)
      have hn : ¬ ix < fen.size := by omega
      simp [hn, digitsVal]
    · obtain ⟨hlt, h0, _⟩ := rest_cons (by simpa using hr)
      simp [hlt, at_ok, h0, digitsVal]
  | d :: ds, t, fuel, ix, cnt, hd, ht, hr, hf => by
    obtain ⟨f, rfl⟩ : ∃ f, fuel = f + 1 := ⟨fuel - 1, by simp at hf; omega⟩
    obtain ⟨hlt, h0, h1⟩ := rest_cons (by simpa using hr)
    have hdd := hd d (by simp)
    have h32 : d ≠ 32 := by
      intro e; rw [e] at hdd; exact absurd hdd.1 (by decide)
    have hrange : ¬ (d < 48 ∨ d > 57) := by
      rintro (h | h)
      · exact absurd hdd.1 (UInt8.not_le.2 h)
      · exact absurd hdd.2 (UInt8.not_le.2 h)
    unfold counterLoop
    simp only [hlt, if_true, at_ok, h0, bind_ok, h32, if_false, hrange]
    rw [counterLoop_digits fen ds t f (ix + 1) _ (fun x hx => hd x (by simp [hx])) ht h1 (by simp at hf; omega)]
    simp [digitsVal, Nat.add_assoc, Nat.add_comm 1]

theorem counter_digits (fen : Bytes) (ds t : List UInt8) (ix : Nat)
    (hd : ∀ d ∈ ds, 48 ≤ d ∧ d ≤ 57) (ht : t = [] ∨ ∃ t', t = 32 :: t') (hr : rest fen ix = ds ++ t) :
    counter fen ix = .ok (ix + ds.length, digitsVal 0 ds) := by
  unfold counter
  apply counterLoop_digits fen ds t _ ix 0 hd ht hr
  have : (rest fen ix).length = fen.size - ix := by simp [rest]
  rw [hr] at this
  simp at this
  omega

/-! ### en-passant field -/

theorem enPassant_dash {fen : Bytes} {s : St} {t : List UInt8} (h : rest fen s.ix = 45 :: t) :
    enPassant fen s = .ok ⟨s.ix + 1, s.b⟩ := by
  unfold enPassant; rw [at_rest h]; rfl

theorem enPassant_square {fen : Bytes} {s : St} {f r : UInt8} {t : List UInt8}
    (h : rest fen s.ix = f :: r :: t) (hf : 97 ≤ f ∧ f ≤ 104) (hr : 49 ≤ r ∧ r ≤ 56) :
    enPassant fen s = .ok ⟨s.ix + 2, { s.b with ep := (r.toNat - 49) * 8 + (f.toNat - 97) }⟩ := by
  obtain ⟨hlt, h0, h1⟩ := rest_cons h
  obtain ⟨hlt1, h10, _⟩ := rest_cons h1
  have hf45 : f ≠ 45 := by
    intro e; rw [e] at hf; exact absurd hf.1 (by decide)
  have hrange : ¬ (f < 97 ∨ f > 104 ∨ r < 49 ∨ r > 56) := by
    rintro (h | h | h | h)
    · exact absurd hf.1 (UInt8.not_le.2 h)
    · exact absurd hf.2 (UInt8.not_le.2 h)
    · exact absurd hr.1 (UInt8.not_le.2 h)
    · exact absurd hr.2 (UInt8.not_le.2 h)
  have hge : ¬ (s.ix + 1 ≥ fen.size) := by omega
  unfold enPassant
  simp only [at_ok, hlt, hlt1, h0, h10, bind_ok, ne_eq, hf45, not_false_eq_true, if_true, hge, if_false, hrange]

/-! ### the two counter fields -/

theorem fifty_digits (fen : Bytes) (s : St) (ds t : List UInt8)
    (hd : ∀ d ∈ ds, 48 ≤ d ∧ d ≤ 57) (ht : t = [] ∨ ∃ t', t = 32 :: t') (hr : rest fen s.ix = ds ++ t)
    (h0 : 0 ≤ digitsVal 0 ds) (h100 : digitsVal 0 ds ≤ 100) :
    fifty fen s = .ok ⟨s.ix + ds.length, { s.b with fifty := digitsVal 0 ds }⟩ := by
  unfold fifty
  rw [counter_digits fen ds t s.ix hd ht hr]
  have hw : wrapS8 (digitsVal 0 ds) = digitsVal 0 ds := by unfold wrapS8; omega
  have hn : ¬ (digitsVal 0 ds < 0 ∨ digitsVal 0 ds > 100) := by omega
  simp only [bind_ok, hn, if_false, hw]

theorem fullMoves_digits (fen : Bytes) (s : St) (ds t : List UInt8)
    (hd : ∀ d ∈ ds, 48 ≤ d ∧ d ≤ 57) (ht : t = [] ∨ ∃ t', t = 32 :: t') (hr : rest fen s.ix = ds ++ t)
    (h1 : 1 ≤ digitsVal 0 ds) :
    fullMoves fen s = .ok ⟨s.ix + ds.length, { s.b with fullMoves := digitsVal 0 ds }⟩ := by
  unfold fullMoves
  rw [counter_digits fen ds t s.ix hd ht hr]
  have hn : ¬ (digitsVal 0 ds < 1) := by omega
  simp only [bind_ok, hn, if_false]

/-! ### castling field: a run of the letters K Q k q - ended by a space -/

/-- the rights a letter adds. -/
def letterRight (c : UInt8) : Castles :=
  if c = 75 then shortWhite else if c = 81 then longWhite else if c = 107 then shortBlack
  else if c = 113 then longBlack else 0

def isCastleLetter (c : UInt8) : Prop := c = 75 ∨ c = 81 ∨ c = 107 ∨ c = 113 ∨ c = 45

theorem cRightsLoop_letters (fen : Bytes) : ∀ (ls : List UInt8) (t : List UInt8) (fuel ix : Nat) (b : Board),
    (∀ c ∈ ls, isCastleLetter c) → rest fen ix = ls ++ 32 :: t → ls.length < fuel →
    cRightsLoop fen fuel ix b =
      .ok ⟨ix + ls.length, { b with castles := ls.foldl (fun acc c => acc ||| letterRight c) b.castles }⟩
  | [], t, fuel, ix, b, _, hr, hf => by
    obtain ⟨f, rfl⟩ : ∃ f, fuel = f + 1 := ⟨fuel - 1, by simp at hf; omega⟩
    obtain ⟨hlt, h0, _⟩ := rest_cons (by simpa using hr)
    unfold cRightsLoop
    simp [hlt, at_ok, h0]
  | c :: ls, t, fuel, ix, b, hl, hr, hf => by
    obtain ⟨f, rfl⟩ : ∃ f, fuel = f + 1 := ⟨fuel - 1, by simp at hf; omega⟩
    obtain ⟨hlt, h0, h1⟩ := rest_cons (by simpa using hr)
    have ih := fun b' => cRightsLoop_letters fen ls t f (ix + 1) b' (fun x hx => hl x (by simp [hx])) h1
      (by simp at hf; omega)
    have hidx : ix + 1 + ls.length = ix + (ls.length + 1) := by omega
    unfold cRightsLoop
    simp only [hlt, if_true, at_ok, h0, bind_ok]
    rcases hl c (by simp) with rfl | rfl | rfl | rfl | rfl
    all_goals simp [ih, letterRight, hidx]

/-! ### the five scalar fields through `seq` -/

theorem rest_append {fen : Bytes} {ix : Nat} {l t : List UInt8} (h : rest fen ix = l ++ t) :
    rest fen (ix + l.length) = t := by
  unfold rest at h ⊢
  rw [← List.drop_drop, h]
  simp

theorem rest_length (fen : Bytes) (ix : Nat) : (rest fen ix).length = fen.size - ix := by simp [rest]

theorem cRights_letters (fen : Bytes) (s : St) (ls t : List UInt8)
    (hl : ∀ c ∈ ls, isCastleLetter c) (hr : rest fen s.ix = ls ++ 32 :: t) :
    cRights fen s = .ok ⟨s.ix + ls.length,
      { s.b with castles := ls.foldl (fun acc c => acc ||| letterRight c) s.b.castles }⟩ := by
  unfold cRights
  apply cRightsLoop_letters fen ls t _ s.ix s.b hl hr
  have := rest_length fen s.ix
  rw [hr] at this
  simp at this
  omega

theorem stm_either {fen : Bytes} {s : St} {sb : UInt8} {t : List UInt8} (h : rest fen s.ix = sb :: t)
    (hsb : sb = 119 ∨ sb = 98) :
    stm fen s = .ok ⟨s.ix + 1, { s.b with stm := if sb = 119 then .white else .black }⟩ := by
  rcases hsb with rfl | rfl
  · exact stm_white h
  · exact stm_black h

theorem enPassant_either {fen : Bytes} {s : St} {f r : UInt8} {t : List UInt8} (dash : Bool)
    (h : rest fen s.ix = (if dash then [45] else [f, r]) ++ t) (hf : 97 ≤ f ∧ f ≤ 104) (hr : 49 ≤ r ∧ r ≤ 56) :
    enPassant fen s = .ok ⟨s.ix + (if dash then [45] else [f, r]).length,
      { s.b with ep := if dash then s.b.ep else (r.toNat - 49) * 8 + (f.toNat - 97) }⟩ := by
  cases dash with
  | true => exact enPassant_dash (t := t) (by simpa using h)
  | false => exact enPassant_square (t := t) (by simpa using h) hf hr

/-- PARTIAL round trip: the five scalar field parsers, run through `seq`'s separators on a suffix of
    the shape ` <w|b> <castling letters> <-|square> <digits> <digits>`, produce exactly the values
    the fields denote. -/
theorem scalars_partial (fen : Bytes) (s0 : St) (sb f r : UInt8) (ls ds1 ds2 : List UInt8) (dash : Bool)
    (hsb : sb = 119 ∨ sb = 98)
    (hls : ∀ c ∈ ls, isCastleLetter c) (hls0 : ls ≠ [])
    (hf : 97 ≤ f ∧ f ≤ 104) (hr' : 49 ≤ r ∧ r ≤ 56)
    (hd1 : ∀ d ∈ ds1, 48 ≤ d ∧ d ≤ 57) (hd10 : ds1 ≠ [])
    (hd2 : ∀ d ∈ ds2, 48 ≤ d ∧ d ≤ 57) (hd20 : ds2 ≠ [])
    (h50 : 0 ≤ digitsVal 0 ds1 ∧ digitsVal 0 ds1 ≤ 100) (hfm : 1 ≤ digitsVal 0 ds2)
    (hrest : rest fen s0.ix =
      32 :: sb :: 32 :: (ls ++ 32 :: ((if dash then [45] else [f, r]) ++ 32 :: (ds1 ++ 32 :: ds2)))) :
    (do let s ← sep fen s0
        let s ← stm fen s
        let s ← sep fen s
        let s ← cRights fen s
        let s ← sep fen s
        let s ← enPassant fen s
        let s ← sep fen s
        let s ← fifty fen s
        let s ← sep fen s
        let s ← fullMoves fen s
        PR.ok s.b) =
    .ok { s0.b with
          stm := if sb = 119 then .white else .black,
          castles := ls.foldl (fun acc c => acc ||| letterRight c) s0.b.castles,
          ep := if dash then s0.b.ep else (r.toNat - 49) * 8 + (f.toNat - 97),
          fifty := digitsVal 0 ds1,
          fullMoves := digitsVal 0 ds2 } := by
  have hsb32 : sb ≠ 32 := by rcases hsb with rfl | rfl <;> decide
  obtain ⟨l0, lt, rfl⟩ : ∃ l0 lt, ls = l0 :: lt := by
    cases ls with
    | nil => exact absurd rfl hls0
    | cons a t => exact ⟨a, t, rfl⟩
  have hl0 : l0 ≠ 32 := by
    rcases hls l0 (by simp) with rfl | rfl | rfl | rfl | rfl <;> decide
  obtain ⟨d1, dt1, rfl⟩ : ∃ a t, ds1 = a :: t := by
    cases ds1 with
    | nil => exact absurd rfl hd10
    | cons a t => exact ⟨a, t, rfl⟩
  have hd1' : d1 ≠ 32 := by
    intro e; have := (hd1 d1 (by simp)).1; rw [e] at this; exact absurd this (by decide)
  obtain ⟨d2, dt2, rfl⟩ : ∃ a t, ds2 = a :: t := by
    cases ds2 with
    | nil => exact absurd rfl hd20
    | cons a t => exact ⟨a, t, rfl⟩
  have hd2' : d2 ≠ 32 := by
    intro e; have := (hd2 d2 (by simp)).1; rw [e] at this; exact absurd this (by decide)
  -- the en-passant field as a list `e0 :: et`
  obtain ⟨e0, et, hep, he0⟩ : ∃ e0 et, (if dash then [45] else [f, r]) = e0 :: et ∧ e0 ≠ 32 := by
    cases dash with
    | true => exact ⟨45, [], rfl, by decide⟩
    | false =>
      refine ⟨f, [r], rfl, ?_⟩
      intro e; have := hf.1; rw [e] at this; exact absurd this (by decide)
  -- sep, stm
  rw [sep_one hrest hsb32, bind_ok]
  obtain ⟨_, _, h1⟩ := rest_cons hrest
  rw [stm_either (s := ⟨s0.ix + 1, s0.b⟩) h1 hsb, bind_ok]
  obtain ⟨_, _, h2⟩ := rest_cons h1
  -- sep, castling
  rw [sep_one (s := ⟨s0.ix + 1 + 1, _⟩) (by simpa using h2) hl0, bind_ok]
  obtain ⟨_, _, h3⟩ := rest_cons h2
  rw [cRights_letters fen ⟨s0.ix + 1 + 1 + 1, _⟩ (l0 :: lt) _ hls h3, bind_ok]
  have h4 := rest_append h3
  -- sep, en passant
  rw [hep] at h4
  rw [sep_one (s := ⟨s0.ix + 1 + 1 + 1 + (l0 :: lt).length, _⟩) (by simpa using h4) he0, bind_ok]
  obtain ⟨_, _, h5⟩ := rest_cons h4
  have h5' : rest fen (s0.ix + 1 + 1 + 1 + (l0 :: lt).length + 1) =
      (if dash then [45] else [f, r]) ++ 32 :: (d1 :: dt1 ++ 32 :: d2 :: dt2) := by
    rw [hep]; simpa using h5
  rw [enPassant_either (s := ⟨s0.ix + 1 + 1 + 1 + (l0 :: lt).length + 1, _⟩) dash h5' hf hr', bind_ok]
  have h6 := rest_append h5'
  -- sep, fifty
  rw [sep_one (s := ⟨_, _⟩) (by simpa using h6) hd1', bind_ok]
  obtain ⟨_, _, h7⟩ := rest_cons h6
  rw [fifty_digits fen ⟨_, _⟩ (d1 :: dt1) (32 :: d2 :: dt2) hd1 (Or.inr ⟨_, rfl⟩) (by simpa using h7) h50.1 h50.2,
    bind_ok]
  have h8 := rest_append (l := d1 :: dt1) (by simpa using h7)
  -- sep, full moves
  rw [sep_one (s := ⟨_, _⟩) (by simpa using h8) hd2', bind_ok]
  obtain ⟨_, _, h9⟩ := rest_cons h8
  rw [fullMoves_digits fen ⟨_, _⟩ (d2 :: dt2) [] hd2 (Or.inl rfl) (by simpa using h9) hfm, bind_ok]

end Fen
end ChessVerif
