/-
  C19 (a), first half: under `noInt16Wrap` the engine's int16 evaluation equals the evaluation in exact
  integers (`opsZ`).  Core Lean only.
-/
import ChessVerif.Proofs.EvalHom

namespace ChessVerif.Eval
open ChessVerif

theorem wrapS16_of_inRange {x : Int} (h : inRange16 x = true) : wrapS16 x = x := by
  simp only [inRange16, Bool.and_eq_true, decide_eq_true_eq] at h
  unfold wrapS16; omega

theorem array_map_id_of_all {α : Type} (f : α → α) (p : α → Bool) (hp : ∀ x, p x = true → f x = x)
    (a : Array α) (h : a.all p = true) : a.map f = a := by
  apply Array.ext
  · simp
  · intro k h1 h2
    simp only [Array.getElem_map]
    apply hp
    rw [Array.all_eq_true] at h
    exact h k h2

theorem array2_map_id_of_all {α : Type} (f : α → α) (p : α → Bool) (hp : ∀ x, p x = true → f x = x)
    (a : Array (Array α)) (h : a.all (·.all p) = true) : a.map (·.map f) = a :=
  array_map_id_of_all (·.map f) (·.all p) (fun r hr => array_map_id_of_all f p hp r hr) a h

theorem coeff_map_wrap (cs : CoeffSet Int) (h : cs.all inRange16 = true) : cs.map wrapS16 = cs := by
  simp only [CoeffSet.all, Bool.and_eq_true] at h
  obtain ⟨⟨⟨⟨⟨⟨⟨⟨⟨⟨⟨⟨⟨⟨⟨⟨h1, h2⟩, h3⟩, h4⟩, h5⟩, h6⟩, h7⟩, h8⟩, h9⟩, h10⟩, h11⟩, h12⟩, h13⟩, h14⟩, h15⟩, h16⟩, h17⟩ := h
  have w1 := fun a h => array_map_id_of_all wrapS16 inRange16 (fun x hx => wrapS16_of_inRange hx) a h
  have w2 := fun a h => array2_map_id_of_all wrapS16 inRange16 (fun x hx => wrapS16_of_inRange hx) a h
  cases cs
  simp only [CoeffSet.map, CoeffSet.mk.injEq]
  simp only at h1 h2 h3 h4 h5 h6 h7 h8 h9 h10 h11 h12 h13 h14 h15 h16 h17
  refine ⟨w2 _ h1, w2 _ h2, w1 _ h3, w2 _ h4, w2 _ h5, w1 _ h6, w2 _ h7, w2 _ h8, w2 _ h9, w2 _ h10,
    w1 _ h11, w1 _ h12, w1 _ h13, w1 _ h14, w2 _ h15, w1 _ h16, w1 _ h17⟩

theorem opsI16_sub (a b : Int) : opsI16.sub a b = wrapS16 (a - b) := rfl
theorem opsI16_add (a b : Int) : opsI16.add a b = wrapS16 (a + b) := rfl
theorem opsI16_taper (mg eg p q f : Int) :
    opsI16.taper mg eg p q f = wrapS16 (goDiv (goDiv ((mg * p + eg * q) * wrapS8 (100 - f)) maxPhase) 100) := rfl
theorem opsZ_taper (mg eg p q f : Int) :
    opsZ.taper mg eg p q f = goDiv (goDiv ((mg * p + eg * q) * (100 - f)) maxPhase) 100 := rfl

/-- an accumulator in exact integers: everything before the king-attack term, plus the table value. -/
theorem accZ_eq (cs : CoeffSet Int) (i : EvalInput) (ph : Nat) (c : Color) :
    sum opsZ (spTerms opsZ cs i ph c) =
      sum opsZ (restTerms opsZ cs i ph c) + sigmTable (sum opsZ (kaTerms opsZ cs i ph c)) := by
  rw [spTerms_eq, sum_append_single]; rfl

theorem sigmTable_range (n : Int) : 0 ≤ sigmTable n ∧ sigmTable n ≤ 600 := by
  unfold sigmTable clamp
  have hlen : (Gen.Eval.sigm.length : Int) = 100 := by decide
  rw [hlen]
  have hk : (min (100 - 1) (max n 0)).toNat < 100 := by omega
  have hall : ∀ k : Fin 100, 0 ≤ Gen.Eval.sigm.getD k.val 0 ∧ Gen.Eval.sigm.getD k.val 0 ≤ 600 := by decide
  exact hall ⟨_, hk⟩

/-- the int16 accumulator is the wrapped exact accumulator, provided the sigmoid argument is an int16. -/
theorem acc16_eq (cs : CoeffSet Int) (hcs : cs.map wrapS16 = cs) (i : EvalInput) (ph : Nat) (c : Color)
    (hka : inRange16 (sum opsZ (kaTerms opsZ cs i ph c)) = true) :
    sum opsI16 (spTerms opsI16 cs i ph c) = wrapS16 (sum opsZ (spTerms opsZ cs i ph c)) := by
  have hr : sum opsI16 (restTerms opsI16 cs i ph c) = wrapS16 (sum opsZ (restTerms opsZ cs i ph c)) := by
    rw [sum_map hom_wrap, restTerms_map hom_wrap, hcs]
  have hk : sum opsI16 (kaTerms opsI16 cs i ph c) = sum opsZ (kaTerms opsZ cs i ph c) := by
    have : sum opsI16 (kaTerms opsI16 cs i ph c) = wrapS16 (sum opsZ (kaTerms opsZ cs i ph c)) := by
      rw [sum_map hom_wrap, kaTerms_map hom_wrap, hcs]
    rw [this, wrapS16_of_inRange hka]
  rw [accZ_eq, spTerms_eq, sum_append_single]
  unfold kingAttackTerm
  rw [hr, hk]
  show wrapS16 (wrapS16 _ + wrapS16 (sigmTable _)) = _
  rw [wrapS16_wrapS16_add]

theorem evalInt_eq_evalZ (cs : CoeffSet Int) (i : EvalInput) (h : noInt16Wrap cs i = true) :
    evalCore opsI16 cs i = evalCore opsZ cs i := by
  unfold noInt16Wrap at h
  simp only [Bool.and_eq_true, decide_eq_true_eq] at h
  obtain ⟨⟨⟨⟨hc, hf0⟩, hf1⟩, hres⟩, hpath⟩ := h
  have hcs := coeff_map_wrap cs hc
  unfold evalCore at hres ⊢
  by_cases h1 : insufficientMat i = true
  · simp only [h1, if_true]; rfl
  · simp only [h1, Bool.false_eq_true, if_false] at hpath hres ⊢
    by_cases h2 : knbvk i = true
    · simp only [h2, if_true] at hpath hres ⊢
      have e : ∀ c, sum opsI16 (pieceValueTerms opsI16 cs i 1 c ++ knbvkTerms opsI16 cs i 1 c) =
          wrapS16 (sum opsZ (pieceValueTerms opsZ cs i 1 c ++ knbvkTerms opsZ cs i 1 c)) := by
        intro c
        rw [sum_map hom_wrap, List.map_append, pieceValueTerms_map hom_wrap, knbvkTerms_map hom_wrap, hcs]
      rw [e, e]
      rw [opsI16_sub, wrapS16_wrapS16_sub]
      exact wrapS16_of_inRange hpath
    · simp only [h2, Bool.false_eq_true, if_false, List.all_cons, List.all_nil, Bool.and_true,
        Bool.and_eq_true] at hpath hres ⊢
      obtain ⟨⟨⟨k0w, k0b⟩, ⟨k1w, k1b⟩⟩, ⟨hmg, heg⟩⟩ := hpath
      have hka : ∀ ph c, ph = 0 ∨ ph = 1 → inRange16 (sum opsZ (kaTerms opsZ cs i ph c)) = true := by
        intro ph c hph
        rcases hph with rfl | rfl <;> cases c <;> assumption
      have hmg' : opsI16.sub (sum opsI16 (spTerms opsI16 cs i 0 i.stm)) (sum opsI16 (spTerms opsI16 cs i 0 i.stm.flip))
          = sum opsZ (spTerms opsZ cs i 0 i.stm) - sum opsZ (spTerms opsZ cs i 0 i.stm.flip) := by
        rw [acc16_eq cs hcs i 0 _ (hka 0 _ (Or.inl rfl)), acc16_eq cs hcs i 0 _ (hka 0 _ (Or.inl rfl))]
        rw [opsI16_sub, wrapS16_wrapS16_sub]; exact wrapS16_of_inRange hmg
      have heg' : opsI16.sub (sum opsI16 (spTerms opsI16 cs i 1 i.stm)) (sum opsI16 (spTerms opsI16 cs i 1 i.stm.flip))
          = sum opsZ (spTerms opsZ cs i 1 i.stm) - sum opsZ (spTerms opsZ cs i 1 i.stm.flip) := by
        rw [acc16_eq cs hcs i 1 _ (hka 1 _ (Or.inr rfl)), acc16_eq cs hcs i 1 _ (hka 1 _ (Or.inr rfl))]
        rw [opsI16_sub, wrapS16_wrapS16_sub]; exact wrapS16_of_inRange heg
      rw [hmg', heg']
      have h8 : wrapS8 (100 - i.fifty) = 100 - i.fifty := by unfold wrapS8; omega
      rw [opsI16_taper, h8]
      rw [opsZ_taper] at hres ⊢
      exact wrapS16_of_inRange hres

end ChessVerif.Eval
