/-
  Board-level facts about generated moves and null moves of VALID boards, in the form the component
  laws of the search skeleton need them (`Search.Laws`: undo restores the board, the successor is
  valid).  One-liners from C01 / C03 / C05, plus the closure of `Board.valid` under the null move
  (`valid_null`, via `abs_makeNull` and the rule-book lemma `rules_valid_null`).
-/
import ChessVerif.Props.C01
import ChessVerif.Props.C03
import ChessVerif.Props.C05
import ChessVerif.Proofs.SearchLaws

namespace ChessVerif
namespace SearchReal
set_option autoImplicit false

theorem genNoisy_sub_gen {b : Board} {m : Move} (h : m ∈ MoveGen.genNoisy b) : m ∈ MoveGen.gen b := by
  unfold MoveGen.gen
  exact List.mem_append_left _ h

theorem undo_make_gen (K : Keys) {b : Board} {m : Move} (hv : Board.valid b = true) (hm : m ∈ MoveGen.gen b) :
    (b.makeMove K m).1.undoMove m (b.makeMove K m).2 = b :=
  Props.C03.undo_make_valid K hv
    ((Props.C05.isPseudoLegal_iff_gen hv (Props.C05.gen_lt hv hm)).2 hm)

theorem valid_make_gen (K : Keys) {b : Board} {m : Move} (hv : Board.valid b = true) (hf : b.fifty < 100)
    (hm : m ∈ MoveGen.gen b) (hsafe : (b.makeMove K m).1.inCheck b.stm = false) :
    Board.valid (b.makeMove K m).1 = true :=
  Props.C01.valid_make_of_clock_lt K hv (Search.mem_playable.2 ⟨hm, hsafe⟩) hf

theorem ep_lt_of_valid {b : Board} (hv : Board.valid b = true) : b.ep < 64 := by
  by_cases h : b.ep = 0
  · rw [h]; decide
  · exact ((Props.C05.domain_of_valid hv).ep h).1

theorem undo_null_valid (K : Keys) {b : Board} (hv : Board.valid b = true) :
    (b.makeNull K).1.undoNull (b.makeNull K).2 = b :=
  Props.C03.undoNull_makeNull K b (ep_lt_of_valid hv)

/-- the abstraction of the position after a null move: side to move flipped, en-passant target
    cleared, everything else unchanged. -/
theorem abs_makeNull (K : Keys) (b : Board) :
    Board.abs (b.makeNull K).1 = { Board.abs b with turn := b.stm.flip, ep := none } := by
  obtain ⟨h1, h2, h3, h4, h5, h6, h7, h8, _⟩ := Board.makeNull_facts K b
  have hman : ∀ s, (b.makeNull K).1.manAt s = b.manAt s := by
    intro s
    unfold Board.manAt Board.colorBB Board.pieceAt
    rw [h1, h3]
  unfold Board.abs
  simp only [hman, h4, h5, h6, h7, h8, if_true]

/-- rule-book side of the null move: flipping the side to move and clearing the en-passant target of
    a valid position whose side to move is not in check gives a valid position. -/
theorem rules_valid_null (p : Rules.Pos) (hv : Rules.valid p = true) (hc : Rules.inCheck p p.turn = false) :
    Rules.valid { p with turn := p.turn.flip, ep := none } = true := by
  unfold Rules.valid at hv ⊢
  simp only [Bool.and_eq_true] at hv ⊢
  obtain ⟨⟨⟨⟨⟨⟨⟨⟨⟨⟨⟨a1, a2⟩, a3⟩, _⟩, a5⟩, a6⟩, a7⟩, a8⟩, _⟩, a10⟩, a11⟩, a12⟩ := hv
  refine ⟨⟨⟨⟨⟨⟨⟨⟨⟨⟨⟨a1, a2⟩, a3⟩, ?_⟩, a5⟩, a6⟩, a7⟩, a8⟩, ?_⟩, a10⟩, a11⟩, a12⟩
  · show (!Rules.inCheck _ p.turn.flip.flip) = true
    rw [Color.flip_flip, Playable.inCheck_congr_men (p := { p with turn := p.turn.flip, ep := none }) (q := p) rfl
      p.turn, hc]
    rfl
  · trivial

/-- NEW: a null move from a valid position whose side to move is not in check leads to a valid position
    (side to move flips, en-passant target cleared, clock and everything else unchanged) -/
theorem valid_null (K : Keys) {b : Board} (hv : Board.valid b = true) (hchk : b.inCheck b.stm = false) :
    Board.valid (b.makeNull K).1 = true := by
  have hw := Bridge.WFP_of_valid hv
  have hrv := Bridge.rulesValid_of_valid hv
  have hwf' : (b.makeNull K).1.wf = true := Bridge.wf_of_WFP (Props.C03.wf_null K hw)
  have hc : Rules.inCheck (Board.abs b) b.stm = false := by
    rw [← Bridge.inCheck_iff hw]; exact hchk
  unfold Board.valid
  rw [hwf', Bool.true_and, abs_makeNull]
  exact rules_valid_null (Board.abs b) hrv hc

theorem gen_ne_zero {b : Board} {m : Move} (hv : Board.valid b = true) (hm : m ∈ MoveGen.gen b) : m ≠ 0 := by
  intro h0
  subst h0
  obtain ⟨_, h1, h2, _⟩ := (Props.C05.gen_iff_PL (Props.C05.domain_of_valid hv) 0).1 hm
  have hs : Move.src 0 = 0 := by decide
  have hd : Move.dst 0 = 0 := by decide
  rw [hs] at h1
  rw [hd] at h2
  rw [h1] at h2
  cases h2

end SearchReal
end ChessVerif
