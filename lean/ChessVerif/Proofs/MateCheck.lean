/-
  C09 steps (2)–(5), part 1: how a legal non-king move answers a check.
  * `hasLegal_cases`   — a legal non-king move is an ordinary move or an en-passant capture, each with
                         its safety condition in terms of `Chk`.
  * `answer_move`, `answer_ep` — a safe move captures the checker or puts a man strictly between a
                         sliding checker and the king.
  * `double_check_only_king` — (2): with two checkers no non-king man has a legal move.
-/
import ChessVerif.Proofs.MatePL

namespace ChessVerif.Mate
open ChessVerif Board Rules Bridge

variable {b : Board} {K : Nat}

/-! ### the two shapes of a legal non-king move -/

theorem hasLegal_cases (cx : Ctx b K) {k : Piece} (hk : k ≠ .king) (h : HasLegal b k) :
    (∃ s t pr, s < 64 ∧ t < 64 ∧ pr < 8 ∧ b.pieceAt s = k ∧ PL.PL b s t pr ∧ ¬ IsEp b s t ∧
        ¬ Chk b ((b.occ &&& ~~~ bit s) ||| bit t) (bit t) K) ∨
    (∃ P O s pr, EpFacts b P O ∧ s < 64 ∧ pr < 8 ∧ b.pieceAt s = k ∧ PL.PL b s b.ep pr ∧ IsEp b s b.ep ∧
        ¬ Chk b (((b.occ &&& ~~~ bit s) &&& ~~~ bit P) ||| bit b.ep) (bit P) K) := by
  obtain ⟨s, t, pr, hs, ht, hpr, hp, hPL, hi⟩ := h
  have hnk : b.pieceAt s ≠ .king := by rw [hp]; exact hk
  by_cases hep : IsEp b s t
  · right
    have ht' := hep.2.2.1
    subst ht'
    obtain ⟨P, O, ef⟩ := ep_facts cx hep.2.1
    refine ⟨P, O, s, pr, ef, hs, hpr, hp, hPL, hep, ?_⟩
    intro hc
    rw [(after_ep cx ef s pr hs hPL hep).2 hc] at hi
    exact Bool.noConfusion hi
  · left
    refine ⟨s, t, pr, hs, ht, hpr, hp, hPL, hep, ?_⟩
    intro hc
    rw [(after_nonking cx s t pr hs ht hPL hnk hep).2 hc] at hi
    exact Bool.noConfusion hi

theorem hasLegal_of_move (cx : Ctx b K) (s t pr : Nat) (hs : s < 64) (ht : t < 64) (hpr : pr < 8)
    (hPL : PL.PL b s t pr) (hnk : b.pieceAt s ≠ .king) (hne : ¬ IsEp b s t)
    (hsafe : ¬ Chk b ((b.occ &&& ~~~ bit s) ||| bit t) (bit t) K) : HasLegal b (b.pieceAt s) := by
  refine ⟨s, t, pr, hs, ht, hpr, rfl, hPL, ?_⟩
  cases hi : Rules.inCheck (Rules.applyCore (abs b) ⟨s, t, decPromo pr⟩) b.stm
  · rfl
  · exact absurd ((after_nonking cx s t pr hs ht hPL hnk hne).1 hi) hsafe

/-! ### answering a check -/

/-- a checker is captured (excluded by `x`) or, being a slider, loses its line of sight because a
    vacant square strictly between it and the king becomes occupied. -/
theorem answer {A : Nat} (hA64 : A < 64) (hA : Checker b K A) {o' x : BB} (hsafe : ¬ Chk b o' x K) :
    x.getLsbD A = true ∨
      (isSlider (b.pieceAt A) = true ∧
        ∃ u, (SB A K).getLsbD u = true ∧ b.occ.getLsbD u = false ∧ o'.getLsbD u = true) := by
  cases hx : x.getLsbD A
  · right
    have hno : ¬ Att o' b.stm.flip (b.pieceAt A) A K := fun h => hsafe ⟨A, hA64, hA.1, hx, h⟩
    exact Att_lost hA.2 hno
  · exact Or.inl rfl

theorem answer_move {A : Nat} (hA64 : A < 64) (hA : Checker b K A) (s t : Nat) (hs : s < 64) (ht : t < 64)
    (hsafe : ¬ Chk b ((b.occ &&& ~~~ bit s) ||| bit t) (bit t) K) :
    A = t ∨ (isSlider (b.pieceAt A) = true ∧ (SB A K).getLsbD t = true ∧ b.occ.getLsbD t = false) := by
  rcases answer hA64 hA hsafe with h | ⟨hsl, u, hu, ho, ho'⟩
  · left
    rw [bit_getLsbD t A ht, decide_eq_true_eq] at h
    exact h.symm
  · right
    rw [getLsbD_or_bit _ _ _ ht, getLsbD_andNot_bit _ _ _ hs, ho] at ho'
    simp only [Bool.false_and, Bool.false_or, decide_eq_true_eq] at ho'
    subst ho'
    exact ⟨hsl, hu, ho⟩

theorem answer_ep {A P : Nat} (hA64 : A < 64) (hA : Checker b K A) (s : Nat) (hs : s < 64) (hP : P < 64)
    (hep : b.ep < 64)
    (hsafe : ¬ Chk b (((b.occ &&& ~~~ bit s) &&& ~~~ bit P) ||| bit b.ep) (bit P) K) :
    A = P ∨ (isSlider (b.pieceAt A) = true ∧ (SB A K).getLsbD b.ep = true) := by
  rcases answer hA64 hA hsafe with h | ⟨hsl, u, hu, ho, ho'⟩
  · left
    rw [bit_getLsbD P A hP, decide_eq_true_eq] at h
    exact h.symm
  · right
    rw [getLsbD_or_bit _ _ _ hep, getLsbD_andNot_bit _ _ _ hP, getLsbD_andNot_bit _ _ _ hs, ho] at ho'
    simp only [Bool.false_and, Bool.false_or, decide_eq_true_eq] at ho'
    rw [ho']
    exact ⟨hsl, hu⟩

/-- the line of a sliding checker is free. -/
theorem Checker.free {A : Nat} (hA : Checker b K A) (hs : isSlider (b.pieceAt A) = true) :
    lineFree b.occ A K := (Att_slider_geo hs hA.2).2

theorem Checker.occ {A : Nat} (hA : Checker b K A) : b.occ.getLsbD A = true := occ_of_opp A hA.1

/-- a checker cannot stand strictly between another sliding checker and the king. -/
theorem checker_not_between {A B : Nat} (hA : Checker b K A) (hB : Checker b K B)
    (hs : isSlider (b.pieceAt B) = true) : (SB B K).getLsbD A = true → False := by
  intro h
  have := hB.free hs A h
  rw [hA.occ] at this
  exact Bool.noConfusion this

/-- two different checkers cannot both be blocked on the same square. -/
theorem both_blocked_absurd (cx : Ctx b K) {A B : Nat} (hA64 : A < 64) (hB64 : B < 64) (hA : Checker b K A)
    (hB : Checker b K B) (hne : A ≠ B) (t : Nat)
    (h1 : isSlider (b.pieceAt A) = true ∧ (SB A K).getLsbD t = true)
    (h2 : isSlider (b.pieceAt B) = true ∧ (SB B K).getLsbD t = true) : False := by
  have e1 := h1.2
  have e2 := h2.2
  rw [sb_comm' hA64 cx.hK] at e1
  rw [sb_comm' hB64 cx.hK] at e2
  rcases sb_same_ray cx.hK hA64 hB64 e1 e2 with h | h | h
  · exact hne h
  · rw [sb_comm' cx.hK hB64] at h
    exact checker_not_between hA hB h2.1 h
  · rw [sb_comm' cx.hK hA64] at h
    exact checker_not_between hB hA h1.1 h

/-- **(2) double check: only the king can move.** -/
theorem double_check_only_king (cx : Ctx b K) {A B : Nat} (hA64 : A < 64) (hB64 : B < 64)
    (hA : Checker b K A) (hB : Checker b K B) (hne : A ≠ B) {k : Piece} (hk : k ≠ .king) :
    ¬ HasLegal b k := by
  intro h
  rcases hasLegal_cases cx hk h with ⟨s, t, pr, hs, ht, _, _, _, _, hsafe⟩ |
      ⟨P, O, s, pr, ef, hs, _, _, _, _, hsafe⟩
  · rcases answer_move hA64 hA s t hs ht hsafe with e1 | h1 <;>
      rcases answer_move hB64 hB s t hs ht hsafe with e2 | h2
    · exact hne (e1.trans e2.symm)
    · rw [← e1] at h2; exact checker_not_between hA hB h2.1 h2.2.1
    · rw [← e2] at h1; exact checker_not_between hB hA h1.1 h1.2.1
    · exact both_blocked_absurd cx hA64 hB64 hA hB hne t ⟨h1.1, h1.2.1⟩ ⟨h2.1, h2.2.1⟩
  · have hpawn : ∀ X, Checker b K X → X = P → PL.capGeom b.stm.flip P K := by
      intro X hX e
      have := hX.2
      rw [e, ef.P_pawn] at this
      exact Att_pawn.1 this
    have hah : PL.ahead b.stm.flip b.ep 8 P := (ahead_flip _ _ _ _).2 ef.aheadP
    rcases answer_ep hA64 hA s hs ef.P_lt ef.ep_lt hsafe with e1 | h1 <;>
      rcases answer_ep hB64 hB s hs ef.P_lt ef.ep_lt hsafe with e2 | h2
    · exact hne (e1.trans e2.symm)
    · have := ep_not_between cx.hK hah (hpawn A hA e1) hB64
      rw [h2.2] at this; exact Bool.noConfusion this
    · have := ep_not_between cx.hK hah (hpawn B hB e2) hA64
      rw [h1.2] at this; exact Bool.noConfusion this
    · exact both_blocked_absurd cx hA64 hB64 hA hB hne b.ep h1 h2

end ChessVerif.Mate
