/-
  C13 — liveness, part 1: a termination measure for the UCI transition system.

  `mu : State → Nat` is a weighted count of the work the driver still has in front of it:
    * every line the GUI has not written yet (`script`), has written but `Scan` has not returned
      (`pipe`), or the reader holds (`reader = send c`) carries the cost of its whole handling
      (`wt c`: the handler's / interrupt goroutine's control steps and the messages it causes);
    * every goroutine carries the number of control steps to its own end of loop / exit (`rank`);
    * every message buffered in the output channel carries the two writer steps it still needs;
    * stdin not yet closed: 1;  the search's `PonderHit` channel not yet polled: 1.

  Result of this file and its two continuations (`UciTerminationH`, `UciTerminationI`):
  in every state satisfying the control invariant `Inv` (hence in every reachable state)
    EVERY transition other than `sInfo` — all 26 internal ones, the three environment ones
    (`envLine`, `envEof`, `timer`) and the search's `sDone`, `sAbortSelf`, `sPollHit` — strictly
    decreases `mu`;  `sInfo` (the search prints an `info` line) increases it by exactly 2.
  So the ONLY source of an infinite execution is a search that prints infinitely many `info` lines.

  This file: definitions, environment, search-progress and reader transitions.
-/
import ChessVerif.Proofs.UciInv
namespace ChessVerif.Uci

/-- Cost of handling one input line after it has been received: the larger of what the handler
    and what the interrupt goroutine do with it (control steps + 2 per message sent). -/
def wt : Cmd → Nat
  | .other ws => 3 * ws.length + 1   -- handler: `emit ws` … `recv`
  | .go _ _ => 13                    -- handler: `search` … `recv`, interrupt goroutine, PonderHit poll
  | .isready => 3                    -- `ready` → send `readyok` (2 writer steps)
  | .ponderhit => 1                  -- interrupt goroutine: `hit` → `select`
  | _ => 0                           -- stop, quit

/-- Total cost of a list of pending lines, `k` extra steps per line for its transport. -/
def lineW (k : Nat) : List Cmd → Nat
  | [] => 0
  | c :: cs => wt c + k + lineW k cs

@[simp] theorem lineW_nil (k : Nat) : lineW k [] = 0 := rfl
@[simp] theorem lineW_cons (k : Nat) (c : Cmd) (cs : List Cmd) :
    lineW k (c :: cs) = wt c + k + lineW k cs := rfl
@[simp] theorem lineW_append (k : Nat) (l₁ l₂ : List Cmd) :
    lineW k (l₁ ++ l₂) = lineW k l₁ + lineW k l₂ := by
  induction l₁ with
  | nil => simp
  | cons c cs ih => simp [ih]; omega

def Reader.rank : Reader → Nat
  | .done => 0 | .closing => 1 | .scan => 2 | .send c => wt c + 3
def Handler.rank : Handler → Nat
  | .done => 0 | .closeOut => 1 | .recv => 2 | .deferClose => 3 | .best => 6 | .wait => 7
  | .closeFin => 8 | .aborted => 11 | .search => 12 | .ready => 5 | .emit ws => 3 * ws.length + 3
def Intr.rank : Intr → Nat
  | .none => 0 | .exit => 1 | .select => 2 | .hit => 3 | .ready => 5
def Writer.rank : Writer → Nat
  | .done => 0 | .recv => 1 | .write _ => 2
def Main.rank : Main → Nat
  | .waiting => 1 | .returned => 0

/-- The termination measure. -/
def mu (s : State) : Nat :=
  lineW 3 s.script + lineW 2 s.pipe + (if s.pipeEof then 0 else 1) + (if s.sPh then 1 else 0)
  + s.reader.rank + s.handler.rank + s.intr.rank + s.writer.rank + s.main.rank + 2 * s.out.length

theorem mu_init (sc : List Cmd) : mu (init sc) = lineW 3 sc + 7 := by
  simp [mu, Uci.init, Reader.rank, Handler.rank, Intr.rank, Writer.rank, Main.rank]

/-- One transition: the successor satisfies `Inv`, so the `panic` branches are impossible; in every
    other branch the measure is computed and compared. -/
macro "uci_mu" h:ident hf:ident : tactic => `(tactic| (
  have hnp := (Inv.step $h:ident $hf:ident).noPanic
  simp only [fire, send, runDone, dispatch, intrDispatch, readerAfter] at $hf:ident
  (repeat' split at $hf:ident) <;> (try cases $hf:ident) <;>
    (simp_all [mu, Reader.rank, Handler.rank, Intr.rank, Writer.rank, Main.rank, wt] <;> try omega)))

variable {s s' : State}

/-! Environment -/

theorem mu_envLine (h : Inv s) (hf : fire .envLine s = some s') : mu s' < mu s := by
  uci_mu h hf
theorem mu_envEof (h : Inv s) (hf : fire .envEof s = some s') : mu s' < mu s := by
  uci_mu h hf
theorem mu_timer (h : Inv s) (hf : fire .timer s = some s') : mu s' < mu s := by
  uci_mu h hf

/-! The search's own progress -/

/-- The only transition that increases the measure: an `info` line costs two writer steps. -/
theorem mu_sInfo (h : Inv s) (hf : fire .sInfo s = some s') : mu s' = mu s + 2 := by
  uci_mu h hf
theorem mu_sDone (h : Inv s) (hf : fire .sDone s = some s') : mu s' < mu s := by
  uci_mu h hf
theorem mu_sAbortSelf (h : Inv s) (hf : fire .sAbortSelf s = some s') : mu s' < mu s := by
  uci_mu h hf
theorem mu_sPollHit (h : Inv s) (hf : fire .sPollHit s = some s') : mu s' < mu s := by
  uci_mu h hf

/-! Reader -/

theorem mu_rScan (h : Inv s) (hf : fire .rScan s = some s') : mu s' < mu s := by
  uci_mu h hf
theorem mu_rEof (h : Inv s) (hf : fire .rEof s = some s') : mu s' < mu s := by
  uci_mu h hf
theorem mu_rSendClosed (h : Inv s) (hf : fire .rSendClosed s = some s') : mu s' < mu s := by
  uci_mu h hf
theorem mu_rClose (h : Inv s) (hf : fire .rClose s = some s') : mu s' < mu s := by
  uci_mu h hf

end ChessVerif.Uci
