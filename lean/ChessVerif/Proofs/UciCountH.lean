/- C13 — `Inv2` is preserved by the handler transitions. -/
import ChessVerif.Proofs.UciCount
namespace ChessVerif.Uci

theorem Inv2.step_hRecv {sc : List Cmd} {s s' : State} (h : Inv s) (h2 : Inv2 sc s) (hf : fire .hRecv s = some s') : Inv2 sc s' := by
  obtain ⟨h1,_,h3,_,_,_,h7,_,_,_,_,_,_,_,_⟩ := h
  obtain ⟨g1,g2,g3,g4,g5,g6,g7,g8⟩ := h2
  uci_inv2 hf [Reader.held]
  simp [List.countP_cons, Cmd.isGo] at g5
  omega

theorem Inv2.step_hClosed {sc : List Cmd} {s s' : State} (h : Inv s) (h2 : Inv2 sc s) (hf : fire .hClosed s = some s') : Inv2 sc s' := by
  obtain ⟨h1,_,h3,_,_,_,h7,_,_,_,_,_,_,_,_⟩ := h
  obtain ⟨g1,g2,g3,g4,g5,g6,g7,g8⟩ := h2
  uci_inv2 hf []

theorem Inv2.step_hEmit {sc : List Cmd} {s s' : State} (h : Inv s) (h2 : Inv2 sc s) (hf : fire .hEmit s = some s') : Inv2 sc s' := by
  obtain ⟨h1,_,h3,_,_,_,h7,_,_,_,_,_,_,_,_⟩ := h
  obtain ⟨g1,g2,g3,g4,g5,g6,g7,g8⟩ := h2
  uci_inv2 hf []

theorem Inv2.step_hEmitDone {sc : List Cmd} {s s' : State} (h : Inv s) (h2 : Inv2 sc s) (hf : fire .hEmitDone s = some s') : Inv2 sc s' := by
  obtain ⟨h1,_,h3,_,_,_,h7,_,_,_,_,_,_,_,_⟩ := h
  obtain ⟨g1,g2,g3,g4,g5,g6,g7,g8⟩ := h2
  uci_inv2 hf []

theorem Inv2.step_hReady {sc : List Cmd} {s s' : State} (h : Inv s) (h2 : Inv2 sc s) (hf : fire .hReady s = some s') : Inv2 sc s' := by
  obtain ⟨h1,_,h3,_,_,_,h7,_,_,_,_,_,_,_,_⟩ := h
  obtain ⟨g1,g2,g3,g4,g5,g6,g7,g8⟩ := h2
  uci_inv2 hf []

theorem Inv2.step_hStop {sc : List Cmd} {s s' : State} (h : Inv s) (h2 : Inv2 sc s) (hf : fire .hStop s = some s') : Inv2 sc s' := by
  obtain ⟨h1,_,h3,_,_,_,h7,_,_,_,_,_,_,_,_⟩ := h
  obtain ⟨g1,g2,g3,g4,g5,g6,g7,g8⟩ := h2
  uci_inv2 hf []

theorem Inv2.step_hAbortInfo {sc : List Cmd} {s s' : State} (h : Inv s) (h2 : Inv2 sc s) (hf : fire .hAbortInfo s = some s') : Inv2 sc s' := by
  obtain ⟨h1,_,h3,_,_,_,h7,_,_,_,_,_,_,_,_⟩ := h
  obtain ⟨g1,g2,g3,g4,g5,g6,g7,g8⟩ := h2
  uci_inv2 hf []

theorem Inv2.step_hCloseFin {sc : List Cmd} {s s' : State} (h : Inv s) (h2 : Inv2 sc s) (hf : fire .hCloseFin s = some s') : Inv2 sc s' := by
  obtain ⟨h1,_,h3,_,_,_,h7,_,_,_,_,_,_,_,_⟩ := h
  obtain ⟨g1,g2,g3,g4,g5,g6,g7,g8⟩ := h2
  uci_inv2 hf []

theorem Inv2.step_hWait {sc : List Cmd} {s s' : State} (h : Inv s) (h2 : Inv2 sc s) (hf : fire .hWait s = some s') : Inv2 sc s' := by
  obtain ⟨h1,_,h3,_,_,_,h7,_,_,_,_,_,_,_,_⟩ := h
  obtain ⟨g1,g2,g3,g4,g5,g6,g7,g8⟩ := h2
  uci_inv2 hf []

theorem Inv2.step_hBest {sc : List Cmd} {s s' : State} (h : Inv s) (h2 : Inv2 sc s) (hf : fire .hBest s = some s') : Inv2 sc s' := by
  obtain ⟨h1,_,h3,_,_,_,h7,_,_,_,_,_,_,_,_⟩ := h
  obtain ⟨g1,g2,g3,g4,g5,g6,g7,g8⟩ := h2
  uci_inv2 hf []

theorem Inv2.step_hDefer {sc : List Cmd} {s s' : State} (h : Inv s) (h2 : Inv2 sc s) (hf : fire .hDefer s = some s') : Inv2 sc s' := by
  obtain ⟨h1,_,h3,_,_,_,h7,_,_,_,_,_,_,_,_⟩ := h
  obtain ⟨g1,g2,g3,g4,g5,g6,g7,g8⟩ := h2
  uci_inv2 hf []

theorem Inv2.step_hCloseOut {sc : List Cmd} {s s' : State} (h : Inv s) (h2 : Inv2 sc s) (hf : fire .hCloseOut s = some s') : Inv2 sc s' := by
  obtain ⟨h1,_,h3,_,_,_,h7,_,_,_,_,_,_,_,_⟩ := h
  obtain ⟨g1,g2,g3,g4,g5,g6,g7,g8⟩ := h2
  uci_inv2 hf []

end ChessVerif.Uci
