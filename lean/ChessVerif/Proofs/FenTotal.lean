/-
  C11, obligation 1: the FEN parser model never reaches the `.panic` outcome — every slice access of
  /repo/board/fen.go is guarded, for every byte string.
  One lemma per sub-parser ("if the index is in range as the caller guarantees, the result is not
  `.panic`"), composed through `sep`.
-/
import ChessVerif.Model.Fen

namespace ChessVerif
namespace Fen

@[simp] theorem bind_ok {α β} (a : α) (f : α → PR β) : (PR.ok a >>= f) = f a := rfl
@[simp] theorem bind_err {α β} (f : α → PR β) : (PR.err >>= f) = PR.err := rfl
@[simp] theorem bind_panic {α β} (f : α → PR β) : (PR.panic >>= f) = PR.panic := rfl
@[simp] theorem pure_eq_ok {α} (a : α) : (pure a : PR α) = PR.ok a := rfl

theorem at_ok (fen : Bytes) (ix : Nat) (h : ix < fen.size) : at_ fen ix = .ok fen[ix] := by
  simp [at_, h]

theorem at_panic (fen : Bytes) (ix : Nat) (h : fen.size ≤ ix) : at_ fen ix = .panic := by
  have : fen[ix]? = none := by simp [h]
  simp [at_, this]

/-- the composition principle: a bind does not panic if its head does not and its continuation does
    not on the value the head produced. -/
theorem bind_ne_panic {α β} {x : PR α} {f : α → PR β}
    (hx : x ≠ .panic) (hf : ∀ a, x = .ok a → f a ≠ .panic) : (x >>= f) ≠ .panic := by
  cases x with
  | ok a => exact hf a rfl
  | err => simp
  | panic => exact absurd rfl hx

theorem bind_eq_ok {α β} {x : PR α} {f : α → PR β} {r : β} (h : (x >>= f) = .ok r) :
    ∃ a, x = .ok a ∧ f a = .ok r := by
  cases x with
  | ok a => exact ⟨a, rfl, h⟩
  | err => simp at h
  | panic => simp at h

/-! ### the loops: every access sits under `if ix < fen.size` -/

theorem positionLoop_ne_panic (fen : Bytes) :
    ∀ fuel ix rank file b, positionLoop fen fuel ix rank file b ≠ .panic := by
  intro fuel
  induction fuel with
  | zero => intro ix rank file b; simp [positionLoop]
  | succ n ih =>
    intro ix rank file b
    unfold positionLoop
    by_cases h : ix < fen.size
    · simp only [h, if_true, at_ok fen ix h, bind_ok]
      split
      · exact ih _ _ _ _
      · split
        · split
          · simp
          · exact ih _ _ _ _
        · split
          · split
            · simp
            · exact ih _ _ _ _
          · split <;> simp
    · simp [h]

theorem cRightsLoop_ne_panic (fen : Bytes) :
    ∀ fuel ix b, cRightsLoop fen fuel ix b ≠ .panic := by
  intro fuel
  induction fuel with
  | zero => intro ix b; simp [cRightsLoop]
  | succ n ih =>
    intro ix b
    unfold cRightsLoop
    by_cases h : ix < fen.size
    · simp only [h, if_true, at_ok fen ix h, bind_ok]
      repeat' split
      all_goals first | exact ih _ _ | simp
    · simp [h]

theorem counterLoop_ne_panic (fen : Bytes) :
    ∀ fuel ix cnt, counterLoop fen fuel ix cnt ≠ .panic := by
  intro fuel
  induction fuel with
  | zero => intro ix cnt; simp [counterLoop]
  | succ n ih =>
    intro ix cnt
    unfold counterLoop
    by_cases h : ix < fen.size
    · simp only [h, if_true, at_ok fen ix h, bind_ok]
      repeat' split
      all_goals first | exact ih _ _ | simp
    · simp [h]

theorem skipSpaces_ne_panic (fen : Bytes) :
    ∀ fuel ix, skipSpaces fen fuel ix ≠ .panic := by
  intro fuel
  induction fuel with
  | zero => intro ix; simp [skipSpaces]
  | succ n ih =>
    intro ix
    unfold skipSpaces
    by_cases h : ix < fen.size
    · simp only [h, if_true, at_ok fen ix h, bind_ok]
      split
      · exact ih _
      · simp
    · simp [h]

/-! ### the field parsers -/

theorem position_ne_panic (fen : Bytes) (s : St) : position fen s ≠ .panic :=
  positionLoop_ne_panic fen _ _ _ _ _

theorem cRights_ne_panic (fen : Bytes) (s : St) : cRights fen s ≠ .panic :=
  cRightsLoop_ne_panic fen _ _ _

theorem counter_ne_panic (fen : Bytes) (ix : Nat) : counter fen ix ≠ .panic :=
  counterLoop_ne_panic fen _ _ _

theorem fifty_ne_panic (fen : Bytes) (s : St) : fifty fen s ≠ .panic := by
  unfold fifty
  refine bind_ne_panic (counter_ne_panic fen s.ix) ?_
  rintro ⟨ix, cnt⟩ _
  show (if _ then _ else _) ≠ _
  split <;> simp

theorem fullMoves_ne_panic (fen : Bytes) (s : St) : fullMoves fen s ≠ .panic := by
  unfold fullMoves
  refine bind_ne_panic (counter_ne_panic fen s.ix) ?_
  rintro ⟨ix, cnt⟩ _
  show (if _ then _ else _) ≠ _
  split <;> simp

/-- `stm` reads `fen[ix]` unguarded: the guard is the one `seq` performs just before. -/
theorem stm_ne_panic (fen : Bytes) (s : St) (h : s.ix < fen.size) : stm fen s ≠ .panic := by
  unfold stm
  simp only [at_ok fen s.ix h, bind_ok]
  repeat' split
  all_goals simp

/-- `enPassant` reads `fen[ix]` unguarded (guard of `seq`) and `fen[ix+1]` under its own guard. -/
theorem enPassant_ne_panic (fen : Bytes) (s : St) (h : s.ix < fen.size) : enPassant fen s ≠ .panic := by
  unfold enPassant
  simp only [at_ok fen s.ix h, bind_ok]
  split
  · split
    · simp
    · rename_i h1
      have h2 : s.ix + 1 < fen.size := by omega
      simp only [at_ok fen (s.ix + 1) h2, bind_ok]
      split <;> simp
  · simp

/-- the separator step of `seq` never panics … -/
theorem sep_ne_panic (fen : Bytes) (s : St) : sep fen s ≠ .panic := by
  unfold sep
  refine bind_ne_panic (skipSpaces_ne_panic fen _ _) ?_
  intro ix _
  split <;> simp

/-- … and when it succeeds the index it hands to the next parser is in range. -/
theorem sep_ok_lt (fen : Bytes) (s s' : St) (h : sep fen s = .ok s') : s'.ix < fen.size := by
  unfold sep at h
  obtain ⟨ix, _, h2⟩ := bind_eq_ok h
  split at h2
  · simp at h2
  · rename_i hlt
    cases h2
    simpa using hlt

/-! ### composition -/

/-- **Parsing arbitrary byte strings never crashes.** -/
theorem parseFEN_ne_panic (fen : Bytes) : parseFEN fen ≠ .panic := by
  unfold parseFEN
  refine bind_ne_panic (position_ne_panic fen _) fun s1 _ => ?_
  refine bind_ne_panic (sep_ne_panic fen _) fun s2 h2 => ?_
  refine bind_ne_panic (stm_ne_panic fen _ (sep_ok_lt fen _ _ h2)) fun s3 _ => ?_
  refine bind_ne_panic (sep_ne_panic fen _) fun s4 _ => ?_
  refine bind_ne_panic (cRights_ne_panic fen _) fun s5 _ => ?_
  refine bind_ne_panic (sep_ne_panic fen _) fun s6 h6 => ?_
  refine bind_ne_panic (enPassant_ne_panic fen _ (sep_ok_lt fen _ _ h6)) fun s7 _ => ?_
  refine bind_ne_panic (sep_ne_panic fen _) fun s8 _ => ?_
  refine bind_ne_panic (fifty_ne_panic fen _) fun s9 _ => ?_
  refine bind_ne_panic (sep_ne_panic fen _) fun s10 _ => ?_
  refine bind_ne_panic (fullMoves_ne_panic fen _) fun s11 _ => ?_
  simp

theorem fromFEN_ne_panic (K : Keys) (fen : Bytes) : fromFEN K fen ≠ .panic := by
  unfold fromFEN
  refine bind_ne_panic (parseFEN_ne_panic fen) fun b _ => ?_
  simp

/-- the guards are not redundant: without the guard of `seq` the unguarded read of `stm` panics. -/
example : stm #[56, 32] ⟨2, Board.empty⟩ = .panic := by
  simp [stm, at_]

end Fen
end ChessVerif
