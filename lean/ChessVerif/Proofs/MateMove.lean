/-
  C09 step (0), part 2: the successor position of the rule book square by square
  (`applyCore_at`), and from it the three "is the mover's king attacked after the move" lemmas:
  * `inCheck_after_move`  — a non-king man moves `s → t` (no en passant),
  * `inCheck_after_ep`    — the en-passant capture `s → t` removing the pawn on `cap`,
  * `inCheck_after_king`  — the king steps `K → t`,
  each in terms of `Chk b o x T` with the occupancy after the move.
-/
import ChessVerif.Proofs.MateRules

namespace ChessVerif.Mate
open ChessVerif Board Rules Bridge

/-- the man placed on the destination square. -/
def placed (p : Pos) (mv : Mv) : Option Man :=
  match mv.promo with | some q => some (p.turn, q) | none => p.at_ mv.src

/-- the square of the pawn removed by an en-passant capture. -/
def epCapSq (s t : Nat) : Nat := 8 * (s / 8) + t % 8

theorem epCapSq_lt (s t : Nat) (hs : s < 64) : epCapSq s t < 64 := by unfold epCapSq; omega

/-- **the successor position, square by square** (castling aside). -/
theorem applyCore_at (p : Pos) (s t : Nat) (q : Option Piece) (hs : s < 64) (hd : t < 64)
    (hc : Rules.isCastling p ⟨s, t, q⟩ = false) (u : Nat) :
    (Rules.applyCore p ⟨s, t, q⟩).at_ u =
      if u = t then placed p ⟨s, t, q⟩
      else if u = s then none
      else if Rules.isEnPassant p ⟨s, t, q⟩ = true ∧ u = epCapSq s t then none
      else p.at_ u := by
  have hcap := epCapSq_lt s t hs
  unfold Rules.applyCore Pos.at_
  simp only [hc, Bool.false_eq_true, if_false]
  rw [getD_setMan _ _ _ _ hd]
  by_cases h1 : u = t
  · simp only [h1, if_true]; rfl
  · simp only [h1, if_false]
    rw [getD_setMan _ _ _ _ hs]
    by_cases h2 : u = s
    · simp only [h2, if_true]
    · simp only [h2, if_false]
      by_cases he : Rules.isEnPassant p ⟨s, t, q⟩ = true
      · simp only [he, if_true, true_and]
        rw [show 8 * (s / 8) + t % 8 = epCapSq s t from rfl, getD_setMan _ _ _ _ hcap]
      · simp only [he, Bool.false_eq_true, if_false, false_and]

theorem applyCore_at_plain (p : Pos) (s t : Nat) (q : Option Piece) (hs : s < 64) (hd : t < 64)
    (hc : Rules.isCastling p ⟨s, t, q⟩ = false) (he : Rules.isEnPassant p ⟨s, t, q⟩ = false)
    (m : Option Man) (hm : placed p ⟨s, t, q⟩ = m) (u : Nat) :
    (Rules.applyCore p ⟨s, t, q⟩).at_ u = if u = t then m else if u = s then none else p.at_ u := by
  rw [applyCore_at p s t q hs hd hc u, he, hm]
  simp only [Bool.false_eq_true, false_and, if_false]

theorem applyCore_at_ep (p : Pos) (s t : Nat) (q : Option Piece) (hs : s < 64) (hd : t < 64)
    (hc : Rules.isCastling p ⟨s, t, q⟩ = false) (he : Rules.isEnPassant p ⟨s, t, q⟩ = true)
    (m : Option Man) (hm : placed p ⟨s, t, q⟩ = m) (u : Nat) :
    (Rules.applyCore p ⟨s, t, q⟩).at_ u =
      if u = t then m else if u = s then none else if u = epCapSq s t then none else p.at_ u := by
  rw [applyCore_at p s t q hs hd hc u, he, hm]
  simp only [true_and]

theorem applyCore_turn (p : Pos) (mv : Mv) : (Rules.applyCore p mv).turn = p.turn.flip := rfl

/-- the kind of the man that arrives on the destination square. -/
def placedKind (q : Option Piece) (k : Piece) : Piece :=
  match q with | some x => x | none => k

theorem placedKind_ne_king (q : Option Piece) (k : Piece) (hk : k ≠ .king) (hq : q ≠ some .king) :
    placedKind q k ≠ Piece.king := by
  unfold placedKind
  cases q with
  | none => exact hk
  | some x => intro e; have e' : x = Piece.king := e; exact hq (by rw [e'])

section after
variable {b : Board} {K : Nat}

theorem not_castling_of_not_king (cx : Ctx b K) (s t : Nat) (q : Option Piece)
    (hnk : b.pieceAt s ≠ .king) : Rules.isCastling (abs b) ⟨s, t, q⟩ = false := by
  unfold Rules.isCastling
  have : (abs b).has s (abs b).turn .king = false := by
    cases h : (abs b).has s (abs b).turn .king
    · rfl
    · rw [abs_turn, abs_has cx.wf] at h
      exact absurd h.2 hnk
  simp only [this, Bool.false_and]

/-- the man on the origin square of an own move. -/
theorem at_src (cx : Ctx b K) (s : Nat) (hown : (b.colorBB b.stm).getLsbD s = true) :
    (abs b).at_ s = some (b.stm, b.pieceAt s) := abs_at_of_color cx.wf s b.stm hown

theorem placed_eq (cx : Ctx b K) (s t : Nat) (q : Option Piece)
    (hown : (b.colorBB b.stm).getLsbD s = true) :
    placed (abs b) ⟨s, t, q⟩ = some (b.stm, placedKind q (b.pieceAt s)) := by
  unfold placed placedKind
  cases q with
  | none => simp only []; exact at_src cx s hown
  | some x => simp only [abs_turn]

theorem own_not_opp (cx : Ctx b K) (s : Nat) (hown : (b.colorBB b.stm).getLsbD s = true) :
    (b.colorBB b.stm.flip).getLsbD s = false := cx.wf.color_flip_false s b.stm hown

theorem opp_not_own (cx : Ctx b K) (s : Nat) (hopp : (b.colorBB b.stm.flip).getLsbD s = true) :
    (b.colorBB b.stm).getLsbD s = false := by
  have := cx.wf.color_flip_false s b.stm.flip hopp
  rwa [Color.flip_flip] at this

theorem occ_of_own (s : Nat) (hown : (b.colorBB b.stm).getLsbD s = true) : b.occ.getLsbD s = true := by
  rw [colorBB_flip_occ b b.stm, hown]; rfl

theorem occ_of_opp (s : Nat) (hopp : (b.colorBB b.stm.flip).getLsbD s = true) : b.occ.getLsbD s = true := by
  rw [colorBB_flip_occ b b.stm, hopp]; simp

theorem flip_ne_self (c : Color) : c.flip ≠ c := Color.flip_ne c

/-- **after a non-king, non-en-passant move `s → t`** the mover's king is attacked iff some enemy man
    other than the one captured on `t` attacks `K` with `s` vacated and `t` occupied. -/
theorem inCheck_after_move (cx : Ctx b K) (s t : Nat) (q : Option Piece) (hs : s < 64) (ht : t < 64)
    (hown : (b.colorBB b.stm).getLsbD s = true) (hnk : b.pieceAt s ≠ .king)
    (hto : (b.colorBB b.stm).getLsbD t = false) (hq : q ≠ some .king)
    (hep : Rules.isEnPassant (abs b) ⟨s, t, q⟩ = false) :
    Rules.inCheck (Rules.applyCore (abs b) ⟨s, t, q⟩) b.stm = true ↔
      Chk b ((b.occ &&& ~~~ bit s) ||| bit t) (bit t) K := by
  have hst : s ≠ t := by intro e; subst e; rw [hown] at hto; exact Bool.noConfusion hto
  have hat := applyCore_at_plain (abs b) s t q hs ht (not_castling_of_not_king cx s t q hnk) hep _
    (placed_eq cx s t q hown)
  have hpk := placedKind_ne_king q (b.pieceAt s) hnk hq
  have hsK : s ≠ K := by intro e; subst e; exact hnk cx.king_piece
  have htK : t ≠ K := by intro e; subst e; rw [cx.king_own] at hto; exact Bool.noConfusion hto
  refine inCheck_of_diff cx.wf _ _ _ K cx.hK ?_ ?_ ?_
  · intro u hu
    unfold Pos.has
    rw [hat u]
    by_cases h1 : u = t
    · simp only [h1, if_true, beq_iff_eq, Option.some.injEq, Prod.mk.injEq, true_and]
      exact ⟨fun e => absurd e hpk, fun e => absurd e htK⟩
    · by_cases h2 : u = s
      · rw [if_neg h1, if_pos h2]; simp only [beq_iff_eq, reduceCtorEq, false_iff]; rw [h2]; exact hsK
      · simp only [h1, h2, if_false]
        exact cx.has_king_iff u hu
  · intro u hu
    unfold Pos.empty
    rw [hat u, getLsbD_or_bit _ _ _ ht, getLsbD_andNot_bit _ _ _ hs]
    by_cases h1 : u = t
    · simp [h1]
    · have h1' : ¬ t = u := fun e => h1 e.symm
      by_cases h2 : u = s
      · rw [if_neg h1, if_pos h2]; subst h2; simp [h1']
      · have h2' : ¬ s = u := fun e => h2 e.symm
        simp only [h1, h1', h2, h2', if_false, decide_false, Bool.not_false, Bool.and_true, Bool.or_false]
        exact emptyIs_abs b u hu
  · intro a ha k
    rw [hat a, bit_getLsbD t a ht]
    by_cases h1 : a = t
    · simp only [h1, if_true, Option.some.injEq, Prod.mk.injEq, decide_true, Bool.true_eq_false, and_false,
        iff_false, not_and]
      intro e; exact absurd e.symm (flip_ne_self _)
    · have h1' : ¬ t = a := fun e => h1 e.symm
      by_cases h2 : a = s
      · rw [if_neg h1, if_pos h2]
        simp only [reduceCtorEq, false_iff, not_and]
        intro e; rw [h2, own_not_opp cx s hown] at e; exact Bool.noConfusion e
      · simp only [h1, h1', h2, if_false, decide_false, and_true]
        exact abs_at_eq_some cx.wf a _ k

/-- **after the en-passant capture `s → t`** (removing the pawn on `cap`). -/
theorem inCheck_after_ep (cx : Ctx b K) (s t : Nat) (q : Option Piece) (hs : s < 64) (ht : t < 64)
    (hown : (b.colorBB b.stm).getLsbD s = true) (hq : q ≠ some .king)
    (hep : Rules.isEnPassant (abs b) ⟨s, t, q⟩ = true)
    (hcap : (b.colorBB b.stm.flip).getLsbD (epCapSq s t) = true) :
    Rules.inCheck (Rules.applyCore (abs b) ⟨s, t, q⟩) b.stm = true ↔
      Chk b (((b.occ &&& ~~~ bit s) &&& ~~~ bit (epCapSq s t)) ||| bit t) (bit (epCapSq s t)) K := by
  have hcl := epCapSq_lt s t hs
  have hep' := hep
  unfold Rules.isEnPassant at hep'
  simp only [Bool.and_eq_true, abs_turn, abs_has cx.wf, decide_eq_true_eq] at hep'
  obtain ⟨⟨⟨⟨_, hpawn⟩, _⟩, _⟩, hempty⟩ := hep'
  rw [abs_empty_iff'] at hempty
  have hnk : b.pieceAt s ≠ .king := by rw [hpawn]; decide
  have hto : (b.colorBB b.stm).getLsbD t = false := by
    cases h : (b.colorBB b.stm).getLsbD t
    · rfl
    · rw [occ_of_own t h] at hempty; exact Bool.noConfusion hempty
  have hopt : (b.colorBB b.stm.flip).getLsbD t = false := by
    cases h : (b.colorBB b.stm.flip).getLsbD t
    · rfl
    · rw [occ_of_opp t h] at hempty; exact Bool.noConfusion hempty
  have hst : s ≠ t := by intro e; subst e; rw [hown] at hto; exact Bool.noConfusion hto
  have hat := applyCore_at_ep (abs b) s t q hs ht (not_castling_of_not_king cx s t q hnk) hep _
    (placed_eq cx s t q hown)
  have hpk := placedKind_ne_king q (b.pieceAt s) hnk hq
  have hsK : s ≠ K := by intro e; subst e; exact hnk cx.king_piece
  have htK : t ≠ K := by intro e; subst e; rw [cx.king_own] at hto; exact Bool.noConfusion hto
  have hcK : epCapSq s t ≠ K := by
    intro e; rw [e] at hcap; rw [own_not_opp cx K cx.king_own] at hcap; exact Bool.noConfusion hcap
  have hcs : epCapSq s t ≠ s := by
    intro e; rw [e] at hcap; rw [own_not_opp cx s hown] at hcap; exact Bool.noConfusion hcap
  refine inCheck_of_diff cx.wf _ _ _ K cx.hK ?_ ?_ ?_
  · intro u hu
    unfold Pos.has
    rw [hat u]
    by_cases h1 : u = t
    · simp only [h1, if_true, beq_iff_eq, Option.some.injEq, Prod.mk.injEq, true_and]
      exact ⟨fun e => absurd e hpk, fun e => absurd e htK⟩
    · by_cases h2 : u = s
      · rw [if_neg h1, if_pos h2]; simp only [beq_iff_eq, reduceCtorEq, false_iff]; rw [h2]; exact hsK
      · by_cases h3 : u = epCapSq s t
        · rw [if_neg h1, if_neg h2, if_pos h3]; simp only [beq_iff_eq, reduceCtorEq, false_iff]
          rw [h3]; exact hcK
        · simp only [h1, h2, h3, if_false]
          exact cx.has_king_iff u hu
  · intro u hu
    unfold Pos.empty
    rw [hat u, getLsbD_or_bit _ _ _ ht, getLsbD_andNot_bit _ _ _ hcl, getLsbD_andNot_bit _ _ _ hs]
    by_cases h1 : u = t
    · simp [h1]
    · have h1' : ¬ t = u := fun e => h1 e.symm
      by_cases h2 : u = s
      · rw [if_neg h1, if_pos h2]; subst h2; simp [h1']
      · have h2' : ¬ s = u := fun e => h2 e.symm
        by_cases h3 : u = epCapSq s t
        · rw [if_neg h1, if_neg h2, if_pos h3]; subst h3; simp [h1']
        · have h3' : ¬ epCapSq s t = u := fun e => h3 e.symm
          simp only [h1, h1', h2, h2', h3, h3', if_false, decide_false, Bool.not_false, Bool.and_true,
            Bool.or_false]
          exact emptyIs_abs b u hu
  · intro a ha k
    rw [hat a, bit_getLsbD _ a hcl]
    by_cases h1 : a = t
    · simp only [h1, if_true, Option.some.injEq, Prod.mk.injEq]
      constructor
      · intro e; exact absurd e.1.symm (flip_ne_self _)
      · intro e; rw [hopt] at e; exact Bool.noConfusion e.1
    · by_cases h2 : a = s
      · rw [if_neg h1, if_pos h2]
        simp only [reduceCtorEq, false_iff, not_and]
        intro e; rw [h2, own_not_opp cx s hown] at e; exact Bool.noConfusion e
      · by_cases h3 : a = epCapSq s t
        · rw [if_neg h1, if_neg h2, if_pos h3]; simp [h3]
        · have h3' : ¬ epCapSq s t = a := fun e => h3 e.symm
          simp only [h1, h2, h3, h3', if_false, decide_false, and_true]
          exact abs_at_eq_some cx.wf a _ k

/-- **after the king step `K → t`.** -/
theorem inCheck_after_king (cx : Ctx b K) (t : Nat) (ht : t < 64)
    (hto : (b.colorBB b.stm).getLsbD t = false)
    (hgeo : (Rules.file t - Rules.file K).natAbs ≠ 2) :
    Rules.inCheck (Rules.applyCore (abs b) ⟨K, t, none⟩) b.stm = true ↔
      Chk b ((b.occ &&& ~~~ bit K) ||| bit t) (bit t) t := by
  have hs := cx.hK
  have hown := cx.king_own
  have hKt : K ≠ t := by intro e; rw [← e, hown] at hto; exact Bool.noConfusion hto
  have hcast : Rules.isCastling (abs b) ⟨K, t, none⟩ = false := by
    unfold Rules.isCastling
    have : ((Rules.file t - Rules.file K).natAbs == 2) = false := by
      rw [beq_eq_false_iff_ne]; exact hgeo
    simp only [this, Bool.and_false]
  have hep : Rules.isEnPassant (abs b) ⟨K, t, none⟩ = false := by
    unfold Rules.isEnPassant
    have : (abs b).has K (abs b).turn .pawn = false := by
      cases h : (abs b).has K (abs b).turn .pawn
      · rfl
      · rw [abs_turn, abs_has cx.wf, cx.king_piece] at h
        exact absurd h.2 (by decide)
    simp only [this, Bool.false_and]
  have hpl : placed (abs b) ⟨K, t, none⟩ = some (b.stm, Piece.king) := by
    rw [placed_eq cx K t none hown, cx.king_piece]; rfl
  have hat := applyCore_at_plain (abs b) K t none hs ht hcast hep _ hpl
  refine inCheck_of_diff cx.wf _ _ _ t ht ?_ ?_ ?_
  · intro u hu
    unfold Pos.has
    rw [hat u]
    by_cases h1 : u = t
    · simp [h1]
    · by_cases h2 : u = K
      · rw [if_neg h1, if_pos h2]; simp only [beq_iff_eq, reduceCtorEq, false_iff]; rw [h2]; exact hKt
      · simp only [h1, h2, if_false, iff_false]
        have := cx.has_king_iff u hu
        unfold Pos.has at this
        rw [this]; exact h2
  · intro u hu
    unfold Pos.empty
    rw [hat u, getLsbD_or_bit _ _ _ ht, getLsbD_andNot_bit _ _ _ hs]
    by_cases h1 : u = t
    · simp [h1]
    · have h1' : ¬ t = u := fun e => h1 e.symm
      by_cases h2 : u = K
      · rw [if_neg h1, if_pos h2]; subst h2; simp [h1']
      · have h2' : ¬ K = u := fun e => h2 e.symm
        simp only [h1, h1', h2, h2', if_false, decide_false, Bool.not_false, Bool.and_true, Bool.or_false]
        exact emptyIs_abs b u hu
  · intro a ha k
    rw [hat a, bit_getLsbD t a ht]
    by_cases h1 : a = t
    · simp only [h1, if_true, Option.some.injEq, Prod.mk.injEq, decide_true, Bool.true_eq_false, and_false,
        iff_false, not_and]
      intro e; exact absurd e.symm (flip_ne_self _)
    · have h1' : ¬ t = a := fun e => h1 e.symm
      by_cases h2 : a = K
      · rw [if_neg h1, if_pos h2]
        simp only [reduceCtorEq, false_iff, not_and]
        intro e; rw [h2, own_not_opp cx K hown] at e; exact Bool.noConfusion e
      · simp only [h1, h1', h2, if_false, decide_false, and_true]
        exact abs_at_eq_some cx.wf a _ k

end after

end ChessVerif.Mate
