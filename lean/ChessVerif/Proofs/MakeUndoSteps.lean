/-
  C03/C04 core: the placement part of `makeMove` followed through the abstract placement.

  `MakeOK b m` collects the local facts `MakeMove`/`UndoMove` rely on.  Under `Rep b f` and
  `MakeOK b m` every one of the (at most five) placement operations of `makeMove` is "legal"
  (removes a man that is there / adds a man on an empty square), so the result represents the updated
  placement `cfg5`; `undoMove` retraces the same chain backwards.
-/
import ChessVerif.Proofs.MakeUndoForm
import ChessVerif.Proofs.Token

namespace ChessVerif.Board

@[board_form] theorem rep_setFM (b : Board) (f : Cfg) (x) : Rep (setFM b x) f ↔ Rep b f :=
  ⟨Rep.congr_board rfl rfl rfl, Rep.congr_board rfl rfl rfl⟩
@[board_form] theorem rep_setFC (b : Board) (f : Cfg) (x y) : Rep (setFC b x y) f ↔ Rep b f :=
  ⟨Rep.congr_board rfl rfl rfl, Rep.congr_board rfl rfl rfl⟩
@[board_form] theorem rep_setEp (b : Board) (f : Cfg) (x) : Rep (setEp b x) f ↔ Rep b f :=
  ⟨Rep.congr_board rfl rfl rfl, Rep.congr_board rfl rfl rfl⟩
@[board_form] theorem rep_setStm (b : Board) (f : Cfg) (x) : Rep (setStm b x) f ↔ Rep b f :=
  ⟨Rep.congr_board rfl rfl rfl, Rep.congr_board rfl rfl rfl⟩
@[board_form] theorem rep_setHashes (b : Board) (f : Cfg) (x) : Rep (setHashes b x) f ↔ Rep b f :=
  ⟨Rep.congr_board rfl rfl rfl, Rep.congr_board rfl rfl rfl⟩
@[board_form] theorem rep_setCastles (b : Board) (f : Cfg) (x) : Rep (setCastles b x) f ↔ Rep b f :=
  ⟨Rep.congr_board rfl rfl rfl, Rep.congr_board rfl rfl rfl⟩
@[board_form] theorem rep_setFifty (b : Board) (f : Cfg) (x) : Rep (setFifty b x) f ↔ Rep b f :=
  ⟨Rep.congr_board rfl rfl rfl, Rep.congr_board rfl rfl rfl⟩

/-! ### the hypotheses of make/undo -/

/-- The local facts `MakeMove` / `UndoMove` rely on (all implied by pseudo-legality in a valid
    position, see `isPseudoLegal_makeOK`):
    own man on the origin, no own man on the destination, the capture square (destination, or for en
    passant the square beside the origin) holds an enemy man or nothing, an en-passant destination is
    empty, for the four king moves the code treats as castling (`hop`) the own rook is on its corner
    and the rook's and king's landing squares are empty, a promotion is made by a pawn to N/B/R/Q, and
    the two values stored in narrow token fields fit (6-bit en-passant square, int8 clock). -/
structure MakeOK (b : Board) (m : Move) : Prop where
  own_src : (b.colorBB b.stm).getLsbD (Move.src m) = true
  not_own_dst : (b.colorBB b.stm).getLsbD (Move.dst m) = false
  cap_enemy : b.pieceAt (b.captureSq m) ≠ Piece.none → (b.colorBB b.stm.flip).getLsbD (b.captureSq m) = true
  ep_dst_empty : b.isEnPassant m = true → b.pieceAt (Move.dst m) = Piece.none
  castle : ∀ rf rt, hop (b.pieceAt (Move.src m)) m = some (rf, rt) →
      b.pieceAt rf = Piece.rook ∧ (b.colorBB b.stm).getLsbD rf = true ∧ b.pieceAt rt = Piece.none ∧
      b.pieceAt (Move.dst m) = Piece.none
  promo : Move.promo m ≠ 0 → b.pieceAt (Move.src m) = Piece.pawn ∧ 2 ≤ Move.promo m ∧ Move.promo m ≤ 5
  ep_lt : b.ep < 64
  fifty_lo : -128 ≤ b.fifty
  fifty_hi : b.fifty ≤ 127

theorem src_lt (m : Move) : Move.src m < 64 := Nat.mod_lt _ (by decide)
theorem dst_lt (m : Move) : Move.dst m < 64 := Nat.mod_lt _ (by decide)

theorem captureSq_lt (b : Board) (m : Move) : b.captureSq m < 64 := by
  have := src_lt m; have := dst_lt m
  unfold captureSq; split <;> omega

theorem hop_some {p : Piece} {m : Move} {rf rt : Nat} (h : hop p m = some (rf, rt)) :
    p = Piece.king ∧ ((Move.src m = 4 ∧ Move.dst m = 6 ∧ rf = 7 ∧ rt = 5) ∨ (Move.src m = 4 ∧ Move.dst m = 2 ∧ rf = 0 ∧ rt = 3) ∨
      (Move.src m = 60 ∧ Move.dst m = 62 ∧ rf = 63 ∧ rt = 61) ∨ (Move.src m = 60 ∧ Move.dst m = 58 ∧ rf = 56 ∧ rt = 59)) := by
  unfold hop at h
  split at h
  · rename_i hk
    refine ⟨hk, ?_⟩
    split at h
    · simp at h; omega
    · split at h
      · simp at h; omega
      · split at h
        · simp at h; omega
        · split at h
          · simp at h; omega
          · simp at h
  · simp at h

/-! ### abstract placements along the chain -/

/-- a man of colour `c` and kind `p` (nothing for "no piece"). -/
def man (c : Color) (p : Piece) : Option (Color × Piece) := if p = Piece.none then none else some (c, p)

theorem man_of_ne {c : Color} {p : Piece} (h : p ≠ Piece.none) : man c p = some (c, p) := by simp [man, h]
@[simp] theorem man_none (c : Color) : man c Piece.none = none := by simp [man]

theorem upd_undo_add (g : Cfg) (s : Nat) (v) (h : g s = none) : upd (upd g s v) s none = g := by
  funext t; unfold upd; by_cases e : t = s <;> simp [e, h]
theorem upd_undo_rem (g : Cfg) (s : Nat) (v) (h : g s = v) : upd (upd g s none) s v = g := by
  funext t; unfold upd; by_cases e : t = s <;> simp [e, h]

theorem Rep.none_iff {b : Board} {f : Cfg} (h : Rep b f) {s : Nat} (hs : s < 64) :
    f s = none ↔ b.pieceAt s = Piece.none := by
  rw [h.sq s hs]; unfold Cfg.kind
  cases hf : f s with
  | none => simp
  | some cp => obtain ⟨c, p⟩ := cp; simp; intro e; subst e; exact h.real s c hf

theorem Rep.own {b : Board} {f : Cfg} (h : Rep b f) {s : Nat} (hs : s < 64) {c : Color}
    (hc : (b.colorBB c).getLsbD s = true) : f s = some (c, b.pieceAt s) := by
  obtain ⟨p, hp⟩ := (h.col c s hs).1 hc
  rw [h.sq s hs]; simp [Cfg.kind, hp]

theorem Rep.man_at {b : Board} {f : Cfg} (h : Rep b f) {s : Nat} (hs : s < 64) {c : Color}
    (hc : b.pieceAt s ≠ Piece.none → (b.colorBB c).getLsbD s = true) : f s = man c (b.pieceAt s) := by
  by_cases e : b.pieceAt s = Piece.none
  · rw [e, man_none]; exact (h.none_iff hs).2 e
  · rw [man_of_ne e]; exact h.own hs (hc e)

/-- removing what is there (or "no piece" from an empty square). -/
theorem rep_remove' (K : Keys) {b : Board} {f : Cfg} (h : Rep b f) {s : Nat} (hs : s < 64) {c : Color} {p : Piece}
    (hf : f s = man c p) : Rep (removePiece K b c p s).1 (upd f s none) := by
  by_cases e : p = Piece.none
  · subst e
    rw [removePiece_none]
    rw [man_none] at hf
    exact h.congr_cfg (fun t => by unfold upd; by_cases e : t = s <;> simp [e, hf])
  · rw [man_of_ne e] at hf
    exact rep_remove K h hs hf

/-- adding a man on an empty square (or "no piece"). -/
theorem rep_add' (K : Keys) {b : Board} {f : Cfg} (h : Rep b f) {s : Nat} (hs : s < 64) (c : Color) (p : Piece)
    (hf : f s = none) : Rep (addPiece K b c p s).1 (upd f s (man c p)) := by
  by_cases e : p = Piece.none
  · subst e
    rw [addPiece_none, man_none]
    exact h.congr_cfg (fun t => by unfold upd; by_cases e : t = s <;> simp [e, hf])
  · rw [man_of_ne e]
    exact rep_add K h hs c e hf

/-- the rook's hop on the abstract placement. -/
def hopCfg (g : Cfg) (c : Color) : Option (Nat × Nat) → Cfg
  | none => g
  | some (rf, rt) => upd (upd g rf none) rt (man c Piece.rook)

section chain
variable (f : Cfg) (b : Board) (m : Move)

def cfg1 : Cfg := upd f (b.captureSq m) none
def cfg2 : Cfg := upd (cfg1 f b m) (Move.src m) none
def cfg3 : Cfg := upd (cfg2 f b m) (Move.dst m) (man b.stm (mvPut b m))
def cfg5 : Cfg := hopCfg (cfg3 f b m) b.stm (hop (b.pieceAt (Move.src m)) m)

/-- every placement operation of `makeMove` meets its precondition. -/
structure Chain : Prop where
  piece_ne : b.pieceAt (Move.src m) ≠ Piece.none
  put_ne : mvPut b m ≠ Piece.none
  put_eq : Move.promo m = 0 → mvPut b m = b.pieceAt (Move.src m)
  promo_pawn : Move.promo m ≠ 0 → b.pieceAt (Move.src m) = Piece.pawn
  f1 : f (b.captureSq m) = man b.stm.flip (b.pieceAt (b.captureSq m))
  f2 : cfg1 f b m (Move.src m) = man b.stm (b.pieceAt (Move.src m))
  f3 : cfg2 f b m (Move.dst m) = none
  f4 : ∀ rf rt, hop (b.pieceAt (Move.src m)) m = some (rf, rt) →
        rf < 64 ∧ rt < 64 ∧ cfg3 f b m rf = man b.stm Piece.rook ∧ upd (cfg3 f b m) rf none rt = none ∧
        Move.dst m ≠ rf ∧ Move.dst m ≠ rt ∧ Move.src m ≠ rf ∧ Move.src m ≠ rt ∧ rf ≠ rt
  cap_ne_src : b.captureSq m ≠ Move.src m
  dst_ne_src : Move.dst m ≠ Move.src m

end chain

theorem chain_of (f : Cfg) (b : Board) (m : Move) (hr : Rep b f) (ok : MakeOK b m) : Chain f b m := by
  have hs := src_lt m
  have hd := dst_lt m
  have hc := captureSq_lt b m
  have hsrc : f (Move.src m) = some (b.stm, b.pieceAt (Move.src m)) := hr.own hs ok.own_src
  have piece_ne : b.pieceAt (Move.src m) ≠ Piece.none := by
    intro e; rw [e] at hsrc; exact hr.real _ _ hsrc
  have f1 : f (b.captureSq m) = man b.stm.flip (b.pieceAt (b.captureSq m)) := hr.man_at hc ok.cap_enemy
  have cap_ne_src : b.captureSq m ≠ Move.src m := by
    intro e
    rw [e] at f1
    rw [hsrc, man_of_ne piece_ne] at f1
    simp at f1
    exact Color.flip_ne' _ f1
  have dst_ne_src : Move.dst m ≠ Move.src m := by
    intro e
    have := ok.not_own_dst; rw [e, ok.own_src] at this; simp at this
  have put_ne : mvPut b m ≠ Piece.none := by
    unfold mvPut
    split
    · rename_i hp
      obtain ⟨_, h2, h5⟩ := ok.promo hp
      have : Move.promo m = 2 ∨ Move.promo m = 3 ∨ Move.promo m = 4 ∨ Move.promo m = 5 := by omega
      rcases this with h | h | h | h <;> rw [h] <;> decide
    · exact piece_ne
  have dst_empty_of_ne : Move.dst m ≠ b.captureSq m → f (Move.dst m) = none := by
    intro hne
    have : b.isEnPassant m = true := by
      cases hep : b.isEnPassant m
      · exfalso; apply hne; unfold captureSq; simp [hep]
      · rfl
    exact (hr.none_iff hd).2 (ok.ep_dst_empty this)
  refine ⟨piece_ne, put_ne, ?_, fun hp => (ok.promo hp).1, f1, ?_, ?_, ?_, cap_ne_src, dst_ne_src⟩
  · intro h; unfold mvPut; simp [h]
  · unfold cfg1
    rw [upd_other _ _ _ _ (Ne.symm cap_ne_src), hsrc, man_of_ne piece_ne]
  · unfold cfg2 cfg1
    rw [upd_other _ _ _ _ dst_ne_src]
    by_cases e : Move.dst m = b.captureSq m
    · rw [e]; simp
    · rw [upd_other _ _ _ _ e]; exact dst_empty_of_ne e
  · intro rf rt hh
    obtain ⟨hk, hcase⟩ := hop_some hh
    obtain ⟨h1, h2, h3, h4⟩ := ok.castle rf rt hh
    have nep : b.isEnPassant m = false := by
      unfold isEnPassant; rw [hk]; simp
    have hcs : b.captureSq m = Move.dst m := by unfold captureSq; simp [nep]
    have hrf : rf < 64 := by omega
    have hrt : rt < 64 := by omega
    have e1 : Move.dst m ≠ rf := by omega
    have e2 : Move.dst m ≠ rt := by omega
    have e3 : Move.src m ≠ rf := by omega
    have e4 : Move.src m ≠ rt := by omega
    have e5 : rf ≠ rt := by omega
    refine ⟨hrf, hrt, ?_, ?_, e1, e2, e3, e4, e5⟩
    · unfold cfg3 cfg2 cfg1
      rw [upd_other _ _ _ _ (Ne.symm e1), upd_other _ _ _ _ (Ne.symm e3), hcs, upd_other _ _ _ _ (Ne.symm e1)]
      rw [hr.own hrf h2, h1, man_of_ne (by decide)]
    · unfold cfg3 cfg2 cfg1
      rw [upd_other _ _ _ _ (Ne.symm e5), upd_other _ _ _ _ (Ne.symm e2), upd_other _ _ _ _ (Ne.symm e4), hcs,
        upd_other _ _ _ _ (Ne.symm e2)]
      exact (hr.none_iff hrt).2 h3

/-! ### the placement chain of `makeMove` and its reversal -/

theorem rep_doHop (K : Keys) {b : Board} {g : Cfg} {c : Color} {h : Option (Nat × Nat)} (hr : Rep b g)
    (cond : ∀ rf rt, h = some (rf, rt) → rf < 64 ∧ rt < 64 ∧ g rf = man c Piece.rook ∧ upd g rf none rt = none) :
    Rep (doHop K b c h) (hopCfg g c h) := by
  cases h with
  | none => exact hr
  | some v =>
    obtain ⟨rf, rt⟩ := v
    obtain ⟨h1, h2, h3, h4⟩ := cond rf rt rfl
    exact rep_add' K (rep_remove' K hr h1 h3) h2 c Piece.rook h4

theorem rep_undoHop {b : Board} {g : Cfg} {c : Color} {h : Option (Nat × Nat)} (hr : Rep b (hopCfg g c h))
    (cond : ∀ rf rt, h = some (rf, rt) → rf < 64 ∧ rt < 64 ∧ g rf = man c Piece.rook ∧ upd g rf none rt = none) :
    Rep (undoHop b c h) g := by
  cases h with
  | none => exact hr
  | some v =>
    obtain ⟨rf, rt⟩ := v
    obtain ⟨h1, h2, h3, h4⟩ := cond rf rt rfl
    have r1 := rep_remove' zeroKeys hr h2 (c := c) (p := Piece.rook) (by simp [hopCfg])
    simp only [hopCfg] at r1
    rw [upd_undo_add _ _ _ h4] at r1
    have r2 := rep_add' zeroKeys r1 h1 c Piece.rook (by simp)
    rw [upd_undo_rem _ _ _ h3] at r2
    exact r2

/-- the board after the placement operations of `makeMove` represents `cfg5`. -/
theorem make_rep (K : Keys) {b : Board} {f : Cfg} (m : Move) (hr : Rep b f) (ch : Chain f b m) :
    Rep (makeW K b m).1 (cfg5 f b m) := by
  simp only [makeW, board_form]
  have r1 := rep_remove' K hr (captureSq_lt b m) ch.f1
  have r2 := rep_remove' K r1 (src_lt m) ch.f2
  have r3 := rep_add' K r2 (dst_lt m) b.stm (mvPut b m) ch.f3
  exact rep_doHop K r3 (fun rf rt hh => by
    obtain ⟨a1, a2, a3, a4, _⟩ := ch.f4 rf rt hh
    exact ⟨a1, a2, a3, a4⟩)

theorem cfg5_dst {f : Cfg} {b : Board} {m : Move} (ch : Chain f b m) :
    cfg5 f b m (Move.dst m) = man b.stm (mvPut b m) := by
  unfold cfg5
  cases hh : hop (b.pieceAt (Move.src m)) m with
  | none => simp [hopCfg, cfg3]
  | some v =>
    obtain ⟨rf, rt⟩ := v
    obtain ⟨_, _, _, _, e1, e2, _⟩ := ch.f4 rf rt hh
    simp only [hopCfg]
    rw [upd_other _ _ _ _ e2, upd_other _ _ _ _ e1]; simp [cfg3]

theorem board_ext {a b : Board} (h1 : a.sq = b.sq) (h2 : a.pieces = b.pieces) (h3 : a.colors = b.colors)
    (h4 : a.hashes = b.hashes) (h5 : a.fullMoves = b.fullMoves) (h6 : a.stm = b.stm) (h7 : a.ep = b.ep)
    (h8 : a.castles = b.castles) (h9 : a.fifty = b.fifty) : a = b := by
  cases a; cases b; simp_all

/-- `undoW` retraces the chain: from any board that represents `cfg5` and carries the right scalars
    (with a token that reads back the stored values) we get the original board back. -/
theorem undo_of_facts {b B' : Board} {f : Cfg} {m : Move} {r : Reverse} (hr : Rep b f) (ch : Chain f b m)
    (hB : Rep B' (cfg5 f b m)) (hstm : B'.stm = b.stm.flip) (hep : B'.ep ^^^ r.enPassantChange = b.ep)
    (hcs : B'.castles ^^^ r.castlingChange = b.castles) (hfifty : r.fiftyCnt = b.fifty)
    (hfm : B'.fullMoves - b.stm.toNat = b.fullMoves) (hh : B'.hashes.tail = b.hashes)
    (hcap : r.capture = b.pieceAt (b.captureSq m)) : undoW B' m r = b := by
  have hrm : B'.pieceAt (Move.dst m) = mvPut b m := by
    rw [hB.sq _ (dst_lt m)]; simp [Cfg.kind, cfg5_dst ch, man_of_ne ch.put_ne]
  have hpiece : (if Move.promo m ≠ 0 then Piece.pawn else mvPut b m) = b.pieceAt (Move.src m) := by
    by_cases hp : Move.promo m = 0
    · simp [hp, ch.put_eq hp]
    · simp only [ne_eq, hp, not_false_eq_true, if_true]
      exact (ch.promo_pawn hp).symm
  have hc : B'.stm.flip = b.stm := by rw [hstm, Color.flip_flip]
  -- the chain, backwards
  have u1 : Rep (undoHop B' b.stm (hop (b.pieceAt (Move.src m)) m)) (cfg3 f b m) :=
    rep_undoHop hB (fun rf rt hh => by
      obtain ⟨a1, a2, a3, a4, _⟩ := ch.f4 rf rt hh
      exact ⟨a1, a2, a3, a4⟩)
  have u2 := rep_remove' zeroKeys u1 (dst_lt m) (c := b.stm) (p := mvPut b m) (by simp [cfg3])
  have e2 : upd (cfg3 f b m) (Move.dst m) none = cfg2 f b m := by
    unfold cfg3; exact upd_undo_add _ _ _ ch.f3
  rw [e2] at u2
  have u3 := rep_add' zeroKeys u2 (src_lt m) b.stm (b.pieceAt (Move.src m)) (by simp [cfg2])
  have e3 : upd (cfg2 f b m) (Move.src m) (man b.stm (b.pieceAt (Move.src m))) = cfg1 f b m := by
    unfold cfg2; exact upd_undo_rem _ _ _ ch.f2
  rw [e3] at u3
  have hp3 := u3.sq _ (src_lt m)
  rw [show (cfg1 f b m).kind (Move.src m) = b.pieceAt (Move.src m) by
    simp [Cfg.kind, ch.f2, man_of_ne ch.piece_ne]] at hp3
  have u4 := rep_add' zeroKeys u3 (captureSq_lt b m) b.stm.flip (b.pieceAt (b.captureSq m)) (by simp [cfg1])
  have e4 : upd (cfg1 f b m) (b.captureSq m) (man b.stm.flip (b.pieceAt (b.captureSq m))) = f := by
    unfold cfg1; exact upd_undo_rem _ _ _ ch.f1
  rw [e4] at u4
  obtain ⟨q1, q2, q3⟩ := rep_unique u4 hr
  have key : undoW B' m r = setFM (setFifty (setCastles (setEp (setStm (setHashes
      (addPiece zeroKeys (addPiece zeroKeys (removePiece zeroKeys (undoHop B' b.stm (hop (b.pieceAt (Move.src m)) m))
        b.stm (mvPut b m) (Move.dst m)).1 b.stm (b.pieceAt (Move.src m)) (Move.src m)).1 b.stm.flip
        (b.pieceAt (b.captureSq m)) (b.captureSq m)).1
      b.hashes) b.stm) b.ep) b.castles) b.fifty) b.fullMoves := by
    simp only [undoW, hrm, hpiece, hc, hep, hp3, ← captureSq_eq, hcap, hcs, hfifty, hfm, hh]
  rw [key]
  apply board_ext <;> simp only [board_form, q1, q2, q3]

/-! ### scalars and token of `makeMove` -/

theorem mvNewEP_lt (b : Board) (m : Move) : mvNewEP b m < 64 := by
  have := src_lt m; have := dst_lt m
  have key : ∀ (c : Bool) (x : Nat), x < 64 → (if c then x else 0) < 64 := by
    intro c x hx; split <;> omega
  exact key _ _ (by omega)

theorem make_hashes (K : Keys) (b : Board) (m : Move) : (makeW K b m).1.hashes = mvHash K b m :: b.hashes := rfl

theorem make_stm (K : Keys) (b : Board) (m : Move) : (makeW K b m).1.stm = b.stm.flip := rfl
theorem make_ep (K : Keys) (b : Board) (m : Move) : (makeW K b m).1.ep = mvNewEP b m := rfl
theorem make_castles (K : Keys) (b : Board) (m : Move) :
    (makeW K b m).1.castles = b.castles ^^^ (b.castles ^^^ b.newCastles m) := rfl
theorem make_fullMoves (K : Keys) (b : Board) (m : Move) :
    (makeW K b m).1.fullMoves = b.fullMoves + b.stm.toNat := rfl
theorem make_hashes_tail (K : Keys) (b : Board) (m : Move) : (makeW K b m).1.hashes.tail = b.hashes := rfl
theorem make_token (K : Keys) (b : Board) (m : Move) :
    (makeW K b m).2 = (((Reverse.setFiftyCnt 0 b.fifty).setCastlingChange (b.castles ^^^ b.newCastles m)).setCapture
      (b.pieceAt (b.captureSq m))).setEnPassantChange (b.ep ^^^ mvNewEP b m) := rfl

theorem make_castles' (K : Keys) (b : Board) (m : Move) : (makeW K b m).1.castles = b.newCastles m := by
  rw [make_castles, ← BitVec.xor_assoc, BitVec.xor_self, BitVec.zero_xor]

/-- C03 core: `undoMove` after `makeMove` gives back the identical board. -/
theorem undo_make_rep (K : Keys) {b : Board} {f : Cfg} {m : Move} (hr : Rep b f) (ok : MakeOK b m) :
    undoMove (makeMove K b m).1 m (makeMove K b m).2 = b := by
  rw [makeMove_eq, undoMove_eq]
  have ch := chain_of f b m hr ok
  have hx : b.ep ^^^ mvNewEP b m < 64 := Nat.xor_lt_two_pow (n := 6) ok.ep_lt (mvNewEP_lt b m)
  obtain ⟨t1, t2, t3, t4⟩ := token_fields_roundtrip 0 b.fifty (b.castles ^^^ b.newCastles m)
    (b.pieceAt (b.captureSq m)) (b.ep ^^^ mvNewEP b m) ok.fifty_lo ok.fifty_hi hx
  apply undo_of_facts hr ch (make_rep K m hr ch) (make_stm K b m)
  · rw [make_ep, make_token, t4, ← Nat.xor_assoc, Nat.xor_comm (mvNewEP b m), Nat.xor_assoc, Nat.xor_self, Nat.xor_zero]
  · rw [make_castles, make_token, t2, BitVec.xor_assoc, BitVec.xor_self, BitVec.xor_zero]
  · rw [make_token, t1]
  · rw [make_fullMoves]; omega
  · exact make_hashes_tail K b m
  · rw [make_token, t3]

/-- well-formedness is preserved. -/
theorem wf_make_rep (K : Keys) {b : Board} {f : Cfg} {m : Move} (hr : Rep b f) (ok : MakeOK b m) :
    Rep (makeMove K b m).1 (cfg5 f b m) := by
  rw [makeMove_eq]; exact make_rep K m hr (chain_of f b m hr ok)

end ChessVerif.Board
