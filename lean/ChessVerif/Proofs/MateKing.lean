/-
  C09 step (1): the king-flight loop shared by `IsCheckmate` and `IsStalemate`,
      `for kMvs … { if !IsAttacked(opp, occ &^ king, to) { return false } }`,
  answers "no escape" exactly when every king move of the rule book (steps AND castling) leaves the
  king attacked.
-/
import ChessVerif.Proofs.MateProbe

namespace ChessVerif.Mate
open ChessVerif Board Rules Bridge

variable {b : Board} {K : Nat}

/-- a shorter line of sight of the same slider: it also attacks every square strictly between. -/
theorem Att_prefix {o : BB} {c : Color} {k : Piece} {a t u : Nat} (ha : a < 64) (ht : t < 64)
    (hs : isSlider k = true) (h : Att o c k a t) (hu : (SB a t).getLsbD u = true) : Att o c k a u := by
  have hg := sb_geo_left ha ht hu
  have hl : lineFree o a t → lineFree o a u := by
    intro hl v hv
    exact hl v (((sb_split ha ht hu) v).2 (Or.inl hv))
  cases k <;> first | exact absurd hs (by decide) | skip
  · exact ⟨hg.2.1 h.1, hl h.2⟩
  · exact ⟨hg.1.1 h.1, hl h.2⟩
  · refine ⟨?_, hl h.2⟩
    rcases h.1 with h1 | h1
    · exact Or.inl (hg.2.1 h1)
    · exact Or.inr (hg.1.1 h1)

/-- the target square itself never matters: neither as a blocker nor as an attacker. -/
theorem Chk_target (o : BB) (t : Nat) (ht : t < 64) : Chk b (o ||| bit t) (bit t) t ↔ Chk b o 0 t := by
  have hc : ∀ a, a < 64 → ∀ c k, Att (o ||| bit t) c k a t ↔ Att o c k a t := by
    intro a ha c k
    apply Att_congr
    intro u hu
    rw [getLsbD_or_bit _ _ _ ht]
    have := (sb_ne ha ht hu).2.1
    have : ¬ t = u := fun e => this e.symm
    simp [this]
  constructor
  · rintro ⟨a, ha, hcol, _, hatt⟩
    exact ⟨a, ha, hcol, by simp, (hc a ha _ _).1 hatt⟩
  · rintro ⟨a, ha, hcol, _, hatt⟩
    refine ⟨a, ha, hcol, ?_, (hc a ha _ _).2 hatt⟩
    rw [bit_getLsbD t a ht]
    have : ¬ t = a := by
      intro e; subst e; exact Att_irrefl hatt
    simp [this]

/-- every king step leads to an attacked square (with the king lifted off the board). -/
def KingStuck (b : Board) (K : Nat) : Prop :=
  ∀ t, t < 64 → (Attacks.kingMoves K).getLsbD t = true → (b.colorBB b.stm).getLsbD t = false →
    Chk b (b.occ &&& ~~~ bit K) 0 t

/-- **the king-flight loop.** -/
theorem kingLoop_false_iff (cx : Ctx b K) :
    (bits (Attacks.kingMoves K &&& ~~~ b.colorBB b.stm)).any
        (fun t => !(b.isAttacked b.stm.flip (b.occ &&& ~~~ bit K) (bit t))) = false ↔ KingStuck b K := by
  rw [any_bits_false_iff]
  unfold KingStuck
  constructor
  · intro h t ht hk ho
    have := h t ht (by rw [BitVec.getLsbD_and, hk, BitVec.getLsbD_not, ho]; simp [ht])
    rw [Bool.not_eq_false'] at this
    exact (isAttacked_bit_iff cx.wf _ t ht).1 this
  · intro h t ht hm
    rw [BitVec.getLsbD_and, Bool.and_eq_true, BitVec.getLsbD_not] at hm
    have ho : (b.colorBB b.stm).getLsbD t = false := by
      have := hm.2
      simp only [ht, decide_true, Bool.true_and, Bool.not_eq_true'] at this
      exact this
    rw [Bool.not_eq_false']
    exact (isAttacked_bit_iff cx.wf _ t ht).2 (h t ht hm.1 ho)

theorem attackedBy_iff_Chk (hw : WFP b) (t : Nat) (ht : t < 64) :
    Rules.attackedBy (abs b) b.stm.flip t = true ↔ Chk b b.occ 0 t := by
  rw [← isAttacked_occ_bit hw b.stm.flip t ht]
  exact isAttacked_bit_iff hw _ t ht

/-- a king step is safe iff its destination is unattacked with the king lifted. -/
theorem kingStep_after (cx : Ctx b K) (t : Nat) (ht : t < 64)
    (hto : (b.colorBB b.stm).getLsbD t = false) (hg : (Attacks.kingMoves K).getLsbD t = true) :
    Rules.inCheck (Rules.applyCore (abs b) ⟨K, t, none⟩) b.stm = true ↔ Chk b (b.occ &&& ~~~ bit K) 0 t := by
  rw [after_king cx t ht hto hg, Chk_target _ t ht]

theorem kingStep_PL (cx : Ctx b K) (t : Nat)
    (hto : (b.colorBB b.stm).getLsbD t = false) (hg : (Attacks.kingMoves K).getLsbD t = true) :
    PL.PL b K t 0 := by
  rw [PL_iff_kind cx.wf K t 0 cx.hK, cx.king_piece]
  exact ⟨cx.king_own, hto, Or.inl ⟨rfl, hg⟩⟩

/-- the square beside the king that a castling king crosses. -/
theorem castle_cross (cx : Ctx b K) (t pr : Nat) (hc : PL.PLshort b K t pr ∨ PL.PLlong b K t pr) :
    ∃ x, x < 64 ∧ (Attacks.kingMoves K).getLsbD x = true ∧ b.occ.getLsbD x = false ∧
      ¬ Chk b b.occ 0 x ∧ ¬ Chk b b.occ 0 K := by
  rcases hc with h | h
  · obtain ⟨_, hK, _, _, _, ho1, _, hatt⟩ := h
    have hm : ∀ c : Color, PL.home c < 64 ∧ PL.home c + 1 < 64 ∧ PL.home c + 2 < 64 ∧
        PL.shortMask c = bit (PL.home c) ||| bit (PL.home c + 1) ||| bit (PL.home c + 2) ∧
        (Attacks.kingMoves (PL.home c)).getLsbD (PL.home c + 1) = true := by
      intro c; cases c <;> decide +kernel
    obtain ⟨h0, h1, h2, hmask, hkm⟩ := hm b.stm
    rw [hmask, isAttacked_occ_mask3_false cx.wf _ _ _ _ h0 h1 h2] at hatt
    refine ⟨PL.home b.stm + 1, h1, by rw [hK]; exact hkm, ho1, ?_, ?_⟩
    · rw [← attackedBy_iff_Chk cx.wf _ h1, hatt.2.1]; exact Bool.false_ne_true
    · rw [hK, ← attackedBy_iff_Chk cx.wf _ h0, hatt.1]; exact Bool.false_ne_true
  · obtain ⟨_, hK, _, _, _, ho1, _, _, hatt⟩ := h
    have hm : ∀ c : Color, PL.home c < 64 ∧ PL.home c - 1 < 64 ∧ PL.home c - 2 < 64 ∧
        PL.longMask c = bit (PL.home c) ||| bit (PL.home c - 1) ||| bit (PL.home c - 2) ∧
        (Attacks.kingMoves (PL.home c)).getLsbD (PL.home c - 1) = true := by
      intro c; cases c <;> decide +kernel
    obtain ⟨h0, h1, h2, hmask, hkm⟩ := hm b.stm
    rw [hmask, isAttacked_occ_mask3_false cx.wf _ _ _ _ h0 h1 h2] at hatt
    refine ⟨PL.home b.stm - 1, h1, by rw [hK]; exact hkm, ho1, ?_, ?_⟩
    · rw [← attackedBy_iff_Chk cx.wf _ h1, hatt.2.1]; exact Bool.false_ne_true
    · rw [hK, ← attackedBy_iff_Chk cx.wf _ h0, hatt.1]; exact Bool.false_ne_true

/-- lifting the king only uncovers attacks along lines through the king's square, and those are
    attacks on the king. -/
theorem chk_lift_king (cx : Ctx b K) (x : Nat) (hx : x < 64) (h1 : ¬ Chk b b.occ 0 x)
    (h2 : ¬ Chk b b.occ 0 K) : ¬ Chk b (b.occ &&& ~~~ bit K) 0 x := by
  rintro ⟨a, ha, hc, hx0, hatt⟩
  by_cases hocc : Att b.occ b.stm.flip (b.pieceAt a) a x
  · exact h1 ⟨a, ha, hc, hx0, hocc⟩
  · obtain ⟨hs, u, hu, hu1, hu2⟩ := Att_lost hatt hocc
    have huK : u = K := by
      have hu64 := sb_lt hu
      rw [getLsbD_andNot_bit _ _ _ cx.hK, hu2] at hu1
      by_cases e : K = u
      · exact e.symm
      · simp [e] at hu1
    subst huK
    have hp := Att_prefix ha hx hs hatt hu
    apply h2
    refine ⟨a, ha, hc, hx0, (Att_congr ?_).1 hp⟩
    intro v hv
    rw [getLsbD_andNot_bit _ _ _ cx.hK]
    have : ¬ u = v := fun e => (sb_ne ha cx.hK hv).2.1 e.symm
    simp [this]

/-- **castling implies an ordinary king step is safe** (the crossed square is vacant and unattacked,
    and no line through the king's own square is open because the king is not in check). -/
theorem castle_not_stuck (cx : Ctx b K) (t pr : Nat) (hc : PL.PLshort b K t pr ∨ PL.PLlong b K t pr) :
    ¬ KingStuck b K := by
  obtain ⟨x, hx, hkm, hox, h1, h2⟩ := castle_cross cx t pr hc
  intro hst
  have hown : (b.colorBB b.stm).getLsbD x = false := by
    cases h : (b.colorBB b.stm).getLsbD x
    · rfl
    · rw [occ_of_own x h] at hox; exact Bool.noConfusion hox
  exact chk_lift_king cx x hx h1 h2 (hst x hx hkm hown)

/-- **(1), soundness direction**: if the loop finds no flight square, every king move of the rule
    book — castling included — leaves the king attacked. -/
theorem king_moves_unsafe (cx : Ctx b K) (hst : KingStuck b K) (t pr : Nat) (ht : t < 64)
    (hPL : PL.PL b K t pr) :
    Rules.inCheck (Rules.applyCore (abs b) ⟨K, t, decPromo pr⟩) b.stm = true := by
  obtain ⟨_, hto, hk⟩ := (PL_iff_kind cx.wf K t pr cx.hK).1 hPL
  rw [cx.king_piece] at hk
  rcases hk with ⟨hpr, hg⟩ | hc
  · subst hpr
    exact (kingStep_after cx t ht hto hg).2 (hst t ht hg hto)
  · exact absurd hst (castle_not_stuck cx t pr hc)

/-- **(1), completeness direction**: a flight square found by the loop is a legal king step. -/
theorem king_escape (cx : Ctx b K) (h : ¬ KingStuck b K) :
    ∃ t, t < 64 ∧ PL.PL b K t 0 ∧
      Rules.inCheck (Rules.applyCore (abs b) ⟨K, t, decPromo 0⟩) b.stm = false := by
  unfold KingStuck at h
  apply Classical.byContradiction
  intro hno
  apply h
  intro t ht hg hto
  apply Classical.byContradiction
  intro hc
  apply hno
  refine ⟨t, ht, kingStep_PL cx t hto hg, ?_⟩
  cases hi : Rules.inCheck (Rules.applyCore (abs b) ⟨K, t, decPromo 0⟩) b.stm
  · rfl
  · exact absurd ((kingStep_after cx t ht hto hg).1 hi) hc

end ChessVerif.Mate
