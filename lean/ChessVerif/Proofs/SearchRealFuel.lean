/-
  TERMINATION for the real components: the picker-length law `FuelLaws.pick_len` for the staged picker
  of /repo/picker/picker.go as search.go drives it, hence `FuelLaws` for `realCompWith K cs` /
  `realCompG K cs`, hence the fuel theorems of Proofs/SearchFuel.lean and SearchFuelGo.lean.

  The counting invariant (`CInv`), along any interleaving of `Next()` with changing ranking functions
  and weight overwrites (`PReach`, Proofs/SearchRealPicker.lean).  Write `#≠ l` for the number of entries
  of `l` whose move is not the hash move, `E = 1` if the hash move is a generated move and `0` otherwise:

      yielded + #≠ rest  ≤  bound(stage)         bound: pickHash 0, genNoisy E, yieldGoodNoisy / genQuiet
                                                        E + #≠ genNoisy, yieldRest E + #≠ genNoisy + #≠ genNotNoisy
      H   an entry of `rest` that IS the hash move weighs at most the stage-5 threshold
          (its weight is the sentinel `-16384` given by the ranking loops: it is never selected)

  * stage 1 yields the hash move only if it is pseudo-legal — a generated move (C05): `0 + 1 ≤ E`;
  * generating appends one entry per generated move, the bound grows by the number of non-hash ones;
  * a selection picks an entry above a threshold ≥ the stage-5 threshold, by `H` not the hash move's
    duplicate: one more yielded, one non-hash entry less in `rest`.
  So `yielded ≤ E + #≠ gen ≤ len(gen)` in every reachable frame (`preach_len`): after a successful
  `Next()` at most `len(gen)` moves have been yielded — `pick_len`.
-/
import ChessVerif.Proofs.SearchRealScore
import ChessVerif.Proofs.SearchFuelGo

namespace ChessVerif.Proofs.SearchRealFuel
open ChessVerif Picker ChessVerif.Proofs.PickerPerm ChessVerif.Proofs.PickerSelect ChessVerif.Proofs.SearchRealPicker
set_option autoImplicit false

/-- number of entries whose move is not `hm`. -/
def nhW (hm : Move) (l : List WMove) : Nat := l.countP (fun w => w.move != hm)
def nhM (hm : Move) (l : List Move) : Nat := l.countP (fun m => m != hm)

/-- 1 if the hash move is a generated move. -/
def hashIn (b : Board) (hm : Move) : Nat := if hm ∈ MoveGen.gen b then 1 else 0

/-- how many moves can have been yielded or be waiting in `rest` (hash duplicates not counted). -/
def bound (b : Board) (hm : Move) : Stage → Nat
  | .pickHash => 0
  | .genNoisy => hashIn b hm
  | .yieldGoodNoisy => hashIn b hm + nhM hm (MoveGen.genNoisy b)
  | .genQuiet => hashIn b hm + nhM hm (MoveGen.genNoisy b)
  | .yieldRest => hashIn b hm + nhM hm (MoveGen.genNoisy b) + nhM hm (MoveGen.genNotNoisy b)

/-- the counting invariant of a frame after `n` yields. -/
structure CInv (b : Board) (hm : Move) (st : PSt) (n : Nat) : Prop where
  cnt : n + nhW hm st.rest ≤ bound b hm st.stage
  H : ∀ w ∈ st.rest, w.move = hm → w.weight ≤ Gen.Heur.restThreshold

variable {b : Board} {hm : Move}

theorem nhW_append (l1 l2 : List WMove) : nhW hm (l1 ++ l2) = nhW hm l1 + nhW hm l2 := by
  unfold nhW; exact List.countP_append

theorem nhW_rankNoisy (rk : Rank) (l : List WMove) : nhW hm (l.map (rankNoisyOne hm rk)) = nhW hm l := by
  induction l with
  | nil => rfl
  | cons w ws ih =>
    simp only [nhW, List.map_cons, List.countP_cons, move_rankNoisyOne] at ih ⊢
    rw [ih]

theorem nhW_rankQuiet (rk : Rank) (l : List WMove) : nhW hm (l.map (rankQuietOne hm rk)) = nhW hm l := by
  induction l with
  | nil => rfl
  | cons w ws ih =>
    simp only [nhW, List.map_cons, List.countP_cons, move_rankQuietOne] at ih ⊢
    rw [ih]

theorem nhW_alloc (l : List Move) : nhW hm (l.map alloc) = nhM hm l := by
  induction l with
  | nil => rfl
  | cons m ms ih =>
    simp only [nhW, nhM, List.map_cons, List.countP_cons, alloc] at ih ⊢
    rw [ih]

/-- `E + #≠ gen ≤ len(gen)`. -/
theorem bound_le_gen (b : Board) (hm : Move) :
    hashIn b hm + nhM hm (MoveGen.genNoisy b) + nhM hm (MoveGen.genNotNoisy b) ≤ (MoveGen.gen b).length := by
  have happ : nhM hm (MoveGen.genNoisy b) + nhM hm (MoveGen.genNotNoisy b) = nhM hm (MoveGen.gen b) := by
    unfold nhM MoveGen.gen; exact List.countP_append.symm
  have hle : nhM hm (MoveGen.gen b) ≤ (MoveGen.gen b).length := List.countP_le_length
  unfold hashIn
  split
  · next hin =>
    have hne : nhM hm (MoveGen.gen b) ≠ (MoveGen.gen b).length := by
      intro e
      have := (List.countP_eq_length.1 e) hm hin
      simp at this
    omega
  · omega

theorem bound_le (b : Board) (hm : Move) (s : Stage) : bound b hm s ≤ (MoveGen.gen b).length := by
  have := bound_le_gen b hm
  cases s <;> simp only [bound] <;> omega

theorem cinv_init : CInv b hm Picker.init 0 :=
  ⟨by simp [Picker.init, nhW, bound], fun w hw => by simp [Picker.init] at hw⟩

theorem cinv_weight {st : PSt} {n : Nat} (h : CInv b hm st n) (v : Int) :
    CInv b hm { st with done := SearchReal.setLastWeight st.done v } n := ⟨h.cnt, h.H⟩

/-- what a `Next()` call establishes for the count: on success the invariant with one more yield. -/
def CPost (b : Board) (hm : Move) (n : Nat) (r : Bool × PSt) : Prop := r.1 = true → CInv b hm r.2 (n + 1)

/-- the yield step, in whatever stage, for a selection threshold not below the stage-5 threshold. -/
theorem cpost_yield {st : PSt} {n : Nat} (h : CInv b hm st n) {thr : Int} (hthr : Gen.Heur.restThreshold ≤ thr) {k : Nat}
    (hs : selectBest thr st.rest = some k) :
    CPost b hm n (true, { st with done := st.done ++ [(takeAt st.rest k).1], rest := (takeAt st.rest k).2 }) := by
  intro _
  obtain ⟨x, hx, hxw⟩ := selectBest_some hs
  obtain ⟨e1, p⟩ := takeAt_perm hx
  have hxin : x ∈ st.rest := List.mem_of_getElem? hx
  have hxne : x.move ≠ hm := fun e => by
    have := h.H x hxin e
    omega
  have hcnt : nhW hm st.rest = nhW hm (takeAt st.rest k).2 + 1 := by
    have := p.countP_eq (fun w => w.move != hm)
    unfold nhW
    rw [← this, List.countP_cons, e1]
    simp [hxne]
  refine ⟨?_, fun w hw => h.H w ((p.mem_iff).1 (List.mem_cons_of_mem _ hw))⟩
  have := h.cnt
  show n + 1 + nhW hm (takeAt st.rest k).2 ≤ bound b hm st.stage
  omega

theorem cpost_yieldRest {st : PSt} {n : Nat} (h : CInv b hm st n) : CPost b hm n (nextYieldRest st) := by
  unfold nextYieldRest
  split
  · rename_i k hs
    exact cpost_yield h (Int.le_refl _) hs
  · intro h'; cases h'

theorem cpost_genQuiet {rk : Rank} {st : PSt} {n : Nat} (h : CInv b hm st n) (hst : st.stage = .genQuiet) :
    CPost b hm n (nextGenQuiet b hm rk st) := by
  unfold nextGenQuiet
  refine cpost_yieldRest ⟨?_, ?_⟩
  · have := h.cnt
    rw [hst] at this
    simp only [bound, nhW_append, nhW_rankQuiet, nhW_alloc] at this ⊢
    omega
  · intro w hw e
    rcases List.mem_append.1 hw with hw | hw
    · exact h.H w hw e
    · simp only [List.mem_map] at hw
      obtain ⟨w0, _, rfl⟩ := hw
      rw [move_rankQuietOne] at e
      unfold rankQuietOne
      rw [if_pos e.symm]
      show Gen.Heur.quietSentinel ≤ Gen.Heur.restThreshold
      decide

theorem cpost_yieldGoodNoisy {rk : Rank} {st : PSt} {n : Nat} (h : CInv b hm st n) (hst : st.stage = .yieldGoodNoisy) :
    CPost b hm n (nextYieldGoodNoisy b hm rk st) := by
  unfold nextYieldGoodNoisy
  split
  · rename_i k hs
    exact cpost_yield h (by decide) hs
  · refine cpost_genQuiet ⟨?_, h.H⟩ rfl
    have := h.cnt
    rw [hst] at this
    exact this

theorem cpost_genNoisy {rk : Rank} {st : PSt} {n : Nat} (h : CInv b hm st n) (hst : st.stage = .genNoisy) :
    CPost b hm n (nextGenNoisy b hm rk st) := by
  unfold nextGenNoisy
  refine cpost_yieldGoodNoisy ⟨?_, ?_⟩ rfl
  · have := h.cnt
    rw [hst] at this
    simp only [bound, nhW_rankNoisy, nhW_append, nhW_alloc] at this ⊢
    omega
  · intro w hw e
    simp only [List.mem_map] at hw
    obtain ⟨w0, _, rfl⟩ := hw
    rw [move_rankNoisyOne] at e
    unfold rankNoisyOne
    rw [if_pos e.symm]
    show Gen.Heur.noisySentinel ≤ Gen.Heur.restThreshold
    decide

theorem cpost_pickHash (hv : Board.valid b = true) (hhm : hm < 32768) {rk : Rank} {st : PSt} {n : Nat}
    (h : CInv b hm st n) (hst : st.stage = .pickHash) : CPost b hm n (nextPickHash b hm rk st) := by
  unfold nextPickHash
  have hc := h.cnt
  rw [hst] at hc
  simp only [bound] at hc
  split
  · rename_i hpl
    intro _
    have hin : hm ∈ MoveGen.gen b := (Props.C05.isPseudoLegal_iff_gen hv hhm).1 hpl
    refine ⟨?_, h.H⟩
    show n + 1 + nhW hm st.rest ≤ hashIn b hm
    unfold hashIn
    rw [if_pos hin]
    omega
  · refine cpost_genNoisy ⟨?_, h.H⟩ rfl
    show n + nhW hm st.rest ≤ hashIn b hm
    omega

theorem cpost_next (hv : Board.valid b = true) (hhm : hm < 32768) {rk : Rank} {st : PSt} {n : Nat}
    (h : CInv b hm st n) : CPost b hm n (Picker.next b hm rk st) := by
  unfold Picker.next
  split
  · rename_i e; exact cpost_pickHash hv hhm h e
  · rename_i e; exact cpost_genNoisy h e
  · rename_i e; exact cpost_yieldGoodNoisy h e
  · rename_i e; exact cpost_genQuiet h e
  · exact cpost_yieldRest h

/-- every reachable frame satisfies the counting invariant. -/
theorem preach_cinv (hv : Board.valid b = true) (hhm : hm < 32768) {st : PSt} {ys : List Move}
    (hr : PReach b hm st ys) : CInv b hm st ys.length := by
  induction hr with
  | init => exact cinv_init
  | @next st0 ys0 rk st1 _ _ hn ih =>
    have := cpost_next (rk := rk) hv hhm ih
    rw [hn] at this
    exact this rfl
  | weight _ ih => exact cinv_weight ih _

/-- **the real picker yields at most `len(gen)` moves**, whatever the ranker does between two calls. -/
theorem preach_len (hv : Board.valid b = true) (hhm : hm < 32768) {st : PSt} {ys : List Move}
    (hr : PReach b hm st ys) : ys.length ≤ (MoveGen.gen b).length := by
  have h := (preach_cinv hv hhm hr).cnt
  have := bound_le b hm st.stage
  omega

end ChessVerif.Proofs.SearchRealFuel

namespace ChessVerif
namespace SearchReal
open Search ChessVerif.Proofs.SearchRealPicker

/-- the picker-length law for every record that agrees with the real one on the picker. -/
theorem pick_len_of_isReal {K : Keys} {c : Comp PS Pick} (hc : IsReal K c) :
    ∀ ps b hs hm p ys m p', RealGood b → HashOK c b hm → Reach c b hm p ys → PsInv.ok ps →
      c.pickNext ps b hs p = some (m, p') → ys.length < (MoveGen.gen b).length := by
  intro ps b hs hm p ys m p' hg hh hr hok hp
  have hr' : Reach c b hm p' (m :: ys) := Reach.next hr hok hp
  obtain ⟨_, hpr⟩ := reach_preach hc hr'
  have := Proofs.SearchRealFuel.preach_len hg (hashOK_lt hc hh) hpr
  simp only [List.length_cons] at this
  omega

/-- **the termination laws hold for the real components** (any key table, any coefficient set). -/
theorem real_fuelLaws_with (K : Keys) (cs : Eval.CoeffSet Int) : FuelLaws (realCompWith K cs) RealGood muReal :=
  FuelLaws.of_score (real_scoreLaws_with K cs) (pick_len_of_isReal (isReal_realCompWith K cs))

/-- … and for the record with the null-move guard. -/
theorem real_fuelLaws (K : Keys) (cs : Eval.CoeffSet Int) : FuelLaws (realCompG K cs) RealGood muReal :=
  FuelLaws.of_score (real_scoreLaws K cs) (pick_len_of_isReal (isReal_realCompG K cs))

/-! ### the reductions of the real search (`DepthLaws`, the depth-sensitive refinement) -/

/-- `lmr = Clamp(d-1-value, 0, d-1)` is not negative for `1 ≤ d ≤ 64` (nor above `d - 1`). -/
theorem lmr_range (d mc : Int) (imp : Bool) (nt : NodeType) (h1 : 1 ≤ d) (h64 : d ≤ 64) :
    0 ≤ lmr d mc imp nt ∧ lmr d mc imp nt ≤ d - 1 := by
  unfold lmr Gen.Funcs.lmr Gen.Funcs.clampS8
  simp only []
  have hw : wrapS8 (d - 1) = d - 1 := by unfold wrapS8; omega
  rw [hw]
  generalize wrapS8 (d - 1 - wrapS8 _) = x
  omega

/-- the null move is tried at depths ≥ 2 only … -/
theorem nmpTry_depth {b : Board} {d : Int} {se beta : Score} (h : nmpTry b d se beta = true) : 2 ≤ d := by
  unfold nmpTry at h
  simp only [Bool.and_eq_true, decide_eq_true_eq] at h
  have h1 : d > wrapS8 Gen.Search.params_NMPDepthLimit := h.1.1
  have e : wrapS8 Gen.Search.params_NMPDepthLimit = 1 := by decide
  rw [e] at h1
  omega

/-- … and `max(d - red, 0)` with `red = NMPInit + Clamp(…, 0, MaxPlies) ∈ [4, 68]` lies in `[0, d)`. -/
theorem nmpDepth_range (d : Int) (se beta : Score) (h1 : 1 ≤ d) (h64 : d ≤ 64) :
    0 ≤ nmpDepth d se beta ∧ nmpDepth d se beta < d := by
  unfold nmpDepth Gen.Funcs.clampS16
  simp only [Gen.Search.params_NMPInit, Gen.Search.nmpClampLo, Gen.Search.nmpClampHi, Gen.Search.nmpDepthFloor]
  generalize goDiv (wrapS16 (se - beta)) (wrapS16 Gen.Search.params_NMPDiffFactor) = q
  have e4 : wrapS8 4 = 4 := by decide
  rw [e4]
  have hc : 0 ≤ min (64 : Int) (max q 0) ∧ min (64 : Int) (max q 0) ≤ 64 := by omega
  generalize min (64 : Int) (max q 0) = k at hc
  have e1 : wrapS8 k = k := by unfold wrapS8; omega
  rw [e1]
  have e2 : wrapS8 (4 + k) = 4 + k := by unfold wrapS8; omega
  rw [e2]
  have e3 : wrapS8 (d - (4 + k)) = d - (4 + k) := by unfold wrapS8; omega
  rw [e3]
  omega

/-- internal iterative reduction needs `d > IIRDepthLimit = 5`. -/
theorem iir_depth {nt : NodeType} {d : Int} {hm : Move} (h : iir nt d hm = true) : 2 ≤ d := by
  unfold iir at h
  simp only [Bool.and_eq_true, decide_eq_true_eq] at h
  have h1 : d > wrapS8 Gen.Search.params_IIRDepthLimit := h.1.2
  have e : wrapS8 Gen.Search.params_IIRDepthLimit = 5 := by decide
  rw [e] at h1
  omega

/-- **the depth laws hold for the real reductions** (regenerated `lmr`, `NMPInit`, `NMPDepthLimit`,
    `IIRDepthLimit`: re-checked when /repo changes). -/
theorem real_depthLaws_with (K : Keys) (cs : Eval.CoeffSet Int) : DepthLaws (realCompWith K cs) where
  lmr_nonneg := fun d mc imp nt h1 h64 => (lmr_range d mc imp nt h1 h64).1
  nmp_range := fun _ d se beta h1 h64 _ => nmpDepth_range d se beta h1 h64
  iir_depth := fun _ _ _ h => iir_depth h

theorem real_depthLaws (K : Keys) (cs : Eval.CoeffSet Int) : DepthLaws (realCompG K cs) where
  lmr_nonneg := fun d mc imp nt h1 h64 => (lmr_range d mc imp nt h1 h64).1
  nmp_range := fun _ d se beta h1 h64 _ => nmpDepth_range d se beta h1 h64
  iir_depth := fun _ _ _ h => iir_depth h

end SearchReal
end ChessVerif
