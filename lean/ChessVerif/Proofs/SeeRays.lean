/-
  C18 geometry, part 1: how the slider attack sets of the exchange square react when one man is
  lifted from the board.  Everything is derived from the declarative readings of the magic lookups
  proved in C12 (`C12.bishopMoves_iff`, `rookMoves_iff`, `knightMoves_eq`) and from
  `AttacksProofs.mem_strictlyBetween`.

  * `bishop_mono` / `rook_mono`   ray monotonicity: fewer occupied squares ⇒ no attacked square is lost;
  * `bishop_indep` / `rook_indep` lifting a man that is NOT on a diagonal (rook line) of the square
                                  changes nothing in the bishop (rook) attack set of that square;
  * where an attacker of each kind stands relative to the square (`pawn_onDiag`, `knight_off`, …).
-/
import ChessVerif.Props.C12
import ChessVerif.Proofs.PLBits

namespace ChessVerif.Proofs.SeeRays
open ChessVerif Geometry

/-- `s` is on a diagonal through `t` (and differs from it). -/
def OnDiag (t s : Nat) : Prop := fileDist t s = rankDist t s ∧ t ≠ s
/-- `s` is on the file or rank of `t` (and differs from it). -/
def OnLine (t s : Nat) : Prop := (fileOf t = fileOf s ∨ rankOf t = rankOf s) ∧ t ≠ s

theorem onDiag_not_onLine {t s : Nat} (h : OnDiag t s) (ht : t < 64) (hs : s < 64) : ¬ OnLine t s := by
  unfold OnDiag OnLine fileDist rankDist fileI rankI fileOf rankOf at *
  omega

theorem onLine_not_onDiag {t s : Nat} (h : OnLine t s) (ht : t < 64) (hs : s < 64) : ¬ OnDiag t s := by
  unfold OnDiag OnLine fileDist rankDist fileI rankI fileOf rankOf at *
  omega

theorem sgn_cases (x : Int) : (x < 0 ∧ sgn x = -1) ∨ (x = 0 ∧ sgn x = 0) ∨ (0 < x ∧ sgn x = 1) := by
  unfold sgn; split
  · left; omega
  · split
    · right; right; omega
    · right; left; omega

/-- a square strictly between `a` and a square on a diagonal of `a` is on that diagonal. -/
theorem between_diag (a u v : Nat) (ha : a < 64) (hu : u < 64) (hd : fileDist a u = rankDist a u)
    (hv : (strictlyBetween a u).getLsbD v = true) : OnDiag a v := by
  obtain ⟨_, hv64, k, hk0, hkn, hf, hr⟩ := (AttacksProofs.mem_strictlyBetween a u v ha hu).1 hv
  unfold OnDiag fileDist rankDist at *
  rcases sgn_cases (fileI u - fileI a) with ⟨h1, e1⟩ | ⟨h1, e1⟩ | ⟨h1, e1⟩ <;>
  rcases sgn_cases (rankI u - rankI a) with ⟨h2, e2⟩ | ⟨h2, e2⟩ | ⟨h2, e2⟩ <;>
  rw [e1] at hf <;> rw [e2] at hr <;> simp only [Int.mul_neg, Int.mul_one, Int.mul_zero, Int.add_zero] at hf hr <;>
  (unfold fileI rankI at *; constructor <;> omega)

/-- a square strictly between `a` and a square on the file/rank of `a` is on that file/rank. -/
theorem between_line (a u v : Nat) (ha : a < 64) (hu : u < 64) (hd : fileOf a = fileOf u ∨ rankOf a = rankOf u)
    (hv : (strictlyBetween a u).getLsbD v = true) : OnLine a v := by
  obtain ⟨_, hv64, k, hk0, hkn, hf, hr⟩ := (AttacksProofs.mem_strictlyBetween a u v ha hu).1 hv
  unfold OnLine fileDist rankDist fileOf rankOf at *
  rcases sgn_cases (fileI u - fileI a) with ⟨h1, e1⟩ | ⟨h1, e1⟩ | ⟨h1, e1⟩ <;>
  rcases sgn_cases (rankI u - rankI a) with ⟨h2, e2⟩ | ⟨h2, e2⟩ | ⟨h2, e2⟩ <;>
  rw [e1] at hf <;> rw [e2] at hr <;> simp only [Int.mul_neg, Int.mul_one, Int.mul_zero, Int.add_zero] at hf hr <;>
  (unfold fileI rankI at *; constructor <;> omega)

/-- lifting the man on `s0`. -/
def lift (occ : BB) (s0 : Nat) : BB := occ &&& ~~~ bit s0

theorem lift_get (occ : BB) (s0 v : Nat) (hs : s0 < 64) :
    (lift occ s0).getLsbD v = (occ.getLsbD v && decide (v ≠ s0)) := by
  unfold lift
  by_cases hv : v < 64
  · simp only [BitVec.getLsbD_and, BitVec.getLsbD_not, hv, decide_true, Bool.true_and, bit_getLsbD s0 v hs]
    by_cases e : s0 = v
    · subst e; simp
    · have : ¬ v = s0 := fun h => e h.symm
      simp [e, this]
  · rw [BitVec.getLsbD_of_ge _ v (by omega), BitVec.getLsbD_of_ge occ v (by omega)]; simp

/-- Ray monotonicity (bishop): a square attacked under `occ` is attacked under any smaller occupancy. -/
theorem bishop_mono (occ occ' : BB) (t u : Nat) (ht : t < 64) (hu : u < 64)
    (hsub : ∀ v, occ'.getLsbD v = true → occ.getLsbD v = true)
    (h : (Attacks.bishopMoves t occ).getLsbD u = true) : (Attacks.bishopMoves t occ').getLsbD u = true := by
  rw [C12.bishopMoves_iff occ t u ht hu] at h
  rw [C12.bishopMoves_iff occ' t u ht hu]
  refine ⟨h.1, h.2.1, fun v hv => ?_⟩
  have := h.2.2 v hv
  cases e : occ'.getLsbD v
  · rfl
  · rw [hsub v e] at this; exact absurd this (by simp)

theorem rook_mono (occ occ' : BB) (t u : Nat) (ht : t < 64) (hu : u < 64)
    (hsub : ∀ v, occ'.getLsbD v = true → occ.getLsbD v = true)
    (h : (Attacks.rookMoves t occ).getLsbD u = true) : (Attacks.rookMoves t occ').getLsbD u = true := by
  rw [C12.rookMoves_iff occ t u ht hu] at h
  rw [C12.rookMoves_iff occ' t u ht hu]
  refine ⟨h.1, h.2.1, fun v hv => ?_⟩
  have := h.2.2 v hv
  cases e : occ'.getLsbD v
  · rfl
  · rw [hsub v e] at this; exact absurd this (by simp)

theorem getLsbD_ge64 (x : BB) (u : Nat) (hu : ¬ u < 64) : x.getLsbD u = false :=
  BitVec.getLsbD_of_ge x u (by omega)

/-- Lifting a man that is not on a diagonal of `t` leaves the bishop attack set of `t` unchanged. -/
theorem bishop_indep (occ : BB) (t s0 : Nat) (ht : t < 64) (hs : s0 < 64) (hoff : ¬ OnDiag t s0) :
    Attacks.bishopMoves t (lift occ s0) = Attacks.bishopMoves t occ := by
  apply BitVec.eq_of_getLsbD_eq
  intro u hu
  rw [Bool.eq_iff_iff, C12.bishopMoves_iff _ t u ht hu, C12.bishopMoves_iff _ t u ht hu]
  constructor
  · rintro ⟨h1, h2, h3⟩
    refine ⟨h1, h2, fun v hv => ?_⟩
    have hv' := h3 v hv
    rw [lift_get occ s0 v hs] at hv'
    have hne : v ≠ s0 := fun e => hoff (e ▸ between_diag t u v ht hu h1 hv)
    simpa [hne] using hv'
  · rintro ⟨h1, h2, h3⟩
    refine ⟨h1, h2, fun v hv => ?_⟩
    rw [lift_get occ s0 v hs, h3 v hv]; rfl

/-- Lifting a man that is not on the file/rank of `t` leaves the rook attack set of `t` unchanged. -/
theorem rook_indep (occ : BB) (t s0 : Nat) (ht : t < 64) (hs : s0 < 64) (hoff : ¬ OnLine t s0) :
    Attacks.rookMoves t (lift occ s0) = Attacks.rookMoves t occ := by
  apply BitVec.eq_of_getLsbD_eq
  intro u hu
  rw [Bool.eq_iff_iff, C12.rookMoves_iff _ t u ht hu, C12.rookMoves_iff _ t u ht hu]
  constructor
  · rintro ⟨h1, h2, h3⟩
    refine ⟨h1, h2, fun v hv => ?_⟩
    have hv' := h3 v hv
    rw [lift_get occ s0 v hs] at hv'
    have hne : v ≠ s0 := fun e => hoff (e ▸ between_line t u v ht hu h1 hv)
    simpa [hne] using hv'
  · rintro ⟨h1, h2, h3⟩
    refine ⟨h1, h2, fun v hv => ?_⟩
    rw [lift_get occ s0 v hs, h3 v hv]; rfl

/-! ### where the attackers stand -/

theorem bishop_onDiag (occ : BB) (t s : Nat) (ht : t < 64) (hs : s < 64)
    (h : (Attacks.bishopMoves t occ).getLsbD s = true) : OnDiag t s :=
  let h' := (C12.bishopMoves_iff occ t s ht hs).1 h
  ⟨h'.1, h'.2.1⟩

theorem rook_onLine (occ : BB) (t s : Nat) (ht : t < 64) (hs : s < 64)
    (h : (Attacks.rookMoves t occ).getLsbD s = true) : OnLine t s :=
  let h' := (C12.rookMoves_iff occ t s ht hs).1 h
  ⟨h'.1, h'.2.1⟩

/-- a pawn that attacks `t` stands diagonally adjacent to it. -/
theorem pawn_onDiag (c : Color) (t s : Nat) (ht : t < 64)
    (h : (Attacks.pawnCaptureMoves (bit t) c).getLsbD s = true) : OnDiag t s := by
  obtain ⟨hs, hg⟩ := (PL.pawnCap_get c t s ht).1 h
  unfold OnDiag fileDist rankDist fileI rankI
  cases c <;> simp only [PL.capGeom] at hg <;> omega

/-- a knight that attacks `t` is neither on a diagonal nor on the file/rank of `t`. -/
theorem knight_off (t s : Nat) (ht : t < 64) (h : (Attacks.knightMoves t).getLsbD s = true) :
    ¬ OnDiag t s ∧ ¬ OnLine t s := by
  rw [C12.knightMoves_eq t ht] at h
  unfold knightSet at h
  rw [AttacksProofs.getLsbD_ofPred] at h
  simp only [Bool.and_eq_true, Bool.or_eq_true, beq_iff_eq, decide_eq_true_eq] at h
  unfold OnDiag OnLine fileDist rankDist fileI rankI fileOf rankOf at *
  omega

end ChessVerif.Proofs.SeeRays
