/-
  C09, stalemate, the three pawn exits of `IsStalemate` (`stFreePawn`, `stPawns`, `stEp`): common tools.
  Throughout the king of the side to move stands on `K` and is NOT in check (`hnc : ¬ Chk b b.occ 0 K`).
  * `pawn_safe_iff`     — (T1) a pseudo-legal pawn move `s → t` that is not en passant is safe iff no
                          enemy slider other than one on `t` attacks `K` with `s` vacated, `t` occupied.
  * `reveal`            — (T2) an attack on the unchecked king that appears when at most `s` is vacated
                          passes through `s`.
  * `seen_of_between`   — … and then the king sees `s` along a queen line (`s ∈ maybePinnedBB`).
  * `unpinned_safe`     — a man outside `maybePinnedBB` never exposes its king.
  * `slider_unique`     — at most one enemy slider attacks `K` once `s` is lifted.
  * `mk_hasLegal`       — packaging of a safe pseudo-legal pawn move as `HasLegal b .pawn`.
-/
import ChessVerif.Proofs.MateStaleDefs
import ChessVerif.Proofs.MatePawnBits

namespace ChessVerif.Mate.StalePawns
open ChessVerif Board Rules Bridge ChessVerif.Mate

variable {b : Board} {K : Nat}

/-! ### occupancies -/

theorem lift_get {s : Nat} (hs : s < 64) (o : BB) {u : Nat} (hne : u ≠ s) :
    (o &&& ~~~ bit s).getLsbD u = o.getLsbD u := by
  rw [getLsbD_andNot_bit _ _ _ hs]
  have : ¬ s = u := fun e => hne e.symm
  simp [this]

theorem lift_self {s : Nat} (hs : s < 64) (o : BB) : (o &&& ~~~ bit s).getLsbD s = false := by
  rw [getLsbD_andNot_bit _ _ _ hs]; simp

theorem moved_get {s t : Nat} (ht : t < 64) (o : BB) {u : Nat} (hne : u ≠ t) :
    ((o &&& ~~~ bit s) ||| bit t).getLsbD u = (o &&& ~~~ bit s).getLsbD u := by
  rw [getLsbD_or_bit _ _ _ ht]
  have : ¬ t = u := fun e => hne e.symm
  simp [this]

theorem moved_self {s t : Nat} (ht : t < 64) (o : BB) :
    ((o &&& ~~~ bit s) ||| bit t).getLsbD t = true := by
  rw [getLsbD_or_bit _ _ _ ht]; simp

/-- the occupancy after `s → t` contains every occupied square other than `s`. -/
theorem moved_sup {s t : Nat} (hs : s < 64) (ht : t < 64) (o : BB) (u : Nat) (hne : u ≠ s)
    (h : ((o &&& ~~~ bit s) ||| bit t).getLsbD u = false) : o.getLsbD u = false := by
  rw [getLsbD_or_bit _ _ _ ht, Bool.or_eq_false_iff, lift_get hs _ hne] at h
  exact h.1

/-! ### the excluded set of `SChk` -/

/-- excluding a square on which no enemy slider stands changes nothing. -/
theorem SChk_excl {o : BB} {T x : Nat} (hx : x < 64)
    (h : (b.colorBB b.stm.flip).getLsbD x = true → isSlider (b.pieceAt x) = false) :
    SChk b o (bit x) T ↔ SChk b o 0 T := by
  constructor
  · rintro ⟨a, ha, hc, _, hs, hatt⟩
    exact ⟨a, ha, hc, by simp, hs, hatt⟩
  · rintro ⟨a, ha, hc, _, hs, hatt⟩
    refine ⟨a, ha, hc, ?_, hs, hatt⟩
    rw [bit_getLsbD x a hx, decide_eq_false_iff_not]
    intro e
    subst e
    rw [h hc] at hs
    exact Bool.noConfusion hs

theorem SChk_excl_empty {o : BB} {T x : Nat} (hx : x < 64) (h : b.occ.getLsbD x = false) :
    SChk b o (bit x) T ↔ SChk b o 0 T := by
  apply SChk_excl hx
  intro hc
  rw [occ_of_opp x hc] at h
  exact Bool.noConfusion h

theorem SChk_congr {o o' x : BB} {T : Nat} (h : ∀ u, o.getLsbD u = o'.getLsbD u) :
    SChk b o x T ↔ SChk b o' x T := by
  have : ∀ a, Att o b.stm.flip (b.pieceAt a) a T ↔ Att o' b.stm.flip (b.pieceAt a) a T :=
    fun a => Att_congr (fun u _ => h u)
  constructor
  · rintro ⟨a, ha, hc, hx, hs, hatt⟩
    exact ⟨a, ha, hc, hx, hs, (this a).1 hatt⟩
  · rintro ⟨a, ha, hc, hx, hs, hatt⟩
    exact ⟨a, ha, hc, hx, hs, (this a).2 hatt⟩

/-! ### (T1) safety of a pawn move that is not en passant -/

/-- **(T1)** -/
theorem pawn_safe_iff (cx : Ctx b K) (hnc : ¬ Chk b b.occ 0 K) {s t pr : Nat} (hs : s < 64) (ht : t < 64)
    (hPL : PL.PL b s t pr) (hp : b.pieceAt s = .pawn) (hne : ¬ IsEp b s t) :
    Rules.inCheck (Rules.applyCore (abs b) ⟨s, t, decPromo pr⟩) b.stm = false ↔
      ¬ SChk b ((b.occ &&& ~~~ bit s) ||| bit t) (bit t) K := by
  rw [← Bool.not_eq_true, after_nonking cx s t pr hs ht hPL (by rw [hp]; decide) hne,
    Chk_iff_SChk (noLeaper_of_not_Chk hnc _)]

/-! ### (T2) revealed attacks -/

theorem not_att_now (hnc : ¬ Chk b b.occ 0 K) {X : Nat} (hX : X < 64)
    (hopp : (b.colorBB b.stm.flip).getLsbD X = true) : ¬ Att b.occ b.stm.flip (b.pieceAt X) X K :=
  fun h => hnc ⟨X, hX, hopp, by simp, h⟩

/-- **(T2)** an attack on the unchecked king that appears when at most `s` is vacated passes through `s`. -/
theorem reveal (hnc : ¬ Chk b b.occ 0 K) {o' : BB} {s X : Nat} (hX : X < 64)
    (hopp : (b.colorBB b.stm.flip).getLsbD X = true)
    (ho : ∀ u, u ≠ s → o'.getLsbD u = false → b.occ.getLsbD u = false)
    (hatt : Att o' b.stm.flip (b.pieceAt X) X K) :
    (SB X K).getLsbD s = true ∧ b.occ.getLsbD s = true ∧ o'.getLsbD s = false := by
  obtain ⟨_, u, hu, h1, h2⟩ := Att_lost hatt (not_att_now hnc hX hopp)
  have : u = s := by
    apply Classical.byContradiction
    intro hne
    rw [ho u hne h1] at h2; exact Bool.noConfusion h2
  subst this
  exact ⟨hu, h2, h1⟩

/-- a revealed attack also holds with just `s` lifted. -/
theorem att_lift {o' : BB} {c : Color} {k : Piece} {s X : Nat} (hs : s < 64)
    (ho : ∀ u, u ≠ s → o'.getLsbD u = false → b.occ.getLsbD u = false)
    (hatt : Att o' c k X K) : Att (b.occ &&& ~~~ bit s) c k X K := by
  apply Att_mono hatt
  intro u _ hu
  by_cases hne : u = s
  · subst hne; rw [lift_self hs] at hu; exact Bool.noConfusion hu
  · rw [lift_get hs _ hne] at hu
    cases h : o'.getLsbD u
    · rw [ho u hne h] at hu; exact Bool.noConfusion hu
    · rfl

/-- a square `s` through which a slider on `X` would see the king is seen from the king. -/
theorem seen_of_between (cx : Ctx b K) {s X : Nat} (hs : s < 64) (hX : X < 64)
    (hb : (SB X K).getLsbD s = true) (hfree : lineFree (b.occ &&& ~~~ bit s) X K) :
    (Attacks.bishopMoves K b.occ ||| Attacks.rookMoves K b.occ).getLsbD s = true := by
  rw [queen_lookup (c := b.stm) cx.hK hs]
  have hb' : (SB K X).getLsbD s = true := by rw [sb_comm' cx.hK hX]; exact hb
  have hg := sb_geo_left cx.hK hX hb'
  refine ⟨?_, ?_⟩
  · rcases sb_geo cx.hK hX hb' with h | h
    · exact Or.inr (hg.1.1 h)
    · exact Or.inl (hg.2.1 h)
  · intro v hv
    have hv' : (SB X K).getLsbD v = true := by
      rw [sb_comm' hX cx.hK]; exact (sb_split cx.hK hX hb' v).2 (Or.inl hv)
    have := hfree v hv'
    rwa [lift_get hs _ (sb_ne cx.hK hs hv).2.1] at this

/-- an enemy slider that attacks `K` under an occupancy containing `occ \ s` sees `K` through `s`. -/
theorem SChk_seen (cx : Ctx b K) (hnc : ¬ Chk b b.occ 0 K) {o' x : BB} {s : Nat} (hs : s < 64)
    (ho : ∀ u, u ≠ s → o'.getLsbD u = false → b.occ.getLsbD u = false)
    (h : SChk b o' x K) :
    (Attacks.bishopMoves K b.occ ||| Attacks.rookMoves K b.occ).getLsbD s = true := by
  obtain ⟨X, hX, hopp, _, hsl, hatt⟩ := h
  obtain ⟨hb, _, _⟩ := reveal hnc hX hopp ho hatt
  exact seen_of_between cx hs hX hb (Att_slider_geo hsl (att_lift hs ho hatt)).2

theorem maybePinned_get (s : Nat) :
    (maybePinnedBB b K).getLsbD s =
      ((Attacks.bishopMoves K b.occ ||| Attacks.rookMoves K b.occ).getLsbD s && (b.colorBB b.stm).getLsbD s) := by
  unfold maybePinnedBB
  rw [BitVec.getLsbD_and]

/-- **a man the king does not see never exposes the king.** -/
theorem unpinned_safe (cx : Ctx b K) (hnc : ¬ Chk b b.occ 0 K) {o' x : BB} {s : Nat} (hs : s < 64)
    (hown : (b.colorBB b.stm).getLsbD s = true) (hnp : (maybePinnedBB b K).getLsbD s = false)
    (ho : ∀ u, u ≠ s → o'.getLsbD u = false → b.occ.getLsbD u = false) :
    ¬ SChk b o' x K := by
  intro h
  have := SChk_seen cx hnc hs ho h
  rw [maybePinned_get, this, hown] at hnp
  exact Bool.noConfusion hnp

/-- **at most one enemy slider attacks `K` once `s` is lifted.** -/
theorem slider_unique (cx : Ctx b K) (hnc : ¬ Chk b b.occ 0 K) {s X Y : Nat} (hs : s < 64)
    (hX : X < 64) (hY : Y < 64)
    (oX : (b.colorBB b.stm.flip).getLsbD X = true) (oY : (b.colorBB b.stm.flip).getLsbD Y = true)
    (sX : isSlider (b.pieceAt X) = true) (sY : isSlider (b.pieceAt Y) = true)
    (aX : Att (b.occ &&& ~~~ bit s) b.stm.flip (b.pieceAt X) X K)
    (aY : Att (b.occ &&& ~~~ bit s) b.stm.flip (b.pieceAt Y) Y K) : X = Y := by
  have ho : ∀ u, u ≠ s → (b.occ &&& ~~~ bit s).getLsbD u = false → b.occ.getLsbD u = false := by
    intro u hne hu; rwa [lift_get hs _ hne] at hu
  have bX := (reveal hnc hX oX ho aX).1
  have bY := (reveal hnc hY oY ho aY).1
  rw [sb_comm' hX cx.hK] at bX
  rw [sb_comm' hY cx.hK] at bY
  have key : ∀ {A B : Nat}, A < 64 → B < 64 → (b.colorBB b.stm.flip).getLsbD A = true →
      isSlider (b.pieceAt B) = true → Att (b.occ &&& ~~~ bit s) b.stm.flip (b.pieceAt B) B K →
      (SB K A).getLsbD s = true → (SB K B).getLsbD A = true → False := by
    intro A B hA hB oA sB aB bA hAB
    have hf := (Att_slider_geo sB aB).2 A (by rw [sb_comm' hB cx.hK]; exact hAB)
    rw [lift_get hs _ (Ne.symm (sb_ne cx.hK hA bA).2.1), occ_of_opp A oA] at hf
    exact Bool.noConfusion hf
  rcases sb_same_ray cx.hK hX hY bX bY with h | h | h
  · exact h
  · exact (key hX hY oX sY aY bX h).elim
  · exact (key hY hX oY sX aX bY h).elim

/-! ### packaging -/

/-- a promotion code that fits the origin square. -/
def promoFor (b : Board) (s : Nat) : Nat := if PL.relRank b.stm s = 6 then 5 else 0

theorem promoFor_lt (s : Nat) : promoFor b s < 8 := by
  unfold promoFor; split <;> decide

theorem promoFor_ok (s : Nat) : PL.promoOK b s (promoFor b s) := by
  unfold PL.promoOK promoFor
  split <;> simp

/-- a safe pseudo-legal pawn move is a legal pawn move. -/
theorem mk_hasLegal (cx : Ctx b K) {s t pr : Nat} (hs : s < 64) (ht : t < 64) (hpr : pr < 8)
    (hown : (b.colorBB b.stm).getLsbD s = true) (hp : b.pieceAt s = .pawn)
    (hto : (b.colorBB b.stm).getLsbD t = false) (hpo : PL.promoOK b s pr)
    (hcl : PL.PLpush1 b s t ∨ PL.PLpush2 b s t ∨ PL.PLcapture b s t ∨ PL.PLep b s t)
    (hsafe : PL.PL b s t pr → Rules.inCheck (Rules.applyCore (abs b) ⟨s, t, decPromo pr⟩) b.stm = false) :
    HasLegal b .pawn := by
  have hPL : PL.PL b s t pr := by
    rw [PL_iff_kind cx.wf s t pr hs, hp]
    exact ⟨hown, hto, hpo, hcl⟩
  exact ⟨s, t, pr, hs, ht, hpr, hp, hPL, hsafe hPL⟩

/-- the data of a legal pawn move. -/
theorem hasLegal_pawn_elim (cx : Ctx b K) (h : HasLegal b .pawn) :
    ∃ s t pr, s < 64 ∧ t < 64 ∧ (b.colorBB b.stm).getLsbD s = true ∧ b.pieceAt s = .pawn ∧
      (b.colorBB b.stm).getLsbD t = false ∧
      (PL.PLpush1 b s t ∨ PL.PLpush2 b s t ∨ PL.PLcapture b s t ∨ PL.PLep b s t) ∧
      PL.PL b s t pr ∧ Rules.inCheck (Rules.applyCore (abs b) ⟨s, t, decPromo pr⟩) b.stm = false := by
  obtain ⟨s, t, pr, hs, ht, _, hp, hPL, hi⟩ := h
  have hk := (PL_iff_kind cx.wf s t pr hs).1 hPL
  rw [hp] at hk
  exact ⟨s, t, pr, hs, ht, hk.1, hp, hk.2.1, hk.2.2.2, hPL, hi⟩

/-! ### pawn-move geometry -/

theorem own_pawn_bb (cx : Ctx b K) {s : Nat} (hs : s < 64) (hp : b.pieceAt s = .pawn) :
    (b.pieceBB .pawn).getLsbD s = true := (cx.wf.piece_iff s hs .pawn (by decide)).2 hp

/-- a pseudo-legal single push or capture is not an en-passant capture. -/
theorem push1_not_ep {s t : Nat} (h : PL.PLpush1 b s t) : ¬ IsEp b s t := by
  intro e
  have h1 := h.1
  have h4 := e.2.2.2
  revert h1
  cases b.stm <;> simp only [PL.ahead] <;> omega

theorem push2_not_ep {s t : Nat} (h : PL.PLpush2 b s t) : ¬ IsEp b s t := by
  intro e
  have h1 := h.1
  have h4 := e.2.2.2
  revert h1
  cases b.stm <;> simp only [PL.ahead] <;> omega

theorem capture_not_ep (cx : Ctx b K) {s t : Nat} (h : PL.PLcapture b s t) : ¬ IsEp b s t := by
  intro e
  have := ((PL.PLDomain_of_valid cx.valid).ep e.2.1).2.2
  rw [← e.2.2.1, occ_of_opp t h.2] at this
  exact Bool.noConfusion this

theorem ep_isEp {s t : Nat} (hp : b.pieceAt s = .pawn) (h : PL.PLep b s t) : IsEp b s t := by
  refine ⟨hp, h.2.1, h.2.2, ?_⟩
  have h1 := h.1
  revert h1
  cases b.stm <;> simp only [PL.capGeom] <;> omega

theorem push1_to_free {s t : Nat} (h : PL.PLpush1 b s t) : (b.colorBB b.stm).getLsbD t = false := by
  cases hc : (b.colorBB b.stm).getLsbD t
  · rfl
  · have := h.2; rw [occ_of_own t hc] at this; exact Bool.noConfusion this

theorem capture_to_free (cx : Ctx b K) {s t : Nat} (h : PL.PLcapture b s t) :
    (b.colorBB b.stm).getLsbD t = false := opp_not_own cx t h.2

/-- the square ahead is unique. -/
theorem ahead_unique {c : Color} {s k t t' : Nat} (h : PL.ahead c s k t) (h' : PL.ahead c s k t') : t = t' := by
  cases c <;> simp only [PL.ahead] at h h' <;> omega

theorem ahead_flip (c : Color) (s t : Nat) : PL.ahead c.flip t 8 s ↔ PL.ahead c s 8 t := by
  cases c <;> simp only [PL.ahead, Color.flip] <;> omega

theorem ahead_ne {c : Color} {s t : Nat} (h : PL.ahead c s 8 t) : t ≠ s := by
  cases c <;> simp only [PL.ahead] at h <;> omega

theorem capGeom_ne {c : Color} {s t : Nat} (h : PL.capGeom c s t) : t ≠ s := by
  intro e; subst e; exact capGeom_irrefl c t h

end ChessVerif.Mate.StalePawns
