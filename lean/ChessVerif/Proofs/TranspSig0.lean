/-
  C15 helper lemmas, part 7: signature 0.

  The table encodes "empty lane" as signature 0, so a probe of a key whose signature is 0 is answered
  from the LOWEST lane whose signature is 0 (`match64`).  A lane gets signature 0 in two ways only:
  it was never written since the last clear (then it holds the all-zero entry), or a store of a key
  with signature 0 wrote it — and such a store writes into the lane `match64` finds (the lowest
  zero lane) or, when no lane has signature 0, into the victim lane, which is then the only zero
  lane.  A store under a non-zero signature can only take zero lanes away.  Hence the invariant

      every lane with signature 0 holds the all-zero entry, or it is the lowest lane with
      signature 0 and holds the last effective store under (bucket, signature 0)            (`Sig0Lane`)

  which is proved here directly on the model, by induction on the operation sequence (the abstract
  table of `Spec.AbstractTT` never holds signature 0, so it is not used: key 0 is tracked in one
  direction only — from the model entry to the history).
-/
import ChessVerif.Proofs.TranspClauses

namespace ChessVerif.Model.Transp
open ChessVerif
open ChessVerif.Spec.AbstractTT (Stored LastStore exactT sigOf keeps)

/-- The signature-0 invariant of one bucket, relative to a predicate `P` on abstract entries
    ("is the last effective store under this bucket and signature 0"). -/
def Sig0Lane (P : Stored → Prop) (B : Bucket) : Prop :=
  ∀ i, i < 4 → B.sig i = 0 →
    B.get i = Entry.zero ∨ ((∀ j, j < i → B.sig j ≠ 0) ∧ ∃ st, P st ∧ Rep (B.get i) st)

theorem Bucket.zero_get (i : Nat) : Bucket.zero.get i = Entry.zero := by
  unfold Bucket.get; split <;> rfl

theorem Sig0Lane_zero (P : Stored → Prop) : Sig0Lane P Bucket.zero :=
  fun i _ _ => Or.inl (Bucket.zero_get i)

/-- The keep-deeper test never holds against the all-zero entry (depth 0) for a depth in `0..63`. -/
theorem not_keepCond_zero (gen : BitVec 8) (d : Int) (typ : BitVec 8) (hd : 0 ≤ d ∧ d ≤ 63) :
    ¬ keepCond Entry.zero gen d typ := by
  unfold keepCond
  rw [zero_depth]
  have : wrapS8 (d + Gen.Transp.keepDeeperMargin) = d + 2 := by
    simp only [Gen.Transp.keepDeeperMargin]; unfold wrapS8; omega
  rw [this]
  omega

/-- What the written entry represents. -/
def storedOf (s : StoreArgs) (mv : BitVec 16) : Stored :=
  { depth := s.d, typ := s.typ, value := s.value, ply := s.ply, move := mv, gen := s.gen }

theorem rep_storedOf (s : StoreArgs) (hv : s.Valid) (mv : BitVec 16) :
    Rep (mkEntry mv s.value s.ply s.d s.typ s.gen) (storedOf s mv) := by
  obtain ⟨h0, h63, ht⟩ := hv
  have hp := pack_depth_typ s.d s.typ ⟨h0, h63⟩ (by omega) mv (storedValue s.value s.ply) s.gen
  exact ⟨hp.1, hp.2, rfl, rfl, rfl⟩

/-- **The signature-0 invariant is preserved by `Insert` on a bucket.**  `P` / `P'` are the
    "last store" predicates before / after the store; the three hypotheses say how they are related
    (a store under another signature keeps it; a dropped bound keeps it; an effective store under
    signature 0 establishes it for the written entry). -/
theorem Sig0Lane_insert (P P' : Stored → Prop) (B : Bucket) (s : StoreArgs) (hv : s.Valid) (k : Sig)
    (hother : k ≠ 0 → ∀ st, P st → P' st)
    (hkeep : k = 0 → ∀ st, P st → keeps (some st) s → P' st)
    (hnew : k = 0 → ∀ mv, (s.mv ≠ 0 → mv = s.mv) → P' (storedOf s mv))
    (h : Sig0Lane P B) :
    Sig0Lane P' (B.insert k s.gen s.d s.ply s.mv s.value s.typ) := by
  rcases Bucket.insert_cases B k s.gen s.d s.ply s.mv s.value s.typ with
    ⟨j, hm, hk, he⟩ | ⟨j, hm, _, he⟩ | ⟨hm, r, hr, he⟩
  · -- keep-deeper: the bucket is unchanged
    rw [he]
    obtain ⟨hj, hkj, hlow⟩ := match64_sig_some hm
    intro i hi hsi
    rcases h i hi hsi with hz | ⟨hl, st, hP, hrep⟩
    · exact Or.inl hz
    · right
      refine ⟨hl, st, ?_, hrep⟩
      by_cases hk0 : k = 0
      · -- then `i` is the lane found, and the test held against its entry
        have hij : i = j := by
          rcases Nat.lt_trichotomy i j with h1 | h1 | h1
          · exact absurd (hk0 ▸ hsi) (hlow i h1)
          · exact h1
          · exact absurd (hk0 ▸ hkj) (hl j h1)
        subst hij
        exact hkeep hk0 st hP ((keepCond_iff_keeps _ st s hv hrep).1 hk)
      · exact hother hk0 st hP
  · -- the own lane `j` is overwritten; signatures are unchanged
    rw [he]
    obtain ⟨hj, hkj, hlow⟩ := match64_sig_some hm
    intro i hi hsi
    rw [Bucket.write_sig_same B j k _ hj hkj i hi] at hsi
    have hsigs : ∀ j', j' < i → (B.write j k (mkEntry (if s.mv = 0 then (B.get j).move else s.mv)
        s.value s.ply s.d s.typ s.gen)).sig j' = B.sig j' :=
      fun j' hj' => Bucket.write_sig_same B j k _ hj hkj j' (by omega)
    rw [Bucket.write_get B j i k _ hj hi]
    by_cases hij : i = j
    · subst hij
      rw [if_pos rfl]
      have hk0 : k = 0 := by rw [← hkj, hsi]
      right
      refine ⟨fun j' hj' => ?_, _, hnew hk0 _ ?_, rep_storedOf s hv _⟩
      · rw [hsigs j' hj']; exact hk0 ▸ hlow j' hj'
      · intro hmv; rw [if_neg hmv]
    · rw [if_neg hij]
      rcases h i hi hsi with hz | ⟨hl, st, hP, hrep⟩
      · exact Or.inl hz
      · right
        have hk0 : k ≠ 0 := by
          intro hk0
          rcases Nat.lt_trichotomy i j with h1 | h1 | h1
          · exact hlow i h1 (hk0 ▸ hsi)
          · exact hij h1
          · exact hl j h1 (hk0 ▸ hkj)
        exact ⟨fun j' hj' => by rw [hsigs j' hj']; exact hl j' hj', st, hother hk0 st hP, hrep⟩
  · -- the key was absent: lane `r` is replaced
    rw [he]
    have hno := match64_sig_none hm
    intro i hi hsi
    rw [Bucket.write_sig B r i k _ hr hi] at hsi
    rw [Bucket.write_get B r i k _ hr hi]
    have hsigs : ∀ j', j' < i → (B.write r k (mkEntry s.mv s.value s.ply s.d s.typ s.gen)).sig j' =
        if j' = r then k else B.sig j' :=
      fun j' hj' => Bucket.write_sig B r j' k _ hr (by omega)
    by_cases hir : i = r
    · subst hir
      rw [if_pos rfl] at hsi ⊢
      right
      refine ⟨fun j' hj' => ?_, _, hnew hsi s.mv (fun _ => rfl), rep_storedOf s hv _⟩
      rw [hsigs j' hj', if_neg (by omega)]
      exact hsi ▸ hno j' (by omega)
    · rw [if_neg hir] at hsi ⊢
      have hk0 : k ≠ 0 := fun hk0 => hno i hi (hk0 ▸ hsi)
      rcases h i hi hsi with hz | ⟨hl, st, hP, hrep⟩
      · exact Or.inl hz
      · right
        refine ⟨fun j' hj' => ?_, st, hother hk0 st hP, hrep⟩
        rw [hsigs j' hj']
        split
        · exact hk0
        · exact hl j' hj'

/-! ### the table -/

/-- Table-level signature-0 invariant, relative to the history `ops`. -/
def Sig0Inv (ops : List Op) (t : Table) : Prop :=
  ∀ b, b < t.size → Sig0Lane (fun st => LastStore bucketIx ops t.size b 0 st) (t.bucket b)

theorem Sig0Inv_step (ops : List Op) (t : Table) (op : Op) (hv : op.Valid) (hinv : Inv t)
    (h : Sig0Inv ops t) : Sig0Inv (ops ++ [op]) (t.step op) := by
  cases op with
  | clear =>
    intro b _
    simp only [Table.step, Table.bucket_clear]
    exact Sig0Lane_zero _
  | resizeClear size =>
    intro b _
    simp only [Table.step, Table.bucket_new]
    exact Sig0Lane_zero _
  | store s =>
    intro b hb
    simp only [Table.step, Table.size_insert] at hb ⊢
    rw [Table.bucket_insert]
    have hix : bucketIx s.hash t.size < t.size := bucketIx_lt _ _ hinv.1
    by_cases e : b = bucketIx s.hash t.size
    · subst e
      simp only [hix, and_self, if_true]
      refine Sig0Lane_insert _ _ _ s hv (sigOf s.hash) ?_ ?_ ?_ (h _ hb)
      · intro hk st hP
        exact hP.extend s (fun _ hk' => absurd hk' hk)
      · intro _ st hP hkeeps
        refine hP.extend s (fun _ _ => ?_)
        obtain ⟨o, ho, h1, h2, h3⟩ := hkeeps
        cases ho
        exact ⟨h1, h2, h3⟩
      · intro hk mv hmv
        exact ⟨ops, s, [], rfl, (fun _ h => by cases h), rfl, hk, rfl, rfl, rfl, rfl, rfl, hmv,
          (fun _ h => by cases h)⟩
    · simp only [e, false_and, if_false]
      intro i hi hsi
      rcases h b hb i hi hsi with hz | ⟨hl, st, hP, hrep⟩
      · exact Or.inl hz
      · exact Or.inr ⟨hl, st, hP.extend s (fun hb' _ => absurd hb'.symm e), hrep⟩

theorem Sig0Inv_new (size : Nat) : Sig0Inv [] (Table.new size) := by
  intro b _
  rw [Table.bucket_new]
  exact Sig0Lane_zero _

theorem Sig0Inv_run_from (ops : List Op) : ∀ (pre : List Op) (t : Table), Inv t → Sig0Inv pre t →
    (∀ op, op ∈ ops → op.Valid) → Sig0Inv (pre ++ ops) (t.run ops) := by
  induction ops with
  | nil => intro pre t _ h _; simpa [Table.run] using h
  | cons op ops ih =>
    intro pre t hinv h hv
    have hvo : op.Valid := hv op List.mem_cons_self
    have := ih (pre ++ [op]) (t.step op) (Inv_step t op hvo hinv) (Sig0Inv_step pre t op hvo hinv h)
      (fun o ho => hv o (List.mem_cons_of_mem _ ho))
    simpa [Table.run] using this

/-- The signature-0 invariant holds after any valid operation sequence on a fresh table. -/
theorem Sig0Inv_run (size : Nat) (hsize : Spec.AbstractTT.ValidSize size) (ops : List Op)
    (hv : ∀ op, op ∈ ops → op.Valid) : Sig0Inv ops ((Table.new size).run ops) := by
  simpa using Sig0Inv_run_from ops [] _ (Inv_new size hsize) (Sig0Inv_new size) hv

/-- **A hit under signature 0** returns the all-zero entry or the last effective store under the
    probed bucket and signature 0. -/
theorem Sig0Inv.hit {ops : List Op} {t : Table} (h0 : Sig0Inv ops t) (ht : 0 < t.size)
    (h : BitVec 64) (hs : sigOf h = 0) (e : Entry) (hit : t.lookUp h = some e) :
    e = Entry.zero ∨
      ∃ st, LastStore bucketIx ops t.size (bucketIx h t.size) 0 st ∧ Rep e st := by
  have hix := bucketIx_lt h t.size ht
  rw [Table.lookUp_eq, hs] at hit
  obtain ⟨j, hj, he⟩ := (Bucket.lookUp_some_iff _ _ _).1 hit
  obtain ⟨hj4, hsj, _⟩ := match64_sig_some hj
  rcases h0 _ hix j hj4 hsj with hz | ⟨_, st, hP, hrep⟩
  · exact Or.inl (he.trans hz)
  · exact Or.inr ⟨st, hP, he ▸ hrep⟩

end ChessVerif.Model.Transp
