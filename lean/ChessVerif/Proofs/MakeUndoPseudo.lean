/-
  C03/C04 hypothesis discharge: in a valid position (`Board.valid`) every move accepted by
  `isPseudoLegal` satisfies `MakeOK`, the local preconditions of make/undo.  Sliders and leapers need
  nothing geometric; the castling clause uses "castling right ⇒ king and rook at home", the
  en-passant clause uses the validity facts about the recorded en-passant square and the pawn-move
  arithmetic of `isPseudoLegal`.
-/
import ChessVerif.Proofs.MakeUndoSteps
namespace ChessVerif.Board
open Rules

theorem abs_at (b : Board) (s : Nat) (hs : s < 64) : b.abs.at_ s = b.manAt s := by
  simp [Pos.at_, abs, vgetD_eq, hs]

/-- the parts of `Rules.valid` used here. -/
theorem valid_parts {p : Pos} (h : Rules.valid p = true) :
    (p.rights.wk = true → p.has 4 .white .king = true ∧ p.has 7 .white .rook = true) ∧
    (p.rights.wq = true → p.has 4 .white .king = true ∧ p.has 0 .white .rook = true) ∧
    (p.rights.bk = true → p.has 60 .black .king = true ∧ p.has 63 .black .rook = true) ∧
    (p.rights.bq = true → p.has 60 .black .king = true ∧ p.has 56 .black .rook = true) ∧
    (match p.ep with
      | none => true
      | some t =>
        let mover := p.turn.flip
        t < 64 && rank t == homeRank mover + 2 * up mover && p.empty t &&
        (match square? (file t) (rank t + up mover), square? (file t) (rank t - up mover) with
          | some front, some back => p.has front mover .pawn && p.empty back
          | _, _ => false)) = true ∧
    0 ≤ p.halfmove ∧ p.halfmove ≤ 100 := by
  unfold Rules.valid at h
  simp only [Bool.and_eq_true, Bool.or_eq_true, Bool.not_eq_true', decide_eq_true_eq] at h
  obtain ⟨⟨⟨⟨⟨⟨⟨⟨⟨⟨⟨_, _⟩, _⟩, _⟩, h1⟩, h2⟩, h3⟩, h4⟩, h5⟩, h6⟩, h7⟩, _⟩ := h
  refine ⟨?_, ?_, ?_, ?_, h5, h6, h7⟩
  · intro hr; rcases h1 with h | h; · simp [hr] at h
    exact h
  · intro hr; rcases h2 with h | h; · simp [hr] at h
    exact h
  · intro hr; rcases h3 with h | h; · simp [hr] at h
    exact h
  · intro hr; rcases h4 with h | h; · simp [hr] at h
    exact h

theorem manAt_some {b : Board} (h : WF b) {s : Nat} (hs : s < 64) {c : Color} {k : Piece}
    (hm : b.manAt s = some (c, k)) : (b.colorBB c).getLsbD s = true ∧ b.pieceAt s = k := by
  have hr := h.rep
  refine ⟨(hr.col c s hs).2 ⟨k, hm⟩, ?_⟩
  rw [hr.sq s hs]; simp [Cfg.kind, hm]

theorem manAt_none {b : Board} (h : WF b) {s : Nat} (hs : s < 64) (hm : b.manAt s = none) :
    b.pieceAt s = Piece.none := (h.rep.none_iff hs).1 hm

theorem abs_has {b : Board} (h : WF b) {s : Nat} (hs : s < 64) {c : Color} {k : Piece}
    (hh : b.abs.has s c k = true) : (b.colorBB c).getLsbD s = true ∧ b.pieceAt s = k := by
  unfold Pos.has at hh
  rw [abs_at b s hs] at hh
  exact manAt_some h hs (by simpa using hh)

theorem abs_empty {b : Board} (h : WF b) {s : Nat} (hs : s < 64) (hh : b.abs.empty s = true) :
    b.pieceAt s = Piece.none := by
  unfold Pos.empty at hh
  rw [abs_at b s hs] at hh
  exact manAt_none h hs (by simpa using hh)

theorem square?_some (f r : Int) (h : 0 ≤ f ∧ f < 8 ∧ 0 ≤ r ∧ r < 8) : square? f r = some (8 * r + f).toNat := by
  simp [square?, h]

/-- what validity says about a recorded en-passant square. -/
theorem ep_facts {b : Board} (hw : WF b) (hv : Rules.valid b.abs = true) (hep : b.ep ≠ 0) :
    b.ep < 64 ∧ b.pieceAt b.ep = Piece.none ∧
    (b.stm = Color.white → b.ep / 8 = 5 ∧ (b.colorBB .black).getLsbD (b.ep - 8) = true ∧ b.pieceAt (b.ep - 8) = Piece.pawn) ∧
    (b.stm = Color.black → b.ep / 8 = 2 ∧ (b.colorBB .white).getLsbD (b.ep + 8) = true ∧ b.pieceAt (b.ep + 8) = Piece.pawn) := by
  have h5 := (valid_parts hv).2.2.2.2.1
  have e : b.abs.ep = some b.ep := by simp [abs, hep]
  rw [e] at h5
  simp only [Bool.and_eq_true, decide_eq_true_eq, beq_iff_eq] at h5
  obtain ⟨⟨⟨hlt, hrank⟩, hemp⟩, hmatch⟩ := h5
  refine ⟨hlt, abs_empty hw hlt hemp, ?_, ?_⟩
  · intro hs
    have ht : b.abs.turn = Color.white := hs
    rw [ht] at hrank hmatch
    have hr5 : b.ep / 8 = 5 := by
      simp only [Color.flip, homeRank, up, Rules.rank] at hrank; omega
    have f1 : square? (file b.ep) (rank b.ep + up Color.white.flip) = some (b.ep - 8) := by
      rw [square?_some _ _ (by simp only [Rules.file, Rules.rank, up, Color.flip]; omega)]
      simp only [Rules.file, Rules.rank, up, Color.flip]; refine congrArg some ?_; omega
    have f2 : square? (file b.ep) (rank b.ep - up Color.white.flip) = some (b.ep + 8) := by
      rw [square?_some _ _ (by simp only [Rules.file, Rules.rank, up, Color.flip]; omega)]
      simp only [Rules.file, Rules.rank, up, Color.flip]; refine congrArg some ?_; omega
    rw [f1, f2] at hmatch
    simp only [Bool.and_eq_true] at hmatch
    exact ⟨hr5, abs_has hw (by omega) hmatch.1⟩
  · intro hs
    have ht : b.abs.turn = Color.black := hs
    rw [ht] at hrank hmatch
    have hr2 : b.ep / 8 = 2 := by
      simp only [Color.flip, homeRank, up, Rules.rank] at hrank; omega
    have f1 : square? (file b.ep) (rank b.ep + up Color.black.flip) = some (b.ep + 8) := by
      rw [square?_some _ _ (by simp only [Rules.file, Rules.rank, up, Color.flip]; omega)]
      simp only [Rules.file, Rules.rank, up, Color.flip]; refine congrArg some ?_; omega
    have f2 : square? (file b.ep) (rank b.ep - up Color.black.flip) = some (b.ep - 8) := by
      rw [square?_some _ _ (by simp only [Rules.file, Rules.rank, up, Color.flip]; omega)]
      simp only [Rules.file, Rules.rank, up, Color.flip]; refine congrArg some ?_; omega
    rw [f1, f2] at hmatch
    simp only [Bool.and_eq_true] at hmatch
    exact ⟨hr2, abs_has hw (by omega) hmatch.1⟩

theorem castles_bits : ∀ n : Fin 16,
    (((BitVec.ofFin n : Castles) &&& shortWhite == 0) = !(BitVec.ofFin n : Castles).getLsbD 0) ∧
    (((BitVec.ofFin n : Castles) &&& longWhite == 0) = !(BitVec.ofFin n : Castles).getLsbD 1) ∧
    (((BitVec.ofFin n : Castles) &&& shortBlack == 0) = !(BitVec.ofFin n : Castles).getLsbD 2) ∧
    (((BitVec.ofFin n : Castles) &&& longBlack == 0) = !(BitVec.ofFin n : Castles).getLsbD 3) := by decide

theorem castles_bits' (c : Castles) :
    ((c &&& shortWhite == 0) = !c.getLsbD 0) ∧ ((c &&& longWhite == 0) = !c.getLsbD 1) ∧
    ((c &&& shortBlack == 0) = !c.getLsbD 2) ∧ ((c &&& longBlack == 0) = !c.getLsbD 3) := castles_bits c.toFin

/-- castling right ⇒ king and rook at home (in board terms). -/
theorem castle_facts {b : Board} (hw : WF b) (hv : Rules.valid b.abs = true) :
    (b.castles.getLsbD 0 = true → b.pieceAt 4 = Piece.king ∧ (b.colorBB .white).getLsbD 7 = true ∧ b.pieceAt 7 = Piece.rook) ∧
    (b.castles.getLsbD 1 = true → b.pieceAt 4 = Piece.king ∧ (b.colorBB .white).getLsbD 0 = true ∧ b.pieceAt 0 = Piece.rook) ∧
    (b.castles.getLsbD 2 = true → b.pieceAt 60 = Piece.king ∧ (b.colorBB .black).getLsbD 63 = true ∧ b.pieceAt 63 = Piece.rook) ∧
    (b.castles.getLsbD 3 = true → b.pieceAt 60 = Piece.king ∧ (b.colorBB .black).getLsbD 56 = true ∧ b.pieceAt 56 = Piece.rook) := by
  obtain ⟨h1, h2, h3, h4, _⟩ := valid_parts hv
  refine ⟨fun h => ?_, fun h => ?_, fun h => ?_, fun h => ?_⟩
  · obtain ⟨a, c⟩ := h1 h
    exact ⟨(abs_has hw (by decide) a).2, abs_has hw (by decide) c⟩
  · obtain ⟨a, c⟩ := h2 h
    exact ⟨(abs_has hw (by decide) a).2, abs_has hw (by decide) c⟩
  · obtain ⟨a, c⟩ := h3 h
    exact ⟨(abs_has hw (by decide) a).2, abs_has hw (by decide) c⟩
  · obtain ⟨a, c⟩ := h4 h
    exact ⟨(abs_has hw (by decide) a).2, abs_has hw (by decide) c⟩

/-! ### taking `isPseudoLegal` apart -/

/-- the per-piece part of `isPseudoLegal` (copied from the model). -/
def plRest (b : Board) (m : Move) : Bool :=
  let from_ := (Move.src m)
  let fromBB := bit from_
  let to := (Move.dst m)
  let toBB := bit to
  let piece := b.pieceAt from_
  let occ := b.occ
  match piece with
  | .knight => Attacks.knightMoves from_ &&& toBB != 0
  | .bishop => Attacks.bishopMoves from_ occ &&& toBB != 0
  | .rook => Attacks.rookMoves from_ occ &&& toBB != 0
  | .queen => (Attacks.rookMoves from_ occ ||| Attacks.bishopMoves from_ occ) &&& toBB != 0
  | .king =>
    if from_ = 4 ∧ to = 6 ∧ b.stm = .white then
      !(b.castles &&& shortWhite == 0 || (bit 5 ||| bit 6) &&& occ != 0 ||
        b.isAttacked b.stm.flip occ (bit 4 ||| bit 5 ||| bit 6))
    else if from_ = 4 ∧ to = 2 ∧ b.stm = .white then
      !(b.castles &&& longWhite == 0 || (bit 3 ||| bit 2 ||| bit 1) &&& occ != 0 ||
        b.isAttacked b.stm.flip occ (bit 4 ||| bit 3 ||| bit 2))
    else if from_ = 60 ∧ to = 62 ∧ b.stm = .black then
      !(b.castles &&& shortBlack == 0 || (bit 61 ||| bit 62) &&& occ != 0 ||
        b.isAttacked b.stm.flip occ (bit 60 ||| bit 61 ||| bit 62))
    else if from_ = 60 ∧ to = 58 ∧ b.stm = .black then
      !(b.castles &&& longBlack == 0 || (bit 59 ||| bit 58 ||| bit 57) &&& occ != 0 ||
        b.isAttacked b.stm.flip occ (bit 60 ||| bit 59 ||| bit 58))
    else Attacks.kingMoves from_ &&& toBB != 0
  | .pawn =>
    if (from_ < to ∧ b.stm = .black) ∨ (from_ > to ∧ b.stm = .white) then false else
    let promoOK :=
      if relRankBB b.stm 6 &&& fromBB != 0 then decide (2 ≤ (Move.promo m) ∧ (Move.promo m) ≤ 5) else decide ((Move.promo m) = 0)
    if !promoOK then false else
    match absDiff (fileOf from_) (fileOf to) with
    | 0 =>
      match absDiff (rankOf from_) (rankOf to) with
      | 1 => occ &&& toBB == 0
      | 2 =>
        if fromBB &&& relRankBB b.stm 1 == 0 then false else
        occ &&& (toBB ||| bit ((from_ + to) / 2)) == 0
      | _ => false
    | 1 =>
      if absDiff (rankOf from_) (rankOf to) ≠ 1 then false else
      let epBB : BB := if b.ep ≠ 0 then bit b.ep else 0
      (b.colorBB b.stm.flip ||| epBB) &&& toBB != 0
    | _ => false
  | .none => true

theorem pl_split {b : Board} {m : Move} (h : isPseudoLegal b m = true) :
    (b.colorBB b.stm).getLsbD (Move.src m) = true ∧ (b.colorBB b.stm).getLsbD (Move.dst m) = false ∧
    (Move.promo m ≠ 0 → b.pieceAt (Move.src m) = Piece.pawn) ∧ plRest b m = true := by
  unfold isPseudoLegal at h
  dsimp only at h
  split at h
  · simp at h
  rename_i h1
  split at h
  · simp at h
  rename_i h2
  split at h
  · simp at h
  rename_i h3
  rw [and_bit_eq_zero _ _ (src_lt m)] at h1
  have h2' : (b.colorBB b.stm &&& bit (Move.dst m) == 0) = true := by simpa using h2
  rw [and_bit_eq_zero _ _ (dst_lt m)] at h2'
  refine ⟨by simpa using h1, by simpa using h2', ?_, h⟩
  intro hp
  exact Decidable.byContradiction (fun hne => h3 ⟨hp, hne⟩)

theorem and_ne_zero_false {X occ : BB} (h0 : X &&& occ = 0) {s : Nat} (hX : X.getLsbD s = true) :
    occ.getLsbD s = false := by
  have := congrArg (fun y => y.getLsbD s) h0
  simpa [hX] using this

theorem WF.empty_of_occ {b : Board} (h : WF b) {s : Nat} (hs : s < 64) (ho : b.occ.getLsbD s = false) :
    b.pieceAt s = Piece.none := by
  have := (h.col s hs)
  simp only [occ, BitVec.getLsbD_or, Bool.or_eq_false_iff] at ho
  rw [ho.1, ho.2] at this
  exact Decidable.byContradiction (fun hne => by simpa using this.2 hne)

theorem WF.occ_of_color {b : Board} {c : Color} {s : Nat} (hc : (b.colorBB c).getLsbD s = true) :
    b.occ.getLsbD s = true := by
  cases c <;> simp [occ, hc]

theorem kingMoves_no_castle :
    (Attacks.kingMoves 4 &&& bit 6 != 0) = false ∧ (Attacks.kingMoves 4 &&& bit 2 != 0) = false ∧
    (Attacks.kingMoves 60 &&& bit 62 != 0) = false ∧ (Attacks.kingMoves 60 &&& bit 58 != 0) = false := by
  decide +kernel

theorem between_bits :
    (bit 5 ||| bit 6 : BB).getLsbD 5 = true ∧ (bit 5 ||| bit 6 : BB).getLsbD 6 = true ∧
    (bit 3 ||| bit 2 ||| bit 1 : BB).getLsbD 3 = true ∧ (bit 3 ||| bit 2 ||| bit 1 : BB).getLsbD 2 = true ∧
    (bit 61 ||| bit 62 : BB).getLsbD 61 = true ∧ (bit 61 ||| bit 62 : BB).getLsbD 62 = true ∧
    (bit 59 ||| bit 58 ||| bit 57 : BB).getLsbD 59 = true ∧ (bit 59 ||| bit 58 ||| bit 57 : BB).getLsbD 58 = true := by
  decide +kernel

/-- the castling clause of `MakeOK` from pseudo-legality and validity. -/
theorem pl_castle {b : Board} {m : Move} (hw : WF b) (hv : Rules.valid b.abs = true) (hk : b.pieceAt (Move.src m) = Piece.king)
    (hrest : plRest b m = true) (rf rt : Nat) (hh : hop (b.pieceAt (Move.src m)) m = some (rf, rt)) :
    b.pieceAt rf = Piece.rook ∧ (b.colorBB b.stm).getLsbD rf = true ∧ b.pieceAt rt = Piece.none ∧
      b.pieceAt (Move.dst m) = Piece.none := by
  obtain ⟨_, hcase⟩ := hop_some hh
  obtain ⟨c0, c1, c2, c3⟩ := castle_facts hw hv
  obtain ⟨k0, k1, k2, k3⟩ := castles_bits' b.castles
  obtain ⟨n0, n1, n2, n3⟩ := kingMoves_no_castle
  obtain ⟨t5, t6, t3, t2, t61, t62, t59, t58⟩ := between_bits
  simp only [plRest, hk] at hrest
  rcases hcase with ⟨e1, e2, e3, e4⟩ | ⟨e1, e2, e3, e4⟩ | ⟨e1, e2, e3, e4⟩ | ⟨e1, e2, e3, e4⟩ <;>
    subst e3 <;> subst e4 <;> rw [e1, e2] at hrest <;> rw [e2]
  · cases hs : b.stm
    · simp [hs] at hrest
      obtain ⟨⟨a1, a2⟩, _⟩ := hrest
      have a1' : b.castles.getLsbD 0 = true := by
        cases hg : b.castles.getLsbD 0
        · rw [hg] at k0; exact absurd (by simpa using k0) a1
        · rfl
      obtain ⟨_, r1, r2⟩ := c0 a1'
      exact ⟨r2, r1, hw.empty_of_occ (by decide) (and_ne_zero_false a2 t5), hw.empty_of_occ (by decide) (and_ne_zero_false a2 t6)⟩
    · simp [hs] at hrest
      exact absurd (by simpa using n0) hrest
  · cases hs : b.stm
    · simp [hs] at hrest
      obtain ⟨⟨a1, a2⟩, _⟩ := hrest
      have a1' : b.castles.getLsbD 1 = true := by
        cases hg : b.castles.getLsbD 1
        · rw [hg] at k1; exact absurd (by simpa using k1) a1
        · rfl
      obtain ⟨_, r1, r2⟩ := c1 a1'
      exact ⟨r2, r1, hw.empty_of_occ (by decide) (and_ne_zero_false a2 t3), hw.empty_of_occ (by decide) (and_ne_zero_false a2 t2)⟩
    · simp [hs] at hrest
      exact absurd (by simpa using n1) hrest
  · cases hs : b.stm
    · simp [hs] at hrest
      exact absurd (by simpa using n2) hrest
    · simp [hs] at hrest
      obtain ⟨⟨a1, a2⟩, _⟩ := hrest
      have a1' : b.castles.getLsbD 2 = true := by
        cases hg : b.castles.getLsbD 2
        · rw [hg] at k2; exact absurd (by simpa using k2) a1
        · rfl
      obtain ⟨_, r1, r2⟩ := c2 a1'
      exact ⟨r2, r1, hw.empty_of_occ (by decide) (and_ne_zero_false a2 t61), hw.empty_of_occ (by decide) (and_ne_zero_false a2 t62)⟩
  · cases hs : b.stm
    · simp [hs] at hrest
      exact absurd (by simpa using n3) hrest
    · simp [hs] at hrest
      obtain ⟨⟨a1, a2⟩, _⟩ := hrest
      have a1' : b.castles.getLsbD 3 = true := by
        cases hg : b.castles.getLsbD 3
        · rw [hg] at k3; exact absurd (by simpa using k3) a1
        · rfl
      obtain ⟨_, r1, r2⟩ := c3 a1'
      exact ⟨r2, r1, hw.empty_of_occ (by decide) (and_ne_zero_false a2 t59), hw.empty_of_occ (by decide) (and_ne_zero_false a2 t58)⟩

def pawnPromoOK (b : Board) (m : Move) : Bool :=
  if relRankBB b.stm 6 &&& bit (Move.src m) != 0 then decide (2 ≤ (Move.promo m) ∧ (Move.promo m) ≤ 5)
  else decide ((Move.promo m) = 0)

def pawnGeom (b : Board) (m : Move) : Bool :=
  match absDiff (fileOf (Move.src m)) (fileOf (Move.dst m)) with
  | 0 =>
    match absDiff (rankOf (Move.src m)) (rankOf (Move.dst m)) with
    | 1 => b.occ &&& bit (Move.dst m) == 0
    | 2 =>
      if bit (Move.src m) &&& relRankBB b.stm 1 == 0 then false else
      b.occ &&& (bit (Move.dst m) ||| bit ((Move.src m + Move.dst m) / 2)) == 0
    | _ => false
  | 1 =>
    if absDiff (rankOf (Move.src m)) (rankOf (Move.dst m)) ≠ 1 then false else
    let epBB : BB := if b.ep ≠ 0 then bit b.ep else 0
    (b.colorBB b.stm.flip ||| epBB) &&& bit (Move.dst m) != 0
  | _ => false

theorem plRest_pawn {b : Board} {m : Move} (hp : b.pieceAt (Move.src m) = Piece.pawn) (h : plRest b m = true) :
    ¬ ((Move.src m < Move.dst m ∧ b.stm = .black) ∨ (Move.src m > Move.dst m ∧ b.stm = .white)) ∧
    pawnPromoOK b m = true ∧ pawnGeom b m = true := by
  have e : plRest b m =
      if (Move.src m < Move.dst m ∧ b.stm = .black) ∨ (Move.src m > Move.dst m ∧ b.stm = .white) then false else
      if !pawnPromoOK b m then false else pawnGeom b m := by
    simp only [plRest, hp]; rfl
  rw [e] at h
  by_cases hd : (Move.src m < Move.dst m ∧ b.stm = .black) ∨ (Move.src m > Move.dst m ∧ b.stm = .white)
  · rw [if_pos hd] at h; simp at h
  · rw [if_neg hd] at h
    cases hk : pawnPromoOK b m
    · rw [hk] at h; simp at h
    · rw [hk] at h; simp at h; exact ⟨hd, rfl, h⟩

theorem pawnGeom_cases {b : Board} {m : Move} (h : pawnGeom b m = true) :
    (absDiff (fileOf (Move.src m)) (fileOf (Move.dst m)) = 0 ∧ absDiff (rankOf (Move.src m)) (rankOf (Move.dst m)) = 1) ∨
    (absDiff (fileOf (Move.src m)) (fileOf (Move.dst m)) = 0 ∧ absDiff (rankOf (Move.src m)) (rankOf (Move.dst m)) = 2 ∧
      b.occ &&& (bit (Move.dst m) ||| bit ((Move.src m + Move.dst m) / 2)) = 0) ∨
    (absDiff (fileOf (Move.src m)) (fileOf (Move.dst m)) = 1 ∧ absDiff (rankOf (Move.src m)) (rankOf (Move.dst m)) = 1) := by
  unfold pawnGeom at h
  split at h
  · rename_i hf
    split at h
    · rename_i hr; exact Or.inl ⟨hf, hr⟩
    · rename_i hr
      split at h
      · simp at h
      · exact Or.inr (Or.inl ⟨hf, hr, by simpa using h⟩)
    · simp at h
  · rename_i hf
    split at h
    · simp at h
    · rename_i hr
      exact Or.inr (Or.inr ⟨hf, Decidable.byContradiction (fun hne => hr hne)⟩)
  · simp at h

theorem absDiff_cases (a b k : Nat) (h : absDiff a b = k) : a = b + k ∨ b = a + k := by
  unfold absDiff at h; split at h <;> omega

/-- promotion clause. -/
theorem pl_promo {b : Board} {m : Move} (hp : b.pieceAt (Move.src m) = Piece.pawn) (hrest : plRest b m = true)
    (hpr : Move.promo m ≠ 0) : 2 ≤ Move.promo m ∧ Move.promo m ≤ 5 := by
  obtain ⟨_, hok, _⟩ := plRest_pawn hp hrest
  unfold pawnPromoOK at hok
  split at hok
  · simpa using hok
  · simp [hpr] at hok

/-- en-passant clause: the square beside the capturing pawn holds the enemy pawn. -/
theorem pl_ep_cap {b : Board} {m : Move} (hw : WF b) (hv : Rules.valid b.abs = true)
    (hown : (b.colorBB b.stm).getLsbD (Move.src m) = true)
    (hp : b.pieceAt (Move.src m) = Piece.pawn) (hrest : plRest b m = true) (hep : b.ep ≠ 0) (hd : b.ep = Move.dst m) :
    (b.colorBB b.stm.flip).getLsbD ((Move.dst m) % 8 + 8 * ((Move.src m) / 8)) = true := by
  obtain ⟨hlt, hempty, hwhite, hblack⟩ := ep_facts hw hv hep
  have hs := src_lt m
  have hdl := dst_lt m
  obtain ⟨hdir, _, hgeom⟩ := plRest_pawn hp hrest
  have hg := pawnGeom_cases hgeom
  cases hstm : b.stm
  · -- white to move: the black pawn stands on ep - 8
    obtain ⟨r5, hb, _⟩ := hwhite hstm
    rw [hd] at r5 hb
    have hle : Move.src m ≤ Move.dst m := by
      rcases Nat.lt_or_ge (Move.dst m) (Move.src m) with h | h
      · exact absurd (Or.inr ⟨h, hstm⟩) hdir
      · exact h
    have hne : Move.src m ≠ Move.dst m - 8 := by
      intro e
      rw [← e] at hb
      rw [hstm] at hown
      exact hw.disj_at _ ⟨hown, hb⟩
    rcases hg with ⟨hf, hr⟩ | ⟨hf, hr, hocc⟩ | ⟨hf, hr⟩
    · exfalso; apply hne
      (rcases absDiff_cases _ _ _ hf with f1 | f1 <;> rcases absDiff_cases _ _ _ hr with r1 | r1 <;>
        simp only [fileOf, rankOf] at f1 r1 <;> omega)
    · have hmid : (Move.src m + Move.dst m) / 2 = Move.dst m - 8 := by
        (rcases absDiff_cases _ _ _ hf with f1 | f1 <;> rcases absDiff_cases _ _ _ hr with r1 | r1 <;>
        simp only [fileOf, rankOf] at f1 r1 <;> omega)
      have := congrArg (fun y => y.getLsbD (Move.dst m - 8)) hocc
      simp [hmid, bit_getLsbD _ _ (show Move.dst m - 8 < 64 by omega), WF.occ_of_color hb] at this
    · have : Move.dst m % 8 + 8 * (Move.src m / 8) = Move.dst m - 8 := by
        (rcases absDiff_cases _ _ _ hf with f1 | f1 <;> rcases absDiff_cases _ _ _ hr with r1 | r1 <;>
        simp only [fileOf, rankOf] at f1 r1 <;> omega)
      simp only [Color.flip]
      rw [this]; exact hb
  · -- black to move: the white pawn stands on ep + 8
    obtain ⟨r2, hb, _⟩ := hblack hstm
    rw [hd] at r2 hb
    have hle : Move.dst m ≤ Move.src m := by
      rcases Nat.lt_or_ge (Move.src m) (Move.dst m) with h | h
      · exact absurd (Or.inl ⟨h, hstm⟩) hdir
      · exact h
    have hne : Move.src m ≠ Move.dst m + 8 := by
      intro e
      rw [← e] at hb
      rw [hstm] at hown
      exact hw.disj_at _ ⟨hb, hown⟩
    rcases hg with ⟨hf, hr⟩ | ⟨hf, hr, hocc⟩ | ⟨hf, hr⟩
    · exfalso; apply hne
      (rcases absDiff_cases _ _ _ hf with f1 | f1 <;> rcases absDiff_cases _ _ _ hr with r1 | r1 <;>
        simp only [fileOf, rankOf] at f1 r1 <;> omega)
    · have hmid : (Move.src m + Move.dst m) / 2 = Move.dst m + 8 := by
        (rcases absDiff_cases _ _ _ hf with f1 | f1 <;> rcases absDiff_cases _ _ _ hr with r1 | r1 <;>
        simp only [fileOf, rankOf] at f1 r1 <;> omega)
      have := congrArg (fun y => y.getLsbD (Move.dst m + 8)) hocc
      simp [hmid, bit_getLsbD _ _ (show Move.dst m + 8 < 64 by omega), WF.occ_of_color hb] at this
    · have : Move.dst m % 8 + 8 * (Move.src m / 8) = Move.dst m + 8 := by
        (rcases absDiff_cases _ _ _ hf with f1 | f1 <;> rcases absDiff_cases _ _ _ hr with r1 | r1 <;>
        simp only [fileOf, rankOf] at f1 r1 <;> omega)
      simp only [Color.flip]
      rw [this]; exact hb

/-- Every pseudo-legal move of a valid position meets the local preconditions of make/undo. -/
theorem isPseudoLegal_makeOK {b : Board} {m : Move} (hv : b.valid = true) (hpl : isPseudoLegal b m = true) :
    MakeOK b m := by
  unfold valid at hv
  simp only [Bool.and_eq_true] at hv
  obtain ⟨hwf, hrv⟩ := hv
  have hw : WF b := (wf_iff b).2 hwf
  obtain ⟨o1, o2, o3, hrest⟩ := pl_split hpl
  obtain ⟨_, _, _, _, _, f0, f100⟩ := valid_parts hrv
  have hf : b.abs.halfmove = b.fifty := rfl
  rw [hf] at f0 f100
  have hs := src_lt m
  have hd := dst_lt m
  refine ⟨o1, o2, ?_, ?_, ?_, ?_, ?_, by omega, by omega⟩
  · -- the capture square holds an enemy man or nothing
    intro hne
    cases hep : b.isEnPassant m
    · have e : b.captureSq m = Move.dst m := by unfold captureSq; simp [hep]
      rw [e] at hne ⊢
      have := (hw.col _ hd).2 hne
      cases hstm : b.stm <;> rw [hstm] at o2 <;> simp only [Color.flip] <;> rcases this with h | h <;> simp_all
    · have e : b.captureSq m = (Move.dst m) % 8 + 8 * ((Move.src m) / 8) := by unfold captureSq; simp [hep]
      rw [e]
      unfold isEnPassant at hep
      simp only [Bool.and_eq_true, bne_iff_ne, ne_eq, beq_iff_eq] at hep
      exact pl_ep_cap hw hrv o1 hep.2 hrest hep.1.1 hep.1.2
  · -- an en-passant destination is empty
    intro hep
    unfold isEnPassant at hep
    simp only [Bool.and_eq_true, bne_iff_ne, ne_eq, beq_iff_eq] at hep
    have := (ep_facts hw hrv hep.1.1).2.1
    rw [hep.1.2] at this; exact this
  · -- castling
    intro rf rt hh
    exact pl_castle hw hrv (hop_some hh).1 hrest rf rt hh
  · -- promotion
    intro hp
    exact ⟨o3 hp, pl_promo (o3 hp) hrest hp⟩
  · -- en-passant square in range
    by_cases h0 : b.ep = 0
    · omega
    · exact (ep_facts hw hrv h0).1

end ChessVerif.Board
