/-
  The termination laws (`FuelLaws`, Proofs/SearchFuel.lean) hold for the demonstration components of
  Proofs/SearchDemo.lean: the hypotheses of the fuel theorems are jointly satisfiable.  The list
  picker satisfies the picker-length law on EVERY board (what is left plus what was yielded is exactly
  the generated list), not only on the boards without men on which its other laws are checked.
-/
import ChessVerif.Proofs.SearchScoreDemo
import ChessVerif.Proofs.SearchFuelGo

namespace ChessVerif
namespace Search

/-- the list picker: `left + yielded = len(gen)`. -/
theorem demo_reach_len (K : Keys) (b : Board) (hm : Move) (p : List Move) (ys : List Move)
    (h : Reach (demoComp K) b hm p ys) : p.length + ys.length = (MoveGen.gen b).length := by
  induction h with
  | init => rfl
  | next hr hok hp ih =>
    rename_i p0 ys0 ps hs m p'
    cases p0 with
    | nil => simp [demoComp] at hp
    | cons m0 r =>
      simp only [demoComp, Option.some.injEq, Prod.mk.injEq] at hp
      obtain ⟨_, e2⟩ := hp
      subst e2
      simp only [List.length_cons] at ih ⊢
      omega
  | weight hr ih => exact ih

/-- the picker-length law of `demoComp`, on every board. -/
theorem demo_pick_len (K : Keys) (ps : Unit) (b : Board) (hs : List StackMove) (hm : Move) (p ys : List Move) (m : Move)
    (p' : List Move) (hr : Reach (demoComp K) b hm p ys) (hp : (demoComp K).pickNext ps b hs p = some (m, p')) :
    ys.length < (MoveGen.gen b).length := by
  have := demo_reach_len K b hm p ys hr
  cases p with
  | nil => simp [demoComp] at hp
  | cons m0 r =>
    simp only [List.length_cons] at this
    omega

theorem demo_fuelLaws (K : Keys) : FuelLaws (demoComp K) NoMen (fun _ => 0) :=
  FuelLaws.of_score (demo_scoreLaws K) (fun ps b hs hm p ys m p' _ _ hr _ hp => demo_pick_len K ps b hs hm p ys m p' hr hp)

/-- the reductions of `demoComp` (`lmr = max(d-2, 0)`, `nmpDepth = max(d-3, 0)` tried for `d > 2`, no
    internal iterative reduction) satisfy the depth laws. -/
theorem demo_depthLaws (K : Keys) : DepthLaws (demoComp K) where
  lmr_nonneg := fun d _ _ _ _ _ => by
    show 0 ≤ max (d - 2) 0
    omega
  nmp_range := fun _ d _ _ h1 _ _ => by
    show 0 ≤ max (d - 3) 0 ∧ max (d - 3) 0 < d
    omega
  iir_depth := fun _ _ _ h => by simp [demoComp] at h

end Search
end ChessVerif
