/-
  C02, helper for the examples: membership in `MoveGen.playable` decided on the rule-book side
  (the executable `Board.inCheck` after `makeMove` cannot be evaluated in the kernel when it reaches
  the rook magic tables; by the proved bridge it equals `Rules.inCheck` of the rule-book successor).
-/
import ChessVerif.Proofs.EpTargetRun
import ChessVerif.Proofs.AbsMake

namespace ChessVerif.EpTarget
open ChessVerif Board Rules Bridge

theorem coreAgrees_make (K : Keys) {b : Board} {m : Move} (hv : Board.valid b = true) (hm : m ∈ MoveGen.gen b) :
    CoreAgrees (abs (b.makeMove K m).1) (Rules.applyCore (abs b) (decodeMove m)) := by
  have g := AbsMake.genMove_of hv hm
  exact ⟨AbsMake.abs_make_men K g, AbsMake.abs_make_turn K b m, AbsMake.abs_make_rights K g,
    AbsMake.abs_make_halfmove K g, AbsMake.abs_make_fullmove K b m⟩

/-- the representation invariant survives `MakeMove` of a generated move. -/
theorem wf_make (K : Keys) {b : Board} {m : Move} (hv : Board.valid b = true) (hm : m ∈ MoveGen.gen b) :
    WFP (b.makeMove K m).1 :=
  (wf_make_rep K (WFP_of_valid hv).rep (AbsMake.genMove_of hv hm).ok).wf

/-- the engine's legality filter (`MakeMove`, then `InCheck(mover)`) read on the rule-book side. -/
theorem inCheck_make (K : Keys) {b : Board} {m : Move} (hv : Board.valid b = true) (hm : m ∈ MoveGen.gen b) :
    (b.makeMove K m).1.inCheck b.stm = Rules.inCheck (Rules.apply (abs b) (decodeMove m)) b.stm := by
  rw [inCheck_iff (wf_make K hv hm), make_refines_of_core K hv hm (coreAgrees_make K hv hm)]

theorem mem_playable_iff (K : Keys) {b : Board} {m : Move} (hv : Board.valid b = true) :
    m ∈ MoveGen.playable K b ↔
      m ∈ MoveGen.gen b ∧ Rules.inCheck (Rules.apply (abs b) (decodeMove m)) b.stm = false := by
  unfold MoveGen.playable
  rw [List.mem_filter]
  constructor
  · rintro ⟨hm, h⟩
    refine ⟨hm, ?_⟩
    rw [← inCheck_make K hv hm]
    simpa using h
  · rintro ⟨hm, h⟩
    refine ⟨hm, ?_⟩
    rw [inCheck_make K hv hm, h]
    rfl

end ChessVerif.EpTarget
