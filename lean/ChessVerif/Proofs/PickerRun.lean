/-
  C16: the five-stage state machine of the picker, iterated to exhaustion, written as the hash
  move followed by two `drain`s (Proofs/PickerSelect.lean):

      yieldedW b hm rk = [hash move, if pseudo-legal]
                         ++ (drain 0 (ranked noisy moves)).yielded
                         ++ (drain (−HashMove+1) ((drain 0 …).left ++ ranked quiet moves)).yielded

  provided the frame fits into the move store (`StoreFits`, which bounds the number of `Next` calls).
  Core Lean only.
-/
import ChessVerif.Model.Picker
import ChessVerif.Proofs.PickerSelect

namespace ChessVerif.Proofs.PickerRun
open ChessVerif Picker ChessVerif.Proofs.PickerSelect

/-- thresholds of the two yielding stages (from the source, via Gen). -/
abbrev thrG : Int := Gen.Heur.goodNoisyThreshold
abbrev thrR : Int := Gen.Heur.restThreshold

/-- the generated noisy / quiet moves with the weights the ranking loops give them. -/
def noisyR (b : Board) (hm : Move) (rk : Rank) : List WMove :=
  ((MoveGen.genNoisy b).map alloc).map (rankNoisyOne hm rk)
def quietR (b : Board) (hm : Move) (rk : Rank) : List WMove :=
  ((MoveGen.genNotNoisy b).map alloc).map (rankQuietOne hm rk)

theorem noisyR_length (b : Board) (hm : Move) (rk : Rank) : (noisyR b hm rk).length = (MoveGen.genNoisy b).length := by
  simp [noisyR]
theorem quietR_length (b : Board) (hm : Move) (rk : Rank) : (quietR b hm rk).length = (MoveGen.genNotNoisy b).length := by
  simp [quietR]

theorem current_snoc (st : Stage) (d : List WMove) (w : WMove) (r : List WMove) :
    current { stage := st, done := d ++ [w], rest := r } = w := by
  simp [current]

theorem drain_none {thr : Int} {rest : List WMove} (n : Nat) (h : selectBest thr rest = none) :
    drain thr (n + 1) rest = ([], rest) := by
  unfold drain; rw [h]

theorem drain_some {thr : Int} {rest : List WMove} {k : Nat} (n : Nat) (h : selectBest thr rest = some k) :
    drain thr (n + 1) rest =
      ((takeAt rest k).1 :: (drain thr n (takeAt rest k).2).1, (drain thr n (takeAt rest k).2).2) := by
  conv => lhs; unfold drain
  rw [h]

variable (b : Board) (hm : Move) (rk : Rank)

/-- stage 5 iterated = drain with the rest threshold. -/
theorem run_yieldRest : ∀ (n : Nat) (s : PSt), s.stage = .yieldRest → s.rest.length < n →
    run b hm rk n s = (drain thrR n s.rest).1 := by
  intro n
  induction n with
  | zero => intro s _ h; omega
  | succ k ih =>
    intro s hs hn
    have hnext : next b hm rk s = nextYieldRest s := by unfold next; rw [hs]
    unfold run
    rw [hnext]
    unfold nextYieldRest
    cases hsel : selectBest Gen.Heur.restThreshold s.rest with
    | none => rw [drain_none k hsel]
    | some best =>
      obtain ⟨x, hx, _⟩ := selectBest_some hsel
      have hl := takeAt_length hx
      rw [drain_some k hsel]
      simp only
      rw [current_snoc]
      congr 1
      exact ih _ hs (by simp only; omega)

/-- what stage 3 falls through to when nothing above 0 is left: stages 4 and 5. -/
def afterNoisy (s : PSt) (left : List WMove) : PSt :=
  { stage := .yieldRest, done := s.done, rest := left ++ quietR b hm rk }

/-- stage 3 iterated, then (same call) stages 4 and 5. -/
theorem run_yieldGood : ∀ (n : Nat) (s : PSt), s.stage = .yieldGoodNoisy →
    s.rest.length + (quietR b hm rk).length < n →
    run b hm rk n s =
      (drain thrG n s.rest).1 ++
        (drain thrR (n - (drain thrG n s.rest).1.length) ((drain thrG n s.rest).2 ++ quietR b hm rk)).1 := by
  intro n
  induction n with
  | zero => intro s _ h; omega
  | succ k ih =>
    intro s hs hn
    have hnext : next b hm rk s = nextYieldGoodNoisy b hm rk s := by unfold next; rw [hs]
    cases hsel : selectBest Gen.Heur.goodNoisyThreshold s.rest with
    | none =>
      -- fall through: genQuiet, yieldRest
      have hn2 : next b hm rk s = next b hm rk (afterNoisy b hm rk s s.rest) := by
        rw [hnext]
        unfold nextYieldGoodNoisy
        simp only [hsel]
        unfold nextGenQuiet next afterNoisy quietR
        rfl
      have hrun : run b hm rk (k + 1) s = run b hm rk (k + 1) (afterNoisy b hm rk s s.rest) := by
        unfold run; rw [hn2]
      rw [hrun, run_yieldRest b hm rk (k + 1) _ rfl (by simp only [afterNoisy, List.length_append]; omega)]
      rw [drain_none k hsel]
      simp only [List.nil_append, List.length_nil, Nat.sub_zero, afterNoisy]
    | some best =>
      obtain ⟨x, hx, _⟩ := selectBest_some hsel
      have hl := takeAt_length hx
      unfold run
      rw [hnext]
      unfold nextYieldGoodNoisy
      simp only [hsel]
      rw [current_snoc]
      have e := drain_some (thr := thrG) k hsel
      rw [e]
      simp only [List.cons_append, List.length_cons, Nat.add_sub_add_right]
      congr 1
      exact ih _ hs (by simp only; omega)

/-- the frame of this position fits into the move store (`move.StoreSize` entries), incl. the
    hash move's own entry. -/
def StoreFits (b : Board) : Prop := (MoveGen.gen b).length + 1 ≤ Gen.Heur.storeSize.toNat

theorem gen_length (b : Board) : (MoveGen.gen b).length = (MoveGen.genNoisy b).length + (MoveGen.genNotNoisy b).length := by
  simp [MoveGen.gen]

/-- the state after the ranking loop of stage 2. -/
def afterGenNoisy (d : List WMove) : PSt := { stage := .yieldGoodNoisy, done := d, rest := noisyR b hm rk }

theorem next_genNoisy (d : List WMove) :
    next b hm rk { stage := .genNoisy, done := d, rest := [] } = next b hm rk (afterGenNoisy b hm rk d) := by
  unfold next
  simp only [afterGenNoisy]
  unfold nextGenNoisy noisyR
  simp only [List.nil_append]

theorem run_genNoisy (n : Nat) (d : List WMove) :
    run b hm rk n { stage := .genNoisy, done := d, rest := [] } = run b hm rk n (afterGenNoisy b hm rk d) := by
  cases n with
  | zero => rfl
  | succ k => unfold run; rw [next_genNoisy]

/-- the two drains the picker performs. -/
def stage3 (n : Nat) : List WMove × List WMove := drain thrG n (noisyR b hm rk)
def stage5 (n : Nat) : List WMove × List WMove :=
  drain thrR (n - (stage3 b hm rk n).1.length) ((stage3 b hm rk n).2 ++ quietR b hm rk)

/-- **The staged decomposition** of the iterated picker. -/
theorem yieldedW_eq (hfit : StoreFits b) :
    yieldedW b hm rk =
      if b.isPseudoLegal hm then
        { move := hm, weight := Gen.Heur.hashWeight } :: ((stage3 b hm rk (fuel - 1)).1 ++ (stage5 b hm rk (fuel - 1)).1)
      else (stage3 b hm rk fuel).1 ++ (stage5 b hm rk fuel).1 := by
  have hlen := gen_length b
  have hf : fuel = Gen.Heur.storeSize.toNat + 2 := rfl
  unfold StoreFits at hfit
  unfold yieldedW
  split
  · rename_i hpl
    have e : fuel = (fuel - 1) + 1 := by omega
    conv => lhs; rw [e]; unfold run
    have hnext : next b hm rk init = (true, { stage := .genNoisy, done := [{ move := hm, weight := Gen.Heur.hashWeight }], rest := [] }) := by
      unfold next init nextPickHash
      simp only [hpl, ↓reduceIte, List.nil_append]
    rw [hnext]
    simp only
    have hc : current { stage := .genNoisy, done := [{ move := hm, weight := Gen.Heur.hashWeight }], rest := [] } =
        { move := hm, weight := Gen.Heur.hashWeight } := by simp [current]
    rw [hc, run_genNoisy, run_yieldGood b hm rk _ _ rfl (by
      simp only [afterGenNoisy, noisyR_length, quietR_length]; omega)]
    rfl
  · rename_i hpl
    have hnext : next b hm rk init = next b hm rk { stage := .genNoisy, done := [], rest := [] } := by
      conv => lhs; unfold next init nextPickHash
      simp only [hpl, Bool.false_eq_true, ↓reduceIte]
      conv => rhs; unfold next
    have hrun : run b hm rk fuel init = run b hm rk fuel { stage := .genNoisy, done := [], rest := [] } := by
      have e : fuel = (fuel - 1) + 1 := by omega
      rw [e]; unfold run; rw [hnext]
    rw [hrun, run_genNoisy, run_yieldGood b hm rk _ _ rfl (by
      simp only [afterGenNoisy, noisyR_length, quietR_length]; omega)]
    rfl

end ChessVerif.Proofs.PickerRun
