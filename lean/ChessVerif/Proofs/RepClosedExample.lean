/-
  C10 closed, non-vacuity data (kernel-checked facts on the executable model; everything about the
  rule book beyond the first four plies comes from `periodic_game`, not from evaluation).

  The knight shuffle Ng1-f3 Ng8-f6 Nf3-g1 Nf6-g8 on `4k1n1/8/8/8/8/8/8/4K1N1 w - - 0 1`
  (`Rep.Example.sparseB`, `Rep.Example.shuffle`, concrete keys `testKeys`), once and repeated `n` times.
  For `n = 33` the game has 132 reversible plies: the engine's int8 halfmove clock has wrapped to
  −124 and the board is far outside `Board.valid`, yet the closed theorem applies.
-/
import ChessVerif.Proofs.RepClosedPeriodic
import ChessVerif.Proofs.RepExample

namespace ChessVerif
namespace RepClosed
namespace Example
open Rules Board Rep Rep.Example

set_option maxRecDepth 100000

theorem sparse_valid : Board.valid sparseB = true := by decide +kernel
theorem sparse_epNormal : epNormal sparseB.abs = true := by decide +kernel
/-- the start board was loaded by the FEN model: its history is the single from-scratch hash. -/
theorem sparse_hashes : sparseB.hashes = [calcHash testKeys sparseB] := by decide +kernel

/-- the shuffle as rule-book moves. -/
def shuffleMv : List Mv := shuffle.map decodeMove

theorem shuffle_enc : shuffleMv.map encodeMove = shuffle := by decide
theorem shuffle_canon : Canon shuffle := by unfold Canon; decide
theorem shuffle_legalMv : legalGame sparseB.abs shuffleMv := shuffle_legal

/-- `NoCollision` of the first round (one direction of the kernel-checked `shuffle_faithful`). -/
theorem shuffle_noCollision : NoCollision testKeys (boards testKeys sparseB shuffle) := by
  intro x hx y hy h
  exact (shuffle_faithful (x.abs, x.calcHash testKeys) (List.mem_map.2 ⟨x, hx, rfl⟩)
    (y.abs, y.calcHash testKeys) (List.mem_map.2 ⟨y, hy, rfl⟩)).1 h

/-- after one round the engine's board shows the start position again (both counters differ). -/
theorem shuffle_back : nm (run testKeys sparseB shuffle).abs = nm sparseB.abs := by decide +kernel

/-- **the shuffle repeated `n` times meets the hypotheses of the closed theorem, for every `n`.** -/
theorem long_game (n : Nat) :
    legalGame sparseB.abs (rep n shuffleMv) ∧ NoCollision testKeys (boards testKeys sparseB (rep n shuffle)) := by
  have h := periodic_game testKeys sparseB shuffleMv (validNC_of_valid sparse_valid) sparse_epNormal sparse_hashes
    shuffle_legalMv (by rw [shuffle_enc]; exact shuffle_back) (by rw [shuffle_enc]; exact shuffle_noCollision) n
  rw [rep_map, shuffle_enc] at h
  exact h

/-- … hence the model's count is the rule-book count, whatever the length of the game. -/
theorem long_closed (n : Nat) :
    (run testKeys sparseB (rep n shuffle)).threefold =
      min 3 (occurrences (run testKeys sparseB (rep n shuffle)).abs (positions sparseB.abs (rep n shuffleMv))) := by
  have h := threefold_eq_nocollision_mv testKeys sparseB (rep n shuffleMv) (validNC_of_valid sparse_valid)
    sparse_epNormal sparse_hashes (long_game n).1
  rw [rep_map, shuffle_enc] at h
  exact h (long_game n).2

end Example
end RepClosed
end ChessVerif
