/-
  A family of boards on which the component laws can be checked by hand (no men on the board): it
  shows that the hypotheses of the search theorems are jointly satisfiable for every `Comp`.  The
  intended instance is `Good := Board.valid`, with the laws discharged by C01–C05 and C16.
-/
import ChessVerif.Proofs.SearchLaws
import ChessVerif.Proofs.MakeUndoNested

namespace ChessVerif
namespace Search
variable {σ π : Type}

/-- no men at all, no castling right, no en-passant square. -/
def NoMen (b : Board) : Prop :=
  b.colorBB .white = 0 ∧ b.colorBB .black = 0 ∧ b.castles = 0 ∧ b.ep = 0

theorem bits_zero : bits 0#64 = [] := by decide

theorem gen_noMen {b : Board} (h : NoMen b) : MoveGen.gen b = [] := by
  obtain ⟨hw, hb, hc, he⟩ := h
  have hs : b.colorBB b.stm = 0 := by cases b.stm <;> assumption
  have ht : b.colorBB b.stm.flip = 0 := by cases b.stm <;> assumption
  simp [MoveGen.gen, MoveGen.genNoisy, MoveGen.genNotNoisy, MoveGen.G.of, MoveGen.kingMoves, MoveGen.knightMoves,
    MoveGen.bishopMoves, MoveGen.rookMoves, MoveGen.queenMoves, MoveGen.pieceMoves, MoveGen.promoPushMoves,
    MoveGen.pawnCaptureMoves, MoveGen.pawnCapturePromoMoves, MoveGen.enPassant, MoveGen.singlePushMoves,
    MoveGen.doublePushMoves, MoveGen.shortCastle, MoveGen.longCastle, hs, ht, hc, he, bits_zero, Board.occ, hw, hb]

theorem noMen_null (K : Keys) {b : Board} (h : NoMen b) : NoMen (b.makeNull K).1 := by
  obtain ⟨_, _, h3, h4, _, h6, _⟩ := Board.makeNull_facts K b
  obtain ⟨hw, hb, hc, _⟩ := h
  refine ⟨?_, ?_, by rw [h6]; exact hc, h4⟩
  · simpa [Board.colorBB, h3] using hw
  · simpa [Board.colorBB, h3] using hb

/-- A small concrete instance of the components: no table, evaluation 0, the picker walks through
    the generated moves in generation order, quiescence tries every noisy move. -/
def demoComp (K : Keys) : Comp Unit (List Move) where
  keys := K
  eval := fun _ => 0
  ttProbe := fun _ _ _ => none
  ttStore := fun _ _ _ _ _ _ _ => ()
  failHigh := fun _ _ _ _ _ => ()
  pickInit := fun b _ => MoveGen.gen b
  pickNext := fun _ _ _ p => match p with | [] => none | m :: r => some (m, r)
  setWeight := fun p _ => p
  qMoves := fun _ b _ => (MoveGen.genNoisy b).map fun m => (m, 1)
  rfpCut := fun d se beta => decide (d < 8) && decide (se ≥ beta + d * 100) && decide (beta > -Inf + maxPlies)
  nmpTry := fun _ d se beta => decide (d > 2) && decide (se ≥ beta) && decide (-9936 ≤ beta)
  nmpDepth := fun d _ _ => max (d - 3) 0
  iir := fun _ _ _ => false
  lmrTry := fun d q => decide (d > 1) && decide (q > 3)
  lmr := fun d _ _ _ => max (d - 2) 0
  lmpCut := fun d _ q => decide (q > 1 + d * d)
  windowSize := 44
  deltaCut := fun _ _ _ _ => false
  hashFull := fun _ => 0
  nextGen := fun _ => ()

/-- `demoComp` has no persistent state: the invariant is trivial. -/
instance : PsInv Unit := ⟨fun _ => True⟩

/-- the list picker: what is left plus what was yielded covers the generated moves, and what is left
    is generated. -/
theorem demo_reach (K : Keys) (b : Board) (hm : Move) (p : List Move) (ys : List Move)
    (h : Reach (demoComp K) b hm p ys) :
    (∀ m, m ∈ p → m ∈ MoveGen.gen b) ∧ (∀ m, m ∈ MoveGen.gen b → m ∈ p ∨ m ∈ ys) := by
  induction h with
  | init => exact ⟨fun _ h => h, fun _ h => Or.inl h⟩
  | next hr hok hp ih =>
    rename_i p0 ys0 ps hs m p'
    cases p0 with
    | nil => simp [demoComp] at hp
    | cons m0 r =>
      simp only [demoComp, Option.some.injEq, Prod.mk.injEq] at hp
      obtain ⟨e1, e2⟩ := hp
      subst e1; subst e2
      refine ⟨fun m' h' => ih.1 m' (List.mem_cons_of_mem _ h'), fun m' h' => ?_⟩
      rcases ih.2 m' h' with h'' | h''
      · rcases List.mem_cons.1 h'' with e | e
        · exact Or.inr (by rw [e]; exact List.mem_cons_self)
        · exact Or.inl e
      · exact Or.inr (List.mem_cons_of_mem _ h'')
  | weight hr ih => exact ih

/-- the picker and quiescence laws of `demoComp` hold on every board. -/
theorem demo_pick_mem (K : Keys) (b : Board) (hm : Move) (p ys : List Move) (ps : Unit) (hs : List StackMove) (m : Move)
    (p' : List Move) (hr : Reach (demoComp K) b hm p ys) (hp : (demoComp K).pickNext ps b hs p = some (m, p')) :
    m ∈ MoveGen.gen b := by
  cases p with
  | nil => simp [demoComp] at hp
  | cons m0 r =>
    simp only [demoComp, Option.some.injEq, Prod.mk.injEq] at hp
    exact (demo_reach K b hm _ ys hr).1 m (by rw [← hp.1]; exact List.mem_cons_self)

theorem demo_pick_complete (K : Keys) (b : Board) (hm : Move) (p ys : List Move) (ps : Unit) (hs : List StackMove)
    (hr : Reach (demoComp K) b hm p ys) (hp : (demoComp K).pickNext ps b hs p = none) :
    ∀ m, m ∈ MoveGen.gen b → m ∈ ys := by
  cases p with
  | nil =>
    intro m h
    rcases (demo_reach K b hm _ ys hr).2 m h with h' | h'
    · cases h'
    · exact h'
  | cons m0 r => simp [demoComp] at hp

theorem demo_q_mem (K : Keys) (b : Board) (ps : Unit) (hs : List StackMove) (m : Move) (w : Score)
    (h : (m, w) ∈ (demoComp K).qMoves ps b hs) : m ∈ MoveGen.gen b := by
  simp only [demoComp, List.mem_map, Prod.mk.injEq] at h
  obtain ⟨m', h1, h2, _⟩ := h
  subst h2
  exact List.mem_append_left _ h1

theorem demo_laws (K : Keys) : Laws (demoComp K) NoMen where
  undo_make := fun b m hg hm => by rw [gen_noMen hg] at hm; cases hm
  good_make := fun b m hg _ hm => by rw [gen_noMen hg] at hm; cases hm
  undo_null := fun b hg _ => Board.undoNull_makeNull' K b (by rw [hg.2.2.2]; decide)
  good_null := fun b hg _ => noMen_null K hg
  pick_mem := fun ps b hs hm p ys m p' _ _ hr _ hp => demo_pick_mem K b hm p ys ps hs m p' hr hp
  pick_complete := fun ps b hs hm p ys _ _ hr _ hp => demo_pick_complete K b hm p ys ps hs hr hp
  q_mem := fun ps b hs m w _ hq => demo_q_mem K b ps hs m w hq
  gen_ne_zero := fun b m hg hm => by rw [gen_noMen hg] at hm; cases hm
  ok_store := fun _ _ _ _ _ _ _ _ _ _ => trivial
  ok_failHigh := fun _ _ _ _ _ _ => trivial
  ok_nextGen := fun _ _ => trivial

theorem noMen_empty : NoMen Board.empty := ⟨by decide, by decide, by decide, by decide⟩

end Search
end ChessVerif
