/-
  C19 (a), the hypothesis `noInt16Wrap`: magnitude bounds, part 4 — the shipped coefficients and
  valid boards.

  * `boundOK_shipped`  — the closed check of Proofs/EvalBoundTotal.lean evaluated by the kernel on the
                         REGENERATED coefficient set (fails to build when the coefficients outgrow it);
  * `men15_of_valid`   — a valid board has at most 15 men besides the king per side (promotion bound);
  * `noWrap_of_valid`  — hence no relevant int16 wrap on any valid board.
-/
import ChessVerif.Proofs.EvalBoundTotal
import ChessVerif.Proofs.FenCount

namespace ChessVerif.Eval.Bound
open ChessVerif ChessVerif.Eval

/-- the closed magnitude check holds for `eval.Coefficients` as extracted from /repo. -/
theorem boundOK_shipped : boundOK shipped = true := by decide +kernel

theorem own_eq (b : Board) (c : Color) (p : Piece) :
    (input b).own c p = b.colorBB c &&& b.pieceBB p := by
  show b.pieceBB p &&& b.colorBB c = _
  exact BitVec.and_comm _ _

theorem men15_of_valid (b : Board) (hv : b.valid = true) (c : Color) : Men15 (input b) c := by
  simp only [Board.valid, Bool.and_eq_true] at hv
  obtain ⟨hwf, hval⟩ := hv
  simp only [Rules.valid, Bool.and_eq_true, List.all_eq_true] at hval
  have hc := hval.1.1.1.1.1.1.1.1.1.1.1 c (by cases c <;> simp)
  have hp := hc.2
  simp only [Rules.promotedBound, decide_eq_true_eq,
    Board.count_eq_popcount hwf c .pawn (by decide), Board.count_eq_popcount hwf c .knight (by decide),
    Board.count_eq_popcount hwf c .bishop (by decide), Board.count_eq_popcount hwf c .rook (by decide),
    Board.count_eq_popcount hwf c .queen (by decide)] at hp
  unfold Men15
  simp only [own_eq]
  omega

theorem fifty_of_valid (b : Board) (hv : b.valid = true) : 0 ≤ (input b).fifty ∧ (input b).fifty ≤ 100 := by
  simp only [Board.valid, Bool.and_eq_true] at hv
  obtain ⟨_, hval⟩ := hv
  simp only [Rules.valid, Bool.and_eq_true, decide_eq_true_eq] at hval
  exact ⟨hval.1.1.2, hval.1.2⟩

/-- **No relevant int16 wrap on a valid board**, for every coefficient set that passes `boundOK`. -/
theorem noWrap_of_valid (cs : CoeffSet Int) (hb : boundOK cs = true) (b : Board) (hv : b.valid = true) :
    noInt16Wrap cs (input b) = true :=
  noWrap_of_boundOK cs (input b) hb (men15_of_valid b hv) (fifty_of_valid b hv)

end ChessVerif.Eval.Bound
