/-
  C12 helper lemmas, cheap part: `ofPred` membership, the file masks, king / knight tables
  (kernel evaluation over the 64 entries), the pawn shift formulas (bit extensionality + omega) and
  the unfolding of the `InBetween` table to its cell function.
-/
import ChessVerif.Model.Attacks
import ChessVerif.Spec.Geometry

set_option linter.unusedSimpArgs false
set_option linter.unusedVariables false

open ChessVerif

namespace ChessVerif.AttacksProofs

theorem foldl_ofPred_get (p : Nat → Bool) (l : List Nat) (hl : ∀ s ∈ l, s < 64) (init : BB) (t : Nat) :
    (l.foldl (fun acc t => if p t then acc ||| bit t else acc) init).getLsbD t
      = (init.getLsbD t || (l.contains t && p t)) := by
  induction l generalizing init with
  | nil => simp
  | cons s l ih =>
    have hs : s < 64 := hl s (by simp)
    rw [List.foldl_cons, ih (fun x hx => hl x (by simp [hx]))]
    by_cases hp : p s
    · by_cases hst : s = t
      · subst hst; simp [hp, bit_getLsbD _ _ hs]
      · have hts : ¬ t = s := fun h => hst h.symm
        simp [hp, bit_getLsbD _ _ hs, hst, hts]
    · by_cases hst : s = t
      · subst hst; simp [hp]
      · have hts : ¬ t = s := fun h => hst h.symm
        simp [hp, hts]

theorem getLsbD_ofPred (p : Nat → Bool) (t : Nat) :
    (Geometry.ofPred p).getLsbD t = (decide (t < 64) && p t) := by
  unfold Geometry.ofPred
  rw [foldl_ofPred_get p _ (fun s hs => by simpa using hs)]
  simp

theorem aFile_get (k : Nat) : Attacks.aFileBB.getLsbD k = decide (k < 64 ∧ k % 8 = 0) := by
  by_cases h : k < 64
  · have := (by decide : ∀ k : Fin 64, Attacks.aFileBB.getLsbD k.val = decide (k.val < 64 ∧ k.val % 8 = 0)) ⟨k, h⟩
    simpa using this
  · have : 64 ≤ k := by omega
    simp [BitVec.getLsbD_of_ge _ _ this, h]

theorem hFile_get (k : Nat) : Attacks.hFileBB.getLsbD k = decide (k < 64 ∧ k % 8 = 7) := by
  by_cases h : k < 64
  · have := (by decide : ∀ k : Fin 64, Attacks.hFileBB.getLsbD k.val = decide (k.val < 64 ∧ k.val % 8 = 7)) ⟨k, h⟩
    simpa using this
  · have : 64 ≤ k := by omega
    simp [BitVec.getLsbD_of_ge _ _ this, h]

theorem sh0 : (0 : Nat) <<< 4 = 0 := by decide
theorem sh1 : (1 : Nat) <<< 4 = 16 := by decide

theorem pawnCapture_eq (b : BB) (c : Color) :
    Attacks.pawnCaptureMoves b c = Geometry.pawnCaptureSet b c := by
  apply BitVec.eq_of_getLsbD_eq
  intro t ht
  rw [Geometry.pawnCaptureSet, getLsbD_ofPred]
  rw [Bool.eq_iff_iff]
  cases c
  · simp only [Attacks.pawnCaptureMoves, Color.toNat, Color.flip, BitVec.getLsbD_or, BitVec.getLsbD_and,
      BitVec.getLsbD_shiftLeft, BitVec.getLsbD_ushiftRight, BitVec.getLsbD_not, aFile_get, hFile_get,
      Geometry.forward, Geometry.rankI, Geometry.fileDist, Geometry.fileI, sh0, sh1, Nat.zero_add,
      Bool.or_eq_true, Bool.and_eq_true, decide_eq_true_eq, List.any_eq_true, List.mem_range, beq_iff_eq,
      Bool.not_eq_true', decide_eq_false_iff_not]
    constructor
    · rintro ((⟨_, hb, _, _⟩ | ⟨_, hb, _, _⟩) | ⟨_, (⟨hb, _, _⟩ | ⟨hb, _, _⟩)⟩)
      · exact ⟨ht, t - 7, by omega, ⟨hb, by omega⟩, by omega⟩
      · exact ⟨ht, t - 9, by omega, ⟨hb, by omega⟩, by omega⟩
      · exact ⟨ht, 7 + (t - 16), by omega, ⟨hb, by omega⟩, by omega⟩
      · exact ⟨ht, 9 + (t - 16), by omega, ⟨hb, by omega⟩, by omega⟩
    · rintro ⟨_, x, hx, ⟨hb, hr⟩, hf⟩
      have hx' : x = t - 7 ∨ x = t - 9 := by omega
      rcases hx' with rfl | rfl
      · exact Or.inl (Or.inl ⟨⟨by omega, by omega⟩, hb, by omega, by omega⟩)
      · exact Or.inl (Or.inr ⟨⟨by omega, by omega⟩, hb, by omega, by omega⟩)
  · simp only [Attacks.pawnCaptureMoves, Color.toNat, Color.flip, BitVec.getLsbD_or, BitVec.getLsbD_and,
      BitVec.getLsbD_shiftLeft, BitVec.getLsbD_ushiftRight, BitVec.getLsbD_not, aFile_get, hFile_get,
      Geometry.forward, Geometry.rankI, Geometry.fileDist, Geometry.fileI, sh0, sh1, Nat.sub_zero,
      Bool.or_eq_true, Bool.and_eq_true, decide_eq_true_eq, List.any_eq_true, List.mem_range, beq_iff_eq,
      Bool.not_eq_true', decide_eq_false_iff_not]
    constructor
    · rintro ((⟨_, hb, _, _⟩ | ⟨_, hb, _, _⟩) | ⟨_, (⟨hb, _, _⟩ | ⟨hb, _, _⟩)⟩)
      · exact ⟨ht, 16 + t - 7, by omega, ⟨hb, by omega⟩, by omega⟩
      · exact ⟨ht, 16 + t - 9, by omega, ⟨hb, by omega⟩, by omega⟩
      · exact ⟨ht, 7 + t, by omega, ⟨hb, by omega⟩, by omega⟩
      · exact ⟨ht, 9 + t, by omega, ⟨hb, by omega⟩, by omega⟩
    · rintro ⟨_, x, hx, ⟨hb, hr⟩, hf⟩
      have hx' : x = 7 + t ∨ x = 9 + t := by omega
      rcases hx' with rfl | rfl
      · exact Or.inr ⟨⟨by omega, by omega⟩, Or.inl ⟨hb, by omega, by omega⟩⟩
      · exact Or.inr ⟨⟨by omega, by omega⟩, Or.inr ⟨hb, by omega, by omega⟩⟩

theorem pawnPush_eq (b : BB) (c : Color) :
    Attacks.pawnSinglePushMoves b c = Geometry.pawnPushSet b c := by
  apply BitVec.eq_of_getLsbD_eq
  intro t ht
  rw [Geometry.pawnPushSet, getLsbD_ofPred]
  rw [Bool.eq_iff_iff]
  cases c
  · simp only [Attacks.pawnSinglePushMoves, Color.toNat, Color.flip, BitVec.getLsbD_or, BitVec.getLsbD_and,
      BitVec.getLsbD_shiftLeft, BitVec.getLsbD_ushiftRight, BitVec.getLsbD_not,
      Geometry.forward, Geometry.rankI, Geometry.fileDist, Geometry.fileI, sh0, sh1, Nat.zero_add,
      Bool.or_eq_true, Bool.and_eq_true, decide_eq_true_eq, List.any_eq_true, List.mem_range, beq_iff_eq,
      Bool.not_eq_true', decide_eq_false_iff_not]
    constructor
    · rintro (⟨_, hb⟩ | ⟨_, hb⟩)
      · exact ⟨ht, t - 8, by omega, ⟨hb, by omega⟩, by omega⟩
      · exact ⟨ht, 8 + (t - 16), by omega, ⟨hb, by omega⟩, by omega⟩
    · rintro ⟨_, x, hx, ⟨hb, hr⟩, hf⟩
      have hx' : x = t - 8 := by omega
      subst hx'
      exact Or.inl ⟨⟨by omega, by omega⟩, hb⟩
  · simp only [Attacks.pawnSinglePushMoves, Color.toNat, Color.flip, BitVec.getLsbD_or, BitVec.getLsbD_and,
      BitVec.getLsbD_shiftLeft, BitVec.getLsbD_ushiftRight, BitVec.getLsbD_not,
      Geometry.forward, Geometry.rankI, Geometry.fileDist, Geometry.fileI, sh0, sh1, Nat.sub_zero,
      Bool.or_eq_true, Bool.and_eq_true, decide_eq_true_eq, List.any_eq_true, List.mem_range, beq_iff_eq,
      Bool.not_eq_true', decide_eq_false_iff_not]
    constructor
    · rintro (⟨_, hb⟩ | ⟨_, hb⟩)
      · exact ⟨ht, 16 + t - 8, by omega, ⟨hb, by omega⟩, by omega⟩
      · have h64 : 8 + t < 64 := BitVec.lt_of_getLsbD hb
        exact ⟨ht, 8 + t, by omega, ⟨hb, by omega⟩, by omega⟩
    · rintro ⟨_, x, hx, ⟨hb, hr⟩, hf⟩
      have hx' : x = 8 + t := by omega
      subst hx'
      exact Or.inr ⟨⟨by omega, by omega⟩, hb⟩

/-! ### Literal tables -/

theorem toBBArray_getD (l : List Nat) (i : Nat) :
    (Attacks.toBBArray l).getD i 0 = BitVec.ofNat 64 (l.getD i 0) := by
  unfold Attacks.toBBArray
  simp [Array.getD, List.getD]
  split <;> simp_all

theorem kingMoves_eq : ∀ sq, sq < 64 → Attacks.kingMoves sq = Geometry.kingSet sq := by
  have h : ∀ sq, sq < 64 → BitVec.ofNat 64 (Gen.Tables.kingMoves.getD sq 0) = Geometry.kingSet sq := by
    decide +kernel
  intro sq hsq
  rw [Attacks.kingMoves, Attacks.kingTbl, toBBArray_getD, h sq hsq]

theorem knightMoves_eq : ∀ sq, sq < 64 → Attacks.knightMoves sq = Geometry.knightSet sq := by
  have h : ∀ sq, sq < 64 → BitVec.ofNat 64 (Gen.Tables.knightMoves.getD sq 0) = Geometry.knightSet sq := by
    decide +kernel
  intro sq hsq
  rw [Attacks.knightMoves, Attacks.knightTbl, toBBArray_getD, h sq hsq]

/-! ### `InBetween` -/

/-- The cell of the model's `InBetween` table, and the statement the per-square kernel checks prove. -/
def inBetweenCellOf (a b : Nat) : BB :=
  Attacks.inBetweenCell ((a % 8 : Nat) : Int) ((a / 8 : Nat) : Int) ((b % 8 : Nat) : Int) ((b / 8 : Nat) : Int)

theorem inBetween_cell (a b : Nat) (ha : a < 64) (hb : b < 64) :
    Attacks.inBetween a b = inBetweenCellOf a b := by
  simp [Attacks.inBetween, Attacks.inBetweenTbl, Array.getD, ha, hb, inBetweenCellOf]

/-- Row `a` of the table, end squares masked off, equals the geometric definition (decidable). -/
def BetweenRowOK (a : Nat) : Prop :=
  ∀ b, b < 64 → inBetweenCellOf a b &&& ~~~(bit a ||| bit b) = Geometry.strictlyBetween a b

instance (a : Nat) : Decidable (BetweenRowOK a) := by unfold BetweenRowOK; infer_instance

end ChessVerif.AttacksProofs
