/-
  The board properties C01–C04 without the halfmove-clock side condition (DESIGN §6 O1).

  The quantifier of C01–C04 says "reached by playing moves", with no bound on the halfmove clock; the
  domain predicate `Board.valid` bounds the clock by 100 (what the FEN parser accepts) and the engine's
  clock field is an int8 that wraps at 128.  This file lifts the side conditions with the machinery of
  Proofs/RepClosedClock.lean: `ValidNC b` (`Board.valid` of `b` with the clock reset to 0) and
  `setFifty_make` (the clock flows only into the clock and the undo token).

  What genuinely depends on the clock:
  * C01 (playable = legal, closure), C04 (hash invariant): nothing.
  * C03 (undo ∘ make = id): the token stores the clock in 8 bits (sign-extended on write, read back as
    int8 — the model mirrors board.go): exact for every int8 value −128..127, negative ones included.
    The model's clock field is an `Int`, so "the clock is an int8" (`Int8Clock`) is a hypothesis there;
    it is a type invariant of the Go struct, it is preserved by every operation (`int8_make`, …) and
    it is necessary in the model (`int8_of_undo_make`).
  * C02 (`abs ∘ make = Rules.apply ∘ abs`): the rule book's clock is an unbounded integer, the engine's
    wraps: the equation holds modulo the clock always, and in full iff the clock does not wrap at this
    move (`make_refines_iff`).
-/
import ChessVerif.Proofs.RepClosedClock
import ChessVerif.Props.C03
import ChessVerif.Props.C05

namespace ChessVerif
namespace NC
set_option autoImplicit false
open Rules Board RepClosed

/-! ### the clock is an int8 -/

/-- the halfmove clock has a value of the Go type `int8` (`Depth`). -/
def Int8Clock (b : Board) : Prop := -128 ≤ b.fifty ∧ b.fifty ≤ 127

theorem wrapS8_range (x : Int) : -128 ≤ wrapS8 x ∧ wrapS8 x ≤ 127 := by
  unfold wrapS8; omega

/-- after `MakeMove` the clock is an int8, whatever it was before. -/
theorem int8_make (K : Keys) (b : Board) (m : Move) : Int8Clock (makeMove K b m).1 := by
  have e := makeMove_eq K b m
  unfold Int8Clock
  rw [e, AbsMake.make_fifty]
  split
  · exact ⟨by decide, by decide⟩
  · exact wrapS8_range _

theorem int8_null (K : Keys) {b : Board} (h : Int8Clock b) : Int8Clock (makeNull K b).1 := by
  unfold Int8Clock
  rw [(makeNull_facts K b).2.2.2.2.2.2.1]; exact h

theorem int8_of_valid {b : Board} (hv : Board.valid b = true) : Int8Clock b := by
  have V := (Playable.validP_iff _).1 (Bridge.rulesValid_of_valid hv)
  have h0 : 0 ≤ b.fifty := V.hm0
  have h1 : b.fifty ≤ 100 := V.hm100
  exact ⟨by omega, by omega⟩

theorem fiftyCnt_range (r : Reverse) : -128 ≤ r.fiftyCnt ∧ r.fiftyCnt ≤ 127 := wrapS8_range _

/-- `UndoMove` always writes an int8 into the clock. -/
theorem undo_fifty (b : Board) (m : Move) (r : Reverse) : (undoMove b m r).fifty = r.fiftyCnt := by
  rw [undoMove_eq]; rfl

/-- `Int8Clock` is NECESSARY for `undo ∘ make = id` in the model (whose clock field is an `Int`). -/
theorem int8_of_undo_make (K : Keys) {b : Board} {m : Move}
    (h : undoMove (makeMove K b m).1 m (makeMove K b m).2 = b) : Int8Clock b := by
  have e := congrArg Board.fifty h
  rw [undo_fifty] at e
  unfold Int8Clock
  rw [← e]; exact fiftyCnt_range _

/-! ### validity modulo the clock: basic consequences -/

theorem wf_of_validNC {b : Board} (hv : ValidNC b) : WF b := (wf_iff b).2 ((validNC_iff b).1 hv).1

theorem ep_lt_of_validNC {b : Board} (hv : ValidNC b) : b.ep < 64 := by
  by_cases h : b.ep = 0
  · rw [h]; decide
  · exact ((Props.C05.domain_of_valid hv).ep h).1

theorem isPseudoLegal_setFifty (b : Board) (x : Int) (m : Move) :
    isPseudoLegal (setFifty b x) m = isPseudoLegal b m := rfl

theorem inCheck_make_setFifty (K : Keys) (b : Board) (m : Move) (x : Int) (c : Color) :
    ((setFifty b x).makeMove K m).1.inCheck c = (b.makeMove K m).1.inCheck c := by
  have h := congrArg (fun B => Board.inCheck B c) (setFifty_make K b m x 0)
  simp only [inCheck_setFifty] at h
  exact h

/-! ### C05's bridge without the clock: generated = pseudo-legal by the rule book -/

theorem gen_iff_pseudoLegal (b : Board) (hv : ValidNC b) (m : Nat) :
    m ∈ MoveGen.gen b ↔
      m < 32768 ∧ pseudoLegal b.abs (decodeMove m) = true ∧ encodeMove (decodeMove m) = m := by
  rw [← gen_setFifty b 0, Bridge.gen_iff_pseudoLegal hv m, abs_setFifty0, pseudoLegal_nc]

theorem pseudoLegal_congr {p p' : Pos} (h : nc p = nc p') (mv : Mv) : pseudoLegal p mv = pseudoLegal p' mv := by
  rw [← pseudoLegal_nc p, ← pseudoLegal_nc p', h]

theorem not_valid_of_neg {b : Board} (h : b.fifty < 0) : Board.valid b = false := by
  cases hv : Board.valid b with
  | false => rfl
  | true =>
    have h0 : 0 ≤ b.fifty := ((Playable.validP_iff _).1 (Bridge.rulesValid_of_valid hv)).hm0
    omega

/-! ### C01 without the clock -/

/-- **C01, membership, any clock.** -/
theorem playable_iff (K : Keys) {b : Board} (hv : ValidNC b) (m : Move) :
    m ∈ MoveGen.playable K b ↔
      m < 32768 ∧ legal b.abs (decodeMove m) = true ∧ encodeMove (decodeMove m) = m := by
  rw [← playable_setFifty K b 0, Props.C01.playable_eq_legal K hv m, abs_setFifty0, legal_nc]

theorem legal_playable (K : Keys) {b : Board} (hv : ValidNC b) (mv : Mv) (h : legal b.abs mv = true) :
    encodeMove mv ∈ MoveGen.playable K b ∧ decodeMove (encodeMove mv) = mv := by
  have hz : legal (setFifty b 0).abs mv = true := by rw [abs_setFifty0, legal_nc]; exact h
  have := Props.C01.legal_playable K hv mv hz
  rw [playable_setFifty] at this
  exact this

theorem legalMoves_nc (p : Pos) : legalMoves (nc p) = legalMoves p := rfl

theorem mem_playable_decoded (K : Keys) {b : Board} (hv : ValidNC b) (mv : Mv) :
    mv ∈ (MoveGen.playable K b).map decodeMove ↔ mv ∈ legalMoves b.abs := by
  rw [← playable_setFifty K b 0, Props.C01.mem_playable_decoded K hv mv, abs_setFifty0, legalMoves_nc]

theorem playable_nodup (K : Keys) {b : Board} (hv : ValidNC b) : (MoveGen.playable K b).Nodup := by
  rw [← playable_setFifty K b 0]; exact Props.C01.playable_nodup K hv

theorem playable_decoded_nodup (K : Keys) {b : Board} (hv : ValidNC b) :
    ((MoveGen.playable K b).map decodeMove).Nodup := by
  rw [← playable_setFifty K b 0]; exact Props.C01.playable_decoded_nodup K hv

theorem playable_perm_legal (K : Keys) {b : Board} (hv : ValidNC b) :
    ((MoveGen.playable K b).map decodeMove).Perm (legalMoves b.abs) := by
  have h := Props.C01.playable_perm_legal K hv
  rw [playable_setFifty, abs_setFifty0, legalMoves_nc] at h
  exact h

/-- **closure, NO side condition**: a playable move from a `ValidNC` board leads to a `ValidNC`
    board. -/
theorem validNC_make (K : Keys) {b : Board} {m : Move} (hv : ValidNC b) (hm : m ∈ MoveGen.playable K b) :
    ValidNC (b.makeMove K m).1 := by
  have hmz : m ∈ MoveGen.playable K (setFifty b 0) := by rw [playable_setFifty]; exact hm
  have hvz' : Board.valid ((setFifty b 0).makeMove K m).1 = true :=
    Props.C01.valid_make_of_clock_lt K hv hmz (by rw [setFifty_fifty]; decide)
  have := validNC_of_valid hvz'
  unfold ValidNC at this ⊢
  rw [← setFifty_make K b m 0 0]; exact this

/-! null moves -/

theorem makeNull_setFifty (K : Keys) (b : Board) (x : Int) :
    (makeNull K (setFifty b x)).1 = setFifty (makeNull K b).1 x := by
  unfold makeNull
  by_cases h : b.ep = 0
  · have h' : (setFifty b x).ep = 0 := h
    simp only [h, h', ne_eq, not_true_eq_false, if_false]; rfl
  · have h' : (setFifty b x).ep ≠ 0 := h
    simp only [h, h', ne_eq, not_false_eq_true, if_true]; rfl

/-- rule-book side of the null move (as `SearchReal.rules_valid_null`, restated here to keep this file
    independent of the search development). -/
theorem rules_valid_null (p : Pos) (hv : Rules.valid p = true) (hc : Rules.inCheck p p.turn = false) :
    Rules.valid { p with turn := p.turn.flip, ep := none } = true := by
  have V := (Playable.validP_iff p).1 hv
  refine (Playable.validP_iff _).2
    ⟨V.kings, V.bound, V.pawns, V.real, ?_, V.wk, V.wq, V.bk, V.bq, rfl, V.hm0, V.hm100, V.fm1⟩
  show Rules.inCheck _ p.turn.flip.flip = false
  rw [Color.flip_flip, Playable.inCheck_congr_men (p := { p with turn := p.turn.flip, ep := none }) (q := p) rfl
    p.turn, hc]

theorem rules_valid_null_nc (p : Pos) (hv : Rules.valid (nc p) = true) (hc : Rules.inCheck p p.turn = false) :
    Rules.valid (nc { p with turn := p.turn.flip, ep := none }) = true := rules_valid_null (nc p) hv hc

theorem abs_makeNull (K : Keys) (b : Board) :
    Board.abs (makeNull K b).1 = { Board.abs b with turn := b.stm.flip, ep := none } := by
  obtain ⟨h1, h2, h3, h4, h5, h6, h7, h8, _⟩ := Board.makeNull_facts K b
  have hman : ∀ s, (makeNull K b).1.manAt s = b.manAt s := by
    intro s
    unfold Board.manAt Board.colorBB Board.pieceAt
    rw [h1, h3]
  unfold Board.abs
  simp only [hman, h4, h5, h6, h7, h8, if_true]

/-- a null move by a side that is not in check keeps `ValidNC` (the clock is not touched). -/
theorem validNC_null (K : Keys) {b : Board} (hv : ValidNC b) (hchk : b.inCheck b.stm = false) :
    ValidNC (makeNull K b).1 := by
  have hw := wf_of_validNC hv
  have hw' : WF (makeNull K b).1 := Props.C03.wf_null K hw
  rw [validNC_iff] at hv ⊢
  refine ⟨(wf_iff _).1 hw', ?_⟩
  have hc : Rules.inCheck b.abs b.stm = false := by rw [← Bridge.inCheck_iff hw]; exact hchk
  have ht : b.stm = b.abs.turn := rfl
  rw [abs_makeNull, ht]
  rw [ht] at hc
  exact rules_valid_null_nc b.abs hv.2 hc

/-! ### C02 without the clock -/

/-- **C02 modulo the clock, any clock**: for every generated (pseudo-legal) move of a `ValidNC` board the
    successor board abstracts to the rule book's successor — placement, side to move, castling rights,
    en-passant target (recorded iff capturable) and fullmove number — up to the halfmove clock. -/
theorem make_refines_nc (K : Keys) {b : Board} {m : Move} (hv : ValidNC b) (hm : m ∈ MoveGen.gen b) :
    nc (b.makeMove K m).1.abs = nc (Rules.apply b.abs (decodeMove m)) := by
  have hgz : m ∈ MoveGen.gen (setFifty b 0) := by rw [gen_setFifty]; exact hm
  have href := Props.C02.make_refines_rules_gen K hv hgz
  calc nc (b.makeMove K m).1.abs
      = (setFifty (b.makeMove K m).1 0).abs := rfl
    _ = (setFifty ((setFifty b 0).makeMove K m).1 0).abs := by rw [setFifty_make K b m 0 0]
    _ = nc ((setFifty b 0).makeMove K m).1.abs := rfl
    _ = nc (Rules.apply (setFifty b 0).abs (decodeMove m)) := by rw [href]
    _ = nc (Rules.apply (nc b.abs) (decodeMove m)) := rfl
    _ = nc (Rules.apply b.abs (decodeMove m)) := apply_nc _ _

theorem pos_eq_iff (p q : Pos) : p = q ↔ nc p = nc q ∧ p.halfmove = q.halfmove := by
  constructor
  · rintro rfl; exact ⟨rfl, rfl⟩
  · rintro ⟨h1, h2⟩
    cases p; cases q
    simp only [nc, Pos.mk.injEq] at h1
    simp only at h2
    simp only [Pos.mk.injEq]
    exact ⟨h1.1, h1.2.1, h1.2.2.1, h1.2.2.2.1, h2, h1.2.2.2.2.2⟩

theorem apply_halfmove (p : Pos) (mv : Mv) : (Rules.apply p mv).halfmove = (applyCore p mv).halfmove := by
  cases h : (legalEpCaptures (applyCore p mv)).isEmpty with
  | true => rw [apply_pos h]
  | false => rw [apply_neg h]

/-- the rule book resets the clock exactly when the engine does (C02's halfmove clause on the
    clock-reset board, where 0 ≠ 1 tells the two cases apart). -/
theorem reset_iff (K : Keys) {b : Board} {m : Move} (hv : ValidNC b) (hm : m ∈ MoveGen.gen b) :
    (b.pieceAt (Move.src m) = Piece.pawn ∨ b.pieceAt (b.captureSq m) ≠ Piece.none) ↔
      (b.abs.has (decodeMove m).src b.abs.turn Piece.pawn ||
        (!(b.abs.empty (decodeMove m).dst) || Rules.isEnPassant b.abs (decodeMove m))) = true := by
  have hgz : m ∈ MoveGen.gen (setFifty b 0) := by rw [gen_setFifty]; exact hm
  have h := Props.C02core.abs_make_halfmove K hv hgz
  have e1 : (abs ((setFifty b 0).makeMove K m).1).halfmove = ((setFifty b 0).makeMove K m).1.fifty := rfl
  have e2 := makeMove_eq K (setFifty b 0) m
  rw [e1, e2, AbsMake.make_fifty, AbsMake.applyCore_halfmove] at h
  have ez : (setFifty b 0).abs = nc b.abs := rfl
  rw [ez] at h
  -- the conditions on the reset board are the conditions on `b`
  change (if (b.pieceAt (Move.src m) = Piece.pawn ∨ b.pieceAt (b.captureSq m) ≠ Piece.none) then (0 : Int)
      else wrapS8 (0 + 1)) =
    (if (b.abs.has (decodeMove m).src b.abs.turn Piece.pawn ||
        (!(b.abs.empty (decodeMove m).dst) || Rules.isEnPassant b.abs (decodeMove m))) = true then (0 : Int)
      else 0 + 1) at h
  have hw : wrapS8 (0 + 1) = 1 := by decide
  rw [hw] at h
  by_cases c1 : (b.pieceAt (Move.src m) = Piece.pawn ∨ b.pieceAt (b.captureSq m) ≠ Piece.none) <;>
    by_cases c2 : (b.abs.has (decodeMove m).src b.abs.turn Piece.pawn ||
        (!(b.abs.empty (decodeMove m).dst) || Rules.isEnPassant b.abs (decodeMove m))) = true
  · exact ⟨fun _ => c2, fun _ => c1⟩
  · rw [if_pos c1, if_neg c2] at h; exact absurd h (by decide)
  · rw [if_neg c1, if_pos c2] at h; exact absurd h (by decide)
  · exact ⟨fun h' => absurd h' c1, fun h' => absurd h' c2⟩

/-- **exactly when the full C02 equation holds**: for a generated move of a `ValidNC` board with an
    int8 clock, `abs (make b m) = Rules.apply (abs b) m` iff the engine's clock does not wrap at this
    move, i.e. the clock is below 127 or the move resets it (pawn move or capture). -/
theorem make_refines_iff (K : Keys) {b : Board} {m : Move} (hv : ValidNC b) (h8 : Int8Clock b)
    (hm : m ∈ MoveGen.gen b) :
    (b.makeMove K m).1.abs = Rules.apply b.abs (decodeMove m) ↔
      (b.fifty < 127 ∨ (Rules.apply b.abs (decodeMove m)).halfmove = 0) := by
  rw [pos_eq_iff, apply_halfmove, AbsMake.applyCore_halfmove]
  have e1 : ((b.makeMove K m).1.abs).halfmove = (b.makeMove K m).1.fifty := rfl
  have e2 := makeMove_eq K b m
  have hf : b.abs.halfmove = b.fifty := rfl
  rw [e1, e2, AbsMake.make_fifty, hf]
  have hnc : nc (makeW K b m).1.abs = nc (Rules.apply b.abs (decodeMove m)) := by
    rw [← e2]; exact make_refines_nc K hv hm
  have hr := reset_iff K hv hm
  obtain ⟨l8, u8⟩ := h8
  by_cases c1 : (b.pieceAt (Move.src m) = Piece.pawn ∨ b.pieceAt (b.captureSq m) ≠ Piece.none)
  · rw [if_pos c1, if_pos (hr.1 c1)]
    exact ⟨fun _ => Or.inr rfl, fun _ => ⟨hnc, rfl⟩⟩
  · have c2 := fun h => c1 (hr.2 h)
    rw [if_neg c1, if_neg c2]
    unfold wrapS8
    constructor
    · rintro ⟨_, h⟩; left; omega
    · rintro (h | h)
      · exact ⟨hnc, by omega⟩
      · exact ⟨hnc, by omega⟩

/-- in particular the full equation for every clock value −128 … 126. -/
theorem make_refines_of_lt (K : Keys) {b : Board} {m : Move} (hv : ValidNC b) (h8 : Int8Clock b)
    (hm : m ∈ MoveGen.gen b) (h : b.fifty < 127) :
    (b.makeMove K m).1.abs = Rules.apply b.abs (decodeMove m) :=
  (make_refines_iff K hv h8 hm).2 (Or.inl h)

/-! ### C03 without the clock bound -/

/-- the local preconditions of make/undo hold for every pseudo-legal move of a `ValidNC` board whose
    clock is an int8. -/
theorem makeOK_nc {b : Board} {m : Move} (hv : ValidNC b) (h8 : Int8Clock b) (hpl : isPseudoLegal b m = true) :
    MakeOK b m := by
  have ok := Board.isPseudoLegal_makeOK hv (by rw [isPseudoLegal_setFifty]; exact hpl)
  exact ⟨ok.own_src, ok.not_own_dst, ok.cap_enemy, ok.ep_dst_empty, ok.castle, ok.promo, ok.ep_lt, h8.1, h8.2⟩

theorem isPseudoLegal_of_gen {b : Board} {m : Move} (hv : ValidNC b) (hm : m ∈ MoveGen.gen b) :
    isPseudoLegal b m = true := by
  have hgz : m ∈ MoveGen.gen (setFifty b 0) := by rw [gen_setFifty]; exact hm
  have := (Props.C05.isPseudoLegal_iff_gen hv (Props.C05.gen_lt hv hgz)).2 hgz
  rw [isPseudoLegal_setFifty] at this
  exact this

/-- **C03, any int8 clock** (negative, i.e. wrapped, values included): a pseudo-legal move — legal or
    not — of a `ValidNC` board, made and undone, gives back the identical board. -/
theorem undo_make_nc (K : Keys) {b : Board} {m : Move} (hv : ValidNC b) (h8 : Int8Clock b)
    (hpl : isPseudoLegal b m = true) : undoMove (makeMove K b m).1 m (makeMove K b m).2 = b :=
  Board.undo_make K (wf_of_validNC hv) (makeOK_nc hv h8 hpl)

theorem undo_null_nc (K : Keys) {b : Board} (hv : ValidNC b) :
    undoNull (makeNull K b).1 (makeNull K b).2 = b :=
  Board.undoNull_makeNull' K b (ep_lt_of_validNC hv)

/-! ### C04 without the clock -/

/-- **C04, any clock** (no int8 hypothesis either: the hash never reads the clock). -/
theorem inv_make_nc (K : Keys) {b : Board} {m : Move} (hi : Board.Inv K b) (hv : ValidNC b)
    (hm : m ∈ MoveGen.gen b) : Board.Inv K (makeMove K b m).1 := by
  have hgz : m ∈ MoveGen.gen (setFifty b 0) := by rw [gen_setFifty]; exact hm
  have hinvz' : Board.Inv K ((setFifty b 0).makeMove K m).1 :=
    Board.inv_make K ((inv_setFifty K 0).2 hi) (AbsMake.genMove_of hv hgz).ok
  rw [← inv_setFifty K 0, ← setFifty_make K b m 0 0, inv_setFifty K 0]; exact hinvz'

/-! ### lines of the search: playable moves, null moves out of check, a last move that may be illegal -/

/-- a line as the search makes it from `b`: every move is generated in the position it is made in; the
    line continues after a move only if the mover's king is not left in check (the search undoes such a
    move at once); a null move is made only when the side to move is not in check. -/
def SearchLine (K : Keys) : Board → List Op → Prop
  | _, [] => True
  | b, .mk m :: ops => m ∈ MoveGen.gen b ∧
      (ops = [] ∨ ((b.makeMove K m).1.inCheck b.stm = false ∧ SearchLine K (b.makeMove K m).1 ops))
  | b, .null :: ops => b.inCheck b.stm = false ∧ SearchLine K (makeNull K b).1 ops

/-- the board at the end of a line. -/
def lineBoard (K : Keys) (b : Board) (ops : List Op) : Board := ops.foldl (fun b o => (doOp K b o).1) b

/-- **every search line from a `ValidNC` board with an int8 clock runs** (`runMakes` meets all its
    preconditions, whatever the clock does along the line). -/
theorem line_runs (K : Keys) : ∀ (ops : List Op) (b : Board), ValidNC b → Int8Clock b → SearchLine K b ops →
    ∃ toks, runMakes K b ops = some (lineBoard K b ops, toks)
  | [], b, _, _, _ => ⟨[], rfl⟩
  | .mk m :: ops, b, hv, h8, hl => by
    obtain ⟨hm, hrest⟩ := hl
    have ok : MakeOK b m := makeOK_nc hv h8 (isPseudoLegal_of_gen hv hm)
    have hok : (Op.mk m).ok b := ok
    rcases hrest with rfl | ⟨hsafe, hrest⟩
    · refine ⟨[] ++ [(doOp K b (.mk m)).2], ?_⟩
      simp only [runMakes, if_pos hok, lineBoard, List.foldl_cons, List.foldl_nil]
    · have hp : m ∈ MoveGen.playable K b := (Playable.mem_playable K b m).2 ⟨hm, hsafe⟩
      obtain ⟨toks, ht⟩ := line_runs K ops _ (validNC_make K hv hp) (int8_make K b m) hrest
      refine ⟨toks ++ [(doOp K b (.mk m)).2], ?_⟩
      simp only [runMakes, if_pos hok]
      have ht' : runMakes K (doOp K b (.mk m)).1 ops = some (lineBoard K (b.makeMove K m).1 ops, toks) := ht
      rw [ht']
      rfl
  | .null :: ops, b, hv, h8, hl => by
    obtain ⟨hchk, hrest⟩ := hl
    have hok : (Op.null).ok b := trivial
    obtain ⟨toks, ht⟩ := line_runs K ops _ (validNC_null K hv hchk) (int8_null K h8) hrest
    refine ⟨toks ++ [(doOp K b .null).2], ?_⟩
    simp only [runMakes, if_pos hok]
    have ht' : runMakes K (doOp K b .null).1 ops = some (lineBoard K (makeNull K b).1 ops, toks) := ht
    rw [ht']
    rfl

/-- **C03, nested, any clock**: a search line of any depth from a `ValidNC` board with an int8 clock,
    followed by the undos in reverse order, returns to the identical board. -/
theorem undo_nested_nc (K : Keys) {b : Board} (ops : List Op) (hv : ValidNC b) (h8 : Int8Clock b)
    (hl : SearchLine K b ops) :
    ∃ toks, runMakes K b ops = some (lineBoard K b ops, toks) ∧
      runUndos (lineBoard K b ops) ops.reverse toks = b := by
  obtain ⟨toks, ht⟩ := line_runs K ops b hv h8 hl
  exact ⟨toks, ht, Board.undo_nested K ops (wf_of_validNC hv) (ep_lt_of_validNC hv) ht⟩

/-- **C04 along a search line, any clock**: the hash invariant (incremental hash = from-scratch hash,
    the three placements agree) holds at the end of every search line from a `ValidNC` board. -/
theorem inv_line_nc (K : Keys) : ∀ (ops : List Op) (b : Board), ValidNC b → Board.Inv K b → SearchLine K b ops →
    Board.Inv K (lineBoard K b ops)
  | [], _, _, hi, _ => hi
  | .mk m :: ops, b, hv, hi, hl => by
    obtain ⟨hm, hrest⟩ := hl
    have hi' := inv_make_nc K hi hv hm
    rcases hrest with rfl | ⟨hsafe, hrest⟩
    · exact hi'
    · have hp : m ∈ MoveGen.playable K b := (Playable.mem_playable K b m).2 ⟨hm, hsafe⟩
      exact inv_line_nc K ops _ (validNC_make K hv hp) hi' hrest
  | .null :: ops, b, hv, hi, hl =>
    inv_line_nc K ops _ (validNC_null K hv hl.1) (Board.inv_null K hi) hl.2

/-! ### reached positions -/

/-- `b'` is reached from `b` by playable moves — no condition on the clock. -/
inductive Reachable (K : Keys) (b : Board) : Board → Prop
  | refl : Reachable K b b
  | step {b₁ : Board} {m : Move} : Reachable K b b₁ → m ∈ MoveGen.playable K b₁ →
      Reachable K b (b₁.makeMove K m).1

theorem validNC_reachable (K : Keys) {b b' : Board} (hv : ValidNC b) (h : Reachable K b b') : ValidNC b' := by
  induction h with
  | refl => exact hv
  | step _ hm ih => exact validNC_make K ih hm

theorem int8_reachable (K : Keys) {b b' : Board} (h8 : Int8Clock b) (h : Reachable K b b') : Int8Clock b' := by
  cases h with
  | refl => exact h8
  | step _ _ => exact int8_make K _ _

theorem inv_reachable_nc (K : Keys) {b b' : Board} (hv : ValidNC b) (hi : Board.Inv K b)
    (h : Reachable K b b') : Board.Inv K b' := by
  induction h with
  | refl => exact hi
  | @step b₁ m hr hm ih => exact inv_make_nc K ih (validNC_reachable K hv hr) (EpTarget.playable_gen hm)

/-- the clock-bounded `Playable.Reachable` of C01 is a special case. -/
theorem reachable_of_bounded (K : Keys) {b b' : Board} (h : Playable.Reachable K b b') : Reachable K b b' := by
  induction h with
  | refl => exact Reachable.refl
  | step _ hm _ ih => exact Reachable.step ih hm

theorem reachable_run (K : Keys) : ∀ (ms : List Move) (b₀ b : Board), Reachable K b₀ b →
    EpTarget.PlayableSeq K b ms → Reachable K b₀ (EpTarget.run K b ms)
  | [], _, _, h, _ => h
  | _ :: ms, b₀, _, h, hs => reachable_run K ms b₀ _ (Reachable.step h hs.1) hs.2

/-- **C02 along a game, modulo the clock, any length**. -/
theorem run_refines_nc (K : Keys) : ∀ (ms : List Move) (b : Board), ValidNC b → EpTarget.PlayableSeq K b ms →
    nc (EpTarget.run K b ms).abs = nc (EpTarget.runRules b.abs ms)
  | [], _, _, _ => rfl
  | m :: ms, b, hv, hs => by
    rw [EpTarget.run_cons, EpTarget.runRules_cons, run_refines_nc K ms _ (validNC_make K hv hs.1) hs.2]
    have h := make_refines_nc K hv (EpTarget.playable_gen hs.1)
    -- `runRules` from two positions that agree modulo the clock agree modulo the clock
    have key : ∀ (ms : List Move) (p q : Pos), nc p = nc q →
        nc (EpTarget.runRules p ms) = nc (EpTarget.runRules q ms) := by
      intro ms
      induction ms with
      | nil => intro p q e; exact e
      | cons m ms ih => intro p q e; exact ih _ _ (apply_congr e _)
    exact key ms _ _ h

end NC
end ChessVerif
