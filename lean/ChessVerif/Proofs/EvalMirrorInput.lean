/-
  C17: every score-independent ingredient of the evaluation, computed on the projection of the
  mirrored board (`mirrorInput`), is the vertical flip of the same ingredient of the original board
  with the colours exchanged.  Hypothesis where needed: each side has exactly one king
  (`OneKing`, a consequence of `Board.valid`).
-/
import ChessVerif.Proofs.EvalFlipAttacks

namespace ChessVerif.Eval
open ChessVerif

/-- the projection of the mirrored board. -/
def mirrorInput (i : EvalInput) : EvalInput :=
  { pieces := Vector.ofFn fun (p : Fin 7) => flipBB (i.pieces.getD p.val 0),
    colors := Vector.ofFn fun (c : Fin 2) => flipBB (i.colors.getD (1 - c.val) 0),
    stm := i.stm.flip,
    fifty := i.fifty }

theorem input_mirror (b : Board) : input (mirror b) = mirrorInput (input b) := rfl

/-- each side has exactly one king. -/
def OneKing (i : EvalInput) : Prop := ∀ c, isPow2 (i.kingBB c) = true

variable (i : EvalInput)

@[simp] theorem stm_mirror : (mirrorInput i).stm = i.stm.flip := rfl
@[simp] theorem fifty_mirror : (mirrorInput i).fifty = i.fifty := rfl

theorem pc_mirror (p : Piece) : (mirrorInput i).pc p = flipBB (i.pc p) := by
  cases p <;> simp [EvalInput.pc, mirrorInput, Vector.getD, Piece.toNat]

theorem col_mirror (c : Color) : (mirrorInput i).col c = flipBB (i.col c.flip) := by
  cases c <;> simp [EvalInput.col, mirrorInput, Vector.getD, Color.toNat, Color.flip]

theorem own_mirror (c : Color) (p : Piece) : (mirrorInput i).own c p = flipBB (i.own c.flip p) := by
  simp only [EvalInput.own, pc_mirror, col_mirror, flipBB_and]

theorem occ_mirror : (mirrorInput i).occ = flipBB i.occ := by
  simp only [EvalInput.occ, col_mirror, Color.flip, flipBB_or]
  exact BitVec.or_comm _ _

theorem kingBB_mirror (c : Color) : (mirrorInput i).kingBB c = flipBB (i.kingBB c.flip) := by
  simp only [EvalInput.kingBB, pc_mirror, col_mirror, flipBB_and]

theorem kingSq_lt (hk : OneKing i) (c : Color) : i.kingSq c < 64 := by
  obtain ⟨s, hs, h⟩ := (isPow2_iff _).mp (hk c)
  unfold EvalInput.kingSq
  rw [h, lowestSet_bit s hs]; exact hs

theorem kingSq_mirror (hk : OneKing i) (c : Color) : (mirrorInput i).kingSq c = i.kingSq c.flip ^^^ 56 := by
  unfold EvalInput.kingSq
  rw [kingBB_mirror, lowestSet_flip_of_isPow2 _ (hk c.flip)]

theorem kingA_mirror (hk : OneKing i) (c : Color) : (mirrorInput i).kingA c = flipBB (i.kingA c.flip) := by
  unfold EvalInput.kingA
  rw [kingSq_mirror i hk, kingMoves_flip _ (kingSq_lt i hk _)]

theorem kingRayB_mirror (hk : OneKing i) (c : Color) : (mirrorInput i).kingRayB c = flipBB (i.kingRayB c.flip) := by
  unfold EvalInput.kingRayB
  rw [kingSq_mirror i hk, occ_mirror, bishopMoves_flip _ (kingSq_lt i hk _)]

theorem kingRayR_mirror (hk : OneKing i) (c : Color) : (mirrorInput i).kingRayR c = flipBB (i.kingRayR c.flip) := by
  unfold EvalInput.kingRayR
  rw [kingSq_mirror i hk, occ_mirror, rookMoves_flip _ (kingSq_lt i hk _)]

theorem kingNb_mirror (hk : OneKing i) (c : Color) : (mirrorInput i).kingNb c = flipBB (i.kingNb c.flip) := by
  unfold EvalInput.kingNb
  rw [kingBB_mirror, kingA_mirror i hk, flipBB_or]

/-! ### pawn structure -/

theorem ps_mirror (c : Color) : (mirrorInput i).ps c = flipBB (i.ps c.flip) := by
  simp only [EvalInput.ps, pc_mirror, col_mirror, flipBB_and]

theorem pawnAtt_mirror (c : Color) : (mirrorInput i).pawnAtt c = flipBB (i.pawnAtt c.flip) := by
  unfold EvalInput.pawnAtt
  rw [ps_mirror, pawnCaptureMoves_flip]

theorem frontSpan_mirror (c : Color) : (mirrorInput i).frontSpan c = flipBB (i.frontSpan c.flip) := by
  cases c <;>
    simp only [EvalInput.frontSpan, ps_mirror, Color.flip, frontFill_flip, flipBB_shl8, flipBB_shr8]

theorem rearSpan_mirror (c : Color) : (mirrorInput i).rearSpan c = flipBB (i.rearSpan c.flip) := by
  cases c <;>
    simp only [EvalInput.rearSpan, ps_mirror, Color.flip, frontFill_flip, flipBB_shl8, flipBB_shr8]

theorem pcover_mirror (c : Color) : (mirrorInput i).pcover c = flipBB (i.pcover c.flip) := by
  cases c
  · simp only [EvalInput.pcover, frontSpan_mirror, Color.flip, flipBB_or, flipBB_notA_shr1, flipBB_notH_shl1]
    exact BitVec.or_comm _ _
  · simp only [EvalInput.pcover, frontSpan_mirror, Color.flip, flipBB_or, flipBB_notA_shr1, flipBB_notH_shl1]
    exact BitVec.or_comm _ _

theorem sideOfBoard_eq_flip (c : Color) : sideOfBoard c = flipBB (sideOfBoard c.flip) := by
  have := sideOfBoard_flip c.flip
  rwa [Color.flip_flip] at this

theorem holes_mirror (c : Color) : (mirrorInput i).holes c = flipBB (i.holes c.flip) := by
  unfold EvalInput.holes
  rw [pcover_mirror, flipBB_and, flipBB_not, ← sideOfBoard_eq_flip]

theorem pfiles_mirror (c : Color) : (mirrorInput i).pfiles c = flipBB (i.pfiles c.flip) := by
  simp only [EvalInput.pfiles, ps_mirror, frontSpan_mirror, rearSpan_mirror, flipBB_or]

theorem neighbourF_mirror (c : Color) : (mirrorInput i).neighbourF c = flipBB (i.neighbourF c.flip) := by
  cases c
  · simp only [EvalInput.neighbourF, pfiles_mirror, Color.flip, flipBB_or, flipBB_notA_shr1, flipBB_notH_shl1]
    exact BitVec.or_comm _ _
  · simp only [EvalInput.neighbourF, pfiles_mirror, Color.flip, flipBB_or, flipBB_notA_shr1, flipBB_notH_shl1]
    exact BitVec.or_comm _ _

theorem frontLine_mirror (c : Color) : (mirrorInput i).frontLine c = flipBB (i.frontLine c.flip) := by
  simp only [EvalInput.frontLine, ps_mirror, rearSpan_mirror, flipBB_and, flipBB_not]

theorem passers_mirror (c : Color) : (mirrorInput i).passers c = flipBB (i.passers c.flip) := by
  simp only [EvalInput.passers, frontLine_mirror, frontSpan_mirror, pcover_mirror, flipBB_and, flipBB_not, flipBB_or]

theorem doubledPawns_mirror (c : Color) : (mirrorInput i).doubledPawns c = flipBB (i.doubledPawns c.flip) := by
  simp only [EvalInput.doubledPawns, ps_mirror, frontLine_mirror, flipBB_and, flipBB_not]

theorem isolatedPawns_mirror (c : Color) : (mirrorInput i).isolatedPawns c = flipBB (i.isolatedPawns c.flip) := by
  simp only [EvalInput.isolatedPawns, ps_mirror, neighbourF_mirror, flipBB_and, flipBB_not]

/-! ### piece attacks -/

theorem pieceAttacks_mirror (p : Piece) (sq : Nat) (h : sq < 64) :
    (mirrorInput i).pieceAttacks p (sq ^^^ 56) = flipBB (i.pieceAttacks p sq) := by
  cases p <;>
    simp only [EvalInput.pieceAttacks, occ_mirror, bishopMoves_flip _ h, rookMoves_flip _ h,
      knightMoves_flip _ h, flipBB_or, flipBB_zero]

theorem bits_own_mirror (c : Color) (p : Piece) :
    (bits ((mirrorInput i).own c p)).Perm ((bits (i.own c.flip p)).map (· ^^^ 56)) := by
  rw [own_mirror]; exact bits_flip_perm _

theorem foldl_or_getLsbD {α : Type} (f : α → BB) (l : List α) (z : BB) (j : Nat) :
    (l.foldl (fun acc s => acc ||| f s) z).getLsbD j = (z.getLsbD j || l.any fun s => (f s).getLsbD j) := by
  induction l generalizing z with
  | nil => simp
  | cons a l ih => simp [List.foldl_cons, ih, BitVec.getLsbD_or, Bool.or_assoc]

theorem any_congr_mem {α : Type} {l : List α} {p q : α → Bool} (h : ∀ a ∈ l, p a = q a) : l.any p = l.any q := by
  induction l with
  | nil => rfl
  | cons a l ih =>
    simp only [List.any_cons]
    rw [h a (by simp), ih (fun b hb => h b (by simp [hb]))]

theorem attacksBy_mirror (c : Color) (p : Piece) :
    (mirrorInput i).attacksBy c p = flipBB (i.attacksBy c.flip p) := by
  apply BitVec.eq_of_getLsbD_eq
  intro j hj
  rw [flipBB_getLsbD _ _ hj]
  unfold EvalInput.attacksBy
  rw [foldl_or_getLsbD, foldl_or_getLsbD, (bits_own_mirror i c p).any_eq, List.any_map]
  have hz : ∀ k, (0 : BB).getLsbD k = false := fun k => by simp
  rw [hz, hz, Bool.false_or, Bool.false_or]
  apply any_congr_mem
  intro s hs
  simp only [Function.comp]
  rw [pieceAttacks_mirror i p s (bits_lt hs), flipBB_getLsbD _ _ hj]

theorem coverAll_mirror (hk : OneKing i) (c : Color) : (mirrorInput i).coverAll c = flipBB (i.coverAll c.flip) := by
  simp only [EvalInput.coverAll, pawnAtt_mirror, attacksBy_mirror, kingA_mirror i hk, flipBB_or]

theorem safeChecks_mirror (hk : OneKing i) (c : Color) (p : Piece) :
    (mirrorInput i).safeChecks c p = flipBB (i.safeChecks c.flip p) := by
  have hks : (mirrorInput i).kingSq c.flip = i.kingSq c ^^^ 56 := by
    have := kingSq_mirror i hk c.flip; rwa [Color.flip_flip] at this
  cases p <;>
    simp only [EvalInput.safeChecks, coverAll_mirror i hk, attacksBy_mirror, kingRayB_mirror i hk,
      kingRayR_mirror i hk, col_mirror, hks, knightMoves_flip _ (kingSq_lt i hk _), Color.flip_flip,
      flipBB_and, flipBB_or, flipBB_not, flipBB_zero]

theorem shelterPawns_mirror (hk : OneKing i) (c : Color) :
    (mirrorInput i).shelterPawns c = i.shelterPawns c.flip := by
  unfold EvalInput.shelterPawns
  rw [kingNb_mirror i hk, col_mirror, pc_mirror, ← flipBB_and, ← flipBB_and, popcount_flip]

theorem popcount_own_mirror (c : Color) (p : Piece) :
    popcount ((mirrorInput i).own c p) = popcount (i.own c.flip p) := by
  rw [own_mirror, popcount_flip]

end ChessVerif.Eval
