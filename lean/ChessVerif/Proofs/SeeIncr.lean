/-
  C18 geometry, part 2: the attacker set that heur.SEE maintains INCREMENTALLY (x-rays added only
  along the line of the piece just lifted; per-side progress markers `start[stm]`) is, at every loop
  head, the attacker set RECOMPUTED from the current occupancy — so the capture sequence of the model
  equals the sequence of the same selection procedure run from scratch on bitboards (`capsBB`).

  Hypotheses: the representation invariant `b.wf` (the per-piece sets partition the occupied squares
  as the per-square map says) — implied by `Board.valid`.
-/
import ChessVerif.Model.See
import ChessVerif.Proofs.SeeRays
import ChessVerif.Proofs.BitLoop
import ChessVerif.Proofs.PLDefs

namespace ChessVerif.Proofs.SeeIncr
open ChessVerif See SeeSpec ChessVerif.Proofs.SeeRays
set_option autoImplicit false

/-- a pawn on `s` attacks `to` (colour read from the colour sets). -/
def pawnAtt (b : Board) (to s : Nat) : Bool :=
  ((Attacks.pawnCaptureMoves (bit to) .black).getLsbD s && (b.colorBB .white).getLsbD s) ||
  ((Attacks.pawnCaptureMoves (bit to) .white).getLsbD s && (b.colorBB .black).getLsbD s)

/-- per-square reading of `attackers0` on a well-formed board: what the man on `s` contributes. -/
def attOf (b : Board) (to : Nat) (occ : BB) (s : Nat) : Bool :=
  match b.pieceAt s with
  | .pawn => pawnAtt b to s
  | .knight => (Attacks.knightMoves to).getLsbD s
  | .bishop => (Attacks.bishopMoves to occ).getLsbD s
  | .rook => (Attacks.rookMoves to occ).getLsbD s
  | .queen => (Attacks.bishopMoves to occ).getLsbD s || (Attacks.rookMoves to occ).getLsbD s
  | .king => (Attacks.kingMoves to).getLsbD s
  | .none => false

theorem pieceBB_get {b : Board} (hwf : b.wf = true) (s : Nat) (hs : s < 64) (q : Piece) (hq : q ≠ .none) :
    (b.pieceBB q).getLsbD s = decide (b.pieceAt s = q) := by
  rw [Bool.eq_iff_iff, decide_eq_true_iff]
  exact PL.wf_piece hwf s hs q hq

theorem attackers0_get {b : Board} (hwf : b.wf = true) (to : Nat) (occ : BB) (s : Nat) (hs : s < 64) :
    (attackers0 b to occ).getLsbD s = attOf b to occ s := by
  unfold attackers0 attOf pawnAtt
  simp only [BitVec.getLsbD_or, BitVec.getLsbD_and,
    pieceBB_get hwf s hs .pawn (by decide), pieceBB_get hwf s hs .knight (by decide),
    pieceBB_get hwf s hs .bishop (by decide), pieceBB_get hwf s hs .rook (by decide),
    pieceBB_get hwf s hs .queen (by decide), pieceBB_get hwf s hs .king (by decide)]
  cases b.pieceAt s <;> simp

theorem diagXray_get {b : Board} (hwf : b.wf = true) (to : Nat) (occ : BB) (s : Nat) (hs : s < 64) :
    (diagXray b to occ).getLsbD s =
      ((Attacks.bishopMoves to occ).getLsbD s && (decide (b.pieceAt s = .bishop) || decide (b.pieceAt s = .queen))) := by
  unfold diagXray
  simp only [BitVec.getLsbD_or, BitVec.getLsbD_and, pieceBB_get hwf s hs .bishop (by decide),
    pieceBB_get hwf s hs .queen (by decide)]

theorem lineXray_get {b : Board} (hwf : b.wf = true) (to : Nat) (occ : BB) (s : Nat) (hs : s < 64) :
    (lineXray b to occ).getLsbD s =
      ((Attacks.rookMoves to occ).getLsbD s && (decide (b.pieceAt s = .rook) || decide (b.pieceAt s = .queen))) := by
  unfold lineXray
  simp only [BitVec.getLsbD_or, BitVec.getLsbD_and, pieceBB_get hwf s hs .rook (by decide),
    pieceBB_get hwf s hs .queen (by decide)]

/-- **The x-ray update is exact.**  If the masked attacker set is the recomputed one for `occ`, then
    after lifting `s0` and adding the diagonal (`ud`) and/or line (`ul`) x-rays it is the recomputed one
    for the new occupancy — provided a slider set that is NOT refreshed cannot have changed. -/
theorem inv_step {b : Board} (hwf : b.wf = true) (to : Nat) (ht : to < 64) (occ : BB) (s0 : Nat) (hs0 : s0 < 64)
    (att1 : BB) (h1 : att1 = attackers0 b to occ &&& occ) (ud ul : Bool)
    (hd : ud = false → Attacks.bishopMoves to (lift occ s0) = Attacks.bishopMoves to occ)
    (hl : ul = false → Attacks.rookMoves to (lift occ s0) = Attacks.rookMoves to occ) :
    (att1 ||| (if ud then diagXray b to (lift occ s0) else 0) ||| (if ul then lineXray b to (lift occ s0) else 0)) &&&
      lift occ s0 = attackers0 b to (lift occ s0) &&& lift occ s0 := by
  apply BitVec.eq_of_getLsbD_eq
  intro s hs
  have hsub : ∀ v, (lift occ s0).getLsbD v = true → occ.getLsbD v = true := by
    intro v hv; rw [lift_get occ s0 v hs0] at hv; simp only [Bool.and_eq_true] at hv; exact hv.1
  have mB := bishop_mono occ (lift occ s0) to s ht hs hsub
  have mR := rook_mono occ (lift occ s0) to s ht hs hsub
  subst h1
  simp only [BitVec.getLsbD_or, BitVec.getLsbD_and, attackers0_get hwf to _ s hs]
  cases ho' : (lift occ s0).getLsbD s
  · simp
  · have ho : occ.getLsbD s = true := hsub s ho'
    simp only [ho, Bool.and_true]
    have xd : (if ud then diagXray b to (lift occ s0) else 0).getLsbD s =
        (ud && ((Attacks.bishopMoves to (lift occ s0)).getLsbD s &&
          (decide (b.pieceAt s = .bishop) || decide (b.pieceAt s = .queen)))) := by
      cases ud
      · simp
      · simp [diagXray_get hwf to _ s hs]
    have xl : (if ul then lineXray b to (lift occ s0) else 0).getLsbD s =
        (ul && ((Attacks.rookMoves to (lift occ s0)).getLsbD s &&
          (decide (b.pieceAt s = .rook) || decide (b.pieceAt s = .queen)))) := by
      cases ul
      · simp
      · simp [lineXray_get hwf to _ s hs]
    rw [xd, xl]
    have hd' : ud = false →
        (Attacks.bishopMoves to (lift occ s0)).getLsbD s = (Attacks.bishopMoves to occ).getLsbD s :=
      fun h => by rw [hd h]
    have hl' : ul = false →
        (Attacks.rookMoves to (lift occ s0)).getLsbD s = (Attacks.rookMoves to occ).getLsbD s :=
      fun h => by rw [hl h]
    clear hd hl xd xl
    unfold attOf
    generalize (Attacks.bishopMoves to occ).getLsbD s = x at mB hd' ⊢
    generalize (Attacks.bishopMoves to (lift occ s0)).getLsbD s = x' at mB hd' ⊢
    generalize (Attacks.rookMoves to occ).getLsbD s = y at mR hl' ⊢
    generalize (Attacks.rookMoves to (lift occ s0)).getLsbD s = y' at mR hl' ⊢
    cases hp : b.pieceAt s <;>
      simp only [reduceCtorEq, decide_false, decide_true, Bool.or_false, Bool.false_or,
        Bool.and_false, Bool.and_true, Bool.or_self] <;>
      (revert mB mR hd' hl'; revert x x' y y' ud ul; decide)

/-! ### Specialisations of the x-ray update -/

section
variable {b : Board} (hwf : b.wf = true) (to : Nat) (ht : to < 64) (occ : BB) (s0 : Nat) (hs0 : s0 < 64)
include hwf ht hs0

/-- recomputed attackers that are still on the board. -/
def A (b : Board) (to : Nat) (occ : BB) : BB := attackers0 b to occ &&& occ

theorem inv_diag (hl : Attacks.rookMoves to (lift occ s0) = Attacks.rookMoves to occ) :
    (A b to occ ||| diagXray b to (lift occ s0)) &&& lift occ s0 = A b to (lift occ s0) := by
  have := inv_step hwf to ht occ s0 hs0 (A b to occ) rfl true false (fun h => by cases h) (fun _ => hl)
  simpa [A] using this

theorem inv_line (hd : Attacks.bishopMoves to (lift occ s0) = Attacks.bishopMoves to occ) :
    (A b to occ ||| lineXray b to (lift occ s0)) &&& lift occ s0 = A b to (lift occ s0) := by
  have := inv_step hwf to ht occ s0 hs0 (A b to occ) rfl false true (fun _ => hd) (fun h => by cases h)
  simpa [A] using this

theorem inv_both :
    (A b to occ ||| diagXray b to (lift occ s0) ||| lineXray b to (lift occ s0)) &&& lift occ s0 = A b to (lift occ s0) := by
  have := inv_step hwf to ht occ s0 hs0 (A b to occ) rfl true true (fun h => by cases h) (fun h => by cases h)
  simpa [A] using this

theorem inv_none (hd : Attacks.bishopMoves to (lift occ s0) = Attacks.bishopMoves to occ)
    (hl : Attacks.rookMoves to (lift occ s0) = Attacks.rookMoves to occ) :
    A b to occ &&& lift occ s0 = A b to (lift occ s0) := by
  have := inv_step hwf to ht occ s0 hs0 (A b to occ) rfl false false (fun _ => hd) (fun _ => hl)
  simpa [A] using this

end

/-! ### Progress markers -/

/-- no attacker of colour `c` and kind `k` is left (for the recomputed set). -/
def NoKind (b : Board) (to : Nat) (occ : BB) (c : Color) (k : Piece) : Prop :=
  A b to occ &&& b.colorBB c &&& b.pieceBB k = 0

theorem zero_iff_bits (x : BB) : x = 0 ↔ ∀ i, i < 64 → x.getLsbD i = false := by
  constructor
  · intro h i _; subst h; simp
  · intro h
    apply BitVec.eq_of_getLsbD_eq
    intro i hi
    rw [h i hi]; simp

/-- pawn and knight attackers never appear when men are lifted (their attack does not depend on the
    occupancy): the marker facts survive every later step. -/
theorem noKind_lift {b : Board} (hwf : b.wf = true) (to : Nat) (occ : BB) (s0 : Nat) (hs0 : s0 < 64) (c : Color)
    (k : Piece) (hk : k = .pawn ∨ k = .knight) (h : NoKind b to occ c k) : NoKind b to (lift occ s0) c k := by
  unfold NoKind at *
  rw [zero_iff_bits] at *
  intro i hi
  have hi0 := h i hi
  have hkn : k ≠ .none := by rcases hk with rfl | rfl <;> decide
  unfold A at *
  simp only [BitVec.getLsbD_and, attackers0_get hwf to _ i hi, pieceBB_get hwf i hi k hkn, lift_get occ s0 i hs0] at hi0 ⊢
  by_cases hp : b.pieceAt i = k
  · have e : attOf b to (lift occ s0) i = attOf b to occ i := by
      unfold attOf; rcases hk with rfl | rfl <;> rw [hp]
    rw [e]
    simp only [hp, decide_true, Bool.and_true] at hi0 ⊢
    cases h1 : attOf b to occ i <;> cases h2 : occ.getLsbD i <;> cases h3 : (b.colorBB c).getLsbD i <;>
      simp_all
  · simp [hp]

/-- what a marker value promises. -/
def MarkOK (b : Board) (to : Nat) (occ : BB) (c : Color) (p : Piece) : Prop :=
  p = .pawn ∨ (p = .knight ∧ NoKind b to occ c .pawn) ∨
    (p = .bishop ∧ NoKind b to occ c .pawn ∧ NoKind b to occ c .knight)

theorem markOK_lift {b : Board} (hwf : b.wf = true) (to : Nat) (occ : BB) (s0 : Nat) (hs0 : s0 < 64) (c : Color)
    (p : Piece) (h : MarkOK b to occ c p) : MarkOK b to (lift occ s0) c p := by
  rcases h with h | ⟨h, h1⟩ | ⟨h, h1, h2⟩
  · exact Or.inl h
  · exact Or.inr (Or.inl ⟨h, noKind_lift hwf to occ s0 hs0 c _ (Or.inl rfl) h1⟩)
  · exact Or.inr (Or.inr ⟨h, noKind_lift hwf to occ s0 hs0 c _ (Or.inl rfl) h1,
      noKind_lift hwf to occ s0 hs0 c _ (Or.inr rfl) h2⟩)

/-- The loop invariant at a loop head. -/
structure Inv (b : Board) (to : Nat) (g : Geo) : Prop where
  att : g.attackers &&& g.occ = A b to g.occ
  markW : MarkOK b to g.occ .white g.startW
  markB : MarkOK b to g.occ .black g.startB

/-! ### The lowest attacker of a kind -/

theorem clearLowest_eq_lift (occ x : BB) (hx : x ≠ 0) : clearLowest occ x = lift occ (Model.BitLoop.tz x) := by
  unfold clearLowest lift
  rw [Proofs.BitLoop.isolateLowest_eq hx]

/-- the facts about the square the code lifts: it is on the board, carries a man of the selected
    kind, and that man attacks the exchange square under the current occupancy. -/
theorem lowest_facts {b : Board} (hwf : b.wf = true) (to : Nat) (occ : BB) (c : Color) (X : Piece) (hX : X ≠ .none)
    (hne : A b to occ &&& b.colorBB c &&& b.pieceBB X ≠ 0) :
    Model.BitLoop.tz (A b to occ &&& b.colorBB c &&& b.pieceBB X) < 64 ∧
    b.pieceAt (Model.BitLoop.tz (A b to occ &&& b.colorBB c &&& b.pieceBB X)) = X ∧
    attOf b to occ (Model.BitLoop.tz (A b to occ &&& b.colorBB c &&& b.pieceBB X)) = true := by
  have h1 := Proofs.BitLoop.tz_lt_of_ne_zero hne
  have h2 := Proofs.BitLoop.tz_set_of_ne_zero hne
  generalize Model.BitLoop.tz (A b to occ &&& b.colorBB c &&& b.pieceBB X) = s0 at h1 h2 ⊢
  unfold A at h2
  simp only [BitVec.getLsbD_and, attackers0_get hwf to _ s0 h1, pieceBB_get hwf s0 h1 X hX, Bool.and_eq_true,
    decide_eq_true_eq] at h2
  exact ⟨h1, h2.2, h2.1.1.1⟩

/-! ### The selection, recomputed from scratch on bitboards -/

/-- one step of the from-scratch procedure. -/
inductive PickBB where
  | stop
  | king (ok : Bool)
  | take (v : Int) (occ' : BB)

/-- bishops, rooks, queens, king — for the attackers `sa` of the side to move, all attackers `a`. -/
def pickB (b : Board) (c : Color) (occ a sa : BB) : PickBB :=
  if sa &&& b.pieceBB .bishop != 0 then .take (pv 3) (clearLowest occ (sa &&& b.pieceBB .bishop))
  else if sa &&& b.pieceBB .rook != 0 then .take (pv 4) (clearLowest occ (sa &&& b.pieceBB .rook))
  else if sa &&& b.pieceBB .queen != 0 then .take (pv 5) (clearLowest occ (sa &&& b.pieceBB .queen))
  else .king (a &&& ~~~ b.colorBB c == 0)

def pickN (b : Board) (c : Color) (occ a sa : BB) : PickBB :=
  if sa &&& b.pieceBB .knight != 0 then .take (pv 2) (clearLowest occ (sa &&& b.pieceBB .knight))
  else pickB b c occ a sa

def pickP (b : Board) (c : Color) (occ a sa : BB) : PickBB :=
  if sa &&& b.pieceBB .pawn != 0 then .take (pv 1) (clearLowest occ (sa &&& b.pieceBB .pawn))
  else pickN b c occ a sa

/-- the least valuable attacker of side `c`, all attackers recomputed from the occupancy `occ`. -/
def pickBB (b : Board) (to : Nat) (c : Color) (occ : BB) : PickBB :=
  if A b to occ &&& b.colorBB c == 0 then .stop
  else pickP b c occ (A b to occ) (A b to occ &&& b.colorBB c)

/-- the capture sequence of the from-scratch procedure on bitboards. -/
def capsBB (b : Board) (to : Nat) : Nat → Color → BB → List Cap
  | 0, _, _ => []
  | n + 1, c, occ =>
    match pickBB b to c occ with
    | .stop => []
    | .king ok => [.king ok]
    | .take v occ' => .piece v :: capsBB b to n c.flip occ'

/-- the model's step agrees with the from-scratch step and re-establishes the invariant. -/
def Rel (b : Board) (to : Nat) (c : Color) : PickBB → Pick → Prop
  | .stop, .stop => True
  | .king ok, .king ok' => ok = ok'
  | .take v occ', .take v' g' => v = v' ∧ g'.occ = occ' ∧ g'.stm = c ∧ Inv b to g'
  | _, _ => False

section cases
variable {b : Board} (hwf : b.wf = true) (to : Nat) (ht : to < 64) (c : Color) (g : Geo)
  (hatt : g.attackers = A b to g.occ) (hstm : g.stm = c)
include hwf ht hatt hstm

/-- the marker facts of both colours, after lifting `s0`, with the mover's marker replaced by `p`. -/
theorem inv_of_take (s0 : Nat) (hs0 : s0 < 64) (att' : BB) (p : Piece)
    (h1 : att' &&& lift g.occ s0 = A b to (lift g.occ s0))
    (hother : MarkOK b to g.occ c.flip (g.start c.flip))
    (hself : MarkOK b to (lift g.occ s0) c p) :
    Inv b to { (g.setStart c p) with occ := lift g.occ s0, attackers := att' } := by
  have ho := markOK_lift hwf to g.occ s0 hs0 c.flip _ hother
  cases c
  · exact ⟨by simpa [Geo.setStart] using h1, by simpa [Geo.setStart] using hself,
      by simpa [Geo.setStart, Geo.start, Color.flip] using ho⟩
  · exact ⟨by simpa [Geo.setStart] using h1, by simpa [Geo.setStart, Geo.start, Color.flip] using ho,
      by simpa [Geo.setStart] using hself⟩

theorem caseBishop_rel (hother : MarkOK b to g.occ c.flip (g.start c.flip))
    (hnoP : NoKind b to g.occ c .pawn) (hnoN : NoKind b to g.occ c .knight) :
    Rel b to c (pickB b c g.occ (A b to g.occ) (A b to g.occ &&& b.colorBB c))
      (caseBishop b to c g (A b to g.occ &&& b.colorBB c)) := by
  have hsetocc : (g.setStart c .bishop).occ = g.occ := by cases c <;> rfl
  have hsetatt : (g.setStart c .bishop).attackers = g.attackers := by cases c <;> rfl
  have hsetstm : (g.setStart c .bishop).stm = g.stm := by cases c <;> rfl
  unfold pickB caseBishop
  simp only [hsetocc, hsetatt, hatt]
  by_cases hB : A b to g.occ &&& b.colorBB c &&& b.pieceBB .bishop ≠ 0
  · have hB' : (A b to g.occ &&& b.colorBB c &&& b.pieceBB .bishop != 0) = true := by simpa using hB
    obtain ⟨h1, h2, h3⟩ := lowest_facts hwf to g.occ c .bishop (by decide) hB
    simp only [hB', ↓reduceIte, Rel, clearLowest_eq_lift _ _ hB, true_and]
    refine ⟨hsetstm.trans hstm, ?_⟩
    have hdiag : OnDiag to _ := bishop_onDiag g.occ to _ ht h1 (by unfold attOf at h3; rw [h2] at h3; exact h3)
    have hl := rook_indep g.occ to _ ht h1 (onDiag_not_onLine hdiag ht h1)
    have := inv_of_take hwf to ht c g hatt hstm _ h1 _ .bishop (inv_diag hwf to ht g.occ _ h1 hl) hother
      (Or.inr (Or.inr ⟨rfl, noKind_lift hwf to g.occ _ h1 c _ (Or.inl rfl) hnoP,
        noKind_lift hwf to g.occ _ h1 c _ (Or.inr rfl) hnoN⟩))
    exact this
  · have hB0 : A b to g.occ &&& b.colorBB c &&& b.pieceBB .bishop = 0 := by simpa using hB
    simp only [hB0, bne_self_eq_false, Bool.false_eq_true, ↓reduceIte]
    by_cases hR : A b to g.occ &&& b.colorBB c &&& b.pieceBB .rook ≠ 0
    · have hR' : (A b to g.occ &&& b.colorBB c &&& b.pieceBB .rook != 0) = true := by simpa using hR
      obtain ⟨h1, h2, h3⟩ := lowest_facts hwf to g.occ c .rook (by decide) hR
      simp only [hR', ↓reduceIte, Rel, clearLowest_eq_lift _ _ hR, true_and]
      refine ⟨hsetstm.trans hstm, ?_⟩
      have hline : OnLine to _ := rook_onLine g.occ to _ ht h1 (by unfold attOf at h3; rw [h2] at h3; exact h3)
      have hd := bishop_indep g.occ to _ ht h1 (onLine_not_onDiag hline ht h1)
      exact inv_of_take hwf to ht c g hatt hstm _ h1 _ .bishop (inv_line hwf to ht g.occ _ h1 hd) hother
        (Or.inr (Or.inr ⟨rfl, noKind_lift hwf to g.occ _ h1 c _ (Or.inl rfl) hnoP,
          noKind_lift hwf to g.occ _ h1 c _ (Or.inr rfl) hnoN⟩))
    · have hR0 : A b to g.occ &&& b.colorBB c &&& b.pieceBB .rook = 0 := by simpa using hR
      simp only [hR0, bne_self_eq_false, Bool.false_eq_true, ↓reduceIte]
      by_cases hQ : A b to g.occ &&& b.colorBB c &&& b.pieceBB .queen ≠ 0
      · have hQ' : (A b to g.occ &&& b.colorBB c &&& b.pieceBB .queen != 0) = true := by simpa using hQ
        obtain ⟨h1, h2, h3⟩ := lowest_facts hwf to g.occ c .queen (by decide) hQ
        simp only [hQ', ↓reduceIte, Rel, clearLowest_eq_lift _ _ hQ, true_and]
        refine ⟨hsetstm.trans hstm, ?_⟩
        exact inv_of_take hwf to ht c g hatt hstm _ h1 _ .bishop (inv_both hwf to ht g.occ _ h1) hother
          (Or.inr (Or.inr ⟨rfl, noKind_lift hwf to g.occ _ h1 c _ (Or.inl rfl) hnoP,
            noKind_lift hwf to g.occ _ h1 c _ (Or.inr rfl) hnoN⟩))
      · have hQ0 : A b to g.occ &&& b.colorBB c &&& b.pieceBB .queen = 0 := by simpa using hQ
        simp only [hQ0, bne_self_eq_false, Bool.false_eq_true, ↓reduceIte, Rel]

theorem caseKnight_rel (hother : MarkOK b to g.occ c.flip (g.start c.flip))
    (hnoP : NoKind b to g.occ c .pawn) :
    Rel b to c (pickN b c g.occ (A b to g.occ) (A b to g.occ &&& b.colorBB c))
      (caseKnight b to c g (A b to g.occ &&& b.colorBB c)) := by
  have hsetocc : (g.setStart c .knight).occ = g.occ := by cases c <;> rfl
  have hsetatt : (g.setStart c .knight).attackers = g.attackers := by cases c <;> rfl
  have hsetstm : (g.setStart c .knight).stm = g.stm := by cases c <;> rfl
  unfold pickN caseKnight
  simp only [hsetocc]
  by_cases hN : A b to g.occ &&& b.colorBB c &&& b.pieceBB .knight ≠ 0
  · have hN' : (A b to g.occ &&& b.colorBB c &&& b.pieceBB .knight != 0) = true := by simpa using hN
    obtain ⟨h1, h2, h3⟩ := lowest_facts hwf to g.occ c .knight (by decide) hN
    simp only [hN', ↓reduceIte, Rel, clearLowest_eq_lift _ _ hN, true_and]
    refine ⟨hsetstm.trans hstm, ?_⟩
    have hoff := knight_off to _ ht (by unfold attOf at h3; rw [h2] at h3; exact h3)
    have hd := bishop_indep g.occ to _ ht h1 hoff.1
    have hl := rook_indep g.occ to _ ht h1 hoff.2
    have := inv_of_take hwf to ht c g hatt hstm _ h1 (g.setStart c .knight).attackers .knight
      (by rw [hsetatt, hatt]; exact inv_none hwf to ht g.occ _ h1 hd hl) hother
      (Or.inr (Or.inl ⟨rfl, noKind_lift hwf to g.occ _ h1 c _ (Or.inl rfl) hnoP⟩))
    cases c <;> exact this
  · have hN0 : A b to g.occ &&& b.colorBB c &&& b.pieceBB .knight = 0 := by simpa using hN
    simp only [hN0, bne_self_eq_false, Bool.false_eq_true, ↓reduceIte]
    -- fall through to `case Bishop:` with the marker already moved to Knight
    have key := caseBishop_rel hwf to ht c (g.setStart c .knight) (by rw [hsetatt, hsetocc]; exact hatt)
      (hsetstm.trans hstm)
      (by rw [hsetocc]; cases c <;> exact hother)
      (by rw [hsetocc]; exact hnoP) (by rw [hsetocc]; exact hN0)
    rw [hsetocc] at key
    exact key

theorem casePawn_rel (hother : MarkOK b to g.occ c.flip (g.start c.flip))
    (hself : MarkOK b to g.occ c (g.start c)) :
    Rel b to c (pickP b c g.occ (A b to g.occ) (A b to g.occ &&& b.colorBB c))
      (casePawn b to c g (A b to g.occ &&& b.colorBB c)) := by
  unfold pickP casePawn
  by_cases hP : A b to g.occ &&& b.colorBB c &&& b.pieceBB .pawn ≠ 0
  · have hP' : (A b to g.occ &&& b.colorBB c &&& b.pieceBB .pawn != 0) = true := by simpa using hP
    obtain ⟨h1, h2, h3⟩ := lowest_facts hwf to g.occ c .pawn (by decide) hP
    simp only [hP', ↓reduceIte, Rel, clearLowest_eq_lift _ _ hP, true_and, hatt]
    refine ⟨hstm, ?_⟩
    have hdiag : OnDiag to (Model.BitLoop.tz (A b to g.occ &&& b.colorBB c &&& b.pieceBB .pawn)) := by
      unfold attOf at h3; rw [h2] at h3
      unfold pawnAtt at h3
      simp only [Bool.or_eq_true, Bool.and_eq_true] at h3
      rcases h3 with h3 | h3
      · exact pawn_onDiag _ to _ ht h3.1
      · exact pawn_onDiag _ to _ ht h3.1
    have hl := rook_indep g.occ to _ ht h1 (onDiag_not_onLine hdiag ht h1)
    have := inv_of_take hwf to ht c g hatt hstm _ h1 _ (g.start c) (inv_diag hwf to ht g.occ _ h1 hl) hother
      (markOK_lift hwf to g.occ _ h1 c _ hself)
    have e : g.setStart c (g.start c) = g := by cases c <;> rfl
    rw [e] at this
    exact this
  · have hP0 : A b to g.occ &&& b.colorBB c &&& b.pieceBB .pawn = 0 := by simpa using hP
    simp only [hP0, bne_self_eq_false, Bool.false_eq_true, ↓reduceIte]
    exact caseKnight_rel hwf to ht c g hatt hstm hother hP0

end cases

theorem start_with (g : Geo) (c' : Color) (a : BB) (x : Color) :
    ({ g with stm := c', attackers := a } : Geo).start x = g.start x := by cases x <;> rfl

/-- One loop iteration of the model is one step of the from-scratch procedure. -/
theorem step_rel {b : Board} (hwf : b.wf = true) (to : Nat) (ht : to < 64) (g : Geo) (hinv : Inv b to g) :
    Rel b to g.stm.flip (pickBB b to g.stm.flip g.occ) (step b to g) := by
  unfold step pickBB
  simp only [hinv.att]
  by_cases h0 : (A b to g.occ &&& b.colorBB g.stm.flip == 0) = true
  · simp only [h0, ↓reduceIte, Rel]
  · simp only [h0, Bool.false_eq_true, ↓reduceIte]
    -- the state the switch sees
    have hmarks : MarkOK b to g.occ g.stm.flip (g.start g.stm.flip) ∧
        MarkOK b to g.occ g.stm.flip.flip (g.start g.stm.flip.flip) := by
      cases g.stm
      · exact ⟨hinv.markB, hinv.markW⟩
      · exact ⟨hinv.markW, hinv.markB⟩
    have hstart : ({ g with stm := g.stm.flip, attackers := A b to g.occ } : Geo).start g.stm.flip =
        g.start g.stm.flip := start_with g _ _ _
    rw [hstart]
    rcases hmarks.1 with hp | ⟨hp, hnoP⟩ | ⟨hp, hnoP, hnoN⟩
    · rw [hp]
      exact casePawn_rel hwf to ht g.stm.flip { g with stm := g.stm.flip, attackers := A b to g.occ } rfl rfl
        (by rw [start_with]; exact hmarks.2) (by rw [hstart, hp]; exact Or.inl rfl)
    · rw [hp]
      have hP0 : A b to g.occ &&& b.colorBB g.stm.flip &&& b.pieceBB .pawn = 0 := hnoP
      have e : pickP b g.stm.flip g.occ (A b to g.occ) (A b to g.occ &&& b.colorBB g.stm.flip) =
          pickN b g.stm.flip g.occ (A b to g.occ) (A b to g.occ &&& b.colorBB g.stm.flip) := by
        unfold pickP; simp only [hP0, bne_self_eq_false, Bool.false_eq_true, ↓reduceIte]
      rw [e]
      exact caseKnight_rel hwf to ht g.stm.flip { g with stm := g.stm.flip, attackers := A b to g.occ } rfl rfl
        (by rw [start_with]; exact hmarks.2) hnoP
    · rw [hp]
      have hP0 : A b to g.occ &&& b.colorBB g.stm.flip &&& b.pieceBB .pawn = 0 := hnoP
      have hN0 : A b to g.occ &&& b.colorBB g.stm.flip &&& b.pieceBB .knight = 0 := hnoN
      have e : pickP b g.stm.flip g.occ (A b to g.occ) (A b to g.occ &&& b.colorBB g.stm.flip) =
          pickB b g.stm.flip g.occ (A b to g.occ) (A b to g.occ &&& b.colorBB g.stm.flip) := by
        unfold pickP pickN
        simp only [hP0, hN0, bne_self_eq_false, Bool.false_eq_true, ↓reduceIte]
      rw [e]
      exact caseBishop_rel hwf to ht g.stm.flip { g with stm := g.stm.flip, attackers := A b to g.occ } rfl rfl
        (by rw [start_with]; exact hmarks.2) hnoP hnoN

/-- **Incremental = recomputed** (bitboard level): from any loop head satisfying the invariant, the
    sequence of capturers the model walks is the sequence of the from-scratch procedure. -/
theorem caps_eq_capsBB {b : Board} (hwf : b.wf = true) (to : Nat) (ht : to < 64) :
    ∀ (n : Nat) (g : Geo), Inv b to g → See.caps b to n g = capsBB b to n g.stm.flip g.occ := by
  intro n
  induction n with
  | zero => intro g _; rfl
  | succ k ih =>
    intro g hinv
    have hrel := step_rel hwf to ht g hinv
    unfold See.caps capsBB
    cases hp : pickBB b to g.stm.flip g.occ with
    | stop =>
      cases hs : step b to g with
      | stop => rfl
      | king ok => rw [hp, hs] at hrel; exact absurd hrel (by simp [Rel])
      | take v g' => rw [hp, hs] at hrel; exact absurd hrel (by simp [Rel])
    | king ok =>
      cases hs : step b to g with
      | stop => rw [hp, hs] at hrel; exact absurd hrel (by simp [Rel])
      | king ok' =>
        rw [hp, hs] at hrel
        simp only [Rel] at hrel
        simp only [hrel]
      | take v g' => rw [hp, hs] at hrel; exact absurd hrel (by simp [Rel])
    | take v occ' =>
      cases hs : step b to g with
      | stop => rw [hp, hs] at hrel; exact absurd hrel (by simp [Rel])
      | king ok' => rw [hp, hs] at hrel; exact absurd hrel (by simp [Rel])
      | take v' g' =>
        rw [hp, hs] at hrel
        obtain ⟨hv, hocc, hstm, hinv'⟩ := hrel
        simp only
        rw [ih g' hinv', hv, hocc, hstm]

/-- the invariant holds at the first loop head. -/
theorem inv_geo0 (b : Board) (m : Move) : Inv b (Move.dst m) (geo0 b m) :=
  ⟨rfl, Or.inl rfl, Or.inl rfl⟩

/-- The capture sequence of `See.see` is the from-scratch bitboard sequence. -/
theorem capsOf_eq_capsBB {b : Board} (hwf : b.wf = true) (m : Move) :
    See.capsOf b m = capsBB b (Move.dst m) See.fuel b.stm.flip (See.occ0 b m) := by
  unfold See.capsOf
  rw [caps_eq_capsBB hwf (Move.dst m) (by unfold Move.dst; omega) See.fuel (geo0 b m) (inv_geo0 b m)]
  rfl

end ChessVerif.Proofs.SeeIncr
