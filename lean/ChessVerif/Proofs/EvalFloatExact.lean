/-
  C19 (a), float side, part 2: EXACTNESS.  With integer-valued coefficients of int16 magnitude (the
  shipped set as `tuning.EngineCoeffs()` converts it) every addend of every accumulator of eval.go —
  `sp.mg[c]`, `sp.eg[c]` before the king-attack term, `ka.score[ph][c]`, the knight+bishop-mate path —
  is an integer of magnitude ≤ 64·32768 = 2^21, there are fewer than 1024 addends, so every partial sum
  is an integer of magnitude < 2^31 ≤ 2^53 and the float64 operations of `opsF` compute it EXACTLY
  (and never overflow: the `ok` flag stays set).

  Method: the evaluation is run over the PRODUCT of the exact-integer arithmetic `opsZ` and the float
  arithmetic `opsF σ` (`prodOps`); both projections are homomorphisms (`Hom`, Proofs/EvalHom.lean), so the
  addend lists of the product project onto the integer and the float addend lists; a generic walk over
  the addend lists (`BL`: every element satisfies `P`, length bound) shows that in every addend the float
  component IS the integer component.
-/
import ChessVerif.Model.EvalF
import ChessVerif.Proofs.EvalFloatF64
import ChessVerif.Proofs.EvalBoundTotal

namespace ChessVerif.Eval
open ChessVerif ChessVerif.IEEE

/-! ## generic walk over the addend lists -/

section walk
variable {S : Type}

/-- every element satisfies `P`, at most `n` elements. -/
def BL (P : S → Prop) (n : Nat) (l : List S) : Prop := (∀ t ∈ l, P t) ∧ l.length ≤ n

theorem BL.nil {P : S → Prop} {n : Nat} : BL P n [] := ⟨by simp, by simp⟩

theorem BL.single {P : S → Prop} {t : S} (h : P t) : BL P 1 [t] := ⟨by simpa using h, by simp⟩

theorem BL.mono {P : S → Prop} {n m : Nat} {l : List S} (h : BL P n l) (hnm : n ≤ m) : BL P m l :=
  ⟨h.1, Nat.le_trans h.2 hnm⟩

theorem BL.append {P : S → Prop} {n m : Nat} {l l' : List S} (h : BL P n l) (h' : BL P m l') :
    BL P (n + m) (l ++ l') := by
  refine ⟨?_, by simp only [List.length_append]; have := h.2; have := h'.2; omega⟩
  intro t ht
  rcases List.mem_append.mp ht with ht | ht
  · exact h.1 t ht
  · exact h'.1 t ht

theorem BL.ite {P : S → Prop} {n : Nat} {l l' : List S} (b : Prop) [Decidable b] (h : BL P n l) (h' : BL P n l') :
    BL P n (if b then l else l') := by split <;> assumption

theorem BL.flatMap {α : Type} {P : S → Prop} {k m : Nat} {l : List α} {f : α → List S}
    (h : ∀ a ∈ l, BL P k (f a)) (hl : l.length ≤ m) : BL P (m * k) (l.flatMap f) := by
  constructor
  · intro t ht
    obtain ⟨a, ha, hta⟩ := List.mem_flatMap.mp ht
    exact (h a ha).1 t hta
  · have : (l.flatMap f).length ≤ l.length * k := by
      induction l with
      | nil => simp
      | cons a l ih =>
        have h1 := (h a (by simp)).2
        have h2 := ih (fun b hb => h b (by simp [hb])) (by simp at hl; omega)
        simp only [List.flatMap_cons, List.length_append, List.length_cons]
        rw [Nat.add_mul]; omega
    exact Nat.le_trans this (Nat.mul_le_mul_right k hl)

theorem BL.map {α : Type} {P : S → Prop} {m : Nat} {l : List α} {f : α → S}
    (h : ∀ a ∈ l, P (f a)) (hl : l.length ≤ m) : BL P m (l.map f) := by
  constructor
  · intro t ht
    obtain ⟨a, ha, rfl⟩ := List.mem_map.mp ht
    exact h a ha
  · simpa using hl

theorem bits_length_le (x : BB) : (bits x).length ≤ 64 := Bound.popcount_le64 x

variable (o : Ops S) (cs : CoeffSet S) (i : EvalInput) (C P : S → Prop)

/-- every coefficient lookup (an index out of range reads the zero value) satisfies `C`. -/
structure Look : Prop where
  PSqT : ∀ r k, C (at2 o cs.PSqT r k)
  PieceValues : ∀ r k, C (at2 o cs.PieceValues r k)
  TempoBonus : ∀ k, C (at1 o cs.TempoBonus k)
  KingAttackPieces : ∀ r k, C (at2 o cs.KingAttackPieces r k)
  SafeChecks : ∀ r k, C (at2 o cs.SafeChecks r k)
  KingShelter : ∀ k, C (at1 o cs.KingShelter k)
  MobilityKnight : ∀ r k, C (at2 o cs.MobilityKnight r k)
  MobilityBishop : ∀ r k, C (at2 o cs.MobilityBishop r k)
  MobilityRook : ∀ r k, C (at2 o cs.MobilityRook r k)
  KnightOutpost : ∀ r k, C (at2 o cs.KnightOutpost r k)
  ConnectedRooks : ∀ k, C (at1 o cs.ConnectedRooks k)
  BishopPair : ∀ k, C (at1 o cs.BishopPair k)
  ProtectedPasser : ∀ k, C (at1 o cs.ProtectedPasser k)
  PasserKingDist : ∀ k, C (at1 o cs.PasserKingDist k)
  PasserRank : ∀ r k, C (at2 o cs.PasserRank r k)
  DoubledPawns : ∀ k, C (at1 o cs.DoubledPawns k)
  IsolatedPawns : ∀ k, C (at1 o cs.IsolatedPawns k)

/-- what the addends are made of: coefficients (`C`), the zero value, products of a coefficient (or of
    the constant 30) with an integer of magnitude ≤ 64. -/
structure TermLaws : Prop where
  zero : P (o.ofInt 0)
  coeff : ∀ x, C x → P x
  mul : ∀ (n : Int) x, -64 ≤ n → n ≤ 64 → C x → P (o.mulInt n x)
  thirty : C (o.ofInt 30)

set_option linter.unusedSectionVars false
variable {o cs C P} (hL : Look o cs C) (hT : TermLaws o C P)
include hL hT

theorem psqt_C (ph : Nat) (c : Color) (p : Piece) (sq : Nat) : C (psqt o cs ph c p sq) := by
  unfold psqt; exact hL.PSqT _ _

theorem popcount_mul (x : BB) (y : S) (hy : C y) : P (o.mulInt (popcount x) y) := by
  have := Bound.popcount_le64 x
  exact hT.mul _ _ (by omega) (by omega) hy

theorem pieceValueTerms_BL (ph : Nat) (c : Color) : BL P 5 (pieceValueTerms o cs i ph c) := by
  unfold pieceValueTerms
  apply BL.map
  · intro p _
    exact popcount_mul hL hT _ _ (hL.PieceValues _ _)
  · simp [pawnToQueen]

theorem tempoTerms_BL (ph : Nat) (c : Color) : BL P 1 (tempoTerms o cs i ph c) := by
  unfold tempoTerms
  exact BL.ite _ (BL.single (hT.coeff _ (hL.TempoBonus _))) BL.nil

theorem bishopPairTerms_BL (ph : Nat) (c : Color) : BL P 1 (bishopPairTerms o cs i ph c) := by
  unfold bishopPairTerms
  simp only
  split
  · exact BL.single (hT.coeff _ (hL.BishopPair _))
  · exact BL.nil

theorem passerTerms_BL (ph : Nat) (c : Color) : BL P (1 + 64 * 2) (passerTerms o cs i ph c) := by
  unfold passerTerms
  simp only
  apply BL.append
  · split
    · split
      · apply BL.single
        have hk := fun cc => Bound.lowestSet_le (i.kingBB cc)
        have hq : (if c = Color.white then lowestSet (i.passers c) % 8 + 56 else lowestSet (i.passers c) % 8) ≤ 64 := by
          have := Nat.mod_lt (lowestSet (i.passers c)) (show 0 < 8 by omega)
          split <;> omega
        have h1 := Bound.cheb_range _ _ hq (hk c.flip)
        have h2 := Bound.cheb_range _ _ hq (hk c)
        exact hT.mul _ _ (by unfold EvalInput.kingSq; omega) (by unfold EvalInput.kingSq; omega) (hL.PasserKingDist _)
      · exact BL.nil
    · exact BL.nil
  · have hrank : ∀ r : Nat, P (if r = 0 then zero o else at2 o cs.PasserRank ph (r - 1)) := by
      intro r
      split
      · exact hT.zero
      · exact hT.coeff _ (hL.PasserRank _ _)
    apply BL.flatMap _ (bits_length_le _)
    intro sq _
    refine (BL.append ?_ ?_ : BL P (1 + 1) _)
    · exact BL.ite _ (BL.single (hT.coeff _ (hL.ProtectedPasser _))) BL.nil
    · exact BL.single (hrank _)

theorem doubledTerms_BL (ph : Nat) (c : Color) : BL P 1 (doubledTerms o cs i ph c) := by
  unfold doubledTerms
  exact BL.single (popcount_mul hL hT _ _ (hL.DoubledPawns _))

theorem isolatedTerms_BL (ph : Nat) (c : Color) : BL P 1 (isolatedTerms o cs i ph c) := by
  unfold isolatedTerms
  exact BL.single (popcount_mul hL hT _ _ (hL.IsolatedPawns _))

theorem rookMobilityTerms_BL (ph : Nat) (c : Color) (sq : Nat) (att : BB) :
    BL P (1 + 1) (rookMobilityTerms o cs i ph c sq att) := by
  unfold rookMobilityTerms
  simp only
  apply BL.append (BL.single (hT.coeff _ (hL.MobilityRook _ _)))
  exact BL.ite _ (BL.single (hT.coeff _ (hL.ConnectedRooks _))) BL.nil

theorem bishopMobilityTerms_BL (ph : Nat) (c : Color) (att : BB) :
    BL P 1 (bishopMobilityTerms o cs i ph c att) := by
  unfold bishopMobilityTerms
  exact BL.single (hT.coeff _ (hL.MobilityBishop _ _))

theorem knightMobilityTerms_BL (ph : Nat) (c : Color) (att pc : BB) :
    BL P 1 (knightMobilityTerms o cs i ph c att pc) := by
  unfold knightMobilityTerms
  exact BL.single (hT.coeff _ (hL.MobilityKnight _ _))

theorem knightOutpostTerms_BL (ph : Nat) (c : Color) (sq : Nat) (holes : BB) :
    BL P 1 (knightOutpostTerms o cs ph c sq holes) := by
  unfold knightOutpostTerms
  split
  · exact BL.single (hT.coeff _ (hL.KnightOutpost _ _))
  · exact BL.nil

theorem loopTerms_BL (ph : Nat) (c : Color) :
    BL P (64 + 64 * (1 + 1 + 1) + 64 * (1 + 1) + 64 * (1 + 1 + 1) + 64 + 1) (loopTerms o cs i ph c) := by
  unfold loopTerms
  refine BL.append (BL.append (BL.append (BL.append (BL.append ?_ ?_) ?_) ?_) ?_) ?_
  · exact BL.map (fun sq _ => hT.coeff _ (psqt_C hL hT _ _ _ _)) (bits_length_le _)
  · apply BL.flatMap _ (bits_length_le _)
    intro sq _
    exact BL.append (rookMobilityTerms_BL (i := i) hL hT _ _ _ _) (BL.single (hT.coeff _ (psqt_C hL hT _ _ _ _)))
  · apply BL.flatMap _ (bits_length_le _)
    intro sq _
    exact BL.append (bishopMobilityTerms_BL (i := i) hL hT _ _ _) (BL.single (hT.coeff _ (psqt_C hL hT _ _ _ _)))
  · apply BL.flatMap _ (bits_length_le _)
    intro sq _
    exact BL.append (BL.append (knightMobilityTerms_BL (i := i) hL hT _ _ _ _) (knightOutpostTerms_BL hL hT _ _ _ _))
      (BL.single (hT.coeff _ (psqt_C hL hT _ _ _ _)))
  · exact BL.map (fun sq _ => hT.coeff _ (psqt_C hL hT _ _ _ _)) (bits_length_le _)
  · exact BL.single (hT.coeff _ (psqt_C hL hT _ _ _ _))

/-- the addends of `sp.mg/eg[c]` before the king-attack term: fewer than 1024, all satisfy `P`. -/
theorem restTerms_BL (ph : Nat) (c : Color) : BL P 1024 (restTerms o cs i ph c) := by
  unfold restTerms
  refine BL.mono (BL.append (BL.append (BL.append (BL.append (BL.append (BL.append
    (pieceValueTerms_BL (i := i) hL hT ph c) (tempoTerms_BL (i := i) hL hT ph c)) (bishopPairTerms_BL (i := i) hL hT ph c))
    (passerTerms_BL (i := i) hL hT ph c)) (doubledTerms_BL (i := i) hL hT ph c)) (isolatedTerms_BL (i := i) hL hT ph c))
    (loopTerms_BL (i := i) hL hT ph c)) (by decide)

theorem attackPieceTerms_BL (ph : Nat) (c : Color) : BL P (4 * (64 * 1)) (attackPieceTerms o cs i ph c) := by
  unfold attackPieceTerms
  apply BL.flatMap _ (by simp [attackers])
  intro p _
  apply BL.flatMap _ (bits_length_le _)
  intro sq _
  exact BL.ite _ (BL.single (hT.coeff _ (hL.KingAttackPieces _ _))) BL.nil

theorem safeCheckTerms_BL (ph : Nat) (c : Color) : BL P 4 (safeCheckTerms o cs i ph c) := by
  unfold safeCheckTerms
  apply BL.map
  · intro p _
    exact popcount_mul hL hT _ _ (hL.SafeChecks _ _)
  · simp [attackers]

theorem shelterTerm_P (ph : Nat) (c : Color) : P (shelterTerm o cs i ph c) := by
  unfold shelterTerm
  have h0 : 0 ≤ i.shelterPawns c.flip := by unfold EvalInput.shelterPawns; omega
  exact hT.mul _ _ (by omega) (by omega) (hL.KingShelter _)

/-- the addends of `ka.score[ph][c]`. -/
theorem kaTerms_BL (ph : Nat) (c : Color) : BL P 1024 (kaTerms o cs i ph c) := by
  unfold kaTerms
  cases c
  · exact BL.mono (BL.append (attackPieceTerms_BL (i := i) hL hT ph _)
      (BL.append (safeCheckTerms_BL (i := i) hL hT ph _) (BL.single (shelterTerm_P (i := i) hL hT ph _)))) (by decide)
  · exact BL.mono (BL.append (attackPieceTerms_BL (i := i) hL hT ph _)
      (BL.append (BL.single (shelterTerm_P (i := i) hL hT ph _)) (safeCheckTerms_BL (i := i) hL hT ph _))) (by decide)

/-- the addends of the knight + bishop mate path. -/
theorem knbTerms_BL (c : Color) : BL P 1024 (pieceValueTerms o cs i 1 c ++ knbvkTerms o cs i 1 c) := by
  refine BL.mono (BL.append (pieceValueTerms_BL (i := i) hL hT 1 c) (?_ : BL P (3 + 1) _)) (by decide)
  unfold knbvkTerms
  simp only
  split
  · exact BL.mono (BL.single (hT.coeff _ (psqt_C hL hT _ _ _ _))) (by decide)
  · apply BL.append
    · refine ⟨?_, by simp⟩
      intro t ht
      simp only [List.mem_cons, List.mem_nil_iff, or_false] at ht
      rcases ht with rfl | rfl | rfl <;> exact hT.coeff _ (psqt_C hL hT _ _ _ _)
    · simp only [if_true]
      apply BL.single
      have := Bound.knbCornerDist_range i
      exact hT.mul _ _ (by omega) (by omega) hT.thirty

end walk

/-! ## the float operations on integers -/

/-- the double `f` is described by the model and its value is the integer `z`. -/
def Ex (z : Int) (f : F64) : Prop := f.val = (z : ℚ) ∧ f.ok = true

theorem finite_int (z : Int) (h1 : -(2 ^ 53) ≤ z) (h2 : z ≤ 2 ^ 53) : finiteQ (z : ℚ) = true := by
  apply finiteQ_of_le
  have hK : (2 : ℚ) ^ 53 ≤ 2 ^ 1000 := pow_le_pow_right₀ (by norm_num) (by norm_num)
  generalize (2 : ℚ) ^ 1000 = K at hK
  have a1 : (-(2 ^ 53 : Int) : ℚ) ≤ z := by exact_mod_cast h1
  have a2 : (z : ℚ) ≤ (2 ^ 53 : Int) := by exact_mod_cast h2
  push_cast at a1 a2
  rw [abs_le]
  constructor <;> linarith

theorem mk'_ex (z : Int) (h1 : -(2 ^ 53) ≤ z) (h2 : z ≤ 2 ^ 53) (s : Bool) :
    Ex z (F64.mk' (z : ℚ) s true) := by
  unfold F64.mk' Ex
  simp only [round_intCast z h1 h2, finite_int z h1 h2, Bool.and_self, and_self]

theorem ofInt_ex (z : Int) (h1 : -(2 ^ 53) ≤ z) (h2 : z ≤ 2 ^ 53) : Ex z (F64.ofInt z) := mk'_ex z h1 h2 _

theorem add_ex {a b : Int} {x y : F64} (hx : Ex a x) (hy : Ex b y) (h1 : -(2 ^ 53) ≤ a + b) (h2 : a + b ≤ 2 ^ 53) :
    Ex (a + b) (F64.add x y) := by
  unfold F64.add
  simp only [hx.1, hx.2, hy.1, hy.2, Bool.and_self]
  rw [← Int.cast_add]
  exact mk'_ex _ h1 h2 _

theorem sub_ex {a b : Int} {x y : F64} (hx : Ex a x) (hy : Ex b y) (h1 : -(2 ^ 53) ≤ a - b) (h2 : a - b ≤ 2 ^ 53) :
    Ex (a - b) (F64.sub x y) := by
  unfold F64.sub
  simp only [hx.1, hx.2, hy.1, hy.2, Bool.and_self]
  rw [← Int.cast_sub]
  exact mk'_ex _ h1 h2 _

theorem mul_ex {a b : Int} {x y : F64} (hx : Ex a x) (hy : Ex b y) (h1 : -(2 ^ 53) ≤ a * b) (h2 : a * b ≤ 2 ^ 53) :
    Ex (a * b) (F64.mul x y) := by
  unfold F64.mul
  simp only [hx.1, hx.2, hy.1, hy.2, Bool.and_self]
  rw [← Int.cast_mul]
  exact mk'_ex _ h1 h2 _

/-- an accumulator fed with integer-valued doubles of magnitude ≤ 2^21 stays exact as long as
    `|start| + count·2^21 ≤ 2^53`. -/
theorem foldl_add_ex (lp : List (Int × F64))
    (hall : ∀ p ∈ lp, Ex p.1 p.2 ∧ -2097152 ≤ p.1 ∧ p.1 ≤ 2097152)
    (acc : F64) (a A : Int) (hacc : Ex a acc) (ha : -A ≤ a ∧ a ≤ A)
    (hb : A + lp.length * 2097152 ≤ 2 ^ 53) :
    Ex (a + Bound.lsum (lp.map (·.1))) ((lp.map (·.2)).foldl F64.add acc) ∧
    -(A + lp.length * 2097152) ≤ a + Bound.lsum (lp.map (·.1)) ∧
    a + Bound.lsum (lp.map (·.1)) ≤ A + lp.length * 2097152 := by
  induction lp generalizing acc a A with
  | nil => simpa using ⟨hacc, ha⟩
  | cons p lp ih =>
    obtain ⟨hp, hp1, hp2⟩ := hall p (by simp)
    simp only [List.length_cons, Nat.cast_add, Nat.cast_one] at hb
    have hstep := add_ex hacc hp (by omega) (by omega)
    have := ih (fun q hq => hall q (by simp [hq])) (F64.add acc p.2) (a + p.1) (A + 2097152) hstep
      ⟨by omega, by omega⟩ (by omega)
    simp only [List.map_cons, List.foldl_cons, Bound.lsum_cons, List.length_cons, Nat.cast_add, Nat.cast_one]
    refine ⟨?_, by omega, by omega⟩
    rw [← Int.add_assoc]; exact this.1

/-! ## the product of the integer and the float arithmetic -/

/-- run two score arithmetics side by side. -/
def prodOps {S T : Type} (o₁ : Ops S) (o₂ : Ops T) : Ops (S × T) where
  ofInt n := (o₁.ofInt n, o₂.ofInt n)
  add a b := (o₁.add a.1 b.1, o₂.add a.2 b.2)
  sub a b := (o₁.sub a.1 b.1, o₂.sub a.2 b.2)
  mulInt n x := (o₁.mulInt n x.1, o₂.mulInt n x.2)
  sigmoid x := (o₁.sigmoid x.1, o₂.sigmoid x.2)
  taper mg eg p q f := (o₁.taper mg.1 eg.1 p q f, o₂.taper mg.2 eg.2 p q f)

theorem hom_fst {S T : Type} (o₁ : Ops S) (o₂ : Ops T) : Hom (prodOps o₁ o₂) o₁ Prod.fst :=
  ⟨fun _ => rfl, fun _ _ => rfl, fun _ _ => rfl, fun _ _ => rfl⟩

theorem hom_snd {S T : Type} (o₁ : Ops S) (o₂ : Ops T) : Hom (prodOps o₁ o₂) o₂ Prod.snd :=
  ⟨fun _ => rfl, fun _ _ => rfl, fun _ _ => rfl, fun _ _ => rfl⟩

theorem CoeffSet.map_map {S T U : Type} (f : S → T) (g : T → U) (cs : CoeffSet S) :
    (cs.map f).map g = cs.map (g ∘ f) := by
  simp [CoeffSet.map, Array.map_map, Function.comp_def]

/-- `tuning.EngineCoeffs()` applied to an arbitrary integer coefficient set: `float64(·)` of every leaf. -/
abbrev toF (cs : CoeffSet Int) : CoeffSet F64 := cs.map F64.ofInt

/-- integer and float coefficient side by side. -/
def emb (z : Int) : Int × F64 := (z, F64.ofInt z)

theorem map_emb_fst (cs : CoeffSet Int) : (cs.map emb).map Prod.fst = cs := by
  rw [CoeffSet.map_map]
  cases cs
  simp [CoeffSet.map, Function.comp_def, emb]

theorem map_emb_snd (cs : CoeffSet Int) : (cs.map emb).map Prod.snd = toF cs := by
  rw [CoeffSet.map_map]
  rfl

theorem shippedF_eq : shippedF = toF shipped := by
  unfold shippedF shipped toF
  rw [ofFlat_map]
  rfl

/-! ### lookups in the side-by-side coefficient set -/

theorem getD_map {α β : Type} (f : α → β) (a : Array α) (k : Nat) (d : α) :
    (a.map f).getD k (f d) = f (a.getD k d) := by
  simp only [Array.getD, Array.size_map]
  split <;> simp

theorem getD_all {α : Type} (p : α → Bool) (a : Array α) (h : a.all p = true) (k : Nat) (d : α) (hd : p d = true) :
    p (a.getD k d) = true := by
  simp only [Array.getD]
  split
  · rw [Array.all_eq_true] at h
    exact h k ‹_›
  · exact hd

variable (σ : ℚ → ℚ)

/-- the coefficient-like values of the product: an int16 integer beside its `float64(·)`. -/
def CoeffLike (x : Int × F64) : Prop := ∃ z : Int, x = emb z ∧ -32768 ≤ z ∧ z ≤ 32767

theorem at1_emb (a : Array Int) (h : a.all inRange16 = true) (k : Nat) :
    CoeffLike (at1 (prodOps opsZ (opsF σ)) (a.map emb) k) := by
  refine ⟨a.getD k 0, ?_, ?_⟩
  · exact getD_map emb a k 0
  · have := getD_all inRange16 a h k 0 (by decide)
    simpa [inRange16] using this

theorem at2_emb (a : Array (Array Int)) (h : a.all (·.all inRange16) = true) (r k : Nat) :
    CoeffLike (at2 (prodOps opsZ (opsF σ)) (a.map (·.map emb)) r k) := by
  have e : (a.map (·.map emb)).getD r #[] = (a.getD r #[]).map emb := by
    have := getD_map (fun row : Array Int => row.map emb) a r #[]
    simpa using this
  unfold at2
  rw [e]
  exact at1_emb σ _ (getD_all (·.all inRange16) a h r #[] (by simp)) k

theorem look_emb (cs : CoeffSet Int) (h : cs.all inRange16 = true) :
    Look (prodOps opsZ (opsF σ)) (cs.map emb) CoeffLike := by
  simp only [CoeffSet.all, Bool.and_eq_true] at h
  obtain ⟨⟨⟨⟨⟨⟨⟨⟨⟨⟨⟨⟨⟨⟨⟨⟨h1, h2⟩, h3⟩, h4⟩, h5⟩, h6⟩, h7⟩, h8⟩, h9⟩, h10⟩, h11⟩, h12⟩, h13⟩, h14⟩, h15⟩, h16⟩, h17⟩ := h
  exact ⟨at2_emb σ _ h1, at2_emb σ _ h2, at1_emb σ _ h3, at2_emb σ _ h4, at2_emb σ _ h5, at1_emb σ _ h6,
    at2_emb σ _ h7, at2_emb σ _ h8, at2_emb σ _ h9, at2_emb σ _ h10, at1_emb σ _ h11, at1_emb σ _ h12,
    at1_emb σ _ h13, at1_emb σ _ h14, at2_emb σ _ h15, at1_emb σ _ h16, at1_emb σ _ h17⟩

/-- an addend: the float component is the integer component, magnitude at most 2^21. -/
def TermEx (x : Int × F64) : Prop := Ex x.1 x.2 ∧ -2097152 ≤ x.1 ∧ x.1 ≤ 2097152

theorem termLaws_emb : TermLaws (prodOps opsZ (opsF σ)) CoeffLike TermEx where
  zero := ⟨ofInt_ex 0 (by norm_num) (by norm_num), by show -2097152 ≤ (0 : Int); norm_num, by show (0 : Int) ≤ 2097152; norm_num⟩
  coeff := by
    rintro _ ⟨z, rfl, h1, h2⟩
    exact ⟨ofInt_ex z (by omega) (by omega), by show -2097152 ≤ z; omega, by show z ≤ 2097152; omega⟩
  mul := by
    rintro n _ hn1 hn2 ⟨z, rfl, h1, h2⟩
    show Ex (n * z) (F64.mul (F64.ofInt n) (F64.ofInt z)) ∧ -2097152 ≤ n * z ∧ n * z ≤ 2097152
    have b1 : -2097152 ≤ n * z := by nlinarith
    have b2 : n * z ≤ 2097152 := by nlinarith
    refine ⟨?_, b1, b2⟩
    exact mul_ex (ofInt_ex n (by omega) (by omega)) (ofInt_ex z (by omega) (by omega)) (by omega) (by omega)
  thirty := ⟨30, rfl, by norm_num, by norm_num⟩

/-! ## exact accumulators -/

/-- a float accumulator over an addend list that is the float projection of a product list of exact
    addends equals the integer accumulator. -/
theorem sum_ex (lp : List (Int × F64)) (h : BL TermEx 1024 lp) :
    Ex (sum opsZ (lp.map (·.1))) (sum (opsF σ) (lp.map (·.2))) ∧
    -2147483648 ≤ sum opsZ (lp.map (·.1)) ∧ sum opsZ (lp.map (·.1)) ≤ 2147483648 := by
  have hlen : (lp.length : Int) ≤ 1024 := by exact_mod_cast h.2
  have := foldl_add_ex lp h.1 (F64.ofInt 0) 0 0 (ofInt_ex 0 (by norm_num) (by norm_num)) ⟨by omega, by omega⟩
    (by omega)
  rw [Bound.sum_opsZ]
  simp only [Int.zero_add] at this
  refine ⟨this.1, by omega, by omega⟩

section
variable (cs : CoeffSet Int) (hcs : cs.all inRange16 = true) (i : EvalInput)
include hcs

/-- **Exactness of `sp.mg/eg[c]` before the king-attack term.** -/
theorem restF_ex (ph : Nat) (c : Color) :
    Ex (sum opsZ (restTerms opsZ cs i ph c)) (sum (opsF σ) (restTerms (opsF σ) (toF cs) i ph c)) ∧
    -2147483648 ≤ sum opsZ (restTerms opsZ cs i ph c) ∧ sum opsZ (restTerms opsZ cs i ph c) ≤ 2147483648 := by
  have h := sum_ex σ _ (restTerms_BL (i := i) (look_emb σ cs hcs) (termLaws_emb σ) ph c)
  have e1 := restTerms_map (hom_fst opsZ (opsF σ)) (cs.map emb) i ph c
  have e2 := restTerms_map (hom_snd opsZ (opsF σ)) (cs.map emb) i ph c
  rw [map_emb_fst] at e1
  rw [map_emb_snd] at e2
  rw [← e1, ← e2]
  exact h

/-- **Exactness of the king-attack scores `ka.score[ph][c]`** (the sigmoid's arguments). -/
theorem kaF_ex (ph : Nat) (c : Color) :
    Ex (sum opsZ (kaTerms opsZ cs i ph c)) (sum (opsF σ) (kaTerms (opsF σ) (toF cs) i ph c)) := by
  have h := sum_ex σ _ (kaTerms_BL (i := i) (look_emb σ cs hcs) (termLaws_emb σ) ph c)
  have e1 := kaTerms_map (hom_fst opsZ (opsF σ)) (cs.map emb) i ph c
  have e2 := kaTerms_map (hom_snd opsZ (opsF σ)) (cs.map emb) i ph c
  rw [map_emb_fst] at e1
  rw [map_emb_snd] at e2
  rw [← e1, ← e2]
  exact h.1

/-- **Exactness of the knight + bishop mate accumulators.** -/
theorem knbF_ex (c : Color) :
    Ex (sum opsZ (pieceValueTerms opsZ cs i 1 c ++ knbvkTerms opsZ cs i 1 c))
      (sum (opsF σ) (pieceValueTerms (opsF σ) (toF cs) i 1 c ++ knbvkTerms (opsF σ) (toF cs) i 1 c)) ∧
    -2147483648 ≤ sum opsZ (pieceValueTerms opsZ cs i 1 c ++ knbvkTerms opsZ cs i 1 c) ∧
    sum opsZ (pieceValueTerms opsZ cs i 1 c ++ knbvkTerms opsZ cs i 1 c) ≤ 2147483648 := by
  have h := sum_ex σ _ (knbTerms_BL (i := i) (look_emb σ cs hcs) (termLaws_emb σ) c)
  have e1 : (pieceValueTerms (prodOps opsZ (opsF σ)) (cs.map emb) i 1 c ++ knbvkTerms (prodOps opsZ (opsF σ)) (cs.map emb) i 1 c).map Prod.fst
      = pieceValueTerms opsZ cs i 1 c ++ knbvkTerms opsZ cs i 1 c := by
    rw [List.map_append, pieceValueTerms_map (hom_fst opsZ (opsF σ)), knbvkTerms_map (hom_fst opsZ (opsF σ)), map_emb_fst]
  have e2 : (pieceValueTerms (prodOps opsZ (opsF σ)) (cs.map emb) i 1 c ++ knbvkTerms (prodOps opsZ (opsF σ)) (cs.map emb) i 1 c).map Prod.snd
      = pieceValueTerms (opsF σ) (toF cs) i 1 c ++ knbvkTerms (opsF σ) (toF cs) i 1 c := by
    rw [List.map_append, pieceValueTerms_map (hom_snd opsZ (opsF σ)), knbvkTerms_map (hom_snd opsZ (opsF σ)), map_emb_snd]
  rw [← e1, ← e2]
  exact h

end

end ChessVerif.Eval
