/-
  C19 (a), the hypothesis `noInt16Wrap`: magnitude bounds, part 1 — generic tools.

  * `lsum` — plain integer sum; `sum opsZ l = lsum l`; bounds of a sum of per-item bounded blocks;
  * `lHi` / `lLo` — the largest / smallest entry of a coefficient row, 0 included (an index out of range
    reads 0 in the model), computed by a list fold so that the kernel can evaluate it; `at1` / `at2` of
    the exact-integer instance lie between them;
  * population-count monotonicity, range of `lowestSet`, `cheb`, and of the truncating taper.
-/
import ChessVerif.Proofs.EvalEnvelope
import Mathlib.Tactic.Linarith
import Mathlib.Tactic.Ring
import Mathlib.Tactic.IntervalCases

namespace ChessVerif.Eval.Bound
open ChessVerif ChessVerif.Eval

/-! ### sums in exact integers -/

/-- plain sum of a list of integers. -/
def lsum : List Int → Int
  | [] => 0
  | a :: l => a + lsum l

@[simp] theorem lsum_nil : lsum [] = 0 := rfl
@[simp] theorem lsum_cons (a : Int) (l : List Int) : lsum (a :: l) = a + lsum l := rfl

theorem lsum_append (l₁ l₂ : List Int) : lsum (l₁ ++ l₂) = lsum l₁ + lsum l₂ := by
  induction l₁ with
  | nil => simp
  | cons a l ih => simp only [List.cons_append, lsum_cons, ih]; omega

theorem foldl_add (l : List Int) (z : Int) : l.foldl (fun a b => a + b) z = z + lsum l := by
  induction l generalizing z with
  | nil => simp
  | cons a l ih => simp only [List.foldl_cons, lsum_cons]; rw [ih]; omega

/-- the accumulator of the exact-integer instance is the plain sum. -/
theorem sum_opsZ (l : List Int) : sum opsZ l = lsum l := by
  unfold sum
  show l.foldl (fun a b => a + b) 0 = _
  rw [foldl_add]; omega

/-- blocks `f a` each summing into `[lo, hi]`: the concatenation sums into `[n·lo, n·hi]`. -/
theorem lsum_flatMap_bound {α : Type} (l : List α) (f : α → List Int) (lo hi : Int)
    (h : ∀ a ∈ l, lo ≤ lsum (f a) ∧ lsum (f a) ≤ hi) :
    (l.length : Int) * lo ≤ lsum (l.flatMap f) ∧ lsum (l.flatMap f) ≤ (l.length : Int) * hi := by
  induction l with
  | nil => simp
  | cons a l ih =>
    have h1 := h a (by simp)
    have h2 := ih (fun b hb => h b (by simp [hb]))
    simp only [List.flatMap_cons, lsum_append, List.length_cons]
    push_cast
    constructor <;> nlinarith [h1.1, h1.2, h2.1, h2.2]

theorem lsum_map_bound {α : Type} (l : List α) (f : α → Int) (lo hi : Int)
    (h : ∀ a ∈ l, lo ≤ f a ∧ f a ≤ hi) :
    (l.length : Int) * lo ≤ lsum (l.map f) ∧ lsum (l.map f) ≤ (l.length : Int) * hi := by
  have e : ∀ l : List α, l.map f = l.flatMap (fun a => [f a]) := by
    intro l
    induction l with
    | nil => rfl
    | cons a l ih => simp [List.flatMap_cons, ih]
  rw [e l]
  exact lsum_flatMap_bound l _ lo hi (fun a ha => by simpa using h a ha)

/-! ### extreme entries of a row -/

/-- the largest entry of `l`, at least 0. -/
def lHi (l : List Int) : Int := l.foldl max 0
/-- the smallest entry of `l`, at most 0. -/
def lLo (l : List Int) : Int := l.foldl min 0

theorem foldl_max_ge (l : List Int) (z : Int) : z ≤ l.foldl max z ∧ ∀ x ∈ l, x ≤ l.foldl max z := by
  induction l generalizing z with
  | nil => simp
  | cons a l ih =>
    simp only [List.foldl_cons, List.mem_cons]
    have := ih (max z a)
    refine ⟨by omega, ?_⟩
    rintro x (rfl | hx)
    · omega
    · exact this.2 x hx

theorem foldl_min_le (l : List Int) (z : Int) : l.foldl min z ≤ z ∧ ∀ x ∈ l, l.foldl min z ≤ x := by
  induction l generalizing z with
  | nil => simp
  | cons a l ih =>
    simp only [List.foldl_cons, List.mem_cons]
    have := ih (min z a)
    refine ⟨by omega, ?_⟩
    rintro x (rfl | hx)
    · omega
    · exact this.2 x hx

theorem lHi_nonneg (l : List Int) : 0 ≤ lHi l := (foldl_max_ge l 0).1
theorem lLo_nonpos (l : List Int) : lLo l ≤ 0 := (foldl_min_le l 0).1
theorem le_lHi {l : List Int} {x : Int} (h : x = 0 ∨ x ∈ l) : x ≤ lHi l := by
  rcases h with rfl | h
  · exact lHi_nonneg l
  · exact (foldl_max_ge l 0).2 x h
theorem lLo_le {l : List Int} {x : Int} (h : x = 0 ∨ x ∈ l) : lLo l ≤ x := by
  rcases h with rfl | h
  · exact lLo_nonpos l
  · exact (foldl_min_le l 0).2 x h

/-- row `r` of a two-dimensional coefficient field. -/
def row (a : Array (Array Int)) (r : Nat) : List Int := (a.getD r #[]).toList

theorem at1_mem (a : Array Int) (k : Nat) : at1 opsZ a k = 0 ∨ at1 opsZ a k ∈ a.toList := by
  unfold at1
  show a.getD k 0 = 0 ∨ a.getD k 0 ∈ a.toList
  unfold Array.getD
  split
  · right; simp
  · left; rfl

theorem at2_mem (a : Array (Array Int)) (r k : Nat) :
    at2 opsZ a r k = 0 ∨ at2 opsZ a r k ∈ row a r := at1_mem _ k

theorem at1_bound (a : Array Int) (k : Nat) :
    lLo a.toList ≤ at1 opsZ a k ∧ at1 opsZ a k ≤ lHi a.toList :=
  ⟨lLo_le (at1_mem a k), le_lHi (at1_mem a k)⟩

theorem at2_bound (a : Array (Array Int)) (r k : Nat) :
    lLo (row a r) ≤ at2 opsZ a r k ∧ at2 opsZ a r k ≤ lHi (row a r) :=
  ⟨lLo_le (at2_mem a r k), le_lHi (at2_mem a r k)⟩

/-! ### products of a bounded count with a bounded coefficient -/

theorem mul_le_of {n m x X : Int} (h0 : 0 ≤ n) (hnm : n ≤ m) (hx : x ≤ X) (hX : 0 ≤ X) :
    n * x ≤ m * X := by nlinarith

theorem le_mul_of {n m x X : Int} (h0 : 0 ≤ n) (hnm : n ≤ m) (hx : X ≤ x) (hX : X ≤ 0) :
    m * X ≤ n * x := by nlinarith

theorem mul_abs_bound (k x : Int) (h1 : -8 ≤ k) (h2 : k ≤ 8) :
    -(8 * max x (-x)) ≤ k * x ∧ k * x ≤ 8 * max x (-x) := by
  interval_cases k <;> omega

/-! ### bitboards -/

theorem popcount_and_le_left (a b : BB) : popcount (a &&& b) ≤ popcount a := by
  unfold popcount bits
  apply List.Sublist.length_le
  apply List.monotone_filter_right
  intro s
  simp only [BitVec.getLsbD_and, Bool.and_eq_true]
  exact fun h => h.1

theorem popcount_and_le_right (a b : BB) : popcount (a &&& b) ≤ popcount b := by
  rw [BitVec.and_comm]; exact popcount_and_le_left b a

theorem popcount_le64 (x : BB) : popcount x ≤ 64 := by
  unfold popcount bits
  have := List.length_filter_le (fun s => x.getLsbD s) (List.range 64)
  simpa using this

theorem lowestSet_le (x : BB) : lowestSet x ≤ 64 := by
  unfold lowestSet
  cases h : bits x with
  | nil => simp
  | cons a l =>
    have : a ∈ bits x := by rw [h]; simp
    have := bits_lt this
    simp; omega

theorem cheb_range (a b : Nat) (ha : a ≤ 64) (hb : b ≤ 64) : 0 ≤ cheb a b ∧ cheb a b ≤ 8 := by
  unfold cheb Attacks.abs
  simp only
  omega

/-! ### the taper keeps the larger magnitude -/

theorem taper_bound (mg eg P F M : Int) (hM : 0 ≤ M) (hmg : -M ≤ mg ∧ mg ≤ M) (heg : -M ≤ eg ∧ eg ≤ M)
    (hP : 0 ≤ P ∧ P ≤ 24) (hF : 0 ≤ F ∧ F ≤ 100) :
    -M ≤ goDiv (goDiv ((mg * P + eg * (24 - P)) * F) 24) 100 ∧
    goDiv (goDiv ((mg * P + eg * (24 - P)) * F) 24) 100 ≤ M := by
  have hE : 0 ≤ 24 - P := by omega
  have h1 : mg * P ≤ M * P := Int.mul_le_mul_of_nonneg_right hmg.2 hP.1
  have h2 : -(M * P) ≤ mg * P := by nlinarith
  have h3 : eg * (24 - P) ≤ M * (24 - P) := Int.mul_le_mul_of_nonneg_right heg.2 hE
  have h4 : -(M * (24 - P)) ≤ eg * (24 - P) := by nlinarith
  have hs : -(24 * M) ≤ mg * P + eg * (24 - P) ∧ mg * P + eg * (24 - P) ≤ 24 * M := by
    constructor <;> nlinarith
  generalize mg * P + eg * (24 - P) = s at hs
  have hv : -(2400 * M) ≤ s * F ∧ s * F ≤ 2400 * M := by
    constructor <;> nlinarith [hs.1, hs.2, hF.1, hF.2]
  generalize s * F = v at hv
  unfold goDiv
  obtain ⟨r1, e1, l1, u1, _, _⟩ := tdiv_rem v 24 (by omega)
  obtain ⟨r2, e2, l2, u2, _, _⟩ := tdiv_rem (Int.tdiv v 24) 100 (by omega)
  generalize Int.tdiv (Int.tdiv v 24) 100 = t2 at *
  generalize Int.tdiv v 24 = t1 at *
  omega

end ChessVerif.Eval.Bound
