/-
  C13 — the history invariant `Inv2`: FIFO order of the output channel, the output language,
  readyok / bestmove accounting, and "each line is received exactly once".
-/
import ChessVerif.Proofs.UciInv
namespace ChessVerif.Uci

def Cmd.isReady : Cmd → Bool
  | .isready => true
  | _ => false
def Ev.isGo : Ev → Bool
  | .go => true
  | _ => false
def Ev.isBest : Ev → Bool
  | .msg .bestmove => true
  | _ => false
def Ev.isReadyok : Ev → Bool
  | .msg .readyok => true
  | _ => false
def Msg.isBest : Msg → Bool
  | .bestmove => true
  | _ => false

/-- The lines received so far (by either receiver), in order. -/
def rcvd (s : State) : List Cmd := s.consumed.map (·.2)

@[simp] theorem runPhase_append (b : Bool) (l : List Ev) (e : Ev) :
    runPhase b (l ++ [e]) = (runPhase b l).bind (fun b' => phaseStep b' e) := by
  induction l generalizing b with
  | nil => simp [runPhase]; cases phaseStep b e <;> rfl
  | cons x xs ih => simp only [List.cons_append, runPhase]; cases phaseStep b x <;> simp [ih]

@[simp] theorem msgsOf_append_go (l : List Ev) : msgsOf (l ++ [.go]) = msgsOf l := by
  induction l with
  | nil => rfl
  | cons x xs ih => cases x <;> simp [msgsOf, ih]

@[simp] theorem msgsOf_append_msg (l : List Ev) (m : Msg) : msgsOf (l ++ [.msg m]) = msgsOf l ++ [m] := by
  induction l with
  | nil => rfl
  | cons x xs ih => cases x <;> simp [msgsOf, ih]

structure Inv2 (script : List Cmd) (s : State) : Prop where
  fifo : msgsOf s.log = s.written ++ s.writer.held ++ s.out
  phase : runPhase false s.log = some s.handler.busy
  ready : (rcvd s).countP Cmd.isReady = s.log.countP Ev.isReadyok
      + (if s.handler = .ready then 1 else 0) + (if s.intr = .ready then 1 else 0)
  parts : rcvd s ++ s.reader.held ++ s.pipe ++ s.script = script
  goBal : (s.reader.held ++ s.pipe).countP Cmd.isGo + (if s.handler.busy = true then 1 else 0)
      + (s.writer.held ++ s.out).countP Msg.isBest = if s.awaiting = true then 1 else 0
  goLog : s.log.countP Ev.isGo = s.consumed.countP (fun p => p.1 == .handler && p.2.isGo)
  intrNoGo : s.consumed.countP (fun p => p.1 == .intr && p.2.isGo) = 0
  bestCount : s.log.countP Ev.isGo = s.log.countP Ev.isBest + (if s.handler.busy = true then 1 else 0)

theorem Inv2.init (sc : List Cmd) : Inv2 sc (init sc) := by
  constructor <;> simp [Uci.init, Handler.busy, runPhase, msgsOf, rcvd, Writer.held, Reader.held]

macro "uci_inv2" hf:ident "[" ls:Lean.Parser.Tactic.simpLemma,* "]" : tactic => `(tactic| (
  simp only [fire, send, runDone, dispatch, intrDispatch, readerAfter] at $hf:ident
  (repeat' split at $hf:ident) <;> (try cases $hf:ident) <;>
    (constructor <;> simp_all [Handler.inGo, Handler.busy, rcvd, phaseStep,
       Cmd.isGo, Cmd.isReady, Ev.isGo, Ev.isBest, Ev.isReadyok, Msg.isBest, $ls,*] <;> try omega)))


/-! Environment, search-progress and reader transitions. -/

theorem Inv2.step_envLine {sc : List Cmd} {s s' : State} (h2 : Inv2 sc s) (hf : fire .envLine s = some s') : Inv2 sc s' := by
  obtain ⟨g1,g2,g3,g4,g5,g6,g7,g8⟩ := h2
  simp only [fire] at hf
  split at hf
  · rename_i c rest hs
    split at hf
    · cases hf
      rename_i hg
      refine ⟨g1, g2, g3, ?_, ?_, g6, g7, g8⟩
      · simp only [hs] at g4; simpa [rcvd] using g4
      · clear g1 g2 g3 g4 g6 g7 g8
        simp only [List.countP_append, List.countP_cons, List.countP_nil] at g5 ⊢
        generalize List.countP Cmd.isGo s.reader.held = a at g5 ⊢
        generalize List.countP Cmd.isGo s.pipe = b at g5 ⊢
        generalize (if s.handler.busy = true then 1 else 0 : Nat) = k at g5 ⊢
        generalize List.countP Msg.isBest _ = d at g5 ⊢
        generalize List.countP Msg.isBest _ = e at g5 ⊢
        cases c <;> cases ha : s.awaiting <;> simp [Cmd.isGo, ha] at hg g5 ⊢ <;> omega
    · cases hf
  · cases hf

theorem Inv2.step_envEof {sc : List Cmd} {s s' : State} (h : Inv s) (h2 : Inv2 sc s) (hf : fire .envEof s = some s') : Inv2 sc s' := by
  obtain ⟨h1,_,h3,_,_,_,h7,_,_,_,_,_,_,_,_⟩ := h
  obtain ⟨g1,g2,g3,g4,g5,g6,g7,g8⟩ := h2
  uci_inv2 hf []

theorem Inv2.step_timer {sc : List Cmd} {s s' : State} (h : Inv s) (h2 : Inv2 sc s) (hf : fire .timer s = some s') : Inv2 sc s' := by
  obtain ⟨h1,_,h3,_,_,_,h7,_,_,_,_,_,_,_,_⟩ := h
  obtain ⟨g1,g2,g3,g4,g5,g6,g7,g8⟩ := h2
  uci_inv2 hf []

theorem Inv2.step_sInfo {sc : List Cmd} {s s' : State} (h : Inv s) (h2 : Inv2 sc s) (hf : fire .sInfo s = some s') : Inv2 sc s' := by
  obtain ⟨h1,_,h3,_,_,_,h7,_,_,_,_,_,_,_,_⟩ := h
  obtain ⟨g1,g2,g3,g4,g5,g6,g7,g8⟩ := h2
  uci_inv2 hf []

theorem Inv2.step_sDone {sc : List Cmd} {s s' : State} (h : Inv s) (h2 : Inv2 sc s) (hf : fire .sDone s = some s') : Inv2 sc s' := by
  obtain ⟨h1,_,h3,_,_,_,h7,_,_,_,_,_,_,_,_⟩ := h
  obtain ⟨g1,g2,g3,g4,g5,g6,g7,g8⟩ := h2
  uci_inv2 hf []

theorem Inv2.step_sAbortSelf {sc : List Cmd} {s s' : State} (h : Inv s) (h2 : Inv2 sc s) (hf : fire .sAbortSelf s = some s') : Inv2 sc s' := by
  obtain ⟨h1,_,h3,_,_,_,h7,_,_,_,_,_,_,_,_⟩ := h
  obtain ⟨g1,g2,g3,g4,g5,g6,g7,g8⟩ := h2
  uci_inv2 hf []

theorem Inv2.step_sPollHit {sc : List Cmd} {s s' : State} (h : Inv s) (h2 : Inv2 sc s) (hf : fire .sPollHit s = some s') : Inv2 sc s' := by
  obtain ⟨h1,_,h3,_,_,_,h7,_,_,_,_,_,_,_,_⟩ := h
  obtain ⟨g1,g2,g3,g4,g5,g6,g7,g8⟩ := h2
  uci_inv2 hf []

theorem Inv2.step_rScan {sc : List Cmd} {s s' : State} (h : Inv s) (h2 : Inv2 sc s) (hf : fire .rScan s = some s') : Inv2 sc s' := by
  obtain ⟨h1,_,h3,_,_,_,h7,_,_,_,_,_,_,_,_⟩ := h
  obtain ⟨g1,g2,g3,g4,g5,g6,g7,g8⟩ := h2
  uci_inv2 hf [Reader.held]

theorem Inv2.step_rEof {sc : List Cmd} {s s' : State} (h : Inv s) (h2 : Inv2 sc s) (hf : fire .rEof s = some s') : Inv2 sc s' := by
  obtain ⟨h1,_,h3,_,_,_,h7,_,_,_,_,_,_,_,_⟩ := h
  obtain ⟨g1,g2,g3,g4,g5,g6,g7,g8⟩ := h2
  uci_inv2 hf [Reader.held]

theorem Inv2.step_rSendClosed {sc : List Cmd} {s s' : State} (h : Inv s) (h2 : Inv2 sc s) (hf : fire .rSendClosed s = some s') : Inv2 sc s' := by
  obtain ⟨h1,_,h3,_,_,_,h7,_,_,_,_,_,_,_,_⟩ := h
  obtain ⟨g1,g2,g3,g4,g5,g6,g7,g8⟩ := h2
  uci_inv2 hf [Reader.held]

theorem Inv2.step_rClose {sc : List Cmd} {s s' : State} (h : Inv s) (h2 : Inv2 sc s) (hf : fire .rClose s = some s') : Inv2 sc s' := by
  obtain ⟨h1,_,h3,_,_,_,h7,_,_,_,_,_,_,_,_⟩ := h
  obtain ⟨g1,g2,g3,g4,g5,g6,g7,g8⟩ := h2
  uci_inv2 hf [Reader.held]

end ChessVerif.Uci
