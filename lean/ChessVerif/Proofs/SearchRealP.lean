/-
  The spsa build: laws of the search skeleton for `SearchReal.realCompP K cs P` (Model/SearchRealP.lean).

  FOR EVERY parameter vector `P` (no range hypothesis):
    * `isReal_realCompP`     the record agrees with the real one in every field the component laws speak
                             about; its `failHigh` keeps the state invariant (`failHighP_ok`: the gravity
                             bound `histAdd_exact_bound` holds for EVERY bonus, so the history parameters
                             do not matter) and does not touch the table;
    * `realP_laws`           hence `Laws (realCompP K cs P) RealGood` (`laws_of_isReal`);
    * `realP_fuelLaws`       and the termination laws (picker length, quiescence measure: parameter-free).

  FOR IN-RANGE `P` (`Params.InRange`, the regenerated `tunables` table; `inRange_iff` spells the
  thirteen intervals out, so a changed range in /repo breaks this file):
    * `conversions_exact`    every conversion of a parameter at its use site (`Depth(…)`, `Score(…)`)
                             is the identity, the shift counts are non-negative;
    * `nmp_divisor_ne_zero`  `(staticEval-beta)/Score(params.NMPDiffFactor)` does not divide by zero;
    * `hist_shifts_ok`       `Score(1) << HistAdjRange`, `<< HistAdjReduction` are 16..1024 (no int16
                             overflow, the divisor `red` is not zero);
    * `lmr_index_in_range`   both indices into the `log` table of the call the skeleton makes are within
                             bounds (with Proofs/SearchLmrIndex.lean: the count is never negative);
    * `realP_depthLaws`      every recursive call has a depth in `[0, d-1]`;
    * `realP_scoreLaws`      `ScoreLaws`, for `LMRStart ≥ 1` (the law `lmr_late` is FALSE for `LMRStart = 0`:
                             `lmr_late_fails_at_zero`);
    * `realP_aspLaws`        `AspLaws`, for a SAFE window size (`WSafe`: `39..44` or `78..88`); the in-range
                             sizes `30..38`, `45..77`, `89..100` are not covered (`inRange_window_unsafe_iff`,
                             `unsafe_windows_wrap`).
-/
import ChessVerif.Model.SearchRealP
import ChessVerif.Proofs.SearchRealScore
import ChessVerif.Proofs.SearchRealFuel
import ChessVerif.Proofs.SearchLmrIndex

namespace ChessVerif.Proofs.HeurBands
open ChessVerif Heur

/-- one loop body of `FailHigh` keeps every store in range, whatever the history parameters are. -/
theorem failHighOneP_ok (hp : HistParams) (d : Int) (b : Board) (st : HStack) {r : Ranker} (h : RankerOK r) (m : Move)
    (w : Int) (last : Bool) : RankerOK (failHighOneP hp d b st r m w last) := by
  obtain ⟨h1, h2, h3, h4⟩ := h
  unfold failHighOneP
  simp only
  split
  · exact ⟨h1, tblAdd_ok h2 _ _, h3, h4⟩
  · split
    · cases st.top 0 <;> cases st.top 1 <;>
        first
          | exact ⟨tblAdd_ok h1 _ _, h2, h3, h4⟩
          | exact ⟨tblAdd_ok h1 _ _, h2, tblAdd_ok h3 _ _, h4⟩
          | exact ⟨tblAdd_ok h1 _ _, h2, h3, tblAdd_ok h4 _ _⟩
          | exact ⟨tblAdd_ok h1 _ _, h2, tblAdd_ok h3 _ _, tblAdd_ok h4 _ _⟩
    · exact ⟨h1, h2, h3, h4⟩

theorem failHighLoopP_ok (hp : HistParams) (d : Int) (b : Board) (st : HStack) :
    ∀ (moves : List (Move × Int)) (r : Ranker), RankerOK r → RankerOK (failHighLoopP hp d b st r moves) := by
  intro moves
  induction moves with
  | nil => intro r h; exact h
  | cons mw rest ih =>
    intro r h
    obtain ⟨m, w⟩ := mw
    cases rest with
    | nil => exact failHighOneP_ok hp d b st h m w true
    | cons x xs => exact ih _ (failHighOneP_ok hp d b st h m w false)

/-- One `FailHigh` call of the spsa build preserves the range of every store, for EVERY value of
    `HistBonusMul`, `HistBonusLin`, `HistAdjRange`, `HistAdjReduction`. -/
theorem failHighP_ok (hp : HistParams) {r : Ranker} (h : RankerOK r) (d : Int) (b : Board) (moves : List (Move × Int))
    (st : HStack) : RankerOK (failHighP hp r d b moves st) := failHighLoopP_ok hp d b st moves r h

end ChessVerif.Proofs.HeurBands

namespace ChessVerif
namespace SearchReal
open Search

/-! ## every parameter vector -/

theorem failHighP_ok (P : Params) {ps : PS} (h : PSok ps) (d : Int) (b : Board) (p : Pick) (hs : List Search.StackMove) :
    PSok (failHighP P ps d b p hs) :=
  ⟨h.1, Proofs.HeurBands.failHighP_ok P.hist h.2 _ _ _ _⟩

/-- the record of the spsa build is "real" in the sense of the component laws, whatever `P` is. -/
theorem isReal_realCompP (K : Keys) (cs : Eval.CoeffSet Int) (P : Params) : IsReal K (realCompP K cs P) :=
  ⟨rfl, rfl, rfl, fun _ d b p hs h => failHighP_ok P h d b p hs, fun _ _ _ _ _ => rfl, rfl, rfl, rfl, rfl, rfl⟩

/-- **The component laws hold for the spsa build with EVERY parameter vector** (in range or not). -/
theorem realP_laws (K : Keys) (cs : Eval.CoeffSet Int) (P : Params) : Laws (realCompP K cs P) RealGood :=
  laws_of_isReal (isReal_realCompP K cs P)

/-- **… and so do the termination laws**: the picker yields at most `len(gen)` moves, every quiescence
    move decreases men + pawns — nothing here reads a parameter. -/
theorem realP_fuelLaws (K : Keys) (cs : Eval.CoeffSet Int) (P : Params) : FuelLaws (realCompP K cs P) RealGood muReal :=
  ⟨pick_len_of_isReal (isReal_realCompP K cs P),
   fun ps b hs m w hg h => mu_make_noisy K hg (qMoves_mem (ps := ps) (b := b) (hs := hs) (m := m) (w := w) h),
   fun b hg => mu_le b hg⟩

/-! ## the declared ranges -/

/-- `Params.InRange` spelled out: the thirteen intervals of the `tunables` table of params/spsa.go (the
    left side is computed from the REGENERATED table: a changed bound in /repo refutes this theorem). -/
theorem inRange_iff (P : Params) : P.InRange ↔
    (30 ≤ P.nmpDiffFactor ∧ P.nmpDiffFactor ≤ 70) ∧ (0 ≤ P.nmpDepthLimit ∧ P.nmpDepthLimit ≤ 5) ∧
    (1 ≤ P.nmpInit ∧ P.nmpInit ≤ 6) ∧ (5 ≤ P.rfpDepthLimit ∧ P.rfpDepthLimit ≤ 10) ∧
    (70 ≤ P.rfpScoreFactor ∧ P.rfpScoreFactor ≤ 130) ∧ (30 ≤ P.windowSize ∧ P.windowSize ≤ 100) ∧
    (0 ≤ P.lmrStart ∧ P.lmrStart ≤ 10) ∧ (80 ≤ P.standPatDelta ∧ P.standPatDelta ≤ 130) ∧
    (15 ≤ P.histBonusMul ∧ P.histBonusMul ≤ 25) ∧ (0 ≤ P.histBonusLin ∧ P.histBonusLin ≤ 20) ∧
    (4 ≤ P.histAdjRange ∧ P.histAdjRange ≤ 10) ∧ (4 ≤ P.histAdjReduction ∧ P.histAdjReduction ≤ 10) ∧
    (2 ≤ P.iirDepthLimit ∧ P.iirDepthLimit ≤ 7) := by
  simp only [Params.InRange, Params.inRangeB, Gen.Search.spsaTunables, Params.get, List.all_cons, List.all_nil,
    String.reduceEq, if_true, if_false, Bool.and_eq_true, decide_eq_true_eq, Bool.and_true, and_assoc]

/-- the bounds as one hypothesis-friendly record. -/
structure Bounds (P : Params) : Prop where
  nmpDiffFactor : 30 ≤ P.nmpDiffFactor ∧ P.nmpDiffFactor ≤ 70
  nmpDepthLimit : 0 ≤ P.nmpDepthLimit ∧ P.nmpDepthLimit ≤ 5
  nmpInit : 1 ≤ P.nmpInit ∧ P.nmpInit ≤ 6
  rfpDepthLimit : 5 ≤ P.rfpDepthLimit ∧ P.rfpDepthLimit ≤ 10
  rfpScoreFactor : 70 ≤ P.rfpScoreFactor ∧ P.rfpScoreFactor ≤ 130
  windowSize : 30 ≤ P.windowSize ∧ P.windowSize ≤ 100
  lmrStart : 0 ≤ P.lmrStart ∧ P.lmrStart ≤ 10
  standPatDelta : 80 ≤ P.standPatDelta ∧ P.standPatDelta ≤ 130
  histBonusMul : 15 ≤ P.histBonusMul ∧ P.histBonusMul ≤ 25
  histBonusLin : 0 ≤ P.histBonusLin ∧ P.histBonusLin ≤ 20
  histAdjRange : 4 ≤ P.histAdjRange ∧ P.histAdjRange ≤ 10
  histAdjReduction : 4 ≤ P.histAdjReduction ∧ P.histAdjReduction ≤ 10
  iirDepthLimit : 2 ≤ P.iirDepthLimit ∧ P.iirDepthLimit ≤ 7

theorem Params.InRange.bounds {P : Params} (h : P.InRange) : Bounds P := by
  obtain ⟨h1, h2, h3, h4, h5, h6, h7, h8, h9, h10, h11, h12, h13⟩ := (inRange_iff P).1 h
  exact ⟨h1, h2, h3, h4, h5, h6, h7, h8, h9, h10, h11, h12, h13⟩

/-! ## no panic sources, exact conversions -/

/-- **in range every conversion at a use site is the identity**: `Score(params.NMPDiffFactor)`,
    `Depth(params.NMPDepthLimit)`, `Depth(params.NMPInit)`, `Depth(params.RFPDepthLimit)`,
    `Score(params.RFPScoreFactor)`, `Score(params.WindowSize)`, `Score(params.StandPatDelta)`,
    `Score(params.HistBonusMul)`, `Score(params.HistBonusLin)`, `Depth(params.IIRDepthLimit)`; and the two
    shift counts are not negative (a negative shift count panics). -/
theorem conversions_exact {P : Params} (h : P.InRange) :
    wrapS16 P.nmpDiffFactor = P.nmpDiffFactor ∧ wrapS8 P.nmpDepthLimit = P.nmpDepthLimit ∧
    wrapS8 P.nmpInit = P.nmpInit ∧ wrapS8 P.rfpDepthLimit = P.rfpDepthLimit ∧
    wrapS16 P.rfpScoreFactor = P.rfpScoreFactor ∧ wrapS16 P.windowSize = P.windowSize ∧
    wrapS16 P.standPatDelta = P.standPatDelta ∧ wrapS16 P.histBonusMul = P.histBonusMul ∧
    wrapS16 P.histBonusLin = P.histBonusLin ∧ wrapS8 P.iirDepthLimit = P.iirDepthLimit ∧
    0 ≤ P.histAdjRange ∧ 0 ≤ P.histAdjReduction := by
  have hb := h.bounds
  obtain ⟨a1, a2⟩ := hb.nmpDiffFactor
  obtain ⟨b1, b2⟩ := hb.nmpDepthLimit
  obtain ⟨c1, c2⟩ := hb.nmpInit
  obtain ⟨d1, d2⟩ := hb.rfpDepthLimit
  obtain ⟨e1, e2⟩ := hb.rfpScoreFactor
  obtain ⟨f1, f2⟩ := hb.windowSize
  obtain ⟨g1, g2⟩ := hb.standPatDelta
  obtain ⟨i1, i2⟩ := hb.histBonusMul
  obtain ⟨j1, j2⟩ := hb.histBonusLin
  obtain ⟨k1, k2⟩ := hb.iirDepthLimit
  obtain ⟨l1, l2⟩ := hb.histAdjRange
  obtain ⟨m1, m2⟩ := hb.histAdjReduction
  unfold wrapS16 wrapS8
  omega

/-- **the null-move reduction does not divide by zero**: `Score(params.NMPDiffFactor) ≠ 0` in range.
    (With the `tunables` row of C06-9 — `{&NMPDiffFactor, "NMPDepthLimit", 0, 5}` — `Set` can store 0 there:
    that table fails `spsa_rows_point_at_their_names`.) -/
theorem nmp_divisor_ne_zero {P : Params} (h : P.InRange) : wrapS16 P.nmpDiffFactor ≠ 0 := by
  rw [(conversions_exact h).1]
  have := h.bounds.nmpDiffFactor
  omega

theorem pow2_small {r : Int} (h4 : 4 ≤ r) (h10 : r ≤ 10) :
    wrapS16 ((2 : Int) ^ r.toNat) = (2 : Int) ^ r.toNat ∧ 16 ≤ (2 : Int) ^ r.toNat ∧ (2 : Int) ^ r.toNat ≤ 1024 := by
  have hr : r = 4 ∨ r = 5 ∨ r = 6 ∨ r = 7 ∨ r = 8 ∨ r = 9 ∨ r = 10 := by omega
  rcases hr with rfl | rfl | rfl | rfl | rfl | rfl | rfl <;> decide

/-- **the history shifts are safe in range**: `rng = Score(1) << HistAdjRange` and
    `red = Score(1) << HistAdjReduction` are the powers 16..1024 (no int16 overflow — at 15 the value is
    negative, from 16 on it is 0), so `… / red` does not divide by zero and `Clamp(w, -rng, rng)` is a
    proper interval. -/
theorem hist_shifts_ok {P : Params} (h : P.InRange) :
    let rng := wrapS16 ((2 : Int) ^ P.hist.adjRange.toNat)
    let red := wrapS16 ((2 : Int) ^ P.hist.adjReduction.toNat)
    16 ≤ rng ∧ rng ≤ 1024 ∧ 16 ≤ red ∧ red ≤ 1024 ∧ red ≠ 0 ∧ wrapS16 (-rng) = -rng := by
  have h1 := pow2_small h.bounds.histAdjRange.1 h.bounds.histAdjRange.2
  have h2 := pow2_small h.bounds.histAdjReduction.1 h.bounds.histAdjReduction.2
  show 16 ≤ wrapS16 ((2 : Int) ^ P.histAdjRange.toNat) ∧ wrapS16 ((2 : Int) ^ P.histAdjRange.toNat) ≤ 1024 ∧
    16 ≤ wrapS16 ((2 : Int) ^ P.histAdjReduction.toNat) ∧ wrapS16 ((2 : Int) ^ P.histAdjReduction.toNat) ≤ 1024 ∧
    wrapS16 ((2 : Int) ^ P.histAdjReduction.toNat) ≠ 0 ∧
    wrapS16 (-wrapS16 ((2 : Int) ^ P.histAdjRange.toNat)) = -wrapS16 ((2 : Int) ^ P.histAdjRange.toNat)
  rw [h1.1, h2.1]
  generalize (2 : Int) ^ P.histAdjRange.toNat = a at h1
  generalize (2 : Int) ^ P.histAdjReduction.toNat = b at h2
  unfold wrapS16
  omega

/-- the bonus `Score(d)*Score(HistBonusMul) - Score(HistBonusLin)` does not wrap for any depth a node can
    have (`0 ≤ d ≤ 64`): `64·25 ≤ 1600`. -/
theorem hist_bonus_exact {P : Params} (h : P.InRange) {d : Int} (h0 : 0 ≤ d) (h64 : d ≤ 64) :
    wrapS16 (wrapS16 (d * P.hist.bonusMul) - P.hist.bonusLin) = d * P.histBonusMul - P.histBonusLin ∧
    -20 ≤ d * P.histBonusMul - P.histBonusLin ∧ d * P.histBonusMul - P.histBonusLin ≤ 1600 := by
  obtain ⟨i1, i2⟩ := h.bounds.histBonusMul
  obtain ⟨j1, j2⟩ := h.bounds.histBonusLin
  show wrapS16 (wrapS16 (d * P.histBonusMul) - P.histBonusLin) = d * P.histBonusMul - P.histBonusLin ∧ _
  have hp1 : 0 ≤ d * P.histBonusMul := Int.mul_nonneg h0 (by omega)
  have hp2 : d * P.histBonusMul ≤ 64 * 25 := Int.mul_le_mul h64 i2 (by omega) (by omega)
  generalize d * P.histBonusMul = x at hp1 hp2
  unfold wrapS16
  omega

/-- **both indices into the `log` table are within bounds** for the call `lmr(d, moveCnt-1, …)` the skeleton
    makes under the guard `d > 1 && quietCnt > params.LMRStart`: `log[d]` with `2 ≤ d ≤ MaxPlies`,
    `log[min(moveCnt-1, len(log)-1)]` with `moveCnt - 1 ≥ 0` — the offset is the REGENERATED
    `Gen.Search.lmrCountOffset`, the counters satisfy `0 ≤ quietCnt ≤ moveCnt` (`Search.CntInv`, an
    invariant of the move loop: Proofs/SearchLmrIndex.lean), `LMRStart ≥ 0` (in range).
    The model's `tbl` is total (a negative index reads `log[0]`); in Go a negative index panics. -/
theorem lmr_index_in_range {P : Params} (h : 0 ≤ P.lmrStart) {d quietCnt moveCnt : Int}
    (hg : lmrTryP P d quietCnt = true) (hcnt : quietCnt ≤ moveCnt) (hd : d ≤ 64) :
    (0 ≤ d ∧ d < (Gen.Funcs.logTbl.length : Int)) ∧
    (0 ≤ min (moveCnt - Gen.Search.lmrCountOffset) 100 ∧
      min (moveCnt - Gen.Search.lmrCountOffset) 100 < (Gen.Funcs.logTbl.length : Int)) ∧
    0 ≤ moveCnt - Gen.Search.lmrCountOffset := by
  unfold lmrTryP at hg
  simp only [Bool.and_eq_true, decide_eq_true_eq] at hg
  obtain ⟨h1, h2⟩ := hg
  have e1 : Gen.Search.lmrMinDepth = 1 := rfl
  have e2 : Gen.Search.lmrCountOffset = 1 := rfl
  have e3 : (Gen.Funcs.logTbl.length : Int) = 101 := by decide
  rw [e1] at h1
  rw [e2, e3]
  omega

/-- the guard of the spsa build implies `quietCnt ≥ 1` when `LMRStart ≥ 0` — the hypothesis of
    `Search.abLoop_lmr_nonneg` / `Search.searchMove_lmr_count_nonneg`. -/
theorem lmrTryP_late {P : Params} (h : 0 ≤ P.lmrStart) (d q : Int) (hg : (realCompP K cs P).lmrTry d q = true) : 1 ≤ q := by
  have hg' : lmrTryP P d q = true := hg
  unfold lmrTryP at hg'
  simp only [Bool.and_eq_true, decide_eq_true_eq] at hg'
  omega

/-! ## depth laws (in range) -/

theorem nmpTryP_depth {P : Params} (h : P.InRange) {b : Board} {d : Int} {se beta : Score}
    (hg : nmpTryP P b d se beta = true) : 1 ≤ d ∧ beta ≤ se := by
  unfold nmpTryP at hg
  simp only [Bool.and_eq_true, decide_eq_true_eq] at hg
  have h1 : d > wrapS8 P.nmpDepthLimit := hg.1.1
  rw [(conversions_exact h).2.1] at h1
  have := h.bounds.nmpDepthLimit
  exact ⟨by omega, hg.1.2⟩

/-- `max(d - red, 0)` with `red = NMPInit + Clamp(…, 0, MaxPlies) ∈ [1, 70]` lies in `[0, d)`. -/
theorem nmpDepthP_range {P : Params} (h : P.InRange) (d : Int) (se beta : Score) (h1 : 1 ≤ d) (h64 : d ≤ 64) :
    0 ≤ nmpDepthP P d se beta ∧ nmpDepthP P d se beta < d := by
  unfold nmpDepthP Gen.Funcs.clampS16
  simp only [Gen.Search.nmpClampLo, Gen.Search.nmpClampHi, Gen.Search.nmpDepthFloor]
  generalize goDiv (wrapS16 (se - beta)) (wrapS16 P.nmpDiffFactor) = q
  rw [(conversions_exact h).2.2.1]
  obtain ⟨c1, c2⟩ := h.bounds.nmpInit
  have hc : 0 ≤ min (64 : Int) (max q 0) ∧ min (64 : Int) (max q 0) ≤ 64 := by omega
  generalize min (64 : Int) (max q 0) = k at hc
  have e1 : wrapS8 k = k := by unfold wrapS8; omega
  rw [e1]
  have e2 : wrapS8 (P.nmpInit + k) = P.nmpInit + k := by unfold wrapS8; omega
  rw [e2]
  have e3 : wrapS8 (d - (P.nmpInit + k)) = d - (P.nmpInit + k) := by unfold wrapS8; omega
  rw [e3]
  omega

theorem iirP_depth {P : Params} (h : P.InRange) {nt : NodeType} {d : Int} {hm : Move} (hg : iirP P nt d hm = true) :
    2 ≤ d := by
  unfold iirP at hg
  simp only [Bool.and_eq_true, decide_eq_true_eq] at hg
  have h1 : d > wrapS8 P.iirDepthLimit := hg.1.2
  rw [(conversions_exact h).2.2.2.2.2.2.2.2.2.1] at h1
  have := h.bounds.iirDepthLimit
  omega

/-- **the depth laws hold for every in-range vector**: `lmr ≥ 0`, the null-move depth lies in `[0, d)`
    (`NMPInit ≥ 1`), internal iterative reduction needs `d > IIRDepthLimit ≥ 2`. -/
theorem realP_depthLaws (K : Keys) (cs : Eval.CoeffSet Int) {P : Params} (h : P.InRange) : DepthLaws (realCompP K cs P) where
  lmr_nonneg := fun d mc imp nt h1 h64 => (lmr_range d mc imp nt h1 h64).1
  nmp_range := fun _ d se beta h1 h64 _ => nmpDepthP_range h d se beta h1 h64
  iir_depth := fun _ _ _ hg => iirP_depth h hg

/-! ## score laws (in range, `LMRStart ≥ 1`) -/

/-- reverse futility is sound below `rfpSafe = 32767 - 9·130` for every in-range vector:
    `d < RFPDepthLimit ≤ 10`, `RFPScoreFactor ≤ 130`, so `beta + d·factor` does not wrap. -/
theorem rfpCutP_sound {P : Params} (h : P.InRange) (d : Int) (se beta : Score) (hd : 0 ≤ d) (hb : beta ≤ rfpSafe)
    (hg : rfpCutP P d se beta = true) : beta ≤ se := by
  unfold rfpCutP at hg
  simp only [Bool.and_eq_true] at hg
  obtain ⟨⟨h1, h2⟩, h3⟩ := hg
  have h1 := of_decide_eq_true h1
  have h2 := of_decide_eq_true h2
  have h3 := of_decide_eq_true h3
  rw [(conversions_exact h).2.2.2.1] at h1
  rw [(conversions_exact h).2.2.2.2.1] at h2
  have ef : Gen.Search.rfpBetaFloor = -9936 := rfl
  rw [ef] at h3
  obtain ⟨d1, d2⟩ := h.bounds.rfpDepthLimit
  obtain ⟨e1, e2⟩ := h.bounds.rfpScoreFactor
  unfold rfpSafe at hb
  simp only [Score] at *
  have hp1 : 0 ≤ d * P.rfpScoreFactor := Int.mul_nonneg hd (by omega)
  have hp2 : d * P.rfpScoreFactor ≤ 9 * 130 := Int.mul_le_mul (by omega) e2 (by omega) (by omega)
  generalize d * P.rfpScoreFactor = x at h2 hp1 hp2
  rw [wrapS16_id (x := x) (by omega) (by omega), wrapS16_id (x := beta + x) (by omega) (by omega)] at h2
  omega

/-- **The score laws hold for every in-range vector with `LMRStart ≥ 1`.** -/
theorem realP_scoreLaws (K : Keys) (cs : Eval.CoeffSet Int) {P : Params} (h : P.InRange) (hl : 1 ≤ P.lmrStart) :
    ScoreLaws (realCompP K cs P) RealGood TTokReal muReal :=
  scoreLaws_of_isReal_gen (isReal_realCompP K cs P)
    (fun d se beta hd hb hg => rfpCutP_sound h d se beta hd hb hg)
    (fun _ _ _ _ hg => (nmpTryP_depth h hg).2)
    (fun d q hg => by
      have hg' : lmrTryP P d q = true := hg
      unfold lmrTryP at hg'
      simp only [Bool.and_eq_true, decide_eq_true_eq] at hg'
      omega)
    (by
      have := h.bounds.windowSize
      show 0 ≤ P.windowSize ∧ P.windowSize ≤ 100
      omega)

/-- for `LMRStart = 0` (in range) the law `lmr_late` is FALSE: the null-window block is entered for the
    first quiet move. -/
theorem lmr_late_fails_at_zero (K : Keys) (cs : Eval.CoeffSet Int) (P : Params) (h0 : P.lmrStart = 0) :
    ¬ ∀ d q, (realCompP K cs P).lmrTry d q = true → 2 ≤ q := by
  intro hall
  have : (realCompP K cs P).lmrTry 2 1 = true := by
    show lmrTryP P 2 1 = true
    unfold lmrTryP
    rw [h0]; decide
  have := hall 2 1 this
  omega

/-! ## aspiration laws: what the `GoSane`-free argument asks of the parameters -/

/-- at depth ≤ 1 the reverse futility margin cannot wrap for any in-range factor (`32528 + 130 ≤ 32767`). -/
theorem rfpCutP_shallow1 {P : Params} (h : P.InRange) (d : Int) (se beta : Score) (hd : 0 ≤ d) (hd1 : d ≤ 1)
    (hb : beta ≤ 32528) (hg : rfpCutP P d se beta = true) : beta ≤ se := by
  unfold rfpCutP at hg
  simp only [Bool.and_eq_true] at hg
  obtain ⟨⟨_, h2⟩, h3⟩ := hg
  have h2 := of_decide_eq_true h2
  have h3 := of_decide_eq_true h3
  rw [(conversions_exact h).2.2.2.2.1] at h2
  have ef : Gen.Search.rfpBetaFloor = -9936 := rfl
  rw [ef] at h3
  obtain ⟨e1, e2⟩ := h.bounds.rfpScoreFactor
  simp only [Score] at *
  have hp1 : 0 ≤ d * P.rfpScoreFactor := Int.mul_nonneg hd (by omega)
  have hp2 : d * P.rfpScoreFactor ≤ 1 * 130 := Int.mul_le_mul hd1 e2 (by omega) (by omega)
  generalize d * P.rfpScoreFactor = x at h2 hp1 hp2
  rw [wrapS16_id (x := x) (by omega) (by omega), wrapS16_id (x := beta + x) (by omega) (by omega)] at h2
  omega

/-- **`AspLaws` for every in-range vector whose window size is SAFE** (`Search.WSafe`: `39..44` or `78..88`;
    Proofs/SearchScoreFree.lean): no aspiration window leaves `±32528`, a chain has at most ten failures. -/
theorem realP_aspLaws (K : Keys) (cs : Eval.CoeffSet Int) {P : Params} (h : P.InRange) (hw : WSafe P.windowSize) :
    AspLaws (realCompP K cs P) where
  windowSafe := hw
  rfp_shallow := fun d se beta hd hd1 hb hg => rfpCutP_shallow1 h d se beta hd hd1 hb hg

/-- the in-range window sizes the argument does NOT cover: `30..38`, `45..77`, `89..100`. -/
theorem inRange_window_unsafe_iff {W : Int} (h30 : 30 ≤ W) (h100 : W ≤ 100) :
    ¬ WSafe W ↔ (W ≤ 38 ∨ (45 ≤ W ∧ W ≤ 77) ∨ 89 ≤ W) := by
  unfold WSafe; omega

/-- … and why, in the arithmetic of the aspiration loop (`Search.aspiration`: `alpha -= factor * W`,
    `beta += factor * W`, `factor *= 2`, all in int16), for the smallest member of each uncovered interval:
    a sequence of results WITHIN `±Inf`, each one a genuine failure of the window it is compared with, after
    which the next widening takes a bound out of int16.
      `W = 38` (30..38): ten fail-lows/highs alternating so that both bounds stay inside `±Inf` reach
                 `factor = 1024`, and `38·1024 = 38912` is not an int16 at all;
      `W = 45` (45..77): `factor = 512` is reachable with `alpha = -9995 ≥ -Inf`; `-9995 - 45·512 < -32768`;
      `W = 89` (89..100): `factor = 256` is reachable with `alpha = -9999`; `-9999 - 89·256 < -32768`. -/
theorem unsafe_windows_wrap :
    wrapS16 ((1024 : Int) * 38) ≠ 1024 * 38 ∧
    (-9995 : Int) - 512 * 45 < -32768 ∧ 512 * 45 ≤ 40000 - 2 * (45 : Int) ∧
    (-9999 : Int) - 256 * 89 < -32768 ∧ 256 * 89 ≤ 40000 - 2 * (89 : Int) := by decide

end SearchReal
end ChessVerif
