/-
  Structural facts about the evaluation model: it sees a board only through `input`.
-/
import ChessVerif.Model.Eval

namespace ChessVerif.Eval
open ChessVerif

/-- two boards with the same piece sets, colour sets, side to move and halfmove clock have the same
    projection. -/
theorem input_eq {b b' : Board} (hp : b.pieces = b'.pieces) (hc : b.colors = b'.colors)
    (hs : b.stm = b'.stm) (hf : b.fifty = b'.fifty) : input b = input b' := by
  simp [input, hp, hc, hs, hf]

/-- for every score type: the evaluation is a function of the projection. -/
theorem evalCore_depends_only {S : Type} (o : Ops S) (cs : CoeffSet S) {b b' : Board}
    (hp : b.pieces = b'.pieces) (hc : b.colors = b'.colors) (hs : b.stm = b'.stm) (hf : b.fifty = b'.fifty) :
    evalCore o cs (input b) = evalCore o cs (input b') := by
  rw [input_eq hp hc hs hf]

end ChessVerif.Eval
