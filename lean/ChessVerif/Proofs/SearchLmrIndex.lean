/-
  The move count the search skeleton hands to `lmr` is never negative.

  search.go: `if d > 1 && quietCnt > params.LMRStart && !inCheck { rd := lmr(d, moveCnt-1, improving, nType) …`
  and `lmr` indexes the `log` table with `min(mCount, len(log)-1)` — bounded above, not below: a
  negative count is an index-out-of-range PANIC in Go (the model's table access is total and would
  silently read `log[0]`).  In the default build `LMRStart = 2` keeps the call away from the first
  moves; in the spsa build `LMRStart` ranges over `0..10` and with 0 the call is made for the FIRST
  legal move of a node, `moveCnt = 1`, count 0 — still in range, because

    * `moveCnt` and `quietCnt` start at 0, `abEnter` increments `moveCnt` by one and `quietCnt` by at
      most one, nothing else changes them (`CntInv`: `0 ≤ quietCnt ≤ moveCnt`),
    * `searchMove` consults `c.lmr x.d (l.moveCnt - 1) …` only under `c.lmrTry x.d l.quietCnt`, and
      `quietCnt > LMRStart ≥ 0` gives `moveCnt ≥ quietCnt ≥ 1`.

  `abLoop_lmr_nonneg` states it extensionally for the whole move loop of a node: replacing `c.lmr` by
  ANY function that agrees with it on non-negative counts does not change the loop — the skeleton
  never looks at `lmr` below 0.  (The offset `1` is re-checked against the regenerated
  `Gen.Search.lmrCountOffset` in Model/SearchRealP.lean; with `moveCnt-2` the statement is false.)
-/
import ChessVerif.Model.Search

namespace ChessVerif
namespace Search

variable {σ π : Type}

/-- the counters of the move loop. -/
def CntInv (l : ABLoop π) : Prop := 0 ≤ l.quietCnt ∧ l.quietCnt ≤ l.moveCnt

theorem cntInv_enter {l : ABLoop π} (h : CntInv l) (captured : Piece) (m : Move) :
    CntInv (abEnter l captured m) ∧ 1 ≤ (abEnter l captured m).moveCnt := by
  obtain ⟨h0, h1⟩ := h
  unfold CntInv abEnter
  simp only
  split <;> omega

/-- `abAfter` does not touch the counters. -/
theorem abAfter_cnt (c : Comp σ π) (L : Limits) (x : ABCtx) (m : Move) (r : Board.Reverse) (l : ABLoop π)
    (value : Score) (s : St σ) :
    (∀ l' s', abAfter c L x m r l value s = (.cont l', s') → l'.moveCnt = l.moveCnt ∧ l'.quietCnt = l.quietCnt) ∧
    (∀ l' s', abAfter c L x m r l value s = (.brk l', s') → l'.moveCnt = l.moveCnt ∧ l'.quietCnt = l.quietCnt) := by
  simp only [abAfter]
  generalize abort L ((s.setBoard (s.board.undoMove m r)).pop) = as
  constructor <;> intro l' s' h
  all_goals
    split at h
    · simp at h
    · split at h
      · split at h
        · simp at h
        · split at h <;> simp only [Prod.mk.injEq, Step.cont.injEq, Step.brk.injEq, reduceCtorEq, false_and] at h <;>
            (try (obtain ⟨rfl, _⟩ := h; exact ⟨rfl, rfl⟩))
      · split at h <;> simp only [Prod.mk.injEq, Step.cont.injEq, Step.brk.injEq, reduceCtorEq, false_and] at h <;>
          (try (obtain ⟨rfl, _⟩ := h; exact ⟨rfl, rfl⟩))

/-- **the count `searchMove` hands to `lmr` is ≥ 0**: under the guard, for counters that satisfy the
    invariant after `abEnter`, when the guard implies `quietCnt ≥ 1` (i.e. `LMRStart ≥ 0`). -/
theorem searchMove_lmr_count_nonneg (c : Comp σ π) (hlate : ∀ d q, c.lmrTry d q = true → 1 ≤ q)
    {l0 : ABLoop π} (h : CntInv l0) (captured : Piece) (m : Move) (d : Int)
    (hg : c.lmrTry d (abEnter l0 captured m).quietCnt = true) :
    0 ≤ (abEnter l0 captured m).moveCnt - 1 := by
  have h1 := (cntInv_enter h captured m).1
  have h2 := hlate _ _ hg
  unfold CntInv at h1
  omega

/-- `searchMove` depends on `c.lmr` only through its values at non-negative counts. -/
theorem searchMove_lmr_congr (c : Comp σ π) (f : Int → Int → Bool → NodeType → Int)
    (hagree : ∀ d mc imp nt, 0 ≤ mc → f d mc imp nt = c.lmr d mc imp nt)
    (hlate : ∀ d q, c.lmrTry d q = true → 1 ≤ q)
    (child : Child σ) (x : ABCtx) (l : ABLoop π) (hl : CntInv l) (next : NodeType) (s : St σ) :
    searchMove { c with lmr := f } child x l next s = searchMove c child x l next s := by
  simp only [searchMove]
  by_cases hg : c.lmrTry x.d l.quietCnt = true
  · have h2 := hlate _ _ hg
    unfold CntInv at hl
    rw [hagree x.d (l.moveCnt - 1) x.improving x.nt (by omega)]
  · have hg' : c.lmrTry x.d l.quietCnt = false := by simpa using hg
    simp only [hg', Bool.false_and]
    rfl

/-- **the move loop never consults `lmr` at a negative count**: any `f` that agrees with `c.lmr` on counts
    `≥ 0` gives the same loop, from every state whose counters satisfy the invariant (in particular
    from the initial `moveCnt = quietCnt = 0` of `abMoves`). -/
theorem abLoop_lmr_nonneg (c : Comp σ π) (f : Int → Int → Bool → NodeType → Int)
    (hagree : ∀ d mc imp nt, 0 ≤ mc → f d mc imp nt = c.lmr d mc imp nt)
    (hlate : ∀ d q, c.lmrTry d q = true → 1 ≤ q)
    (L : Limits) (child : Child σ) (x : ABCtx) :
    ∀ (n : Nat) (l : ABLoop π) (s : St σ), CntInv l →
      abLoop { c with lmr := f } L child x n l s = abLoop c L child x n l s := by
  intro n
  induction n with
  | zero => intro l s _; rfl
  | succ n ih =>
    intro l s hl
    simp only [abLoop]
    split
    · rfl
    · next m pk _ =>
      split
      · exact ih _ _ hl
      · have hl' : CntInv (abEnter { l with pick := pk, yielded := m :: l.yielded }
            (s.board.pieceAt (s.board.captureSq m)) m) :=
          (cntInv_enter (l := { l with pick := pk, yielded := m :: l.yielded }) hl _ _).1
        rw [searchMove_lmr_congr c f hagree hlate child x _ hl']
        generalize searchMove c child x _ _ _ = r
        have hcnt := abAfter_cnt c L x m (s.board.makeMove c.keys m).2
          (abEnter { l with pick := pk, yielded := m :: l.yielded } (s.board.pieceAt (s.board.captureSq m)) m) r.1 r.2
        have e : abAfter { c with lmr := f } L x m (s.board.makeMove c.keys m).2
            (abEnter { l with pick := pk, yielded := m :: l.yielded } (s.board.pieceAt (s.board.captureSq m)) m) r.1 r.2 =
          abAfter c L x m (s.board.makeMove c.keys m).2
            (abEnter { l with pick := pk, yielded := m :: l.yielded } (s.board.pieceAt (s.board.captureSq m)) m) r.1 r.2 := rfl
        rw [e]
        generalize abAfter c L x m _ _ r.1 r.2 = o at hcnt
        obtain ⟨st, s'⟩ := o
        cases st with
        | ret v => rfl
        | brk l' => rfl
        | cont l' =>
          simp only
          apply ih
          obtain ⟨e1, e2⟩ := hcnt.1 l' s' rfl
          unfold CntInv at hl' ⊢
          rw [e1, e2]; exact hl'

/-- the initial counters of `abMoves`. -/
theorem cntInv_init (alpha : Score) (pick : π) :
    CntInv ({ alpha := alpha, bestMove := 0, hasLegal := false, failLow := true, maxim := -Inf - 1,
              moveCnt := 0, quietCnt := 0, pick := pick, yielded := [] } : ABLoop π) :=
  ⟨Int.le_refl 0, Int.le_refl 0⟩

end Search
end ChessVerif
