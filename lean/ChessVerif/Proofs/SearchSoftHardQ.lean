/-
  Soft node limit ≡ hard node budget, part 1: vocabulary and the quiescence pass.

  Two option sets are compared: `L1` has no hard node budget (`nodes = -1`), `L2` has the hard budget
  `N`; neither has a stop channel.  `Limits` enters `alphaBeta`/`quiescence` only through `abort`
  (identical for both: it only reads `L.stop`) and `incrementNodes` (`L1` always counts; `L2` counts
  while `nodes < N` and raises the abort flag afterwards).  The simulation lemma proved for every
  piece `f` of the skeleton is

      nodes never decrease along the `L1` run of `f`, `pondering` is unchanged, and
      if the `L1` run of `f` ends with `nodes ≤ N` then the `L2` run is IDENTICAL (value and state).

  No component law and no board invariant is needed (the lemmas hold for every `Comp`).
-/
import ChessVerif.Proofs.SearchFrame

namespace ChessVerif
namespace Search

variable {σ π : Type}

/-- This development needs no invariant of the persistent state and no component law: where it uses
    the frame lemmas of `abort` / `incrementNodes` (stated with `Mono`, which mentions `PsInv`) it does
    so with the trivial invariant.  No statement of the development mentions it. -/
@[instance_reducible] def trivialPsInv (σ : Type) : PsInv σ := ⟨fun _ => True⟩

attribute [local instance] trivialPsInv

/-- `L1`: no hard budget; `L2`: hard budget `N`; no stop channel in either. -/
structure SoftHard (L1 L2 : Limits) (N : Int) : Prop where
  nodes1 : L1.nodes = -1
  stop1 : L1.stop = none
  nodes2 : L2.nodes = N
  stop2 : L2.stop = none

/-- the part of `Mono` the simulation needs: the node counter does not decrease and the pondering
    flag is unchanged. -/
def NM (s s' : St σ) : Prop := s'.pondering = s.pondering ∧ s.nodes ≤ s'.nodes

theorem NM.refl (s : St σ) : NM s s := ⟨rfl, Int.le_refl _⟩

theorem NM.trans {s1 s2 s3 : St σ} (h1 : NM s1 s2) (h2 : NM s2 s3) : NM s1 s3 :=
  ⟨h2.1.trans h1.1, Int.le_trans h1.2 h2.2⟩

theorem Mono.nm {L : Limits} {s s' : St σ} (h : Mono L s s') : NM s s' := ⟨h.pondering, h.nodes_mono⟩

theorem NM.of_eq {s s' : St σ} (h1 : s'.pondering = s.pondering) (h2 : s'.nodes = s.nodes) : NM s s' :=
  ⟨h1, by rw [h2]; exact Int.le_refl _⟩

/-- `abort` only reads `L.stop`. -/
theorem abort_congr {L1 L2 : Limits} (h : L2.stop = L1.stop) (s : St σ) : abort L2 s = abort L1 s := by
  unfold abort; rw [h]

theorem SoftHard.abort_eq {L1 L2 : Limits} {N : Int} (h : SoftHard L1 L2 N) (s : St σ) : abort L2 s = abort L1 s :=
  abort_congr (h.stop2.trans h.stop1.symm) s

/-- without a stop channel `abort` reports the flag and changes nothing. -/
theorem abort_none {L : Limits} (h : L.stop = none) (s : St σ) : abort L s = (s.aborted, s) := by
  unfold abort; rw [h]
  cases hs : s.aborted <;> simp

theorem SoftHard.incr1 {L1 L2 : Limits} {N : Int} (h : SoftHard L1 L2 N) (s : St σ) :
    incrementNodes L1 s = { s with nodes := s.nodes + 1 } := by
  unfold incrementNodes; rw [if_pos (Or.inl h.nodes1)]

theorem SoftHard.incr2 {L1 L2 : Limits} {N : Int} (h : SoftHard L1 L2 N) (s : St σ) (hlt : s.nodes < N) :
    incrementNodes L2 s = { s with nodes := s.nodes + 1 } := by
  unfold incrementNodes; rw [if_pos (Or.inr (by rw [h.nodes2]; exact hlt))]

/-- the refused increment: budget used up and not pondering. -/
theorem SoftHard.incr2_refused {L1 L2 : Limits} {N : Int} (h : SoftHard L1 L2 N) (hN : N ≠ -1) (s : St σ)
    (hge : N ≤ s.nodes) (hp : s.pondering = false) : incrementNodes L2 s = { s with aborted := true } := by
  unfold incrementNodes
  rw [if_neg (by rw [h.nodes2]; omega)]
  simp [hp]

/-! ### quiescence -/

/-- `ch2` reproduces every run of `ch1` that ends within `N` nodes. -/
def QSim (N : Int) (ch1 ch2 : Score → Score → Int → St σ → Score × St σ) : Prop :=
  ∀ a b p s, NM s (ch1 a b p s).2 ∧ ((ch1 a b p s).2.nodes ≤ N → ch2 a b p s = ch1 a b p s)

theorem qAfter_eq (c : Comp σ π) {L1 L2 : Limits} {N : Int} (h : SoftHard L1 L2 N) (beta : Score) (ply : Int)
    (m : Move) (r : Board.Reverse) (l : QLoop) (v : Score) (s : St σ) :
    qAfter c L2 beta ply m r l v s = qAfter c L1 beta ply m r l v s := by
  simp only [qAfter, h.abort_eq]

theorem qAfter_nm (c : Comp σ π) (L : Limits) (beta : Score) (ply : Int) (m : Move) (r : Board.Reverse)
    (l : QLoop) (v : Score) (s : St σ) : NM s (qAfter c L beta ply m r l v s).2 := by
  simp only [qAfter]
  have hf : NM s (abort L (s.setBoard (s.board.undoMove m r))).2 :=
    (abort_frame L (s.setBoard (s.board.undoMove m r))).mono.nm
  generalize abort L (s.setBoard (s.board.undoMove m r)) = as at hf ⊢
  split
  · exact hf
  · split
    · exact hf
    · exact hf

theorem qLoop_sim (c : Comp σ π) {L1 L2 : Limits} {N : Int} (h : SoftHard L1 L2 N)
    (ch1 ch2 : Score → Score → Int → St σ → Score × St σ) (hc : QSim N ch1 ch2) (beta sp : Score) (ply : Int) :
    ∀ (moves : List (Move × Score)) (l : QLoop) (s : St σ),
      NM s (qLoop c L1 ch1 beta sp ply moves l s).2 ∧
        ((qLoop c L1 ch1 beta sp ply moves l s).2.nodes ≤ N →
          qLoop c L2 ch2 beta sp ply moves l s = qLoop c L1 ch1 beta sp ply moves l s) := by
  intro moves
  induction moves with
  | nil => intro l s; exact ⟨NM.refl s, fun _ => rfl⟩
  | cons mw rest ih =>
    intro l s
    obtain ⟨m, w⟩ := mw
    simp only [qLoop]
    split
    · exact ⟨NM.refl s, fun _ => rfl⟩
    · split
      · have := ih l (s.setBoard ((s.board.makeMove c.keys m).1.undoMove m (s.board.makeMove c.keys m).2))
        exact ⟨(NM.of_eq rfl rfl).trans this.1, this.2⟩
      · split
        · exact ⟨NM.of_eq rfl rfl, fun _ => rfl⟩
        · rw [qAfter_eq c h]
          have hc1 := hc (neg beta) (neg l.alpha) (wrapS8 (ply + 1)) (s.setBoard (s.board.makeMove c.keys m).1)
          generalize ch1 (neg beta) (neg l.alpha) (wrapS8 (ply + 1)) (s.setBoard (s.board.makeMove c.keys m).1) = r1
            at hc1 ⊢
          have ha := qAfter_nm c L1 beta ply m (s.board.makeMove c.keys m).2 l r1.1 r1.2
          generalize ho : qAfter c L1 beta ply m (s.board.makeMove c.keys m).2 l r1.1 r1.2 = o at ha ⊢
          have hso : NM s o.2 := ((NM.of_eq rfl rfl).trans hc1.1).trans ha
          obtain ⟨st, s'⟩ := o
          cases st with
          | ret v =>
            refine ⟨hso, fun hle => ?_⟩
            rw [hc1.2 (Int.le_trans ha.2 hle), ho]
          | brk l' =>
            refine ⟨hso, fun hle => ?_⟩
            rw [hc1.2 (Int.le_trans ha.2 hle), ho]
          | cont l' =>
            have hi := ih l' s'
            refine ⟨hso.trans hi.1, fun hle => ?_⟩
            have hle' : s'.nodes ≤ N := Int.le_trans hi.1.2 hle
            rw [hc1.2 (Int.le_trans ha.2 hle'), ho]
            exact hi.2 hle

theorem qBody_sim (c : Comp σ π) {L1 L2 : Limits} {N : Int} (h : SoftHard L1 L2 N)
    (ch1 ch2 : Score → Score → Int → St σ → Score × St σ) (hc : QSim N ch1 ch2)
    (alpha beta : Score) (ply : Int) (s : St σ) :
    NM s (qBody c L1 ch1 alpha beta ply s).2 ∧
      ((qBody c L1 ch1 alpha beta ply s).2.nodes ≤ N →
        qBody c L2 ch2 alpha beta ply s = qBody c L1 ch1 alpha beta ply s) := by
  simp only [qBody]
  split
  · exact ⟨NM.refl s, fun _ => rfl⟩
  · split
    · exact ⟨NM.refl s, fun _ => rfl⟩
    · split
      · exact ⟨NM.refl s, fun _ => rfl⟩
      · split
        · exact ⟨NM.refl s, fun _ => rfl⟩
        · have hq := qLoop_sim c h ch1 ch2 hc beta (evaluate c s.board) ply (c.qMoves s.ps s.board s.hstack)
            { alpha := max alpha (evaluate c s.board), maxim := evaluate c s.board } s.pushFrame
          generalize qLoop c L1 ch1 beta (evaluate c s.board) ply (c.qMoves s.ps s.board s.hstack)
            { alpha := max alpha (evaluate c s.board), maxim := evaluate c s.board } s.pushFrame = r at hq ⊢
          have hn : NM s r.2 := (NM.of_eq rfl rfl).trans hq.1
          obtain ⟨f, s'⟩ := r
          cases f with
          | ret v =>
            refine ⟨hn.trans (NM.of_eq rfl rfl), fun hle => ?_⟩
            rw [hq.2 hle]
          | done l' =>
            refine ⟨hn.trans (NM.of_eq rfl rfl), fun hle => ?_⟩
            rw [hq.2 hle]

/-- `quiescence` after the node count. -/
def qRest (c : Comp σ π) (L : Limits) (fuel : Nat) (alpha beta : Score) (ply : Int) (s1 : St σ) : Score × St σ :=
  let as := abort L s1
  if as.1 then (Inv, as.2) else
  let s := as.2
  if s.board.fifty ≥ 100 ∨ s.board.threefold ≥ 3 then (0, s) else
  qBody c L (quiescence c L fuel) alpha beta ply s

theorem quiescence_succ (c : Comp σ π) (L : Limits) (fuel : Nat) (alpha beta : Score) (ply : Int) (s : St σ) :
    quiescence c L (fuel + 1) alpha beta ply s = qRest c L fuel alpha beta ply (incrementNodes L s) := rfl

theorem qRest_sim (c : Comp σ π) {L1 L2 : Limits} {N : Int} (h : SoftHard L1 L2 N) (fuel : Nat)
    (ih : QSim N (quiescence c L1 fuel) (quiescence c L2 fuel)) (alpha beta : Score) (ply : Int) (s : St σ) :
    NM s (qRest c L1 fuel alpha beta ply s).2 ∧
      ((qRest c L1 fuel alpha beta ply s).2.nodes ≤ N →
        qRest c L2 fuel alpha beta ply s = qRest c L1 fuel alpha beta ply s) := by
  simp only [qRest, h.abort_eq]
  have ha : NM s (abort L1 s).2 := (abort_frame L1 s).mono.nm
  generalize abort L1 s = as at ha ⊢
  split
  · exact ⟨ha, fun _ => rfl⟩
  · split
    · exact ⟨ha, fun _ => rfl⟩
    · have hb := qBody_sim c h _ _ ih alpha beta ply as.2
      exact ⟨ha.trans hb.1, hb.2⟩

theorem quiescence_sim (c : Comp σ π) {L1 L2 : Limits} {N : Int} (h : SoftHard L1 L2 N) (fuel : Nat) :
    QSim N (quiescence c L1 fuel) (quiescence c L2 fuel) := by
  induction fuel with
  | zero => intro a b p s; exact ⟨NM.of_eq rfl rfl, fun _ => rfl⟩
  | succ fuel ih =>
    intro a b p s
    rw [quiescence_succ, quiescence_succ, h.incr1]
    have hr := qRest_sim c h fuel ih a b p { s with nodes := s.nodes + 1 }
    have h1 : NM s { s with nodes := s.nodes + 1 } := ⟨rfl, by show s.nodes ≤ s.nodes + 1; omega⟩
    refine ⟨h1.trans hr.1, fun hle => ?_⟩
    have hlt : s.nodes < N := by
      have h2 : s.nodes + 1 ≤ (qRest c L1 fuel a b p { s with nodes := s.nodes + 1 }).2.nodes := hr.1.2
      omega
    rw [h.incr2 s hlt]
    exact hr.2 hle

end Search
end ChessVerif
