/-
  The clock oracle only reaches the `time` field of the reported lines and the soft *time* limit.
-/
import ChessVerif.Model.Search

namespace ChessVerif
namespace Search

variable {σ π : Type}

/-- a result with the time fields of its lines blanked. -/
def Result.blank (r : Result σ) : Result σ := { r with out := r.out.map Info.blankTime }

theorem softAbort_indep (L : Limits) (h : L.softTime ≤ 0) (p : Bool) (e1 e2 n : Int) :
    softAbort L p e1 n = softAbort L p e2 n := by
  have : decide (L.softTime > 0) = false := by simp; omega
  simp [softAbort, this]

theorem idLoop_clock (c : Comp σ π) (L : Limits) (clock1 clock2 : Clock) (fuel : Nat) (hst : L.softTime ≤ 0) :
    ∀ (n : Nat) (idD : Int) (v : IDVars) (out1 out2 : List Info) (s : St σ),
      out1.map Info.blankTime = out2.map Info.blankTime →
      (idLoop c L clock1 fuel n idD { v with out := out1 } s).blank =
        (idLoop c L clock2 fuel n idD { v with out := out2 } s).blank := by
  intro n
  induction n with
  | zero => intro idD v out1 out2 s h; simp [idLoop, Result.blank, h]
  | succ n ih =>
    intro idD v out1 out2 s h
    simp only [idLoop]
    split
    · simp [Result.blank, h]
    · generalize aspiration c L fuel idD fuel v.alpha v.beta 1 s = a
      cases a with
      | aborted s' =>
        simp only
        cases ho : L.output <;> simp only [if_true, if_false, Bool.false_eq_true] <;>
          split <;> simp [Result.blank, h, Info.blankTime]
      | ok al be sample s' =>
        simp only
        rw [softAbort_indep L hst _ (clock1 v.reads).2 (clock2 v.reads).2]
        have key := fun (o1 o2 : List Info) (ho : o1.map Info.blankTime = o2.map Info.blankTime) =>
          ih (wrapS8 (idD + 1))
            { alpha := wrapS16 (sample - c.windowSize), beta := wrapS16 (sample + c.windowSize), score := sample,
              move := pickMove s'.pv.active v.move, ponder := pickPonder s'.pv.active v.ponder, reads := v.reads + 1,
              ppolls := (ponderPoll L s'.pondering v.ppolls).2, out := [] } o1 o2
            (s'.setPondering (ponderPoll L s'.pondering v.ppolls).1) ho
        cases ho : L.output <;> simp only [if_true, if_false, Bool.false_eq_true] <;> split
        · simp [Result.blank, h]
        · exact key _ _ h
        · simp [Result.blank, h, Info.blankTime]
        · exact key _ _ (by simp [h, Info.blankTime])

theorem finish_blank (c : Comp σ π) (r1 r2 : Result σ) (h : r1.blank = r2.blank) :
    (finish c r1).blank = (finish c r2).blank := by
  cases r1; cases r2
  simp only [Result.blank, finish, Result.mk.injEq] at h ⊢
  obtain ⟨h1, h2, h3, h4, h5⟩ := h
  subst h5
  exact ⟨h1, h2, h3, h4, rfl⟩

end Search
end ChessVerif
