/-
  Basic lemmas about the board model: vector/bit frame lemmas for `addPiece`/`removePiece`, the
  propositional representation invariant `WF`, and the abstract placement `Cfg` with the relation
  `Rep b f` ("the three redundant encodings of `b` all describe the placement `f`").
  `Rep` is the work-horse of C03/C04: adding/removing a man updates `f` at one square
  (`rep_add`, `rep_remove`) and a placement has exactly one representation (`rep_unique`).
-/
import ChessVerif.Model.Abs

namespace ChessVerif
namespace Board

/-! ### vectors -/

theorem vgetD_eq {α : Type} {n : Nat} (v : Vector α n) (i : Nat) (d : α) :
    v.getD i d = if h : i < n then v[i] else d := by
  unfold Vector.getD
  simp [Array.getD_eq_getD_getElem?]
  split <;> simp_all

theorem getD_setIfInBounds {α : Type} {n : Nat} (v : Vector α n) (i j : Nat) (x d : α) (hi : i < n) :
    (v.setIfInBounds i x).getD j d = if j = i then x else v.getD j d := by
  simp only [vgetD_eq, Vector.getElem_setIfInBounds]
  by_cases h : j = i
  · subst h; simp [hi]
  · have : ¬ i = j := fun e => h e.symm
    simp [h, this]

@[simp] theorem getD_setIfInBounds_eq {α : Type} {n : Nat} (v : Vector α n) (i : Nat) (x d : α) (hi : i < n) :
    (v.setIfInBounds i x).getD i d = x := by simp [getD_setIfInBounds, hi]

@[simp] theorem getD_setIfInBounds_ne {α : Type} {n : Nat} (v : Vector α n) (i j : Nat) (x d : α) (hi : i < n)
    (h : j ≠ i) : (v.setIfInBounds i x).getD j d = v.getD j d := by simp [getD_setIfInBounds, hi, h]

theorem vector_ext_getD {α : Type} {n : Nat} {v w : Vector α n} (d : α)
    (h : ∀ i, i < n → v.getD i d = w.getD i d) : v = w := by
  apply Vector.ext
  intro i hi
  have := h i hi
  simpa [vgetD_eq, hi] using this

/-! ### bits -/

theorem getLsbD_or_bit (x : BB) (s t : Nat) (hs : s < 64) :
    (x ||| bit s).getLsbD t = (x.getLsbD t || decide (s = t)) := by
  simp [bit_getLsbD s t hs]

theorem getLsbD_andNot_bit (x : BB) (s t : Nat) (hs : s < 64) :
    (x &&& ~~~ bit s).getLsbD t = (x.getLsbD t && !decide (s = t)) := by
  by_cases ht : t < 64
  · simp only [BitVec.getLsbD_and, BitVec.getLsbD_not, bit_getLsbD s t hs, ht, decide_true, Bool.true_and]
  · have : x.getLsbD t = false := by
      apply BitVec.getLsbD_of_ge; omega
    simp [this]

theorem and_bit_eq_zero (x : BB) (s : Nat) (hs : s < 64) : (x &&& bit s == 0) = !x.getLsbD s := by
  cases h : x.getLsbD s
  · have : x &&& bit s = 0 := by
      apply BitVec.eq_of_getLsbD_eq
      intro i hi
      simp only [BitVec.getLsbD_and, bit_getLsbD s i hs]
      by_cases e : s = i
      · subst e; simp [h]
      · simp [e]
    simp [this]
  · have : x &&& bit s ≠ 0 := by
      intro e
      have := congrArg (fun y => y.getLsbD s) e
      simp [bit_getLsbD s s hs, h] at this
    have h0 : (0 : BB) = 0#64 := rfl
    simp [h0 ▸ this]

/-! ### pieces and colours as indices -/

theorem Piece.toNat_inj {p q : Piece} : p.toNat = q.toNat ↔ p = q := by
  cases p <;> cases q <;> decide

theorem Color.toNat_inj {c d : Color} : c.toNat = d.toNat ↔ c = d := by
  cases c <;> cases d <;> decide

theorem Color.toNat_lt (c : Color) : c.toNat < 2 := by cases c <;> decide

theorem Color.eq_flip_of_ne {c d : Color} (h : d ≠ c) : d = c.flip := by
  cases c <;> cases d <;> simp_all [Color.flip]

theorem Color.flip_ne' (c : Color) : c ≠ c.flip := by cases c <;> decide

/-! ### the getters after `addPiece` / `removePiece` -/

section getters
variable (K : Keys) (b : Board) (c : Color) (p : Piece) (s : Nat)

theorem addPiece_none : addPiece K b c .none s = (b, 0) := by simp [addPiece]
theorem removePiece_none : removePiece K b c .none s = (b, 0) := by simp [removePiece]

theorem pieceAt_addPiece (hp : p ≠ .none) (hs : s < 64) (t : Nat) :
    (addPiece K b c p s).1.pieceAt t = if t = s then p else b.pieceAt t := by
  simp [addPiece, hp, pieceAt, getD_setIfInBounds, hs]

theorem pieceBB_addPiece (hp : p ≠ .none) (q : Piece) :
    (addPiece K b c p s).1.pieceBB q = if q = p then b.pieceBB p ||| bit s else b.pieceBB q := by
  simp [addPiece, hp, pieceBB, getD_setIfInBounds, p.toNat_lt, Piece.toNat_inj]

theorem colorBB_addPiece (hp : p ≠ .none) (d : Color) :
    (addPiece K b c p s).1.colorBB d = if d = c then b.colorBB c ||| bit s else b.colorBB d := by
  simp [addPiece, hp, colorBB, getD_setIfInBounds, Color.toNat_lt, Color.toNat_inj]

theorem pieceAt_removePiece (hp : p ≠ .none) (hs : s < 64) (t : Nat) :
    (removePiece K b c p s).1.pieceAt t = if t = s then .none else b.pieceAt t := by
  simp [removePiece, hp, pieceAt, getD_setIfInBounds, hs]

theorem pieceBB_removePiece (hp : p ≠ .none) (q : Piece) :
    (removePiece K b c p s).1.pieceBB q = if q = p then b.pieceBB p &&& ~~~ bit s else b.pieceBB q := by
  simp [removePiece, hp, pieceBB, getD_setIfInBounds, p.toNat_lt, Piece.toNat_inj]

theorem colorBB_removePiece (hp : p ≠ .none) (d : Color) :
    (removePiece K b c p s).1.colorBB d = if d = c then b.colorBB c &&& ~~~ bit s else b.colorBB d := by
  simp [removePiece, hp, colorBB, getD_setIfInBounds, Color.toNat_lt, Color.toNat_inj]

/-- the other fields are untouched. -/
theorem addPiece_scalars :
    (addPiece K b c p s).1.hashes = b.hashes ∧ (addPiece K b c p s).1.fullMoves = b.fullMoves ∧
    (addPiece K b c p s).1.stm = b.stm ∧ (addPiece K b c p s).1.ep = b.ep ∧
    (addPiece K b c p s).1.castles = b.castles ∧ (addPiece K b c p s).1.fifty = b.fifty := by
  unfold addPiece; split <;> simp

theorem removePiece_scalars :
    (removePiece K b c p s).1.hashes = b.hashes ∧ (removePiece K b c p s).1.fullMoves = b.fullMoves ∧
    (removePiece K b c p s).1.stm = b.stm ∧ (removePiece K b c p s).1.ep = b.ep ∧
    (removePiece K b c p s).1.castles = b.castles ∧ (removePiece K b c p s).1.fifty = b.fifty := by
  unfold removePiece; split <;> simp

theorem addPiece_delta : (addPiece K b c p s).2 = if p = .none then 0 else K.piece c.toNat p.toNat s := by
  unfold addPiece; split <;> simp_all
theorem removePiece_delta : (removePiece K b c p s).2 = if p = .none then 0 else K.piece c.toNat p.toNat s := by
  unfold removePiece; split <;> simp_all

end getters

/-! ### the abstract placement and its representations -/

/-- an abstract placement: which man (if any) stands on each square. -/
abbrev Cfg := Nat → Option (Color × Piece)

/-- point update. -/
def upd (f : Cfg) (s : Nat) (v : Option (Color × Piece)) : Cfg := fun t => if t = s then v else f t

@[simp] theorem upd_same (f : Cfg) (s : Nat) (v) : upd f s v s = v := by simp [upd]
theorem upd_other (f : Cfg) (s t : Nat) (v) (h : t ≠ s) : upd f s v t = f t := by simp [upd, h]

/-- the piece kind a placement shows on a square. -/
def Cfg.kind (f : Cfg) (s : Nat) : Piece := match f s with | some (_, p) => p | none => .none

/-- `Rep b f`: the per-square map, the per-piece sets and the per-colour sets of `b` all describe `f`. -/
structure Rep (b : Board) (f : Cfg) : Prop where
  real : ∀ s c, f s ≠ some (c, .none)
  sq : ∀ s, s < 64 → b.pieceAt s = f.kind s
  pc : ∀ p s, s < 64 → ((b.pieceBB p).getLsbD s = true ↔ ∃ c, f s = some (c, p))
  col : ∀ c s, s < 64 → ((b.colorBB c).getLsbD s = true ↔ ∃ p, f s = some (c, p))

theorem Rep.congr_board {b b' : Board} {f : Cfg} (h1 : b'.sq = b.sq) (h2 : b'.pieces = b.pieces)
    (h3 : b'.colors = b.colors) (h : Rep b f) : Rep b' f := by
  refine ⟨h.real, ?_, ?_, ?_⟩
  · intro s hs; simpa [pieceAt, h1] using h.sq s hs
  · intro p s hs; simpa [pieceBB, h2] using h.pc p s hs
  · intro c s hs; simpa [colorBB, h3] using h.col c s hs

theorem Rep.congr_cfg {b : Board} {f g : Cfg} (h : Rep b f) (e : ∀ s, f s = g s) : Rep b g := by
  have : f = g := funext e
  exact this ▸ h

/-- removing the man that stands on `s`. -/
theorem rep_remove (K : Keys) {b : Board} {f : Cfg} (h : Rep b f) {s : Nat} (hs : s < 64) {c : Color} {p : Piece}
    (hf : f s = some (c, p)) : Rep (removePiece K b c p s).1 (upd f s none) := by
  have hp : p ≠ .none := by
    intro e; subst e; exact h.real s c hf
  refine ⟨?_, ?_, ?_, ?_⟩
  · intro t d
    by_cases e : t = s
    · subst e; simp
    · rw [upd_other _ _ _ _ e]; exact h.real t d
  · intro t ht
    rw [pieceAt_removePiece K b c p s hp hs]
    by_cases e : t = s
    · subst e; simp [Cfg.kind]
    · simp only [e, if_false, Cfg.kind, upd_other _ _ _ _ e]; exact h.sq t ht
  · intro q t ht
    rw [pieceBB_removePiece K b c p s hp]
    by_cases e : t = s
    · subst e
      by_cases eq : q = p
      · subst eq; simp [getLsbD_andNot_bit _ _ _ hs]
      · simp only [eq, if_false, upd_same]
        rw [h.pc q t ht, hf]; simp; exact fun e' => eq e'.symm
    · rw [upd_other _ _ _ _ e, ← h.pc q t ht]
      by_cases eq : q = p
      · subst eq; simp [getLsbD_andNot_bit _ _ _ hs]; intro _; exact fun e' => e e'.symm
      · simp [eq]
  · intro d t ht
    rw [colorBB_removePiece K b c p s hp]
    by_cases e : t = s
    · subst e
      by_cases eq : d = c
      · subst eq; simp [getLsbD_andNot_bit _ _ _ hs]
      · simp only [eq, if_false, upd_same]
        rw [h.col d t ht, hf]; simp; exact fun e' => eq e'.symm
    · rw [upd_other _ _ _ _ e, ← h.col d t ht]
      by_cases eq : d = c
      · subst eq; simp [getLsbD_andNot_bit _ _ _ hs]; intro _; exact fun e' => e e'.symm
      · simp [eq]

/-- putting a man on the empty square `s`. -/
theorem rep_add (K : Keys) {b : Board} {f : Cfg} (h : Rep b f) {s : Nat} (hs : s < 64) (c : Color) {p : Piece}
    (hp : p ≠ .none) (hf : f s = none) : Rep (addPiece K b c p s).1 (upd f s (some (c, p))) := by
  refine ⟨?_, ?_, ?_, ?_⟩
  · intro t d
    by_cases e : t = s
    · subst e; simp; intro _; exact hp
    · rw [upd_other _ _ _ _ e]; exact h.real t d
  · intro t ht
    rw [pieceAt_addPiece K b c p s hp hs]
    by_cases e : t = s
    · subst e; simp [Cfg.kind]
    · simp only [e, if_false, Cfg.kind, upd_other _ _ _ _ e]; exact h.sq t ht
  · intro q t ht
    rw [pieceBB_addPiece K b c p s hp]
    by_cases e : t = s
    · subst e
      by_cases eq : q = p
      · subst eq; simp [getLsbD_or_bit _ _ _ hs]
      · simp only [eq, if_false, upd_same]
        rw [h.pc q t ht, hf]; simp; exact fun e' => eq e'.symm
    · rw [upd_other _ _ _ _ e, ← h.pc q t ht]
      by_cases eq : q = p
      · subst eq; simp [getLsbD_or_bit _ _ _ hs]; intro e'; exact absurd e'.symm e
      · simp [eq]
  · intro d t ht
    rw [colorBB_addPiece K b c p s hp]
    by_cases e : t = s
    · subst e
      by_cases eq : d = c
      · subst eq; simp [getLsbD_or_bit _ _ _ hs]
      · simp only [eq, if_false, upd_same]
        rw [h.col d t ht, hf]; simp; exact fun e' => eq e'.symm
    · rw [upd_other _ _ _ _ e, ← h.col d t ht]
      by_cases eq : d = c
      · subst eq; simp [getLsbD_or_bit _ _ _ hs]; intro e'; exact absurd e'.symm e
      · simp [eq]

/-- a placement has exactly one representation. -/
theorem rep_unique {b b' : Board} {f : Cfg} (h : Rep b f) (h' : Rep b' f) :
    b.sq = b'.sq ∧ b.pieces = b'.pieces ∧ b.colors = b'.colors := by
  refine ⟨?_, ?_, ?_⟩
  · apply vector_ext_getD Piece.none
    intro i hi
    have := h.sq i hi; have := h'.sq i hi
    simp_all [pieceAt]
  · apply vector_ext_getD (0 : BB)
    intro i hi
    have e : i = (Piece.ofIx i).toNat := by
      have : i = 0 ∨ i = 1 ∨ i = 2 ∨ i = 3 ∨ i = 4 ∨ i = 5 ∨ i = 6 := by omega
      rcases this with h | h | h | h | h | h | h <;> subst h <;> rfl
    apply BitVec.eq_of_getLsbD_eq
    intro s hs
    have h1 := h.pc (Piece.ofIx i) s hs
    have h2 := h'.pc (Piece.ofIx i) s hs
    simp only [pieceBB, ← e] at h1 h2
    exact Bool.eq_iff_iff.2 (h1.trans h2.symm)
  · apply vector_ext_getD (0 : BB)
    intro i hi
    have e : i = (Color.ofIx i).toNat := by
      have : i = 0 ∨ i = 1 := by omega
      rcases this with h | h <;> subst h <;> rfl
    apply BitVec.eq_of_getLsbD_eq
    intro s hs
    have h1 := h.col (Color.ofIx i) s hs
    have h2 := h'.col (Color.ofIx i) s hs
    simp only [colorBB, ← e] at h1 h2
    exact Bool.eq_iff_iff.2 (h1.trans h2.symm)

/-! ### the representation invariant as a proposition -/

/-- propositional form of `Board.wf`. -/
structure WF (b : Board) : Prop where
  disj : b.colorBB .white &&& b.colorBB .black = 0
  none0 : b.pieceBB .none = 0
  pc : ∀ s, s < 64 → ∀ p, p ≠ Piece.none → ((b.pieceBB p).getLsbD s = true ↔ b.pieceAt s = p)
  col : ∀ s, s < 64 →
    (((b.colorBB .white).getLsbD s = true ∨ (b.colorBB .black).getLsbD s = true) ↔ b.pieceAt s ≠ Piece.none)

theorem wf_iff (b : Board) : WF b ↔ b.wf = true := by
  constructor
  · intro h
    simp only [wf, Bool.and_eq_true, beq_iff_eq, List.all_eq_true, List.mem_range]
    refine ⟨⟨h.disj, h.none0⟩, ?_⟩
    intro s hs
    refine ⟨?_, ?_⟩
    · intro q hq
      have hq' : q ≠ Piece.none := by
        intro e; subst e; simp at hq
      have := h.pc s hs q hq'
      rw [Bool.eq_iff_iff]; simpa using this
    · have := h.col s hs
      rw [Bool.eq_iff_iff]; simpa using this
  · intro h
    simp only [wf, Bool.and_eq_true, beq_iff_eq, List.all_eq_true, List.mem_range] at h
    obtain ⟨⟨h1, h2⟩, h3⟩ := h
    refine ⟨h1, h2, ?_, ?_⟩
    · intro s hs p hp
      have := (h3 s hs).1 p (by cases p <;> simp_all)
      rw [Bool.eq_iff_iff] at this; simpa using this
    · intro s hs
      have := (h3 s hs).2
      rw [Bool.eq_iff_iff] at this; simpa using this

theorem WF.disj_at {b : Board} (h : WF b) (s : Nat) :
    ¬ ((b.colorBB .white).getLsbD s = true ∧ (b.colorBB .black).getLsbD s = true) := by
  intro ⟨h1, h2⟩
  have := congrArg (fun x => x.getLsbD s) h.disj
  simp [h1, h2] at this

/-- a well-formed board represents its own `manAt`. -/
theorem WF.rep {b : Board} (h : WF b) : Rep b b.manAt := by
  have key : ∀ s, s < 64 → ∀ c p, b.manAt s = some (c, p) ↔ ((b.colorBB c).getLsbD s = true ∧ b.pieceAt s = p) := by
    intro s hs c p
    have hd := h.disj_at s
    unfold manAt
    cases hw : (b.colorBB .white).getLsbD s <;> cases hb : (b.colorBB .black).getLsbD s <;>
      cases c <;> simp_all
  refine ⟨?_, ?_, ?_, ?_⟩
  · intro s c hc
    by_cases hs : s < 64
    · have := (key s hs c .none).1 hc
      have h2 := (h.col s hs).1 (by cases c <;> simp [this.1])
      exact h2 this.2
    · have : ∀ d, (b.colorBB d).getLsbD s = false := fun d => BitVec.getLsbD_of_ge _ _ (by omega)
      simp [manAt, this] at hc
  · intro s hs
    unfold Cfg.kind manAt
    cases hw : (b.colorBB .white).getLsbD s <;> cases hb : (b.colorBB .black).getLsbD s <;> simp
    have := (h.col s hs)
    simp [hw, hb] at this; exact this
  · intro p s hs
    constructor
    · intro hp
      have pn : p ≠ Piece.none := by
        intro e; subst e; rw [h.none0] at hp; simp at hp
      have e := (h.pc s hs p pn).1 hp
      have := (h.col s hs).2 (by rw [e]; exact pn)
      rcases this with hw | hb
      · exact ⟨.white, (key s hs _ _).2 ⟨hw, e⟩⟩
      · exact ⟨.black, (key s hs _ _).2 ⟨hb, e⟩⟩
    · intro ⟨c, hc⟩
      have := (key s hs c p).1 hc
      have pn : p ≠ Piece.none := by
        intro e; subst e
        exact (h.col s hs).1 (by cases c <;> simp [this.1]) this.2
      exact (h.pc s hs p pn).2 this.2
  · intro c s hs
    constructor
    · intro hc; exact ⟨b.pieceAt s, (key s hs _ _).2 ⟨hc, rfl⟩⟩
    · intro ⟨p, hp⟩; exact ((key s hs c p).1 hp).1

/-- conversely every represented board is well formed. -/
theorem Rep.wf {b : Board} {f : Cfg} (h : Rep b f) : WF b := by
  refine ⟨?_, ?_, ?_, ?_⟩
  · apply BitVec.eq_of_getLsbD_eq
    intro s hs
    rw [BitVec.getLsbD_and]
    cases hw : (b.colorBB .white).getLsbD s <;> cases hb : (b.colorBB .black).getLsbD s <;> simp
    obtain ⟨p, hp⟩ := (h.col .white s hs).1 hw
    obtain ⟨q, hq⟩ := (h.col .black s hs).1 hb
    simp [hp] at hq
  · apply BitVec.eq_of_getLsbD_eq
    intro s hs
    cases hn : (b.pieceBB .none).getLsbD s
    · simp
    · obtain ⟨c, hc⟩ := (h.pc .none s hs).1 hn
      exact absurd hc (h.real s c)
  · intro s hs p hp
    rw [h.pc p s hs, h.sq s hs]
    unfold Cfg.kind
    constructor
    · intro ⟨c, hc⟩; simp [hc]
    · intro e
      cases hf : f s with
      | none => simp [hf] at e; exact absurd e.symm hp
      | some cp => obtain ⟨c, q⟩ := cp; simp [hf] at e; subst e; exact ⟨c, rfl⟩
  · intro s hs
    rw [h.col .white s hs, h.col .black s hs, h.sq s hs]
    unfold Cfg.kind
    cases hf : f s with
    | none => simp
    | some cp =>
      obtain ⟨c, q⟩ := cp
      have : q ≠ Piece.none := by intro e; subst e; exact h.real s c hf
      cases c <;> simp [this]

theorem wf_iff_rep (b : Board) : WF b ↔ ∃ f, Rep b f := ⟨fun h => ⟨_, h.rep⟩, fun ⟨_, h⟩ => h.wf⟩

/-- on the board, a represented placement is `manAt`. -/
theorem Rep.eq_manAt {b : Board} {f : Cfg} (h : Rep b f) (s : Nat) (hs : s < 64) : f s = b.manAt s := by
  unfold manAt
  cases hf : f s with
  | none =>
    have hw : (b.colorBB .white).getLsbD s = false := by
      cases e : (b.colorBB .white).getLsbD s
      · rfl
      · obtain ⟨p, hp⟩ := (h.col .white s hs).1 e; simp [hf] at hp
    have hb : (b.colorBB .black).getLsbD s = false := by
      cases e : (b.colorBB .black).getLsbD s
      · rfl
      · obtain ⟨p, hp⟩ := (h.col .black s hs).1 e; simp [hf] at hp
    simp [hw, hb]
  | some cp =>
    obtain ⟨c, q⟩ := cp
    have hc := (h.col c s hs).2 ⟨q, hf⟩
    have hq : b.pieceAt s = q := by rw [h.sq s hs]; simp [Cfg.kind, hf]
    cases c
    · simp [hc, hq]
    · have hw : (b.colorBB .white).getLsbD s = false := by
        cases e : (b.colorBB .white).getLsbD s
        · rfl
        · obtain ⟨p, hp⟩ := (h.col .white s hs).1 e; simp [hf] at hp
      simp [hw, hc, hq]

end Board
end ChessVerif
