/-
  The driver level of the score-range development (Proofs/SearchScoreGo.lean: aspiration loop, iterative
  deepening, `go`, under the run-level hypothesis `GoSane`) guarded by the ghost flag `St.ttOut` instead
  of `St.nmpOut`: the hypothesis on the run is "no out-of-band value was handed to a table store".
-/
import ChessVerif.Proofs.SearchScoreRoot2
import ChessVerif.Proofs.SearchScoreGo

namespace ChessVerif
namespace Search

variable {σ π : Type} [PsInv σ]

/-- what one iteration's aspiration loop establishes (guarded by `ttOut`, see `QRange2`). -/
theorem aspiration_score2 (c : Comp σ π) (L : Limits) {Good : Board → Prop} {TTok : σ → Prop} {μ : Board → Nat}
    (hl : Laws c Good) (sl : ScoreLaws c Good TTok μ) (fuel : Nat) (idD : Int) :
    ∀ (n : Nat) (alpha beta factor : Score) (s : St σ), Good s.board → TTA2 TTok s →
      (s.ttOut = false → RootWin alpha beta) →
      aspSane c L fuel idD n alpha beta factor s →
      TTA2 TTok (aspiration c L fuel idD n alpha beta factor s).st ∧
      (∀ s', aspiration c L fuel idD n alpha beta factor s = .aborted s' → s'.aborted = true) ∧
      (∀ al be sa s', aspiration c L fuel idD n alpha beta factor s = .ok al be sa s' → s'.ttOut = false →
        InR sa ∧ (idD = 0 → s'.pv.row 0 = []) ∧ (1 ≤ idD → RootOut' c.keys s.board s') ∧
        (1 ≤ idD → Final c.keys s.board → FinalScore c.keys s.board sa ∧ s'.pv.row 0 = [])) := by
  intro n
  induction n with
  | zero =>
    intro alpha beta factor s _ htt _ _
    exact ⟨htt.congr rfl rfl, (fun s' h => by simp only [aspiration, Asp.aborted.injEq] at h; rw [← h]; rfl),
      fun _ _ _ _ h => by simp [aspiration] at h⟩
  | succ n ih =>
    intro alpha beta factor s hg htt hw hs
    have hab := alphaBeta_spec c L hl fuel alpha beta idD 0 .pv s hg htt.1 (Int.le_refl 0)
    have hrg := alphaBeta_range2 c L hl sl fuel alpha beta idD 0 .pv s hg (Int.le_refl 0) (by decide)
      (fun hA => (hw hA).1) htt
    have hroot := fun (hw' : RootWin alpha beta) (h1 : 1 ≤ idD) => alphaBeta_root2 c L hl sl fuel alpha beta hw' idD h1 s hg htt
    have hfin := fun (hw' : RootWin alpha beta) (h1 : 1 ≤ idD) (hf : Final c.keys s.board) =>
      alphaBeta_final c L hl sl fuel alpha beta hw' idD h1 s hg htt.1 hf
    have hrow : idD = 0 → (alphaBeta c L fuel alpha beta idD 0 .pv s).2.pv.row 0 = [] := by
      intro h; rw [h]; exact alphaBeta_depth0_row c L hl fuel alpha beta s hg htt.1
    simp only [aspiration]
    simp only [aspSane] at hs
    simp only at hroot hfin
    generalize alphaBeta c L fuel alpha beta idD 0 .pv s = r at hab hrg hroot hfin hrow hs ⊢
    have haf := abort_frame L r.2
    have hap := (abort_pv L r.2).1
    have hps := abort_ps L r.2
    have han := abort_ttOut L r.2
    have hat := abort_true_iff L r.2
    have hfa := @abort_false σ _ L r.2
    generalize abort L r.2 = as at haf hap hps han hat hfa hs ⊢
    have htt2 : TTA2 TTok as.2 := hrg.1.congr hps han
    split
    · next hab1 =>
      refine ⟨htt2, fun s' h => ?_, fun _ _ _ _ h => by cases h⟩
      cases h
      rw [← hat]; exact hab1
    · next hna =>
      have hna' : as.1 = false := by simpa using hna
      rw [if_neg hna] at hs
      split
      · next hin =>
        refine ⟨htt2, (fun s' h => by cases h), fun al be sa s' h hA => ?_⟩
        cases h
        have hAr : r.2.ttOut = false := by rw [← han]; exact hA
        have hw' := hw (hab.1.mono.t_back hAr)
        have hrab : r.2.aborted = false := (hfa hna').2
        simp only [Bool.and_eq_true, Bool.not_eq_true', decide_eq_false_iff_not] at hin
        have hgt : alpha < r.1 := Int.not_le.1 hin.1
        have hlt : r.1 < beta := Int.not_le.1 hin.2
        refine ⟨hrg.2 hrab hAr, fun h => by rw [hap]; exact hrow h, fun h1 => ?_, fun h1 hf => ?_⟩
        · rcases hroot hw' h1 hrab hAr hgt hlt with h | h
          · exact Or.inl (by rw [hap]; exact h)
          · exact Or.inr h
        · have := hfin hw' h1 hf hrab hgt hlt
          exact ⟨this.1, by rw [hap]; exact this.2⟩
      · next hnin =>
        simp only [if_neg hnin] at hs
        have hb2 : as.2.board = s.board := by rw [haf.board, hab.1.board]
        have := ih _ _ _ as.2 (by rw [hb2]; exact hg) htt2 (fun _ => hs.1) hs.2
        rw [hb2] at this
        exact this

/-- what `idLoop` establishes about scores, tables, the null move and final roots (guarded). -/
theorem idLoop_score2 (c : Comp σ π) (L : Limits) (clock : Clock) {Good : Board → Prop} {TTok : σ → Prop} {μ : Board → Nat}
    (hl : Laws c Good) (sl : ScoreLaws c Good TTok μ) (fuel : Nat) (b : Board) (hg : Good b) (hd : 1 ≤ L.depth) :
    ∀ (n : Nat) (idD : Int) (v : IDVars) (s : St σ), s.board = b → 0 ≤ idD → (n : Int) + idD = 64 →
      TTA2 TTok s → (s.ttOut = false → RootWin v.alpha v.beta) → idSane c L clock fuel n idD v s →
      (s.ttOut = false → 2 ≤ idD → v.move ≠ 0 ∨ Final c.keys b) →
      (Final c.keys b → s.ttOut = false → v.move = 0 ∧ (2 ≤ idD → FinalScore c.keys b v.score)) →
      TTA2 TTok (idLoop c L clock fuel n idD v s).st ∧
      ((idLoop c L clock fuel n idD v s).st.ttOut = false → (idLoop c L clock fuel n idD v s).move = 0 → Final c.keys b) ∧
      (Final c.keys b → (idLoop c L clock fuel n idD v s).st.ttOut = false →
        (idLoop c L clock fuel n idD v s).st.aborted = false →
        (idLoop c L clock fuel n idD v s).move = 0 ∧ FinalScore c.keys b (idLoop c L clock fuel n idD v s).score) := by
  intro n
  induction n with
  | zero =>
    intro idD v s _ _ hn htt _ _ hyp hfin
    simp only [idLoop]
    refine ⟨htt, fun hA hmv => ?_, fun hf hA _ => ⟨(hfin hf hA).1, (hfin hf hA).2 (by omega)⟩⟩
    rcases hyp hA (by omega) with h | h
    · exact absurd hmv h
    · exact h
  | succ n ih =>
    intro idD v s hb h0 hn htt hw hs hyp hfin
    simp only [idLoop]
    simp only [idSane] at hs
    split
    · next hcond =>
      have h2 : 2 ≤ idD := by
        apply Classical.byContradiction
        intro hlt
        have e1 : decide (idD < maxPlies) = true := decide_eq_true (by unfold maxPlies; omega)
        have e2 : decide (idD ≤ L.depth) = true := decide_eq_true (by omega)
        simp [e1, e2] at hcond
      refine ⟨htt, fun hA hmv => ?_, fun hf hA _ => ⟨(hfin hf hA).1, (hfin hf hA).2 h2⟩⟩
      rcases hyp hA h2 with h | h
      · exact absurd hmv h
      · exact h
    · next hcond =>
      rw [if_neg hcond] at hs
      have hlt64 : idD < 64 := by
        apply Classical.byContradiction
        intro hge
        apply hcond
        have e1 : decide (idD < maxPlies) = false := decide_eq_false (by unfold maxPlies; omega)
        simp [e1]
      have hasp := aspiration_spec c L hl fuel idD fuel v.alpha v.beta 1 s (by rw [hb]; exact hg) htt.1
      have hsc := aspiration_score2 c L hl sl fuel idD fuel v.alpha v.beta 1 s (by rw [hb]; exact hg) htt hw hs.1
      have hs2 := hs.2
      generalize aspiration c L fuel idD fuel v.alpha v.beta 1 s = a at hasp hsc hs2 ⊢
      cases a with
      | aborted s' =>
        obtain ⟨hf, _⟩ := hasp
        simp only [Asp.st] at hf hsc
        have hb' : s'.board = b := hf.board.trans hb
        have hab' : s'.aborted = true := hsc.2.1 s' rfl
        simp only
        split
        · refine ⟨hsc.1.congr rfl rfl, fun _ hmv => ?_, fun _ _ hna => ?_⟩
          · simp only at hmv
            have hfl := firstLegal_spec c hl s'.board (by rw [hb']; exact hg) (MoveGen.gen s'.board) (fun _ h => h)
            rcases hfl.2 with hp | ⟨_, hn'⟩
            · rw [hmv] at hp
              exact absurd rfl (hl.gen_ne_zero _ _ (by rw [hb']; exact hg) (mem_playable.1 hp).1)
            · left; rw [← hb']; exact playable_nil_of hn'
          · simp only [setBoard_aborted] at hna
            rw [hab'] at hna; cases hna
        · next hne =>
          refine ⟨hsc.1, fun _ hmv => absurd hmv hne, fun _ _ hna => ?_⟩
          simp only at hna
          rw [hab'] at hna; cases hna
      | ok al be sample s' =>
        obtain ⟨hf, hok⟩ := hasp
        simp only [Asp.st] at hf hsc
        obtain ⟨_, hline⟩ := hok al be sample s' rfl
        rw [hb] at hline
        have hb' : s'.board = b := hf.board.trans hb
        obtain ⟨htt', _, hokc⟩ := hsc
        have hback : s'.ttOut = false → s.ttOut = false := fun h => hf.mono.t_back h
        have hokc' := fun hA => hokc al be sample s' rfl hA
        rw [hb] at hokc'
        have hact : s'.pv.active = s'.pv.row 0 := rfl
        simp only [hact] at hs2 ⊢
        -- under `Final` the variation is empty, so the move stays null
        have hactF : Final c.keys b → s'.ttOut = false → s'.pv.row 0 = [] := by
          intro hfb hA
          obtain ⟨_, hrow0, _, hfs⟩ := hokc' hA
          by_cases hz : idD = 0
          · exact hrow0 hz
          · exact (hfs (by omega) hfb).2
        split
        · next hsa' =>
          refine ⟨htt'.congr rfl rfl, fun _ hmv => absurd hmv hsa'.1, fun hfb hA _ => ?_⟩
          exfalso
          apply hsa'.1
          have hA' : s'.ttOut = false := hA
          rw [hactF hfb hA']
          exact (hfin hfb (hback hA')).1
        · next hnsa =>
          rw [if_neg hnsa] at hs2
          have hw' : wrapS8 (idD + 1) = idD + 1 := by unfold wrapS8; omega
          rw [hw'] at hs2 ⊢
          apply ih
          · exact hb'
          · omega
          · push_cast at hn ⊢; omega
          · exact htt'.congr rfl rfl
          · intro hA
            exact rootWin_first (hokc' hA).1 sl.window
          · exact hs2
          · intro hA h2
            have hA' : s'.ttOut = false := hA
            obtain ⟨_, _, hro, _⟩ := hokc' hA'
            rcases hro (by omega) with h | h
            · left
              cases hrow : s'.pv.row 0 with
              | nil => exact absurd hrow h
              | cons m rest =>
                rw [pickMove_cons]
                rw [hrow] at hline
                exact hl.gen_ne_zero _ _ hg (mem_playable.1 (legalLine_head hline)).1
            · exact Or.inr h
          · intro hfb hA
            have hA' : s'.ttOut = false := hA
            obtain ⟨_, _, _, hfs⟩ := hokc' hA'
            refine ⟨?_, fun h2 => (hfs (by omega) hfb).1⟩
            rw [hactF hfb hA']
            exact (hfin hfb (hback hA')).1

theorem go_score2 (c : Comp σ π) (L : Limits) (clock : Clock) {Good : Board → Prop} {TTok : σ → Prop} {μ : Board → Nat}
    (hl : Laws c Good) (sl : ScoreLaws c Good TTok μ) (fuel : Nat) (e : Engine σ) (b : Board) (hg : Good b) (nodes0 : Int)
    (hd : 1 ≤ L.depth) (htt : TTok e.ps) (hs : GoSane c L clock fuel e b nodes0)
    (hA : (go c L clock fuel e b nodes0).st.ttOut = false) :
    TTok (go c L clock fuel e b nodes0).st.ps ∧
    ((go c L clock fuel e b nodes0).move = 0 → Final c.keys b) ∧
    (Final c.keys b → (go c L clock fuel e b nodes0).st.aborted = false →
      (go c L clock fuel e b nodes0).move = 0 ∧ FinalScore c.keys b (go c L clock fuel e b nodes0).score) := by
  have h := idLoop_score2 c L clock hl sl fuel b hg hd 64 0
    { alpha := -Inf - 1, beta := Inf + 1, score := 0, move := 0, ponder := 0, reads := 0, ppolls := 0, out := [] }
    (goInit L e b nodes0) rfl (Int.le_refl 0) (by decide) ⟨sl.tt_ok _ htt, fun _ => htt⟩ (fun _ => rootWin_init) hs
    (fun _ h => absurd h (by decide)) (fun _ _ => ⟨rfl, fun h => absurd h (by decide)⟩)
  have hA' : (idLoop c L clock fuel 64 0
    { alpha := -Inf - 1, beta := Inf + 1, score := 0, move := 0, ponder := 0, reads := 0, ppolls := 0, out := [] }
    (goInit L e b nodes0)).st.ttOut = false := hA
  exact ⟨sl.tt_nextGen _ (h.1.2 hA'), h.2.1 hA', fun hf hna => h.2.2 hf hA' hna⟩

omit [PsInv σ] in
/-- without fuel every search function gives up at once: no table store happens, the flag stays down
    (used for the non-vacuity examples). -/
theorem go_ttOut_nofuel (c : Comp σ π) (L : Limits) (clock : Clock) (e : Engine σ) (b : Board) (nodes0 : Int) :
    (go c L clock 0 e b nodes0).st.ttOut = false := by
  have h : ∀ (v : IDVars) (s : St σ), s.ttOut = false → (idLoop c L clock 0 64 0 v s).st.ttOut = false := by
    intro v s hs
    show (idLoop c L clock 0 (63 + 1) 0 v s).st.ttOut = false
    simp only [idLoop, aspiration]
    split
    · exact hs
    · split <;> exact hs
  exact h _ _ rfl

end Search
end ChessVerif
