/-
  C02, chains: a list of moves, each playable in turn from valid positions, is followed by the engine
  (`MakeMove` folded) exactly as the rule book prescribes (`Rules.apply` folded).
-/
import ChessVerif.Proofs.EpTargetMake

namespace ChessVerif.EpTarget
open ChessVerif Board Rules Bridge

/-- `MakeMove` folded over a move list. -/
def run (K : Keys) (b : Board) (ms : List Move) : Board := ms.foldl (fun b m => (b.makeMove K m).1) b

/-- the rule book's successor function folded over the decoded move list. -/
def runRules (p : Pos) (ms : List Move) : Pos := ms.foldl (fun p m => Rules.apply p (decodeMove m)) p

@[simp] theorem run_nil (K : Keys) (b : Board) : run K b [] = b := rfl
@[simp] theorem run_cons (K : Keys) (b : Board) (m : Move) (ms : List Move) :
    run K b (m :: ms) = run K (b.makeMove K m).1 ms := rfl
@[simp] theorem runRules_nil (p : Pos) : runRules p [] = p := rfl
@[simp] theorem runRules_cons (p : Pos) (m : Move) (ms : List Move) :
    runRules p (m :: ms) = runRules (Rules.apply p (decodeMove m)) ms := rfl

/-- every move of the list is playable (generated, own king not left in check) in the position it is
    made in, and every position a move is made in is valid. -/
def PlayableRun (K : Keys) : Board → List Move → Prop
  | _, [] => True
  | b, m :: ms => Board.valid b = true ∧ m ∈ MoveGen.playable K b ∧ PlayableRun K (b.makeMove K m).1 ms

theorem playable_gen {K : Keys} {b : Board} {m : Move} (h : m ∈ MoveGen.playable K b) : m ∈ MoveGen.gen b := by
  unfold MoveGen.playable at h
  exact (List.mem_filter.1 h).1

/-- the statement of `abs_make_core` for a key table, as a hypothesis. -/
def CoreHyp (K : Keys) : Prop :=
  ∀ (b : Board) (m : Move), Board.valid b = true → m ∈ MoveGen.gen b →
    CoreAgrees (abs (b.makeMove K m).1) (Rules.applyCore (abs b) (decodeMove m))

theorem run_refines_of_core (K : Keys) (hcore : CoreHyp K) :
    ∀ (ms : List Move) (b : Board), PlayableRun K b ms → abs (run K b ms) = runRules (abs b) ms := by
  intro ms
  induction ms with
  | nil => intro b _; rfl
  | cons m ms ih =>
    intro b h
    obtain ⟨hv, hm, hrest⟩ := h
    rw [run_cons, runRules_cons, ih _ hrest,
      make_refines_of_core K hv (playable_gen hm) (hcore b m hv (playable_gen hm))]

/-- with a closure lemma for validity (`valid_make`), validity of the first position suffices. -/
def PlayableSeq (K : Keys) : Board → List Move → Prop
  | _, [] => True
  | b, m :: ms => m ∈ MoveGen.playable K b ∧ PlayableSeq K (b.makeMove K m).1 ms

theorem playableRun_of_seq (K : Keys)
    (hvm : ∀ (b : Board) (m : Move), Board.valid b = true → m ∈ MoveGen.playable K b →
      Board.valid (b.makeMove K m).1 = true) :
    ∀ (ms : List Move) (b : Board), Board.valid b = true → PlayableSeq K b ms → PlayableRun K b ms := by
  intro ms
  induction ms with
  | nil => intro _ _ _; trivial
  | cons m ms ih =>
    intro b hv h
    exact ⟨hv, h.1, ih _ (hvm b m hv h.1) h.2⟩

end ChessVerif.EpTarget
