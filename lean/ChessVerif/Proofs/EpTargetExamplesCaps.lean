/-
  C02, example positions, part 2: the legal en-passant captures of the rule-book successor after the
  double push (kernel evaluation of `Rules.legalEpCaptures`).
-/
import ChessVerif.Proofs.EpTargetExamples

namespace ChessVerif.EpTarget.Examples
open ChessVerif Board

/-- the legal en-passant captures of the rule-book successor (target recorded unconditionally). -/
theorem d2a_caps : Rules.legalEpCaptures (Rules.applyCore (abs d2a) (decodeMove e2e4)) = [] := by decide +kernel
theorem d2b_caps : Rules.legalEpCaptures (Rules.applyCore (abs d2b) (decodeMove e2e4)) = [] := by decide +kernel
theorem okp_caps : Rules.legalEpCaptures (Rules.applyCore (abs okp) (decodeMove e2e4)) = [⟨27, 20, none⟩] := by
  decide +kernel
end ChessVerif.EpTarget.Examples
