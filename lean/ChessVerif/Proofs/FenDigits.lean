/-
  C11 round trip, the bridge from the printer's `String`s to the byte lists the field parsers read.

  * `bytesOf s`                     the UTF-8 bytes of a string as a list; `bytesOf_append`,
                                    `bytesOf_singleton` (an ASCII character is the single byte of
                                    its code), `bytesOf_push`;
  * `digitBytes n`                  the ASCII decimal digits of `n`; `bytesOf_natRepr`:
                                    `bytesOf (toString n) = digitBytes n`;
  * `digitsVal_digitBytes`          `counter()`'s wrapping Go-`int` arithmetic reads them back as `n`
                                    below `2^63`;
  * `bytesOf_intRepr`               the same for the `Int` counters (non-negative);
  * `bytesOf_sqName`                the two bytes of a square name.
-/
import ChessVerif.Proofs.FenFields

namespace ChessVerif
namespace Fen

/-- the UTF-8 bytes of a string, as a list. -/
def bytesOf (s : String) : List UInt8 := s.toUTF8.data.toList

@[simp] theorem bytesOf_empty : bytesOf "" = [] := by simp [bytesOf, String.toUTF8]

theorem bytesOf_append (s t : String) : bytesOf (s ++ t) = bytesOf s ++ bytesOf t := by
  simp [bytesOf, String.toUTF8, String.toByteArray_append, ByteArray.data_append]

/-- an ASCII character is encoded as the single byte of its code. -/
theorem bytesOf_singleton (c : Char) (h : c.val ≤ 127) : bytesOf (String.singleton c) = [c.val.toUInt8] := by
  simp [bytesOf, String.toUTF8, String.toByteArray_singleton, List.utf8Encode,
    String.utf8EncodeChar_eq_singleton (Char.utf8Size_eq_one_iff.2 h)]

theorem bytesOf_push (s : String) (c : Char) (h : c.val ≤ 127) : bytesOf (s.push c) = bytesOf s ++ [c.val.toUInt8] := by
  simp [bytesOf, String.toUTF8, String.toByteArray_push, List.utf8Encode,
    String.utf8EncodeChar_eq_singleton (Char.utf8Size_eq_one_iff.2 h)]

/-- the bytes of the whole text, for `rest`. -/
theorem rest_zero (s : String) : rest s.toUTF8.data 0 = bytesOf s := by simp [rest, bytesOf]

/-! ### decimal digits -/

/-- the ASCII decimal digits of `n`, most significant first. -/
def digitBytes (n : Nat) : List UInt8 :=
  if n < 10 then [(48 + n).toUInt8] else digitBytes (n / 10) ++ [(48 + n % 10).toUInt8]
termination_by n
decreasing_by omega

theorem bytesOf_digitChar (d : Nat) (h : d < 10) : bytesOf (String.singleton d.digitChar) = [(48 + d).toUInt8] := by
  have : d = 0 ∨ d = 1 ∨ d = 2 ∨ d = 3 ∨ d = 4 ∨ d = 5 ∨ d = 6 ∨ d = 7 ∨ d = 8 ∨ d = 9 := by omega
  rcases this with h | h | h | h | h | h | h | h | h | h <;> subst h <;>
    exact bytesOf_singleton _ (by decide)

/-- `toString n` is the list of ASCII digits of `n`. -/
theorem bytesOf_natRepr (n : Nat) : bytesOf (toString n) = digitBytes n := by
  show bytesOf n.repr = digitBytes n
  induction n using Nat.strongRecOn with
  | ind n ih =>
    rw [digitBytes]
    by_cases h : n < 10
    · rw [if_pos h, Nat.repr_of_lt h, bytesOf_digitChar n h]
    · rw [if_neg h, Nat.repr_of_ge (by omega), bytesOf_append, ih (n / 10) (by omega),
        bytesOf_digitChar _ (by omega)]

theorem digitBytes_range (n : Nat) : ∀ d ∈ digitBytes n, 48 ≤ d ∧ d ≤ 57 := by
  induction n using Nat.strongRecOn with
  | ind n ih =>
    have one : ∀ k, k < 10 → (48 : UInt8) ≤ (48 + k).toUInt8 ∧ (48 + k).toUInt8 ≤ 57 := by
      intro k hk
      have : k = 0 ∨ k = 1 ∨ k = 2 ∨ k = 3 ∨ k = 4 ∨ k = 5 ∨ k = 6 ∨ k = 7 ∨ k = 8 ∨ k = 9 := by omega
      rcases this with h | h | h | h | h | h | h | h | h | h <;> subst h <;> decide
    rw [digitBytes]
    by_cases h : n < 10
    · rw [if_pos h]; intro d hd; rw [List.mem_singleton.1 hd]; exact one n h
    · rw [if_neg h]; intro d hd
      rcases List.mem_append.1 hd with hd | hd
      · exact ih (n / 10) (by omega) d hd
      · rw [List.mem_singleton.1 hd]; exact one _ (by omega)

theorem digitBytes_ne_nil (n : Nat) : digitBytes n ≠ [] := by
  rw [digitBytes]; split <;> simp

theorem toNat_digit (k : Nat) (hk : k < 10) : ((48 + k).toUInt8.toNat - 48 : Nat) = k := by
  have : k = 0 ∨ k = 1 ∨ k = 2 ∨ k = 3 ∨ k = 4 ∨ k = 5 ∨ k = 6 ∨ k = 7 ∨ k = 8 ∨ k = 9 := by omega
  rcases this with h | h | h | h | h | h | h | h | h | h <;> subst h <;> decide

theorem digitsVal_nil (cnt : Int) : digitsVal cnt [] = cnt := rfl

theorem digitsVal_cons (cnt : Int) (d : UInt8) (ds : List UInt8) :
    digitsVal cnt (d :: ds) = digitsVal (wrapS64 (wrapS64 (cnt * 10) + (d.toNat - 48 : Nat))) ds := rfl

/-- Go's `int` conversion is the identity on the non-negative half of its range.
    (NB: never let `simp`/`rfl` unfold `wrapS64` on open terms: the kernel then peels the 2^63
    literals in unary.) -/
theorem wrapS64_id (x : Int) (h0 : 0 ≤ x) (h1 : x < 2 ^ 63) : wrapS64 x = x := by
  unfold wrapS64; omega

theorem digitsVal_append (cnt : Int) (l m : List UInt8) : digitsVal cnt (l ++ m) = digitsVal (digitsVal cnt l) m := by
  simp [digitsVal]

/-- **`counter()` reads `toString n` back**: below `2^63` Go's wrapping `int` arithmetic is exact. -/
theorem digitsVal_digitBytes (n : Nat) (hn : n < 2 ^ 63) : digitsVal 0 (digitBytes n) = n := by
  induction n using Nat.strongRecOn with
  | ind n ih =>
    rw [digitBytes]
    by_cases h : n < 10
    · rw [if_pos h, digitsVal_cons, digitsVal_nil, toNat_digit n h, wrapS64_id (0 * 10) (by omega) (by omega),
        wrapS64_id _ (by omega) (by omega)]
      omega
    · rw [if_neg h, digitsVal_append, ih (n / 10) (by omega) (by omega), digitsVal_cons, digitsVal_nil,
        toNat_digit (n % 10) (by omega), wrapS64_id (_ * 10) (by omega) (by omega),
        wrapS64_id _ (by omega) (by omega)]
      omega

/-- the `Int` counters: a non-negative `Int` prints as its natural number. -/
theorem bytesOf_intRepr (x : Int) (h : 0 ≤ x) : bytesOf (toString x) = digitBytes x.toNat := by
  obtain ⟨n, rfl⟩ := Int.eq_ofNat_of_zero_le h
  show bytesOf (Int.repr (Int.ofNat n)) = _
  simp only [Int.repr, Int.toNat_natCast]
  exact bytesOf_natRepr n

theorem digitsVal_intRepr (x : Int) (h : 0 ≤ x) (hx : x < 2 ^ 63) : digitsVal 0 (digitBytes x.toNat) = x := by
  rw [digitsVal_digitBytes x.toNat (by omega)]
  omega

/-- **`counter_toString`**: on the printed decimal text of a non-negative counter below `2^63`
    (followed by a space or the end of the input) `counter()` returns exactly that number. -/
theorem counter_toString (fen : Bytes) (ix : Nat) (x : Int) (t : List UInt8) (h0 : 0 ≤ x) (hx : x < 2 ^ 63)
    (ht : t = [] ∨ ∃ t', t = 32 :: t') (hr : rest fen ix = bytesOf (toString x) ++ t) :
    counter fen ix = .ok (ix + (bytesOf (toString x)).length, x) := by
  rw [bytesOf_intRepr x h0] at hr ⊢
  rw [counter_digits fen _ t ix (digitBytes_range _) ht hr, digitsVal_intRepr x h0 hx]

/-! ### square names -/

theorem bytesOf_sqName (s : Nat) (hs : s < 64) :
    bytesOf (sqName s) = [(97 + s % 8).toUInt8, (49 + s / 8).toUInt8] := by
  unfold sqName
  rw [bytesOf_append]
  have hf : s % 8 = 0 ∨ s % 8 = 1 ∨ s % 8 = 2 ∨ s % 8 = 3 ∨ s % 8 = 4 ∨ s % 8 = 5 ∨ s % 8 = 6 ∨ s % 8 = 7 := by omega
  have hr : s / 8 = 0 ∨ s / 8 = 1 ∨ s / 8 = 2 ∨ s / 8 = 3 ∨ s / 8 = 4 ∨ s / 8 = 5 ∨ s / 8 = 6 ∨ s / 8 = 7 := by omega
  have h1 : bytesOf (String.singleton (Char.ofNat (97 + s % 8))) = [(97 + s % 8).toUInt8] := by
    rcases hf with h | h | h | h | h | h | h | h <;> rw [h] <;> exact bytesOf_singleton _ (by decide)
  have h2 : bytesOf (String.singleton (Char.ofNat (49 + s / 8))) = [(49 + s / 8).toUInt8] := by
    rcases hr with h | h | h | h | h | h | h | h <;> rw [h] <;> exact bytesOf_singleton _ (by decide)
  rw [h1, h2]; rfl

theorem sqName_bytes_range (s : Nat) (hs : s < 64) :
    ((97 : UInt8) ≤ (97 + s % 8).toUInt8 ∧ (97 + s % 8).toUInt8 ≤ 104) ∧
    ((49 : UInt8) ≤ (49 + s / 8).toUInt8 ∧ (49 + s / 8).toUInt8 ≤ 56) ∧
    ((49 + s / 8).toUInt8.toNat - 49) * 8 + ((97 + s % 8).toUInt8.toNat - 97) = s := by
  have hf : s % 8 = 0 ∨ s % 8 = 1 ∨ s % 8 = 2 ∨ s % 8 = 3 ∨ s % 8 = 4 ∨ s % 8 = 5 ∨ s % 8 = 6 ∨ s % 8 = 7 := by omega
  have hr : s / 8 = 0 ∨ s / 8 = 1 ∨ s / 8 = 2 ∨ s / 8 = 3 ∨ s / 8 = 4 ∨ s / 8 = 5 ∨ s / 8 = 6 ∨ s / 8 = 7 := by omega
  have hs' : s = (s / 8) * 8 + s % 8 := by omega
  refine ⟨?_, ?_, ?_⟩
  · rcases hf with h | h | h | h | h | h | h | h <;> rw [h] <;> decide
  · rcases hr with h | h | h | h | h | h | h | h <;> rw [h] <;> decide
  · have a : (97 + s % 8).toUInt8.toNat - 97 = s % 8 := by
      rcases hf with h | h | h | h | h | h | h | h <;> rw [h] <;> decide
    have c : (49 + s / 8).toUInt8.toNat - 49 = s / 8 := by
      rcases hr with h | h | h | h | h | h | h | h <;> rw [h] <;> decide
    rw [a, c]; omega

end Fen
end ChessVerif
