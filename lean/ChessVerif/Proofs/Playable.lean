/-
  C01 core: a generated move passes the engine's legality filter (`MakeMove`, then
  `InCheck(mover)`) iff the decoded move is legal under the rule book.
  Composition of `gen_iff_pseudoLegal` (bridge), `abs_make_men` (C02 core: the placement after the
  move is that of `Rules.applyCore`), `wf_make` (C03) and `inCheck_iff` (bridge); `Rules.inCheck` only
  reads the placement (`inCheck_congr_men`).
-/
import ChessVerif.Proofs.AbsMake
import ChessVerif.Proofs.PLNodup

namespace ChessVerif.Playable
open ChessVerif Board Rules Bridge AbsMake

/-! ### `inCheck` reads only the placement -/

/-- the position with everything but the placement forgotten. -/
def menOnly (men : Vector (Option Man) 64) : Pos :=
  { men := men, turn := .white, rights := ⟨false, false, false, false⟩, ep := none, halfmove := 0, fullmove := 0 }

theorem at_menOnly (p : Pos) (s : Nat) : (menOnly p.men).at_ s = p.at_ s := rfl
theorem empty_menOnly (p : Pos) (s : Nat) : (menOnly p.men).empty s = p.empty s := rfl
theorem hasColor_menOnly (p : Pos) (s : Nat) (c : Color) : (menOnly p.men).hasColor s c = p.hasColor s c := rfl
theorem has_menOnly (p : Pos) (s : Nat) (c : Color) (k : Piece) : (menOnly p.men).has s c k = p.has s c k := rfl

theorem clearBetween_menOnly (p : Pos) (a t : Nat) : clearBetween (menOnly p.men) a t = clearBetween p a t := rfl

theorem manAttacks_menOnly (p : Pos) (m : Man) (a t : Nat) :
    manAttacks (menOnly p.men) m a t = manAttacks p m a t := rfl

theorem attacks_menOnly (p : Pos) (a t : Nat) : attacks (menOnly p.men) a t = attacks p a t := rfl

theorem attackedBy_menOnly (p : Pos) (c : Color) (t : Nat) :
    attackedBy (menOnly p.men) c t = attackedBy p c t := rfl

theorem inCheck_menOnly (p : Pos) (c : Color) : inCheck (menOnly p.men) c = inCheck p c := rfl

/-- **`Rules.inCheck` depends only on the placement.** -/
theorem inCheck_congr_men {p q : Pos} (h : p.men = q.men) (c : Color) : inCheck p c = inCheck q c := by
  rw [← inCheck_menOnly p, ← inCheck_menOnly q, h]

theorem attackedBy_congr_men {p q : Pos} (h : p.men = q.men) (c : Color) (t : Nat) :
    attackedBy p c t = attackedBy q c t := by
  rw [← attackedBy_menOnly p, ← attackedBy_menOnly q, h]

/-! ### the legality filter -/

/-- the engine's king-safety test after a generated move is the rule book's. -/
theorem inCheck_make (K : Keys) {b : Board} {m : Move} (g : GenMove b m) (c : Color) :
    (b.makeMove K m).1.inCheck c = Rules.inCheck (applyCore (abs b) (decodeMove m)) c := by
  rw [inCheck_iff (Board.wf_make K g.hw g.ok) c]
  exact inCheck_congr_men (abs_make_men K g) c

theorem mem_playable (K : Keys) (b : Board) (m : Move) :
    m ∈ MoveGen.playable K b ↔ m ∈ MoveGen.gen b ∧ (b.makeMove K m).1.inCheck b.stm = false := by
  unfold MoveGen.playable
  rw [List.mem_filter, Bool.not_eq_true']

/-- **C01, membership form.** -/
theorem playable_iff (K : Keys) {b : Board} (hv : Board.valid b = true) (m : Move) :
    m ∈ MoveGen.playable K b ↔
      m < 32768 ∧ Rules.legal (abs b) (decodeMove m) = true ∧ encodeMove (decodeMove m) = m := by
  rw [mem_playable]
  unfold Rules.legal
  rw [Bool.and_eq_true, Bool.not_eq_true']
  constructor
  · rintro ⟨hm, hc⟩
    have g := genMove_of hv hm
    rw [inCheck_make K g] at hc
    exact ⟨g.lt, ⟨g.pl, hc⟩, g.enc⟩
  · rintro ⟨hlt, ⟨hpl, hc⟩, henc⟩
    have hm : m ∈ MoveGen.gen b := (gen_iff_pseudoLegal hv m).2 ⟨hlt, hpl, henc⟩
    have g := genMove_of hv hm
    refine ⟨hm, ?_⟩
    rw [inCheck_make K g]; exact hc

/-! ### no repetition -/

/-- `decodeMove` is injective on the generated words (they are faithful encodings). -/
theorem decode_injOn_gen {b : Board} (hv : Board.valid b = true) {m₁ m₂ : Move}
    (h₁ : m₁ ∈ MoveGen.gen b) (h₂ : m₂ ∈ MoveGen.gen b) (h : decodeMove m₁ = decodeMove m₂) : m₁ = m₂ := by
  have e₁ := ((gen_iff_pseudoLegal hv m₁).1 h₁).2.2
  have e₂ := ((gen_iff_pseudoLegal hv m₂).1 h₂).2.2
  rw [← e₁, ← e₂, h]

theorem playable_sublist (K : Keys) (b : Board) : (MoveGen.playable K b).Sublist (MoveGen.gen b) :=
  List.filter_sublist

theorem playable_nodup (K : Keys) {b : Board} (hv : Board.valid b = true) : (MoveGen.playable K b).Nodup :=
  List.Nodup.sublist (playable_sublist K b) (PL.gen_nodup_of_domain (PL.PLDomain_of_valid hv))

/-- the promotion field of a generated move is `none` or one of the four promotion pieces. -/
theorem gen_promo_choice {b : Board} {m : Move} (g : GenMove b m) : (decodeMove m).promo ∈ Rules.promoChoices := by
  rw [decodeMove_promo]
  by_cases hp : Move.promo m = 0
  · rw [hp]; decide
  · obtain ⟨_, h2, h5⟩ := g.ok.promo hp
    have : Move.promo m = 2 ∨ Move.promo m = 3 ∨ Move.promo m = 4 ∨ Move.promo m = 5 := by omega
    rcases this with h | h | h | h <;> rw [h] <;> decide

end ChessVerif.Playable
