/-
  C10 closed, part 3: "same position ⇒ same hash" is a theorem; only "same hash ⇒ same position"
  (= no Zobrist collision within the history) remains a hypothesis.

  `HashFaithful` has two directions.  For the boards of a game whose start position has a normal
  en-passant state (`Rules.epNormal`: a recorded target has a legal capture — every position reached
  by a move has, C02; a FEN-loaded start may not, known finding D7):

  * positions that are the same for art. 9.2.2 have the same placement, side to move, castling rights
    and — because in a normal position the target is recorded iff a capture is legal — the same
    en-passant square; so the boards are `Board.SamePosition` and (C04, `calcHash_congr`) their
    from-scratch hashes are equal.  THIS is where `epNormal b₀.abs` is used, and D7 is exactly its
    failure.
  * the converse is the absence of a collision and cannot be proved for abstract key tables:
    `NoCollision`.
-/
import ChessVerif.Proofs.RepClosed

namespace ChessVerif
namespace RepClosed
open Rules Board Rep

/-! ### en-passant captures and the recorded target -/

theorem ep_of_mem_caps {p : Pos} {mv : Mv} (h : mv ∈ legalEpCaptures p) : p.ep = some mv.dst := by
  unfold legalEpCaptures at h
  have h2 := (List.mem_filter.1 h).2
  unfold Rules.isEnPassant at h2
  simp only [Bool.and_eq_true, beq_iff_eq] at h2
  exact h2.1.1.2

theorem caps_of_ep_none {p : Pos} (h : p.ep = none) : legalEpCaptures p = [] := by
  cases hc : legalEpCaptures p with
  | nil => rfl
  | cons mv t =>
    have : mv ∈ legalEpCaptures p := by rw [hc]; simp
    rw [ep_of_mem_caps this] at h
    exact absurd h (by simp)

/-- in normal positions the set of legal en-passant captures determines the recorded target. -/
theorem ep_eq_of_caps {p q : Pos} (hp : epNormal p = true) (hq : epNormal q = true)
    (h : legalEpCaptures p = legalEpCaptures q) : p.ep = q.ep := by
  unfold epNormal at hp hq
  cases hcp : legalEpCaptures p with
  | nil =>
    have hcq : legalEpCaptures q = [] := by rw [← h, hcp]
    rw [hcp] at hp; rw [hcq] at hq
    simp only [List.isEmpty_nil, Bool.not_true, Bool.or_false, Option.isNone_iff_eq_none] at hp hq
    rw [hp, hq]
  | cons mv t =>
    have h1 : mv ∈ legalEpCaptures p := by rw [hcp]; simp
    have h2 : mv ∈ legalEpCaptures q := by rw [← h]; exact h1
    rw [ep_of_mem_caps h1, ep_of_mem_caps h2]

/-! ### art. 9.2.2 sameness of two boards' positions gives `SamePosition` (C04's vocabulary) -/

theorem castles_ext {a b : Castles} (h0 : a.getLsbD 0 = b.getLsbD 0) (h1 : a.getLsbD 1 = b.getLsbD 1)
    (h2 : a.getLsbD 2 = b.getLsbD 2) (h3 : a.getLsbD 3 = b.getLsbD 3) : a = b := by
  apply BitVec.eq_of_getLsbD_eq
  intro i hi
  have : i = 0 ∨ i = 1 ∨ i = 2 ∨ i = 3 := by omega
  rcases this with rfl | rfl | rfl | rfl <;> assumption

theorem ep_of_abs_ep {x y : Board} (h : x.abs.ep = y.abs.ep) : x.ep = y.ep := by
  rw [Bridge.abs_ep, Bridge.abs_ep] at h
  by_cases hx : x.ep = 0 <;> by_cases hy : y.ep = 0
  · rw [hx, hy]
  · rw [if_pos hx, if_neg hy] at h; exact absurd h (by simp)
  · rw [if_neg hx, if_pos hy] at h; exact absurd h (by simp)
  · rw [if_neg hx, if_neg hy] at h; exact Option.some.inj h

theorem samePosition_of_same {x y : Board} (hx : WF x) (hy : WF y)
    (nx : epNormal x.abs = true) (ny : epNormal y.abs = true)
    (h : sameForRepetition x.abs y.abs = true) : SamePosition x y := by
  unfold sameForRepetition at h
  simp only [Bool.and_eq_true, beq_iff_eq] at h
  obtain ⟨⟨⟨hmen, hturn⟩, hrights⟩, hcaps⟩ := h
  -- same placement ⇒ same representation
  have hman : ∀ s, x.manAt s = y.manAt s := by
    intro s
    rw [← Bridge.abs_at' x s, ← Bridge.abs_at' y s]
    unfold Pos.at_
    rw [hmen]
  have hrep : Rep y x.manAt := hy.rep.congr_cfg (fun s => (hman s).symm)
  obtain ⟨hsq, _, hcol⟩ := rep_unique hx.rep hrep
  have hep : x.ep = y.ep := ep_of_abs_ep (ep_eq_of_caps nx ny hcaps)
  have hr : x.abs.rights = y.abs.rights := hrights
  have hr0 : x.castles.getLsbD 0 = y.castles.getLsbD 0 := congrArg Rights.wk hr
  have hr1 : x.castles.getLsbD 1 = y.castles.getLsbD 1 := congrArg Rights.wq hr
  have hr2 : x.castles.getLsbD 2 = y.castles.getLsbD 2 := congrArg Rights.bk hr
  have hr3 : x.castles.getLsbD 3 = y.castles.getLsbD 3 := congrArg Rights.bq hr
  exact
    { sq := fun s _ => by unfold pieceAt; rw [hsq]
      col := fun c => by unfold colorBB; rw [hcol]
      stm := hturn
      castles := castles_ext hr0 hr1 hr2 hr3
      ep_none := by rw [hep]
      ep_file := by rw [hep] }

/-- **same position ⇒ same from-scratch hash** (normal en-passant states, arbitrary keys). -/
theorem calcHash_eq_of_same (K : Keys) {x y : Board} (hx : ValidNC x) (hy : ValidNC y)
    (nx : epNormal x.abs = true) (ny : epNormal y.abs = true)
    (h : sameForRepetition x.abs y.abs = true) : calcHash K x = calcHash K y :=
  calcHash_congr K (samePosition_of_same ((wf_iff x).2 ((validNC_iff x).1 hx).1)
    ((wf_iff y).2 ((validNC_iff y).1 hy).1) nx ny h)

/-! ### every position of a game from a normal start is normal -/

theorem foldl_epNormal : ∀ (mvs : List Mv) (h : List Pos), (∀ p ∈ h, epNormal p = true) →
    ∀ p ∈ mvs.foldl stepHist h, epNormal p = true
  | [], _, hh => hh
  | mv :: mvs, [], hh => by
    simp only [List.foldl_cons, stepHist]
    exact foldl_epNormal mvs [] hh
  | mv :: mvs, q :: h, hh => by
    simp only [List.foldl_cons, stepHist]
    apply foldl_epNormal mvs
    intro p hp
    rcases List.mem_cons.1 hp with rfl | hp
    · exact EpTarget.epNormal_apply _ _
    · exact hh p hp

theorem positions_epNormal {start : Pos} (hs : epNormal start = true) (mvs : List Mv) :
    ∀ p ∈ positions start mvs, epNormal p = true :=
  foldl_epNormal mvs [start] (fun p hp => by
    rcases List.mem_cons.1 hp with rfl | hp
    · exact hs
    · simp at hp)

/-! ### the remaining hypothesis -/

/-- **no Zobrist collision within this history**: two boards of the game with the same from-scratch
    hash show the same position (art. 9.2.2).  Cannot be proved for abstract key tables, is false for
    adversarial ones; measured by the correspondence harness. -/
def NoCollision (K : Keys) (bs : List Board) : Prop :=
  ∀ x ∈ bs, ∀ y ∈ bs, calcHash K x = calcHash K y → sameForRepetition x.abs y.abs = true

/-- `HashFaithful` from `NoCollision`: the other direction is proved. -/
theorem faithful_of_noCollision (K : Keys) {ps : List Pos} {bs : List Board} (ht : Tied ps bs)
    (hn : ∀ p ∈ ps, epNormal p = true) (hc : NoCollision K bs) :
    HashFaithful (bs.map fun b => (b.abs, b.calcHash K)) := by
  have normal : ∀ b ∈ bs, epNormal b.abs = true := by
    intro b hb
    obtain ⟨p, hp, e⟩ := ht.mem_right b hb
    rw [← epNormal_nc, ← e, epNormal_nc]; exact hn p hp
  intro x hx y hy
  obtain ⟨bx, hbx, rfl⟩ := List.mem_map.1 hx
  obtain ⟨by_, hby, rfl⟩ := List.mem_map.1 hy
  exact ⟨hc bx hbx by_ hby,
    calcHash_eq_of_same K (ht.validNC bx hbx) (ht.validNC by_ hby) (normal bx hbx) (normal by_ hby)⟩

/-- **C10 closed** — rule-book moves, the only non-structural hypothesis is `NoCollision`. -/
theorem threefold_eq_nocollision_mv (K : Keys) (b₀ : Board) (mvs : List Mv)
    (hv : ValidNC b₀) (hstart : epNormal b₀.abs = true) (hh : b₀.hashes = [calcHash K b₀])
    (hleg : legalGame b₀.abs mvs)
    (hc : NoCollision K (boards K b₀ (mvs.map encodeMove))) :
    (run K b₀ (mvs.map encodeMove)).threefold =
      min 3 (occurrences (run K b₀ (mvs.map encodeMove)).abs (positions b₀.abs mvs)) :=
  threefold_eq_closed_mv K b₀ mvs hv hh hleg
    (faithful_of_noCollision K (tied_and_hashTied K b₀ mvs hv hh hleg).1 (positions_epNormal hstart mvs) hc)

/-- … engine move words. -/
theorem threefold_eq_nocollision_words (K : Keys) (b₀ : Board) (ms : List Move)
    (hv : ValidNC b₀) (hstart : epNormal b₀.abs = true) (hh : b₀.hashes = [calcHash K b₀])
    (hcanon : Canon ms) (hleg : legalGame b₀.abs (ms.map decodeMove))
    (hc : NoCollision K (boards K b₀ ms)) :
    (run K b₀ ms).threefold = min 3 (occurrences (run K b₀ ms).abs (positions b₀.abs (ms.map decodeMove))) := by
  have h := threefold_eq_nocollision_mv K b₀ (ms.map decodeMove) hv hstart hh hleg
  rw [canon_map hcanon] at h
  exact h hc

/-- … the engine's own legality. -/
theorem threefold_eq_nocollision_playable (K : Keys) (b₀ : Board) (ms : List Move)
    (hv : ValidNC b₀) (hstart : epNormal b₀.abs = true) (hh : b₀.hashes = [calcHash K b₀])
    (hplay : EpTarget.PlayableSeq K b₀ ms)
    (hc : NoCollision K (boards K b₀ ms)) :
    legalGame b₀.abs (ms.map decodeMove) ∧
    (run K b₀ ms).threefold = min 3 (occurrences (run K b₀ ms).abs (positions b₀.abs (ms.map decodeMove))) := by
  obtain ⟨hleg, hcanon⟩ := legal_of_playableSeq K ms b₀.abs [] b₀ [] (gameInv_start K hv hh) hplay
  exact ⟨hleg, threefold_eq_nocollision_words K b₀ ms hv hstart hh hcanon hleg hc⟩

end RepClosed
end ChessVerif
