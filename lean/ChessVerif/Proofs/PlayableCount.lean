/-
  C01 closure, counting: how the number of men of each colour and kind changes along the placement
  chain of `makeMove` (`cfg5`, Proofs/MakeUndoSteps.lean), and the link to `Rules.count`.
-/
import ChessVerif.Proofs.Playable
import Mathlib.Data.List.Basic

namespace ChessVerif.Playable
open ChessVerif Board Rules Bridge AbsMake

/-- indicator. -/
def ind (P : Prop) [Decidable P] : Nat := if P then 1 else 0

theorem ind_pos {P : Prop} [Decidable P] (h : P) : ind P = 1 := by simp [ind, h]
theorem ind_neg {P : Prop} [Decidable P] (h : ¬ P) : ind P = 0 := by simp [ind, h]
theorem ind_le (P : Prop) [Decidable P] : ind P ≤ 1 := by unfold ind; split <;> omega

/-- changing a predicate at one point of `range n` changes its count by the two indicator values. -/
theorem countP_range_update (P P' : Nat → Bool) (n s : Nat) (hs : s < n) (h : ∀ t, t ≠ s → P' t = P t) :
    (List.range n).countP P' + ind (P s = true) = (List.range n).countP P + ind (P' s = true) := by
  induction n with
  | zero => omega
  | succ n ih =>
    rw [List.range_succ, List.countP_append, List.countP_append, List.countP_singleton, List.countP_singleton]
    by_cases e : s = n
    · subst e
      have : (List.range s).countP P' = (List.range s).countP P := by
        apply List.countP_congr
        intro t ht
        rw [h t (by have := List.mem_range.1 ht; omega)]
      rw [this]
      unfold ind
      cases P s <;> cases P' s <;> simp
    · have := ih (by omega)
      rw [h n (fun e' => e e'.symm)]
      omega

/-- the number of squares on which the placement `f` shows the man `(c, k)`. -/
def cnt (f : Cfg) (c : Color) (k : Piece) : Nat := (List.range 64).countP (fun s => f s == some (c, k))

theorem cnt_upd (f : Cfg) (s : Nat) (hs : s < 64) (v : Option (Color × Piece)) (c : Color) (k : Piece) :
    cnt (upd f s v) c k + ind (f s = some (c, k)) = cnt f c k + ind (v = some (c, k)) := by
  have := countP_range_update (fun t => f t == some (c, k)) (fun t => upd f s v t == some (c, k)) 64 s hs
    (fun t ht => by simp only [upd_other _ _ _ _ ht])
  simp only [upd_same, beq_iff_eq] at this
  exact this

theorem cnt_congr {f g : Cfg} (h : ∀ s, s < 64 → f s = g s) (c : Color) (k : Piece) : cnt f c k = cnt g c k := by
  unfold cnt
  apply List.countP_congr
  intro s hs
  rw [h s (List.mem_range.1 hs)]

theorem man_eq_some (c' c : Color) (p k : Piece) : man c' p = some (c, k) ↔ (c = c' ∧ p = k ∧ k ≠ Piece.none) := by
  unfold man
  by_cases hp : p = Piece.none
  · subst hp; simp; intro _ h; exact h.symm
  · simp only [hp, if_false, Option.some.injEq, Prod.mk.injEq]
    constructor
    · rintro ⟨rfl, rfl⟩; exact ⟨rfl, rfl, hp⟩
    · rintro ⟨rfl, rfl, _⟩; exact ⟨rfl, rfl⟩

theorem ind_congr {P Q : Prop} [Decidable P] [Decidable Q] (h : P ↔ Q) : ind P = ind Q := by
  unfold ind; by_cases hp : P
  · simp [hp, h.1 hp]
  · have hq : ¬ Q := fun q => hp (h.2 q)
    simp [hp, hq]

/-- the counts along the placement chain of `makeMove`: the captured man disappears, the mover is
    replaced by the man put on the destination; the rook's hop changes nothing. -/
theorem cnt_cfg5 {f : Cfg} {b : Board} {m : Move} (ch : Chain f b m) (c : Color) (k : Piece) :
    cnt (cfg5 f b m) c k + ind (c = b.stm.flip ∧ b.pieceAt (b.captureSq m) = k ∧ k ≠ Piece.none) +
        ind (c = b.stm ∧ b.pieceAt (Move.src m) = k ∧ k ≠ Piece.none) =
      cnt f c k + ind (c = b.stm ∧ mvPut b m = k ∧ k ≠ Piece.none) := by
  have h1 := cnt_upd f (b.captureSq m) (captureSq_lt b m) none c k
  have h2 := cnt_upd (cfg1 f b m) (Move.src m) (src_lt m) none c k
  have h3 := cnt_upd (cfg2 f b m) (Move.dst m) (dst_lt m) (man b.stm (mvPut b m)) c k
  rw [ch.f1, ind_congr (man_eq_some _ _ _ _)] at h1
  rw [ch.f2, ind_congr (man_eq_some _ _ _ _)] at h2
  rw [ch.f3, ind_congr (man_eq_some _ _ _ _)] at h3
  have n1 : ind ((none : Option (Color × Piece)) = some (c, k)) = 0 := ind_neg (by simp)
  rw [n1] at h1 h2 h3
  have h5 : cnt (cfg5 f b m) c k = cnt (cfg3 f b m) c k := by
    unfold cfg5
    cases hh : hop (b.pieceAt (Move.src m)) m with
    | none => rfl
    | some v =>
      obtain ⟨rf, rt⟩ := v
      obtain ⟨a1, a2, a3, a4, _⟩ := ch.f4 rf rt hh
      simp only [hopCfg]
      have g1 := cnt_upd (cfg3 f b m) rf a1 none c k
      have g2 := cnt_upd (upd (cfg3 f b m) rf none) rt a2 (man b.stm Piece.rook) c k
      rw [a3] at g1
      rw [a4] at g2
      rw [n1] at g1 g2
      omega
  show cnt (cfg5 f b m) c k + _ + _ = _
  have e1 : cnt (cfg1 f b m) c k = cnt (upd f (b.captureSq m) none) c k := rfl
  have e2 : cnt (cfg2 f b m) c k = cnt (upd (cfg1 f b m) (Move.src m) none) c k := rfl
  have e3 : cnt (cfg3 f b m) c k = cnt (upd (cfg2 f b m) (Move.dst m) (man b.stm (mvPut b m))) c k := rfl
  omega

/-! ### the rule book's `count` -/

theorem count_eq_cnt {p : Pos} {f : Cfg} (h : ∀ s, s < 64 → p.at_ s = f s) (c : Color) (k : Piece) :
    Rules.count p c k = cnt f c k := by
  unfold Rules.count cnt
  rw [← List.countP_eq_length_filter]
  apply List.countP_congr
  intro s hs
  unfold Pos.has
  rw [h s (List.mem_range.1 hs)]

end ChessVerif.Playable
