/-
  TERMINATION of the search skeleton, driver level: the aspiration loop, iterative deepening, `go`.

  `idLoop` runs at most 64 iterations (its own counter; reaching 0 is not reported as running out of
  fuel, and `idD < MaxPlies` ends the loop there anyway).  Each iteration runs the aspiration loop
  `aspiration c L fuel idD fuel …`, whose counter is `fuel` as well: a chain of more than `fuel`
  re-searches of one iteration is reported as running out of fuel.

  THE GENERIC SKELETON DOES ALLOW AN INFINITE ASPIRATION LOOP: with `windowSize = 0` (allowed by
  `ScoreLaws.window`) the window after the first iteration is `(s, s)`, every result fails low or high,
  the widening `factor * 0` is 0 — `for !awOk` never ends unless the search is stopped; and for any
  window size `factor` doubles in int16 and is 0 from the 17th failure on.  What bounds the chain is the
  argument of Proofs/SearchScoreFree.lean (`AspLaws`: a safe window size, `39..44` or `78..88`; `AspInv`): un-aborted results
  lie within `±Inf`, a side of the window that has left `±Inf` cannot fail again, `factor` doubles at
  every failure, so a failure is possible only while `factor ≤ 512`: AT MOST TEN FAILURES, the eleventh
  search of an iteration is in-window or aborted.  "Results within `±Inf`" is the score-range theorem,
  which holds as long as no out-of-band value was handed to a table store (`ttOut`, see
  Proofs/SearchScoreQ2.lean) — so the driver-level statement carries that run-level hypothesis (it is
  void for components with the null-move guard, `NmpFloor`).  The node-level statements
  (`alphaBeta_fuel`, `quiescence_fuel`) need no such hypothesis.

  `goFuel = 112 = max abFuel 11`.  The loops are proved once, from the root-level fact `RootFuel` ("the root
  search of iteration `idD` has enough fuel") for the iterations that can run — `idD < MaxPlies`, and
  `idD ≤ L.depth` unless the search was started in ponder mode (`s.pondering` can only be switched off) —
  and instantiated twice: with the ply argument (`go_fuel`, no law about depths) and with the
  depth-sensitive bound under `DepthLaws` (`go_fuel_depth`: `goFuelD L = min L.depth 63 + 49`).
-/
import ChessVerif.Proofs.SearchFuel
import ChessVerif.Proofs.SearchScoreFree2

namespace ChessVerif
namespace Search

variable {σ π : Type} [PsInv σ]

/-- the number of doublings behind a value of `factor` (11 for anything that is not `2^k`, `k ≤ 10`). -/
def lg (f : Int) : Nat :=
  if f = 1 then 0 else if f = 2 then 1 else if f = 4 then 2 else if f = 8 then 3 else if f = 16 then 4
  else if f = 32 then 5 else if f = 64 then 6 else if f = 128 then 7 else if f = 256 then 8
  else if f = 512 then 9 else if f = 1024 then 10 else 11

theorem lg_step {f : Int} (h : Pow2 f) : lg (wrapS16 (f * 2)) = lg f + 1 := by
  unfold Pow2 at h
  rcases h with rfl | rfl | rfl | rfl | rfl | rfl | rfl | rfl | rfl | rfl | rfl <;> decide

theorem lg_le {W a b f : Int} (h : AspInv W a b f) : lg f ≤ 10 := by
  rcases h with ⟨_, _, hf⟩ | ⟨_, _, _, _, _, _, _, _, hp, _⟩
  · subst hf; decide
  · unfold Pow2 at hp
    rcases hp with rfl | rfl | rfl | rfl | rfl | rfl | rfl | rfl | rfl | rfl | rfl <;> decide

theorem aspInv_pow2 {W a b f : Int} (h : AspInv W a b f) : Pow2 f := by
  rcases h with ⟨_, _, hf⟩ | ⟨_, _, _, _, _, _, _, _, hp, _⟩
  · exact Or.inl hf
  · exact hp

/-- the fuel `go` needs: the root node's 112; the aspiration counter needs 11. -/
def goFuel : Nat := 112

/-- as long as `ttOut` is down, so is `fuelOut`. -/
def FuelGuard (s : St σ) : Prop := s.ttOut = false → s.fuelOut = false

/-- the root search of an iteration of depth `idD` does not run out of fuel. -/
def RootFuel (c : Comp σ π) (L : Limits) (Good : Board → Prop) (fuel : Nat) (idD : Int) : Prop :=
  ∀ (a b : Score) (s : St σ), Good s.board → PsInv.ok s.ps → s.fuelOut = false →
    (alphaBeta c L fuel a b idD 0 .pv s).2.fuelOut = false

/-- one iteration's aspiration loop: from a reachable window with `n + lg factor ≥ 11` searches left the
    loop does not run out of its counter, nor any search in it of its fuel — as long as `ttOut` is down. -/
theorem aspiration_fuel (c : Comp σ π) (L : Limits) {Good : Board → Prop} {TTok : σ → Prop} {μ : Board → Nat}
    (hl : Laws c Good) (sl : ScoreLaws c Good TTok μ) (al : AspLaws c) {fuel : Nat} (idD : Int)
    (hroot : RootFuel c L Good fuel idD) :
    ∀ (n : Nat) (alpha beta factor : Score) (s : St σ), Good s.board → TTA2 TTok s →
      (s.ttOut = false → s.fuelOut = false ∧ AspInv c.windowSize alpha beta factor ∧ 11 ≤ n + lg factor) →
      FuelGuard (aspiration c L fuel idD n alpha beta factor s).st := by
  intro n
  induction n with
  | zero =>
    intro alpha beta factor s _ _ hinv hA
    have hA' : s.ttOut = false := hA
    obtain ⟨_, hi, hn⟩ := hinv hA'
    have := lg_le hi
    omega
  | succ n ih =>
    intro alpha beta factor s hg htt hinv
    have hab := alphaBeta_spec c L hl fuel alpha beta idD 0 .pv s hg htt.1 (Int.le_refl 0)
    have hrg := alphaBeta_range2 c L hl sl fuel alpha beta idD 0 .pv s hg (Int.le_refl 0) (by decide)
      (fun hA => (aspInv_win al.windowSafe (hinv hA).2.1).1) htt
    have hfr := fun hfo => hroot alpha beta s hg htt.1 hfo
    simp only [aspiration]
    generalize alphaBeta c L fuel alpha beta idD 0 .pv s = r at hab hrg hfr ⊢
    have haf := abort_frame L r.2
    have hps := abort_ps L r.2
    have han := abort_ttOut L r.2
    have hafo := abort_fuelOut L r.2
    have hfa := @abort_false σ _ L r.2
    generalize abort L r.2 = as at haf hps han hafo hfa ⊢
    have htt2 : TTA2 TTok as.2 := hrg.1.congr hps han
    have hback : as.2.ttOut = false → s.ttOut = false := fun h => hab.1.mono.t_back (by rw [← han]; exact h)
    have hfo2 : as.2.ttOut = false → as.2.fuelOut = false := fun hA => by
      rw [hafo]; exact hfr (hinv (hback hA)).1
    split
    · exact hfo2
    · next hna =>
      have hna' : as.1 = false := by simpa using hna
      have hrab : r.2.aborted = false := (hfa hna').2
      have hsr : as.2.ttOut = false → InR r.1 := fun hA => hrg.2 hrab (by rw [← han]; exact hA)
      split
      · exact hfo2
      · next hnin =>
        have hout : r.1 ≤ alpha ∨ beta ≤ r.1 := by
          by_cases h1 : r.1 ≤ alpha
          · exact Or.inl h1
          · by_cases h2 : beta ≤ r.1
            · exact Or.inr h2
            · exfalso; apply hnin; simp [h1, h2]
        have hb2 : as.2.board = s.board := by rw [haf.board, hab.1.board]
        refine ih _ _ _ as.2 (by rw [hb2]; exact hg) htt2 (fun hA => ?_)
        obtain ⟨_, hi, hn⟩ := hinv (hback hA)
        refine ⟨hfo2 hA, aspInv_step al.windowSafe hi (hsr hA) hout, ?_⟩
        rw [lg_step (aspInv_pow2 hi)]
        omega

omit [PsInv σ] in
/-- the ponder-hit poll never switches pondering ON. -/
theorem ponderPoll_true {L : Limits} {p : Bool} {k : Nat} (h : (ponderPoll L p k).1 = true) : p = true := by
  unfold ponderPoll at h
  cases p
  · simp at h
  · rfl

/-- `idLoop`: no iteration runs out of fuel — as long as `ttOut` stays down — provided the root search
    of every iteration that can run (`idD < MaxPlies`, and `idD ≤ L.depth` unless the search was
    started in ponder mode) has enough fuel, and the aspiration counter `fuel` is at least 11. -/
theorem idLoop_fuel (c : Comp σ π) (L : Limits) (clock : Clock) {Good : Board → Prop} {TTok : σ → Prop} {μ : Board → Nat}
    (hl : Laws c Good) (sl : ScoreLaws c Good TTok μ) (al : AspLaws c) {fuel : Nat} (hfu11 : 11 ≤ fuel)
    (hroot : ∀ idD, 0 ≤ idD → idD < 64 → (idD ≤ L.depth ∨ L.ponder.isSome = true) → RootFuel c L Good fuel idD)
    (b : Board) (hg : Good b) :
    ∀ (n : Nat) (idD : Int) (v : IDVars) (s : St σ), s.board = b → 0 ≤ idD → (n : Int) + idD = 64 →
      (s.pondering = true → L.ponder.isSome = true) →
      TTA2 TTok s → (s.ttOut = false → s.fuelOut = false ∧ AspInv c.windowSize v.alpha v.beta 1) →
      FuelGuard (idLoop c L clock fuel n idD v s).st := by
  intro n
  induction n with
  | zero =>
    intro idD v s _ _ _ _ _ hw hA
    exact (hw hA).1
  | succ n ih =>
    intro idD v s hb h0 hn hpo htt hw
    simp only [idLoop]
    split
    · intro hA; exact (hw hA).1
    · next hcond =>
      have hlt64 : idD < 64 := by
        apply Classical.byContradiction
        intro hge
        apply hcond
        have e1 : decide (idD < maxPlies) = false := decide_eq_false (by unfold maxPlies; omega)
        simp [e1]
      have hrun : idD ≤ L.depth ∨ L.ponder.isSome = true := by
        by_cases hle : idD ≤ L.depth
        · exact Or.inl hle
        · right
          apply hpo
          cases hp : s.pondering
          · exfalso
            apply hcond
            have e2 : decide (idD ≤ L.depth) = false := decide_eq_false hle
            simp [e2, hp]
          · rfl
      have hasp := aspiration_spec c L hl fuel idD fuel v.alpha v.beta 1 s (by rw [hb]; exact hg) htt.1
      have hsc := aspiration_free2 c L hl sl al fuel idD fuel v.alpha v.beta 1 s (by rw [hb]; exact hg) htt
        (fun hA => (hw hA).2)
      have hfo := aspiration_fuel c L hl sl al idD (hroot idD h0 hlt64 hrun) fuel v.alpha v.beta 1 s
        (by rw [hb]; exact hg) htt
        (fun hA => ⟨(hw hA).1, (hw hA).2, by have : lg 1 = 0 := rfl; omega⟩)
      generalize aspiration c L fuel idD fuel v.alpha v.beta 1 s = a at hasp hsc hfo ⊢
      cases a with
      | aborted s' =>
        simp only [Asp.st] at hfo
        simp only
        split
        · exact hfo
        · exact hfo
      | ok al' be sample s' =>
        obtain ⟨hf, _⟩ := hasp
        simp only [Asp.st] at hf hsc hfo
        have hb' : s'.board = b := hf.board.trans hb
        obtain ⟨htt', hokc⟩ := hsc
        have hokc' := fun hA => hokc al' be sample s' rfl hA
        simp only
        split
        · exact hfo
        · have hw' : wrapS8 (idD + 1) = idD + 1 := by unfold wrapS8; omega
          rw [hw']
          apply ih
          · exact hb'
          · omega
          · push_cast at hn ⊢; omega
          · intro hp
            have hp' : (ponderPoll L s'.pondering v.ppolls).1 = true := hp
            have := ponderPoll_true hp'
            rw [hf.mono.pondering] at this
            exact hpo this
          · exact htt'.congr rfl rfl
          · intro hA
            have hA' : s'.ttOut = false := hA
            refine ⟨hfo hA', ?_⟩
            show AspInv c.windowSize (wrapS16 (sample - c.windowSize)) (wrapS16 (sample + c.windowSize)) 1
            exact aspInv_first al.windowSafe (hokc' hA').1

/-- `go` from the root-level fuel facts. -/
theorem go_fuel_of_root (c : Comp σ π) (L : Limits) (clock : Clock) {Good : Board → Prop} {TTok : σ → Prop}
    {μ : Board → Nat} (hl : Laws c Good) (sl : ScoreLaws c Good TTok μ) (al : AspLaws c) {fuel : Nat} (hfu11 : 11 ≤ fuel)
    (hroot : ∀ idD, 0 ≤ idD → idD < 64 → (idD ≤ L.depth ∨ L.ponder.isSome = true) → RootFuel c L Good fuel idD)
    (e : Engine σ) (b : Board) (hg : Good b) (nodes0 : Int) (htt : TTok e.ps)
    (hA : (go c L clock fuel e b nodes0).st.ttOut = false) :
    (go c L clock fuel e b nodes0).st.fuelOut = false := by
  have h := idLoop_fuel c L clock hl sl al hfu11 hroot b hg 64 0
    { alpha := -Inf - 1, beta := Inf + 1, score := 0, move := 0, ponder := 0, reads := 0, ppolls := 0, out := [] }
    (goInit L e b nodes0) rfl (Int.le_refl 0) (by decide) (fun h => h) ⟨sl.tt_ok _ htt, fun _ => htt⟩
    (fun _ => ⟨rfl, aspInv_init⟩)
  exact h hA

/-- **`go` terminates** (generic form): with at least `goFuel = 112` units of fuel no search function
    called in the run runs out of fuel and no loop counter of the model is exhausted — for every
    request (limits, clock, caller counter), every `Good` root and every prior engine state with sound
    tables, as long as no out-of-band value was handed to a table store in the run (`ttOut`). -/
theorem go_fuel (c : Comp σ π) (L : Limits) (clock : Clock) {Good : Board → Prop} {TTok : σ → Prop} {μ : Board → Nat}
    (hl : Laws c Good) (sl : ScoreLaws c Good TTok μ) (al : AspLaws c) (fl : FuelLaws c Good μ) {fuel : Nat}
    (hfu : goFuel ≤ fuel) (e : Engine σ) (b : Board) (hg : Good b) (nodes0 : Int) (htt : TTok e.ps)
    (hA : (go c L clock fuel e b nodes0).st.ttOut = false) :
    (go c L clock fuel e b nodes0).st.fuelOut = false :=
  go_fuel_of_root c L clock hl sl al (by unfold goFuel at hfu; omega)
    (fun idD _ _ _ a b' s hg' hok hfo => alphaBeta_fuel_root c L hl fl hfu a b' idD .pv s hg' hok hfo)
    e b hg nodes0 htt hA

/-- the fuel a request needs under `DepthLaws`: the deepest iteration that can run is
    `min L.depth 63` (any iteration below `MaxPlies` when the search was started in ponder mode, where the
    depth limit is ignored until the ponder hit), and an iteration of depth `d` needs `d + 49`. -/
def goFuelD (L : Limits) : Nat := if L.ponder.isSome then 112 else (min L.depth 63).toNat + 49

/-- **`go` terminates, depth-sensitive form**: under `DepthLaws` a request with depth limit `D` (not in
    ponder mode) needs `min D 63 + 49` units of fuel only. -/
theorem go_fuel_depth (c : Comp σ π) (L : Limits) (clock : Clock) {Good : Board → Prop} {TTok : σ → Prop} {μ : Board → Nat}
    (hl : Laws c Good) (sl : ScoreLaws c Good TTok μ) (al : AspLaws c) (fl : FuelLaws c Good μ) (dl : DepthLaws c)
    {fuel : Nat} (hfu : goFuelD L ≤ fuel) (e : Engine σ) (b : Board) (hg : Good b) (nodes0 : Int) (htt : TTok e.ps)
    (hA : (go c L clock fuel e b nodes0).st.ttOut = false) :
    (go c L clock fuel e b nodes0).st.fuelOut = false := by
  refine go_fuel_of_root c L clock hl sl al ?_ ?_ e b hg nodes0 htt hA
  · unfold goFuelD at hfu
    split at hfu <;> omega
  · intro idD h0 h64 hrun a b' s hg' hok hfo
    refine alphaBeta_fuel_depth c L hl fl dl fuel a b' idD 0 .pv s hg' hok (Int.le_refl 0) (by decide) h0 (by omega) ?_ hfo
    unfold goFuelD at hfu
    split at hfu
    · omega
    · next hp =>
      rcases hrun with h | h
      · omega
      · exact absurd h hp

end Search
end ChessVerif
