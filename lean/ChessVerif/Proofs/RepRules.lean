/-
  C10, rules-level ingredients (on `Spec/Rules.lean` only):
  * the side to move alternates;
  * `no_repeat_in_two`: after a legal move and a legal reply the position is not the one before the
    two moves — the origin square of the first move held a man of the first mover, is vacated by the
    move, and after the reply it is vacant or holds a man of the replying side.
-/
import ChessVerif.Spec.Rules

namespace ChessVerif
namespace Rules

theorem getD_setMan (men : Vector (Option Man) 64) (i s : Nat) (x : Option Man) :
    (setMan men i x).getD s none = if i = s ∧ s < 64 then x else men.getD s none := by
  unfold setMan
  simp only [Vector.getD, Vector.toArray_setIfInBounds]
  by_cases hs : s < 64
  · by_cases e : i = s
    · subst e; simp [hs, Array.getD]
    · simp [e, Array.getD, hs]
  · simp [hs, Array.getD]

/-! ### the placement part of `applyCore`, named -/

/-- the placement after the en-passant removal, the vacation of the origin and the arrival. -/
def baseMen (p : Pos) (mv : Mv) : Vector (Option Man) 64 :=
  let men := p.men
  let men := if isEnPassant p mv then setMan men (8 * (mv.src / 8) + mv.dst % 8) none else men
  let men := setMan men mv.src none
  let placed : Option Man := match mv.promo with | some q => some (p.turn, q) | none => p.at_ mv.src
  setMan men mv.dst placed

/-- the rook part of castling. -/
def castleMen (p : Pos) (mv : Mv) (men : Vector (Option Man) 64) : Vector (Option Man) 64 :=
  if isCastling p mv then
    let base := 8 * (mv.src / 8)
    if mv.dst % 8 == 6 then setMan (setMan men (base + 7) none) (base + 5) (some (p.turn, .rook))
    else setMan (setMan men base none) (base + 3) (some (p.turn, .rook))
  else men

theorem applyCore_men (p : Pos) (mv : Mv) : (applyCore p mv).men = castleMen p mv (baseMen p mv) := rfl

theorem applyCore_turn (p : Pos) (mv : Mv) : (applyCore p mv).turn = p.turn.flip := rfl

theorem apply_men (p : Pos) (mv : Mv) : (apply p mv).men = (applyCore p mv).men := by
  simp only [Rules.apply]
  split <;> rfl

/-- **the side to move alternates.** -/
theorem apply_turn (p : Pos) (mv : Mv) : (apply p mv).turn = p.turn.flip := by
  simp only [Rules.apply]
  split <;> rfl

/-! ### what legality says about the origin square -/

structure OriginFacts (p : Pos) (mv : Mv) : Prop where
  src_lt : mv.src < 64
  dst_lt : mv.dst < 64
  mover : ∃ k, p.at_ mv.src = some (p.turn, k)
  ne : mv.dst ≠ mv.src
  castle_file : isCastling p mv = true → mv.src % 8 = 4

theorem homeSquare (c : Color) : (8 * homeRank c + 4).toNat % 8 = 4 := by cases c <;> decide

theorem natAbs_two_not_king (df dr : Nat) (h : df = 2) : ¬ (max df dr = 1) := by omega

theorem originFacts {p : Pos} {mv : Mv} (h : pseudoLegal p mv = true) : OriginFacts p mv := by
  unfold pseudoLegal at h
  simp only [Bool.and_eq_true, decide_eq_true_eq] at h
  obtain ⟨⟨hs, hd⟩, hm⟩ := h
  cases hat : p.at_ mv.src with
  | none => simp [hat] at hm
  | some m =>
    obtain ⟨c', k⟩ := m
    simp only [hat, Bool.and_eq_true, beq_iff_eq, Bool.not_eq_true'] at hm
    obtain ⟨⟨hc, hdst⟩, hk⟩ := hm
    subst hc
    refine ⟨hs, hd, ⟨k, hat⟩, ?_, ?_⟩
    · intro e
      rw [e] at hdst
      simp [Pos.hasColor, hat] at hdst
    · intro hcas
      simp only [isCastling, Bool.and_eq_true, beq_iff_eq] at hcas
      obtain ⟨hking, hdf⟩ := hcas
      have hk' : k = .king := by
        simp only [Pos.has, hat, beq_iff_eq, Option.some.injEq, Prod.mk.injEq] at hking
        exact hking.2
      subst hk'
      simp only [Bool.and_eq_true, Bool.or_eq_true] at hk
      rcases hk.2 with hatt | hcas
      · exfalso
        simp only [manAttacks, beq_iff_eq] at hatt
        omega
      · unfold castlingOK at hcas
        by_cases e : mv.src = (8 * homeRank p.turn + 4).toNat
        · rw [e]; exact homeSquare _
        · simp [e] at hcas

/-! ### squares touched by a move -/

/-- the content of square `s` in `men` is what it was in `p`, or vacant, or a man of colour `c`. -/
def Touched (p : Pos) (c : Color) (s : Nat) (men : Vector (Option Man) 64) : Prop :=
  men.getD s none = p.at_ s ∨ men.getD s none = none ∨ ∃ k, men.getD s none = some (c, k)

theorem Touched.setMan {p : Pos} {c : Color} {s : Nat} {men : Vector (Option Man) 64} (h : Touched p c s men)
    (i : Nat) (x : Option Man) (hx : x = none ∨ ∃ k, x = some (c, k)) : Touched p c s (setMan men i x) := by
  unfold Touched
  rw [getD_setMan]
  split
  · exact Or.inr hx
  · exact h

theorem touched_applyCore {p : Pos} {mv : Mv} (hf : OriginFacts p mv) (s : Nat) :
    Touched p p.turn s (applyCore p mv).men := by
  have h0 : Touched p p.turn s p.men := Or.inl rfl
  have h1 : Touched p p.turn s
      (if isEnPassant p mv then setMan p.men (8 * (mv.src / 8) + mv.dst % 8) none else p.men) := by
    split
    · exact h0.setMan _ _ (Or.inl rfl)
    · exact h0
  have hplaced : ∀ placed : Option Man,
      (placed = match mv.promo with | some q => some (p.turn, q) | none => p.at_ mv.src) →
      (placed = none ∨ ∃ k, placed = some (p.turn, k)) := by
    intro placed hp
    obtain ⟨k, hk⟩ := hf.mover
    cases hpr : mv.promo with
    | none => rw [hpr] at hp; exact Or.inr ⟨k, by rw [hp, hk]⟩
    | some q => rw [hpr] at hp; exact Or.inr ⟨q, hp⟩
  have h2 : Touched p p.turn s (baseMen p mv) :=
    (h1.setMan _ _ (Or.inl rfl)).setMan _ _ (hplaced _ rfl)
  rw [applyCore_men]
  unfold castleMen
  split
  · split
    · exact (h2.setMan _ _ (Or.inl rfl)).setMan _ _ (Or.inr ⟨_, rfl⟩)
    · exact (h2.setMan _ _ (Or.inl rfl)).setMan _ _ (Or.inr ⟨_, rfl⟩)
  · exact h2

/-- a legal move vacates its origin square. -/
theorem src_vacated {p : Pos} {mv : Mv} (hf : OriginFacts p mv) : (applyCore p mv).at_ mv.src = none := by
  have hb : (baseMen p mv).getD mv.src none = none := by
    unfold baseMen
    simp only [getD_setMan, hf.ne, false_and, if_false, hf.src_lt, and_self, if_true]
  unfold Pos.at_
  rw [applyCore_men]
  unfold castleMen
  split
  · rename_i hc
    have h4 := hf.castle_file hc
    have hbase : 8 * (mv.src / 8) = mv.src - 4 := by omega
    split
    · simp only [getD_setMan]
      split
      · omega
      · split
        · rfl
        · exact hb
    · simp only [getD_setMan]
      split
      · omega
      · split
        · rfl
        · exact hb
  · exact hb

/-- **no repetition within two plies**: after a legal move and a legal reply the placement differs
    from the placement before the two moves (on the origin square of the first move). -/
theorem men_ne_after_two {p : Pos} {mv₁ mv₂ : Mv} (h₁ : legal p mv₁ = true) (h₂ : legal (apply p mv₁) mv₂ = true) :
    (apply (apply p mv₁) mv₂).men ≠ p.men := by
  have hp₁ : pseudoLegal p mv₁ = true := by
    simp only [legal, Bool.and_eq_true] at h₁; exact h₁.1
  have hp₂ : pseudoLegal (apply p mv₁) mv₂ = true := by
    simp only [legal, Bool.and_eq_true] at h₂; exact h₂.1
  have f₁ := originFacts hp₁
  have f₂ := originFacts hp₂
  obtain ⟨k, hk⟩ := f₁.mover
  -- the origin square is vacant after the first move …
  have hv : (apply p mv₁).at_ mv₁.src = none := by
    have := src_vacated f₁
    unfold Pos.at_ at this ⊢
    rw [apply_men]; exact this
  -- … and after the reply it is unchanged (vacant), vacant, or holds a man of the replying side
  have ht := touched_applyCore f₂ mv₁.src
  intro he
  have hat : (apply (apply p mv₁) mv₂).men.getD mv₁.src none = some (p.turn, k) := by
    rw [he]; exact hk
  rw [apply_men] at hat
  rcases ht with h | h | ⟨k', h⟩
  · rw [h, hv] at hat; cases hat
  · rw [h] at hat; cases hat
  · rw [h, apply_turn] at hat
    have : p.turn.flip = p.turn := by
      have := Option.some.inj hat
      exact (Prod.mk.inj this).1
    exact Color.flip_ne _ this

theorem same_men {p q : Pos} (h : sameForRepetition p q = true) : p.men = q.men := by
  simp only [sameForRepetition, Bool.and_eq_true, beq_iff_eq] at h
  exact h.1.1.1

theorem same_turn {p q : Pos} (h : sameForRepetition p q = true) : p.turn = q.turn := by
  simp only [sameForRepetition, Bool.and_eq_true, beq_iff_eq] at h
  exact h.1.1.2

theorem same_refl (p : Pos) : sameForRepetition p p = true := by
  simp [sameForRepetition]

/-- `no_repeat_in_two` on `Rules.Pos`, both orientations. -/
theorem no_repeat_in_two {p : Pos} {mv₁ mv₂ : Mv} (h₁ : legal p mv₁ = true) (h₂ : legal (apply p mv₁) mv₂ = true) :
    sameForRepetition p (apply (apply p mv₁) mv₂) = false ∧
    sameForRepetition (apply (apply p mv₁) mv₂) p = false := by
  constructor
  · cases h : sameForRepetition p (apply (apply p mv₁) mv₂) with
    | false => rfl
    | true => exact absurd (same_men h).symm (men_ne_after_two h₁ h₂)
  · cases h : sameForRepetition (apply (apply p mv₁) mv₂) p with
    | false => rfl
    | true => exact absurd (same_men h) (men_ne_after_two h₁ h₂)

/-! ### cheap forms for evaluating concrete games (no enumeration of legal moves) -/

theorem legalEpCaptures_ep_none {p : Pos} (h : p.ep = none) : legalEpCaptures p = [] := by
  unfold legalEpCaptures
  rw [List.filter_eq_nil_iff]
  intro mv _
  simp [isEnPassant, h]

/-- `apply` without the enumeration when the move is not a double pawn push. -/
def applyFast (p : Pos) (mv : Mv) : Pos := if isDoublePush p mv then apply p mv else applyCore p mv

theorem apply_eq_fast (p : Pos) (mv : Mv) : apply p mv = applyFast p mv := by
  unfold applyFast
  split
  · rfl
  · rename_i h
    have hep : (applyCore p mv).ep = none := by simp [applyCore, h]
    simp only [Rules.apply]
    split
    · cases hq : applyCore p mv
      rw [hq] at hep
      simp_all
    · rfl

theorem legal_of_mem_legalMoves {p : Pos} {mv : Mv} (h : mv ∈ legalMoves p) : legal p mv = true := by
  unfold legalMoves at h
  simp only [List.mem_flatMap, List.mem_range] at h
  obtain ⟨s, _, hs⟩ := h
  split at hs
  · simp only [List.mem_flatMap, List.mem_range, List.mem_filterMap] at hs
    obtain ⟨d, _, q, _, hq⟩ := hs
    split at hq
    · rename_i hl
      cases hq
      exact hl
    · cases hq
  · cases hs

/-- cheap sufficient test that no en-passant capture is possible: no target, or no pawn of the side
    to move diagonally behind the target. -/
def capsNil (p : Pos) : Bool :=
  match p.ep with
  | none => true
  | some t => (List.range 64).all fun s =>
      !(p.has s p.turn .pawn && (file t - file s).natAbs == 1 && rank t - rank s == up p.turn)

theorem capsNil_sound {p : Pos} (h : capsNil p = true) : legalEpCaptures p = [] := by
  unfold legalEpCaptures
  rw [List.filter_eq_nil_iff]
  intro mv hmv hep
  have hl := legal_of_mem_legalMoves hmv
  simp only [legal, Bool.and_eq_true] at hl
  have hps := hl.1
  simp only [isEnPassant, Bool.and_eq_true, beq_iff_eq, decide_eq_true_eq] at hep
  obtain ⟨⟨⟨hpawn, hept⟩, hfile⟩, _⟩ := hep
  unfold capsNil at h
  rw [hept] at h
  simp only [List.all_eq_true, List.mem_range] at h
  unfold pseudoLegal at hps
  simp only [Bool.and_eq_true, decide_eq_true_eq] at hps
  obtain ⟨⟨hs, _⟩, hm⟩ := hps
  have hat : p.at_ mv.src = some (p.turn, .pawn) := by
    simpa [Pos.has] using hpawn
  simp only [hat, Bool.and_eq_true, Bool.or_eq_true, beq_iff_eq] at hm
  have hc := h mv.src hs
  simp only [hpawn, Bool.true_and, Bool.not_eq_true', Bool.and_eq_false_iff, beq_eq_false_iff_ne] at hc
  have hdf : file mv.dst - file mv.src ≠ 0 := by omega
  rcases hm.2.2 with (⟨⟨h0, _⟩, _⟩ | h0) | h0
  · exact hdf h0
  · exact hdf h0.1.1.1.1
  · rcases hc with hc | hc
    · exact hc h0.1.1
    · exact hc h0.1.2

/-- `sameForRepetition` without the enumeration when neither position can have an en-passant capture. -/
def sameFast (p q : Pos) : Bool :=
  if capsNil p && capsNil q then p.men == q.men && p.turn == q.turn && p.rights == q.rights
  else sameForRepetition p q

theorem same_eq_fast (p q : Pos) : sameForRepetition p q = sameFast p q := by
  unfold sameFast
  split
  · rename_i h
    simp only [Bool.and_eq_true] at h
    simp [sameForRepetition, capsNil_sound h.1, capsNil_sound h.2]
  · rfl

end Rules
end ChessVerif
