/-
  A VALUE invariant of the transposition-table model (Model/Transp.lean) and what it gives the real
  search components (Model/SearchReal.lean); the analogue of Proofs/SearchRealTT.lean (MOVE field).

  * `EntryOK e`: the raw int16 value is within ±Inf (two-sided, independent of the bound type);
  * `TTValsOK t` (every entry of every bucket is `EntryOK`) holds of `Table.new` / `Table.clear`, is
    inherited by every `LookUp` result, and is preserved by `Insert` at `0 ≤ ply ≤ 127` of a value in
    `[-hiP ply, hiP ply]` (`Search.hiP ply = max 9936 (10000 - ply)`): the mate re-basing of `Insert`
    neither wraps nor leaves ±Inf (`storedValue_ok`);
  * reading an `EntryOK` entry at `0 ≤ ply ≤ 127` gives a value in `[-hiP ply, hiP ply]` (`valueAt_ok`);
  * hence for `PS`: `ttProbe_valueOK`, `ttStore_valsOK`, `failHigh_tt`, `nextGen_tt`, `new_valsOK`,
    `clear_valsOK`.
-/
import ChessVerif.Proofs.SearchRealTT
import ChessVerif.Proofs.SearchScoreLaws

namespace ChessVerif
namespace SearchReal
open Search Model.Transp
set_option autoImplicit false

/-- an entry's raw value is within ±Inf -/
def EntryOK (e : Model.Transp.Entry) : Prop := -10000 ≤ e.value ∧ e.value ≤ 10000

def TTValsOK (t : Model.Transp.Table) : Prop :=
  ∀ i j, EntryOK ((t.getD i Model.Transp.Bucket.zero).get j)

theorem entryOK_zero : EntryOK Entry.zero := by
  unfold EntryOK Entry.zero
  simp

theorem zero_get_entryOK (j : Nat) : EntryOK (Bucket.zero.get j) := by
  have : Bucket.zero.get j = Entry.zero := by
    unfold Bucket.get Bucket.zero
    split <;> rfl
  rw [this]; exact entryOK_zero

/-- all four entries of a bucket are `EntryOK`. -/
def BucketValsOK (b : Bucket) : Prop := ∀ j, EntryOK (b.get j)

theorem bucketValsOK_zero : BucketValsOK Bucket.zero := zero_get_entryOK

theorem ttValsOK_new (size : Nat) : TTValsOK (Model.Transp.Table.new size) := by
  intro i j
  have : (Table.new size).getD i Bucket.zero = Bucket.zero := by
    unfold Table.new
    simp only [Array.getD]
    split <;> simp
  rw [this]; exact zero_get_entryOK j

theorem ttValsOK_clear (t : Model.Transp.Table) : TTValsOK t.clear := by
  intro i j
  have : t.clear.getD i Bucket.zero = Bucket.zero := by
    unfold Table.clear
    simp only [Array.getD]
    split <;> simp
  rw [this]; exact zero_get_entryOK j

theorem lookUp_entryOK {t : Model.Transp.Table} (h : TTValsOK t) {hash : BitVec 64} {e : Entry}
    (he : t.lookUp hash = some e) : EntryOK e := by
  unfold Table.lookUp Bucket.lookUp at he
  split at he
  · simp only [Option.some.injEq] at he
    rw [← he]; exact h _ _
  · cases he

/-- `entry.Value` with the thresholds as numerals -/
theorem valueAt_eq (e : Entry) (ply : Int) :
    e.valueAt ply = if e.value > 9936 then wrapS16 (e.value - ply)
      else if e.value < -9936 then wrapS16 (e.value + ply) else e.value := rfl

/-- the re-basing of `Insert` with the thresholds as numerals -/
theorem storedValue_eq (v ply : Int) :
    storedValue v ply =
      if (if v < -9936 then wrapS16 (v - ply) else v) > 9936
      then wrapS16 ((if v < -9936 then wrapS16 (v - ply) else v) + ply)
      else (if v < -9936 then wrapS16 (v - ply) else v) := rfl

/-- reading an OK entry at a ply in 0..127 -/
theorem valueAt_ok {e : Model.Transp.Entry} (h : EntryOK e) {ply : Int} (h0 : 0 ≤ ply) (h1 : ply ≤ 127) :
    -hiP ply ≤ e.valueAt ply ∧ e.valueAt ply ≤ hiP ply := by
  obtain ⟨ha, hb⟩ := h
  rw [valueAt_eq]
  unfold hiP
  split
  · rw [wrapS16_id (by omega) (by omega)]; omega
  · split
    · rw [wrapS16_id (by omega) (by omega)]; omega
    · omega

/-- the raw value `Insert` writes at a ply in 0..127 for a score in `[-hiP ply, hiP ply]` -/
theorem storedValue_ok {v ply : Int} (h0 : 0 ≤ ply) (h1 : ply ≤ 127) (hv : -hiP ply ≤ v ∧ v ≤ hiP ply) :
    -10000 ≤ Model.Transp.storedValue v ply ∧ Model.Transp.storedValue v ply ≤ 10000 := by
  obtain ⟨ha, hb⟩ := hv
  unfold hiP at ha hb
  rw [storedValue_eq]
  by_cases c1 : v < -9936
  · have e1 : wrapS16 (v - ply) = v - ply := wrapS16_id (by omega) (by omega)
    rw [if_pos c1, e1, if_neg (by omega)]
    omega
  · rw [if_neg c1]
    by_cases c2 : v > 9936
    · have e1 : wrapS16 (v + ply) = v + ply := wrapS16_id (by omega) (by omega)
      rw [if_pos c2, e1]
      omega
    · rw [if_neg c2]
      omega

theorem get_pKeys (x : Bucket) (k : BitVec 64) (j : Nat) :
    ({ x with pKeys := k } : Bucket).get j = x.get j := by
  unfold Bucket.get; split <;> rfl

theorem bucket_insert_valsOK {b : Bucket} (h : BucketValsOK b) (hashKey : Sig) (gen : BitVec 8) (d : Int)
    {ply : Int} (h0 : 0 ≤ ply) (h1 : ply ≤ 127) (sm : BitVec 16) {v : Int} (typ : BitVec 8)
    (hv : -hiP ply ≤ v ∧ v ≤ hiP ply) :
    BucketValsOK (b.insert hashKey gen d ply sm v typ) := by
  unfold Bucket.insert
  split
  · exact h
  · rename_i r sm' heq
    intro j
    show EntryOK ((b.set r _).get j)
    rcases get_set b r
      { move := sm', value := storedValue v ply, packed := pack d typ, gen := gen } j with h1' | h1'
    · rw [get_pKeys, h1']
      exact storedValue_ok h0 h1 hv
    · rw [get_pKeys, h1']; exact h j

/-- storing a value within `±hiP ply` at a ply in 0..127 keeps the invariant -/
theorem insert_valsOK {t : Model.Transp.Table} (h : TTValsOK t) (hash : BitVec 64) (gen : BitVec 8) (d : Int)
    {ply : Int} (h0 : 0 ≤ ply) (h1 : ply ≤ 127) (sm : BitVec 16) {v : Int} (typ : BitVec 8)
    (hv : -hiP ply ≤ v ∧ v ≤ hiP ply) : TTValsOK (t.insert hash gen d ply sm v typ) := by
  intro i
  have hb : BucketValsOK (t.getD i Bucket.zero) := h i
  show BucketValsOK _
  unfold Table.insert
  rw [Array.getD_eq_getD_getElem?, Array.getElem?_modify]
  rw [Array.getD_eq_getD_getElem?] at hb
  split
  · cases hx : t[i]? with
    | none => simpa [hx] using bucketValsOK_zero
    | some x =>
      rw [hx] at hb
      exact bucket_insert_valsOK hb _ _ _ h0 h1 _ _ hv
  · exact hb

/-! non-vacuity: a mated-in score consistent with the ply is within `±hiP`, one that is not is outside;
    `Insert` re-bases it, and storing it in a fresh table yields a table the invariant holds of. -/
example : -hiP 5 ≤ (-9990 : Int) ∧ (-9990 : Int) ≤ hiP 5 := by unfold hiP; decide
example : ¬ ((9999 : Int) ≤ hiP 5) := by unfold hiP; decide
example : storedValue (-9990) 5 = -9995 := by decide
example : EntryOK { move := 7, value := -9995, packed := pack 3 exact, gen := 1 } := by
  unfold EntryOK; decide
example : TTValsOK ((Table.new 64).insert 12345 1 3 5 7 (-9990) exact) :=
  insert_valsOK (ttValsOK_new 64) _ _ _ (by decide) (by decide) _ _ (by unfold hiP; decide)

/-! ## the search components -/

theorem ttProbe_valueOK {ps : PS} (h : TTValsOK ps.tt) {b : Board} {ply : Int} {e : Search.TTHit}
    (h0 : 0 ≤ ply) (h1 : ply ≤ 127) (he : ttProbe ps b ply = some e) :
    -hiP ply ≤ e.value ∧ e.value ≤ hiP ply := by
  unfold ttProbe at he
  split at he
  · cases he
  · rename_i e' heq
    simp only [Option.some.injEq] at he
    rw [← he]
    exact valueAt_ok (lookUp_entryOK h heq) h0 h1

theorem ttStore_valsOK {ps : PS} (h : TTValsOK ps.tt) (b : Board) (d : Int) {ply : Int} (h0 : 0 ≤ ply)
    (h1 : ply ≤ 127) (m : Move) {v : Search.Score} (bd : Search.Bound)
    (hv : -hiP ply ≤ v ∧ v ≤ hiP ply) :
    TTValsOK (ttStore ps b d ply m v bd).tt :=
  insert_valsOK h _ _ _ h0 h1 _ _ hv

theorem failHigh_tt (ps : PS) (d : Int) (b : Board) (p : Pick) (hs : List Search.StackMove) :
    (failHigh ps d b p hs).tt = ps.tt := rfl

theorem nextGen_tt (ps : PS) : (nextGen ps).tt = ps.tt := rfl

theorem new_valsOK (buckets : Nat) : TTValsOK (PS.new buckets).tt := ttValsOK_new _

theorem clear_valsOK (ps : PS) : TTValsOK ps.clear.tt := ttValsOK_clear _

end SearchReal
end ChessVerif
